import GrafeoModel.Model.Sess
import GrafeoModel.Proofs.LpgLemmas

/-!
# C01 — snapshot reads;  C02 — commit / rollback all-or-nothing   (what holds, and witnesses)

The model is the code after the MVCC repairs (versions of an open transaction are stamped
`pendingEpoch` and re-stamped at commit, auto-commit writes take a fresh epoch, neighbour listings
are filtered, rollback cleans the adjacency lists). The scenarios that used to witness a dirty
read, a scan that missed committed nodes and a rolled-back edge in the adjacency list are kept as
regression theorems: they now come out right. Properties, labels and deletion marks are still
single-version (listed findings `in-place-change-outside-transaction`,
`rolled-back-change-persists`): the witnesses for those are below.
-/

namespace Grafeo.Sess
open Grafeo.Lpg Grafeo.TxMgr

/-- P (C01): a version created at an epoch above the reader's viewing epoch by somebody else is
invisible — so a reader never sees creations of transactions that *began* after its snapshot. -/
theorem c01_later_starter_creations_invisible_partial (v : Ver) (epoch tx : Nat)
    (hlater : epoch < v.created) (hother : v.owner ≠ tx) : v.visibleTo epoch tx = false := by
  unfold Ver.visibleTo Ver.visibleAt
  simp [hother]
  intro h; omega

theorem c01_later_starter_node_invisible_partial (s : Store) (id epoch tx : Nat) (c : List Ver)
    (hc : aget s.nodes id = some c) (hall : ∀ v ∈ c, epoch < v.created ∧ v.owner ≠ tx) :
    s.getNodeTo id epoch tx = none := by
  unfold Store.getNodeTo
  rw [hc]
  have : chainVisibleTo c epoch tx = false := by
    unfold chainVisibleTo
    rw [List.any_eq_false]
    intro v hv
    have := c01_later_starter_creations_invisible_partial v epoch tx (hall v hv).1 (hall v hv).2
    simp [this]
  simp [this]

/-- P (C01): a session sees every node it creates, inside a transaction (pending, own) and
outside (stamped with the fresh epoch, which is the viewing epoch from then on). -/
theorem c01_own_create_visible_partial (w : World) (k : Nat) (labels : List Nat) :
    ((w.createNode k labels).1.getNode k (w.createNode k labels).2).isSome = true := by
  unfold World.createNode World.writeCtx World.getNode World.ctx World.curOf
  cases h : (aget w.cur k).getD none with
  | some slot =>
    simp only [h]
    unfold Store.createNode Store.getNodeTo
    simp only [aget_aset, if_true]
    simp [chainVisibleTo, Ver.visibleTo, txIdOf]
  | none =>
    simp only [h, World.freshEpoch]
    unfold Store.createNode Store.getNodeTo Store.syncEpoch
    simp only [aget_aset, if_true, h]
    simp [chainVisibleTo, Ver.visibleTo, Ver.visibleAt, systemTx]

theorem aget_none_of_forall {ν : Type} (l : AList ν) (k : Nat) (h : ∀ kv ∈ l, kv.1 ≠ k) : aget l k = none := by
  induction l with
  | nil => rfl
  | cons kv rest ih =>
    obtain ⟨k0, v0⟩ := kv
    simp only [aget]
    have : k0 ≠ k := h (k0, v0) (by simp)
    rw [if_neg this]
    exact ih (fun x hx => h x (by simp [hx]))

/-- P (C02): after `rollback`, no reader — at any epoch, in any transaction — gets a node all of
whose versions were created by the rolled-back transaction. -/
theorem c02_rollback_removes_created_versions_partial (s : Store) (tx id epoch rtx : Nat)
    (hall : ∀ kv ∈ s.nodes, kv.1 = id → ∀ v ∈ kv.2, v.owner = tx) :
    (s.discard tx).getNodeTo id epoch rtx = none := by
  unfold Store.getNodeTo
  have : aget (s.discard tx).nodes id = none := by
    apply aget_none_of_forall
    intro kv hkv hk
    unfold Store.discard at hkv
    simp only [List.mem_filter, List.mem_map] at hkv
    obtain ⟨⟨kv0, hkv0, rfl⟩, hne⟩ := hkv
    simp only at hk hne
    have hown := hall kv0 hkv0 hk
    have : kv0.2.filter (fun v => v.owner != tx) = [] := by
      rw [List.filter_eq_nil_iff]
      intro v hv; simp [hown v hv]
    rw [this] at hne; simp at hne
  rw [this]

/-- R (C01, was the dirty-read witness): a node created inside an open transaction of session 1 is
invisible to session 0's point lookup, label scan and unlabelled scan, visible to session 1, and
visible to everybody after the commit. -/
theorem c01_no_dirty_read_regression :
    let w0 : World := {}
    let w1 := (w0.begin 1 .snapshot).1
    let w2 := (w1.createNode 1 [7]).1
    let w3 := (w2.commit 1).1
    (w2.getNode 0 0).isNone = true ∧ w2.scanLabel 0 7 = [] ∧ w2.scanAll 0 = [] ∧
    (w2.getNode 1 0).isSome = true ∧ w2.scanAll 1 = [0] ∧
    (w3.getNode 0 0).isSome = true ∧ w3.scanAll 0 = [0] := by decide

/-- R (C01, was the store-epoch witness): a node created after a committed transaction is found
by the unlabelled scan, `node_ids` and the label scan alike. -/
theorem c01_store_epoch_regression :
    let w0 : World := {}
    let w1 := (w0.begin 0 .snapshot).1
    let w2 := (w1.commit 0).1
    let w3 := (w2.createNode 0 [7]).1
    w3.scanAll 0 = [0] ∧ w3.store.nodeIds = [0] ∧ w3.scanLabel 0 7 = [0] := by decide

/-- R (C01): a snapshot taken before another transaction commits, or before an auto-commit write,
does not see that work; a transaction that begins afterwards does. -/
theorem c01_snapshot_regression :
    let w0 : World := {}
    let w1 := (w0.begin 0 .snapshot).1          -- reader
    let w2 := (w1.begin 1 .snapshot).1
    let w3 := (w2.createNode 1 [7]).1
    let w4 := (w3.commit 1).1                   -- committed after the reader began
    let w5 := (w4.createNode 2 [7]).1           -- auto-commit write after the reader began
    let w6 := (w5.begin 3 .snapshot).1
    w5.scanLabel 0 7 = [] ∧ w5.scanAll 0 = [] ∧ w6.scanLabel 3 7 = [0, 1] := by decide

/-- R (C02, was the rolled-back-edge witness): after rollback the edge is gone from the adjacency
list too. -/
theorem c02_rolled_back_edge_regression :
    let w0 : World := {}
    let w1 := (w0.createNode 0 []).1
    let w2 := (w1.begin 0 .snapshot).1
    let w3 := (w2.createEdge 0 0 0 0).1
    let w4 := (w3.rollback 0).1
    w3.outgoing 0 0 = [(0, 0)] ∧ w3.outgoing 1 0 = [] ∧
    w4.outgoing 0 0 = [] ∧ w4.store.outEdges 0 = [] ∧ (w4.getEdge 0 0).isNone = true := by decide

/-- W (C01, open): a property set by query text inside session 1's open transaction is read by
session 0 at once — properties are single-version. -/
theorem c01_in_place_change_witness :
    let w0 : World := {}
    let w1 := (w0.dbCreateNode []).1
    let w2 := (w1.begin 1 .snapshot).1
    let w3 := (w2.qSetProp 1 0 0 "I3").1
    (w3.getNode 0 0) = some ([], [(0, "I3")]) := by decide

/-- W (C02, open): … and it is still there after session 1 rolls back; so is a deletion. -/
theorem c02_rolled_back_change_persists_witness :
    let w0 : World := {}
    let w1 := (w0.dbCreateNode []).1
    let w2 := (w1.dbCreateNode []).1
    let w3 := (w2.begin 1 .snapshot).1
    let w4 := (w3.qSetProp 1 0 0 "I3").1
    let w5 := (w4.qDetachDelete 1 1).1
    let w6 := (w5.rollback 1).1
    (w6.getNode 0 0) = some ([], [(0, "I3")]) ∧ (w6.getNode 0 1).isNone = true := by decide

/-- N: the partial theorems are not vacuous. -/
example : (⟨3, 5, none⟩ : Ver).visibleTo 2 4 = false := by decide

end Grafeo.Sess
