import GrafeoModel.Model.Par
import GrafeoModel.Props.C17

/-!
C17 — `parallel/source.rs`, `parallel/fold.rs`, `parallel/scheduler.rs`.

* fold: for EVERY split of the input into contiguous pieces and EVERY merge tree (`Shape`),
  `fold(init, f).reduce(init, m)` equals the sequential `foldl f init`, under the three laws
  `FoldLaws` (which do not even need associativity or commutativity of `m` as such); the laws are
  proved for `parallel_count`, `parallel_sum_i64` (wrapping), `parallel_min`/`parallel_max`
  (ties: the LAST of equal elements, in every shape), `parallel_try_collect` (order = input
  order), `fold_reduce` with list concatenation.  Witnesses: `parallel_sum` (f64),
  `parallel_sum_i64` with overflow checks, `parallel_stats` with a NaN and `fold_reduce_with`
  with a non-neutral `init` depend on the shape.
* sources: the partition sources of any contiguous morsel list deliver, concatenated in morsel
  order, exactly the rows of the table, for every chunk size > 0.
-/
namespace Grafeo.Par
open Grafeo.Exec

/-! ## fold -/

/-- what `fold(init, f).reduce(init, m)` needs to be independent of rayon's splitting -/
structure FoldLaws {α β : Type} (init : β) (f : β → α → β) (m : β → β → β) : Prop where
  left_id : ∀ b, m init b = b
  right_id : ∀ a, m a init = a
  /-- merging then folding one more item = folding it into the right operand first -/
  compat : ∀ a b x, m a (f b x) = f (m a b) x

theorem merge_foldl {α β : Type} {init : β} {f : β → α → β} {m : β → β → β} (h : FoldLaws init f m)
    (a b : β) (xs : List α) : m a (xs.foldl f b) = xs.foldl f (m a b) := by
  induction xs generalizing b with
  | nil => rfl
  | cons x xs ih => simp only [List.foldl_cons]; rw [ih, h.compat]

/-- F: any split into contiguous pieces, any merge tree, empty pieces included: the parallel
fold/reduce equals the sequential fold. -/
theorem c17_fold_reduce_any_shape {α β : Type} {init : β} {f : β → α → β} {m : β → β → β}
    (h : FoldLaws init f m) (t : Shape α) : foldReduce init f m t = t.items.foldl f init := by
  induction t with
  | leaf xs => simp [foldReduce, Shape.items, h.left_id]
  | node l r ihl ihr =>
    simp only [foldReduce, Shape.items, List.foldl_append, ihl, ihr]
    rw [merge_foldl h, h.right_id]

/-- the usual way to meet the laws: `f b x = m b (unit x)` with `m` associative and `init` neutral -/
theorem foldLaws_of_monoid {α β : Type} (init : β) (m : β → β → β) (unit : α → β)
    (assoc : ∀ a b c, m (m a b) c = m a (m b c)) (lid : ∀ b, m init b = b) (rid : ∀ a, m a init = a) :
    FoldLaws init (fun b x => m b (unit x)) m :=
  ⟨lid, rid, fun a b x => (assoc a b (unit x)).symm⟩

/-- F: every two shapes over the same input agree (1 worker or many, any stealing). -/
theorem c17_fold_reduce_shape_irrelevant {α β : Type} {init : β} {f : β → α → β} {m : β → β → β}
    (h : FoldLaws init f m) (t u : Shape α) (hi : t.items = u.items) :
    foldReduce init f m t = foldReduce init f m u := by
  rw [c17_fold_reduce_any_shape h, c17_fold_reduce_any_shape h, hi]

theorem count_laws {α : Type} (p : α → Bool) : FoldLaws 0 (countF p) (· + ·) :=
  ⟨by intro b; simp, by intro a; simp, by intro a b x; simp only [countF]; omega⟩

/-- F: `parallel_count` = number of items satisfying the predicate -/
theorem c17_parallel_count {α : Type} (p : α → Bool) (t : Shape α) :
    parCount p t = t.items.foldl (countF p) 0 := c17_fold_reduce_any_shape (count_laws p) t

theorem wrap64_range (z : Int) : -9223372036854775808 ≤ wrap64 z ∧ wrap64 z ≤ 9223372036854775807 := by
  unfold wrap64; omega

theorem wadd_laws : ∀ (a b x : Int), wadd a (wadd b x) = wadd (wadd a b) x := by
  intro a b x; simp only [wadd, wrap64]; omega

/-- the accumulators of `parallel_sum_i64` are `i64` values -/
def IsI64 (z : Int) : Prop := -9223372036854775808 ≤ z ∧ z ≤ 9223372036854775807

theorem wadd_zero_left (b : Int) (hb : IsI64 b) : wadd 0 b = b := by
  unfold IsI64 at hb; simp only [wadd, wrap64]; omega
theorem wadd_zero_right (b : Int) (hb : IsI64 b) : wadd b 0 = b := by
  unfold IsI64 at hb; simp only [wadd, wrap64]; omega

theorem foldl_wadd_i64 (xs : List Int) (a : Int) (ha : IsI64 a) : IsI64 (xs.foldl wadd a) := by
  induction xs generalizing a with
  | nil => exact ha
  | cons x xs ih => exact ih _ (wrap64_range _)

theorem merge_foldl_wadd (a b : Int) (xs : List Int) : wadd a (xs.foldl wadd b) = xs.foldl wadd (wadd a b) := by
  induction xs generalizing b with
  | nil => rfl
  | cons x xs ih => simp only [List.foldl_cons]; rw [ih, wadd_laws]

theorem parSumI64_i64 (t : Shape Int) : IsI64 (parSumI64 t) := by
  cases t <;> exact wrap64_range _

/-- F: `parallel_sum_i64` in a release build (wrapping `+`): every shape gives the sequential
wrapping sum — overflow included. -/
theorem c17_parallel_sum_i64_wrapping (t : Shape Int) : parSumI64 t = t.items.foldl wadd 0 := by
  induction t with
  | leaf xs =>
    simp only [parSumI64, foldReduce, Shape.items]
    exact wadd_zero_left _ (foldl_wadd_i64 xs 0 (by unfold IsI64; omega))
  | node l r ihl ihr =>
    have hl := parSumI64_i64 l
    simp only [parSumI64, foldReduce, Shape.items, List.foldl_append] at *
    rw [ihl, ihr, merge_foldl_wadd, wadd_zero_right _ (by rw [← ihl]; exact hl)]

/-- W: with overflow checks (debug builds) the same helper panics or not depending on the split:
`[MAX, 1, -1]` overflows sequentially but not when rayon cuts after the first item. -/
theorem c17_parallel_sum_i64_checked_shape_witness :
    parSumI64Checked (.leaf [9223372036854775807, 1, -1]) = none ∧
    parSumI64Checked (shape1 [9223372036854775807, 1, -1]) = some 9223372036854775807 := by
  decide

/-- W: `parallel_sum` (f64): `2^53 + 1 + 1` is `2^53` sequentially and `2^53 + 2` in a
one-thread rayon pool. -/
theorem c17_parallel_sum_f64_shape_witness :
    [9007199254740992, 1, 1].foldl fadd 0 = 9007199254740992 ∧
    parSumF (shape1 [9007199254740992, 1, 1]) = 9007199254740994 := by
  decide +kernel

theorem min_laws : FoldLaws none minF minM := by
  refine ⟨?_, ?_, ?_⟩
  · intro b; cases b <;> rfl
  · intro a; cases a <;> rfl
  · intro a b x
    rcases x with ⟨xk, xt⟩
    rcases a with _ | ⟨ak, at'⟩
    · rcases b with _ | ⟨bk, bt⟩
      · rfl
      · simp only [minF, minM]; by_cases h1 : bk < xk <;> simp [h1]
    · rcases b with _ | ⟨bk, bt⟩
      · simp only [minF, minM]; by_cases h1 : ak < xk <;> simp [h1]
      · simp only [minF, minM]
        by_cases h1 : bk < xk <;> by_cases h2 : ak < bk <;> by_cases h3 : ak < xk <;>
          simp [h1, h2, h3] <;> omega

theorem max_laws : FoldLaws none maxF maxM := by
  refine ⟨?_, ?_, ?_⟩
  · intro b; cases b <;> rfl
  · intro a; cases a <;> rfl
  · intro a b x
    rcases x with ⟨xk, xt⟩
    rcases a with _ | ⟨ak, at'⟩
    · rcases b with _ | ⟨bk, bt⟩
      · rfl
      · simp only [maxF, maxM]; by_cases h1 : bk > xk <;> simp [h1]
    · rcases b with _ | ⟨bk, bt⟩
      · simp only [maxF, maxM]; by_cases h1 : ak > xk <;> simp [h1]
      · simp only [maxF, maxM]
        by_cases h1 : bk > xk <;> by_cases h2 : ak > bk <;> by_cases h3 : ak > xk <;>
          simp [h1, h2, h3] <;> omega

/-- F: `parallel_min` returns, in every shape, what the sequential fold returns — including
WHICH of several equal minimal elements (the last one). -/
theorem c17_parallel_min (t : Shape KV) : parMin t = t.items.foldl minF none :=
  c17_fold_reduce_any_shape min_laws t
theorem c17_parallel_max (t : Shape KV) : parMax t = t.items.foldl maxF none :=
  c17_fold_reduce_any_shape max_laws t

/-- F: on ties the sequential fold (hence every parallel shape) keeps the LAST minimal element
(std's `Iterator::min` keeps the first). -/
theorem c17_min_ties_last (k : Int) (t1 t2 : Nat) (xs : List KV) (h : ∀ x ∈ xs, k < x.1) :
    ([(k, t1), (k, t2)] ++ xs).foldl minF none = some (k, t2) := by
  have : ∀ (ys : List KV), (∀ x ∈ ys, k < x.1) → ys.foldl minF (some (k, t2)) = some (k, t2) := by
    intro ys; induction ys with
    | nil => intro _; rfl
    | cons y ys ih =>
      intro hy
      have h1 := hy y (by simp)
      simp only [List.foldl_cons, minF, h1, if_true]
      exact ih (fun x hx => hy x (by simp [hx]))
  simp only [List.cons_append, List.nil_append, List.foldl_cons, minF, Int.lt_irrefl, if_false]
  exact this xs h

theorem tc_laws {α ρ ε : Type} (process : α → Except ε ρ) : FoldLaws ([], []) (tcF process) tcM := by
  refine ⟨?_, ?_, ?_⟩
  · intro b; simp [tcM]
  · intro a; simp [tcM]
  · intro a b x; simp only [tcF, tcM]; split <;> simp [List.append_assoc]

/-- F: `parallel_try_collect` returns successes and errors each in INPUT order, in every shape. -/
theorem c17_parallel_try_collect {α ρ ε : Type} (process : α → Except ε ρ) (t : Shape α) :
    parTryCollect process t = t.items.foldl (tcF process) ([], []) :=
  c17_fold_reduce_any_shape (tc_laws process) t

/-- F: `fold_reduce` with `Vec` push / extend reproduces the input order. -/
theorem c17_fold_reduce_concat {α : Type} (t : Shape α) :
    foldReduce [] (fun acc x => acc ++ [x]) (· ++ ·) t = t.items := by
  rw [c17_fold_reduce_any_shape (foldLaws_of_monoid [] (· ++ ·) (fun x => [x]) List.append_assoc
    List.nil_append List.append_nil)]
  have : ∀ (xs acc : List α), xs.foldl (fun acc x => acc ++ [x]) acc = acc ++ xs := by
    intro xs; induction xs with
    | nil => intro acc; simp
    | cons x xs ih => intro acc; simp [ih]
  simpa using this t.items []

/-- W: `parallel_stats`: the fold step lets a NaN replace the running minimum (`m < val` is
false), the reduce step (`f64::min`) ignores a NaN — `[1, NaN]` has minimum NaN sequentially and
1 when rayon cuts between the two. -/
theorem c17_parallel_stats_nan_shape_witness :
    ([some 1, none].foldl statsF Stats.init).min = some none ∧
    (parStats (shape1 [some 1, none])).min = some (some 1) := by
  decide

/-- W: `fold_reduce_with` whose `init` is not neutral for the merge (100, `+`) counts `init`
once per leaf: the result depends on the number of pieces. -/
theorem c17_fold_reduce_with_non_neutral_witness :
    foldReduce (100 : Int) (· + ·) (· + ·) (.leaf [1, 2]) = 203 ∧
    foldReduce (100 : Int) (· + ·) (· + ·) (shape1 [1, 2]) = 403 := by
  decide

/-! ## sources -/

theorem sliceRows_append {α : Type} (rows : List α) (a b c : Nat) (hab : a ≤ b) (hbc : b ≤ c) :
    sliceRows rows (a, b) ++ sliceRows rows (b, c) = sliceRows rows (a, c) := by
  simp only [sliceRows]
  have h1 : rows.drop b = (rows.drop a).drop (b - a) := by
    rw [List.drop_drop]; congr 1; omega
  have h2 : c - a = (b - a) + (c - b) := by omega
  rw [h1, h2, List.take_add]

theorem sliceRows_empty {α : Type} (rows : List α) (a b : Nat) (h : a ≥ b ∨ a ≥ rows.length) :
    sliceRows rows (a, b) = [] := by
  simp only [sliceRows]
  rcases h with h | h
  · have : b - a = 0 := by omega
    simp [this]
  · simp [List.drop_eq_nil_of_le h]

/-- the slice-shaped partition sources (vector, range, triple scan, node scan): for every chunk
size > 0 the loop ends, never panics (morsel inside the table, or a clamping source) and the
chunks are, in order, exactly the rows `[pos, stop)`; every chunk is non-empty and at most
`chunk_size` rows. -/
theorem drainSlice_ok {α : Type} (rows : List α) (clamp : Bool) (cs stop : Nat) (hcs : 0 < cs)
    (hL : clamp = true ∨ stop ≤ rows.length) :
    ∀ (fuel pos : Nat), stop - pos < fuel →
      ∃ rs, drainSlice rows.length clamp cs stop fuel pos = .ok rs ∧
        (rs.map (sliceRows rows)).flatten = sliceRows rows (pos, stop) ∧
        ∀ r ∈ rs, r.1 < r.2 ∧ r.2 - r.1 ≤ cs := by
  intro fuel
  induction fuel with
  | zero => intro pos h; omega
  | succ fuel ih =>
    intro pos hf
    by_cases hg : pos ≥ stop ∨ (clamp = true ∧ pos ≥ rows.length)
    · refine ⟨[], by rw [drainSlice, if_pos hg], ?_, by simp⟩
      rw [sliceRows_empty rows pos stop (by rcases hg with h | ⟨_, h⟩; exact .inl h; exact .inr h)]
      rfl
    · have hps : pos < stop := by
        apply Nat.lt_of_not_le; intro h; exact hg (.inl h)
      have hcl : clamp = true → pos < rows.length := by
        intro hc; apply Nat.lt_of_not_le; intro h; exact hg (.inr ⟨hc, h⟩)
      rw [drainSlice, if_neg hg]
      cases clamp with
      | false =>
        have hstop : stop ≤ rows.length := by rcases hL with h | h; cases h; exact h
        have he : ¬ (min (pos + cs) stop > rows.length) := by omega
        simp only [Bool.false_eq_true, if_false, he]
        obtain ⟨rs, h1, h2, h3⟩ := ih (min (pos + cs) stop) (by omega)
        refine ⟨(pos, min (pos + cs) stop) :: rs, by rw [h1]; rfl, ?_, ?_⟩
        · simp only [List.map_cons, List.flatten_cons, h2]
          exact sliceRows_append rows pos _ stop (by omega) (by omega)
        · intro r hr
          rcases List.mem_cons.mp hr with rfl | hr
          · simp only; omega
          · exact h3 r hr
      | true =>
        have hpl := hcl rfl
        have he : ¬ (min (min (pos + cs) stop) rows.length > rows.length) := by omega
        simp only [if_true, he, if_false]
        obtain ⟨rs, h1, h2, h3⟩ := ih (min (min (pos + cs) stop) rows.length) (by omega)
        refine ⟨(pos, min (min (pos + cs) stop) rows.length) :: rs, by rw [h1]; rfl, ?_, ?_⟩
        · simp only [List.map_cons, List.flatten_cons, h2]
          exact sliceRows_append rows pos _ stop (by omega) (by omega)
        · intro r hr
          rcases List.mem_cons.mp hr with rfl | hr
          · simp only; omega
          · exact h3 r hr

/-- F: one partition source = the rows of its morsel, for every chunk size > 0. -/
theorem c17_partition_source_rows {α : Type} (rows : List α) (clamp : Bool) (start stop cs : Nat)
    (hcs : 0 < cs) (hL : clamp = true ∨ stop ≤ rows.length) :
    (partRanges rows.length clamp start stop cs).isOk = true ∧
      resRows rows (partRanges rows.length clamp start stop cs) = sliceRows rows (start, stop) := by
  obtain ⟨rs, h1, h2, _⟩ := drainSlice_ok rows clamp cs stop hcs hL (stop + 2) start (by omega)
  simp only [partRanges, h1, Res.isOk, resRows, h2, and_self]

/-- rows of a contiguous morsel list, concatenated in morsel order -/
theorem contig_slices {α : Type} (rows : List α) (ms : List Morsel) (a b : Nat) (h : contig a ms b = true) :
    a ≤ b ∧ ms.flatMap (fun m => sliceRows rows (m.start, m.stop)) = sliceRows rows (a, b) := by
  induction ms generalizing a with
  | nil =>
    simp only [contig, beq_iff_eq] at h
    subst h
    exact ⟨Nat.le_refl _, by simp [sliceRows]⟩
  | cons m ms ih =>
    simp only [contig, Bool.and_eq_true, beq_iff_eq, decide_eq_true_eq] at h
    obtain ⟨⟨h1, h2⟩, h3⟩ := h
    obtain ⟨h4, h5⟩ := ih m.stop h3
    refine ⟨by omega, ?_⟩
    rw [List.flatMap_cons, h5, h1]
    exact sliceRows_append rows a m.stop b (by omega) h4

theorem flatMap_congr' {α β : Type} (l : List α) (f g : α → List β) (h : ∀ x ∈ l, f x = g x) :
    l.flatMap f = l.flatMap g := by
  induction l with
  | nil => rfl
  | cons x xs ih =>
    simp only [List.flatMap_cons]
    rw [h x (by simp), ih (fun y hy => h y (by simp [hy]))]

/-- F (target 1): for EVERY contiguous morsel list covering the table (in particular every
partition by `generate_morsels`), every chunk size > 0, and every slice-shaped source
(`ParallelVectorSource`, `RangeSource`, triple scan, node scan): no partition loops or panics, and
concatenating the partitions' rows in morsel order gives the rows of the unpartitioned source,
which are the rows of the table — none lost, duplicated or reordered. -/
theorem c17_partitions_eq_whole {α : Type} (rows : List α) (clamp : Bool) (ms : List Morsel) (cs : Nat)
    (hcs : 0 < cs) (hc : contig 0 ms rows.length = true) :
    (∀ m ∈ ms, (partRanges rows.length clamp m.start m.stop cs).isOk = true) ∧
    ms.flatMap (fun m => resRows rows (partRanges rows.length clamp m.start m.stop cs))
      = resRows rows (wholeRanges rows.length clamp rows.length cs) ∧
    resRows rows (wholeRanges rows.length clamp rows.length cs) = rows := by
  have hw := c17_partition_source_rows rows clamp 0 rows.length cs hcs (.inr (Nat.le_refl _))
  have hrows : sliceRows rows (0, rows.length) = rows := by simp [sliceRows]
  -- every morsel of a contiguous list ending at rows.length stays inside the table
  have hin : ∀ (ms : List Morsel) (a : Nat), contig a ms rows.length = true → ∀ m ∈ ms, m.stop ≤ rows.length := by
    intro ms; induction ms with
    | nil => intro a _ m hm; cases hm
    | cons x xs ih =>
      intro a h m hm
      simp only [contig, Bool.and_eq_true, beq_iff_eq, decide_eq_true_eq] at h
      obtain ⟨⟨_, _⟩, h3⟩ := h
      have hx := (contig_slices rows xs x.stop rows.length h3).1
      rcases List.mem_cons.mp hm with rfl | hm
      · exact hx
      · exact ih x.stop h3 m hm
  have hall : ∀ m ∈ ms, (partRanges rows.length clamp m.start m.stop cs).isOk = true ∧
      resRows rows (partRanges rows.length clamp m.start m.stop cs) = sliceRows rows (m.start, m.stop) :=
    fun m hm => c17_partition_source_rows rows clamp m.start m.stop cs hcs (.inr (hin ms 0 hc m hm))
  refine ⟨fun m hm => (hall m hm).1, ?_, ?_⟩
  · rw [wholeRanges, hw.2, ← (contig_slices rows ms 0 rows.length hc).2]
    exact flatMap_congr' ms _ _ (fun m hm => (hall m hm).2)
  · rw [wholeRanges, hw.2, hrows]

theorem morselsFrom_contig (total size : Nat) (hs : 0 < size) (fuel id start : Nat)
    (hf : total - start ≤ fuel) (hst : start ≤ total) :
    contig start (morselsFrom total size fuel id start) total = true := by
  induction fuel generalizing id start with
  | zero =>
    have : start = total := by omega
    simp [morselsFrom, contig, this]
  | succ fuel ih =>
    simp only [morselsFrom]
    split
    · have : start = total := by omega
      simp [contig, this]
    · simp only [contig, beq_self_eq_true, Bool.true_and, Bool.and_eq_true, decide_eq_true_eq]
      refine ⟨by omega, ?_⟩
      by_cases hle : start + size ≤ total
      · rw [Nat.min_eq_left hle]; exact ih (id + 1) (start + size) (by omega) hle
      · rw [Nat.min_eq_right (by omega)]
        cases fuel with
        | zero => simp [morselsFrom, contig]
        | succ f =>
          have hge : total ≤ start + size := by omega
          simp [morselsFrom, contig, hge]

/-- F: `generate_morsels(total, size)` is such a contiguous cover, for every total and size > 0 -/
theorem c17_generate_morsels_contig (total size : Nat) (hs : 0 < size) :
    contig 0 (generateMorsels total size) total = true := by
  unfold generateMorsels
  split
  · rename_i h
    rcases h with h | h
    · subst h; rfl
    · omega
  · exact morselsFrom_contig total size hs total 0 0 (by omega) (Nat.zero_le _)

/-- F: the statement for the morsels the engine really generates. -/
theorem c17_generated_partitions_eq_whole {α : Type} (rows : List α) (clamp : Bool) (size cs : Nat)
    (hs : 0 < size) (hcs : 0 < cs) :
    (generateMorsels rows.length size).flatMap
        (fun m => resRows rows (partRanges rows.length clamp m.start m.stop cs)) = rows := by
  have h := c17_partitions_eq_whole rows clamp (generateMorsels rows.length size) cs hcs
    (c17_generate_morsels_contig rows.length size hs)
  rw [h.2.1, h.2.2]

/-- W: `chunk_size = 0` is outside every theorem above for a reason: the slice sources then
hand out empty chunks forever … -/
theorem c17_chunk_size_zero_loops : partRanges 3 false 0 3 0 = .loop := by decide
/-- … and W: a vector partition whose morsel reaches beyond the table panics (`&col[pos..end]`),
while the triple / node partitions clamp. -/
theorem c17_vector_partition_beyond_panics :
    partRanges 3 false 2 5 2 = .panic ∧ partRanges 3 true 2 5 2 = .ok [(2, 3)] := by decide

/-- W: `PartitionedChunkSource` relies on `binary_search` returning the LAST of equal
`cumulative_rows` entries (the contract allows any): with the first one, a morsel starting right
after a run of zero-row chunks delivers nothing. -/
theorem c17_chunk_partition_needs_last_match :
    drainChunkPartWith findChunkIndex [[1, 2], [], [], [3, 4, 5]] (cumRows 0 [[1, 2], [], [], [3, 4, 5]]) 7 5 7 2
      = [[3, 4, 5]] ∧
    drainChunkPartWith findChunkIndexFirst [[1, 2], [], [], [3, 4, 5]] (cumRows 0 [[1, 2], [], [], [3, 4, 5]]) 7 5 7 2
      = ([] : List (List Nat)) := by decide

end Grafeo.Par
