import GrafeoModel.Model.Par
import GrafeoModel.Props.C17

/-!
C17 — `parallel/source.rs`, `parallel/fold.rs`, `parallel/scheduler.rs`.

* fold: for EVERY split of the input into contiguous pieces and EVERY merge tree (`Shape`),
  `fold(init, f).reduce(init, m)` equals the sequential `foldl f init`, under the three laws
  `FoldLaws` (which do not even need associativity or commutativity of `m` as such); the laws are
  proved for `parallel_count`, `parallel_sum_i64` (wrapping), `parallel_min`/`parallel_max`
  (ties: the LAST of equal elements, in every shape), `parallel_try_collect` (order = input
  order), `fold_reduce` with list concatenation.  Witnesses: `parallel_sum` (f64),
  `parallel_sum_i64` with overflow checks, `parallel_stats` with a NaN and `fold_reduce_with`
  with a non-neutral `init` depend on the shape.
* sources: the partition sources of any contiguous morsel list deliver, concatenated in morsel
  order, exactly the rows of the table, for every chunk size > 0.
-/
namespace Grafeo.Par
open Grafeo.Exec

/-! ## fold -/

/-- what `fold(init, f).reduce(init, m)` needs to be independent of rayon's splitting -/
structure FoldLaws {α β : Type} (init : β) (f : β → α → β) (m : β → β → β) : Prop where
  left_id : ∀ b, m init b = b
  right_id : ∀ a, m a init = a
  /-- merging then folding one more item = folding it into the right operand first -/
  compat : ∀ a b x, m a (f b x) = f (m a b) x

theorem merge_foldl {α β : Type} {init : β} {f : β → α → β} {m : β → β → β} (h : FoldLaws init f m)
    (a b : β) (xs : List α) : m a (xs.foldl f b) = xs.foldl f (m a b) := by
  induction xs generalizing b with
  | nil => rfl
  | cons x xs ih => simp only [List.foldl_cons]; rw [ih, h.compat]

/-- F: any split into contiguous pieces, any merge tree, empty pieces included: the parallel
fold/reduce equals the sequential fold. -/
theorem c17_fold_reduce_any_shape {α β : Type} {init : β} {f : β → α → β} {m : β → β → β}
    (h : FoldLaws init f m) (t : Shape α) : foldReduce init f m t = t.items.foldl f init := by
  induction t with
  | leaf xs => simp [foldReduce, Shape.items, h.left_id]
  | node l r ihl ihr =>
    simp only [foldReduce, Shape.items, List.foldl_append, ihl, ihr]
    rw [merge_foldl h, h.right_id]

/-- the usual way to meet the laws: `f b x = m b (unit x)` with `m` associative and `init` neutral -/
theorem foldLaws_of_monoid {α β : Type} (init : β) (m : β → β → β) (unit : α → β)
    (assoc : ∀ a b c, m (m a b) c = m a (m b c)) (lid : ∀ b, m init b = b) (rid : ∀ a, m a init = a) :
    FoldLaws init (fun b x => m b (unit x)) m :=
  ⟨lid, rid, fun a b x => (assoc a b (unit x)).symm⟩

/-- F: every two shapes over the same input agree (1 worker or many, any stealing). -/
theorem c17_fold_reduce_shape_irrelevant {α β : Type} {init : β} {f : β → α → β} {m : β → β → β}
    (h : FoldLaws init f m) (t u : Shape α) (hi : t.items = u.items) :
    foldReduce init f m t = foldReduce init f m u := by
  rw [c17_fold_reduce_any_shape h, c17_fold_reduce_any_shape h, hi]

theorem count_laws {α : Type} (p : α → Bool) : FoldLaws 0 (countF p) (· + ·) :=
  ⟨by intro b; simp, by intro a; simp, by intro a b x; simp only [countF]; omega⟩

/-- F: `parallel_count` = number of items satisfying the predicate -/
theorem c17_parallel_count {α : Type} (p : α → Bool) (t : Shape α) :
    parCount p t = t.items.foldl (countF p) 0 := c17_fold_reduce_any_shape (count_laws p) t

theorem wrap64_range (z : Int) : -9223372036854775808 ≤ wrap64 z ∧ wrap64 z ≤ 9223372036854775807 := by
  unfold wrap64; omega

theorem wadd_laws : ∀ (a b x : Int), wadd a (wadd b x) = wadd (wadd a b) x := by
  intro a b x; simp only [wadd, wrap64]; omega

/-- the accumulators of `parallel_sum_i64` are `i64` values -/
def IsI64 (z : Int) : Prop := -9223372036854775808 ≤ z ∧ z ≤ 9223372036854775807

theorem wadd_zero_left (b : Int) (hb : IsI64 b) : wadd 0 b = b := by
  unfold IsI64 at hb; simp only [wadd, wrap64]; omega
theorem wadd_zero_right (b : Int) (hb : IsI64 b) : wadd b 0 = b := by
  unfold IsI64 at hb; simp only [wadd, wrap64]; omega

theorem foldl_wadd_i64 (xs : List Int) (a : Int) (ha : IsI64 a) : IsI64 (xs.foldl wadd a) := by
  induction xs generalizing a with
  | nil => exact ha
  | cons x xs ih => exact ih _ (wrap64_range _)

theorem merge_foldl_wadd (a b : Int) (xs : List Int) : wadd a (xs.foldl wadd b) = xs.foldl wadd (wadd a b) := by
  induction xs generalizing b with
  | nil => rfl
  | cons x xs ih => simp only [List.foldl_cons]; rw [ih, wadd_laws]

theorem parSumI64_i64 (t : Shape Int) : IsI64 (parSumI64 t) := by
  cases t <;> exact wrap64_range _

/-- F: `parallel_sum_i64` in a release build (wrapping `+`): every shape gives the sequential
wrapping sum — overflow included. -/
theorem c17_parallel_sum_i64_wrapping (t : Shape Int) : parSumI64 t = t.items.foldl wadd 0 := by
  induction t with
  | leaf xs =>
    simp only [parSumI64, foldReduce, Shape.items]
    exact wadd_zero_left _ (foldl_wadd_i64 xs 0 (by unfold IsI64; omega))
  | node l r ihl ihr =>
    have hl := parSumI64_i64 l
    simp only [parSumI64, foldReduce, Shape.items, List.foldl_append] at *
    rw [ihl, ihr, merge_foldl_wadd, wadd_zero_right _ (by rw [← ihl]; exact hl)]

/-- W: with overflow checks (debug builds) the same helper panics or not depending on the split:
`[MAX, 1, -1]` overflows sequentially but not when rayon cuts after the first item. -/
theorem c17_parallel_sum_i64_checked_shape_witness :
    parSumI64Checked (.leaf [9223372036854775807, 1, -1]) = none ∧
    parSumI64Checked (shape1 [9223372036854775807, 1, -1]) = some 9223372036854775807 := by
  decide

/-- W: `parallel_sum` (f64): `2^53 + 1 + 1` is `2^53` sequentially and `2^53 + 2` in a
one-thread rayon pool. -/
theorem c17_parallel_sum_f64_shape_witness :
    [9007199254740992, 1, 1].foldl fadd 0 = 9007199254740992 ∧
    parSumF (shape1 [9007199254740992, 1, 1]) = 9007199254740994 := by
  decide +kernel

theorem min_laws : FoldLaws none minF minM := by
  refine ⟨?_, ?_, ?_⟩
  · intro b; cases b <;> rfl
  · intro a; cases a <;> rfl
  · intro a b x
    rcases x with ⟨xk, xt⟩
    rcases a with _ | ⟨ak, at'⟩
    · rcases b with _ | ⟨bk, bt⟩
      · rfl
      · simp only [minF, minM]; by_cases h1 : bk < xk <;> simp [h1]
    · rcases b with _ | ⟨bk, bt⟩
      · simp only [minF, minM]; by_cases h1 : ak < xk <;> simp [h1]
      · simp only [minF, minM]
        by_cases h1 : bk < xk <;> by_cases h2 : ak < bk <;> by_cases h3 : ak < xk <;>
          simp [h1, h2, h3] <;> omega

theorem max_laws : FoldLaws none maxF maxM := by
  refine ⟨?_, ?_, ?_⟩
  · intro b; cases b <;> rfl
  · intro a; cases a <;> rfl
  · intro a b x
    rcases x with ⟨xk, xt⟩
    rcases a with _ | ⟨ak, at'⟩
    · rcases b with _ | ⟨bk, bt⟩
      · rfl
      · simp only [maxF, maxM]; by_cases h1 : bk > xk <;> simp [h1]
    · rcases b with _ | ⟨bk, bt⟩
      · simp only [maxF, maxM]; by_cases h1 : ak > xk <;> simp [h1]
      · simp only [maxF, maxM]
        by_cases h1 : bk > xk <;> by_cases h2 : ak > bk <;> by_cases h3 : ak > xk <;>
          simp [h1, h2, h3] <;> omega

/-- F: `parallel_min` returns, in every shape, what the sequential fold returns — including
WHICH of several equal minimal elements (the last one). -/
theorem c17_parallel_min (t : Shape KV) : parMin t = t.items.foldl minF none :=
  c17_fold_reduce_any_shape min_laws t
theorem c17_parallel_max (t : Shape KV) : parMax t = t.items.foldl maxF none :=
  c17_fold_reduce_any_shape max_laws t

/-- F: on ties the sequential fold (hence every parallel shape) keeps the LAST minimal element
(std's `Iterator::min` keeps the first). -/
theorem c17_min_ties_last (k : Int) (t1 t2 : Nat) (xs : List KV) (h : ∀ x ∈ xs, k < x.1) :
    ([(k, t1), (k, t2)] ++ xs).foldl minF none = some (k, t2) := by
  have : ∀ (ys : List KV), (∀ x ∈ ys, k < x.1) → ys.foldl minF (some (k, t2)) = some (k, t2) := by
    intro ys; induction ys with
    | nil => intro _; rfl
    | cons y ys ih =>
      intro hy
      have h1 := hy y (by simp)
      simp only [List.foldl_cons, minF, h1, if_true]
      exact ih (fun x hx => hy x (by simp [hx]))
  simp only [List.cons_append, List.nil_append, List.foldl_cons, minF, Int.lt_irrefl, if_false]
  exact this xs h

theorem tc_laws {α ρ ε : Type} (process : α → Except ε ρ) : FoldLaws ([], []) (tcF process) tcM := by
  refine ⟨?_, ?_, ?_⟩
  · intro b; simp [tcM]
  · intro a; simp [tcM]
  · intro a b x; simp only [tcF, tcM]; split <;> simp [List.append_assoc]

/-- F: `parallel_try_collect` returns successes and errors each in INPUT order, in every shape. -/
theorem c17_parallel_try_collect {α ρ ε : Type} (process : α → Except ε ρ) (t : Shape α) :
    parTryCollect process t = t.items.foldl (tcF process) ([], []) :=
  c17_fold_reduce_any_shape (tc_laws process) t

/-- F: `fold_reduce` with `Vec` push / extend reproduces the input order. -/
theorem c17_fold_reduce_concat {α : Type} (t : Shape α) :
    foldReduce [] (fun acc x => acc ++ [x]) (· ++ ·) t = t.items := by
  rw [c17_fold_reduce_any_shape (foldLaws_of_monoid [] (· ++ ·) (fun x => [x]) List.append_assoc
    List.nil_append List.append_nil)]
  have : ∀ (xs acc : List α), xs.foldl (fun acc x => acc ++ [x]) acc = acc ++ xs := by
    intro xs; induction xs with
    | nil => intro acc; simp
    | cons x xs ih => intro acc; simp [ih]
  simpa using this t.items []

/-- W (regression, the code before commit 1e0886f): the fold step let a NaN replace the running
minimum (`m < val` is false), the reduce step (`f64::min`) ignores a NaN — `[1, NaN]` had minimum
NaN sequentially and 1 when rayon cut between the two. -/
theorem Old.c17_parallel_stats_nan_shape_witness :
    ([some 1, none].foldl Old.statsF Old.Stats.init).min = some none ∧
    (Old.parStats (shape1 [some 1, none])).min = some (some 1) := by
  decide

theorem fbMin_assoc (t : Bool) (a b c : FB) : fbMin t a (fbMin t b c) = fbMin t (fbMin t a b) c := by
  rcases a with _ | ⟨ak, at'⟩ <;> rcases b with _ | ⟨bk, bt⟩ <;> rcases c with _ | ⟨ck, ct⟩ <;>
    try (simp [fbMin]; done)
  cases t <;> simp only [fbMin] <;>
    by_cases h1 : ak < bk <;> by_cases h2 : bk < ak <;> by_cases h3 : bk < ck <;>
    by_cases h4 : ck < bk <;> by_cases h5 : ak < ck <;> by_cases h6 : ck < ak <;>
    simp [h1, h2, h3, h4, h5, h6] <;> omega

theorem fbMax_assoc (t : Bool) (a b c : FB) : fbMax t a (fbMax t b c) = fbMax t (fbMax t a b) c := by
  rcases a with _ | ⟨ak, at'⟩ <;> rcases b with _ | ⟨bk, bt⟩ <;> rcases c with _ | ⟨ck, ct⟩ <;>
    try (simp [fbMax]; done)
  cases t <;> simp only [fbMax] <;>
    by_cases h1 : ak > bk <;> by_cases h2 : bk > ak <;> by_cases h3 : bk > ck <;>
    by_cases h4 : ck > bk <;> by_cases h5 : ak > ck <;> by_cases h6 : ck > ak <;>
    simp [h1, h2, h3, h4, h5, h6] <;> omega

theorem optMerge_step (g : FB → FB → FB) (hg : ∀ a b c, g a (g b c) = g (g a b) c) (am bm : Option FB) (x : FB) :
    optMerge g am (some (match bm with | some m => g m x | none => x))
      = some (match optMerge g am bm with | some m => g m x | none => x) := by
  cases am <;> cases bm <;> simp [optMerge, hg]

theorem fsAdd_assoc (a b c : Option Int) : fsAdd a (fsAdd b c) = fsAdd (fsAdd a b) c := by
  cases a <;> cases b <;> cases c <;> simp [fsAdd, Int.add_assoc]

/-- the repaired `parallel_stats` meets the fold laws when the fold step and the reduce step
break `min`/`max` ties (`+0.0` vs `-0.0`) the same way -/
theorem stats_laws (t : Bool) : FoldLaws Stats.init (statsF t) (statsM t) := by
  refine ⟨?_, ?_, ?_⟩
  · intro b; rcases b with ⟨c, s, mn, mx⟩
    cases s <;> cases mn <;> cases mx <;> simp [statsM, Stats.init, fsAdd, optMerge]
  · intro a; rcases a with ⟨c, s, mn, mx⟩
    cases s <;> cases mn <;> cases mx <;> simp [statsM, Stats.init, fsAdd, optMerge]
  · intro a b x
    rcases a with ⟨ac, as, amn, amx⟩; rcases b with ⟨bc, bs, bmn, bmx⟩
    simp only [statsM, statsF, Stats.mk.injEq]
    exact ⟨by omega, fsAdd_assoc _ _ _, optMerge_step _ (fun a b c => fbMin_assoc t a b c) _ _ _,
      optMerge_step _ (fun a b c => fbMax_assoc t a b c) _ _ _⟩

/-- F (after 1e0886f): count, (exact) sum, min and max of `parallel_stats` are the same for EVERY
split and merge tree — NaN inputs included (a NaN is ignored by min/max unless every input is NaN),
and bit-for-bit including the sign of zero, provided both steps break ties alike (the pinned
build: both return the left operand). -/
theorem c17_parallel_stats_any_shape (t : Bool) (sh : Shape FB) :
    parStats t t sh = sh.items.foldl (statsF t) Stats.init :=
  c17_fold_reduce_any_shape (stats_laws t) sh

theorem foldl_stats_all_nan (t : Bool) (n : Nat) (s : Stats) (h : s.min = some none ∧ s.max = some none) :
    ((List.replicate n (none : FB)).foldl (statsF t) s).min = some none ∧
    ((List.replicate n (none : FB)).foldl (statsF t) s).max = some none := by
  induction n generalizing s with
  | zero => exact h
  | succ n ih =>
    simp only [List.replicate_succ, List.foldl_cons]
    apply ih
    simp [statsF, h.1, h.2, fbMin, fbMax]

/-- F: all-NaN input (non-empty): min = max = `Some(NaN)`, in every shape. -/
theorem c17_parallel_stats_all_nan (t : Bool) (n : Nat) (sh : Shape FB)
    (hi : sh.items = List.replicate (n + 1) none) :
    (parStats t t sh).min = some none ∧ (parStats t t sh).max = some none := by
  rw [c17_parallel_stats_any_shape, hi, List.replicate_succ, List.foldl_cons]
  exact foldl_stats_all_nan t n _ (by simp [statsF, Stats.init])

/-- F: a NaN never hides a number: with at least one number among the inputs the minimum of
`[x, NaN]`, `[NaN, x]` is `x` (instances of the general theorem; the old code returned NaN for the
first). -/
theorem c17_parallel_stats_nan_ignored (t : Bool) (x : KV) :
    ([some x, none].foldl (statsF t) Stats.init).min = some (some x) ∧
    ([none, some x].foldl (statsF t) Stats.init).min = some (some x) := by
  simp [statsF, Stats.init, fbMin]

/-- W: the std documentation lets `f64::min` return either operand for `+0.0`/`-0.0`. If the two
call sites (fold step, reduce step) were compiled to different choices, the SIGN of a zero minimum
would depend on the split; numerically the result is the same. Not observed in the pinned build
(both return the left operand; streamed with `nz` items). -/
theorem c17_parallel_stats_zero_sign_witness :
    ([some (0, 0), some (0, 1)].foldl (statsF true) Stats.init).min = some (some (0, 0)) ∧
    (parStats true false (shape1 [some (0, 0), some (0, 1)])).min = some (some (0, 1)) := by
  decide

/-- W: `fold_reduce_with` whose `init` is not neutral for the merge (100, `+`) counts `init`
once per leaf: the result depends on the number of pieces. -/
theorem c17_fold_reduce_with_non_neutral_witness :
    foldReduce (100 : Int) (· + ·) (· + ·) (.leaf [1, 2]) = 203 ∧
    foldReduce (100 : Int) (· + ·) (· + ·) (shape1 [1, 2]) = 403 := by
  decide

/-! ## sources -/

theorem sliceRows_append {α : Type} (rows : List α) (a b c : Nat) (hab : a ≤ b) (hbc : b ≤ c) :
    sliceRows rows (a, b) ++ sliceRows rows (b, c) = sliceRows rows (a, c) := by
  simp only [sliceRows]
  have h1 : rows.drop b = (rows.drop a).drop (b - a) := by
    rw [List.drop_drop]; congr 1; omega
  have h2 : c - a = (b - a) + (c - b) := by omega
  rw [h1, h2, List.take_add]

theorem sliceRows_empty {α : Type} (rows : List α) (a b : Nat) (h : a ≥ b ∨ a ≥ rows.length) :
    sliceRows rows (a, b) = [] := by
  simp only [sliceRows]
  rcases h with h | h
  · have : b - a = 0 := by omega
    simp [this]
  · simp [List.drop_eq_nil_of_le h]

/-- the slice-shaped partition sources (vector, range, triple scan, node scan): for every chunk
size > 0 the loop ends, never panics (morsel inside the table, or a clamping source) and the
chunks are, in order, exactly the rows `[pos, stop)`; every chunk is non-empty and at most
`chunk_size` rows. -/
theorem drainSlice_ok {α : Type} (rows : List α) (clamp : Bool) (cs stop : Nat) (hcs : 0 < cs)
    (hL : clamp = true ∨ stop ≤ rows.length) :
    ∀ (fuel pos : Nat), stop - pos < fuel →
      ∃ rs, drainSlice rows.length clamp cs stop fuel pos = .ok rs ∧
        (rs.map (sliceRows rows)).flatten = sliceRows rows (pos, stop) ∧
        ∀ r ∈ rs, r.1 < r.2 ∧ r.2 - r.1 ≤ cs := by
  intro fuel
  induction fuel with
  | zero => intro pos h; omega
  | succ fuel ih =>
    intro pos hf
    by_cases hg : pos ≥ stop ∨ (clamp = true ∧ pos ≥ rows.length)
    · refine ⟨[], by rw [drainSlice, if_pos hg], ?_, by simp⟩
      rw [sliceRows_empty rows pos stop (by rcases hg with h | ⟨_, h⟩; exact .inl h; exact .inr h)]
      rfl
    · have hps : pos < stop := by
        apply Nat.lt_of_not_le; intro h; exact hg (.inl h)
      have hcl : clamp = true → pos < rows.length := by
        intro hc; apply Nat.lt_of_not_le; intro h; exact hg (.inr ⟨hc, h⟩)
      rw [drainSlice, if_neg hg]
      cases clamp with
      | false =>
        have hstop : stop ≤ rows.length := by rcases hL with h | h; cases h; exact h
        have he : ¬ (min (pos + cs) stop > rows.length) := by omega
        simp only [Bool.false_eq_true, if_false, he]
        obtain ⟨rs, h1, h2, h3⟩ := ih (min (pos + cs) stop) (by omega)
        refine ⟨(pos, min (pos + cs) stop) :: rs, by rw [h1]; rfl, ?_, ?_⟩
        · simp only [List.map_cons, List.flatten_cons, h2]
          exact sliceRows_append rows pos _ stop (by omega) (by omega)
        · intro r hr
          rcases List.mem_cons.mp hr with rfl | hr
          · simp only; omega
          · exact h3 r hr
      | true =>
        have hpl := hcl rfl
        have he : ¬ (min (min (pos + cs) stop) rows.length > rows.length) := by omega
        simp only [if_true, he, if_false]
        obtain ⟨rs, h1, h2, h3⟩ := ih (min (min (pos + cs) stop) rows.length) (by omega)
        refine ⟨(pos, min (min (pos + cs) stop) rows.length) :: rs, by rw [h1]; rfl, ?_, ?_⟩
        · simp only [List.map_cons, List.flatten_cons, h2]
          exact sliceRows_append rows pos _ stop (by omega) (by omega)
        · intro r hr
          rcases List.mem_cons.mp hr with rfl | hr
          · simp only; omega
          · exact h3 r hr

/-- F: one partition source = the rows of its morsel, for every chunk size > 0. -/
theorem c17_partition_source_rows {α : Type} (rows : List α) (clamp : Bool) (start stop cs : Nat)
    (hcs : 0 < cs) (hL : clamp = true ∨ stop ≤ rows.length) :
    (partRanges rows.length clamp start stop cs).isOk = true ∧
      resRows rows (partRanges rows.length clamp start stop cs) = sliceRows rows (start, stop) := by
  obtain ⟨rs, h1, h2, _⟩ := drainSlice_ok rows clamp cs stop hcs hL (stop + 2) start (by omega)
  simp only [partRanges, h1, Res.isOk, resRows, h2, and_self]

/-- rows of a contiguous morsel list, concatenated in morsel order -/
theorem contig_slices {α : Type} (rows : List α) (ms : List Morsel) (a b : Nat) (h : contig a ms b = true) :
    a ≤ b ∧ ms.flatMap (fun m => sliceRows rows (m.start, m.stop)) = sliceRows rows (a, b) := by
  induction ms generalizing a with
  | nil =>
    simp only [contig, beq_iff_eq] at h
    subst h
    exact ⟨Nat.le_refl _, by simp [sliceRows]⟩
  | cons m ms ih =>
    simp only [contig, Bool.and_eq_true, beq_iff_eq, decide_eq_true_eq] at h
    obtain ⟨⟨h1, h2⟩, h3⟩ := h
    obtain ⟨h4, h5⟩ := ih m.stop h3
    refine ⟨by omega, ?_⟩
    rw [List.flatMap_cons, h5, h1]
    exact sliceRows_append rows a m.stop b (by omega) h4

theorem flatMap_congr' {α β : Type} (l : List α) (f g : α → List β) (h : ∀ x ∈ l, f x = g x) :
    l.flatMap f = l.flatMap g := by
  induction l with
  | nil => rfl
  | cons x xs ih =>
    simp only [List.flatMap_cons]
    rw [h x (by simp), ih (fun y hy => h y (by simp [hy]))]

/-- F (target 1): for EVERY contiguous morsel list covering the table (in particular every
partition by `generate_morsels`), every chunk size > 0, and every slice-shaped source
(`ParallelVectorSource`, `RangeSource`, triple scan, node scan): no partition loops or panics, and
concatenating the partitions' rows in morsel order gives the rows of the unpartitioned source,
which are the rows of the table — none lost, duplicated or reordered. -/
theorem c17_partitions_eq_whole {α : Type} (rows : List α) (clamp : Bool) (ms : List Morsel) (cs : Nat)
    (hcs : 0 < cs) (hc : contig 0 ms rows.length = true) :
    (∀ m ∈ ms, (partRanges rows.length clamp m.start m.stop cs).isOk = true) ∧
    ms.flatMap (fun m => resRows rows (partRanges rows.length clamp m.start m.stop cs))
      = resRows rows (wholeRanges rows.length clamp rows.length cs) ∧
    resRows rows (wholeRanges rows.length clamp rows.length cs) = rows := by
  have hw := c17_partition_source_rows rows clamp 0 rows.length cs hcs (.inr (Nat.le_refl _))
  have hrows : sliceRows rows (0, rows.length) = rows := by simp [sliceRows]
  -- every morsel of a contiguous list ending at rows.length stays inside the table
  have hin : ∀ (ms : List Morsel) (a : Nat), contig a ms rows.length = true → ∀ m ∈ ms, m.stop ≤ rows.length := by
    intro ms; induction ms with
    | nil => intro a _ m hm; cases hm
    | cons x xs ih =>
      intro a h m hm
      simp only [contig, Bool.and_eq_true, beq_iff_eq, decide_eq_true_eq] at h
      obtain ⟨⟨_, _⟩, h3⟩ := h
      have hx := (contig_slices rows xs x.stop rows.length h3).1
      rcases List.mem_cons.mp hm with rfl | hm
      · exact hx
      · exact ih x.stop h3 m hm
  have hall : ∀ m ∈ ms, (partRanges rows.length clamp m.start m.stop cs).isOk = true ∧
      resRows rows (partRanges rows.length clamp m.start m.stop cs) = sliceRows rows (m.start, m.stop) :=
    fun m hm => c17_partition_source_rows rows clamp m.start m.stop cs hcs (.inr (hin ms 0 hc m hm))
  refine ⟨fun m hm => (hall m hm).1, ?_, ?_⟩
  · rw [wholeRanges, hw.2, ← (contig_slices rows ms 0 rows.length hc).2]
    exact flatMap_congr' ms _ _ (fun m hm => (hall m hm).2)
  · rw [wholeRanges, hw.2, hrows]

theorem morselsFrom_contig (total size : Nat) (hs : 0 < size) (fuel id start : Nat)
    (hf : total - start ≤ fuel) (hst : start ≤ total) :
    contig start (morselsFrom total size fuel id start) total = true := by
  induction fuel generalizing id start with
  | zero =>
    have : start = total := by omega
    simp [morselsFrom, contig, this]
  | succ fuel ih =>
    simp only [morselsFrom]
    split
    · have : start = total := by omega
      simp [contig, this]
    · simp only [contig, beq_self_eq_true, Bool.true_and, Bool.and_eq_true, decide_eq_true_eq]
      refine ⟨by omega, ?_⟩
      by_cases hle : start + size ≤ total
      · rw [Nat.min_eq_left hle]; exact ih (id + 1) (start + size) (by omega) hle
      · rw [Nat.min_eq_right (by omega)]
        cases fuel with
        | zero => simp [morselsFrom, contig]
        | succ f =>
          have hge : total ≤ start + size := by omega
          simp [morselsFrom, contig, hge]

/-- F: `generate_morsels(total, size)` is such a contiguous cover, for every total and size > 0 -/
theorem c17_generate_morsels_contig (total size : Nat) (hs : 0 < size) :
    contig 0 (generateMorsels total size) total = true := by
  unfold generateMorsels
  split
  · rename_i h
    rcases h with h | h
    · subst h; rfl
    · omega
  · exact morselsFrom_contig total size hs total 0 0 (by omega) (Nat.zero_le _)

/-- F: the statement for the morsels the engine really generates. -/
theorem c17_generated_partitions_eq_whole {α : Type} (rows : List α) (clamp : Bool) (size cs : Nat)
    (hs : 0 < size) (hcs : 0 < cs) :
    (generateMorsels rows.length size).flatMap
        (fun m => resRows rows (partRanges rows.length clamp m.start m.stop cs)) = rows := by
  have h := c17_partitions_eq_whole rows clamp (generateMorsels rows.length size) cs hcs
    (c17_generate_morsels_contig rows.length size hs)
  rw [h.2.1, h.2.2]

/-- W: `chunk_size = 0` is outside every theorem above for a reason: the slice sources then
hand out empty chunks forever … -/
theorem c17_chunk_size_zero_loops : partRanges 3 false 0 3 0 = .loop := by decide
/-- … and W: a vector partition whose morsel reaches beyond the table panics (`&col[pos..end]`),
while the triple / node partitions clamp. -/
theorem c17_vector_partition_beyond_panics :
    partRanges 3 false 2 5 2 = .panic ∧ partRanges 3 true 2 5 2 = .ok [(2, 3)] := by decide

/-- W: `PartitionedChunkSource` relies on `binary_search` returning the LAST of equal
`cumulative_rows` entries (the contract allows any): with the first one, a morsel starting right
after a run of zero-row chunks delivers nothing. -/
theorem c17_chunk_partition_needs_last_match :
    drainChunkPartWith findChunkIndex [[1, 2], [], [], [3, 4, 5]] (cumRows 0 [[1, 2], [], [], [3, 4, 5]]) 7 5 7 2
      = [[3, 4, 5]] ∧
    drainChunkPartWith findChunkIndexFirst [[1, 2], [], [], [3, 4, 5]] (cumRows 0 [[1, 2], [], [], [3, 4, 5]]) 7 5 7 2
      = ([] : List (List Nat)) := by decide

/-! ## scheduler: interleavings of the atomic steps -/

/-- scheduler state + ghost history -/
structure G where
  s : Sched
  handed : List Nat      -- morsels returned to some worker (get_work / get_global_work / steal_work)
  pushed : List Nat      -- morsels ever pushed into a queue (submit*, push_local)
  counted : Nat          -- of these, how many `active_morsels.fetch_add` has accounted for
  pendSubmit : Nat       -- pushed by the submitter, `fetch_add` not yet executed
  pendLocal : Nat        -- pushed by `push_local`, `fetch_add` not yet executed
  completed : Nat        -- `complete_morsel` calls

def G.init (w : Nat) (wpn : Option Nat) : G := ⟨Sched.init w wpn, [], [], 0, 0, 0, 0⟩

/-- one atomic step of some thread -/
inductive Step where
  | submitPush (m : Nat)        -- `global_queue.push` of `submit` / `submit_batch`
  | submitCount                 -- their `fetch_add` (counts everything pushed since the last one)
  | finishStore | finishCheck   -- the two halves of `finish_submission`
  | popLocal (w : Nat) | getGlobal | steal (w : Nat)   -- the three sources of `get_work`
  | pushLocalPush (w m : Nat) | pushLocalCount          -- the two halves of `push_local`
  | complete
  deriving DecidableEq, Repr

def hand (g : G) (r : Option Nat × Sched) : G :=
  { g with s := r.2, handed := match r.1 with | some m => m :: g.handed | none => g.handed }

def G.step (g : G) : Step → G
  | .submitPush m => { g with s := submitPush m g.s, pushed := m :: g.pushed, pendSubmit := g.pendSubmit + 1 }
  | .submitCount => { g with s := submitCount g.pendSubmit g.s, counted := g.counted + g.pendSubmit, pendSubmit := 0 }
  | .finishStore => { g with s := finishStore g.s }
  | .finishCheck => { g with s := finishCheck g.s }
  | .popLocal w => hand g (popLocal w g.s)
  | .getGlobal => hand g (getGlobal g.s)
  | .steal w => hand g (stealWork w g.s)
  | .pushLocalPush w m => { g with s := pushLocalPush w m g.s, pushed := m :: g.pushed, pendLocal := g.pendLocal + 1 }
  | .pushLocalCount => { g with s := pushLocalCount g.s, counted := g.counted + 1, pendLocal := g.pendLocal - 1 }
  | .complete => { g with s := complete g.s, completed := g.completed + 1 }

/-- the calling protocol (what the threads may do, in program order): nothing is submitted after
`finish_submission` began; `finish_submission` starts after the last submit returned and checks
after it stored; a worker completes only a morsel it was handed; `push_local` targets a registered
worker; fewer than 2^64 morsels. -/
def G.enabled (g : G) : Step → Bool
  | .submitPush _ => !g.s.subDone && decide (g.pushed.length + 1 < M64)
  | .finishStore => g.pendSubmit == 0
  | .finishCheck => g.s.subDone
  | .pushLocalPush w _ => decide (w < g.s.locals.length) && decide (g.pushed.length + 1 < M64)
  | .pushLocalCount => decide (0 < g.pendLocal)
  | .complete => decide (g.completed < g.handed.length)
  | _ => true

def G.run (g : G) : List Step → Option G
  | [] => some g
  | st :: rest => if g.enabled st then (g.step st).run rest else none

def queued (s : Sched) : List Nat := s.global ++ s.locals.flatten

/-- what the three "take a morsel" operations do -/
def Took (s : Sched) (r : Option Nat × Sched) : Prop :=
  r.2.active = s.active ∧ r.2.subDone = s.subDone ∧ r.2.done = s.done ∧
  r.2.locals.length = s.locals.length ∧
  match r.1 with
  | some m => (queued s).Perm (m :: queued r.2)
  | none => queued r.2 = queued s

theorem popAt_spec (ls : List (List Nat)) (w : Nat) :
    (popAt ls w).2.length = ls.length ∧
    match (popAt ls w).1 with
    | some m => ls.flatten.Perm (m :: (popAt ls w).2.flatten)
    | none => (popAt ls w).2 = ls := by
  induction ls generalizing w with
  | nil => exact ⟨rfl, rfl⟩
  | cons q qs ih =>
    cases w with
    | zero =>
      cases q with
      | nil => exact ⟨rfl, rfl⟩
      | cons m q' => exact ⟨rfl, List.Perm.refl _⟩
    | succ w =>
      have h := ih w
      simp only [popAt, List.length_cons, h.1, true_and]
      have h2 := h.2
      split at h2
      · rename_i m hm
        simp only [hm, List.flatten_cons]
        exact (List.Perm.append_left q h2).trans List.perm_middle
      · rename_i hm
        simp only [hm, h2]

theorem pushAt_spec (ls : List (List Nat)) (w m : Nat) (hw : w < ls.length) :
    (pushAt ls w m).length = ls.length ∧ (pushAt ls w m).flatten.Perm (m :: ls.flatten) := by
  induction ls generalizing w with
  | nil => simp at hw
  | cons q qs ih =>
    cases w with
    | zero =>
      refine ⟨rfl, ?_⟩
      simp only [pushAt, List.flatten_cons, List.append_assoc, List.singleton_append]
      exact List.perm_middle
    | succ w =>
      have h := ih w (by simpa using hw)
      refine ⟨by simp [pushAt, h.1], ?_⟩
      simp only [pushAt, List.flatten_cons]
      exact (List.Perm.append_left q h.2).trans List.perm_middle

theorem took_popLocal (w : Nat) (s : Sched) : Took s (popLocal w s) := by
  have h := popAt_spec s.locals w
  refine ⟨rfl, rfl, rfl, h.1, ?_⟩
  have h2 := h.2
  simp only [popLocal]
  split at h2
  · rename_i m hm
    simp only [hm, queued]
    exact (List.Perm.append_left s.global h2).trans List.perm_middle
  · rename_i hm
    simp only [hm, queued, h2]

theorem took_getGlobal (s : Sched) : Took s (getGlobal s) := by
  unfold getGlobal
  cases hg : s.global with
  | nil => exact ⟨rfl, rfl, rfl, rfl, by simp [queued, hg]⟩
  | cons m g => exact ⟨rfl, rfl, rfl, rfl, by simp [queued, hg]⟩

theorem took_stealFrom (s : Sched) (vs : List Nat) : Took s (stealFrom s vs) := by
  induction vs with
  | nil => exact ⟨rfl, rfl, rfl, rfl, rfl⟩
  | cons v vs ih =>
    have h := took_popLocal v s
    simp only [stealFrom]
    split
    · rename_i m s' heq
      rw [heq] at h; exact h
    · exact ih

theorem took_stealWork (w : Nat) (s : Sched) : Took s (stealWork w s) := by
  unfold stealWork
  split
  · exact ⟨rfl, rfl, rfl, rfl, rfl⟩
  · exact took_stealFrom s _

theorem complete_active (s : Sched) : (complete s).active = (s.active + (M64 - 1)) % M64 := by
  unfold complete; split <;> rfl
theorem complete_keeps (s : Sched) :
    (complete s).global = s.global ∧ (complete s).locals = s.locals ∧ (complete s).subDone = s.subDone := by
  unfold complete; split <;> exact ⟨rfl, rfl, rfl⟩
theorem complete_done (s : Sched) :
    (complete s).done = true ↔ (s.done = true ∨ (s.active = 1 ∧ s.subDone = true)) := by
  unfold complete
  by_cases h : s.active = 1 ∧ s.subDone = true
  · rw [if_pos h]; exact ⟨fun _ => Or.inr h, fun _ => rfl⟩
  · rw [if_neg h]; exact ⟨fun hd => Or.inl hd, fun hd => hd.elim id (fun x => absurd x h)⟩
theorem act_add (a k c d : Nat) (h : (a : Int) = ((c : Int) - d) % 18446744073709551616) :
    (((a + k) % M64 : Nat) : Int) = (((c + k : Nat) : Int) - d) % 18446744073709551616 := by
  unfold M64; omega
theorem act_sub (a c d : Nat) (h : (a : Int) = ((c : Int) - d) % 18446744073709551616) :
    (((a + (M64 - 1)) % M64 : Nat) : Int) = ((c : Int) - ((d + 1 : Nat) : Int)) % 18446744073709551616 := by
  unfold M64; omega

/-- conservation: queues + handed-out morsels = everything ever pushed, as multisets -/
def InvA (g : G) : Prop := (queued g.s ++ g.handed).Perm g.pushed

theorem hand_invA (g : G) (r : Option Nat × Sched) (ht : Took g.s r) (h : InvA g) : InvA (hand g r) := by
  obtain ⟨_, _, _, _, hm⟩ := ht
  unfold InvA hand at *
  split at hm
  · rename_i m hr
    simp only [hr]
    have : (queued g.s ++ g.handed).Perm (queued r.2 ++ m :: g.handed) :=
      ((List.Perm.append_right g.handed hm).trans (by simp)).trans List.perm_middle.symm
    exact this.symm.trans h
  · rename_i hr
    simp only [hr, hm]; exact h

theorem step_invA (g : G) (st : Step) (hen : g.enabled st = true) (h : InvA g) : InvA (g.step st) := by
  cases st with
  | submitPush m =>
    unfold InvA at *
    simp only [G.step, submitPush, queued, List.append_assoc]
    have : (g.s.global ++ ([m] ++ (g.s.locals.flatten ++ g.handed))).Perm
        (m :: (g.s.global ++ (g.s.locals.flatten ++ g.handed))) := List.perm_middle
    exact this.trans (List.Perm.cons m (by simpa [queued, List.append_assoc] using h))
  | submitCount => exact h
  | finishStore => exact h
  | finishCheck =>
    unfold InvA at *
    simp only [G.step, finishCheck]; split <;> exact h
  | popLocal w => exact hand_invA g _ (took_popLocal w g.s) h
  | getGlobal => exact hand_invA g _ (took_getGlobal g.s) h
  | steal w => exact hand_invA g _ (took_stealWork w g.s) h
  | pushLocalPush w m =>
    simp only [G.enabled, Bool.and_eq_true, decide_eq_true_eq] at hen
    have hp := (pushAt_spec g.s.locals w m hen.1).2
    unfold InvA at *
    simp only [G.step, pushLocalPush, queued, List.append_assoc]
    have h1 : (g.s.global ++ ((pushAt g.s.locals w m).flatten ++ g.handed)).Perm
        (g.s.global ++ ((m :: g.s.locals.flatten) ++ g.handed)) :=
      List.Perm.append_left _ (List.Perm.append_right _ hp)
    have h2 : (g.s.global ++ ((m :: g.s.locals.flatten) ++ g.handed)).Perm
        (m :: (g.s.global ++ (g.s.locals.flatten ++ g.handed))) := List.perm_middle
    exact (h1.trans h2).trans (List.Perm.cons m (by simpa [queued, List.append_assoc] using h))
  | pushLocalCount => exact h
  | complete =>
    have k := complete_keeps g.s
    have hq : queued (complete g.s) = queued g.s := by simp only [queued, k.1, k.2.1]
    unfold InvA at *
    show (queued (complete g.s) ++ g.handed).Perm g.pushed
    rw [hq]; exact h

theorem run_invA (g g' : G) (steps : List Step) (hr : g.run steps = some g') (h : InvA g) : InvA g' := by
  induction steps generalizing g with
  | nil => simp only [G.run, Option.some.injEq] at hr; subst hr; exact h
  | cons st rest ih =>
    simp only [G.run] at hr
    split at hr
    · rename_i hen; exact ih (g.step st) hr (step_invA g st hen h)
    · cases hr

/-- F (target 3a): under EVERY interleaving of the atomic steps of any number of workers, the
morsels in the queues together with the morsels handed to workers are exactly the morsels pushed
(as multisets): nothing is lost, nothing is handed out twice — if the submitted ids are distinct,
so are the handed-out ones, and each was submitted; once the queues are empty every submitted
morsel has been handed out. -/
theorem c17_sched_every_morsel_handed_once (w : Nat) (wpn : Option Nat) (steps : List Step) (g : G)
    (hr : (G.init w wpn).run steps = some g) :
    (queued g.s ++ g.handed).Perm g.pushed ∧
    (g.pushed.Nodup → g.handed.Nodup ∧ ∀ m ∈ g.handed, m ∈ g.pushed) ∧
    (queued g.s = [] → g.handed.Perm g.pushed) := by
  have h : InvA g := run_invA _ g steps hr (by simp [InvA, G.init, Sched.init, queued])
  refine ⟨h, ?_, ?_⟩
  · intro hn
    have hn' : (queued g.s ++ g.handed).Nodup := h.nodup_iff.mpr hn
    exact ⟨(List.nodup_append.mp hn').2.1, fun m hm => h.subset (List.mem_append_right _ hm)⟩
  · intro hq
    have h' := h
    unfold InvA at h'
    simpa [hq] using h'

/-- no `push_local` in the trace -/
def noLocal : List Step → Bool
  | [] => true
  | .pushLocalPush _ _ :: _ => false
  | .pushLocalCount :: _ => false
  | _ :: rest => noLocal rest

/-- counters: `active` is `counted − completed` modulo 2^64 (a `complete_morsel` may overtake the
`fetch_add` of its morsel: the counter wraps and comes back) -/
structure InvB (g : G) : Prop where
  perm : InvA g
  act : (g.s.active : Int) = ((g.counted : Int) - (g.completed : Int)) % 18446744073709551616
  cnt : g.counted + g.pendSubmit = g.pushed.length
  bound : g.pushed.length < 18446744073709551616
  comp : g.completed ≤ g.handed.length
  fin : g.s.subDone = true → g.pendSubmit = 0
  done : g.s.done = true → g.s.subDone = true ∧ g.completed = g.pushed.length

theorem invA_len (g : G) (h : InvA g) : (queued g.s).length + g.handed.length = g.pushed.length := by
  have := h.length_eq; simpa using this

theorem hand_invB (g : G) (r : Option Nat × Sched) (ht : Took g.s r) (h : InvB g) : InvB (hand g r) := by
  have hA := hand_invA g r ht h.perm
  obtain ⟨h1, h2, h3, _, _⟩ := ht
  refine ⟨hA, ?_, h.cnt, h.bound, ?_, ?_, ?_⟩
  · simp only [hand, h1]; exact h.act
  · have hc := h.comp
    simp only [hand]; split
    · simp only [List.length_cons]; omega
    · exact hc
  · simp only [hand, h2]; exact h.fin
  · simp only [hand, h2, h3]; exact h.done

theorem step_invB (g : G) (st : Step) (hen : g.enabled st = true) (hl : noLocal [st] = true) (h : InvB g) :
    InvB (g.step st) := by
  have hlen := invA_len g h.perm
  have hA := step_invA g st hen h.perm
  have hact := h.act; have hcnt := h.cnt; have hb := h.bound; have hc := h.comp
  cases st with
  | submitPush m =>
    simp only [G.enabled, Bool.and_eq_true] at hen
    have he2 : g.pushed.length + 1 < M64 := of_decide_eq_true hen.2
    unfold M64 at he2
    have he1 : g.s.subDone = false := by
      cases hsd : g.s.subDone with
      | false => rfl
      | true => rw [hsd] at hen; exact absurd hen.1 (by decide)
    refine ⟨hA, ?_, ?_, ?_, hc, ?_, ?_⟩
    · exact hact
    · show g.counted + (g.pendSubmit + 1) = (m :: g.pushed).length
      simp only [List.length_cons]; omega
    · show (m :: g.pushed).length < 18446744073709551616
      simp only [List.length_cons]; omega
    · intro hs
      have hs' : g.s.subDone = true := hs
      rw [he1] at hs'; cases hs'
    · intro hd
      have hd' : g.s.done = true := hd
      have := (h.done hd').1
      rw [he1] at this; cases this
  | submitCount =>
    refine ⟨hA, ?_, ?_, hb, hc, fun _ => rfl, ?_⟩
    · exact act_add _ _ _ _ hact
    · simp [G.step]; omega
    · intro hd
      have hd' : g.s.done = true := by simpa [G.step, submitCount] using hd
      exact ⟨by simpa [G.step, submitCount] using (h.done hd').1, (h.done hd').2⟩
  | finishStore =>
    simp only [G.enabled, beq_iff_eq] at hen
    refine ⟨hA, by simpa [G.step, finishStore] using hact, hcnt, hb, hc, fun _ => hen, ?_⟩
    intro hd
    have hd' : g.s.done = true := by simpa [G.step, finishStore] using hd
    exact ⟨by simp [G.step, finishStore], (h.done hd').2⟩
  | finishCheck =>
    simp only [G.enabled] at hen
    have hp := h.fin hen
    by_cases h0 : g.s.active = 0
    · refine ⟨hA, ?_, hcnt, hb, hc, ?_, ?_⟩
      · simpa [G.step, finishCheck, h0] using hact
      · intro _; exact hp
      · intro _
        refine ⟨by simp [G.step, finishCheck, h0, hen], ?_⟩
        simp only [G.step]
        rw [h0] at hact; omega
    · refine ⟨hA, ?_, hcnt, hb, hc, ?_, ?_⟩
      · simpa [G.step, finishCheck, h0] using hact
      · intro _; exact hp
      · intro hd
        have hd' : g.s.done = true := by simpa [G.step, finishCheck, h0] using hd
        have := h.done hd'
        exact ⟨by simp [G.step, finishCheck, h0, this.1], this.2⟩
  | popLocal w => exact hand_invB g _ (took_popLocal w g.s) h
  | getGlobal => exact hand_invB g _ (took_getGlobal g.s) h
  | steal w => exact hand_invB g _ (took_stealWork w g.s) h
  | pushLocalPush w m => simp [noLocal] at hl
  | pushLocalCount => simp [noLocal] at hl
  | complete =>
    simp only [G.enabled, decide_eq_true_eq] at hen
    have k := complete_keeps g.s
    refine ⟨hA, ?_, hcnt, hb, ?_, ?_, ?_⟩
    · show ((complete g.s).active : Int)
        = ((g.counted : Int) - ((g.completed + 1 : Nat) : Int)) % 18446744073709551616
      rw [complete_active]; exact act_sub _ _ _ hact
    · show g.completed + 1 ≤ g.handed.length
      omega
    · intro hs
      exact h.fin (by rw [← k.2.2]; exact hs)
    · intro hd
      show (complete g.s).subDone = true ∧ g.completed + 1 = g.pushed.length
      rw [k.2.2]
      rcases (complete_done g.s).mp hd with hd' | ⟨ha, hs⟩
      · have := h.done hd'
        exfalso; omega
      · have hp := h.fin hs
        refine ⟨hs, ?_⟩
        rw [ha] at hact; omega

theorem run_invB (g g' : G) (steps : List Step) (hr : g.run steps = some g') (hl : noLocal steps = true)
    (h : InvB g) : InvB g' := by
  induction steps generalizing g with
  | nil => simp only [G.run, Option.some.injEq] at hr; subst hr; exact h
  | cons st rest ih =>
    simp only [G.run] at hr
    split at hr
    · rename_i hen
      have h1 : noLocal [st] = true := by cases st <;> simp_all [noLocal]
      have h2 : noLocal rest = true := by cases st <;> simp_all [noLocal]
      exact ih (g.step st) hr h2 (step_invB g st hen h1 h)
    · cases hr

/-- F (target 3b): for every interleaving of submit / finish_submission / get_work (local, global,
steal) / complete_morsel that follows the protocol: `is_done()` ⇒ submission finished, every
submitted morsel has been handed out and every handed-out morsel completed — never earlier. -/
theorem c17_sched_done_not_premature (w : Nat) (wpn : Option Nat) (steps : List Step) (g : G)
    (hr : (G.init w wpn).run steps = some g) (hl : noLocal steps = true) (hd : g.s.done = true) :
    g.s.subDone = true ∧ g.pendSubmit = 0 ∧ queued g.s = [] ∧ g.handed.Perm g.pushed ∧
      g.completed = g.handed.length := by
  have h : InvB g := run_invB _ g steps hr hl
    ⟨by simp [InvA, G.init, Sched.init, queued], by simp [G.init, Sched.init], by simp [G.init],
     by simp [G.init], by simp [G.init], by simp [G.init, Sched.init], by simp [G.init, Sched.init]⟩
  have hdone := h.done hd
  have hlen := invA_len g h.perm
  have hc := h.comp
  have hq : queued g.s = [] := List.eq_nil_of_length_eq_zero (by omega)
  refine ⟨hdone.1, h.fin hdone.1, hq, ?_, by omega⟩
  have := h.perm; unfold InvA at this; simpa [hq] using this

/-- W (defect): `push_local` pushes the morsel BEFORE it counts it. A thief can steal and complete
it inside that window; `complete_morsel` then sees `prev == 1` (the pusher's own morsel) and sets
`done` while the pusher is still working on a handed-out morsel: 2 handed, 1 completed, done. -/
theorem c17_sched_push_local_premature_done_witness :
    ((G.init 2 none).run [.submitPush 0, .submitCount, .finishStore, .finishCheck, .getGlobal,
        .pushLocalPush 0 7, .steal 1, .complete]).map
      (fun g => (g.s.done, g.handed.length, g.completed, g.pendLocal)) = some (true, 2, 1, 1) := by
  decide

/-- W (repair): counting before pushing closes the window — the same schedule with the two halves
of `push_local` swapped leaves `done` false until the last morsel completes. -/
theorem c17_sched_push_local_count_first :
    ((G.init 2 none).run [.submitPush 0, .submitCount, .finishStore, .finishCheck, .getGlobal,
        .pushLocalPush 0 7, .pushLocalCount, .steal 1, .complete]).map
      (fun g => (g.s.done, g.handed.length, g.completed)) = some (false, 2, 1) := by
  decide

/-- W (caller error, not a defect): a `submit` after `finish_submission` found the scheduler idle
leaves `done` stuck at true with a morsel queued (the protocol step `submitPush` is disabled
there; shown on the method-level functions the stream drives: `par sched 2 d f;s0;g0;c0`). -/
theorem c17_sched_submit_after_finish_witness :
    (submit 0 (finishSubmission (Sched.init 2 none))).done = true ∧
    (submit 0 (finishSubmission (Sched.init 2 none))).global = [0] := by
  decide

end Grafeo.Par
