import GrafeoModel.Model.Query

/-!
# C08 — read queries return what graph-pattern semantics defines (pattern part)

`Spec.bindings` enumerates every assignment of pattern variables to nodes and of hops to edges;
`Pipe.bindings` is the scan → expand → expand … pipeline over the adjacency of the bound node.
Proved for **every** graph with unique node identifiers, every start label, every chain of hops
(any length, any directions, types and labels): the pipeline produces exactly the bindings of
the enumeration semantics, as a set (`c08_pipeline_bindings_eq_enumeration`).
-/

namespace Grafeo.Query

def UniqueIds (g : Graph) : Prop := g.nodes.Pairwise (fun x y => x.id ≠ y.id)

instance (g : Graph) : Decidable (UniqueIds g) := by unfold UniqueIds; infer_instance

theorem find_unique (l : List Node) (d : Nat) (c : Node)
    (hu : l.Pairwise (fun x y => x.id ≠ y.id)) (hm : c ∈ l) (hid : c.id = d) :
    l.find? (fun x => x.id == d) = some c := by
  induction l with
  | nil => simp at hm
  | cons x xs ih =>
    rw [List.pairwise_cons] at hu
    simp only [List.find?_cons]
    rcases List.mem_cons.mp hm with rfl | hm'
    · simp [hid]
    · have hne : x.id ≠ c.id := hu.1 c hm'
      have : (x.id == d) = false := by
        rw [← hid]; simp [hne]
      rw [this]
      exact ih hu.2 hm'

theorem node?_some_iff (g : Graph) (hu : UniqueIds g) (d : Nat) (c : Node) :
    g.node? d = some c ↔ c ∈ g.nodes ∧ c.id = d := by
  unfold Graph.node?
  constructor
  · intro h
    have hm := List.mem_of_find?_eq_some h
    have hp := List.find?_some h
    exact ⟨hm, beq_iff_eq.mp hp⟩
  · rintro ⟨hm, hid⟩
    exact find_unique g.nodes d c hu hm hid

/-- one hop: the expand step yields exactly the one-node extensions the specification allows -/
theorem expandStep_mem_iff (g : Graph) (hu : UniqueIds g) (h : Hop) (b : Binding) (a : Node)
    (ha : b.getLast? = some a) (b1 : Binding) :
    b1 ∈ Pipe.expandStep g h b ↔
      ∃ c, c ∈ g.nodes ∧ ∃ e, e ∈ g.edges ∧
        (Spec.hopMatches h a c e && labelOk h.target c) = true ∧ b1 = b ++ [c] := by
  unfold Pipe.expandStep
  simp only [ha]
  rw [List.mem_filterMap]
  constructor
  · rintro ⟨⟨e, cid⟩, hmem, hsome⟩
    dsimp only at hsome
    have hsome' : tyOk h e = true ∧
        ∃ c, g.node? cid = some c ∧ labelOk h.target c = true ∧ b1 = b ++ [c] := by
      cases hty : tyOk h e with
      | false => rw [hty] at hsome; simp at hsome
      | true =>
        rw [hty] at hsome
        simp only [if_true] at hsome
        cases hn : g.node? cid with
        | none => rw [hn] at hsome; simp at hsome
        | some c =>
          rw [hn] at hsome
          dsimp only at hsome
          generalize hl : labelOk h.target c = lok at hsome
          cases lok with
          | false => simp at hsome
          | true =>
            simp only [if_true] at hsome
            exact ⟨rfl, c, rfl, hl, (Option.some.inj hsome).symm⟩
    obtain ⟨hty, c, hn, hl, rfl⟩ := hsome'
    obtain ⟨hc, hcid⟩ := (node?_some_iff g hu cid c).mp hn
    -- e is an edge of the graph, leaving / entering `a` as the direction says, and `cid` is its other end
    have hedge : e ∈ g.edges ∧
        (match h.dir with
         | .out => e.src = a.id ∧ e.dst = cid
         | .inc => e.dst = a.id ∧ e.src = cid
         | .both => (e.src = a.id ∧ e.dst = cid) ∨ (e.dst = a.id ∧ e.src = cid)) := by
      cases hd : h.dir with
      | out =>
        simp only [hd, List.mem_map, List.mem_filter] at hmem
        obtain ⟨e', ⟨he', hs⟩, heq⟩ := hmem
        cases heq
        exact ⟨he', beq_iff_eq.mp hs, rfl⟩
      | inc =>
        simp only [hd, List.mem_map, List.mem_filter] at hmem
        obtain ⟨e', ⟨he', hs⟩, heq⟩ := hmem
        cases heq
        exact ⟨he', beq_iff_eq.mp hs, rfl⟩
      | both =>
        simp only [hd, List.mem_append, List.mem_map, List.mem_filter] at hmem
        rcases hmem with ⟨e', ⟨he', hs⟩, heq⟩ | ⟨e', ⟨⟨he', hs⟩, _⟩, heq⟩
        · cases heq; exact ⟨he', Or.inl ⟨beq_iff_eq.mp hs, rfl⟩⟩
        · cases heq; exact ⟨he', Or.inr ⟨beq_iff_eq.mp hs, rfl⟩⟩
    refine ⟨c, hc, e, hedge.1, ?_, rfl⟩
    unfold Spec.hopMatches
    rw [hty, hl]
    simp only [Bool.true_and, Bool.and_true]
    have hdir := hedge.2
    cases hd : h.dir with
    | out => rw [hd] at hdir; simp [hdir.1, hdir.2, hcid]
    | inc => rw [hd] at hdir; simp [hdir.1, hdir.2, hcid]
    | both =>
      rw [hd] at hdir
      rcases hdir with ⟨h1, h2⟩ | ⟨h1, h2⟩
      · simp [h1, h2, hcid]
      · simp [h1, h2, hcid]
  · rintro ⟨c, hc, e, he, hok, rfl⟩
    simp only [Bool.and_eq_true] at hok
    obtain ⟨hm, hl⟩ := hok
    unfold Spec.hopMatches at hm
    simp only [Bool.and_eq_true] at hm
    obtain ⟨hty, hdir⟩ := hm
    cases hd : h.dir with
    | out =>
      simp only [hd, Bool.and_eq_true, beq_iff_eq] at hdir
      refine ⟨(e, e.dst), ?_, ?_⟩
      · simp only [hd, List.mem_map, List.mem_filter]
        exact ⟨e, ⟨he, by simp [hdir.1]⟩, rfl⟩
      · have : g.node? e.dst = some c := (node?_some_iff g hu e.dst c).mpr ⟨hc, hdir.2.symm⟩
        simp [hty, this, hl]
    | inc =>
      simp only [hd, Bool.and_eq_true, beq_iff_eq] at hdir
      refine ⟨(e, e.src), ?_, ?_⟩
      · simp only [hd, List.mem_map, List.mem_filter]
        exact ⟨e, ⟨he, by simp [hdir.1]⟩, rfl⟩
      · have : g.node? e.src = some c := (node?_some_iff g hu e.src c).mpr ⟨hc, hdir.2.symm⟩
        simp [hty, this, hl]
    | both =>
      simp only [hd, Bool.or_eq_true, Bool.and_eq_true, beq_iff_eq] at hdir
      rcases hdir with ⟨h1, h2⟩ | ⟨h1, h2⟩
      · refine ⟨(e, e.dst), ?_, ?_⟩
        · simp only [hd, List.mem_append, List.mem_map, List.mem_filter]
          exact Or.inl ⟨e, ⟨he, by simp [h1]⟩, rfl⟩
        · have : g.node? e.dst = some c := (node?_some_iff g hu e.dst c).mpr ⟨hc, h2.symm⟩
          simp [hty, this, hl]
      · by_cases hloop : e.src = a.id
        · -- a self-loop on `a`: it is taken from the forward list
          refine ⟨(e, e.dst), ?_, ?_⟩
          · simp only [hd, List.mem_append, List.mem_map, List.mem_filter]
            exact Or.inl ⟨e, ⟨he, by simp [hloop]⟩, rfl⟩
          · have hcid : c.id = e.dst := by rw [← h2, hloop, h1]
            have : g.node? e.dst = some c := (node?_some_iff g hu e.dst c).mpr ⟨hc, hcid⟩
            simp [hty, this, hl]
        · refine ⟨(e, e.src), ?_, ?_⟩
          · simp only [hd, List.mem_append, List.mem_map, List.mem_filter]
            exact Or.inr ⟨e, ⟨⟨he, by simp [h1]⟩, by simp [hloop]⟩, rfl⟩
          · have : g.node? e.src = some c := (node?_some_iff g hu e.src c).mpr ⟨hc, h2.symm⟩
            simp [hty, this, hl]

theorem extend_cons_mem (g : Graph) (h : Hop) (hs : List Hop) (b : Binding) (a : Node)
    (ha : b.getLast? = some a) (b' : Binding) :
    b' ∈ Spec.extend g (h :: hs) b ↔
      ∃ c, c ∈ g.nodes ∧ ∃ e, e ∈ g.edges ∧
        (Spec.hopMatches h a c e && labelOk h.target c) = true ∧ b' ∈ Spec.extend g hs (b ++ [c]) := by
  simp only [Spec.extend, ha, List.mem_flatMap]
  constructor
  · rintro ⟨c, hc, e, he, hin⟩
    split at hin
    · rename_i hok; exact ⟨c, hc, e, he, hok, hin⟩
    · simp at hin
  · rintro ⟨c, hc, e, he, hok, hin⟩
    exact ⟨c, hc, e, he, by simp only [hok, if_true]; exact hin⟩

/-- the expand chain, from any set of partial bindings that all end in a node -/
theorem chain_mem_iff (g : Graph) (hu : UniqueIds g) (hops : List Hop) (rows : List Binding)
    (hne : ∀ b ∈ rows, b ≠ []) (b' : Binding) :
    b' ∈ hops.foldl (fun rows h => rows.flatMap (Pipe.expandStep g h)) rows ↔
      ∃ b, b ∈ rows ∧ b' ∈ Spec.extend g hops b := by
  induction hops generalizing rows with
  | nil => simp [Spec.extend]
  | cons h hs ih =>
    simp only [List.foldl_cons]
    have hne' : ∀ b1 ∈ rows.flatMap (Pipe.expandStep g h), b1 ≠ [] := by
      intro b1 hb1
      rw [List.mem_flatMap] at hb1
      obtain ⟨b, hb, hb1⟩ := hb1
      obtain ⟨a, ha⟩ : ∃ a, b.getLast? = some a := by
        cases hl : b.getLast? with
        | none => exact absurd (List.getLast?_eq_none_iff.mp hl) (hne b hb)
        | some a => exact ⟨a, rfl⟩
      obtain ⟨c, _, _, _, _, rfl⟩ := (expandStep_mem_iff g hu h b a ha b1).mp hb1
      simp
    rw [ih _ hne']
    constructor
    · rintro ⟨b1, hb1, hin⟩
      rw [List.mem_flatMap] at hb1
      obtain ⟨b, hb, hb1⟩ := hb1
      obtain ⟨a, ha⟩ : ∃ a, b.getLast? = some a := by
        cases hl : b.getLast? with
        | none => exact absurd (List.getLast?_eq_none_iff.mp hl) (hne b hb)
        | some a => exact ⟨a, rfl⟩
      obtain ⟨c, hc, e, he, hok, rfl⟩ := (expandStep_mem_iff g hu h b a ha b1).mp hb1
      exact ⟨b, hb, (extend_cons_mem g h hs b a ha b').mpr ⟨c, hc, e, he, hok, hin⟩⟩
    · rintro ⟨b, hb, hin⟩
      obtain ⟨a, ha⟩ : ∃ a, b.getLast? = some a := by
        cases hl : b.getLast? with
        | none => exact absurd (List.getLast?_eq_none_iff.mp hl) (hne b hb)
        | some a => exact ⟨a, rfl⟩
      obtain ⟨c, hc, e, he, hok, hin'⟩ := (extend_cons_mem g h hs b a ha b').mp hin
      refine ⟨b ++ [c], ?_, hin'⟩
      rw [List.mem_flatMap]
      exact ⟨b, hb, (expandStep_mem_iff g hu h b a ha _).mpr ⟨c, hc, e, he, hok, rfl⟩⟩

/-- F (pattern part of C08): for every graph with unique node ids and every pattern — any start
label, any number of hops, any directions, edge types and target labels — the scan/expand
pipeline finds exactly the bindings that enumerating all assignments of variables yields. -/
theorem c08_pipeline_bindings_eq_enumeration (g : Graph) (hu : UniqueIds g) (q : Q) (b : Binding) :
    b ∈ Pipe.bindings g q ↔ b ∈ Spec.bindings g q := by
  unfold Pipe.bindings Spec.bindings
  rw [chain_mem_iff g hu q.hops _ (by intro b hb; simp at hb; obtain ⟨a, _, rfl⟩ := hb; simp)]
  simp only [List.mem_map, List.mem_flatMap]
  constructor
  · rintro ⟨_, ⟨a, ha, rfl⟩, hin⟩; exact ⟨a, ha, hin⟩
  · rintro ⟨a, ha, hin⟩; exact ⟨[a], ⟨a, ha, rfl⟩, hin⟩

/-- R (regression example for a repaired defect): an undirected hop over a self-loop is one
binding, in the pipeline as in the enumeration. -/
theorem c08_undirected_self_loop_once :
    let g : Graph := ⟨[⟨0, [], []⟩], [⟨0, 0, 0, 0⟩]⟩
    let q : Q := { start := ⟨none⟩, hops := [⟨none, .both, ⟨none⟩⟩], preds := [], ret := .countStar,
                   distinct := false, orderBy := [], skip := none, limit := none }
    Pipe.exec g q = [[.int 1]] ∧ Spec.eval g q = [[.int 1]] := by decide

/-- N: the theorem's hypothesis holds on a non-trivial graph, and the two sides agree there. -/
example :
    let g : Graph := ⟨[⟨0, [1], []⟩, ⟨1, [], []⟩, ⟨2, [1], []⟩], [⟨0, 0, 1, 0⟩, ⟨1, 1, 2, 0⟩, ⟨2, 0, 2, 1⟩]⟩
    let q : Q := { start := ⟨some 1⟩, hops := [⟨some 0, .out, ⟨none⟩⟩, ⟨none, .out, ⟨some 1⟩⟩], preds := [],
                   ret := .countStar, distinct := false, orderBy := [], skip := none, limit := none }
    UniqueIds g ∧ Pipe.exec g q = Spec.eval g q := by
  refine ⟨by decide, by decide⟩

end Grafeo.Query
