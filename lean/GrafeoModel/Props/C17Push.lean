import GrafeoModel.Model.Push
import GrafeoModel.Props.C11
/-
C17, push-based operators / real parallel pipeline / spilling: theorems about `Model/Push.lean`.

  1. push protocol: for every chain of the modelled operator kinds in which limit-like operators
     occur only in last position, every chunking, every input: what the sink of `Pipeline::execute`
     receives = the list-level specification (`filter`, `map`, `take`, `drop`, first-occurrence
     dedup, stable sort, group-by). The unrestricted statement is false for the code as it is
     (`Pipeline::push_through` drops the chunk a non-final limit hands on together with `false`);
     the negation is proved on a witness.
  2. pull operators = the same specification; push = pull.
  3. spilling: run generation + k-way merge = sort for every threshold, chunking and heap
     discipline; partitioning by any hash function = global aggregation; spill-file bookkeeping.
  4. selection vectors: index-level `DataChunk::filter` = list-level filter up to 65535 rows.
-/
set_option linter.unusedSectionVars false
set_option linter.unusedSimpArgs false
namespace Grafeo.Push
variable {α κ β : Type} [DecidableEq κ]

/-! ## 1. push protocol -/


theorem dedupStep_append (key : α → κ) (seen : List κ) (a b : List α) :
    dedupStep key seen (a ++ b) =
      ((dedupStep key (dedupStep key seen a).1 b).1,
       (dedupStep key seen a).2 ++ (dedupStep key (dedupStep key seen a).1 b).2) := by
  induction a generalizing seen with
  | nil => simp [dedupStep]
  | cons r rs ih =>
    simp only [List.cons_append, dedupStep]
    split
    · exact ih seen
    · rw [ih]; simp

theorem limitPush_fields (n : Nat) (st : St α κ β) (c : List α) :
    (limitPush n st c).1.skipped = st.skipped ∧ (limitPush n st c).1.seen = st.seen ∧
    (limitPush n st c).1.buf = st.buf ∧ (limitPush n st c).1.groups = st.groups ∧
    (limitPush n st c).1.glob = st.glob := by
  unfold limitPush; split
  · simp
  · split <;> simp

theorem limitPush_sem (n : Nat) (st : St α κ β) (c X : List α) :
    (c ++ X).take (n - st.passed) =
      (limitPush n st c).2.1 ++ X.take (n - (limitPush n st c).1.passed) := by
  unfold limitPush
  split
  · rename_i h
    have : n - st.passed = 0 := by omega
    simp [this]
  · split
    · rename_i h1 h2
      simp only
      rw [List.take_append]
      have : List.take (n - st.passed) c = c := List.take_of_length_le h2
      rw [this]
      congr 2
      omega
    · rename_i h1 h2
      simp only
      rw [List.take_append]
      have : n - st.passed - c.length = 0 := by omega
      simp [this]

theorem limitPush_dead (n : Nat) (st : St α κ β) (c : List α) (h : (limitPush n st c).2.2 = false) :
    n - (limitPush n st c).1.passed = 0 := by
  unfold limitPush at h ⊢
  by_cases h0 : st.passed ≥ n
  · simp only [h0, if_true]; omega
  · simp only [h0, if_false] at h ⊢
    by_cases h1 : c.length ≤ n - st.passed
    · simp only [h1, if_true] at h ⊢
      have := of_decide_eq_false h
      omega
    · simp only [h1, if_false]; omega

/-- A: feeding `c ++ X` = what `push c` emits, then feeding `X` to the new state -/
theorem sem_push (op : Op α κ β) (st : St α κ β) (c X : List α) :
    op.sem st (c ++ X) = (op.push st c).2.1 ++ op.sem (op.push st c).1 X := by
  cases op with
  | filter p => simp [Op.sem, Op.push]
  | project f => simp [Op.sem, Op.push]
  | limit n => simp only [Op.sem, Op.push]; exact limitPush_sem n st c X
  | skip s =>
    simp only [Op.sem, Op.push]
    split
    · rename_i h
      have : s - st.skipped = 0 := by omega
      simp [this]
    · split
      · rename_i h1 h2
        simp only
        rw [List.drop_append]
        have : List.drop (s - st.skipped) c = [] := List.drop_of_length_le h2
        rw [this]
        simp only [List.nil_append]
        congr 1
        omega
      · rename_i h1 h2
        simp only
        rw [List.drop_append]
        have : s - st.skipped - c.length = 0 := by omega
        simp [this]
  | skipLimit s n =>
    simp only [Op.sem, Op.push]
    split
    · rename_i h
      have : n - st.passed = 0 := by omega
      simp [this]
    · split
      · split
        · rename_i h0 h1 h2
          simp only
          rw [List.drop_append]
          have : List.drop (s - st.skipped) c = [] := List.drop_of_length_le h2
          rw [this]
          simp only [List.nil_append]
          congr 2
          omega
        · rename_i h0 h1 h2
          have hf := limitPush_fields n { st with skipped := s } (List.drop (s - st.skipped) c)
          rw [hf.1]
          simp only [Nat.sub_self, List.drop_zero]
          have := limitPush_sem n { st with skipped := s } (List.drop (s - st.skipped) c) X
          simp only at this
          rw [← this]
          rw [List.drop_append]
          have : s - st.skipped - c.length = 0 := by omega
          simp [this]
      · rename_i h0 h1
        have hf := limitPush_fields n st c
        rw [hf.1]
        have hz : s - st.skipped = 0 := by omega
        simp only [hz, List.drop_zero]
        exact limitPush_sem n st c X
  | distinct key => simp [Op.sem, Op.push, dedupStep_append]
  | distinctMat key => simp [Op.sem, Op.push, dedupStep_append]
  | sort le => simp [Op.sem, Op.push]
  | agg key mk add out => simp [Op.sem, Op.push]
  | gagg init add out => simp [Op.sem, Op.push]

/-- B: an operator that returned `false` hands on nothing any more -/
theorem sem_dead (op : Op α κ β) (st : St α κ β) (c : List α) (h : (op.push st c).2.2 = false)
    (X : List α) : op.sem (op.push st c).1 X = [] := by
  cases op with
  | limit n =>
    simp only [Op.sem, Op.push] at h ⊢
    rw [limitPush_dead n st c h]; simp
  | skipLimit s n =>
    simp only [Op.sem, Op.push] at h ⊢
    split at h
    · rename_i h0
      simp only [h0, if_true]
      have : n - st.passed = 0 := by omega
      simp [this]
    · rename_i h0
      simp only [h0, if_false]
      split at h
      · rename_i h1
        simp only [h1, if_true]
        split at h
        · simp at h
        · rename_i h2
          simp only [h2, if_false]
          rw [limitPush_dead n _ _ h]; simp
      · rename_i h1
        simp only [h1, if_false]
        rw [limitPush_dead n _ _ h]; simp
  | filter p => simp [Op.push] at h
  | project f => simp [Op.push] at h
  | skip s => simp only [Op.push] at h; split at h <;> (try split at h) <;> simp at h
  | distinct key => simp [Op.push] at h
  | distinctMat key => simp [Op.push] at h
  | sort le => simp [Op.push] at h
  | agg key mk add out => simp [Op.push] at h
  | gagg init add out => simp [Op.push] at h

/-- C: with no more input an operator hands on exactly what `finalize` emits -/
theorem sem_nil (op : Op α κ β) (st : St α κ β) : op.sem st [] = op.finalize st := by
  cases op <;> simp [Op.sem, Op.finalize, dedupStep]

/-- E: only limit-like operators ever ask for early termination -/
theorem push_cont (op : Op α κ β) (h : op.isLimit = false) (st : St α κ β) (c : List α) :
    (op.push st c).2.2 = true := by
  cases op with
  | limit n => simp [Op.isLimit] at h
  | skipLimit s n => simp [Op.isLimit] at h
  | skip s => simp only [Op.push]; split <;> (try split) <;> rfl
  | _ => simp [Op.push]
theorem rechunk_flatten (size : Nat) (hs : 0 < size) (fuel : Nat) (rows : List α)
    (h : rows.length ≤ fuel) : (rechunk size fuel rows).flatten = rows := by
  induction fuel generalizing rows with
  | zero =>
    have : rows = [] := List.length_eq_zero_iff.mp (by omega)
    subst this; rfl
  | succ n ih =>
    simp only [rechunk]
    split
    · rename_i he
      have : rows = [] := by simpa using he
      subst this; rfl
    · rename_i he
      have hne : rows ≠ [] := by simpa using he
      have hl : 0 < rows.length := List.length_pos_iff.mpr hne
      simp only [List.flatten_cons]
      rw [ih (rows.drop size) (by simp only [List.length_drop]; omega)]
      exact List.take_append_drop size rows

theorem rechunkAll_flatten (size : Nat) (hs : 0 < size) (rows : List α) :
    (rechunkAll size rows).flatten = rows := rechunk_flatten size hs _ rows (Nat.le_refl _)

theorem single_flatten (rows : List α) : (single rows).flatten = rows := by
  unfold single
  split
  · rename_i h; have : rows = [] := by simpa using h
    simp [this]
  · simp

/-- whatever the chunking of `finalize`'s output, it is `finalize`'s output -/
theorem finalizeChunks_flatten (pq : PipeQ) (hc : 0 < pq.cap) (op : Op α κ β) (st : St α κ β) :
    (op.finalizeChunks pq st).flatten = op.finalize st := by
  cases op <;> simp only [Op.finalizeChunks] <;> (try split) <;>
    first | exact single_flatten _ | exact rechunkAll_flatten _ hc _

def opsOf (sg : List (Stage α κ β)) : List (Op α κ β) := sg.map Prod.fst

theorem limitOnlyLast_cons2 (op r : Op α κ β) (rest : List (Op α κ β)) :
    limitOnlyLast (op :: r :: rest) = (!op.isLimit && limitOnlyLast (r :: rest)) := rfl

/-- the pipeline is the repaired one, or limit-like operators occur only in last position (under
which the old code behaves like the repaired one) -/
def PipeOK (pq : PipeQ) (ops : List (Op α κ β)) : Prop := pq.drop = false ∨ limitOnlyLast ops = true

theorem PipeOK.tail {pq : PipeQ} {op r : Op α κ β} {rest : List (Op α κ β)}
    (h : PipeOK pq (op :: r :: rest)) : PipeOK pq (r :: rest) := by
  rcases h with h | h
  · exact Or.inl h
  · simp only [limitOnlyLast_cons2, Bool.and_eq_true] at h
    exact Or.inr h.2

theorem pushThrough_ops (pq : PipeQ) (sg : List (Stage α κ β)) (c : List α) :
    opsOf (pushThrough pq sg c).1 = opsOf sg := by
  induction sg generalizing c with
  | nil => rfl
  | cons s rest ih =>
    obtain ⟨op, st⟩ := s
    unfold pushThrough
    split
    · rename_i h; simp_all [opsOf]
    · split
      · simp [opsOf]
      · simp only [opsOf, List.map_cons] at ih ⊢
        rw [ih]

/-- D: one `push_through` = the stages consuming the chunk; after a `false` further input makes
no difference to what will come out -/
theorem pushThrough_sem (pq : PipeQ) (sg : List (Stage α κ β)) (h : PipeOK pq (opsOf sg)) (c Y : List α) :
    semPipe sg (c ++ Y) = (pushThrough pq sg c).2.1 ++ semPipe (pushThrough pq sg c).1 Y ∧
    ((pushThrough pq sg c).2.2 = false → ∀ Z, semPipe (pushThrough pq sg c).1 Z = semPipe (pushThrough pq sg c).1 []) := by
  induction sg generalizing c Y with
  | nil => simp [semPipe, pushThrough]
  | cons s rest ih =>
    obtain ⟨op, st⟩ := s
    cases rest with
    | nil =>
      simp only [pushThrough, List.isEmpty_nil, if_true, semPipe]
      exact ⟨sem_push op st c Y, fun hf Z => by rw [sem_dead op st c hf Z, sem_dead op st c hf []]⟩
    | cons r rest =>
      have hw : PipeOK pq (opsOf (r :: rest)) := by
        have : PipeOK pq (op :: opsOf (r :: rest)) := by simpa [opsOf] using h
        simpa [opsOf] using this.tail
      -- the old code's early return never fires here
      have hnodrop : (pq.drop && !(op.push st c).2.2) = false := by
        rcases h with h | h
        · simp [h]
        · have hl : op.isLimit = false := by
            simp only [opsOf, List.map_cons, limitOnlyLast_cons2, Bool.and_eq_true, Bool.not_eq_true'] at h
            exact h.1
          simp [push_cont op hl st c]
      unfold pushThrough
      simp only [List.isEmpty_cons, Bool.false_eq_true, if_false, hnodrop, Bool.or_false]
      split
      · rename_i he
        have he' : (op.push st c).2.1 = [] := by simpa using he
        simp only [semPipe]
        refine ⟨by rw [sem_push, he']; simp, ?_⟩
        intro hf Z
        rw [sem_dead op st c hf Z, sem_dead op st c hf []]
      · simp only [semPipe]
        rw [sem_push]
        have hi := ih hw (op.push st c).2.1 (op.sem (op.push st c).1 Y)
        refine ⟨hi.1, ?_⟩
        intro hf Z
        simp only [Bool.and_eq_false_iff] at hf
        rcases hf with hf | hf
        · rw [sem_dead op st c hf Z, sem_dead op st c hf []]
        · have h2 := (ih hw (op.push st c).2.1 []).2 hf
          rw [h2 (op.sem (op.push st c).1 Z), h2 (op.sem (op.push st c).1 [])]

theorem pushChunks_ops (pq : PipeQ) (sg : List (Stage α κ β)) (cs : List (List α)) :
    opsOf (pushChunks pq sg cs).1 = opsOf sg := by
  induction cs generalizing sg with
  | nil => rfl
  | cons c cs ih => simp only [pushChunks]; rw [ih, pushThrough_ops]

theorem pushChunks_sem (pq : PipeQ) (sg : List (Stage α κ β)) (h : PipeOK pq (opsOf sg))
    (cs : List (List α)) (Y : List α) :
    semPipe sg (cs.flatten ++ Y) = (pushChunks pq sg cs).2 ++ semPipe (pushChunks pq sg cs).1 Y := by
  induction cs generalizing sg with
  | nil => simp [pushChunks]
  | cons c cs ih =>
    simp only [pushChunks, List.flatten_cons, List.append_assoc]
    rw [(pushThrough_sem pq sg h c (cs.flatten ++ Y)).1, ih _ (by rw [pushThrough_ops]; exact h)]

/-- F: `finalize_all` = the stages consuming the empty stream -/
theorem finalizeAll_sem (pq : PipeQ) (hc : 0 < pq.cap) (sg : List (Stage α κ β)) (h : PipeOK pq (opsOf sg)) :
    finalizeAll pq sg = semPipe sg [] := by
  generalize hn : sg.length = n
  induction n generalizing sg with
  | zero =>
    have : sg = [] := List.length_eq_zero_iff.mp hn
    subst this
    rw [finalizeAll]; rfl
  | succ n ih =>
    cases sg with
    | nil => simp at hn
    | cons s rest =>
      obtain ⟨op, st⟩ := s
      rw [finalizeAll]
      cases rest with
      | nil => simp [semPipe, sem_nil, finalizeChunks_flatten pq hc]
      | cons r rest =>
        have hw : PipeOK pq (opsOf (r :: rest)) := by
          have : PipeOK pq (op :: opsOf (r :: rest)) := by simpa [opsOf] using h
          simpa [opsOf] using this.tail
        simp only [List.isEmpty_cons, Bool.false_eq_true, if_false]
        rw [ih _ (by rw [pushChunks_ops]; exact hw) (by rw [pushChunks_length]; simpa using hn)]
        have := pushChunks_sem pq (r :: rest) hw (op.finalizeChunks pq st) []
        rw [finalizeChunks_flatten pq hc, List.append_nil] at this
        simp only [semPipe, sem_nil]
        exact this.symm

/-- the loop of `execute` followed by `finalize_all` = the stages consuming the whole input -/
theorem pushAll_sem (pq : PipeQ) (hc : 0 < pq.cap) (sg : List (Stage α κ β)) (h : PipeOK pq (opsOf sg))
    (chunks : List (List α)) :
    (pushAll pq sg chunks).2 ++ finalizeAll pq (pushAll pq sg chunks).1 = semPipe sg chunks.flatten := by
  induction chunks generalizing sg with
  | nil => simp [pushAll, finalizeAll_sem pq hc sg h]
  | cons c cs ih =>
    have hw : PipeOK pq (opsOf (pushThrough pq sg c).1) := by rw [pushThrough_ops]; exact h
    have hd := pushThrough_sem pq sg h c cs.flatten
    simp only [pushAll, List.flatten_cons]
    split
    · simp only [List.append_assoc]
      rw [ih _ hw, hd.1]
    · rename_i hk
      have hk' : (pushThrough pq sg c).2.2 = false := by simpa using hk
      simp only
      rw [finalizeAll_sem pq hc _ hw, hd.1, hd.2 hk' cs.flatten]

theorem dedupFirst_nil (key : α → κ) : dedupFirst key [] = [] := by rw [dedupFirst]
theorem dedupFirst_cons (key : α → κ) (r : α) (rs : List α) :
    dedupFirst key (r :: rs) = r :: dedupFirst key (rs.filter (fun x => key x ≠ key r)) := by
  rw [dedupFirst]

/-- the hash-set loop keeps exactly the first row of every key not seen before -/
theorem dedupStep_eq_dedupFirst (key : α → κ) (seen : List κ) (r : List α) :
    (dedupStep key seen r).2 = dedupFirst key (r.filter (fun x => key x ∉ seen)) := by
  induction r generalizing seen with
  | nil => simp [dedupStep, dedupFirst_nil]
  | cons x xs ih =>
    simp only [dedupStep]
    split
    · rename_i h
      rw [ih]
      simp [h]
    · rename_i h
      simp only
      rw [ih]
      simp only [List.filter_cons, h, not_false_eq_true, decide_true, if_true]
      rw [dedupFirst_cons, List.filter_filter]
      congr 2
      apply List.filter_congr
      intro y _
      simp only [List.mem_cons, not_or, ne_eq, decide_not, Bool.decide_and]

theorem dedupFirst_subset_aux (key : α → κ) (n : Nat) :
    ∀ l : List α, l.length ≤ n → ∀ x ∈ dedupFirst key l, x ∈ l := by
  induction n with
  | zero =>
    intro l hl x hx
    have : l = [] := List.length_eq_zero_iff.mp (by omega)
    subst this
    simp [dedupFirst_nil] at hx
  | succ n ih =>
    intro l hl x hx
    cases l with
    | nil => simp [dedupFirst_nil] at hx
    | cons r rs =>
      rw [dedupFirst_cons] at hx
      simp only [List.mem_cons] at hx ⊢
      rcases hx with rfl | hx
      · exact Or.inl rfl
      · have hlen : (rs.filter (fun x => key x ≠ key r)).length ≤ n := by
          have := List.length_filter_le (fun x => decide (key x ≠ key r)) rs
          simp only [List.length_cons] at hl
          omega
        exact Or.inr (List.mem_filter.mp (ih _ hlen x hx)).1

theorem dedupFirst_subset (key : α → κ) (l : List α) : ∀ x ∈ dedupFirst key l, x ∈ l :=
  dedupFirst_subset_aux key l.length l (Nat.le_refl _)

def gkeys (gs : List (κ × β)) : List κ := gs.map Prod.fst

theorem groupAdd_mem (key : α → κ) (mk : α → β) (add : β → α → β) (gs : List (κ × β)) (x : α)
    (h : key x ∈ gkeys gs) (hn : (gkeys gs).Nodup) :
    groupAdd key mk add gs x = gs.map (fun g => if g.1 = key x then (g.1, add g.2 x) else g) := by
  induction gs with
  | nil => simp [gkeys] at h
  | cons g gs ih =>
    obtain ⟨k, b⟩ := g
    simp only [groupAdd]
    simp only [gkeys, List.map_cons, List.nodup_cons, List.mem_cons] at h hn
    split
    · rename_i hk
      subst hk
      simp only [List.map_cons, if_true]
      congr 1
      symm
      rw [List.map_congr_left (g := id)]
      · simp
      · intro g hg
        have : g.1 ≠ key x := fun e => hn.1 (by rw [← e]; exact List.mem_map_of_mem hg)
        simp [this]
    · rename_i hk
      have hx : key x ∈ gkeys gs := by
        rcases h with h | h
        · exact absurd h.symm hk
        · exact h
      simp only [List.map_cons, hk, if_false]
      rw [ih hx hn.2]

theorem groupAdd_not_mem (key : α → κ) (mk : α → β) (add : β → α → β) (gs : List (κ × β)) (x : α)
    (h : key x ∉ gkeys gs) :
    groupAdd key mk add gs x = gs ++ [(key x, add (mk x) x)] := by
  induction gs with
  | nil => simp [groupAdd]
  | cons g gs ih =>
    obtain ⟨k, b⟩ := g
    simp only [gkeys, List.map_cons, List.mem_cons, not_or] at h
    simp only [groupAdd]
    rw [if_neg (fun e => h.1 e.symm)]
    rw [ih h.2]
    simp

/-- the hash-map loop, from any state with pairwise different keys: old groups are fed their rows,
new groups appear in order of first occurrence -/
theorem foldl_groupAdd (key : α → κ) (mk : α → β) (add : β → α → β) (rows : List α)
    (gs : List (κ × β)) (hn : (gkeys gs).Nodup) :
    rows.foldl (groupAdd key mk add) gs =
      gs.map (fun g => (g.1, (rows.filter (fun y => key y = g.1)).foldl add g.2)) ++
      (dedupFirst key (rows.filter (fun y => key y ∉ gkeys gs))).map
        (fun r => (key r, (rows.filter (fun y => key y = key r)).foldl add (mk r))) := by
  induction rows generalizing gs with
  | nil => simp [dedupFirst_nil]
  | cons x xs ih =>
    simp only [List.foldl_cons]
    by_cases hx : key x ∈ gkeys gs
    · rw [groupAdd_mem key mk add gs x hx hn]
      have hk : gkeys (gs.map (fun g => if g.1 = key x then (g.1, add g.2 x) else g)) = gkeys gs := by
        simp only [gkeys, List.map_map]
        apply List.map_congr_left
        intro g _
        simp only [Function.comp]
        split <;> rfl
      rw [ih _ (by rw [hk]; exact hn), hk]
      congr 1
      · rw [List.map_map]
        apply List.map_congr_left
        intro g _
        simp only [Function.comp]
        by_cases hg : g.1 = key x
        · simp [hg]
        · have : ¬ key x = g.1 := fun e => hg e.symm
          simp [hg, this]
      · simp only [List.filter_cons, hx, not_true_eq_false, decide_false, Bool.false_eq_true, if_false]
        apply List.map_congr_left
        intro r hr
        have hr' : key r ∉ gkeys gs := by
          have : r ∈ xs.filter (fun y => key y ∉ gkeys gs) := dedupFirst_subset key _ r hr
          simpa using (List.mem_filter.mp this).2
        have : ¬ key x = key r := fun e => hr' (e ▸ hx)
        simp [this]
    · rw [groupAdd_not_mem key mk add gs x hx]
      have hk : gkeys (gs ++ [(key x, add (mk x) x)]) = gkeys gs ++ [key x] := by simp [gkeys]
      have hn' : (gkeys (gs ++ [(key x, add (mk x) x)])).Nodup := by
        rw [hk]
        exact List.nodup_append.mpr ⟨hn, by simp, by
          intro a ha b hb
          simp only [List.mem_singleton] at hb
          subst hb
          intro e; exact hx (e ▸ ha)⟩
      rw [ih _ hn', hk]
      simp only [List.map_append, List.map_cons, List.map_nil, List.append_assoc]
      congr 1
      · apply List.map_congr_left
        intro g hg
        have : ¬ key x = g.1 := fun e => hx (e ▸ List.mem_map_of_mem hg)
        simp [this]
      · simp only [List.filter_cons, hx, not_false_eq_true, decide_true, if_true]
        rw [dedupFirst_cons]
        simp only [List.map_cons, List.singleton_append, decide_true, if_true]
        congr 1
        rw [List.filter_filter]
        have hfil : (xs.filter fun y => decide (key y ∉ gkeys gs ++ [key x])) =
            xs.filter (fun a => (decide (key a ≠ key x) && decide (key a ∉ gkeys gs))) := by
          apply List.filter_congr
          intro y _
          simp only [List.mem_append, List.mem_singleton, not_or, ne_eq, decide_not, Bool.decide_and]
          exact Bool.and_comm _ _
        rw [hfil]
        apply List.map_congr_left
        intro r hr
        have hr' := List.mem_filter.mp (dedupFirst_subset key _ r hr)
        have : ¬ key x = key r := by
          intro e
          have := hr'.2
          simp [e] at this
        simp [this]

theorem filter_const_true (l : List α) : l.filter (fun _ => true) = l := by
  induction l <;> simp_all

/-- from the initial state an operator's stream semantics is its list-level specification -/
theorem sem_empty_eq_spec (op : Op α κ β) (r : List α) : op.sem St.empty r = op.spec r := by
  cases op with
  | distinct key => simp [Op.sem, Op.spec, St.empty, dedupStep_eq_dedupFirst, filter_const_true]
  | distinctMat key => simp [Op.sem, Op.spec, St.empty, dedupStep_eq_dedupFirst, filter_const_true]
  | agg key mk add out =>
    simp only [Op.sem, Op.spec, St.empty, groupSpec]
    rw [foldl_groupAdd key mk add r [] (by simp [gkeys])]
    simp [gkeys, List.map_map, filter_const_true]
  | _ => simp [Op.sem, Op.spec, St.empty]

theorem semPipe_init (ops : List (Op α κ β)) (r : List α) :
    semPipe (initStages ops) r = specChain ops r := by
  induction ops generalizing r with
  | nil => rfl
  | cons op rest ih =>
    simp only [initStages, List.map_cons, semPipe, specChain] at ih ⊢
    rw [sem_empty_eq_spec, ← ih]

theorem opsOf_init (ops : List (Op α κ β)) : opsOf (initStages ops) = ops := by
  induction ops <;> simp_all [opsOf, initStages]

/-- F: for EVERY chain of the modelled operator kinds, every input and every chunking (empty chunks
included), the sink of `Pipeline::execute` receives exactly the rows of the list-level
specification, in order; whether pipeline breakers emit one chunk or chunks of the standard size
makes no difference. (`pq.drop = false`: the code since "push pipelines keep the rows an operator
hands on together with its request to stop".) -/
theorem c17_push_pipeline_eq_spec (pq : PipeQ) (hd : pq.drop = false) (hc : 0 < pq.cap)
    (ops : List (Op α κ β)) (chunks : List (List α)) :
    run pq ops chunks = specChain ops chunks.flatten := by
  unfold run
  rw [pushAll_sem pq hc _ (Or.inl hd), semPipe_init]

/-- F: the result does not depend on how the source cuts its rows into chunks -/
theorem c17_push_chunking_irrelevant (pq : PipeQ) (hd : pq.drop = false) (hc : 0 < pq.cap)
    (ops : List (Op α κ β)) (c1 c2 : List (List α)) (he : c1.flatten = c2.flatten) :
    run pq ops c1 = run pq ops c2 := by
  rw [c17_push_pipeline_eq_spec pq hd hc, c17_push_pipeline_eq_spec pq hd hc, he]

/-- N: a chain with every kind of operator, a limit in the middle, chunked unevenly -/
theorem c17_push_pipeline_nonvacuous : run (κ := Nat) (β := Nat) ⟨false, false, false, 2⟩
    [Op.filter (fun x : Nat => x != 4), Op.distinct (fun x => x % 5), Op.skip 1, Op.limit 2,
     Op.sort (fun a b => decide (a ≤ b)), Op.limit 3]
    [[9, 4], [], [3, 14, 1], [6, 2]] = [1, 3] := by
  rw [c17_push_pipeline_eq_spec _ rfl (by decide)]
  simp [specChain, Op.spec, dedupFirst_cons, dedupFirst_nil, List.mergeSort]

namespace Old
/-! the pipeline before its repair (`pq.drop = true`): regression theorems -/

/-- the code before the repairs: collector dropped on `false`, one chunk per `finalize`, chunk
size 0 possible -/
def pq : PipeQ := ⟨true, true, true, 2048⟩

/-- P (old code): correct for chains in which limit-like operators occur only in last position -/
theorem c17_push_pipeline_eq_spec_partial (ops : List (Op α κ β)) (h : limitOnlyLast ops = true)
    (chunks : List (List α)) : run pq ops chunks = specChain ops chunks.flatten := by
  unfold run
  rw [pushAll_sem pq (by decide) _ (Or.inr (by rw [opsOf_init]; exact h)), semPipe_init]

/-- W (old code): LIMIT 1 followed by a projection over the single chunk `[7]` delivered nothing
(the collector's content was dropped when the limit returned `false`); the repaired code
delivers `[7]`. -/
theorem c17_push_limit_not_last_drops_rows_witness :
    run (κ := Nat) (β := Nat) pq [Op.limit 1, Op.project (fun x : Nat => x)] [[7]] = [] ∧
    run (κ := Nat) (β := Nat) { pq with drop := false } [Op.limit 1, Op.project (fun x : Nat => x)] [[7]] = [7] := by
  constructor
  · simp [run, pq, initStages, pushAll, pushThrough, Op.push, limitPush, St.empty, finalizeAll, Op.finalize,
      Op.finalizeChunks, pushChunks, single]
  · rw [c17_push_pipeline_eq_spec _ rfl (by decide)]
    simp [specChain, Op.spec]

end Old

/-! ## 2. pull operators -/

theorem dedupStep_eq_dedupKey (key : α → κ) (seen : List κ) (l : List α) :
    dedupStep key seen l = Ops.dedupKey key seen l := by
  induction l generalizing seen with
  | nil => rfl
  | cons r rs ih =>
    simp only [dedupStep, Ops.dedupKey]
    split
    · exact ih seen
    · rw [ih]

theorem dedupFirst_eq_dedupKey (key : α → κ) (l : List α) :
    dedupFirst key l = (Ops.dedupKey key [] l).2 := by
  rw [← dedupStep_eq_dedupKey, dedupStep_eq_dedupFirst]
  simp [filter_const_true]

/-- F: first-occurrence dedup returns pairwise different keys, every key of the input, and only
rows of the input -/
theorem c17_dedupFirst_keys (key : α → κ) (l : List α) :
    ((dedupFirst key l).map key).Nodup ∧ (∀ k, k ∈ (dedupFirst key l).map key ↔ k ∈ l.map key) ∧
    (∀ x ∈ dedupFirst key l, x ∈ l) := by
  rw [dedupFirst_eq_dedupKey]
  have := Ops.c11_dedup_keys key [] l
  refine ⟨this.1, fun k => by simpa using this.2 k, ?_⟩
  rw [← dedupFirst_eq_dedupKey]
  exact dedupFirst_subset key l

theorem flatten_dropEmpty (cs : List (List α)) : (dropEmpty cs).flatten = cs.flatten := by
  induction cs with
  | nil => rfl
  | cons c cs ih =>
    simp only [dropEmpty, List.filter_cons] at ih ⊢
    cases c with
    | nil => simpa using ih
    | cons x xs => simp [ih]

/-- F: every pull operator, over every chunking of its child's output, returns the rows of the
list-level specification -/
theorem c17_pull_op_eq_spec (cap : Nat) (hc : 0 < cap) (op : Op α κ β) (cs : List (List α)) :
    (pullOp cap op cs).flatten = op.spec cs.flatten := by
  cases op with
  | filter p =>
    simp only [pullOp, Op.spec, flatten_dropEmpty]
    rw [List.filter_flatten]
  | project f =>
    simp only [pullOp, Op.spec]
    rw [List.map_flatten]
  | limit n => simp only [pullOp, Op.spec]; exact Ops.c11_limit_flatten n cs
  | skip s => simp only [pullOp, Op.spec]; exact Ops.c11_skip_flatten s cs
  | skipLimit s n => simp only [pullOp, Op.spec]; exact Ops.c11_skip_limit_window s n cs
  | distinct key =>
    simp only [pullOp, Op.spec]
    rw [Ops.c11_distinct_eq_dedup, dedupFirst_eq_dedupKey]
  | distinctMat key =>
    simp only [pullOp, Op.spec]
    rw [Ops.c11_distinct_eq_dedup, dedupFirst_eq_dedupKey]
  | sort le => simp only [pullOp, Op.spec]; exact rechunkAll_flatten cap hc _
  | agg key mk add out =>
    simp only [pullOp, Op.spec]
    rw [rechunkAll_flatten cap hc]
    have := sem_empty_eq_spec (Op.agg key mk add out) cs.flatten
    simpa [Op.sem, Op.spec, St.empty] using this
  | gagg init add out => simp [pullOp, Op.spec]

/-- F: a tree of pull operators over any chunking = the specification of the chain -/
theorem c17_pull_chain_eq_spec (cap : Nat) (hc : 0 < cap) (ops : List (Op α κ β)) (cs : List (List α)) :
    (pullChain cap ops cs).flatten = specChain ops cs.flatten := by
  induction ops generalizing cs with
  | nil => rfl
  | cons op rest ih =>
    simp only [pullChain, specChain]
    rw [ih, c17_pull_op_eq_spec cap hc]

/-- F: push-based and pull-based execution of the same chain return the same rows in the same
order, whatever the two chunkings of the input. -/
theorem c17_push_eq_pull (pq : PipeQ) (hd : pq.drop = false) (hc : 0 < pq.cap) (cap : Nat) (hcap : 0 < cap)
    (ops : List (Op α κ β)) (pushChunks pullChunks : List (List α))
    (he : pushChunks.flatten = pullChunks.flatten) :
    run pq ops pushChunks = (pullChain cap ops pullChunks).flatten := by
  rw [c17_push_pipeline_eq_spec pq hd hc, c17_pull_chain_eq_spec cap hcap, he]

/-! ## 3. spilling -/
section Spill
variable {α : Type}

/-- what the merge needs from its priority queue: it hands back a run whose head is minimal -/
def PickOK (le : α → α → Bool) (pick : List (List α) → Option Nat) : Prop :=
  ∀ runs, (pick runs = none → ∀ r ∈ runs, r = []) ∧
    (∀ i, pick runs = some i → ∃ x, headOf runs i = some x ∧ ∀ j y, headOf runs j = some y → le x y = true)

def SortedBy (le : α → α → Bool) (l : List α) : Prop := l.Pairwise (fun a b => le a b = true)

theorem popFront_perm (runs : List (List α)) (i : Nat) (x : α) (h : headOf runs i = some x) :
    runs.flatten.Perm (x :: (popFront runs i).flatten) := by
  induction runs generalizing i with
  | nil => simp [headOf] at h
  | cons r rs ih =>
    cases i with
    | zero =>
      simp only [headOf, List.getElem?_cons_zero, Option.bind_some] at h
      cases r with
      | nil => simp at h
      | cons y ys =>
        simp at h; subst h
        simp [popFront]
    | succ i =>
      have h' : headOf rs i = some x := by simpa [headOf] using h
      have := ih i h'
      simp only [popFront, List.flatten_cons]
      exact (List.Perm.append_left r this).trans List.perm_middle

theorem mergeWith_perm (le : α → α → Bool) (pick : List (List α) → Option Nat) (hp : PickOK le pick)
    (fuel : Nat) (runs : List (List α)) (hf : runs.flatten.length ≤ fuel) :
    (mergeWith pick fuel runs).Perm runs.flatten := by
  induction fuel generalizing runs with
  | zero =>
    have : runs.flatten = [] := List.length_eq_zero_iff.mp (by omega)
    simp [mergeWith, this]
  | succ fuel ih =>
    simp only [mergeWith]
    cases hpk : pick runs with
    | none =>
      have hall := (hp runs).1 hpk
      have : runs.flatten = [] := List.flatten_eq_nil_iff.mpr hall
      simp [this]
    | some i =>
      obtain ⟨x, hx, _⟩ := (hp runs).2 i hpk
      simp only [hx]
      have hperm := popFront_perm runs i x hx
      have hlen : (popFront runs i).flatten.length ≤ fuel := by
        have := hperm.length_eq
        rw [List.length_cons] at this; omega
      exact (List.Perm.cons x (ih _ hlen)).trans hperm.symm

theorem head_le_all (le : α → α → Bool) (trans : ∀ a b c, le a b = true → le b c = true → le a c = true)
    (runs : List (List α)) (hs : ∀ r ∈ runs, SortedBy le r)
    (x : α) (hmin : ∀ j y, headOf runs j = some y → le x y = true) : ∀ y ∈ runs.flatten, le x y = true := by
  intro y hy
  rw [List.mem_flatten] at hy
  obtain ⟨r, hr, hyr⟩ := hy
  obtain ⟨j, hj⟩ := List.mem_iff_getElem?.mp hr
  cases r with
  | nil => simp at hyr
  | cons z zs =>
    have hz : le x z = true := hmin j z (by simp [headOf, hj])
    rcases List.mem_cons.mp hyr with rfl | hin
    · exact hz
    · exact trans _ _ _ hz ((List.pairwise_cons.mp (hs _ hr)).1 y hin)

theorem popFront_sorted (le : α → α → Bool) (runs : List (List α)) (i : Nat) (hs : ∀ r ∈ runs, SortedBy le r) :
    ∀ r ∈ popFront runs i, SortedBy le r := by
  induction runs generalizing i with
  | nil => intro r hr; simp [popFront] at hr
  | cons r0 rs ih =>
    cases i with
    | zero =>
      intro r hr
      simp only [popFront, List.mem_cons] at hr
      rcases hr with rfl | hr
      · cases r0 with
        | nil => exact List.Pairwise.nil
        | cons a as => exact (List.pairwise_cons.mp (hs (a :: as) List.mem_cons_self)).2
      · exact hs r (by simp [hr])
    | succ i =>
      intro r hr
      simp only [popFront, List.mem_cons] at hr
      rcases hr with rfl | hr
      · exact hs r (by simp)
      · exact ih i (fun q hq => hs q (by simp [hq])) r hr

theorem mergeWith_sorted (le : α → α → Bool) (trans : ∀ a b c, le a b = true → le b c = true → le a c = true)
    (pick : List (List α) → Option Nat) (hp : PickOK le pick)
    (fuel : Nat) (runs : List (List α)) (hf : runs.flatten.length ≤ fuel)
    (hs : ∀ r ∈ runs, SortedBy le r) : SortedBy le (mergeWith pick fuel runs) := by
  induction fuel generalizing runs with
  | zero => exact List.Pairwise.nil
  | succ fuel ih =>
    simp only [mergeWith]
    cases hpk : pick runs with
    | none => exact List.Pairwise.nil
    | some i =>
      obtain ⟨x, hx, hmin⟩ := (hp runs).2 i hpk
      simp only [hx]
      have hperm := popFront_perm runs i x hx
      have hlen : (popFront runs i).flatten.length ≤ fuel := by
        have := hperm.length_eq
        rw [List.length_cons] at this; omega
      have hs' := popFront_sorted le runs i hs
      unfold SortedBy
      rw [List.pairwise_cons]
      refine ⟨?_, ih _ hlen hs'⟩
      intro y hy
      have hy' : y ∈ (popFront runs i).flatten := (mergeWith_perm le pick hp fuel _ hlen).mem_iff.mp hy
      have hy'' : y ∈ runs.flatten := hperm.mem_iff.mpr (List.mem_cons_of_mem _ hy')
      exact head_le_all le trans runs hs x hmin y hy''

/-- F: a k-way merge of sorted runs of rows is a sorted permutation of all rows, for every
number and length of runs and every tie-breaking discipline of the priority queue. -/
theorem c17_kway_merge_perm_sorted (le : α → α → Bool)
    (trans : ∀ a b c, le a b = true → le b c = true → le a c = true)
    (pick : List (List α) → Option Nat) (hp : PickOK le pick)
    (runs : List (List α)) (hs : ∀ r ∈ runs, SortedBy le r) :
    (mergeWith pick runs.flatten.length runs).Perm runs.flatten ∧
    SortedBy le (mergeWith pick runs.flatten.length runs) :=
  ⟨mergeWith_perm le pick hp _ runs (Nat.le_refl _), mergeWith_sorted le trans pick hp _ runs (Nat.le_refl _) hs⟩

/-! ### run generation -/

theorem sortedBy_mergeSort (le : α → α → Bool)
    (trans : ∀ a b c, le a b = true → le b c = true → le a c = true)
    (total : ∀ a b, (le a b || le b a) = true) (l : List α) : SortedBy le (l.mergeSort le) :=
  List.pairwise_mergeSort (fun a b c => trans a b c) total l

/-- invariant of `SpillableSortPushOperator::push` + `maybe_spill`, from any state: runs stay
sorted and non-empty, and no row is lost or invented -/
theorem xsort_fold_inv (le : α → α → Bool)
    (trans : ∀ a b c, le a b = true → le b c = true → le a c = true)
    (total : ∀ a b, (le a b || le b a) = true) (threshold : Nat)
    (chunks : List (List α)) (st : List α × List (List α))
    (hs : ∀ r ∈ st.2, SortedBy le r ∧ r ≠ []) :
    (∀ r ∈ (chunks.foldl (xsortPush le threshold) st).2, SortedBy le r ∧ r ≠ []) ∧
    ((chunks.foldl (xsortPush le threshold) st).2.flatten ++ (chunks.foldl (xsortPush le threshold) st).1).Perm
      (st.2.flatten ++ st.1 ++ chunks.flatten) := by
  induction chunks generalizing st with
  | nil => simpa using hs
  | cons c cs ih =>
    simp only [List.foldl_cons, List.flatten_cons]
    have step : (∀ r ∈ (xsortPush le threshold st c).2, SortedBy le r ∧ r ≠ []) ∧
        ((xsortPush le threshold st c).2.flatten ++ (xsortPush le threshold st c).1).Perm (st.2.flatten ++ st.1 ++ c) := by
      unfold xsortPush
      split
      · rename_i he
        have : c = [] := by simpa using he
        subst this
        exact ⟨hs, by simp⟩
      · rename_i he
        have hne : c ≠ [] := by simpa using he
        split
        · exact ⟨hs, by simp⟩
        · refine ⟨?_, ?_⟩
          · intro r hr
            simp only [List.mem_append, List.mem_singleton] at hr
            rcases hr with hr | rfl
            · exact hs r hr
            · refine ⟨sortedBy_mergeSort le trans total _, ?_⟩
              intro e
              have := (List.mergeSort_perm (st.1 ++ c) le).length_eq
              rw [e] at this
              simp only [List.length_nil, List.length_append] at this
              have : c.length = 0 := by omega
              exact hne (List.length_eq_zero_iff.mp this)
          · simp only [List.flatten_append, List.flatten_cons, List.flatten_nil, List.append_nil, List.append_assoc]
            exact List.Perm.append_left _ (List.mergeSort_perm _ le)
    have := ih (xsortPush le threshold st c) step.1
    refine ⟨this.1, this.2.trans ?_⟩
    have := List.Perm.append_right cs.flatten step.2
    simpa [List.append_assoc] using this

/-- F (logic of `ExternalSort`): for EVERY spill threshold (0 = every push spills a run, huge =
nothing spills), every chunking and every tie-breaking of the merge heap, "sort each buffer-full,
then k-way merge the runs and the sorted rest" is a sorted permutation of the input. -/
theorem c17_external_sort_sorted_perm (le : α → α → Bool)
    (trans : ∀ a b c, le a b = true → le b c = true → le a c = true)
    (total : ∀ a b, (le a b || le b a) = true)
    (pick : List (List α) → Option Nat) (hp : PickOK le pick)
    (threshold : Nat) (chunks : List (List α)) :
    let st := xsortState le threshold chunks
    let runs := st.2 ++ [st.1.mergeSort le]
    (mergeWith pick runs.flatten.length runs).Perm chunks.flatten ∧
    SortedBy le (mergeWith pick runs.flatten.length runs) := by
  intro st runs
  have inv := xsort_fold_inv le trans total threshold chunks ([], []) (by simp)
  have hs : ∀ r ∈ runs, SortedBy le r := by
    intro r hr
    simp only [runs, List.mem_append, List.mem_singleton] at hr
    rcases hr with hr | rfl
    · exact (inv.1 r hr).1
    · exact sortedBy_mergeSort le trans total _
  have hm := c17_kway_merge_perm_sorted le trans pick hp runs hs
  refine ⟨hm.1.trans ?_, hm.2⟩
  have h2 : runs.flatten.Perm (st.2.flatten ++ st.1) := by
    simp only [runs, List.flatten_append, List.flatten_cons, List.flatten_nil, List.append_nil]
    exact List.Perm.append_left _ (List.mergeSort_perm _ le)
  refine h2.trans ?_
  simpa [st, xsortState] using inv.2

/-- F: hence, when the order is antisymmetric on the rows (rows with equal keys are equal), the
spilled result IS the in-memory result, for every threshold -/
theorem c17_external_sort_any_heap_antisymm (le : α → α → Bool)
    (trans : ∀ a b c, le a b = true → le b c = true → le a c = true)
    (total : ∀ a b, (le a b || le b a) = true)
    (antisymm : ∀ a b, le a b = true → le b a = true → a = b)
    (pick : List (List α) → Option Nat) (hp : PickOK le pick)
    (threshold : Nat) (chunks : List (List α)) :
    let st := xsortState le threshold chunks
    let runs := st.2 ++ [st.1.mergeSort le]
    mergeWith pick runs.flatten.length runs = chunks.flatten.mergeSort le := by
  intro st runs
  have h := c17_external_sort_sorted_perm le trans total pick hp threshold chunks
  exact List.Perm.eq_of_pairwise (fun a b _ _ => antisymm a b) h.2
    (sortedBy_mergeSort le trans total _) (h.1.trans (List.mergeSort_perm _ le).symm)

end Spill

section Spill
variable {α : Type}

/-- N: the hypothesis `PickOK` is satisfiable for every total preorder: "leftmost run with a
minimal head" (the stable discipline) -/
theorem pickFirstMin_ok (le : α → α → Bool)
    (trans : ∀ a b c, le a b = true → le b c = true → le a c = true)
    (total : ∀ a b, (le a b || le b a) = true) : PickOK le (pickFirstMin le) := by
  have refl : ∀ a, le a a = true := fun a => by have := total a a; simpa using this
  intro runs
  induction runs with
  | nil =>
    refine ⟨fun _ r hr => by simp at hr, fun i h => by simp [pickFirstMin] at h⟩
  | cons r rs ih =>
    obtain ⟨ih1, ih2⟩ := ih
    constructor
    · intro h q hq
      simp only [pickFirstMin] at h
      cases r with
      | nil =>
        cases hp : pickFirstMin le rs with
        | none =>
          rcases List.mem_cons.mp hq with rfl | hq'
          · rfl
          · exact ih1 hp q hq'
        | some j => simp [hp] at h
      | cons x xs =>
        cases hp : pickFirstMin le rs with
        | none => simp [hp] at h
        | some j =>
          simp only [hp] at h
          split at h
          · split at h <;> simp at h
          · simp at h
    · intro i h
      simp only [pickFirstMin] at h
      cases r with
      | nil =>
        cases hp : pickFirstMin le rs with
        | none => simp [hp] at h
        | some j =>
          simp only [hp, Option.some.injEq] at h
          subst h
          obtain ⟨x, hx, hmin⟩ := ih2 j hp
          refine ⟨x, by simpa [headOf] using hx, ?_⟩
          intro k y hk
          cases k with
          | zero => simp [headOf] at hk
          | succ k => exact hmin k y (by simpa [headOf] using hk)
      | cons x xs =>
        cases hp : pickFirstMin le rs with
        | none =>
          simp only [hp, Option.some.injEq] at h
          subst h
          refine ⟨x, by simp [headOf], ?_⟩
          intro k y hk
          cases k with
          | zero =>
            simp [headOf] at hk; subst hk; exact refl _
          | succ k =>
            have hall := ih1 hp
            have hk' : headOf rs k = some y := by simpa [headOf] using hk
            unfold headOf at hk'
            cases hrk : rs[k]? with
            | none => simp [hrk] at hk'
            | some q =>
              have := hall q (List.mem_of_getElem? hrk)
              subst this
              simp [hrk] at hk'
        | some j =>
          obtain ⟨z, hz, hmin⟩ := ih2 j hp
          simp only [hp] at h
          have hz' : ∃ zs, rs[j]? = some (z :: zs) := by
            unfold headOf at hz
            cases hrj : rs[j]? with
            | none => simp [hrj] at hz
            | some q =>
              cases q with
              | nil => simp [hrj] at hz
              | cons a as => simp [hrj] at hz; subst hz; exact ⟨as, rfl⟩
          obtain ⟨zs, hzs⟩ := hz'
          simp only [hzs] at h
          split at h
          · rename_i hle
            simp at h; subst h
            refine ⟨x, by simp [headOf], ?_⟩
            intro k y hk
            cases k with
            | zero => simp [headOf] at hk; subst hk; exact refl _
            | succ k => exact trans _ _ _ hle (hmin k y (by simpa [headOf] using hk))
          · rename_i hnle
            simp at h; subst h
            refine ⟨z, by simp [headOf, hzs], ?_⟩
            intro k y hk
            cases k with
            | zero =>
              simp [headOf] at hk; subst hk
              have := total x z
              simp only [Bool.or_eq_true] at this
              rcases this with h1 | h1
              · exact absurd h1 hnle
              · exact h1
            | succ k => exact hmin k y (by simpa [headOf] using hk)
end Spill

section Stable
open List
variable {α : Type}

/-! ### the repaired merge is stable -/

theorem zipIdx_shift (l : List α) (k : Nat) :
    l.zipIdx k = (l.zipIdx 0).map (fun p => (p.1, p.2 + k)) := by
  induction l generalizing k with
  | nil => rfl
  | cons x xs ih =>
    simp only [zipIdx_cons, map_cons, Nat.zero_add]
    rw [ih (k + 1), ih 1, map_map]
    congr 1
    apply map_congr_left
    intro p _
    simp only [Function.comp]
    congr 1
    omega

theorem mergeSort_zipIdx_at (le : α → α → Bool) (i : Nat) (l : List α) :
    (mergeSort (l.zipIdx i) (zipIdxLE le)).map (·.1) = mergeSort l le := by
  rw [zipIdx_shift l i,
    ← map_mergeSort (r := zipIdxLE le) (s := zipIdxLE le) (f := fun p : α × Nat => (p.1, p.2 + i))
      (by intro a _ b _; simp [zipIdxLE]),
    map_map]
  exact mergeSort_zipIdx

/-- stable merge sort of a concatenation = stable merge of the two stable sorts -/
theorem mergeSort_append (le : α → α → Bool)
    (trans : ∀ a b c, le a b = true → le b c = true → le a c = true)
    (total : ∀ a b, (le a b || le b a) = true) (a b : List α) :
    (a ++ b).mergeSort le = merge (a.mergeSort le) (b.mergeSort le) le := by
  have tr : ∀ (x y z : α × Nat), zipIdxLE le x y = true → zipIdxLE le y z = true → zipIdxLE le x z = true :=
    fun x y z => zipIdxLE_trans (fun a b c => trans a b c) x y z
  have to : ∀ (x y : α × Nat), (zipIdxLE le x y || zipIdxLE le y x) = true :=
    fun x y => zipIdxLE_total total x y
  have key : mergeSort (a.zipIdx 0 ++ b.zipIdx (0 + a.length)) (zipIdxLE le) =
      merge (mergeSort (a.zipIdx 0) (zipIdxLE le)) (mergeSort (b.zipIdx (0 + a.length)) (zipIdxLE le)) (zipIdxLE le) := by
    apply Perm.eq_of_pairwise (le := fun x y => zipIdxLE le x y = true)
    · rintro ⟨x, i⟩ ⟨y, j⟩ hx hy hxy hyx
      have hx' : (x, i) ∈ (a ++ b).zipIdx 0 := by
        rw [zipIdx_append]; exact mem_mergeSort.mp hx
      have hy' : (y, j) ∈ (a ++ b).zipIdx 0 := by
        rw [zipIdx_append]
        have := mem_merge.mp hy
        rcases this with h | h
        · exact mem_append_left _ (mem_mergeSort.mp h)
        · exact mem_append_right _ (mem_mergeSort.mp h)
      simp only [zipIdxLE] at hxy hyx
      have hij : i = j := by
        by_cases h1 : le x y = true <;> by_cases h2 : le y x = true <;> simp_all <;> omega
      subst hij
      have e1 := mem_zipIdx hx'
      have e2 := mem_zipIdx hy'
      simp_all
    · exact pairwise_mergeSort tr to _
    · exact pairwise_merge tr to _ _ (pairwise_mergeSort tr to _) (pairwise_mergeSort tr to _)
    · refine (mergeSort_perm _ _).trans ?_
      refine Perm.trans ?_ (merge_perm_append (le := zipIdxLE le)).symm
      exact Perm.append (mergeSort_perm _ _).symm (mergeSort_perm _ _).symm
  rw [← mergeSort_zipIdx (l := a ++ b), zipIdx_append, key, merge_stable]
  · rw [mergeSort_zipIdx_at, mergeSort_zipIdx_at]
  · intro x y hx hy
    have hx' := mem_zipIdx (mem_mergeSort.mp hx)
    have hy' := mem_zipIdx (mem_mergeSort.mp hy)
    omega

/-- the k-way merge as nested stable two-way merges -/
def kmerge (le : α → α → Bool) (runs : List (List α)) : List α :=
  runs.foldr (fun r acc => merge r acc le) []

theorem kmerge_all_nil (le : α → α → Bool) (runs : List (List α)) (h : ∀ r ∈ runs, r = []) :
    kmerge le runs = [] := by
  induction runs with
  | nil => rfl
  | cons r rs ih =>
    have hr : r = [] := h r (by simp)
    subst hr
    simp only [kmerge, foldr_cons] at ih ⊢
    rw [ih (fun q hq => h q (by simp [hq]))]
    simp [merge]

theorem pickFirstMin_none (le : α → α → Bool) (runs : List (List α)) (h : pickFirstMin le runs = none) :
    ∀ r ∈ runs, r = [] := by
  induction runs with
  | nil => simp
  | cons r rs ih =>
    simp only [pickFirstMin] at h
    cases r with
    | nil =>
      cases hp : pickFirstMin le rs with
      | none =>
        intro q hq
        rcases mem_cons.mp hq with rfl | hq'
        · rfl
        · exact ih hp q hq'
      | some j => simp [hp] at h
    | cons x xs =>
      cases hp : pickFirstMin le rs with
      | none => simp [hp] at h
      | some j =>
        simp only [hp] at h
        split at h
        · split at h <;> simp at h
        · simp at h

theorem pickFirstMin_nonempty (le : α → α → Bool) (runs : List (List α)) (i : Nat)
    (h : pickFirstMin le runs = some i) : ∃ x xs, runs[i]? = some (x :: xs) := by
  induction runs generalizing i with
  | nil => simp [pickFirstMin] at h
  | cons r rs ih =>
    simp only [pickFirstMin] at h
    cases r with
    | nil =>
      cases hp : pickFirstMin le rs with
      | none => simp [hp] at h
      | some j =>
        simp only [hp, Option.some.injEq] at h
        subst h
        obtain ⟨x, xs, hx⟩ := ih j hp
        exact ⟨x, xs, by simpa using hx⟩
    | cons a as =>
      cases hp : pickFirstMin le rs with
      | none =>
        simp only [hp, Option.some.injEq] at h
        subst h
        exact ⟨a, as, by simp⟩
      | some j =>
        obtain ⟨y, ys, hy⟩ := ih j hp
        simp only [hp, hy] at h
        split at h
        · simp at h; subst h; exact ⟨a, as, by simp⟩
        · simp at h; subst h; exact ⟨y, ys, by simpa using hy⟩

/-- one step of the leftmost-minimum k-way merge is one step of the nested two-way merges -/
theorem kmerge_step (le : α → α → Bool) (runs : List (List α)) (i : Nat) (x : α)
    (hp : pickFirstMin le runs = some i) (hx : headOf runs i = some x) :
    kmerge le runs = x :: kmerge le (popFront runs i) := by
  induction runs generalizing i x with
  | nil => simp [pickFirstMin] at hp
  | cons r rs ih =>
    simp only [pickFirstMin] at hp
    cases r with
    | nil =>
      cases hq : pickFirstMin le rs with
      | none => simp [hq] at hp
      | some j =>
        simp only [hq, Option.some.injEq] at hp
        subst hp
        have hx' : headOf rs j = some x := by simpa [headOf] using hx
        have := ih j x hq hx'
        simp only [kmerge, foldr_cons, popFront] at this ⊢
        simp only [merge, List.nil_merge] at this ⊢
        exact this
    | cons a as =>
      cases hq : pickFirstMin le rs with
      | none =>
        simp only [hq, Option.some.injEq] at hp
        subst hp
        have hxa : x = a := by simpa [headOf] using hx.symm
        subst hxa
        have hnil := kmerge_all_nil le rs (pickFirstMin_none le rs hq)
        simp only [kmerge, foldr_cons, popFront, List.tail_cons] at hnil ⊢
        rw [hnil]
        simp [merge]
      | some j =>
        obtain ⟨y, ys, hy⟩ := pickFirstMin_nonempty le rs j hq
        have hhy : headOf rs j = some y := by simp [headOf, hy]
        have hrs := ih j y hq hhy
        simp only [hq, hy] at hp
        by_cases hle : le a y = true
        · simp only [hle, if_true, Option.some.injEq] at hp
          subst hp
          have hxa : x = a := by simpa [headOf] using hx.symm
          subst hxa
          simp only [kmerge, foldr_cons, popFront, List.tail_cons] at hrs ⊢
          rw [hrs, cons_merge_cons, if_pos hle]
        · simp only [hle, Bool.false_eq_true, if_false, Option.some.injEq] at hp
          subst hp
          have hxy : x = y := by
            have : headOf (( a :: as) :: rs) (j + 1) = headOf rs j := by simp [headOf]
            rw [this, hhy] at hx
            exact (Option.some.inj hx).symm
          subst hxy
          simp only [kmerge, foldr_cons, popFront] at hrs ⊢
          rw [hrs, cons_merge_cons, if_neg hle]

/-- F: the leftmost-minimum k-way merge IS the nested stable two-way merge, for arbitrary runs -/
theorem mergeWith_pickFirstMin_eq_kmerge (le : α → α → Bool) (n : Nat) (runs : List (List α))
    (hn : runs.flatten.length ≤ n) : mergeWith (pickFirstMin le) n runs = kmerge le runs := by
  induction n generalizing runs with
  | zero =>
    have hall : ∀ r ∈ runs, r = [] := by
      have : runs.flatten = [] := length_eq_zero_iff.mp (by omega)
      exact flatten_eq_nil_iff.mp this
    simp [mergeWith, kmerge_all_nil le runs hall]
  | succ n ih =>
    simp only [mergeWith]
    cases hp : pickFirstMin le runs with
    | none => simp [kmerge_all_nil le runs (pickFirstMin_none le runs hp)]
    | some i =>
      obtain ⟨x, xs, hx⟩ := pickFirstMin_nonempty le runs i hp
      have hhx : headOf runs i = some x := by simp [headOf, hx]
      simp only [hhx]
      have hperm := popFront_perm runs i x hhx
      have hlen : (popFront runs i).flatten.length ≤ n := by
        have := hperm.length_eq
        rw [length_cons] at this; omega
      rw [ih _ hlen, kmerge_step le runs i x hp hhx]

/-- nested stable merges of the stable sorts of consecutive segments = stable sort of everything -/
theorem kmerge_sorted_segments (le : α → α → Bool)
    (trans : ∀ a b c, le a b = true → le b c = true → le a c = true)
    (total : ∀ a b, (le a b || le b a) = true) (segs : List (List α)) :
    kmerge le (segs.map (fun s => s.mergeSort le)) = segs.flatten.mergeSort le := by
  induction segs with
  | nil => simp [kmerge]
  | cons s rest ih =>
    simp only [kmerge, map_cons, foldr_cons, flatten_cons] at ih ⊢
    rw [ih, mergeSort_append le trans total]

theorem xsort_step_segs (le : α → α → Bool) (threshold : Nat) (c : List α)
    (st : List α × List (List α)) (segs : List (List α)) (hst : st.2 = segs.map (fun s => s.mergeSort le)) :
    ∃ segs' : List (List α), (xsortPush le threshold st c).2 = segs'.map (fun s => s.mergeSort le) ∧
      segs'.flatten ++ (xsortPush le threshold st c).1 = segs.flatten ++ st.1 ++ c := by
  unfold xsortPush
  split
  · rename_i he
    have : c = [] := by simpa using he
    subst this
    exact ⟨segs, hst, by simp⟩
  · split
    · exact ⟨segs, hst, by simp [append_assoc]⟩
    · exact ⟨segs ++ [st.1 ++ c], by simp [hst], by simp [append_assoc]⟩

/-- run generation, from any state whose runs are the stable sorts of consecutive segments: the
runs stay such sorts and segments + buffer stay the input in arrival order -/
theorem xsort_fold_segs (le : α → α → Bool) (threshold : Nat) (chunks : List (List α))
    (st : List α × List (List α)) (segs : List (List α)) (hst : st.2 = segs.map (fun s => s.mergeSort le)) :
    ∃ segs' : List (List α), (chunks.foldl (xsortPush le threshold) st).2 = segs'.map (fun s => s.mergeSort le) ∧
      segs'.flatten ++ (chunks.foldl (xsortPush le threshold) st).1 = segs.flatten ++ st.1 ++ chunks.flatten := by
  induction chunks generalizing st segs with
  | nil => exact ⟨segs, hst, by simp⟩
  | cons c cs ih =>
    simp only [foldl_cons, flatten_cons]
    obtain ⟨s1, h1, h2⟩ := xsort_step_segs le threshold c st segs hst
    obtain ⟨s2, h3, h4⟩ := ih (xsortPush le threshold st c) s1 h1
    refine ⟨s2, h3, ?_⟩
    rw [h4, h2]; simp [append_assoc]

/-- F: `SpillableSortPushOperator` / `ExternalSort` with the run-number tie-break return, for EVERY
spill threshold (0 = every push spills a run; huge = nothing spills) and every chunking, exactly
the stable sort of the input: the rows the in-memory `SortPushOperator` returns, in the same
order, ties included. Needs only that the comparison is a total preorder. -/
theorem c17_external_sort_eq_in_memory (cmp : α → α → Ordering)
    (trans : ∀ a b c, (cmp a b != .gt) = true → (cmp b c != .gt) = true → (cmp a c != .gt) = true)
    (total : ∀ a b, ((cmp a b != .gt) || (cmp b a != .gt)) = true)
    (threshold : Nat) (chunks : List (List α)) :
    xsortRun false cmp threshold chunks = chunks.flatten.mergeSort (fun a b => cmp a b != .gt) := by
  obtain ⟨segs, h2, hfl⟩ := xsort_fold_segs (fun a b => cmp a b != .gt) threshold chunks ([], []) [] rfl
  simp only [flatten_nil, nil_append] at hfl
  have hst : xsortState (fun a b => cmp a b != .gt) threshold chunks =
      chunks.foldl (xsortPush (fun a b => cmp a b != .gt) threshold) ([], []) := rfl
  simp only [xsortRun, hst]
  generalize chunks.foldl (xsortPush (fun a b => cmp a b != .gt) threshold) ([], []) = st at h2 hfl
  obtain ⟨buf, runs⟩ := st
  simp only at h2 hfl ⊢
  subst h2
  cases segs with
  | nil => simp at hfl ⊢; rw [hfl]
  | cons s rest =>
    simp only [map_cons, isEmpty_cons, Bool.false_eq_true, if_false, mergeAll]
    split
    · rename_i h1
      have hr : rest = [] := by
        have := h1.1
        simp only [length_cons, length_map] at this
        exact length_eq_zero_iff.mp (by omega)
      have hb : buf = [] := by simpa using h1.2
      subst hr hb
      simp at hfl ⊢
      rw [← hfl]
    · simp only [kWayMerge, Bool.false_eq_true, if_false]
      rw [mergeWith_pickFirstMin_eq_kmerge _ _ _ (Nat.le_refl _)]
      split
      · rename_i hb
        have hb' : buf = [] := by simpa using hb
        subst hb'
        have := kmerge_sorted_segments (fun a b => cmp a b != .gt) trans total (s :: rest)
        simp only [map_cons] at this
        rw [this, ← hfl]; simp
      · have := kmerge_sorted_segments (fun a b => cmp a b != .gt) trans total (s :: rest ++ [buf])
        simp only [map_cons, map_append, map_nil, cons_append] at this ⊢
        rw [this, ← hfl]; simp

/-- F: `parallel::merge_sorted_runs` over the stable sorts of consecutive pieces of a table (what
workers that own consecutive morsels deliver) = the stable sort of the table -/
theorem c17_merge_sorted_runs_stable (cmp : α → α → Ordering)
    (trans : ∀ a b c, (cmp a b != .gt) = true → (cmp b c != .gt) = true → (cmp a c != .gt) = true)
    (total : ∀ a b, ((cmp a b != .gt) || (cmp b a != .gt)) = true) (segs : List (List α)) :
    mergeSortedRuns false cmp (segs.map (fun s => s.mergeSort (fun a b => cmp a b != .gt))) =
      segs.flatten.mergeSort (fun a b => cmp a b != .gt) := by
  unfold mergeSortedRuns
  split
  · rename_i h1
    cases segs with
    | nil => simp at h1
    | cons s rest =>
      have hr : rest = [] := by
        simp only [map_cons, length_cons, length_map] at h1
        exact length_eq_zero_iff.mp (by omega)
      subst hr; simp
  · simp only [kWayMerge, Bool.false_eq_true, if_false]
    rw [mergeWith_pickFirstMin_eq_kmerge _ _ _ (Nat.le_refl _), kmerge_sorted_segments _ trans total]

/-- N: ties with different payloads, "spill every push" -/
theorem c17_external_sort_stable_nonvacuous :
    xsortRun false (fun (a b : Nat × Nat) => compare a.1 b.1) 0 [[(3, 1), (2, 2)], [(3, 3), (1, 4)], [(3, 5), (2, 6)]]
      = [(1, 4), (2, 2), (2, 6), (3, 1), (3, 3), (3, 5)] := by
  rw [c17_external_sort_eq_in_memory]
  · simp [List.mergeSort, List.merge, compare, compareOfLessAndEq]
  · intro a b c; simp only [bne_iff_ne, ne_eq]
    intro h1 h2 h3
    rw [Nat.compare_eq_gt] at h1 h2 h3; omega
  · intro a b
    simp only [Bool.or_eq_true, bne_iff_ne, ne_eq, Nat.compare_eq_gt]; omega

end Stable

/-- N: `c17_external_sort_*` are not vacuous: keys with ties, "spill every push" / a threshold in
the middle / nothing spills, the stable heap discipline -/
theorem c17_external_sort_nonvacuous_1 :
    (let le := fun (a b : Nat × Nat) => decide (a.1 ≤ b.1)
     let st := xsortState le 0 [[(3, 1), (2, 2)], [(3, 3), (1, 4)], [(3, 5), (2, 6)]]
     let runs := st.2 ++ [st.1.mergeSort le]
     (st.2.length, mergeWith (pickFirstMin le) runs.flatten.length runs))
      = (3, [(1, 4), (2, 2), (2, 6), (3, 1), (3, 3), (3, 5)]) := by
  simp [xsortState, xsortPush, mergeWith, pickFirstMin, headOf, popFront, List.mergeSort]

theorem c17_external_sort_nonvacuous_2 :
    (let le := fun (a b : Nat × Nat) => decide (a.1 ≤ b.1)
     let st := xsortState le 3 [[(3, 1), (2, 2)], [(3, 3), (1, 4)], [(3, 5), (2, 6)]]
     let runs := st.2 ++ [st.1.mergeSort le]
     (st.2.length, mergeWith (pickFirstMin le) runs.flatten.length runs))
      = (1, [(1, 4), (2, 2), (2, 6), (3, 1), (3, 3), (3, 5)]) := by
  simp [xsortState, xsortPush, mergeWith, pickFirstMin, headOf, popFront, List.mergeSort]

theorem c17_external_sort_nonvacuous_3 :
    (let le := fun (a b : Nat × Nat) => decide (a.1 ≤ b.1)
     let st := xsortState le 100 [[(3, 1), (2, 2)], [(3, 3), (1, 4)], [(3, 5), (2, 6)]]
     let runs := st.2 ++ [st.1.mergeSort le]
     (st.2.length, mergeWith (pickFirstMin le) runs.flatten.length runs))
      = (0, [(1, 4), (2, 2), (2, 6), (3, 1), (3, 3), (3, 5)]) := by
  simp [xsortState, xsortPush, mergeWith, pickFirstMin, headOf, popFront, List.mergeSort]

namespace Old
/-- W (old code: heap entries compared by the sort keys only): the `BinaryHeap`, transliterated,
is a valid but NOT a stable discipline: with "spill every push" rows with equal keys leave in an order the in-memory sort
never produces; the in-memory (stable) order is `(3,1), (3,3), (3,5)`. -/
theorem c17_external_sort_tie_order_witness :
    heapMerge (fun (a b : Nat × Nat) => compare a.1 b.1) [[(2, 2), (3, 1)], [(1, 4), (3, 3)], [(2, 6), (3, 5)]]
      = [(1, 4), (2, 2), (2, 6), (3, 3), (3, 1), (3, 5)] ∧
    mergeWith (pickFirstMin (fun (a b : Nat × Nat) => decide (a.1 ≤ b.1))) 6
        [[(2, 2), (3, 1)], [(1, 4), (3, 3)], [(2, 6), (3, 5)]]
      = [(1, 4), (2, 2), (2, 6), (3, 1), (3, 3), (3, 5)] := by
  decide
end Old

/-! ### accumulators: COUNT / SUM / MIN / MAX over a column of integers and NULLs -/

def intsOf : List Val → List Int
  | [] => []
  | .int i :: vs => i :: intsOf vs
  | _ :: vs => intsOf vs

/-- the column holds integers and NULLs only -/
def intOrNull : List Val → Bool
  | [] => true
  | .int _ :: vs => intOrNull vs
  | .null :: vs => intOrNull vs
  | _ => false

theorem acc_fold_inv (vals : List Val) (h : intOrNull vals = true) (a : Acc) (seen : List Int)
    (hc : a.count = seen.length) (hs : a.sum = seen.sum)
    (hmn : (seen = [] → a.min = none) ∧ (seen ≠ [] → ∃ m, a.min = some (.int m) ∧ m ∈ seen ∧ ∀ x ∈ seen, m ≤ x))
    (hmx : (seen = [] → a.max = none) ∧ (seen ≠ [] → ∃ m, a.max = some (.int m) ∧ m ∈ seen ∧ ∀ x ∈ seen, x ≤ m)) :
    let r := vals.foldl Acc.add a
    let all := seen ++ intsOf vals
    r.count = all.length ∧ r.sum = all.sum ∧
    ((all = [] → r.min = none) ∧ (all ≠ [] → ∃ m, r.min = some (.int m) ∧ m ∈ all ∧ ∀ x ∈ all, m ≤ x)) ∧
    ((all = [] → r.max = none) ∧ (all ≠ [] → ∃ m, r.max = some (.int m) ∧ m ∈ all ∧ ∀ x ∈ all, x ≤ m)) := by
  induction vals generalizing a seen with
  | nil => simp only [List.foldl_nil, intsOf, List.append_nil]; exact ⟨hc, hs, hmn, hmx⟩
  | cons v vs ih =>
    cases v with
    | null =>
      simp only [List.foldl_cons, intsOf, Acc.add]
      exact ih (by simpa [intOrNull] using h) a seen hc hs hmn hmx
    | int i =>
      simp only [List.foldl_cons, intsOf]
      have := ih (by simpa [intOrNull] using h) (a.add (.int i)) (seen ++ [i])
        (by simp [Acc.add, hc]) (by simp [Acc.add, hs])
        (by
          refine ⟨by simp, fun _ => ?_⟩
          by_cases hse : seen = []
          · subst hse
            have := hmn.1 rfl
            simp [Acc.add, this, replMin]
          · obtain ⟨m, hm, hmem, hle⟩ := hmn.2 hse
            simp only [Acc.add, hm, replMin]
            by_cases hlt : i < m
            · simp only [hlt, decide_true, if_true]
              refine ⟨i, rfl, by simp, ?_⟩
              intro x hx
              simp only [List.mem_append, List.mem_singleton] at hx
              rcases hx with hx | rfl
              · have := hle x hx; omega
              · omega
            · simp only [hlt, decide_false, Bool.false_eq_true, if_false]
              refine ⟨m, rfl, by simp [hmem], ?_⟩
              intro x hx
              simp only [List.mem_append, List.mem_singleton] at hx
              rcases hx with hx | rfl
              · exact hle x hx
              · omega)
        (by
          refine ⟨by simp, fun _ => ?_⟩
          by_cases hse : seen = []
          · subst hse
            have := hmx.1 rfl
            simp [Acc.add, this, replMax]
          · obtain ⟨m, hm, hmem, hle⟩ := hmx.2 hse
            simp only [Acc.add, hm, replMax]
            by_cases hlt : i > m
            · simp only [hlt, decide_true, if_true]
              refine ⟨i, rfl, by simp, ?_⟩
              intro x hx
              simp only [List.mem_append, List.mem_singleton] at hx
              rcases hx with hx | rfl
              · have := hle x hx; omega
              · omega
            · simp only [hlt, decide_false, Bool.false_eq_true, if_false]
              refine ⟨m, rfl, by simp [hmem], ?_⟩
              intro x hx
              simp only [List.mem_append, List.mem_singleton] at hx
              rcases hx with hx | rfl
              · exact hle x hx
              · omega)
      simpa [List.append_assoc] using this
    | bool b => simp [intOrNull] at h
    | flt b => simp [intOrNull] at h
    | str s => simp [intOrNull] at h

/-- F: over a column of integers and NULLs the accumulator of the push aggregate computes
COUNT (non-null), SUM, MIN and MAX of the integers: the minimum is an element below all others,
the maximum one above all others, both absent exactly when there is no integer. -/
theorem c17_accumulator_count_sum_min_max (vals : List Val) (h : intOrNull vals = true) :
    let r := vals.foldl Acc.add Acc.new
    let ints := intsOf vals
    r.count = ints.length ∧ r.sum = ints.sum ∧
    ((ints = [] → r.min = none) ∧ (ints ≠ [] → ∃ m, r.min = some (.int m) ∧ m ∈ ints ∧ ∀ x ∈ ints, m ≤ x)) ∧
    ((ints = [] → r.max = none) ∧ (ints ≠ [] → ∃ m, r.max = some (.int m) ∧ m ∈ ints ∧ ∀ x ∈ ints, x ≤ m)) := by
  have := acc_fold_inv vals h Acc.new [] (by simp [Acc.new]) (by simp [Acc.new])
    ⟨fun _ => rfl, fun h => absurd rfl h⟩ ⟨fun _ => rfl, fun h => absurd rfl h⟩
  simpa using this

theorem c17_accumulator_nonvacuous : (([.int 4, .null, .int (-2), .int 9] : List Val).foldl Acc.add Acc.new)
    = ⟨3, 11, some (.int (-2)), some (.int 9)⟩ := by decide

/-! ### spill-file bookkeeping of `PartitionedState` (one partition) -/

/-- F: after `drain_all` the state refers to no spill file and holds no entry; the entries it
returns are the ones it held, whether they were in memory or on disk -/
theorem c17_partst_drain (s : PartSt) :
    s.drain.1.file = false ∧ s.drain.1.data = [] ∧ s.drain.1.filesOnDisk = s.leaked ∧
    s.drain.2 = (if s.inMem ∨ s.file then s.data else []) := by
  unfold PartSt.drain PartSt.load PartSt.filesOnDisk
  by_cases h1 : s.inMem <;> by_cases h2 : s.file <;> simp [h1, h2]

/-- F: spilling and reading back neither loses nor changes an entry -/
theorem c17_partst_spill_load (s : PartSt) (h : s.inMem = true) (hf : s.file = false) :
    s.spill.1.load.data = s.data ∧ s.spill.1.load.file = false := by
  unfold PartSt.spill PartSt.load
  by_cases h2 : s.data.isEmpty
  · have : s.data = [] := by simpa using h2
    simp [h, hf, this]
  · simp [h, h2]

namespace Old
/-- W: `cleanup()` drops its `SpillFile` handles without deleting the files: one insert, one spill,
`cleanup` — a file stays in the spill directory (until the `SpillManager` itself is dropped) -/
theorem c17_partst_cleanup_leaves_file_witness :
    ((({ data := [([Val.int 1], 10)] } : PartSt).spill.1).cleanup true).filesOnDisk = 1 := by decide
end Old

/-! ## 4. selection vectors -/

theorem range_filter_getElem (l : List α) (q : Option α → Bool) :
    ((List.range l.length).filter (fun i => q l[i]?)).filterMap (fun i => l[i]?) =
      l.filter (fun x => q (some x)) := by
  induction l with
  | nil => simp
  | cons x xs ih =>
    have e1 : ((fun i => q (x :: xs)[i]?) ∘ Nat.succ) = fun i => q xs[i]? := by
      funext i; simp
    have e2 : ((fun i => (x :: xs)[i]?) ∘ Nat.succ) = fun i => xs[i]? := by
      funext i; simp
    rw [List.length_cons, List.range_succ_eq_map]
    simp only [List.filter_cons, List.getElem?_cons_zero]
    rw [List.filter_map, e1]
    by_cases hq : q (some x)
    · simp only [hq, if_true, List.filterMap_cons, List.getElem?_cons_zero, List.filterMap_map, e2]
      rw [ih]
    · simp only [hq, Bool.false_eq_true, if_false, List.filterMap_map, e2]
      rw [ih]

theorem map_u16_of_lt (l : List Nat) (h : ∀ i ∈ l, i < 65536) : l.map u16 = l := by
  induction l with
  | nil => rfl
  | cons x xs ih =>
    simp only [List.map_cons, u16]
    rw [Nat.mod_eq_of_lt (h x (by simp)), ih (fun i hi => h i (by simp [hi]))]

/-- F: on a chunk without selection vector and with at most 65536 rows, the index-level
`from_predicate` + `DataChunk::filter` of the push filter is the list-level filter -/
theorem c17_filter_selection_small (p : α → Bool) (phys : Array α) (h : phys.size ≤ 65536) :
    filterSel p phys none = phys.toList.filter p := by
  unfold filterSel chunkFilter fromPredicate selLen
  simp only [filter_const_true]
  rw [map_u16_of_lt _ (by
    intro i hi
    have := (List.mem_filter.mp hi).1
    simp at this; omega)]
  have := range_filter_getElem phys.toList (fun o => match o with | some r => p r | none => false)
  simp only [Array.length_toList, Array.getElem?_toList] at this
  exact this

namespace Old
/-- W: a chunk WITH a selection vector: physical rows `[-5, 1, -5, 2, -5, 3]`, selected positions
1, 3, 5 (rows 1, 2, 3), predicate `x > 0`: the operator looks at physical positions 0..2 and hands
on `[1]`; LIMIT 2 hands on `[1]`; SKIP 1 hands on `[1]` -/
theorem c17_selection_vector_witness :
    filterSel (fun x : Int => decide (x > 0)) #[-5, 1, -5, 2, -5, 3] (some [1, 3, 5]) = [1] ∧
    (selRows #[(-5 : Int), 1, -5, 2, -5, 3] (some [1, 3, 5])).filter (fun x => decide (x > 0)) = [1, 2, 3] ∧
    limitSel 2 #[(-5 : Int), 1, -5, 2, -5, 3] (some [1, 3, 5]) = some [1] ∧
    skipSel 1 #[(-5 : Int), 1, -5, 2, -5, 3] (some [1, 3, 5]) = [1] := by decide
end Old

section Partition
variable {α κ β : Type} [DecidableEq κ]

/-! ### partition by hash, aggregate per partition = aggregate globally -/

/-- the hash-map loop of the aggregate operators from the empty map -/
def groupsOf (key : α → κ) (mk : α → β) (add : β → α → β) (rows : List α) : List (κ × β) :=
  rows.foldl (groupAdd key mk add) []

/-- `PartitionedState`: a row goes to partition `h(key) % n` (each partition its own hash map,
spilled and reloaded unchanged); `drain_all` walks the partitions in order -/
def partitionedGroups (h : κ → Nat) (n : Nat) (key : α → κ) (mk : α → β) (add : β → α → β)
    (rows : List α) : List (κ × β) :=
  (List.range n).flatMap (fun p => groupsOf key mk add (rows.filter (fun r => h (key r) % n = p)))

/-- the state of group `k`: made from the first row with that key, fed all rows with that key -/
def gval (key : α → κ) (mk : α → β) (add : β → α → β) (rows : List α) (k : κ) : Option β :=
  (rows.find? (fun r => key r = k)).map (fun r => (rows.filter (fun y => key y = k)).foldl add (mk r))

theorem find_filter_of_imp (p q : α → Bool) (l : List α) (h : ∀ x, q x = true → p x = true) :
    (l.filter p).find? q = l.find? q := by
  induction l with
  | nil => rfl
  | cons x xs ih =>
    by_cases hp : p x = true
    · simp only [List.filter_cons, hp, if_true, List.find?_cons, ih]
    · have hq : q x = false := by
        cases hq : q x with
        | false => rfl
        | true => exact absurd (h x hq) hp
      simp only [List.filter_cons, hp, Bool.false_eq_true, if_false, List.find?_cons, hq, ih]

theorem find_filter_none (p q : α → Bool) (l : List α) (h : ∀ x, q x = true → p x = false) :
    (l.filter p).find? q = none := by
  apply List.find?_eq_none.mpr
  intro x hx hq
  have := (List.mem_filter.mp hx).2
  rw [h x hq] at this
  exact Bool.false_ne_true this

theorem filter_filter_of_imp (p q : α → Bool) (l : List α) (h : ∀ x, q x = true → p x = true) :
    (l.filter p).filter q = l.filter q := by
  rw [List.filter_filter]
  apply List.filter_congr
  intro x _
  cases hq : q x with
  | false => simp
  | true => simp [h x hq]

theorem find_dedupFirst_aux (key : α → κ) (k : κ) (n : Nat) :
    ∀ rows : List α, rows.length ≤ n →
      (dedupFirst key rows).find? (fun r => key r = k) = rows.find? (fun r => key r = k) := by
  induction n with
  | zero =>
    intro rows hl
    have : rows = [] := List.length_eq_zero_iff.mp (by omega)
    subst this; simp [dedupFirst_nil]
  | succ n ih =>
    intro rows hl
    cases rows with
    | nil => simp [dedupFirst_nil]
    | cons r rs =>
      rw [dedupFirst_cons]
      simp only [List.find?_cons]
      by_cases hk : key r = k
      · simp [hk]
      · simp only [hk, decide_false]
        have hlen : (rs.filter (fun x => key x ≠ key r)).length ≤ n := by
          have := List.length_filter_le (fun x => decide (key x ≠ key r)) rs
          simp only [List.length_cons] at hl
          omega
        rw [ih _ hlen]
        apply find_filter_of_imp
        intro x hx
        have hx' : key x = k := by simpa using hx
        have : key x ≠ key r := fun e => hk (e ▸ hx')
        simpa using this

theorem find_dedupFirst (key : α → κ) (k : κ) (rows : List α) :
    (dedupFirst key rows).find? (fun r => key r = k) = rows.find? (fun r => key r = k) :=
  find_dedupFirst_aux key k rows.length rows (Nat.le_refl _)

theorem lookup_map_key (key : α → κ) (V : α → β) (k : κ) (l : List α) :
    (l.map (fun r => (key r, V r))).lookup k = (l.find? (fun r => key r = k)).map V := by
  induction l with
  | nil => rfl
  | cons r rs ih =>
    simp only [List.map_cons, List.lookup_cons, List.find?_cons]
    by_cases hk : key r = k
    · subst hk; simp
    · have : (k == key r) = false := by simpa using fun e => hk e.symm
      simp [hk, this, ih]

theorem lookup_groupsOf (key : α → κ) (mk : α → β) (add : β → α → β) (rows : List α) (k : κ) :
    (groupsOf key mk add rows).lookup k = gval key mk add rows k := by
  unfold groupsOf gval
  rw [foldl_groupAdd key mk add rows [] (by simp [gkeys])]
  simp only [List.map_nil, List.nil_append, gkeys, List.not_mem_nil, not_false_eq_true, decide_true,
    filter_const_true]
  rw [lookup_map_key key (fun r => (rows.filter (fun y => key y = key r)).foldl add (mk r)) k, find_dedupFirst]
  cases hf : rows.find? (fun r => key r = k) with
  | none => rfl
  | some r =>
    have : key r = k := by simpa using List.find?_some hf
    simp [this]

theorem lookup_flatMap_none (f : Nat → List (κ × β)) (k : κ) (ps : List Nat)
    (h : ∀ p ∈ ps, (f p).lookup k = none) : (ps.flatMap f).lookup k = none := by
  induction ps with
  | nil => rfl
  | cons p rest ih =>
    simp only [List.flatMap_cons, List.lookup_append]
    rw [h p (by simp), ih (fun q hq => h q (by simp [hq]))]
    rfl

theorem lookup_flatMap_unique (f : Nat → List (κ × β)) (k : κ) (p0 : Nat) (ps : List Nat)
    (hmem : p0 ∈ ps) (h : ∀ p ∈ ps, p ≠ p0 → (f p).lookup k = none) :
    (ps.flatMap f).lookup k = (f p0).lookup k := by
  induction ps with
  | nil => simp at hmem
  | cons p rest ih =>
    simp only [List.flatMap_cons, List.lookup_append]
    by_cases hp : p = p0
    · subst hp
      cases hv : (f p).lookup k with
      | some v => rfl
      | none =>
        simp only [Option.none_or]
        by_cases hin : p ∈ rest
        · rw [ih hin (fun q hq hne => h q (by simp [hq]) hne), hv]
        · apply lookup_flatMap_none
          intro q hq
          exact h q (by simp [hq]) (fun e => hin (e ▸ hq))
    · rw [h p (by simp) hp]
      simp only [Option.none_or]
      have hin : p0 ∈ rest := by
        rcases List.mem_cons.mp hmem with e | e
        · exact absurd e.symm hp
        · exact e
      exact ih hin (fun q hq hne => h q (by simp [hq]) hne)

/-- F: for EVERY hash function and every number of partitions, routing rows to partitions by the
hash of their group key and aggregating each partition on its own yields, for every key, exactly
the group state of the global aggregation. -/
theorem c17_partitioned_aggregate_eq_global (h : κ → Nat) (n : Nat) (hn : 0 < n)
    (key : α → κ) (mk : α → β) (add : β → α → β) (rows : List α) (k : κ) :
    (partitionedGroups h n key mk add rows).lookup k = (groupsOf key mk add rows).lookup k := by
  unfold partitionedGroups
  rw [lookup_flatMap_unique _ k (h k % n) (List.range n) (by simp; exact Nat.mod_lt _ hn)]
  · rw [lookup_groupsOf, lookup_groupsOf]
    unfold gval
    have himp : ∀ x : α, decide (key x = k) = true → decide (h (key x) % n = h k % n) = true := by
      intro x hx
      have : key x = k := by simpa using hx
      simp [this]
    rw [find_filter_of_imp _ _ rows himp, filter_filter_of_imp _ _ rows himp]
  · intro p _ hne
    rw [lookup_groupsOf]
    unfold gval
    rw [find_filter_none]
    · rfl
    · intro x hx
      have : key x = k := by simpa using hx
      subst this
      have : ¬ h (key x) % n = p := fun e => hne e.symm
      simpa using this

theorem c17_partitioned_nonvacuous : partitionedGroups (fun k : Nat => k * 7 + 1) 3 (fun r : Nat × Int => r.1) (fun _ => (0 : Int)) (fun b r => b + r.2)
    [(1, 10), (2, 5), (1, -3), (4, 1), (2, 2)] = [(2, 7), (1, 7), (4, 1)] := by decide

/-! ### hash keys -/

theorem dedupFirst_congr_aux {κ' : Type} [DecidableEq κ'] (k1 : α → κ) (k2 : α → κ') (n : Nat) :
    ∀ l : List α, l.length ≤ n → (∀ x ∈ l, ∀ y ∈ l, (k1 x = k1 y ↔ k2 x = k2 y)) →
      dedupFirst k1 l = dedupFirst k2 l := by
  induction n with
  | zero =>
    intro l hl _
    have : l = [] := List.length_eq_zero_iff.mp (by omega)
    subst this; simp [dedupFirst_nil]
  | succ n ih =>
    intro l hl hc
    cases l with
    | nil => simp [dedupFirst_nil]
    | cons r rs =>
      rw [dedupFirst_cons, dedupFirst_cons]
      have hf : rs.filter (fun x => decide (k1 x ≠ k1 r)) = rs.filter (fun x => decide (k2 x ≠ k2 r)) := by
        apply List.filter_congr
        intro x hx
        have := hc x (by simp [hx]) r (by simp)
        by_cases h1 : k1 x = k1 r
        · simp [h1, this.mp h1]
        · have h2 : ¬ k2 x = k2 r := fun e => h1 (this.mpr e)
          simp [h1, h2]
      rw [hf]
      congr 1
      apply ih
      · have := List.length_filter_le (fun x => decide (k2 x ≠ k2 r)) rs
        simp only [List.length_cons] at hl
        omega
      · intro x hx y hy
        exact hc x (by simp [(List.mem_filter.mp hx).1]) y (by simp [(List.mem_filter.mp hy).1])

namespace Old
/-- P: DISTINCT on hash keys = DISTINCT on the values wherever the hash key separates exactly the
rows the values separate (a decidable condition on the table) -/
theorem c17_distinct_hash_keys_partial (cols : Option (List Nat)) (rows : List Row)
    (h : ∀ x ∈ rows, ∀ y ∈ rows, (hashKey cols x = hashKey cols y ↔ idKey cols x = idKey cols y)) :
    dedupFirst (hashKey cols) rows = dedupFirst (idKey cols) rows :=
  dedupFirst_congr_aux _ _ rows.length rows (Nat.le_refl _) h

/-- W: NULL and FALSE feed the hasher the same byte, and so do the integer 0 and the float 0.0
(and every integer and the float with the same bit pattern): DISTINCT and GROUP BY of the push
operators merge such rows -/
theorem dedupFirst_eq_dedupStep {κ' : Type} [DecidableEq κ'] (key : α → κ') (l : List α) :
    dedupFirst key l = (dedupStep key [] l).2 := by
  rw [dedupStep_eq_dedupFirst]; simp [filter_const_true]

theorem c17_hash_key_collision_witness :
    hashFeed .null = hashFeed (.bool false) ∧ hashFeed (.int 0) = hashFeed (.flt 0) ∧
    hashFeed (.int 4609434218613702656) = hashFeed (.flt 0x3ff8000000000000) ∧
    dedupFirst (hashKey none) [[Val.null], [Val.bool false], [Val.int 0], [Val.flt 0]] = [[Val.null], [Val.int 0]] ∧
    dedupFirst (idKey none) [[Val.null], [Val.bool false], [Val.int 0], [Val.flt 0]]
      = [[Val.null], [Val.bool false], [Val.int 0], [Val.flt 0]] := by
  refine ⟨by decide, by decide, by decide, ?_, ?_⟩
  · rw [dedupFirst_eq_dedupStep]; decide
  · rw [dedupFirst_eq_dedupStep]; decide
end Old

end Partition

namespace Old
/-- W: a chunk of 65537 rows (what `SortPushOperator::finalize` emits for 65537 input rows) through
`SkipPushOperator` with SKIP 1: the selection index of the last row, 65536, is stored as the `u16`
0, so the last row handed on is the FIRST row of the chunk instead of the last. -/
theorem c17_selection_u16_wrap_witness {α : Type} (phys : Array α) (hs : phys.size = 65537) :
    (skipSel 1 phys none).getLast? = phys[0]? ∧ (phys.toList.drop 1).getLast? = phys[65536]? := by
  constructor
  · unfold skipSel chunkFilter fromPredicate selLen
    simp only [hs]
    rw [show (65537 : Nat) = 65536 + 1 from rfl, List.range_succ]
    simp only [List.filter_append, List.map_append, List.filterMap_append, filter_const_true]
    have h0 : phys[0]? = some (phys[0]'(by omega)) := by simp [hs]
    simp [u16, h0]
  · rw [List.getLast?_drop]
    simp [hs, List.getLast?_eq_getElem?]
end Old

/-! ## 5. the repaired operators -/

/-- the two named predicates are instances of the switchable one: the old push predicate (no
coercion, ordered booleans) and the pull predicate = specification (coercion, no boolean order) -/
theorem predWith_old (col : Nat) (c : Cmp) (k : Val) (r : Row) : predWith false true col c k r = pushPred col c k r := by
  unfold predWith pushPred
  cases r[col]? with
  | none => rfl
  | some v => cases v <;> cases k <;> rfl

theorem predWith_spec (col : Nat) (c : Cmp) (k : Val) (r : Row) : predWith true false col c k r = refPred col c k r := by
  unfold predWith refPred
  cases r[col]? with
  | none => rfl
  | some v => cases v <;> cases k <;> rfl

/-- F: the repaired push filter and the pull filter differ at most on a pair of booleans under an
ordering comparison -/
theorem c17_push_pred_eq_ref_off_booleans (col : Nat) (c : Cmp) (k : Val) (r : Row)
    (h : ∀ a b, r[col]? = some (.bool a) → k ≠ .bool b) :
    predWith true true col c k r = refPred col c k r := by
  rw [← predWith_spec]
  unfold predWith
  cases hv : r[col]? with
  | none => rfl
  | some v =>
    cases v <;> cases k <;> try rfl
    rename_i a b
    exact absurd rfl (h a b hv)

/-- F: `BinaryExpr` over integers never panics: division by zero and `i64::MIN / -1` are NULL -/
theorem c17_arith_total (op : Arith) (l r : Int) : (arithInt false op l r).isSome = true := by
  cases op <;> simp only [arithInt] <;> (repeat' split) <;> first | rfl | simp_all

/-- F: value keys: with `hashKeys` off, DISTINCT / GROUP BY of the push operators key rows by their
values, i.e. exactly like the specification -/
theorem c17_distinct_value_keys (q : Quirks) (h : q.hashKeys = false) (cols : Option (List Nat)) (rows : List Row) :
    dedupFirst (rowKey q cols) rows = dedupFirst (idKey cols) rows := by
  apply dedupFirst_congr_aux _ _ rows.length rows (Nat.le_refl _)
  intro x _ y _
  simp [rowKey, h]

/-- F: on a chunk with a selection vector the repaired filter returns the selected rows that pass
the predicate, in order -/
theorem c17_filter_selection_repaired {α : Type} (p : α → Bool) (phys : Array α) (s : List Nat) :
    filterSelNew p phys (some s) = (selRows phys (some s)).filter p := by
  unfold filterSelNew chunkFilter selRows
  simp only
  have h1 : ∀ l : List Nat, (∀ i ∈ l, i ∈ s) → l.filter (fun i => s.contains i) = l := by
    intro l hl
    apply List.filter_eq_self.mpr
    intro i hi
    simpa using hl i hi
  rw [h1 _ (fun i hi => (List.mem_filter.mp hi).1)]
  clear h1
  induction s with
  | nil => rfl
  | cons i rest ih =>
    simp only [List.filter_cons, List.filterMap_cons]
    cases hv : phys[i]? with
    | none => simpa using ih
    | some r =>
      by_cases hp : p r
      · simp [hp, hv, ih, List.filterMap_cons]
      · simp [hp, ih]

/-- F: LIMIT and SKIP on such a chunk (`DataChunk::slice`) are `take` / `drop` of the selected rows -/
theorem c17_slice_selection {α : Type} (phys : Array α) (sel : Option (List Nat)) (n k : Nat) :
    sliceSel 0 n phys sel = (selRows phys sel).take n ∧
    sliceSel k ((selRows phys sel).length - k) phys sel = (selRows phys sel).drop k := by
  unfold sliceSel
  refine ⟨by simp, ?_⟩
  rw [List.take_of_length_le]
  simp

/-- F: spill files of `PartitionedState`: `cleanup()` and `Drop` leave nothing behind -/
theorem c17_partst_cleanup_deletes_files (s : PartSt) :
    (s.cleanup false).filesOnDisk = s.leaked ∧ (s.cleanup false).file = false ∧ s.leftAtDrop false = s.leaked := by
  simp [PartSt.cleanup, PartSt.filesOnDisk, PartSt.leftAtDrop]

end Grafeo.Push
