import GrafeoModel.Proofs.HnswBuildLemmas

/-!
C18, graph construction and maintenance: the graph `HnswIndex::insert` / `remove` build is
well-formed after EVERY history — every level sequence (`random_level` is an input), every choice
`remove` makes for a new entry point, every distance function, every `covers` predicate, every
`M`, `M0`, `ef_construction`, every fuel — and therefore the search theorems of `Props/C18.lean`
(stated for a dump that mentions only ids it contains) apply to every reachable index.

Full (all histories):  (a) no dangling link, (f1) the entry point exists iff the index is
non-empty and is a present node, (g) keys distinct (`len` = number of present ids);
search after any history returns only present ids.
NOT invariants of the code (witnesses below, observed identically on the real index by the
`hcon` stream): (b) no self link and (c) no duplicates fail after re-inserting a present id;
(f2) "entry point on max_level" fails after removing the entry point (`max_level` is not
recomputed, the new entry point is an arbitrary node); (e) fails after either.
-/
namespace Grafeo.HnswBuild
open Grafeo.Hnsw

variable {V : Type}

/-- the well-formedness that holds after every history -/
structure Inv (ix : Index V) : Prop where
  nodang : LOK (fun _ _ l => ∀ x ∈ l, x ∈ keys ix.nodes) ix.nodes
  entry_present : ∀ e, ix.entry = some e → e ∈ keys ix.nodes
  entry_none : ix.entry = none → ix.nodes = []
  nodes_nil : ix.nodes = [] → ix.entry = none
  keys_nodup : (keys ix.nodes).Nodup

theorem LOK_mono {R R' : Nat → Nat → List Nat → Prop} {ns : NodeMap V} (h : LOK R ns)
    (hm : ∀ k i l, R k i l → R' k i l) : LOK R' ns :=
  fun k n hf i l hg => hm k i l (h k n hf i l hg)

theorem LOK_put {R : Nat → Nat → List Nat → Prop} {ns : NodeMap V} (h : LOK R ns) (k : Nat)
    (n : Node V) (hn : ∀ i l, n.nbrs[i]? = some l → R k i l) : LOK R (put ns k n) := by
  intro k' n' hf i l hg
  rw [find_put] at hf
  by_cases hk : k = k'
  · subst hk
    simp only [if_true, Option.some.injEq] at hf
    subst hf
    exact hn i l hg
  · simp only [hk, if_false] at hf
    exact h k' n' hf i l hg

theorem layers_nodang (c : Cfg V) (id : Nat) (v : V) (K : List Nat) (hid : id ∈ K) :
    ∀ (n : Nat) (ns : NodeMap V) (cur : Nat), keys ns = K →
      LOK (fun _ _ l => ∀ x ∈ l, x ∈ K) ns →
      LOK (fun _ _ l => ∀ x ∈ l, x ∈ K) (layers c id v n ns cur) := by
  intro n
  induction n with
  | zero => intro ns cur _ h; exact h
  | succ lc ih =>
    intro ns cur hk h
    simp only [layers]
    apply ih
    · rw [keys_layerStep]; exact hk
    · apply LOK_layerStep c id v lc ns cur h
      · intro sel hs _ x hx; rw [← hk]; exact hs x hx
      · intro nb old ho x hx
        rw [List.mem_append, List.mem_singleton] at hx
        cases hx with
        | inl hx => exact ho x hx
        | inr hx => rw [hx]; exact hid
      · intro nb old key ho x hx
        exact ho x ((sortBy_perm key old).mem_iff.mp (List.mem_of_mem_take hx))

theorem keys_eq_nil {ns : NodeMap V} : keys ns = [] ↔ ns = [] := by
  simp [keys]

theorem mem_keys_put_self (ns : NodeMap V) (k : Nat) (n : Node V) : k ∈ keys (put ns k n) := by
  rw [keys_put]; split
  · assumption
  · simp

theorem mem_keys_put_of_mem (ns : NodeMap V) (k : Nat) (n : Node V) {x : Nat} (hx : x ∈ keys ns) :
    x ∈ keys (put ns k n) := by
  rw [keys_put]; split
  · exact hx
  · exact List.mem_append_left _ hx

theorem nodup_keys_put (ns : NodeMap V) (k : Nat) (n : Node V) (h : (keys ns).Nodup) :
    (keys (put ns k n)).Nodup := by
  rw [keys_put]; split
  · exact h
  · rename_i hk
    rw [List.nodup_append]
    refine ⟨h, by simp, ?_⟩
    intro a ha b hb
    rw [List.mem_singleton] at hb
    subst hb
    intro hab; subst hab; exact hk ha

/-- `insert` keeps the index well-formed, whatever id (new or present), level and vector -/
theorem Inv.insert (c : Cfg V) {ix : Index V} (h : Inv ix) (id level : Nat) (v : V) :
    Inv (insert c ix id level v) := by
  have hnode : ∀ (K : List Nat) (i : Nat) (l : List Nat),
      (List.replicate (level + 1) ([] : List Nat))[i]? = some l → ∀ x ∈ l, x ∈ K := by
    intro K i l hg x hx
    rw [List.getElem?_replicate] at hg
    split at hg
    · simp only [Option.some.injEq] at hg; subst hg; simp at hx
    · simp at hg
  have hput : LOK (fun _ _ l => ∀ x ∈ l, x ∈ keys (put ix.nodes id ⟨v, List.replicate (level + 1) []⟩))
      (put ix.nodes id ⟨v, List.replicate (level + 1) []⟩) := by
    apply LOK_put
    · exact LOK_mono h.nodang (fun k i l hl x hx => mem_keys_put_of_mem _ _ _ (hl x hx))
    · intro i l hg; exact hnode _ i l hg
  unfold HnswBuild.insert
  cases he : ix.entry with
  | none =>
    simp only
    refine ⟨hput, ?_, ?_, ?_, nodup_keys_put _ _ _ h.keys_nodup⟩
    · intro e hee; simp only [Option.some.injEq] at hee; subst hee; exact mem_keys_put_self _ _ _
    · intro hh; simp at hh
    · intro hh
      have := mem_keys_put_self ix.nodes id ⟨v, List.replicate (level + 1) []⟩
      simp only at hh
      rw [hh] at this; simp [keys] at this
  | some ep =>
    simp only
    have hl := layers_nodang c id v _ (mem_keys_put_self ix.nodes id ⟨v, List.replicate (level + 1) []⟩)
      (min level ix.maxLevel + 1) _
      (descendFrom c (put ix.nodes id ⟨v, List.replicate (level + 1) []⟩) v level (ix.maxLevel - level) ep)
      rfl hput
    have hk := keys_layers c id v (min level ix.maxLevel + 1)
      (put ix.nodes id ⟨v, List.replicate (level + 1) []⟩)
      (descendFrom c (put ix.nodes id ⟨v, List.replicate (level + 1) []⟩) v level (ix.maxLevel - level) ep)
    have hnil : ∀ ns : NodeMap V, keys ns = keys (put ix.nodes id ⟨v, List.replicate (level + 1) []⟩) →
        ns ≠ [] := by
      intro ns hkk hh
      have := mem_keys_put_self ix.nodes id ⟨v, List.replicate (level + 1) []⟩
      rw [← hkk, hh] at this; simp [keys] at this
    split
    · refine ⟨?_, ?_, ?_, ?_, ?_⟩
      · simp only; rw [hk]; exact hl
      · intro e hee
        simp only [Option.some.injEq] at hee; subst hee
        simp only; rw [hk]; exact mem_keys_put_self _ _ _
      · intro hh; simp at hh
      · intro hh; exact absurd hh (hnil _ hk)
      · simp only; rw [hk]; exact nodup_keys_put _ _ _ h.keys_nodup
    · refine ⟨?_, ?_, ?_, ?_, ?_⟩
      · simp only; rw [hk]; exact hl
      · intro e hee
        simp only [Option.some.injEq] at hee; subst hee
        simp only; rw [hk]; exact mem_keys_put_of_mem _ _ _ (h.entry_present _ he)
      · intro hh; simp at hh
      · intro hh; exact absurd hh (hnil _ hk)
      · simp only; rw [hk]; exact nodup_keys_put _ _ _ h.keys_nodup

theorem choose_mem {pick : Nat} {ks : List Nat} {e : Nat} (h : choose pick ks = some e) : e ∈ ks := by
  unfold choose at h
  split at h
  · simp only [Option.some.injEq] at h; subst h; assumption
  · exact List.mem_of_mem_head? h

theorem choose_none {pick : Nat} {ks : List Nat} (h : choose pick ks = none) : ks = [] := by
  unfold choose at h
  split at h
  · simp at h
  · simpa using h

/-- `remove` keeps the index well-formed, whichever present id becomes the new entry point:
the removed id is purged from every list (no dangling link), the entry point stays a present node -/
theorem Inv.remove {ix : Index V} (h : Inv ix) (id pick : Nat) : Inv (remove ix id pick).1 := by
  unfold HnswBuild.remove
  cases hf : find ix.nodes id with
  | none => exact h
  | some nd =>
    simp only
    have hkeys : keys (unlink (eraseKey ix.nodes id) id) = (keys ix.nodes).filter (· ≠ id) := by
      rw [keys_unlink, keys_eraseKey]
    have hmem : ∀ x, x ∈ keys ix.nodes → x ≠ id → x ∈ keys (unlink (eraseKey ix.nodes id) id) := by
      intro x hx hne; rw [hkeys, List.mem_filter]; exact ⟨hx, by simpa using hne⟩
    refine ⟨?_, ?_, ?_, ?_, ?_⟩
    · intro k n hfk i l hg
      simp only at hfk hg ⊢
      rw [find_unlink, find_eraseKey] at hfk
      by_cases hk : k = id
      · simp [hk] at hfk
      · simp only [hk, if_false] at hfk
        cases hfn : find ix.nodes k with
        | none => rw [hfn] at hfk; simp at hfk
        | some n0 =>
          rw [hfn] at hfk
          simp only [Option.map_some, Option.some.injEq] at hfk
          subst hfk
          simp only [List.getElem?_map] at hg
          cases hg0 : n0.nbrs[i]? with
          | none => rw [hg0] at hg; simp at hg
          | some l0 =>
            rw [hg0] at hg
            simp only [Option.map_some, Option.some.injEq] at hg
            subst hg
            intro x hx
            rw [List.mem_filter] at hx
            exact hmem x (h.nodang k n0 hfn i l0 hg0 x hx.1) (by simpa using hx.2)
    · intro e hee
      simp only at hee ⊢
      split at hee
      · exact choose_mem hee
      · rename_i hne
        exact hmem e (h.entry_present e hee) (by intro h2; subst h2; exact hne hee)
    · intro hee
      simp only at hee ⊢
      split at hee
      · exact keys_eq_nil.mp (choose_none hee)
      · have := h.entry_none hee
        rw [this] at hf; simp [find] at hf
    · intro hnil
      simp only at hnil ⊢
      split
      · rw [hnil]; simp [choose, keys]
      · rename_i hne
        cases hent : ix.entry with
        | none => rfl
        | some e =>
          have h1 := hmem e (h.entry_present e hent) (by intro h2; subst h2; exact hne hent)
          rw [hnil] at h1; simp [keys] at h1
    · simp only; rw [hkeys]; exact h.keys_nodup.sublist List.filter_sublist

theorem Inv.empty : Inv (HnswBuild.empty : Index V) :=
  ⟨fun k n hf => by simp [HnswBuild.empty, find] at hf, fun e he => by simp [HnswBuild.empty] at he,
   fun _ => rfl, fun _ => rfl, by simp [HnswBuild.empty, keys]⟩

theorem Inv.step (c : Cfg V) {ix : Index V} (h : Inv ix) (op : Op V) :
    Inv (HnswBuild.step c ix op) := by
  cases op with
  | ins id level v => exact h.insert c id level v
  | rem id pick => exact h.remove id pick

theorem Inv.foldl (c : Cfg V) (ops : List (Op V)) {ix : Index V} (h : Inv ix) :
    Inv (ops.foldl (HnswBuild.step c) ix) := by
  induction ops generalizing ix with
  | nil => exact h
  | cons op rest ih => exact ih (h.step c op)

/-- **C18 (construction).** After every history of inserts (any ids — new or already present —,
any levels, any vectors) and removes (any ids, any choice of the new entry point), for every
distance function, `covers`, `M`, `M0`, `ef_construction` and fuel:
(a) every neighbour id in every list of every layer is a present node — no dangling link;
(f1) there is no entry point iff the index is empty, and the entry point is a present node;
(g) the ids are distinct, so `len()` is the number of present ids. -/
theorem c18_build_wellformed (c : Cfg V) (ops : List (Op V)) :
    (∀ k n, find (run c ops).nodes k = some n → ∀ l ∈ n.nbrs, ∀ x ∈ l,
        (find (run c ops).nodes x).isSome = true) ∧
    ((run c ops).entry = none ↔ (run c ops).nodes = []) ∧
    (∀ e, (run c ops).entry = some e → (find (run c ops).nodes e).isSome = true) ∧
    (keys (run c ops).nodes).Nodup ∧ (run c ops).len = (keys (run c ops).nodes).length := by
  have h : Inv (run c ops) := Inv.foldl c ops Inv.empty
  refine ⟨?_, ⟨h.entry_none, h.nodes_nil⟩, ?_, h.keys_nodup, by simp [Index.len, keys]⟩
  · intro k n hf l hl x hx
    obtain ⟨i, hi, hli⟩ := List.mem_iff_getElem.mp hl
    rw [find_isSome_iff]
    exact h.nodang k n hf i l (by rw [List.getElem?_eq_getElem hi, hli]) x hx
  · intro e he; rw [find_isSome_iff]; exact h.entry_present e he

/-- the dump of every reachable index mentions only ids it contains -/
theorem c18_build_closed (c : Cfg V) (ops : List (Op V)) : (run c ops).toGraph.Closed := by
  have h : Inv (run c ops) := Inv.foldl c ops Inv.empty
  refine ⟨fun e he => h.entry_present e he, ?_⟩
  intro a l b hb
  simp only [Index.toGraph, adjAt] at hb ⊢
  cases hf : find (run c ops).nodes a with
  | none => rw [hf] at hb; simp at hb
  | some n =>
    rw [hf] at hb
    simp only [List.getD] at hb
    cases hg : n.nbrs[l]? with
    | none => rw [hg] at hb; simp at hb
    | some l0 =>
      rw [hg] at hb
      simp only [Option.getD_some] at hb
      exact h.nodang a n hf l l0 hg b hb

/-- **C18 (search after construction).** For every index state reachable by inserts and removes,
every query distance, `k`, `ef` and fuel: `search_with_ef` returns only ids that are present in
the index — never a removed one — at most `k` of them, distinct, closest first. -/
theorem c18_search_after_any_history (c : Cfg V) (ops : List (Op V)) (d : Nat → Nat)
    (k ef fuel : Nat) :
    (∀ p ∈ searchWithEf (run c ops).toGraph d k ef fuel, p.1 ∈ keys (run c ops).nodes) ∧
    ((searchWithEf (run c ops).toGraph d k ef fuel).map Prod.fst).Nodup ∧
    (searchWithEf (run c ops).toGraph d k ef fuel).length ≤ k ∧
    (searchWithEf (run c ops).toGraph d k ef fuel).Pairwise (fun a b => a.2 ≤ b.2) := by
  have hs := c18_search_sound (run c ops).toGraph d k ef fuel
  exact ⟨c18_search_in_index _ (c18_build_closed c ops) d k ef fuel, hs.2.1, hs.2.2.1, hs.2.2.2.1⟩

/-- what the driver prints as the search part of the `inv` verdict is always `sound` -/
theorem c18_search_check_after_any_history (c : Cfg V) (ops : List (Op V)) (d : Nat → Nat)
    (k ef fuel : Nat) :
    checkSound (keys (run c ops).nodes) d k (searchWithEf (run c ops).toGraph d k ef fuel) = "sound" :=
  c18_model_passes_check (run c ops).toGraph (c18_build_closed c ops) d k ef fuel

/-! ## witnesses: what is NOT an invariant of the code (V = Nat, distance |a − b|) -/

def wCfg : Cfg Nat :=
  { m := 2, mMax := 4, efc := 8, fuel := 10, dist := fun a b => (a - b) + (b - a),
    covers := fun dcs dcq => decide (dcs < dcq), missing := 1000000 }

/-- non-vacuity: four inserts build a linked graph that passes every check -/
theorem c18_build_nonvacuous :
    let ix := run wCfg [.ins 1 0 0, .ins 2 1 10, .ins 3 0 4, .ins 4 0 9]
    ix.len = 4 ∧ ix.entry = some 2 ∧ ix.maxLevel = 1 ∧ adjAt ix.nodes 0 3 ≠ [] ∧
    verdictCore 2 4 ix = "ok" ∧ verdictShape ix = "ok" := by
  decide +kernel

/-- re-inserting a present id: the beam search finds the id itself, which becomes its own
neighbour — and is pushed once more by the back-link pass: a self link AND a duplicate -/
theorem c18_witness_reinsert_self_link :
    let ix := run wCfg [.ins 1 0 5, .ins 1 0 9]
    adjAt ix.nodes 0 1 = [1, 1] ∧ chkB ix = false ∧ chkC ix = false ∧ chkA ix = true := by
  decide +kernel

/-- removing the entry point: `max_level` is not recomputed and the new entry point is an
arbitrary node, so "the entry point sits on the top level" fails (search still starts there) -/
theorem c18_witness_remove_entry_keeps_max_level :
    let ix := run wCfg [.ins 1 0 0, .ins 2 2 10, .ins 3 0 4, .rem 2 3]
    ix.entry = some 3 ∧ ix.maxLevel = 2 ∧ levelOf ix.nodes 3 = some 0 ∧ chkF2 ix = false ∧
    chkA ix = true ∧ chkF1 ix = true := by
  decide +kernel

/-- the seeded defect "remove deletes only the node's own lists" is caught by (a): without the
purge the neighbour keeps a link to the removed id -/
theorem c18_witness_unpurged_remove_dangles :
    let ix := run wCfg [.ins 1 0 0, .ins 2 0 10]
    let bad : Index Nat := { ix with nodes := eraseKey ix.nodes 2 }
    chkA bad = false ∧ chkA (remove ix 2 0).1 = true := by
  decide +kernel

/-! ## quantisation (integer parts) -/

/-- **scalar quantisation, one step.** For a power-of-two (indeed any positive) step `s` and an
in-range integer `x`, `dequantize (quantize x)` is at most `x` and less than one step below it. -/
theorem c18_sq_roundtrip_within_step (mn : Int) (s : Nat) (hs : 0 < s) (x : Int)
    (h1 : mn ≤ x) (h2 : x ≤ mn + 255 * (s : Int)) :
    sqDequantize mn s (sqQuantize mn s x) ≤ x ∧ x < sqDequantize mn s (sqQuantize mn s x) + s := by
  unfold sqDequantize sqQuantize
  have hlt : ¬ x < mn := by omega
  simp only [hlt, if_false]
  generalize ht : (x - mn).toNat = t
  have htx : (t : Int) = x - mn := by omega
  have hdm := Nat.div_add_mod t s
  have hmod := Nat.mod_lt t hs
  have h3 : t ≤ 255 * s := by omega
  have hq : t / s ≤ 255 := by
    apply Nat.div_le_of_le_mul
    rw [Nat.mul_comm]; exact h3
  rw [Nat.min_eq_right hq, Nat.mul_comm (t / s) s]
  constructor <;> omega

/-- out-of-range inputs are clamped to the end codes -/
theorem c18_sq_clamps (mn : Int) (s : Nat) (x : Int) :
    sqQuantize mn s x ≤ 255 ∧ (x < mn → sqQuantize mn s x = 0) := by
  unfold sqQuantize
  constructor
  · split
    · omega
    · exact Nat.min_le_left _ _
  · intro h; rw [if_pos h]

/-- Hamming distance is symmetric -/
theorem c18_hamming_symm (a b : List Nat) : hammingWords a b = hammingWords b a := by
  induction a generalizing b with
  | nil => cases b <;> simp [hammingWords]
  | cons x xs ih =>
    cases b with
    | nil => simp [hammingWords]
    | cons y ys => simp only [hammingWords]; rw [ih ys, Nat.xor_comm]

theorem xor_eq_zero_iff' (x y : Nat) : x ^^^ y = 0 ↔ x = y := by
  constructor
  · intro h
    have h1 : x ^^^ (x ^^^ y) = x ^^^ 0 := by rw [h]
    rw [← Nat.xor_assoc, Nat.xor_self, Nat.zero_xor, Nat.xor_zero] at h1
    exact h1.symm
  · intro h; rw [h, Nat.xor_self]

theorem popcount_eq_zero (n : Nat) : popcount n = 0 ↔ n = 0 := by
  induction n using Nat.strongRecOn with
  | _ n ih =>
    cases n with
    | zero => simp [popcount]
    | succ m =>
      rw [popcount]
      constructor
      · intro h
        have h1 : (m + 1) % 2 = 0 := by omega
        have h2 : popcount ((m + 1) / 2) = 0 := by omega
        have h3 := (ih ((m + 1) / 2) (by omega)).mp h2
        omega
      · intro h; omega

/-- Hamming distance zero ⇔ equal codes (same number of words) -/
theorem c18_hamming_zero_iff (a b : List Nat) (hl : a.length = b.length) :
    hammingWords a b = 0 ↔ a = b := by
  induction a generalizing b with
  | nil => cases b with
    | nil => simp [hammingWords]
    | cons y ys => simp at hl
  | cons x xs ih =>
    cases b with
    | nil => simp at hl
    | cons y ys =>
      simp only [List.length_cons, Nat.add_right_cancel_iff] at hl
      simp only [hammingWords, Nat.add_eq_zero_iff, popcount_eq_zero, xor_eq_zero_iff', ih ys hl,
        List.cons.injEq]

/-- the bit-level specification: differing positions; symmetric, zero iff equal -/
theorem c18_diffBits_zero_iff (a b : List Bool) (hl : a.length = b.length) :
    diffBits a b = 0 ↔ a = b := by
  induction a generalizing b with
  | nil => cases b with
    | nil => simp [diffBits]
    | cons y ys => simp at hl
  | cons x xs ih =>
    cases b with
    | nil => simp at hl
    | cons y ys =>
      simp only [List.length_cons, Nat.add_right_cancel_iff] at hl
      simp only [diffBits, Nat.add_eq_zero_iff, ih ys hl, List.cons.injEq]
      constructor
      · intro ⟨h1, h2⟩
        refine ⟨?_, h2⟩
        by_cases hxy : x = y
        · exact hxy
        · simp [hxy] at h1
      · intro ⟨h1, h2⟩; simp [h1, h2]

end Grafeo.HnswBuild
