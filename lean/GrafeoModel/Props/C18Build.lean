import GrafeoModel.Proofs.HnswBuildLemmas

/-!
C18, graph construction and maintenance: the graph `HnswIndex::insert` / `remove` build is
well-formed after EVERY history — every level sequence (`random_level` is an input), every choice
`remove` makes for a new entry point, every distance function, every `covers` predicate, every
`M`, `M0`, `ef_construction`, every fuel — and therefore the search theorems of `Props/C18.lean`
(stated for a dump that mentions only ids it contains) apply to every reachable index.

Full (all histories):  (a) no dangling link, (f1) the entry point exists iff the index is
non-empty and is a present node, (g) keys distinct (`len` = number of present ids);
search after any history returns only present ids.
NOT invariants of the code (witnesses below, observed identically on the real index by the
`hcon` stream): (b) no self link and (c) no duplicates fail after re-inserting a present id;
(f2) "entry point on max_level" fails after removing the entry point (`max_level` is not
recomputed, the new entry point is an arbitrary node); (e) fails after either.
-/
namespace Grafeo.HnswBuild
open Grafeo.Hnsw

variable {V : Type}

/-- the well-formedness that holds after every history -/
structure Inv (ix : Index V) : Prop where
  nodang : LOK (fun _ _ l => ∀ x ∈ l, x ∈ keys ix.nodes) ix.nodes
  entry_present : ∀ e, ix.entry = some e → e ∈ keys ix.nodes
  entry_none : ix.entry = none → ix.nodes = []
  nodes_nil : ix.nodes = [] → ix.entry = none
  keys_nodup : (keys ix.nodes).Nodup

theorem LOK_mono {R R' : Nat → Nat → List Nat → Prop} {ns : NodeMap V} (h : LOK R ns)
    (hm : ∀ k i l, R k i l → R' k i l) : LOK R' ns :=
  fun k n hf i l hg => hm k i l (h k n hf i l hg)

theorem LOK_put {R : Nat → Nat → List Nat → Prop} {ns : NodeMap V} (h : LOK R ns) (k : Nat)
    (n : Node V) (hn : ∀ i l, n.nbrs[i]? = some l → R k i l) : LOK R (put ns k n) := by
  intro k' n' hf i l hg
  rw [find_put] at hf
  by_cases hk : k = k'
  · subst hk
    simp only [if_true, Option.some.injEq] at hf
    subst hf
    exact hn i l hg
  · simp only [hk, if_false] at hf
    exact h k' n' hf i l hg

theorem layers_nodang (c : Cfg V) (id : Nat) (v : V) (K : List Nat) (hid : id ∈ K) :
    ∀ (n : Nat) (ns : NodeMap V) (cur : Nat), keys ns = K →
      LOK (fun _ _ l => ∀ x ∈ l, x ∈ K) ns →
      LOK (fun _ _ l => ∀ x ∈ l, x ∈ K) (layers c id v n ns cur) := by
  intro n
  induction n with
  | zero => intro ns cur _ h; exact h
  | succ lc ih =>
    intro ns cur hk h
    simp only [layers]
    apply ih
    · rw [keys_layerStep]; exact hk
    · apply LOK_layerStep c id v lc ns cur h
      · intro sel hs _ x hx; rw [← hk]; exact hs x hx
      · intro nb old ho x hx
        rw [List.mem_append, List.mem_singleton] at hx
        cases hx with
        | inl hx => exact ho x hx
        | inr hx => rw [hx]; exact hid
      · intro nb old key ho x hx
        exact ho x ((sortBy_perm key old).mem_iff.mp (List.mem_of_mem_take hx))

theorem keys_eq_nil {ns : NodeMap V} : keys ns = [] ↔ ns = [] := by
  simp [keys]

theorem mem_keys_put_self (ns : NodeMap V) (k : Nat) (n : Node V) : k ∈ keys (put ns k n) := by
  rw [keys_put]; split
  · assumption
  · simp

theorem mem_keys_put_of_mem (ns : NodeMap V) (k : Nat) (n : Node V) {x : Nat} (hx : x ∈ keys ns) :
    x ∈ keys (put ns k n) := by
  rw [keys_put]; split
  · exact hx
  · exact List.mem_append_left _ hx

theorem nodup_keys_put (ns : NodeMap V) (k : Nat) (n : Node V) (h : (keys ns).Nodup) :
    (keys (put ns k n)).Nodup := by
  rw [keys_put]; split
  · exact h
  · rename_i hk
    rw [List.nodup_append]
    refine ⟨h, by simp, ?_⟩
    intro a ha b hb
    rw [List.mem_singleton] at hb
    subst hb
    intro hab; subst hab; exact hk ha

/-- `insert` keeps the index well-formed, whatever id (new or present), level and vector -/
theorem Inv.insert (c : Cfg V) {ix : Index V} (h : Inv ix) (id level : Nat) (v : V) :
    Inv (insert c ix id level v) := by
  have hnode : ∀ (K : List Nat) (i : Nat) (l : List Nat),
      (List.replicate (level + 1) ([] : List Nat))[i]? = some l → ∀ x ∈ l, x ∈ K := by
    intro K i l hg x hx
    rw [List.getElem?_replicate] at hg
    split at hg
    · simp only [Option.some.injEq] at hg; subst hg; simp at hx
    · simp at hg
  have hput : LOK (fun _ _ l => ∀ x ∈ l, x ∈ keys (put ix.nodes id ⟨v, List.replicate (level + 1) []⟩))
      (put ix.nodes id ⟨v, List.replicate (level + 1) []⟩) := by
    apply LOK_put
    · exact LOK_mono h.nodang (fun k i l hl x hx => mem_keys_put_of_mem _ _ _ (hl x hx))
    · intro i l hg; exact hnode _ i l hg
  unfold HnswBuild.insert
  cases he : ix.entry with
  | none =>
    simp only
    refine ⟨hput, ?_, ?_, ?_, nodup_keys_put _ _ _ h.keys_nodup⟩
    · intro e hee; simp only [Option.some.injEq] at hee; subst hee; exact mem_keys_put_self _ _ _
    · intro hh; simp at hh
    · intro hh
      have := mem_keys_put_self ix.nodes id ⟨v, List.replicate (level + 1) []⟩
      simp only at hh
      rw [hh] at this; simp [keys] at this
  | some ep =>
    simp only
    have hl := layers_nodang c id v _ (mem_keys_put_self ix.nodes id ⟨v, List.replicate (level + 1) []⟩)
      (min level ix.maxLevel + 1) _
      (descendFrom c (put ix.nodes id ⟨v, List.replicate (level + 1) []⟩) v level (ix.maxLevel - level) ep)
      rfl hput
    have hk := keys_layers c id v (min level ix.maxLevel + 1)
      (put ix.nodes id ⟨v, List.replicate (level + 1) []⟩)
      (descendFrom c (put ix.nodes id ⟨v, List.replicate (level + 1) []⟩) v level (ix.maxLevel - level) ep)
    have hnil : ∀ ns : NodeMap V, keys ns = keys (put ix.nodes id ⟨v, List.replicate (level + 1) []⟩) →
        ns ≠ [] := by
      intro ns hkk hh
      have := mem_keys_put_self ix.nodes id ⟨v, List.replicate (level + 1) []⟩
      rw [← hkk, hh] at this; simp [keys] at this
    split
    · refine ⟨?_, ?_, ?_, ?_, ?_⟩
      · simp only; rw [hk]; exact hl
      · intro e hee
        simp only [Option.some.injEq] at hee; subst hee
        simp only; rw [hk]; exact mem_keys_put_self _ _ _
      · intro hh; simp at hh
      · intro hh; exact absurd hh (hnil _ hk)
      · simp only; rw [hk]; exact nodup_keys_put _ _ _ h.keys_nodup
    · refine ⟨?_, ?_, ?_, ?_, ?_⟩
      · simp only; rw [hk]; exact hl
      · intro e hee
        simp only [Option.some.injEq] at hee; subst hee
        simp only; rw [hk]; exact mem_keys_put_of_mem _ _ _ (h.entry_present _ he)
      · intro hh; simp at hh
      · intro hh; exact absurd hh (hnil _ hk)
      · simp only; rw [hk]; exact nodup_keys_put _ _ _ h.keys_nodup

theorem choose_mem {pick : Nat} {ks : List Nat} {e : Nat} (h : choose pick ks = some e) : e ∈ ks := by
  unfold choose at h
  split at h
  · simp only [Option.some.injEq] at h; subst h; assumption
  · exact List.mem_of_mem_head? h

theorem choose_none {pick : Nat} {ks : List Nat} (h : choose pick ks = none) : ks = [] := by
  unfold choose at h
  split at h
  · simp at h
  · simpa using h

/-- `remove` keeps the index well-formed, whichever present id becomes the new entry point:
the removed id is purged from every list (no dangling link), the entry point stays a present node -/
theorem Inv.remove {ix : Index V} (h : Inv ix) (id pick : Nat) : Inv (remove ix id pick).1 := by
  unfold HnswBuild.remove
  cases hf : find ix.nodes id with
  | none => exact h
  | some nd =>
    simp only
    have hkeys : keys (unlink (eraseKey ix.nodes id) id) = (keys ix.nodes).filter (· ≠ id) := by
      rw [keys_unlink, keys_eraseKey]
    have hmem : ∀ x, x ∈ keys ix.nodes → x ≠ id → x ∈ keys (unlink (eraseKey ix.nodes id) id) := by
      intro x hx hne; rw [hkeys, List.mem_filter]; exact ⟨hx, by simpa using hne⟩
    refine ⟨?_, ?_, ?_, ?_, ?_⟩
    · intro k n hfk i l hg
      simp only at hfk hg ⊢
      rw [find_unlink, find_eraseKey] at hfk
      by_cases hk : k = id
      · simp [hk] at hfk
      · simp only [hk, if_false] at hfk
        cases hfn : find ix.nodes k with
        | none => rw [hfn] at hfk; simp at hfk
        | some n0 =>
          rw [hfn] at hfk
          simp only [Option.map_some, Option.some.injEq] at hfk
          subst hfk
          simp only [List.getElem?_map] at hg
          cases hg0 : n0.nbrs[i]? with
          | none => rw [hg0] at hg; simp at hg
          | some l0 =>
            rw [hg0] at hg
            simp only [Option.map_some, Option.some.injEq] at hg
            subst hg
            intro x hx
            rw [List.mem_filter] at hx
            exact hmem x (h.nodang k n0 hfn i l0 hg0 x hx.1) (by simpa using hx.2)
    · intro e hee
      simp only at hee ⊢
      split at hee
      · exact choose_mem hee
      · rename_i hne
        exact hmem e (h.entry_present e hee) (by intro h2; subst h2; exact hne hee)
    · intro hee
      simp only at hee ⊢
      split at hee
      · exact keys_eq_nil.mp (choose_none hee)
      · have := h.entry_none hee
        rw [this] at hf; simp [find] at hf
    · intro hnil
      simp only at hnil ⊢
      split
      · rw [hnil]; simp [choose, keys]
      · rename_i hne
        cases hent : ix.entry with
        | none => rfl
        | some e =>
          have h1 := hmem e (h.entry_present e hent) (by intro h2; subst h2; exact hne hent)
          rw [hnil] at h1; simp [keys] at h1
    · simp only; rw [hkeys]; exact h.keys_nodup.sublist List.filter_sublist

theorem Inv.empty : Inv (HnswBuild.empty : Index V) :=
  ⟨fun k n hf => by simp [HnswBuild.empty, find] at hf, fun e he => by simp [HnswBuild.empty] at he,
   fun _ => rfl, fun _ => rfl, by simp [HnswBuild.empty, keys]⟩

theorem Inv.step (c : Cfg V) {ix : Index V} (h : Inv ix) (op : Op V) :
    Inv (HnswBuild.step c ix op) := by
  cases op with
  | ins id level v => exact h.insert c id level v
  | rem id pick => exact h.remove id pick

theorem Inv.foldl (c : Cfg V) (ops : List (Op V)) {ix : Index V} (h : Inv ix) :
    Inv (ops.foldl (HnswBuild.step c) ix) := by
  induction ops generalizing ix with
  | nil => exact h
  | cons op rest ih => exact ih (h.step c op)

/-- **C18 (construction).** After every history of inserts (any ids — new or already present —,
any levels, any vectors) and removes (any ids, any choice of the new entry point), for every
distance function, `covers`, `M`, `M0`, `ef_construction` and fuel:
(a) every neighbour id in every list of every layer is a present node — no dangling link;
(f1) there is no entry point iff the index is empty, and the entry point is a present node;
(g) the ids are distinct, so `len()` is the number of present ids. -/
theorem c18_build_wellformed (c : Cfg V) (ops : List (Op V)) :
    (∀ k n, find (run c ops).nodes k = some n → ∀ l ∈ n.nbrs, ∀ x ∈ l,
        (find (run c ops).nodes x).isSome = true) ∧
    ((run c ops).entry = none ↔ (run c ops).nodes = []) ∧
    (∀ e, (run c ops).entry = some e → (find (run c ops).nodes e).isSome = true) ∧
    (keys (run c ops).nodes).Nodup ∧ (run c ops).len = (keys (run c ops).nodes).length := by
  have h : Inv (run c ops) := Inv.foldl c ops Inv.empty
  refine ⟨?_, ⟨h.entry_none, h.nodes_nil⟩, ?_, h.keys_nodup, by simp [Index.len, keys]⟩
  · intro k n hf l hl x hx
    obtain ⟨i, hi, hli⟩ := List.mem_iff_getElem.mp hl
    rw [find_isSome_iff]
    exact h.nodang k n hf i l (by rw [List.getElem?_eq_getElem hi, hli]) x hx
  · intro e he; rw [find_isSome_iff]; exact h.entry_present e he

/-- the dump of every reachable index mentions only ids it contains -/
theorem c18_build_closed (c : Cfg V) (ops : List (Op V)) : (run c ops).toGraph.Closed := by
  have h : Inv (run c ops) := Inv.foldl c ops Inv.empty
  refine ⟨fun e he => h.entry_present e he, ?_⟩
  intro a l b hb
  simp only [Index.toGraph, adjAt] at hb ⊢
  cases hf : find (run c ops).nodes a with
  | none => rw [hf] at hb; simp at hb
  | some n =>
    rw [hf] at hb
    simp only [List.getD] at hb
    cases hg : n.nbrs[l]? with
    | none => rw [hg] at hb; simp at hb
    | some l0 =>
      rw [hg] at hb
      simp only [Option.getD_some] at hb
      exact h.nodang a n hf l l0 hg b hb

/-- **C18 (search after construction).** For every index state reachable by inserts and removes,
every query distance, `k`, `ef` and fuel: `search_with_ef` returns only ids that are present in
the index — never a removed one — at most `k` of them, distinct, closest first. -/
theorem c18_search_after_any_history (c : Cfg V) (ops : List (Op V)) (d : Nat → Nat)
    (k ef fuel : Nat) :
    (∀ p ∈ searchWithEf (run c ops).toGraph d k ef fuel, p.1 ∈ keys (run c ops).nodes) ∧
    ((searchWithEf (run c ops).toGraph d k ef fuel).map Prod.fst).Nodup ∧
    (searchWithEf (run c ops).toGraph d k ef fuel).length ≤ k ∧
    (searchWithEf (run c ops).toGraph d k ef fuel).Pairwise (fun a b => a.2 ≤ b.2) := by
  have hs := c18_search_sound (run c ops).toGraph d k ef fuel
  exact ⟨c18_search_in_index _ (c18_build_closed c ops) d k ef fuel, hs.2.1, hs.2.2.1, hs.2.2.2.1⟩

/-- what the driver prints as the search part of the `inv` verdict is always `sound` -/
theorem c18_search_check_after_any_history (c : Cfg V) (ops : List (Op V)) (d : Nat → Nat)
    (k ef fuel : Nat) :
    checkSound (keys (run c ops).nodes) d k (searchWithEf (run c ops).toGraph d k ef fuel) = "sound" :=
  c18_model_passes_check (run c ops).toGraph (c18_build_closed c ops) d k ef fuel

/-! ## (d): list lengths, every history -/

theorem LOK_remove {R : Nat → Nat → List Nat → Prop} {ix : Index V} (id pick : Nat)
    (hfil : ∀ k i l, R k i l → R k i (l.filter (· ≠ id))) (h : LOK R ix.nodes) :
    LOK R (remove ix id pick).1.nodes := by
  unfold HnswBuild.remove
  cases hf : find ix.nodes id with
  | none => exact h
  | some nd =>
    intro k n hfk i l hg
    simp only at hfk hg ⊢
    rw [find_unlink, find_eraseKey] at hfk
    by_cases hk : k = id
    · simp [hk] at hfk
    · simp only [hk, if_false] at hfk
      cases hfn : find ix.nodes k with
      | none => rw [hfn] at hfk; simp at hfk
      | some n0 =>
        rw [hfn] at hfk
        simp only [Option.map_some, Option.some.injEq] at hfk
        subst hfk
        simp only [List.getElem?_map] at hg
        cases hg0 : n0.nbrs[i]? with
        | none => rw [hg0] at hg; simp at hg
        | some l0 =>
          rw [hg0] at hg
          simp only [Option.map_some, Option.some.injEq] at hg
          subst hg
          exact hfil k i l0 (h k n0 hfn i l0 hg0)

theorem LOK_put_empty {R : Nat → Nat → List Nat → Prop} {ns : NodeMap V} (h : LOK R ns) (id level : Nat)
    (v : V) (hnil : ∀ i, R id i []) : LOK R (put ns id ⟨v, List.replicate (level + 1) []⟩) := by
  apply LOK_put h
  intro i l hg
  rw [List.getElem?_replicate] at hg
  split at hg
  · simp only [Option.some.injEq] at hg; subst hg; exact hnil i
  · simp at hg

theorem bound_insert (c : Cfg V) (ix : Index V) (id level : Nat) (v : V)
    (h : LOK (fun _ i l => l.length ≤ (if i = 0 then c.mMax else c.m)) ix.nodes) :
    LOK (fun _ i l => l.length ≤ (if i = 0 then c.mMax else c.m)) (insert c ix id level v).nodes := by
  have hput := LOK_put_empty h id level v (fun i => by simp)
  unfold HnswBuild.insert
  cases ix.entry with
  | none => exact hput
  | some ep =>
    simp only
    split
    · exact bound_layers c id v _ _ _ hput
    · exact bound_layers c id v _ _ _ hput

/-- **C18 (construction, d).** After every history, every neighbour list on layer 0 has at most
`M0` entries and every list on a higher layer at most `M` (pruning restores the bound after each
back link). -/
theorem c18_build_degree_bound (c : Cfg V) (ops : List (Op V)) :
    ∀ k n, find (run c ops).nodes k = some n → ∀ i l, n.nbrs[i]? = some l →
      l.length ≤ (if i = 0 then c.mMax else c.m) := by
  suffices h : ∀ (ops : List (Op V)) (ix : Index V),
      LOK (fun _ i l => l.length ≤ (if i = 0 then c.mMax else c.m)) ix.nodes →
      LOK (fun _ i l => l.length ≤ (if i = 0 then c.mMax else c.m)) (ops.foldl (step c) ix).nodes from
    h ops HnswBuild.empty (fun k n hf => by simp [HnswBuild.empty, find] at hf)
  intro ops
  induction ops with
  | nil => intro ix h; exact h
  | cons op rest ih =>
    intro ix h
    rw [List.foldl_cons]
    apply ih
    cases op with
    | ins id level v => exact bound_insert c ix id level v h
    | rem id pick =>
      exact LOK_remove id pick (fun k i l hl => Nat.le_trans (List.length_filter_le _ _) hl) h

/-! ## (b), (c): histories that insert only FRESH ids -/

/-- every insert of the history is of an id that is not present at that moment (decidable) -/
def freshRun (c : Cfg V) : Index V → List (Op V) → Bool
  | _, [] => true
  | ix, .ins id level v :: r => !(keys ix.nodes).contains id && freshRun c (insert c ix id level v) r
  | ix, .rem id pick :: r => freshRun c (remove ix id pick).1 r

theorem reach_ne {adj : Nat → List Nat} {id a b : Nat} (h : ReachR (adjRel adj) a b)
    (hadj : ∀ x, ∀ y ∈ adj x, y ≠ id) (ha : a ≠ id) : b ≠ id := by
  induction h with
  | refl => exact ha
  | tail _ hs _ => exact hadj _ _ hs

theorem adjAt_mem {ns : NodeMap V} {lc a b : Nat} (h : b ∈ adjAt ns lc a) :
    ∃ n l, find ns a = some n ∧ n.nbrs[lc]? = some l ∧ b ∈ l := by
  unfold adjAt at h
  cases hf : find ns a with
  | none => rw [hf] at h; simp at h
  | some n =>
    rw [hf] at h
    simp only [List.getD] at h
    cases hg : n.nbrs[lc]? with
    | none => rw [hg] at h; simp at h
    | some l => rw [hg] at h; exact ⟨n, l, rfl, hg, by simpa using h⟩

theorem descendFrom_ne (c : Cfg V) (ns : NodeMap V) (v : V) (lo id : Nat)
    (hadj : ∀ lc x, ∀ y ∈ adjAt ns lc x, y ≠ id) :
    ∀ (n cur : Nat), cur ≠ id → descendFrom c ns v lo n cur ≠ id := by
  intro n
  induction n with
  | zero => intro cur h; exact h
  | succ m ih =>
    intro cur h
    simp only [descendFrom]
    exact ih _ (reach_ne (searchLayerSingle_reach _ _ _ _) (hadj _) h)

theorem nodup_snoc {l : List Nat} {a : Nat} (h : l.Nodup) (ha : a ∉ l) : (l ++ [a]).Nodup := by
  rw [List.nodup_append]
  refine ⟨h, by simp, ?_⟩
  intro x hx y hy
  rw [List.mem_singleton] at hy
  subst hy
  intro hxy; subst hxy; exact ha hx

theorem selectHeur_nodup (c : Cfg V) (ns : NodeMap V) (d : Nat → Nat) (cands : List Nat) (m : Nat)
    (h : cands.Nodup) : (selectHeur c ns d cands m).Nodup := by
  unfold selectHeur
  suffices g : ∀ (cs sel : List Nat), sel.Nodup → (∀ x ∈ sel, x ∉ cs) → cs.Nodup →
      (cs.foldl (selectStep c ns d m) sel).Nodup from g cands [] (by simp) (by simp) h
  intro cs
  induction cs with
  | nil => intro sel hs _ _; exact hs
  | cons y ys ih =>
    intro sel hs hdis hnd
    rw [List.foldl_cons]
    have hy : y ∉ ys := (List.nodup_cons.mp hnd).1
    apply ih
    · unfold selectStep
      split
      · exact hs
      · cases find ns y with
        | none => exact hs
        | some cn =>
          simp only
          split
          · exact hs
          · exact nodup_snoc hs (fun hm => hdis y hm (List.mem_cons_self ..))
    · exact selectStep_mem c ns d m sel y (fun x => x ∉ ys)
        (fun x hx hxy => hdis x hx (List.mem_cons_of_mem _ hxy)) (fun _ => hy)
    · exact (List.nodup_cons.mp hnd).2

theorem LOK_linkFold_mem {R : Nat → Nat → List Nat → Prop} (id lc mMax : Nat) (sel : List Nat)
    (hpush : ∀ nb ∈ sel, ∀ old, R nb lc old → R nb lc (old ++ [id]))
    (acc : NodeMap V × List Nat) (h : LOK R acc.1) :
    LOK R (sel.foldl (linkStep id lc mMax) acc).1 := by
  induction sel generalizing acc with
  | nil => exact h
  | cons x xs ih =>
    rw [List.foldl_cons]
    apply ih (fun nb hnb => hpush nb (List.mem_cons_of_mem _ hnb))
    unfold linkStep
    cases hf : find acc.1 x with
    | none => exact h
    | some n =>
      simp only
      by_cases hlc : lc < n.nbrs.length
      · simp only [hlc, if_true]
        exact LOK_setLayer h x lc _ (hpush x (List.mem_cons_self ..) _ (LOK_getD h hf hlc))
      · simp only [hlc, if_false]; exact h

theorem find_linkStep_ne (id lc mMax : Nat) (acc : NodeMap V × List Nat) (x nb : Nat) (hne : x ≠ nb) :
    find (linkStep id lc mMax acc x).1 nb = find acc.1 nb := by
  unfold linkStep
  cases find acc.1 x with
  | none => rfl
  | some n =>
    simp only
    split
    · simp only [setLayer, find_modify, hne, if_false]
    · rfl

theorem linkFold_nodup (id lc mMax : Nat) (sel : List Nat) (hs : sel.Nodup)
    (acc : NodeMap V × List Nat) (h : LOK (fun _ _ l => l.Nodup) acc.1)
    (hid : ∀ nb ∈ sel, ∀ n, find acc.1 nb = some n → ∀ l, n.nbrs[lc]? = some l → id ∉ l) :
    LOK (fun _ _ l => l.Nodup) (sel.foldl (linkStep id lc mMax) acc).1 := by
  induction sel generalizing acc with
  | nil => exact h
  | cons x xs ih =>
    rw [List.foldl_cons]
    have hx := List.nodup_cons.mp hs
    apply ih hx.2
    · unfold linkStep
      cases hf : find acc.1 x with
      | none => exact h
      | some n =>
        simp only
        by_cases hlc : lc < n.nbrs.length
        · simp only [hlc, if_true]
          apply LOK_setLayer h x lc
          apply nodup_snoc (LOK_getD h hf hlc)
          exact hid x (List.mem_cons_self ..) n hf _
            (by simp [List.getD, List.getElem?_eq_getElem hlc])
        · simp only [hlc, if_false]; exact h
    · intro nb hnb n hfn l hg
      have hne : x ≠ nb := fun he => hx.1 (he ▸ hnb)
      rw [find_linkStep_ne id lc mMax acc x nb hne] at hfn
      exact hid nb (List.mem_cons_of_mem _ hnb) n hfn l hg

/-- one step of the layer loop for a FRESH id: no self link, no duplicate, and the lower layers
still do not mention the new id -/
theorem simple_layerStep (c : Cfg V) (id : Nat) (v : V) (lc : Nat) (ns : NodeMap V) (cur : Nat)
    (hcur : cur ≠ id)
    (h1 : LOK (fun k _ l => k ∉ l) ns) (h2 : LOK (fun _ _ l => l.Nodup) ns)
    (h3 : LOK (fun _ i l => i < lc + 1 → id ∉ l) ns) :
    (layerStep c id v lc ns cur).2 ≠ id ∧
    LOK (fun k _ l => k ∉ l) (layerStep c id v lc ns cur).1 ∧
    LOK (fun _ _ l => l.Nodup) (layerStep c id v lc ns cur).1 ∧
    LOK (fun _ i l => i < lc → id ∉ l) (layerStep c id v lc ns cur).1 := by
  have hadj : ∀ x, ∀ y ∈ adjAt ns lc x, y ≠ id := by
    intro x y hy
    obtain ⟨n, l, hf, hg, hyl⟩ := adjAt_mem hy
    intro he; subst he
    exact h3 x n hf lc l hg (Nat.lt_succ_self _) hyl
  have hs := searchLayer_sound (adjAt ns lc) (dq c ns v) c.efc c.fuel cur
  have hsel_ne : id ∉ selectHeur c ns (dq c ns v) (searchLayer (adjAt ns lc) (dq c ns v) c.efc c.fuel cur)
      (if lc = 0 then c.mMax else c.m) := by
    intro hm
    exact reach_ne (hs.2.1 id (selectHeur_mem c ns _ _ _ id hm).2) hadj hcur rfl
  have hsel_nd := selectHeur_nodup c ns (dq c ns v) _ (if lc = 0 then c.mMax else c.m) hs.1
  refine ⟨?_, ?_, ?_, ?_⟩
  · simp only [layerStep]
    intro he
    cases hsel : selectHeur c ns (dq c ns v) (searchLayer (adjAt ns lc) (dq c ns v) c.efc c.fuel cur)
        (if lc = 0 then c.mMax else c.m) with
    | nil => rw [hsel] at he; exact hcur he
    | cons a as =>
      rw [hsel] at he hsel_ne
      simp only [List.headD_cons] at he
      exact hsel_ne (he ▸ List.mem_cons_self ..)
  · simp only [layerStep]
    refine LOK_pruneFold (R := fun k _ l => k ∉ l) c lc _ ?_ _ _ ?_
    · intro nb old key ho hm
      exact ho ((sortBy_perm key old).mem_iff.mp (List.mem_of_mem_take hm))
    · refine LOK_linkFold_mem (R := fun k _ l => k ∉ l) id lc _ _ ?_ (_, []) ?_
      · intro nb hnb old ho hm
        rw [List.mem_append, List.mem_singleton] at hm
        cases hm with
        | inl hm => exact ho hm
        | inr hm => exact hsel_ne (hm ▸ hnb)
      · exact LOK_setLayer h1 id lc _ hsel_ne
  · simp only [layerStep]
    refine LOK_pruneFold (R := fun _ _ l => l.Nodup) c lc _ ?_ _ _ ?_
    · intro nb old key ho
      exact ((sortBy_perm key old).nodup_iff.mpr ho).sublist (List.take_sublist _ _)
    · refine linkFold_nodup id lc _ _ hsel_nd (_, []) ?_ ?_
      · exact LOK_setLayer h2 id lc _ hsel_nd
      · intro nb hnb n hfn l hg
        have hne : id ≠ nb := fun he => hsel_ne (he ▸ hnb)
        simp only [setLayer, find_modify, hne, if_false] at hfn
        exact h3 nb n hfn lc l hg (Nat.lt_succ_self _)
  · apply LOK_layerStep c id v lc ns cur (LOK_mono h3 (fun k i l hl hi => hl (Nat.lt_succ_of_lt hi)))
    · intro sel _ _ hi; exact absurd hi (Nat.lt_irrefl _)
    · intro nb old _ hi; exact absurd hi (Nat.lt_irrefl _)
    · intro nb old key _ hi; exact absurd hi (Nat.lt_irrefl _)

theorem simple_layers (c : Cfg V) (id : Nat) (v : V) :
    ∀ (n : Nat) (ns : NodeMap V) (cur : Nat), cur ≠ id →
      LOK (fun k _ l => k ∉ l) ns → LOK (fun _ _ l => l.Nodup) ns →
      LOK (fun _ i l => i < n → id ∉ l) ns →
      LOK (fun k _ l => k ∉ l) (layers c id v n ns cur) ∧
      LOK (fun _ _ l => l.Nodup) (layers c id v n ns cur) := by
  intro n
  induction n with
  | zero => intro ns cur _ h1 h2 _; exact ⟨h1, h2⟩
  | succ lc ih =>
    intro ns cur hcur h1 h2 h3
    simp only [layers]
    obtain ⟨g0, g1, g2, g3⟩ := simple_layerStep c id v lc ns cur hcur h1 h2 h3
    exact ih _ _ g0 g1 g2 g3

/-- well-formed, no self link, no duplicate -/
structure Simple (ix : Index V) : Prop where
  inv : Inv ix
  noself : LOK (fun k _ l => k ∉ l) ix.nodes
  nodup : LOK (fun _ _ l => l.Nodup) ix.nodes

theorem Simple.insert_fresh (c : Cfg V) {ix : Index V} (h : Simple ix) (id level : Nat) (v : V)
    (hid : id ∉ keys ix.nodes) : Simple (insert c ix id level v) := by
  refine ⟨h.inv.insert c id level v, ?_, ?_⟩
  all_goals
    have hp1 := LOK_put_empty h.noself id level v (fun _ => by simp)
    have hp2 := LOK_put_empty h.nodup id level v (fun _ => by simp)
    have hp3 : LOK (fun _ _ l => id ∉ l) (put ix.nodes id ⟨v, List.replicate (level + 1) []⟩) :=
      LOK_put_empty (LOK_mono h.inv.nodang (fun k i l hl hm => hid (hl id hm))) id level v
        (fun _ => by simp)
    unfold HnswBuild.insert
    cases he : ix.entry with
    | none => first | exact hp1 | exact hp2
    | some ep =>
      simp only
      have hep : ep ≠ id := fun hh => hid (hh ▸ h.inv.entry_present ep he)
      have hadj : ∀ lc x, ∀ y ∈ adjAt (put ix.nodes id ⟨v, List.replicate (level + 1) []⟩) lc x, y ≠ id := by
        intro lc x y hy
        obtain ⟨n, l, hf, hg, hyl⟩ := adjAt_mem hy
        intro hh; subst hh
        exact hp3 x n hf lc l hg hyl
      have hcur := descendFrom_ne c _ v level id hadj (ix.maxLevel - level) ep hep
      have hl := simple_layers c id v (min level ix.maxLevel + 1) _ _ hcur hp1 hp2
        (LOK_mono hp3 (fun k i l hl _ => hl))
      split
      · first | exact hl.1 | exact hl.2
      · first | exact hl.1 | exact hl.2

theorem Simple.remove {ix : Index V} (h : Simple ix) (id pick : Nat) : Simple (remove ix id pick).1 :=
  ⟨h.inv.remove id pick,
   LOK_remove id pick (fun k i l hl hm => hl (List.mem_filter.mp hm).1) h.noself,
   LOK_remove id pick (fun k i l hl => hl.sublist List.filter_sublist) h.nodup⟩

theorem Simple.foldl (c : Cfg V) (ops : List (Op V)) {ix : Index V} (h : Simple ix)
    (hf : freshRun c ix ops = true) : Simple (ops.foldl (HnswBuild.step c) ix) := by
  induction ops generalizing ix with
  | nil => exact h
  | cons op rest ih =>
    cases op with
    | ins id level v =>
      simp only [freshRun, Bool.and_eq_true, Bool.not_eq_true', List.contains_eq_mem,
        decide_eq_false_iff_not] at hf
      exact ih (h.insert_fresh c id level v hf.1) hf.2
    | rem id pick =>
      simp only [freshRun] at hf
      exact ih (h.remove id pick) hf

/-- **C18 (construction, b + c), partial.** For every history in which each insert is of an id that
is not present at that moment (decidable: `freshRun`), no node lists itself and no neighbour list
contains an id twice.  Missing: re-inserting a present id — there both fail
(`c18_witness_reinsert_self_link`). -/
theorem c18_build_no_self_no_dup_partial (c : Cfg V) (ops : List (Op V))
    (hf : freshRun c HnswBuild.empty ops = true) :
    ∀ k n, find (run c ops).nodes k = some n → ∀ l ∈ n.nbrs, k ∉ l ∧ l.Nodup := by
  have h : Simple (run c ops) :=
    Simple.foldl c ops ⟨Inv.empty, fun k n hf => by simp [HnswBuild.empty, find] at hf,
      fun k n hf => by simp [HnswBuild.empty, find] at hf⟩ hf
  intro k n hfk l hl
  obtain ⟨i, hi, hli⟩ := List.mem_iff_getElem.mp hl
  have hg : n.nbrs[i]? = some l := by rw [List.getElem?_eq_getElem hi, hli]
  exact ⟨h.noself k n hfk i l hg, h.nodup k n hfk i l hg⟩

/-! ## witnesses: what is NOT an invariant of the code (V = Nat, distance |a − b|) -/

def wCfg : Cfg Nat :=
  { m := 2, mMax := 4, efc := 8, fuel := 10, dist := fun a b => (a - b) + (b - a),
    covers := fun dcs dcq => decide (dcs < dcq), missing := 1000000 }

/-- non-vacuity: four inserts build a linked graph that passes every check -/
theorem c18_build_nonvacuous :
    let ix := run wCfg [.ins 1 0 0, .ins 2 1 10, .ins 3 0 4, .ins 4 0 9]
    ix.len = 4 ∧ ix.entry = some 2 ∧ ix.maxLevel = 1 ∧ adjAt ix.nodes 0 3 ≠ [] ∧
    verdictCore 2 4 ix = "ok" ∧ verdictShape ix = "ok" := by
  decide +kernel

/-- re-inserting a present id: the beam search finds the id itself, which becomes its own
neighbour — and is pushed once more by the back-link pass: a self link AND a duplicate -/
theorem c18_witness_reinsert_self_link :
    let ix := run wCfg [.ins 1 0 5, .ins 1 0 9]
    adjAt ix.nodes 0 1 = [1, 1] ∧ chkB ix = false ∧ chkC ix = false ∧ chkA ix = true := by
  decide +kernel

/-- removing the entry point: `max_level` is not recomputed and the new entry point is an
arbitrary node, so "the entry point sits on the top level" fails (search still starts there) -/
theorem c18_witness_remove_entry_keeps_max_level :
    let ix := run wCfg [.ins 1 0 0, .ins 2 2 10, .ins 3 0 4, .rem 2 3]
    ix.entry = some 3 ∧ ix.maxLevel = 2 ∧ levelOf ix.nodes 3 = some 0 ∧ chkF2 ix = false ∧
    chkA ix = true ∧ chkF1 ix = true := by
  decide +kernel

/-- the seeded defect "remove deletes only the node's own lists" is caught by (a): without the
purge the neighbour keeps a link to the removed id -/
theorem c18_witness_unpurged_remove_dangles :
    let ix := run wCfg [.ins 1 0 0, .ins 2 0 10]
    let bad : Index Nat := { ix with nodes := eraseKey ix.nodes 2 }
    chkA bad = false ∧ chkA (remove ix 2 0).1 = true := by
  decide +kernel

/-! ## quantisation (integer parts) -/

/-- **scalar quantisation, one step.** For a power-of-two (indeed any positive) step `s` and an
in-range integer `x`, `dequantize (quantize x)` is at most `x` and less than one step below it. -/
theorem c18_sq_roundtrip_within_step (mn : Int) (s : Nat) (hs : 0 < s) (x : Int)
    (h1 : mn ≤ x) (h2 : x ≤ mn + 255 * (s : Int)) :
    sqDequantize mn s (sqQuantize mn s x) ≤ x ∧ x < sqDequantize mn s (sqQuantize mn s x) + s := by
  unfold sqDequantize sqQuantize
  have hlt : ¬ x < mn := by omega
  simp only [hlt, if_false]
  generalize ht : (x - mn).toNat = t
  have htx : (t : Int) = x - mn := by omega
  have hdm := Nat.div_add_mod t s
  have hmod := Nat.mod_lt t hs
  have h3 : t ≤ 255 * s := by omega
  have hq : t / s ≤ 255 := by
    apply Nat.div_le_of_le_mul
    rw [Nat.mul_comm]; exact h3
  rw [Nat.min_eq_right hq, Nat.mul_comm (t / s) s]
  constructor <;> omega

/-- out-of-range inputs are clamped to the end codes -/
theorem c18_sq_clamps (mn : Int) (s : Nat) (x : Int) :
    sqQuantize mn s x ≤ 255 ∧ (x < mn → sqQuantize mn s x = 0) := by
  unfold sqQuantize
  constructor
  · split
    · omega
    · exact Nat.min_le_left _ _
  · intro h; rw [if_pos h]

/-- Hamming distance is symmetric -/
theorem c18_hamming_symm (a b : List Nat) : hammingWords a b = hammingWords b a := by
  induction a generalizing b with
  | nil => cases b <;> simp [hammingWords]
  | cons x xs ih =>
    cases b with
    | nil => simp [hammingWords]
    | cons y ys => simp only [hammingWords]; rw [ih ys, Nat.xor_comm]

theorem xor_eq_zero_iff' (x y : Nat) : x ^^^ y = 0 ↔ x = y := by
  constructor
  · intro h
    have h1 : x ^^^ (x ^^^ y) = x ^^^ 0 := by rw [h]
    rw [← Nat.xor_assoc, Nat.xor_self, Nat.zero_xor, Nat.xor_zero] at h1
    exact h1.symm
  · intro h; rw [h, Nat.xor_self]

theorem popcount_eq_zero (n : Nat) : popcount n = 0 ↔ n = 0 := by
  induction n using Nat.strongRecOn with
  | _ n ih =>
    cases n with
    | zero => simp [popcount]
    | succ m =>
      rw [popcount]
      constructor
      · intro h
        have h1 : (m + 1) % 2 = 0 := by omega
        have h2 : popcount ((m + 1) / 2) = 0 := by omega
        have h3 := (ih ((m + 1) / 2) (by omega)).mp h2
        omega
      · intro h; omega

/-- Hamming distance zero ⇔ equal codes (same number of words) -/
theorem c18_hamming_zero_iff (a b : List Nat) (hl : a.length = b.length) :
    hammingWords a b = 0 ↔ a = b := by
  induction a generalizing b with
  | nil => cases b with
    | nil => simp [hammingWords]
    | cons y ys => simp at hl
  | cons x xs ih =>
    cases b with
    | nil => simp at hl
    | cons y ys =>
      simp only [List.length_cons, Nat.add_right_cancel_iff] at hl
      simp only [hammingWords, Nat.add_eq_zero_iff, popcount_eq_zero, xor_eq_zero_iff', ih ys hl,
        List.cons.injEq]

/-- the bit-level specification: differing positions; symmetric, zero iff equal -/
theorem c18_diffBits_zero_iff (a b : List Bool) (hl : a.length = b.length) :
    diffBits a b = 0 ↔ a = b := by
  induction a generalizing b with
  | nil => cases b with
    | nil => simp [diffBits]
    | cons y ys => simp at hl
  | cons x xs ih =>
    cases b with
    | nil => simp at hl
    | cons y ys =>
      simp only [List.length_cons, Nat.add_right_cancel_iff] at hl
      simp only [diffBits, Nat.add_eq_zero_iff, ih ys hl, List.cons.injEq]
      constructor
      · intro ⟨h1, h2⟩
        refine ⟨?_, h2⟩
        by_cases hxy : x = y
        · exact hxy
        · simp [hxy] at h1
      · intro ⟨h1, h2⟩; simp [h1, h2]

/-! ### Hamming distance on packed words = number of differing sign bits -/

theorem popcount_step (n : Nat) : popcount n = n % 2 + popcount (n / 2) := by
  cases n with
  | zero => simp [popcount]
  | succ m => rw [popcount]

theorem xor_mod_two (x y : Nat) : (x ^^^ y) % 2 = if x % 2 = y % 2 then 0 else 1 := by
  have h := @Nat.xor_mod_two_eq_one x y
  rcases Nat.mod_two_eq_zero_or_one x with hx | hx <;>
  rcases Nat.mod_two_eq_zero_or_one y with hy | hy <;>
  rcases Nat.mod_two_eq_zero_or_one (x ^^^ y) with hz | hz <;>
  simp [hx, hy, hz] at h ⊢

theorem bitsVal_cons_div (b : Bool) (bs : List Bool) : bitsVal (b :: bs) / 2 = bitsVal bs := by
  cases b
  · show (0 + 2 * bitsVal bs) / 2 = bitsVal bs; omega
  · show (1 + 2 * bitsVal bs) / 2 = bitsVal bs; omega

theorem bitsVal_cons_mod (b : Bool) (bs : List Bool) :
    bitsVal (b :: bs) % 2 = if b then 1 else 0 := by
  cases b
  · show (0 + 2 * bitsVal bs) % 2 = 0; omega
  · show (1 + 2 * bitsVal bs) % 2 = 1; omega

theorem popcount_xor_bits (x y : List Bool) (h : x.length = y.length) :
    popcount (bitsVal x ^^^ bitsVal y) = diffBits x y := by
  induction x generalizing y with
  | nil => cases y with
    | nil => simp [bitsVal, diffBits, popcount]
    | cons c cs => simp at h
  | cons b bs ih =>
    cases y with
    | nil => simp at h
    | cons c cs =>
      simp only [List.length_cons, Nat.add_right_cancel_iff] at h
      rw [popcount_step, Nat.xor_div_two, bitsVal_cons_div, bitsVal_cons_div, ih cs h, xor_mod_two,
        bitsVal_cons_mod, bitsVal_cons_mod]
      simp only [diffBits]
      cases b <;> cases c <;> simp

theorem diffBits_take_drop (k : Nat) (x y : List Bool) :
    diffBits x y = diffBits (x.take k) (y.take k) + diffBits (x.drop k) (y.drop k) := by
  induction k generalizing x y with
  | zero => simp [diffBits]
  | succ k ih =>
    cases x with
    | nil => simp [diffBits]
    | cons a as =>
      cases y with
      | nil => simp [diffBits]
      | cons b bs =>
        simp only [List.take_succ_cons, List.drop_succ_cons, diffBits]
        rw [ih as bs]; omega

theorem hamming_pack (n : Nat) (x y : List Bool) (h : x.length = y.length) :
    hammingWords (packWords n x) (packWords n y) + diffBits (x.drop (64 * n)) (y.drop (64 * n)) =
      diffBits x y := by
  induction n generalizing x y with
  | zero => simp [packWords, hammingWords]
  | succ n ih =>
    simp only [packWords, hammingWords]
    have h1 : (x.take 64).length = (y.take 64).length := by simp [List.length_take, h]
    have h2 : (x.drop 64).length = (y.drop 64).length := by simp [List.length_drop, h]
    have e1 := ih (x.drop 64) (y.drop 64) h2
    rw [List.drop_drop, List.drop_drop] at e1
    have e2 : 64 + 64 * n = 64 * (n + 1) := by omega
    have e3 : 64 * n + 64 = 64 * (n + 1) := by omega
    first
      | rw [e2] at e1
      | rw [e3] at e1
    rw [popcount_xor_bits _ _ h1, diffBits_take_drop 64 x y]
    omega

/-- **binary quantisation.** `hamming_distance` on the packed `u64` words of two vectors of the
same dimension is exactly the number of positions whose sign bits differ. -/
theorem c18_hamming_counts_differing_sign_bits (a b : List Int) (h : a.length = b.length) :
    hammingWords (bqQuantize a) (bqQuantize b) = diffBits (signBits a) (signBits b) := by
  unfold bqQuantize
  rw [h]
  have hl : (signBits a).length = (signBits b).length := by simp [signBits, h]
  have e := hamming_pack ((b.length + 63) / 64) (signBits a) (signBits b) hl
  have d1 : (signBits a).drop (64 * ((b.length + 63) / 64)) = [] := by
    apply List.drop_eq_nil_of_le
    simp only [signBits, List.length_map]; omega
  rw [d1] at e
  simp only [diffBits] at e
  omega

/-! ### (f2): the entry point sits on the top level — fresh inserts, entry point never removed -/

/-- `neighbors.len()` of a present node (level + 1) -/
def flen (ns : NodeMap V) (k : Nat) : Option Nat := (find ns k).map (fun n => n.nbrs.length)

theorem flen_setLayer (ns : NodeMap V) (k lc : Nat) (l : List Nat) (k' : Nat) :
    flen (setLayer ns k lc l) k' = flen ns k' := by
  unfold flen setLayer
  rw [find_modify]
  split
  · cases find ns k' with
    | none => rfl
    | some n => simp [List.length_set]
  · rfl

theorem flen_linkStep (id lc mMax : Nat) (acc : NodeMap V × List Nat) (nb k' : Nat) :
    flen (linkStep id lc mMax acc nb).1 k' = flen acc.1 k' := by
  unfold linkStep
  cases find acc.1 nb with
  | none => rfl
  | some n =>
    simp only
    split
    · exact flen_setLayer _ _ _ _ _
    · rfl

theorem flen_linkFold (id lc mMax : Nat) (sel : List Nat) (acc : NodeMap V × List Nat) (k' : Nat) :
    flen (sel.foldl (linkStep id lc mMax) acc).1 k' = flen acc.1 k' := by
  induction sel generalizing acc with
  | nil => rfl
  | cons x xs ih => rw [List.foldl_cons, ih, flen_linkStep]

theorem flen_pruneOne (c : Cfg V) (lc mMax : Nat) (ns : NodeMap V) (nb k' : Nat) :
    flen (pruneOne c lc mMax ns nb) k' = flen ns k' := by
  unfold pruneOne
  cases find ns nb with
  | none => rfl
  | some n =>
    simp only
    split
    · split
      · rfl
      · exact flen_setLayer _ _ _ _ _
    · rfl

theorem flen_pruneFold (c : Cfg V) (lc mMax : Nat) (needs : List Nat) (ns : NodeMap V) (k' : Nat) :
    flen (needs.foldl (pruneOne c lc mMax) ns) k' = flen ns k' := by
  induction needs generalizing ns with
  | nil => rfl
  | cons x xs ih => rw [List.foldl_cons, ih, flen_pruneOne]

theorem flen_layerStep (c : Cfg V) (id : Nat) (v : V) (lc : Nat) (ns : NodeMap V) (cur k' : Nat) :
    flen (layerStep c id v lc ns cur).1 k' = flen ns k' := by
  simp only [layerStep, flen_pruneFold, flen_linkFold, flen_setLayer]

theorem flen_layers (c : Cfg V) (id : Nat) (v : V) (n : Nat) (ns : NodeMap V) (cur k' : Nat) :
    flen (layers c id v n ns cur) k' = flen ns k' := by
  induction n generalizing ns cur with
  | zero => rfl
  | succ lc ih => simp only [layers]; rw [ih, flen_layerStep]

theorem flen_put (ns : NodeMap V) (id level : Nat) (v : V) (k' : Nat) :
    flen (put ns id ⟨v, List.replicate (level + 1) []⟩) k' =
      if id = k' then some (level + 1) else flen ns k' := by
  unfold flen
  rw [find_put]
  split
  · simp
  · rfl

theorem flen_insert (c : Cfg V) (ix : Index V) (id level : Nat) (v : V) (k' : Nat) :
    flen (insert c ix id level v).nodes k' = if id = k' then some (level + 1) else flen ix.nodes k' := by
  unfold HnswBuild.insert
  cases ix.entry with
  | none => exact flen_put _ _ _ _ _
  | some ep =>
    simp only
    split
    · simp only; rw [flen_layers, flen_put]
    · simp only; rw [flen_layers, flen_put]

/-- fresh inserts only, and the entry point is never removed (decidable) -/
def tameRun (c : Cfg V) : Index V → List (Op V) → Bool
  | _, [] => true
  | ix, .ins id level v :: r => !(keys ix.nodes).contains id && tameRun c (insert c ix id level v) r
  | ix, .rem id pick :: r => !(ix.entry == some id) && tameRun c (remove ix id pick).1 r

/-- the entry point has `max_level + 1` layers and nobody has more -/
structure Top (ix : Index V) : Prop where
  inv : Inv ix
  entry_top : ∀ e, ix.entry = some e → flen ix.nodes e = some (ix.maxLevel + 1)
  all_le : ∀ k len, flen ix.nodes k = some len → len ≤ ix.maxLevel + 1

theorem Top.insert_fresh (c : Cfg V) {ix : Index V} (h : Top ix) (id level : Nat) (v : V)
    (hid : id ∉ keys ix.nodes) : Top (insert c ix id level v) := by
  refine ⟨h.inv.insert c id level v, ?_, ?_⟩
  · intro e he
    rw [flen_insert]
    unfold HnswBuild.insert at he ⊢
    cases hent : ix.entry with
    | none =>
      rw [hent] at he
      simp only [Option.some.injEq] at he
      simp [he]
    | some ep =>
      rw [hent] at he
      simp only at he ⊢
      split at he
      · simp only [Option.some.injEq] at he; simp [he, *]
      · rename_i hlt
        simp only [Option.some.injEq] at he
        subst he
        have hne : id ≠ ep := fun hh => hid (hh ▸ h.inv.entry_present ep hent)
        simp only [hne, if_false, hlt]
        exact h.entry_top ep hent
  · intro k len hk
    rw [flen_insert] at hk
    have hmax : (insert c ix id level v).maxLevel = if ix.entry = none then level
        else if ix.maxLevel < level then level else ix.maxLevel := by
      unfold HnswBuild.insert
      cases ix.entry with
      | none => simp
      | some ep => simp only; split <;> simp [*]
    rw [hmax]
    by_cases hik : id = k
    · simp only [hik, if_true, Option.some.injEq] at hk
      subst hk
      split
      · omega
      · split <;> omega
    · simp only [hik, if_false] at hk
      have hle := h.all_le k len hk
      split
      · rename_i hnone
        have := h.inv.entry_none hnone
        rw [this] at hk; simp [flen, find] at hk
      · split <;> omega

theorem Top.remove_other {ix : Index V} (h : Top ix) (id pick : Nat) (hne : ix.entry ≠ some id) :
    Top (remove ix id pick).1 := by
  have hfl : ∀ k len, flen (remove ix id pick).1.nodes k = some len → flen ix.nodes k = some len := by
    intro k len hk
    unfold HnswBuild.remove at hk
    cases hf : find ix.nodes id with
    | none => rw [hf] at hk; exact hk
    | some nd =>
      rw [hf] at hk
      simp only [flen, find_unlink, find_eraseKey] at hk ⊢
      by_cases hki : k = id
      · simp [hki] at hk
      · simp only [hki, if_false] at hk
        cases hfk : find ix.nodes k with
        | none => rw [hfk] at hk; simp at hk
        | some n0 => rw [hfk] at hk; simpa using hk
  have hent : (remove ix id pick).1.entry = ix.entry ∧ (remove ix id pick).1.maxLevel = ix.maxLevel := by
    unfold HnswBuild.remove
    cases find ix.nodes id with
    | none => exact ⟨rfl, rfl⟩
    | some nd => simp [hne]
  refine ⟨h.inv.remove id pick, ?_, ?_⟩
  · intro e he
    rw [hent.1] at he
    rw [hent.2]
    have h0 := h.entry_top e he
    have hei : e ≠ id := fun hh => hne (hh ▸ he)
    unfold HnswBuild.remove
    cases hf : find ix.nodes id with
    | none => exact h0
    | some nd =>
      simp only [flen, find_unlink, find_eraseKey, hei, if_false] at h0 ⊢
      cases hfe : find ix.nodes e with
      | none => rw [hfe] at h0; simp at h0
      | some n0 => rw [hfe] at h0; simpa using h0
  · intro k len hk
    rw [hent.2]
    exact h.all_le k len (hfl k len hk)

theorem Top.foldl (c : Cfg V) (ops : List (Op V)) {ix : Index V} (h : Top ix)
    (hf : tameRun c ix ops = true) : Top (ops.foldl (HnswBuild.step c) ix) := by
  induction ops generalizing ix with
  | nil => exact h
  | cons op rest ih =>
    cases op with
    | ins id level v =>
      simp only [tameRun, Bool.and_eq_true, Bool.not_eq_true', List.contains_eq_mem,
        decide_eq_false_iff_not] at hf
      exact ih (h.insert_fresh c id level v hf.1) hf.2
    | rem id pick =>
      simp only [tameRun, Bool.and_eq_true, Bool.not_eq_true', beq_eq_false_iff_ne, ne_eq] at hf
      exact ih (h.remove_other id pick hf.1) hf.2

/-- **C18 (construction, f2), partial.** For every history that inserts only ids not present at
that moment and never removes the current entry point (decidable: `tameRun`), the entry point
has level `max_level` and no present node has a greater level.  Missing: `remove(entry point)`
(keeps `max_level`, picks an arbitrary node: `c18_witness_remove_entry_keeps_max_level`) and a
re-insert of the entry point with a lower level. -/
theorem c18_build_entry_on_top_partial (c : Cfg V) (ops : List (Op V))
    (hf : tameRun c HnswBuild.empty ops = true) :
    (∀ e, (run c ops).entry = some e → levelOf (run c ops).nodes e = some (run c ops).maxLevel) ∧
    (∀ k lv, levelOf (run c ops).nodes k = some lv → lv ≤ (run c ops).maxLevel) := by
  have h : Top (run c ops) :=
    Top.foldl c ops ⟨Inv.empty, fun e he => by simp [HnswBuild.empty] at he,
      fun k len hk => by simp [HnswBuild.empty, flen, find] at hk⟩ hf
  constructor
  · intro e he
    have := h.entry_top e he
    unfold flen at this
    unfold levelOf
    cases hfe : find (run c ops).nodes e with
    | none => rw [hfe] at this; simp at this
    | some n =>
      rw [hfe] at this
      simp only [Option.map_some, Option.some.injEq] at this ⊢
      omega
  · intro k lv hk
    unfold levelOf at hk
    cases hfk : find (run c ops).nodes k with
    | none => rw [hfk] at hk; simp at hk
    | some n =>
      rw [hfk] at hk
      simp only [Option.map_some, Option.some.injEq] at hk
      have := h.all_le k n.nbrs.length (by simp [flen, hfk])
      omega

/-- in the state with a self link and a duplicate (re-insert of a present id) a search still
returns each id once: the `visited` set of `search_layer` makes distinctness independent of the
graph's shape (`c18_search_sound` has no hypothesis on the graph) -/
theorem c18_witness_reinsert_search_distinct :
    let ix := run wCfg [.ins 1 0 5, .ins 2 0 7, .ins 1 0 9]
    chkB ix = false ∧
    (searchWithEf ix.toGraph (dq wCfg ix.nodes 9) 5 8 10).map Prod.fst = [1] := by
  decide +kernel

/-! ### (e): a node is listed on layer `i` only if it has more than `i` layers — same histories -/

/-- node `x` has more than `j` layers (level ≥ j) under the length table `F` -/
def PL (F : Nat → Option Nat) (j x : Nat) : Prop := ∃ len, F x = some len ∧ j < len

theorem PL_mono {F : Nat → Option Nat} {j j' x : Nat} (h : PL F j x) (hj : j' ≤ j) : PL F j' x := by
  obtain ⟨len, h1, h2⟩ := h
  exact ⟨len, h1, by omega⟩

theorem reach_P {adj : Nat → List Nat} {P : Nat → Prop} {a b : Nat} (h : ReachR (adjRel adj) a b)
    (hadj : ∀ x, ∀ y ∈ adj x, P y) (ha : P a) : P b := by
  induction h with
  | refl => exact ha
  | tail _ hs _ => exact hadj _ _ hs

theorem adj_PL {F : Nat → Option Nat} {ns : NodeMap V} {lc : Nat}
    (h : LOK (fun _ i l => ∀ x ∈ l, PL F i x) ns) : ∀ x, ∀ y ∈ adjAt ns lc x, PL F lc y := by
  intro x y hy
  obtain ⟨n, l, hf, hg, hyl⟩ := adjAt_mem hy
  exact h x n hf lc l hg y hyl

theorem headD_P {P : Nat → Prop} {l : List Nat} {d : Nat} (hl : ∀ x ∈ l, P x) (hd : P d) :
    P (l.headD d) := by
  cases l with
  | nil => exact hd
  | cons a as => exact hl a (List.mem_cons_self ..)

theorem level_layerStep (c : Cfg V) (id : Nat) (v : V) (lc : Nat) (ns : NodeMap V) (cur : Nat)
    (F : Nat → Option Nat) (hid : PL F lc id) (hcur : PL F lc cur)
    (h : LOK (fun _ i l => ∀ x ∈ l, PL F i x) ns) :
    PL F lc (layerStep c id v lc ns cur).2 ∧
    LOK (fun _ i l => ∀ x ∈ l, PL F i x) (layerStep c id v lc ns cur).1 := by
  have hs := searchLayer_sound (adjAt ns lc) (dq c ns v) c.efc c.fuel cur
  have hsel : ∀ x ∈ selectHeur c ns (dq c ns v)
      (searchLayer (adjAt ns lc) (dq c ns v) c.efc c.fuel cur) (if lc = 0 then c.mMax else c.m),
      PL F lc x := by
    intro x hx
    exact reach_P (hs.2.1 x (selectHeur_mem c ns _ _ _ x hx).2) (adj_PL h) hcur
  constructor
  · simp only [layerStep]
    exact headD_P hsel hcur
  · simp only [layerStep]
    refine LOK_pruneFold (R := fun _ i l => ∀ x ∈ l, PL F i x) c lc _ ?_ _ _ ?_
    · intro nb old key ho x hx
      exact ho x ((sortBy_perm key old).mem_iff.mp (List.mem_of_mem_take hx))
    · refine LOK_linkFold (R := fun _ i l => ∀ x ∈ l, PL F i x) id lc _ ?_ _ (_, []) ?_
      · intro nb old ho x hx
        rw [List.mem_append, List.mem_singleton] at hx
        cases hx with
        | inl hx => exact ho x hx
        | inr hx => rw [hx]; exact hid
      · exact LOK_setLayer h id lc _ hsel

theorem level_layers (c : Cfg V) (id : Nat) (v : V) (F : Nat → Option Nat) :
    ∀ (n : Nat) (ns : NodeMap V) (cur : Nat), (∀ j, j < n → PL F j id) → (∀ j, j < n → PL F j cur) →
      LOK (fun _ i l => ∀ x ∈ l, PL F i x) ns →
      LOK (fun _ i l => ∀ x ∈ l, PL F i x) (layers c id v n ns cur) := by
  intro n
  induction n with
  | zero => intro ns cur _ _ h; exact h
  | succ lc ih =>
    intro ns cur hid hcur h
    simp only [layers]
    obtain ⟨g0, g1⟩ := level_layerStep c id v lc ns cur F (hid lc (Nat.lt_succ_self _))
      (hcur lc (Nat.lt_succ_self _)) h
    exact ih _ _ (fun j hj => hid j (Nat.lt_succ_of_lt hj))
      (fun j hj => PL_mono g0 (Nat.le_of_lt hj)) g1

theorem level_descend (c : Cfg V) (ns : NodeMap V) (v : V) (lo : Nat) (F : Nat → Option Nat)
    (h : LOK (fun _ i l => ∀ x ∈ l, PL F i x) ns) :
    ∀ (n cur : Nat), PL F (lo + n) cur → PL F lo (descendFrom c ns v lo n cur) := by
  intro n
  induction n with
  | zero => intro cur hc; exact hc
  | succ m ih =>
    intro cur hc
    simp only [descendFrom]
    apply ih
    have h1 : PL F (lo + m + 1) cur := PL_mono hc (by omega)
    have h2 := reach_P (searchLayerSingle_reach (adjAt ns (lo + m + 1)) (dq c ns v) c.fuel cur)
      (adj_PL h) h1
    exact PL_mono h2 (by omega)

structure Lvl (ix : Index V) : Prop where
  top : Top ix
  lv : LOK (fun _ i l => ∀ x ∈ l, PL (flen ix.nodes) i x) ix.nodes

theorem Lvl.insert_fresh (c : Cfg V) {ix : Index V} (h : Lvl ix) (id level : Nat) (v : V)
    (hid : id ∉ keys ix.nodes) : Lvl (insert c ix id level v) := by
  refine ⟨h.top.insert_fresh c id level v hid, ?_⟩
  have hF : flen (insert c ix id level v).nodes =
      fun k => if id = k then some (level + 1) else flen ix.nodes k :=
    funext (flen_insert c ix id level v)
  rw [hF]
  have hpres : ∀ x len, flen ix.nodes x = some len → id ≠ x := by
    intro x len hx he
    subst he
    apply hid
    rw [← find_isSome_iff]
    unfold flen at hx
    cases hfx : find ix.nodes id with
    | none => rw [hfx] at hx; simp at hx
    | some n => rfl
  have hmono : ∀ (j x : Nat), PL (flen ix.nodes) j x →
      PL (fun k => if id = k then some (level + 1) else flen ix.nodes k) j x := by
    intro j x ⟨len, h1, h2⟩
    exact ⟨len, by simp only [hpres x len h1, if_false]; exact h1, h2⟩
  have hput : LOK (fun _ i l => ∀ x ∈ l,
      PL (fun k => if id = k then some (level + 1) else flen ix.nodes k) i x)
      (put ix.nodes id ⟨v, List.replicate (level + 1) []⟩) :=
    LOK_put_empty (LOK_mono h.lv (fun k i l hl x hx => hmono i x (hl x hx))) id level v
      (fun _ => by simp)
  have hidF : ∀ j, j < level + 1 →
      PL (fun k => if id = k then some (level + 1) else flen ix.nodes k) j id :=
    fun j hj => ⟨level + 1, by simp, hj⟩
  unfold HnswBuild.insert
  cases he : ix.entry with
  | none => exact hput
  | some ep =>
    simp only
    have hepF : PL (fun k => if id = k then some (level + 1) else flen ix.nodes k) ix.maxLevel ep :=
      hmono _ _ ⟨ix.maxLevel + 1, h.top.entry_top ep he, Nat.lt_succ_self _⟩
    have hcur : ∀ j, j < min level ix.maxLevel + 1 →
        PL (fun k => if id = k then some (level + 1) else flen ix.nodes k) j
          (descendFrom c (put ix.nodes id ⟨v, List.replicate (level + 1) []⟩) v level
            (ix.maxLevel - level) ep) := by
      intro j hj
      by_cases hle : level ≤ ix.maxLevel
      · have h1 := level_descend c _ v level _ hput (ix.maxLevel - level) ep
          (PL_mono hepF (by omega))
        exact PL_mono h1 (by omega)
      · have h0 : ix.maxLevel - level = 0 := by omega
        rw [h0]
        simp only [descendFrom]
        exact PL_mono hepF (by omega)
    have hl := level_layers c id v _ (min level ix.maxLevel + 1) _ _
      (fun j hj => hidF j (by omega)) hcur hput
    split
    · exact hl
    · exact hl

theorem Lvl.remove_other {ix : Index V} (h : Lvl ix) (id pick : Nat) (hne : ix.entry ≠ some id) :
    Lvl (remove ix id pick).1 := by
  refine ⟨h.top.remove_other id pick hne, ?_⟩
  cases hf : find ix.nodes id with
  | none =>
    have hsame : (remove ix id pick).1 = ix := by unfold HnswBuild.remove; rw [hf]
    rw [hsame]; exact h.lv
  | some nd =>
    have hflen : ∀ x, x ≠ id → flen (remove ix id pick).1.nodes x = flen ix.nodes x := by
      intro x hx
      unfold HnswBuild.remove
      rw [hf]
      simp only [flen, find_unlink, find_eraseKey, hx, if_false]
      cases find ix.nodes x with
      | none => rfl
      | some n0 => simp
    intro k n hfk i l hg x hx
    unfold HnswBuild.remove at hfk
    rw [hf] at hfk
    simp only at hfk
    rw [find_unlink, find_eraseKey] at hfk
    by_cases hk : k = id
    · simp [hk] at hfk
    · simp only [hk, if_false] at hfk
      cases hfn : find ix.nodes k with
      | none => rw [hfn] at hfk; simp at hfk
      | some n0 =>
        rw [hfn] at hfk
        simp only [Option.map_some, Option.some.injEq] at hfk
        subst hfk
        simp only [List.getElem?_map] at hg
        cases hg0 : n0.nbrs[i]? with
        | none => rw [hg0] at hg; simp at hg
        | some l0 =>
          rw [hg0] at hg
          simp only [Option.map_some, Option.some.injEq] at hg
          subst hg
          rw [List.mem_filter] at hx
          have hxi : x ≠ id := by simpa using hx.2
          obtain ⟨len, h1, h2⟩ := h.lv k n0 hfn i l0 hg0 x hx.1
          exact ⟨len, by rw [hflen x hxi]; exact h1, h2⟩

theorem Lvl.foldl (c : Cfg V) (ops : List (Op V)) {ix : Index V} (h : Lvl ix)
    (hf : tameRun c ix ops = true) : Lvl (ops.foldl (HnswBuild.step c) ix) := by
  induction ops generalizing ix with
  | nil => exact h
  | cons op rest ih =>
    cases op with
    | ins id level v =>
      simp only [tameRun, Bool.and_eq_true, Bool.not_eq_true', List.contains_eq_mem,
        decide_eq_false_iff_not] at hf
      exact ih (h.insert_fresh c id level v hf.1) hf.2
    | rem id pick =>
      simp only [tameRun, Bool.and_eq_true, Bool.not_eq_true', beq_eq_false_iff_ne, ne_eq] at hf
      exact ih (h.remove_other id pick hf.1) hf.2

/-- **C18 (construction, e), partial.** For every history that inserts only ids not present at
that moment and never removes the current entry point (`tameRun`), a node appears in a neighbour
list of layer `i` only if its own level is at least `i`.  Missing: re-inserting a present id with
a lower level (old links stay on its former upper layers) and `remove(entry point)` (later
inserts link to the arbitrary new entry point on layers above its level). -/
theorem c18_build_layer_membership_partial (c : Cfg V) (ops : List (Op V))
    (hf : tameRun c HnswBuild.empty ops = true) :
    ∀ k n, find (run c ops).nodes k = some n → ∀ i l, n.nbrs[i]? = some l → ∀ x ∈ l,
      ∃ lv, levelOf (run c ops).nodes x = some lv ∧ i ≤ lv := by
  have h : Lvl (run c ops) :=
    Lvl.foldl c ops ⟨⟨Inv.empty, fun e he => by simp [HnswBuild.empty] at he,
      fun k len hk => by simp [HnswBuild.empty, flen, find] at hk⟩,
      fun k n hf => by simp [HnswBuild.empty, find] at hf⟩ hf
  intro k n hfk i l hg x hx
  obtain ⟨len, h1, h2⟩ := h.lv k n hfk i l hg x hx
  unfold flen at h1
  unfold levelOf
  cases hfx : find (run c ops).nodes x with
  | none => rw [hfx] at h1; simp at h1
  | some nx =>
    rw [hfx] at h1
    simp only [Option.map_some, Option.some.injEq] at h1
    exact ⟨nx.nbrs.length - 1, by simp, by omega⟩

end Grafeo.HnswBuild
