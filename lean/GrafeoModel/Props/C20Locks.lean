import GrafeoModel.Model.Locks
import GrafeoModel.Generated.LockGraph

/-!
# C20, deadlock clause — a ranked lock order admits no deadlock

`no_deadlock_of_rank`: for **every** set of threads whose nested acquisitions are edges of a graph
that a rank function orders strictly, no waiting cycle exists.  `c20_lock_order_acyclic`: the graph
regenerated from the current source has such a rank (the certificate is regenerated with it).
-/

namespace Grafeo.Locks

theorem exists_max_wanted (rank : List (String × Nat)) (ts : List Thread) (hne : ts ≠ [])
    (hw : ∀ t ∈ ts, ∃ w, t.wants = some w) :
    ∃ t ∈ ts, ∃ w, t.wants = some w ∧ ∀ t' ∈ ts, ∀ w', t'.wants = some w' → rankOf rank w' ≤ rankOf rank w := by
  induction ts with
  | nil => exact absurd rfl hne
  | cons t rest ih =>
    obtain ⟨w, hwt⟩ := hw t List.mem_cons_self
    by_cases hr : rest = []
    · subst hr
      refine ⟨t, List.mem_cons_self, w, hwt, ?_⟩
      intro t' ht' w' hw'
      simp only [List.mem_singleton] at ht'
      subst ht'
      rw [hwt] at hw'; cases hw'; exact Nat.le_refl _
    · obtain ⟨m, hm, wm, hwm, hmax⟩ := ih hr (fun x hx => hw x (List.mem_cons_of_mem _ hx))
      by_cases hcmp : rankOf rank wm ≤ rankOf rank w
      · refine ⟨t, List.mem_cons_self, w, hwt, ?_⟩
        intro t' ht' w' hw'
        rcases List.mem_cons.mp ht' with rfl | ht'
        · rw [hwt] at hw'; cases hw'; exact Nat.le_refl _
        · exact Nat.le_trans (hmax t' ht' w' hw') hcmp
      · refine ⟨m, List.mem_cons_of_mem _ hm, wm, hwm, ?_⟩
        intro t' ht' w' hw'
        rcases List.mem_cons.mp ht' with rfl | ht'
        · rw [hwt] at hw'; cases hw'; omega
        · exact hmax t' ht' w' hw'

/-- F (deadlock clause, abstract): if every edge of the lock graph goes strictly upwards in rank and
every thread's nested acquisition is an edge, then no set of threads is deadlocked — for every
number of threads and every assignment of held and wanted locks. -/
theorem no_deadlock_of_rank (edges : List (String × String × String)) (rank : List (String × Nat))
    (hr : edgesRespectRank edges rank = true) (ts : List Thread)
    (hresp : ∀ t ∈ ts, Respects edges t) : ¬ Deadlocked ts := by
  rintro ⟨hne, hdl⟩
  obtain ⟨t, ht, w, hwt, hmax⟩ :=
    exists_max_wanted rank ts hne (fun x hx => by obtain ⟨w, h, _⟩ := hdl x hx; exact ⟨w, h⟩)
  obtain ⟨w0, hw0, t', ht', hheld⟩ := hdl t ht
  rw [hwt] at hw0; cases hw0
  obtain ⟨w', hw', _⟩ := hdl t' ht'
  obtain ⟨f, hedge⟩ := hresp t' ht' w' hw' w hheld
  have hlt : rankOf rank w < rankOf rank w' := by
    unfold edgesRespectRank at hr
    have := List.all_eq_true.mp hr (w, w', f) hedge
    simpa using this
  have := hmax t' ht' w' hw'
  omega

/-- F (deadlock clause, this tree): every nested lock acquisition the extraction finds in
LpgStore, RdfStore, TransactionManager, BufferManager, QueryCache and Catalog goes upwards in the
regenerated rank: the lock graph of the current source is acyclic. -/
theorem c20_lock_order_acyclic :
    edgesRespectRank Grafeo.Generated.lockEdges Grafeo.Generated.lockRank = true := by decide

/-- F: hence no deadlock among threads that acquire locks as the extracted graph says. -/
theorem c20_no_deadlock (ts : List Thread) (hresp : ∀ t ∈ ts, Respects Grafeo.Generated.lockEdges t) :
    ¬ Deadlocked ts :=
  no_deadlock_of_rank _ _ c20_lock_order_acyclic ts hresp

/-- N: a thread inside `delete_node_at_epoch` (holds the node table, wants the label index)
respects the graph, and the hypothesis is not vacuous. -/
example : Respects Grafeo.Generated.lockEdges ⟨["LpgStore.nodes"], some "LpgStore.label_index"⟩ := by
  intro w hw h hh
  simp only [Option.some.injEq] at hw
  subst hw
  simp only [List.mem_singleton] at hh
  subst hh
  exact ⟨"LpgStore::delete_node_at_epoch", by decide⟩

/-- W: the order the code had before the repairs — `add_label` took the node table while holding
the label index, `delete_node` the reverse — has no rank: two threads deadlock. -/
theorem c20_locks_asis_deadlock :
    Deadlocked [⟨["LpgStore.label_index"], some "LpgStore.nodes"⟩, ⟨["LpgStore.nodes"], some "LpgStore.label_index"⟩] := by
  refine ⟨by simp, ?_⟩
  intro t ht
  simp only [List.mem_cons, List.mem_nil_iff, or_false] at ht
  rcases ht with rfl | rfl
  · exact ⟨"LpgStore.nodes", rfl, ⟨["LpgStore.nodes"], some "LpgStore.label_index"⟩, by simp, by simp⟩
  · exact ⟨"LpgStore.label_index", rfl, ⟨["LpgStore.label_index"], some "LpgStore.nodes"⟩, by simp, by simp⟩

end Grafeo.Locks
