import GrafeoModel.Proofs.WalLemmas

/-!
# C06 — a crash at any point loses at most the unsynced tail, and never corrupts

Byte-level theorems about the log format and the replay rule. They hold for **every** list of
records, **every** payload content, **every** truncation length `k` and every checksum function
`crc` (32-bit valued); the single fact about CRC-32 that the bit-flip theorem needs is an
explicit hypothesis, listed in the trusted base.
-/

namespace Grafeo.Wal
open Grafeo.Codec

/-- F: reading back a fully written log returns every record. -/
theorem c06_parse_encode (crc : List Nat → Nat) (dec : List Nat → Bool) (ps : List (List Nat))
    (hg : ∀ p ∈ ps, Good crc dec p) :
    parseFile crc dec (encodeAll crc ps).length (encodeAll crc ps) = ps := by
  have := parse_take crc dec ps hg (encodeAll crc ps).length (encodeAll crc ps).length (Nat.le_refl _)
  rw [List.take_length] at this
  rw [this, wholeFrames_all, List.take_length]

/-- F (crash = any byte prefix of the file): the records recovered from a log cut at **any**
byte length `k` are a prefix of the records written — exactly those whose frames were written
completely. A torn frame is never returned. -/
theorem c06_truncation_gives_record_prefix (crc : List Nat → Nat) (dec : List Nat → Bool)
    (ps : List (List Nat)) (hg : ∀ p ∈ ps, Good crc dec p) (k : Nat) :
    parseFile crc dec ((encodeAll crc ps).take k).length ((encodeAll crc ps).take k)
      = ps.take (wholeFrames k ps) := by
  by_cases hk : k ≤ (encodeAll crc ps).length
  · have hl : ((encodeAll crc ps).take k).length = k := by
      rw [List.length_take]; omega
    rw [hl]
    exact parse_take crc dec ps hg k k (Nat.le_refl _)
  · have hk' : (encodeAll crc ps).length ≤ k := Nat.le_of_lt (Nat.lt_of_not_le hk)
    rw [List.take_of_length_le hk']
    have := parse_take crc dec ps hg k (encodeAll crc ps).length
    -- with k beyond the end the file is complete
    have e : parseFile crc dec (encodeAll crc ps).length (encodeAll crc ps) = ps := c06_parse_encode crc dec ps hg
    rw [e]
    -- and every frame fits
    have hw : ∀ (qs : List (List Nat)) (k : Nat), (encodeAll crc qs).length ≤ k → wholeFrames k qs = qs.length := by
      intro qs
      induction qs with
      | nil => intro k _; rfl
      | cons q qs ih =>
        intro k hk
        rw [encodeAll_cons, List.length_append, frame_length] at hk
        simp only [wholeFrames]
        rw [if_pos (by omega), ih _ (by omega)]
        simp; omega
    rw [hw ps k hk', List.take_length]

theorem encodeAll_append (crc : List Nat → Nat) (as bs : List (List Nat)) :
    encodeAll crc (as ++ bs) = encodeAll crc as ++ encodeAll crc bs := by
  simp [encodeAll]

/-- F (crash, reopen, keep writing): the log is cut at **any** byte length `k`, the database is
reopened (which cuts the file at its last complete record) and goes on appending `pb`: recovery
then returns the records that were completely written before the crash followed by **all** of
`pb` — nothing written after the crash is lost behind a torn frame. -/
theorem c06_append_after_crash_recovered (crc : List Nat → Nat) (dec : List Nat → Bool)
    (pa pb : List (List Nat)) (ha : ∀ p ∈ pa, Good crc dec p) (hb : ∀ p ∈ pb, Good crc dec p) (k : Nat) :
    let bytes := reopenBytes crc dec ((encodeAll crc pa).take k) ++ encodeAll crc pb
    parseFile crc dec bytes.length bytes = pa.take (wholeFrames k pa) ++ pb := by
  intro bytes
  have h1 : reopenBytes crc dec ((encodeAll crc pa).take k) = encodeAll crc (pa.take (wholeFrames k pa)) := by
    unfold reopenBytes
    rw [c06_truncation_gives_record_prefix crc dec pa ha k]
  have hb' : bytes = encodeAll crc (pa.take (wholeFrames k pa) ++ pb) := by
    show reopenBytes crc dec ((encodeAll crc pa).take k) ++ encodeAll crc pb = _
    rw [h1, encodeAll_append]
  rw [hb']
  apply c06_parse_encode
  intro p hp
  rcases List.mem_append.mp hp with h | h
  · exact ha p (List.mem_of_mem_take h)
  · exact hb p h

/-- F: everything whose frame lies before the cut survives (at least the synced part). -/
theorem c06_synced_prefix_survives (crc : List Nat → Nat) (dec : List Nat → Bool)
    (pre post : List (List Nat)) (hg : ∀ p ∈ pre ++ post, Good crc dec p) (k : Nat)
    (hk : (encodeAll crc pre).length ≤ k) :
    pre <+: parseFile crc dec ((encodeAll crc (pre ++ post)).take k).length ((encodeAll crc (pre ++ post)).take k) := by
  rw [c06_truncation_gives_record_prefix crc dec _ hg k]
  have hw : ∀ (qs : List (List Nat)) (k : Nat), (encodeAll crc qs).length ≤ k →
      qs.length ≤ wholeFrames k (qs ++ post) := by
    intro qs
    induction qs with
    | nil => intro k _; simp
    | cons q qs ih =>
      intro k hk
      rw [encodeAll_cons, List.length_append, frame_length] at hk
      simp only [List.cons_append, wholeFrames]
      rw [if_pos (by omega)]
      have := ih (k - (q.length + 8)) (by omega)
      simp; omega
  have hle := hw pre k hk
  refine ⟨(post.take (wholeFrames k (pre ++ post) - pre.length)), ?_⟩
  rw [List.take_append]
  rw [List.take_of_length_le hle]

/-- F (under the stated CRC hypothesis): a frame whose payload was altered in place — same
length, checksum no longer matching — stops the file there: it and everything after it is
never applied, everything before it is. -/
theorem c06_corrupt_frame_never_applied (crc : List Nat → Nat) (dec : List Nat → Bool)
    (pre : List (List Nat)) (p p' rest : List Nat)
    (hg : ∀ q ∈ pre, Good crc dec q) (hp : Good crc dec p)
    (hlen : p'.length = p.length) (hcrc : crc p' ≠ crc p) (fuel : Nat)
    (hf : (encodeAll crc pre).length + 1 ≤ fuel) :
    parseFile crc dec fuel
      (encodeAll crc pre ++ (leBytes 4 p.length ++ p' ++ leBytes 4 (crc p)) ++ rest) = pre := by
  induction pre generalizing fuel with
  | nil =>
    simp only [encodeAll, List.map_nil, List.flatten_nil, List.nil_append]
    cases fuel with
    | zero => simp at hf
    | succ fuel =>
      have l4 : (leBytes 4 p.length).length = 4 := leBytes_length _ _
      have c4 : (leBytes 4 (crc p)).length = 4 := leBytes_length _ _
      have e0 : leBytes 4 p.length ++ p' ++ leBytes 4 (crc p) ++ rest =
          leBytes 4 p.length ++ (p' ++ (leBytes 4 (crc p) ++ rest)) := by simp [List.append_assoc]
      rw [e0]
      unfold parseFile
      rw [if_neg (by simp [l4])]
      simp only [take_append_len _ _ 4 l4, drop_append_len _ _ 4 l4]
      rw [ofLe_leBytes 4 _ (by rw [← u32_pow]; exact hp.len)]
      rw [if_neg (by simp [hlen])]
      simp only [take_append_len _ _ p.length hlen, drop_append_len _ _ p.length hlen]
      rw [if_neg (by simp [c4])]
      simp only [take_append_len _ _ 4 c4]
      rw [ofLe_leBytes 4 _ (by rw [← u32_pow]; exact hp.crc)]
      rw [if_pos (fun e => hcrc e.symm)]
  | cons q qs ih =>
    rw [encodeAll_cons] at hf ⊢
    rw [List.length_append, frame_length] at hf
    cases fuel with
    | zero => omega
    | succ fuel =>
      have : frame crc q ++ encodeAll crc qs ++ (leBytes 4 p.length ++ p' ++ leBytes 4 (crc p)) ++ rest =
          frame crc q ++ (encodeAll crc qs ++ (leBytes 4 p.length ++ p' ++ leBytes 4 (crc p)) ++ rest) := by
        simp [List.append_assoc]
      rw [this, parse_frame_append crc dec q _ fuel (hg q (by simp))]
      rw [ih (fun x hx => hg x (by simp [hx])) fuel (by omega)]

/-- F: the commit rule is monotone — replaying a prefix of the record stream returns a prefix
of what replaying the whole stream returns: a crash never re-orders or invents committed work. -/
theorem c06_replay_prefix (kind : α → Kind) (rs : List α) (j : Nat) :
    replay kind (rs.take j) <+: replay kind rs := by
  unfold replay
  conv => rhs; rw [← List.take_append_drop j rs]
  rw [List.foldl_append]
  exact foldl_committed_grows kind _ _

/-- F: records not followed by a commit marker are never returned. -/
theorem c06_uncommitted_tail_dropped (kind : α → Kind) (rs tail : List α)
    (ht : ∀ r ∈ tail, kind r = .data) : replay kind (rs ++ tail) = replay kind rs := by
  unfold replay
  rw [List.foldl_append]
  generalize rs.foldl (replayStep kind) ([], []) = st
  induction tail generalizing st with
  | nil => rfl
  | cons r t ih =>
    simp only [List.foldl_cons]
    rw [ih (fun x hx => ht x (by simp [hx]))]
    simp [replayStep, ht r (by simp)]

/-- W: a checkpoint marker discards every record written since the last commit marker —
on the unchanged tree `GrafeoDB` writes data records without commit markers until `close`,
so an explicit `wal_checkpoint()` loses everything written before it in that session
(known finding `C05-checkpoint-discards-uncommitted`, replayed against the implementation). -/
theorem c06_checkpoint_discards_pending_witness :
    replay (fun (r : Nat) => if r = 0 then Kind.checkpoint else if r = 1 then .commit else .data)
      [5, 6, 0, 7, 1] = [0, 7, 1] := by decide

/-- N: non-vacuity of the truncation theorem: a two-record log cut inside the second frame. -/
example : parseFile (fun _ => 7) (fun _ => true) 17
    ((encodeAll (fun _ => 7) [[1, 2], [3]]).take 17) = [[1, 2]] := by decide

end Grafeo.Wal
