import GrafeoModel.Props.C08

/-!
# C08 — multiplicities: the pipeline's bindings are a permutation of the enumeration's

`c08_pipeline_bindings_eq_enumeration` (Props/C08.lean) says the two sides have the same members.
Here: the same members **the same number of times** — `Pipe.bindings g q` is a permutation of
`Spec.bindings g q` for every graph with unique node identifiers and every chain pattern; hence
`count(*)`, and every clause that does not depend on row order, agree.
-/

namespace Grafeo.Query

/-! ### list helpers -/

theorem flatMap_perm_pointwise {α β : Type} (l : List α) (f g : α → List β)
    (h : ∀ a ∈ l, (f a).Perm (g a)) : (l.flatMap f).Perm (l.flatMap g) := by
  induction l with
  | nil => exact List.Perm.refl _
  | cons x xs ih =>
    simp only [List.flatMap_cons]
    exact List.Perm.append (h x List.mem_cons_self) (ih (fun a ha => h a (List.mem_cons_of_mem _ ha)))

theorem flatMap_append_fun {α β : Type} (l : List α) (f g : α → List β) :
    (l.flatMap (fun a => f a ++ g a)).Perm (l.flatMap f ++ l.flatMap g) := by
  induction l with
  | nil => exact List.Perm.refl _
  | cons x xs ih =>
    simp only [List.flatMap_cons]
    -- (f x ++ g x) ++ R  ~  (f x ++ F) ++ (g x ++ G)   with R ~ F ++ G
    have h1 : ((f x ++ g x) ++ xs.flatMap (fun a => f a ++ g a)).Perm ((f x ++ g x) ++ (xs.flatMap f ++ xs.flatMap g)) :=
      List.Perm.append (List.Perm.refl _) ih
    refine h1.trans ?_
    rw [List.append_assoc, List.append_assoc]
    refine List.Perm.append (List.Perm.refl _) ?_
    rw [← List.append_assoc, ← List.append_assoc]
    exact List.Perm.append List.perm_append_comm (List.Perm.refl _)

theorem flatMap_nil_fun {α β : Type} (l : List α) : l.flatMap (fun _ => ([] : List β)) = [] := by
  induction l with
  | nil => rfl
  | cons x xs ih => simp [List.flatMap_cons, ih]

theorem flatMap_swap {α β γ : Type} (l1 : List α) (l2 : List β) (f : α → β → List γ) :
    (l1.flatMap (fun a => l2.flatMap (f a))).Perm (l2.flatMap (fun b => l1.flatMap (fun a => f a b))) := by
  induction l1 with
  | nil => simp [flatMap_nil_fun]
  | cons x xs ih =>
    simp only [List.flatMap_cons]
    exact (List.Perm.append (List.Perm.refl _) ih).trans (flatMap_append_fun l2 _ _).symm

/-- `(l.filter p).map f |>.filterMap k` as one pass -/
theorem filterMap_map_filter {α β γ : Type} (l : List α) (p : α → Bool) (f : α → β) (k : β → Option γ) :
    ((l.filter p).map f).filterMap k = l.flatMap (fun a => if p a then (k (f a)).toList else []) := by
  induction l with
  | nil => rfl
  | cons x xs ih =>
    simp only [List.filter_cons, List.flatMap_cons]
    cases hp : p x with
    | false => simp [ih]
    | true =>
      simp only [if_true, List.map_cons, List.filterMap_cons]
      cases hk : k (f x) with
      | none => simp [ih]
      | some y => simp [ih]

/-! ### one hop -/

/-- what node id `cid` contributes to the extensions of `b` -/
def ext (g : Graph) (h : Hop) (b : Binding) (cid : Nat) : List Binding :=
  match g.node? cid with
  | some c => if labelOk h.target c then [b ++ [c]] else []
  | none => []

theorem pick_none (l : List Node) (h : Hop) (b : Binding) (cid : Nat) (hn : ∀ y ∈ l, y.id ≠ cid) :
    l.flatMap (fun c => if (c.id == cid && labelOk h.target c) then [b ++ [c]] else []) = [] := by
  induction l with
  | nil => rfl
  | cons x xs ih =>
    have hx : (x.id == cid) = false := by simp [hn x List.mem_cons_self]
    simp only [List.flatMap_cons, hx, Bool.false_and, Bool.false_eq_true, if_false, List.nil_append]
    exact ih (fun y hy => hn y (List.mem_cons_of_mem _ hy))

theorem pick_eq (g : Graph) (hu : UniqueIds g) (h : Hop) (b : Binding) (cid : Nat) :
    g.nodes.flatMap (fun c => if (c.id == cid && labelOk h.target c) then [b ++ [c]] else []) = ext g h b cid := by
  unfold ext Graph.node?
  unfold UniqueIds at hu
  generalize g.nodes = l at hu
  induction l with
  | nil => rfl
  | cons x xs ih =>
    rw [List.pairwise_cons] at hu
    simp only [List.flatMap_cons, List.find?_cons]
    cases hx : (x.id == cid) with
    | true =>
      have hid : x.id = cid := beq_iff_eq.mp hx
      have hrest : xs.flatMap (fun c => if (c.id == cid && labelOk h.target c) then [b ++ [c]] else []) = [] :=
        pick_none xs h b cid (fun y hy e => hu.1 y hy (hid.trans e.symm))
      simp only [Bool.true_and, hrest, List.append_nil]
    | false =>
      simp only [Bool.false_and, Bool.false_eq_true, if_false, List.nil_append]
      exact ih hu.2

/-- the planner's per-candidate step, as a list -/
theorem cand_toList (g : Graph) (h : Hop) (b : Binding) (e : Edge) (cid : Nat) :
    ((fun (p : Edge × Nat) =>
        if tyOk h p.1 then
          match g.node? p.2 with
          | some c => if labelOk h.target c then some (b ++ [c]) else none
          | none => none
        else none) (e, cid)).toList = if tyOk h e then ext g h b cid else [] := by
  unfold ext
  simp only
  cases tyOk h e with
  | false => simp
  | true =>
    simp only [if_true]
    cases g.node? cid with
    | none => rfl
    | some c =>
      show (if labelOk h.target c = true then some (b ++ [c]) else none).toList =
        if labelOk h.target c = true then [b ++ [c]] else []
      cases hl : labelOk h.target c with
      | false => simp only [Bool.false_eq_true, if_false]; rfl
      | true => simp only [if_true]; rfl

theorem nat_beq_comm (x y : Nat) : (x == y) = (y == x) := by
  rw [Bool.eq_iff_iff]; simp only [beq_iff_eq]; exact eq_comm

theorem flatMap_cond_eq {α β : Type} (l : List α) (p q : α → Bool) (f : α → List β)
    (hpq : ∀ a, p a = q a) :
    l.flatMap (fun a => if p a then f a else []) = l.flatMap (fun a => if q a then f a else []) := by
  have : p = q := funext hpq
  rw [this]

theorem flatMap_cond_false {α β : Type} (l : List α) (p : α → Bool) (f : α → List β)
    (hp : ∀ a, p a = false) : l.flatMap (fun a => if p a then f a else []) = [] := by
  have : (fun a => if p a then f a else ([] : List β)) = fun _ => [] := by
    funext a; simp [hp a]
  rw [this, flatMap_nil_fun]

/-- the enumeration's contribution of one edge, in closed form -/
theorem spec_edge (g : Graph) (hu : UniqueIds g) (h : Hop) (b : Binding) (a : Node) (e : Edge) :
    g.nodes.flatMap (fun c => if (Spec.hopMatches h a c e && labelOk h.target c) then [b ++ [c]] else []) =
      match h.dir with
      | .out => if tyOk h e && e.src == a.id then ext g h b e.dst else []
      | .inc => if tyOk h e && e.dst == a.id then ext g h b e.src else []
      | .both =>
        (if tyOk h e && e.src == a.id then ext g h b e.dst else []) ++
        (if tyOk h e && (e.dst == a.id && e.src != a.id) then ext g h b e.src else []) := by
  unfold Spec.hopMatches
  cases hty : tyOk h e with
  | false =>
    simp only [Bool.false_and, Bool.false_eq_true, if_false]
    rw [flatMap_nil_fun]
    cases h.dir <;> simp
  | true =>
    simp only [Bool.true_and]
    cases hd : h.dir with
    | out =>
      simp only
      cases hs : (e.src == a.id) with
      | false =>
        simp only [Bool.false_and, Bool.false_eq_true, if_false]
        exact flatMap_nil_fun _
      | true =>
        simp only [Bool.true_and, if_true]
        rw [← pick_eq g hu h b e.dst]
        apply flatMap_cond_eq
        intro c
        cases labelOk h.target c <;> simp [nat_beq_comm c.id]
    | inc =>
      simp only
      cases hs : (e.dst == a.id) with
      | false =>
        simp only [Bool.false_and, Bool.false_eq_true, if_false]
        exact flatMap_nil_fun _
      | true =>
        simp only [Bool.true_and, if_true]
        rw [← pick_eq g hu h b e.src]
        apply flatMap_cond_eq
        intro c
        cases labelOk h.target c <;> simp [nat_beq_comm c.id]
    | both =>
      simp only
      cases hs : (e.src == a.id) with
      | true =>
        -- the edge leaves `a`: it contributes its other end once, self-loop included
        have hsrc : e.src = a.id := beq_iff_eq.mp hs
        simp only [Bool.true_and, if_true]
        have hne : (e.src != a.id) = false := by simp [hsrc]
        simp only [hne, Bool.and_false, Bool.false_eq_true, if_false, List.append_nil]
        rw [← pick_eq g hu h b e.dst]
        apply flatMap_cond_eq
        intro c
        cases hl : labelOk h.target c with
        | false => simp
        | true =>
          simp only [Bool.and_true]
          by_cases hdc : e.dst = c.id
          · simp [hdc]
          · have h1 : (e.dst == c.id) = false := by simp [hdc]
            have h2 : (c.id == e.dst) = false := beq_eq_false_iff_ne.mpr (fun e' => hdc e'.symm)
            simp only [h1, h2, Bool.false_or, Bool.and_eq_false_imp, beq_iff_eq]
            intro hda
            -- dst = a.id and src = a.id = c.id would give dst = c.id
            simp only [beq_eq_false_iff_ne, ne_eq]
            intro hsc
            exact hdc (hda.trans (hsrc.symm.trans hsc))
      | false =>
        simp only [Bool.false_and, Bool.false_or, Bool.false_eq_true, if_false, List.nil_append]
        have hne : (e.src != a.id) = true := by simp [bne, hs]
        simp only [hne, Bool.and_true]
        cases hdst : (e.dst == a.id) with
        | false =>
          simp only [Bool.false_and, Bool.false_eq_true, if_false]
          exact flatMap_nil_fun _
        | true =>
          simp only [Bool.true_and, if_true]
          rw [← pick_eq g hu h b e.src]
          apply flatMap_cond_eq
          intro c
          cases labelOk h.target c <;> simp [nat_beq_comm c.id]

/-- the specification's one-hop step: every node and every edge that fit -/
def specStep (g : Graph) (h : Hop) (b : Binding) : List Binding :=
  match b.getLast? with
  | none => []
  | some a =>
    g.nodes.flatMap (fun c =>
      g.edges.flatMap (fun e =>
        if (Spec.hopMatches h a c e && labelOk h.target c) then [b ++ [c]] else []))

/-- one hop: the adjacency expansion is a permutation of the enumeration's step -/
theorem expandStep_perm (g : Graph) (hu : UniqueIds g) (h : Hop) (b : Binding) :
    (Pipe.expandStep g h b).Perm (specStep g h b) := by
  unfold Pipe.expandStep specStep
  cases ha : b.getLast? with
  | none => exact List.Perm.refl _
  | some a =>
    simp only
    -- enumeration: swap the two loops, then put each edge's contribution in closed form
    refine List.Perm.trans ?_ (flatMap_swap g.nodes g.edges (fun c e =>
      if (Spec.hopMatches h a c e && labelOk h.target c) then [b ++ [c]] else [])).symm
    have hspec : g.edges.flatMap (fun e => g.nodes.flatMap (fun c =>
        if (Spec.hopMatches h a c e && labelOk h.target c) then [b ++ [c]] else [])) =
        g.edges.flatMap (fun e => match h.dir with
          | .out => if tyOk h e && e.src == a.id then ext g h b e.dst else []
          | .inc => if tyOk h e && e.dst == a.id then ext g h b e.src else []
          | .both =>
            (if tyOk h e && e.src == a.id then ext g h b e.dst else []) ++
            (if tyOk h e && (e.dst == a.id && e.src != a.id) then ext g h b e.src else [])) := by
      congr 1
      funext e
      exact spec_edge g hu h b a e
    rw [hspec]
    cases hd : h.dir with
    | out =>
      simp only
      rw [filterMap_map_filter]
      apply flatMap_perm_pointwise
      intro e _
      unfold ext
      cases tyOk h e <;> cases (e.src == a.id) <;> simp only [Bool.false_and, Bool.true_and, Bool.false_eq_true, if_false, if_true, List.Perm.refl, Option.toList_none] <;>
        (cases g.node? e.dst with
         | none => simp
         | some c => cases hl : labelOk h.target c <;> simp [hl])
    | inc =>
      simp only
      rw [filterMap_map_filter]
      apply flatMap_perm_pointwise
      intro e _
      unfold ext
      cases tyOk h e <;> cases (e.dst == a.id) <;> simp only [Bool.false_and, Bool.true_and, Bool.false_eq_true, if_false, if_true, List.Perm.refl, Option.toList_none] <;>
        (cases g.node? e.src with
         | none => simp
         | some c => cases hl : labelOk h.target c <;> simp [hl])
    | both =>
      simp only
      rw [List.filterMap_append, List.filter_filter, filterMap_map_filter, filterMap_map_filter]
      refine List.Perm.trans ?_ (flatMap_append_fun g.edges _ _).symm
      apply List.Perm.append
      · apply flatMap_perm_pointwise
        intro e _
        unfold ext
        cases tyOk h e <;> cases (e.src == a.id) <;> simp only [Bool.false_and, Bool.true_and, Bool.false_eq_true, if_false, if_true, List.Perm.refl, Option.toList_none] <;>
          (cases g.node? e.dst with
           | none => simp
           | some c => cases hl : labelOk h.target c <;> simp [hl])
      · apply flatMap_perm_pointwise
        intro e _
        unfold ext
        cases tyOk h e <;> cases (e.dst == a.id) <;> cases (e.src != a.id) <;> simp only [Bool.false_and, Bool.true_and, Bool.and_false, Bool.and_true, Bool.and_self, Bool.false_eq_true, if_false, if_true, List.Perm.refl, Option.toList_none] <;>
          (cases g.node? e.src with
           | none => simp
           | some c => cases hl : labelOk h.target c <;> simp [hl])

/-! ### chains of hops -/

def specRows (g : Graph) (hops : List Hop) (rows : List Binding) : List Binding :=
  hops.foldl (fun rows h => rows.flatMap (specStep g h)) rows

theorem extend_cons (g : Graph) (h : Hop) (hs : List Hop) (b : Binding) :
    Spec.extend g (h :: hs) b = (specStep g h b).flatMap (Spec.extend g hs) := by
  unfold specStep
  simp only [Spec.extend]
  cases b.getLast? with
  | none => rfl
  | some a =>
    simp only [List.flatMap_assoc]
    congr 1; funext c
    congr 1; funext e
    cases (Spec.hopMatches h a c e && labelOk h.target c) <;> simp

theorem flatMap_extend_eq_specRows (g : Graph) (hops : List Hop) (rows : List Binding) :
    rows.flatMap (Spec.extend g hops) = specRows g hops rows := by
  induction hops generalizing rows with
  | nil =>
    simp only [specRows, List.foldl_nil]
    induction rows with
    | nil => rfl
    | cons r rs ih => simp [List.flatMap_cons, Spec.extend, ih]
  | cons h hs ih =>
    simp only [specRows, List.foldl_cons]
    rw [← specRows, ← ih]
    rw [List.flatMap_assoc]
    congr 1; funext b
    exact extend_cons g h hs b

theorem pipe_perm_spec_rows (g : Graph) (hu : UniqueIds g) (hops : List Hop) (rows rows' : List Binding)
    (hp : rows.Perm rows') :
    (hops.foldl (fun rows h => rows.flatMap (Pipe.expandStep g h)) rows).Perm (specRows g hops rows') := by
  induction hops generalizing rows rows' with
  | nil => exact hp
  | cons h hs ih =>
    simp only [List.foldl_cons, specRows]
    rw [← specRows]
    apply ih
    exact (List.Perm.flatMap_right _ hp).trans
      (flatMap_perm_pointwise rows' _ _ (fun b _ => expandStep_perm g hu h b))

/-- F (pattern part of C08, with multiplicities): for every graph with unique node ids and every
chain pattern, the bindings the scan/expand pipeline produces are a **permutation** of the
bindings the enumeration of all assignments yields — same rows, same number of times. -/
theorem c08_pipeline_bindings_perm_enumeration (g : Graph) (hu : UniqueIds g) (q : Q) :
    (Pipe.bindings g q).Perm (Spec.bindings g q) := by
  unfold Pipe.bindings Spec.bindings
  have hspec : (g.nodes.filter (labelOk q.start)).flatMap (fun a => Spec.extend g q.hops [a]) =
      ((g.nodes.filter (labelOk q.start)).map (fun a => [a])).flatMap (Spec.extend g q.hops) := by
    rw [List.flatMap_map]
  rw [hspec, flatMap_extend_eq_specRows]
  exact pipe_perm_spec_rows g hu q.hops _ _ (List.Perm.refl _)

/-- F: hence every query without DISTINCT / ORDER BY / SKIP / LIMIT returns the same rows the same
number of times (projections), respectively the same count. -/
theorem c08_exec_perm_eval (g : Graph) (hu : UniqueIds g) (q : Q)
    (hd : q.distinct = false) (ho : q.orderBy = []) (hs : q.skip = none) (hl : q.limit = none) :
    (Pipe.exec g q).Perm (Spec.eval g q) := by
  have hp := c08_pipeline_bindings_perm_enumeration g hu q
  unfold Pipe.exec Spec.eval finish
  simp only [hd, ho, hs, hl, Bool.false_eq_true, if_false, List.isEmpty_nil, if_true]
  cases q.ret with
  | props cols => exact (hp.filter _).map _
  | countStar =>
    have : ((Pipe.bindings g q).filter (passes q.preds)).length = ((Spec.bindings g q).filter (passes q.preds)).length :=
      (hp.filter _).length_eq
    simp only [this]
    exact List.Perm.refl _

/-- N: hypotheses hold and both sides are non-trivial on a graph with parallel edges and a
self-loop under an undirected hop (4 bindings each). -/
example :
    let g : Graph := ⟨[⟨0, [], []⟩, ⟨1, [], []⟩], [⟨0, 0, 1, 0⟩, ⟨1, 0, 1, 0⟩, ⟨2, 0, 0, 0⟩, ⟨3, 1, 0, 1⟩]⟩
    let q : Q := { start := ⟨none⟩, hops := [⟨none, .both, ⟨none⟩⟩], preds := [], ret := .countStar,
                   distinct := false, orderBy := [], skip := none, limit := none }
    UniqueIds g ∧ Pipe.exec g q = [[.int 7]] ∧ Spec.eval g q = [[.int 7]] := by
  refine ⟨by decide, by decide, by decide⟩

end Grafeo.Query
