import GrafeoModel.Model.Ops

/-!
# C11 — the algebra of limits, skips, unions and DISTINCT (operator level)

Every theorem quantifies over **every chunking** of the input (`cs : List (List α)`: any number
of chunks of any sizes, including empty chunks), so the chunk boundaries 2047/2048/2049 are
covered by the quantifier, not by a sample; and over every limit / skip value.
-/

namespace Grafeo.Ops

variable {α : Type}

theorem limit_flatten_gen (n : Nat) (cs : List (List α)) (r : Nat) :
    (limitOp n r cs).flatten = cs.flatten.take (n - r) := by
  induction cs generalizing r with
  | nil => simp [limitOp]
  | cons c cs ih =>
    simp only [limitOp]
    split
    · rename_i h
      have : n - r = 0 := by omega
      simp [this]
    · split
      · rename_i h0
        have : c = [] := List.length_eq_zero_iff.mp h0
        subst this
        simpa using ih r
      · split
        · rename_i hle
          simp only [List.flatten_cons, ih, List.take_append]
          rw [List.take_of_length_le hle]
          congr 2; omega
        · rename_i hgt
          simp only [List.flatten_cons, List.flatten_nil, List.append_nil]
          rw [List.take_append_of_le_length (by omega)]

/-- F: `LIMIT n` returns the first `n` rows of its input, for every chunking. -/
theorem c11_limit_flatten (n : Nat) (cs : List (List α)) :
    (limitOp n 0 cs).flatten = cs.flatten.take n := by
  simpa using limit_flatten_gen n cs 0

theorem skip_flatten_gen (s : Nat) (cs : List (List α)) (k : Nat) (hk : k ≤ s) :
    (skipOp s k cs).flatten = cs.flatten.drop (s - k) := by
  induction cs generalizing k with
  | nil => simp [skipOp]
  | cons c cs ih =>
    simp only [skipOp]
    split
    · rename_i hlt
      split
      · rename_i hge
        have hle : c.length ≤ s - k := by
          have := Nat.min_le_left (s - k) c.length
          have h2 : min (s - k) c.length = c.length := by
            apply Nat.le_antisymm (Nat.min_le_right _ _) hge
          omega
        rw [ih (k + c.length) (by omega)]
        simp only [List.flatten_cons, List.drop_append]
        rw [List.drop_of_length_le hle]
        simp; congr 1; omega
      · rename_i hnge
        have hlt2 : s - k < c.length := by
          apply Nat.lt_of_not_le
          intro hle
          apply hnge
          rw [Nat.min_eq_right hle]; exact Nat.le_refl _
        rw [Nat.min_eq_left (Nat.le_of_lt hlt2)]
        simp only [List.flatten_cons, ih s (Nat.le_refl _), Nat.sub_self, List.drop_zero]
        rw [List.drop_append_of_le_length (Nat.le_of_lt hlt2)]
    · rename_i hnlt
      have : s - k = 0 := by omega
      have hk' : k = s := by omega
      subst hk'
      simp only [List.flatten_cons, ih k (Nat.le_refl _), this, List.drop_zero]

/-- F: `SKIP s` drops exactly the first `s` rows, for every chunking. -/
theorem c11_skip_flatten (s : Nat) (cs : List (List α)) :
    (skipOp s 0 cs).flatten = cs.flatten.drop s := by
  simpa using skip_flatten_gen s cs 0 (Nat.zero_le _)

theorem take_min_len (l : List α) (b : Nat) : l.take (min l.length b) = l.take b := by
  by_cases h : l.length ≤ b
  · rw [Nat.min_eq_left h, List.take_of_length_le (Nat.le_refl _), List.take_of_length_le h]
  · rw [Nat.min_eq_right (by omega)]

theorem sub_add_min (n r a : Nat) : n - (r + min a (n - r)) = n - r - a := by
  by_cases h : a ≤ n - r
  · rw [Nat.min_eq_left h]; omega
  · rw [Nat.min_eq_right (by omega)]; omega

theorem limitSkip_flatten_gen (s n : Nat) (cs : List (List α)) (k r : Nat) (hk : k ≤ s) :
    (limitSkipOp s n k r cs).flatten = (cs.flatten.drop (s - k)).take (n - r) := by
  induction cs generalizing k r with
  | nil => simp [limitSkipOp]
  | cons c cs ih =>
    simp only [limitSkipOp]
    split
    · rename_i h
      have : n - r = 0 := by omega
      simp [this]
    · rename_i hr
      split
      · rename_i h0
        have : c = [] := List.length_eq_zero_iff.mp h0
        subst this
        simpa using ih k r hk
      · rename_i hc0
        by_cases hlt : k < s
        · simp only [hlt, if_true, true_and]
          by_cases hge : min (s - k) c.length ≥ c.length
          · simp only [hge, if_true]
            have hle : c.length ≤ s - k := by
              have h2 : min (s - k) c.length = c.length :=
                Nat.le_antisymm (Nat.min_le_right _ _) hge
              have := Nat.min_le_left (s - k) c.length
              omega
            rw [ih (k + c.length) r (by omega)]
            simp only [List.flatten_cons, List.drop_append]
            rw [List.drop_of_length_le hle]
            simp; congr 2; omega
          · simp only [hge, if_false]
            have hlt2 : s - k < c.length := by
              apply Nat.lt_of_not_le
              intro hle
              apply hge
              rw [Nat.min_eq_right hle]; exact Nat.le_refl _
            rw [Nat.min_eq_left (Nat.le_of_lt hlt2)]
            have hpos : min (c.length - (s - k)) (n - r) ≠ 0 := by
              have : 0 < c.length - (s - k) := by omega
              have : 0 < n - r := by omega
              omega
            simp only [hpos, if_false, List.flatten_cons]
            rw [ih s (r + min (c.length - (s - k)) (n - r)) (Nat.le_refl _)]
            simp only [Nat.sub_self, List.drop_zero]
            rw [List.drop_append_of_le_length (Nat.le_of_lt hlt2), List.take_append]
            have hdl : (c.drop (s - k)).length = c.length - (s - k) := by simp
            rw [← hdl, take_min_len, hdl]
            congr 2
            exact sub_add_min n r (c.length - (s - k))
        · have hk' : k = s := by omega
          subst hk'
          simp only [Nat.lt_irrefl, if_false, false_and, Nat.sub_zero, List.drop_zero, Nat.sub_self]
          have hpos : min c.length (n - r) ≠ 0 := by
            have : 0 < c.length := Nat.pos_of_ne_zero hc0
            have : 0 < n - r := by omega
            omega
          simp only [hpos, if_false, List.flatten_cons]
          rw [ih k (r + min c.length (n - r)) (Nat.le_refl _)]
          simp only [Nat.sub_self, List.drop_zero, List.take_append]
          rw [take_min_len]
          congr 2
          exact sub_add_min n r c.length

/-- F: `SKIP s LIMIT n` returns rows `s .. s+n` of its input, for every chunking. -/
theorem c11_skip_limit_window (s n : Nat) (cs : List (List α)) :
    (limitSkipOp s n 0 0 cs).flatten = (cs.flatten.drop s).take n := by
  simpa using limitSkip_flatten_gen s n cs 0 0 (Nat.zero_le _)

/-- F: the fused operator equals `Skip` followed by `Limit`. -/
theorem c11_limitskip_eq_skip_then_limit (s n : Nat) (cs : List (List α)) :
    (limitSkipOp s n 0 0 cs).flatten = (limitOp n 0 (skipOp s 0 cs)).flatten := by
  rw [c11_skip_limit_window, c11_limit_flatten, c11_skip_flatten]

/-- F: `UNION ALL` returns the concatenation of its branches. -/
theorem c11_union_all_concat (inputs : List (List (List α))) :
    (unionOp inputs).flatten = (inputs.map List.flatten).flatten := by
  unfold unionOp
  induction inputs with
  | nil => rfl
  | cons i is ih => simp [ih]

/-- F: `count(*)` over `LIMIT`/`SKIP` windows: the number of rows returned. -/
theorem c11_window_count (s n : Nat) (cs : List (List α)) :
    (limitSkipOp s n 0 0 cs).flatten.length = min n (cs.flatten.length - s) := by
  rw [c11_skip_limit_window]; simp

/-! ### DISTINCT -/

/-- the specification: keep the first row of every key, in input order. -/
def dedupKey [DecidableEq κ] (key : α → κ) : List κ → List α → List κ × List α
  | seen, [] => (seen, [])
  | seen, r :: rs =>
    if key r ∈ seen then dedupKey key seen rs
    else ((dedupKey key (key r :: seen) rs).1, r :: (dedupKey key (key r :: seen) rs).2)

theorem dedupKey_append [DecidableEq κ] (key : α → κ) (seen : List κ) (a b : List α) :
    dedupKey key seen (a ++ b) =
      ((dedupKey key (dedupKey key seen a).1 b).1,
       (dedupKey key seen a).2 ++ (dedupKey key (dedupKey key seen a).1 b).2) := by
  induction a generalizing seen with
  | nil => simp [dedupKey]
  | cons r rs ih =>
    simp only [List.cons_append, dedupKey]
    split
    · exact ih seen
    · rw [ih]; simp

theorem distinctChunk_eq [DecidableEq κ] (key : α → κ) (cap : Nat) (seen : List κ) (acc rs : List α)
    (h : acc.length + rs.length ≤ cap) :
    distinctChunk key cap seen acc rs = ((dedupKey key seen rs).1, acc ++ (dedupKey key seen rs).2) := by
  induction rs generalizing seen acc with
  | nil => simp [distinctChunk, dedupKey]
  | cons r rs ih =>
    simp only [distinctChunk, dedupKey]
    split
    · exact ih seen acc (by simp at h ⊢; omega)
    · split
      · rename_i hfull
        have : rs = [] := by
          simp at h hfull
          exact List.length_eq_zero_iff.mp (by omega)
        subst this
        simp [dedupKey]
      · rw [ih (key r :: seen) (acc ++ [r]) (by simp at h ⊢; omega)]
        simp

/-- F: DISTINCT returns the first row of every key once, in order, for every chunking and every
chunk size (the output builder is sized to the input chunk). -/
theorem c11_distinct_eq_dedup [DecidableEq κ] (key : α → κ) (cap : Nat) (seen : List κ)
    (cs : List (List α)) :
    (distinctOp key cap seen cs).flatten = (dedupKey key seen cs.flatten).2 := by
  induction cs generalizing seen with
  | nil => simp [distinctOp, dedupKey]
  | cons c cs ih =>
    simp only [distinctOp, List.flatten_cons]
    rw [distinctChunk_eq key (max cap c.length) seen [] c (by simp; omega)]
    simp only [List.nil_append]
    rw [dedupKey_append]
    simp only
    split
    · simp [ih]
    · rename_i hz
      have : (dedupKey key seen c).2 = [] := by
        apply List.length_eq_zero_iff.mp; omega
      simp [ih, this]

/-- F: what `dedupKey` returns has pairwise different keys and the same key set as its input
(so with an injective key function: every row of the input exactly once). -/
theorem c11_dedup_keys [DecidableEq κ] (key : α → κ) (seen : List κ) (l : List α) :
    ((dedupKey key seen l).2.map key).Nodup ∧
    (∀ k, k ∈ (dedupKey key seen l).2.map key ↔ (k ∈ l.map key ∧ k ∉ seen)) := by
  induction l generalizing seen with
  | nil => simp [dedupKey]
  | cons r rs ih =>
    simp only [dedupKey]
    split
    · rename_i hin
      obtain ⟨h1, h2⟩ := ih seen
      refine ⟨h1, ?_⟩
      intro k
      rw [h2 k]
      constructor
      · rintro ⟨a, b⟩; exact ⟨by simp at a ⊢; exact Or.inr a, b⟩
      · rintro ⟨a, b⟩
        refine ⟨?_, b⟩
        simp at a ⊢
        rcases a with rfl | a
        · exact absurd hin b
        · exact a
    · rename_i hnin
      obtain ⟨h1, h2⟩ := ih (key r :: seen)
      refine ⟨?_, ?_⟩
      · simp only [List.map_cons, List.nodup_cons]
        refine ⟨?_, h1⟩
        intro hmem
        have := (h2 (key r)).mp hmem
        exact this.2 (by simp)
      · intro k
        simp only [List.map_cons, List.mem_cons]
        rw [h2 k]
        constructor
        · rintro (rfl | ⟨a, b⟩)
          · exact ⟨Or.inl rfl, hnin⟩
          · exact ⟨Or.inr a, fun h => b (by simp [h])⟩
        · rintro ⟨a | a, b⟩
          · exact Or.inl a
          · by_cases hk : k = key r
            · exact Or.inl hk
            · exact Or.inr ⟨a, by simp [hk, b]⟩

/-- R (regression example of a repaired defect): with a builder of fixed capacity (2 here, 2048 in
the code before commit "fix: DISTINCT sizes its output to the input chunk") a larger child chunk
lost rows: `distinctChunk` at capacity 2 stops after two new rows. -/
theorem c11_distinct_fixed_capacity_loses_rows_regression :
    (distinctChunk (fun (x : Nat) => x) 2 [] [] [1, 2, 3]).2 = [1, 2] ∧
    (distinctOp (fun (x : Nat) => x) 2 [] [[1, 2, 3], [4]]).flatten = [1, 2, 3, 4] := by decide

/-- N: non-vacuity (duplicates across and inside chunks, an empty chunk). -/
example : (distinctOp (fun (x : Nat) => x % 3) 4 [] [[1, 4, 2], [], [5, 3]]).flatten = [1, 2, 3] := by decide
example : (limitSkipOp 2 3 0 0 [[1], [], [2, 3, 4], [5, 6]]).flatten = [3, 4, 5] := by decide

end Grafeo.Ops
