import GrafeoModel.Model.Exec

/-!
# C17 — parallel execution equals sequential execution (building blocks)

* morsels partition the input for **every** row count and morsel size;
* the k-way merge of sorted runs is a sorted permutation of all rows, for **every** number of
  runs, every run length and **every** heap tie-breaking discipline;
* partial aggregates merged in worker order equal the sequential aggregate, for **every** split
  of the input among any number of workers;
* a stateless per-row chain applied morsel by morsel in **any** schedule (any permutation of the
  morsels) yields a permutation of the sequential result.
-/

namespace Grafeo.Exec

/-! ### morsels -/

def rowsOf (m : Morsel) : List Nat := List.range' m.start (m.stop - m.start)

theorem morselsFrom_cover (total size : Nat) (hs : 0 < size) (fuel id start : Nat)
    (hf : total - start ≤ fuel) :
    (morselsFrom total size fuel id start).flatMap rowsOf = List.range' start (total - start) := by
  induction fuel generalizing id start with
  | zero =>
    have : total - start = 0 := by omega
    simp [morselsFrom, this]
  | succ fuel ih =>
    simp only [morselsFrom]
    split
    · rename_i h
      have : total - start = 0 := by omega
      simp [this]
    · rename_i h
      have hlt : start < total := Nat.lt_of_not_le h
      rw [List.flatMap_cons, ih (id + 1) (start + size) (by omega)]
      simp only [rowsOf]
      by_cases hle : start + size ≤ total
      · rw [Nat.min_eq_left hle]
        have e1 : start + size - start = size := by omega
        rw [e1]
        have := @List.range'_append start size (total - (start + size)) 1
        rw [Nat.one_mul] at this
        rw [this]
        congr 1; omega
      · rw [Nat.min_eq_right (by omega)]
        have : total - (start + size) = 0 := by omega
        simp [this]

/-- F: the morsels cover `0 .. total_rows` exactly once, in order — for every row count and
every morsel size. -/
theorem c17_morsels_partition (total size : Nat) (hs : 0 < size) :
    (generateMorsels total size).flatMap rowsOf = List.range total := by
  unfold generateMorsels
  split
  · rename_i h
    rcases h with h | h
    · subst h; rfl
    · omega
  · rw [morselsFrom_cover total size hs total 0 0 (by omega)]
    simp [List.range_eq_range']

theorem morselsFrom_wf (total size : Nat) (hs : 0 < size) (fuel id start : Nat) :
    ∀ m ∈ morselsFrom total size fuel id start, m.start < m.stop ∧ m.stop - m.start ≤ size ∧ m.stop ≤ total := by
  induction fuel generalizing id start with
  | zero => intro m hm; simp [morselsFrom] at hm
  | succ fuel ih =>
    intro m hm
    simp only [morselsFrom] at hm
    split at hm
    · simp at hm
    · rename_i h
      rcases List.mem_cons.mp hm with rfl | h'
      · simp only
        refine ⟨?_, ?_, Nat.min_le_right _ _⟩
        · have := Nat.lt_of_not_le h
          by_cases hle : start + size ≤ total
          · rw [Nat.min_eq_left hle]; omega
          · rw [Nat.min_eq_right (by omega)]; omega
        · have := Nat.min_le_left (start + size) total
          omega
      · exact ih _ _ m h'

/-- F: no morsel is empty, none exceeds the morsel size or the table. -/
theorem c17_morsels_wellformed (total size : Nat) (hs : 0 < size) :
    ∀ m ∈ generateMorsels total size, m.start < m.stop ∧ m.stop - m.start ≤ size ∧ m.stop ≤ total := by
  unfold generateMorsels
  split
  · intro m hm; simp at hm
  · exact morselsFrom_wf total size hs total 0 0

/-- F: any schedule of the morsels (any permutation, any assignment to workers whose outputs
are concatenated) of a per-row chain `f` yields a permutation of the sequential output. -/
theorem c17_stateless_chain_any_schedule {β : Type} (total size : Nat) (hs : 0 < size)
    (f : Nat → List β) (schedule : List Morsel) (hperm : schedule.Perm (generateMorsels total size)) :
    (schedule.flatMap (fun m => (rowsOf m).flatMap f)).Perm ((List.range total).flatMap f) := by
  have h1 := List.Perm.flatMap_right (fun m => (rowsOf m).flatMap f) hperm
  refine h1.trans ?_
  rw [← c17_morsels_partition total size hs]
  rw [List.flatMap_assoc]

/-! ### k-way merge -/

/-- what the theorems need from the heap: it hands back a run whose head is minimal. -/
def PickOK (pick : List (List Int) → Option Nat) : Prop :=
  ∀ runs, (pick runs = none → ∀ r ∈ runs, r = []) ∧
    (∀ i, pick runs = some i → ∃ x, headOf runs i = some x ∧ ∀ j y, headOf runs j = some y → x ≤ y)

theorem popRun_perm (runs : List (List Int)) (i : Nat) (x : Int) (h : headOf runs i = some x) :
    runs.flatten.Perm (x :: (popRun runs i).flatten) := by
  induction runs generalizing i with
  | nil => simp [headOf] at h
  | cons r rs ih =>
    cases i with
    | zero =>
      simp only [headOf, List.getElem?_cons_zero] at h
      cases r with
      | nil => simp at h
      | cons y ys =>
        simp at h; subst h
        simp [popRun]
    | succ i =>
      have h' : headOf rs i = some x := by simpa [headOf] using h
      have := ih i h'
      simp only [popRun, List.flatten_cons]
      exact (List.Perm.append_left r this).trans List.perm_middle

theorem totalLen_eq (runs : List (List Int)) : totalLen runs = runs.flatten.length := by
  unfold totalLen
  have aux : ∀ (l : List Nat) (a : Nat), l.foldl (· + ·) a = a + l.foldl (· + ·) 0 := by
    intro l
    induction l with
    | nil => simp
    | cons x xs ih => intro a; simp only [List.foldl_cons]; rw [ih (a + x), ih (0 + x)]; omega
  induction runs with
  | nil => rfl
  | cons r rs ih =>
    simp only [List.map_cons, List.foldl_cons, List.flatten_cons, List.length_append]
    rw [aux, ih]; omega

theorem merge_perm (pick : List (List Int) → Option Nat) (hp : PickOK pick)
    (fuel : Nat) (runs : List (List Int)) (hf : runs.flatten.length ≤ fuel) :
    (mergeWith pick fuel runs).Perm runs.flatten := by
  induction fuel generalizing runs with
  | zero =>
    have : runs.flatten = [] := List.length_eq_zero_iff.mp (by omega)
    simp [mergeWith, this]
  | succ fuel ih =>
    simp only [mergeWith]
    cases hpk : pick runs with
    | none =>
      have hall := (hp runs).1 hpk
      have : runs.flatten = [] := by
        apply List.flatten_eq_nil_iff.mpr; exact hall
      simp [this]
    | some i =>
      obtain ⟨x, hx, _⟩ := (hp runs).2 i hpk
      simp only [hx]
      have hperm := popRun_perm runs i x hx
      have hlen : (popRun runs i).flatten.length ≤ fuel := by
        have := hperm.length_eq
        rw [List.length_cons] at this; omega
      exact (List.Perm.cons x (ih _ hlen)).trans hperm.symm

def SortedRun (r : List Int) : Prop := r.Pairwise (· ≤ ·)

theorem head_le_of_sorted (runs : List (List Int)) (hs : ∀ r ∈ runs, SortedRun r)
    (x : Int) (hmin : ∀ j y, headOf runs j = some y → x ≤ y) : ∀ y ∈ runs.flatten, x ≤ y := by
  intro y hy
  rw [List.mem_flatten] at hy
  obtain ⟨r, hr, hyr⟩ := hy
  obtain ⟨j, hj⟩ := List.mem_iff_getElem?.mp hr
  cases r with
  | nil => simp at hyr
  | cons z zs =>
    have hz : x ≤ z := hmin j z (by simp [headOf, hj])
    rcases List.mem_cons.mp hyr with rfl | hin
    · exact hz
    · have := (List.pairwise_cons.mp (hs _ hr)).1 y hin
      omega

theorem popRun_sorted (runs : List (List Int)) (i : Nat) (hs : ∀ r ∈ runs, SortedRun r) :
    ∀ r ∈ popRun runs i, SortedRun r := by
  induction runs generalizing i with
  | nil => intro r hr; simp [popRun] at hr
  | cons r0 rs ih =>
    cases i with
    | zero =>
      intro r hr
      simp only [popRun, List.mem_cons] at hr
      rcases hr with rfl | hr
      · cases r0 with
        | nil => exact List.Pairwise.nil
        | cons a as => exact (List.pairwise_cons.mp (hs (a :: as) List.mem_cons_self)).2
      · exact hs r (by simp [hr])
    | succ i =>
      intro r hr
      simp only [popRun, List.mem_cons] at hr
      rcases hr with rfl | hr
      · exact hs r (by simp)
      · exact ih i (fun q hq => hs q (by simp [hq])) r hr

theorem merge_sorted (pick : List (List Int) → Option Nat) (hp : PickOK pick)
    (fuel : Nat) (runs : List (List Int)) (hf : runs.flatten.length ≤ fuel)
    (hs : ∀ r ∈ runs, SortedRun r) : SortedRun (mergeWith pick fuel runs) := by
  induction fuel generalizing runs with
  | zero => exact List.Pairwise.nil
  | succ fuel ih =>
    simp only [mergeWith]
    cases hpk : pick runs with
    | none => exact List.Pairwise.nil
    | some i =>
      obtain ⟨x, hx, hmin⟩ := (hp runs).2 i hpk
      simp only [hx]
      have hperm := popRun_perm runs i x hx
      have hlen : (popRun runs i).flatten.length ≤ fuel := by
        have := hperm.length_eq
        rw [List.length_cons] at this; omega
      have hs' := popRun_sorted runs i hs
      unfold SortedRun
      rw [List.pairwise_cons]
      refine ⟨?_, ih _ hlen hs'⟩
      intro y hy
      have hy' : y ∈ (popRun runs i).flatten := (merge_perm pick hp fuel _ hlen).mem_iff.mp hy
      have hy'' : y ∈ runs.flatten := hperm.mem_iff.mpr (List.mem_cons_of_mem _ hy')
      exact head_le_of_sorted runs hs x hmin y hy''

/-- F: merging sorted runs yields a sorted permutation of all their rows — for every number
of runs, every run length, and every tie-breaking discipline of the heap (`PickOK`). -/
theorem c17_merge_sorted_runs_perm_sorted (pick : List (List Int) → Option Nat) (hp : PickOK pick)
    (runs : List (List Int)) (hs : ∀ r ∈ runs, SortedRun r) :
    (mergeWith pick (totalLen runs) runs).Perm runs.flatten ∧
    SortedRun (mergeWith pick (totalLen runs) runs) := by
  have hf : runs.flatten.length ≤ totalLen runs := by rw [totalLen_eq]; exact Nat.le_refl _
  exact ⟨merge_perm pick hp _ runs hf, merge_sorted pick hp _ runs hf hs⟩

/-- N: the hypothesis is satisfiable — the model's own heap discipline (leftmost minimal head). -/
theorem pickMin_ok : PickOK pickMin := by
  intro runs
  induction runs with
  | nil =>
    refine ⟨fun _ r hr => by simp at hr, fun i h => by simp [pickMin] at h⟩
  | cons r rs ih =>
    obtain ⟨ih1, ih2⟩ := ih
    constructor
    · intro h q hq
      simp only [pickMin] at h
      cases r with
      | nil =>
        cases hp : pickMin rs with
        | none =>
          rcases List.mem_cons.mp hq with rfl | hq'
          · rfl
          · exact ih1 hp q hq'
        | some j => simp [hp] at h
      | cons x xs =>
        cases hp : pickMin rs with
        | none => simp [hp] at h
        | some j =>
          simp only [hp] at h
          split at h
          · split at h <;> simp at h
          · simp at h
    · intro i h
      simp only [pickMin] at h
      cases r with
      | nil =>
        cases hp : pickMin rs with
        | none => simp [hp] at h
        | some j =>
          simp only [hp, Option.some.injEq] at h
          subst h
          obtain ⟨x, hx, hmin⟩ := ih2 j hp
          refine ⟨x, by simpa [headOf] using hx, ?_⟩
          intro k y hk
          cases k with
          | zero => simp [headOf] at hk
          | succ k => exact hmin k y (by simpa [headOf] using hk)
      | cons x xs =>
        cases hp : pickMin rs with
        | none =>
          simp only [hp, Option.some.injEq] at h
          subst h
          refine ⟨x, by simp [headOf], ?_⟩
          intro k y hk
          cases k with
          | zero => simp [headOf] at hk; omega
          | succ k =>
            have hall := ih1 hp
            have hk' : headOf rs k = some y := by simpa [headOf] using hk
            unfold headOf at hk'
            cases hrk : rs[k]? with
            | none => simp [hrk] at hk'
            | some q =>
              have := hall q (List.mem_of_getElem? hrk)
              subst this
              simp [hrk] at hk'
        | some j =>
          obtain ⟨z, hz, hmin⟩ := ih2 j hp
          simp only [hp] at h
          have hzj : rs[j]? = some (z :: (rs[j]?.getD []).tail) ∨ True := Or.inr trivial
          -- the head of run j in rs is z
          have hz' : ∃ zs, rs[j]? = some (z :: zs) := by
            unfold headOf at hz
            cases hrj : rs[j]? with
            | none => simp [hrj] at hz
            | some q =>
              cases q with
              | nil => simp [hrj] at hz
              | cons a as => simp [hrj] at hz; subst hz; exact ⟨as, rfl⟩
          obtain ⟨zs, hzs⟩ := hz'
          simp only [hzs] at h
          split at h
          · rename_i hlt
            simp at h; subst h
            refine ⟨z, by simp [headOf, hzs], ?_⟩
            intro k y hk
            cases k with
            | zero => simp [headOf] at hk; omega
            | succ k => exact hmin k y (by simpa [headOf] using hk)
          · rename_i hnlt
            simp at h; subst h
            refine ⟨x, by simp [headOf], ?_⟩
            intro k y hk
            cases k with
            | zero => simp [headOf] at hk; omega
            | succ k =>
              have := hmin k y (by simpa [headOf] using hk)
              omega

/-! ### partial aggregates -/

theorem merge_new (a : Acc) : a.merge Acc.new = a := by
  cases a; simp [Acc.merge, Acc.new]
  rename_i c s mn mx f
  cases f <;> rfl

theorem optMin_merge (amn bmn : Option Int) (y : Int) :
    (match optMin bmn y with | none => amn | some bm => optMin amn bm) =
      optMin (match bmn with | none => amn | some bm => optMin amn bm) y := by
  cases bmn with
  | none => rfl
  | some b =>
    cases amn with
    | none => rfl
    | some a =>
      simp only [optMin, Option.some.injEq]
      repeat' split
      all_goals omega

theorem optMax_merge (amx bmx : Option Int) (y : Int) :
    (match optMax bmx y with | none => amx | some bm => optMax amx bm) =
      optMax (match bmx with | none => amx | some bm => optMax amx bm) y := by
  cases bmx with
  | none => rfl
  | some b =>
    cases amx with
    | none => rfl
    | some a =>
      simp only [optMax, Option.some.injEq]
      repeat' split
      all_goals omega

theorem merge_add (a b : Acc) (y : Int) : a.merge (b.add y) = (a.merge b).add y := by
  obtain ⟨ac, as, amn, amx, af⟩ := a
  obtain ⟨bc, bs, bmn, bmx, bf⟩ := b
  simp only [Acc.merge, Acc.add, Acc.mk.injEq]
  refine ⟨by omega, by omega, optMin_merge amn bmn y, optMax_merge amx bmx y, ?_⟩
  cases af <;> cases bf <;> rfl

theorem merge_foldl (a b : Acc) (ys : List Int) :
    a.merge (ys.foldl Acc.add b) = ys.foldl Acc.add (a.merge b) := by
  induction ys generalizing b with
  | nil => rfl
  | cons y ys ih => simp only [List.foldl_cons]; rw [ih, merge_add]

/-- F: merging the partial aggregate of a later chunk into an earlier one equals aggregating
the concatenation — count, sum, min, max and first (integers). -/
theorem c17_partial_aggregates_merge (xs ys : List Int) :
    (Acc.ofList xs).merge (Acc.ofList ys) = Acc.ofList (xs ++ ys) := by
  unfold Acc.ofList
  rw [merge_foldl, merge_new, List.foldl_append]

/-- F: for **any** split of the input among any number of workers (each worker aggregates its
part; partial states are merged in worker order) the result is the sequential aggregate. -/
theorem c17_parallel_aggregate_eq_sequential (parts : List (List Int)) :
    (parts.map Acc.ofList).foldl Acc.merge Acc.new = Acc.ofList parts.flatten := by
  have : ∀ (acc : List Int), (parts.map Acc.ofList).foldl Acc.merge (Acc.ofList acc) = Acc.ofList (acc ++ parts.flatten) := by
    induction parts with
    | nil => intro acc; simp
    | cons p ps ih =>
      intro acc
      simp only [List.map_cons, List.foldl_cons, List.flatten_cons]
      rw [c17_partial_aggregates_merge, ih, List.append_assoc]
  have h := this []
  simpa [Acc.ofList] using h

/-- N: non-trivial instances. -/
example : mergeSortedRuns [[1, 4, 9], [], [2, 4], [0, 10]] = [0, 1, 2, 4, 4, 9, 10] := by decide
example : generateMorsels 10 4 = [⟨0, 0, 4⟩, ⟨1, 4, 8⟩, ⟨2, 8, 10⟩] := by decide

end Grafeo.Exec
