import GrafeoModel.Model.Epoch
import GrafeoModel.Proofs.EpochLemmas

/-!
# C15 (epoch blocks) — the compressed epoch blocks and the epoch store are lossless

Model: `Model/Epoch.lean` (transliteration of `storage/epoch_store.rs`; records are the lists of
their eight integer fields, serialised with bincode's variable-length integers).
Specification: the plain record lists — `lookupLast xs id` is the record supplied under `id`
(the last one if the id was supplied several times: the sort is stable on the path the model
covers and the binary search of the standard library ends on the last equal key), and a plain
map epoch → (node records, edge records) for the store.

Theorems `c15_epoch_*` are the property theorems (kinds in `C15Epoch.obligations`).
Hypothesis `OkRecs ws xs`: every record fits its field types and `72 · |xs| < 2^32` (so that no
`as u32` offset can truncate: a field takes at most 9 bytes). Beyond that bound the casts do
truncate — see the two `*_truncation_witness` theorems (not replayable: ≥ 4 GiB of records).
-/
namespace Grafeo.Epoch

theorem nodeWs_len : 9 * nodeWs.length < 65536 := by decide
theorem edgeWs_len : 9 * edgeWs.length < 65536 := by decide
theorem nodeWs_pos : 0 < nodeWs.length := by decide
theorem edgeWs_pos : 0 < edgeWs.length := by decide

/-! ## the record codec -/

/-- F: bincode round trip of one node / edge record (any trailing bytes are ignored). -/
theorem c15_epoch_record_codec (r rest : List Nat) :
    (wfRec nodeWs r → decRec nodeWs (encRec r ++ rest) = some r) ∧
    (wfRec edgeWs r → decRec edgeWs (encRec r ++ rest) = some r) :=
  ⟨decRec_encRec nodeWs r rest nodeWs_ok, decRec_encRec edgeWs r rest edgeWs_ok⟩

/-- F: a serialised record never needs more than 72 bytes, so `serialized.len() as u16` is exact. -/
theorem c15_epoch_length_fits_u16 (r : List Nat) (h : wfRec nodeWs r ∨ wfRec edgeWs r) :
    (encRec r).length % 65536 = (encRec r).length := by
  have h1 := encRec_length_le r
  have : r.length = 8 := by
    rcases h with h | h
    · exact wfRec_length nodeWs r h
    · exact wfRec_length edgeWs r h
  apply Nat.mod_eq_of_lt; omega

/-! ## one block -/

/-- F: `get_node_by_id` returns exactly the record put into `from_records` under that id, and
`None` for an id that was not supplied (`lookupLast` is `none` then). -/
theorem c15_epoch_node_by_id (e : Nat) (ns es : List KRec) (id : Nat) (h : OkRecs nodeWs ns) :
    (fromRecords e ns es).1.getNodeById id = lookupLast ns id :=
  getById_buildSide nodeWs nodeWs_ok nodeWs_len nodeWs_pos ns h id

theorem c15_epoch_edge_by_id (e : Nat) (ns es : List KRec) (id : Nat) (h : OkRecs edgeWs es) :
    (fromRecords e ns es).1.getEdgeById id = lookupLast es id :=
  getById_buildSide edgeWs edgeWs_ok edgeWs_len edgeWs_pos es h id

/-- F: ids that were not supplied are not found. -/
theorem c15_epoch_absent_none (e : Nat) (ns es : List KRec) (id : Nat)
    (hn : OkRecs nodeWs ns) (he : OkRecs edgeWs es) :
    (hasKey ns id = false → (fromRecords e ns es).1.getNodeById id = none) ∧
    (hasKey es id = false → (fromRecords e ns es).1.getEdgeById id = none) := by
  constructor
  · intro h
    rw [c15_epoch_node_by_id e ns es id hn]
    apply lookupLast_none_of
    intro y hy hk
    simp only [hasKey, List.any_eq_false] at h
    exact h y hy (by simp [hk])
  · intro h
    rw [c15_epoch_edge_by_id e ns es id he]
    apply lookupLast_none_of
    intro y hy hk
    simp only [hasKey, List.any_eq_false] at h
    exact h y hy (by simp [hk])

/-- F: with pairwise distinct ids, `lookupLast` is plain membership: every supplied pair is found. -/
theorem c15_epoch_node_by_id_distinct (e : Nat) (ns es : List KRec) (x : KRec) (h : OkRecs nodeWs ns)
    (hd : ns.Pairwise (fun a b => a.1 ≠ b.1)) (hx : x ∈ ns) :
    (fromRecords e ns es).1.getNodeById x.1 = some x.2 := by
  rw [c15_epoch_node_by_id e ns es x.1 h]
  clear h
  induction ns with
  | nil => simp at hx
  | cons z zs ih =>
    rw [List.pairwise_cons] at hd
    rw [lookupLast_cons]
    rcases List.mem_cons.mp hx with rfl | hx
    · have : lookupLast zs x.1 = none := lookupLast_none_of zs x.1 (fun y hy => Ne.symm (hd.1 y hy))
      rw [this]; simp
    · rw [ih hd.2 hx]

theorem c15_epoch_edge_by_id_distinct (e : Nat) (ns es : List KRec) (x : KRec) (h : OkRecs edgeWs es)
    (hd : es.Pairwise (fun a b => a.1 ≠ b.1)) (hx : x ∈ es) :
    (fromRecords e ns es).1.getEdgeById x.1 = some x.2 := by
  rw [c15_epoch_edge_by_id e ns es x.1 h]
  clear h
  induction es with
  | nil => simp at hx
  | cons z zs ih =>
    rw [List.pairwise_cons] at hd
    rw [lookupLast_cons]
    rcases List.mem_cons.mp hx with rfl | hx
    · have : lookupLast zs x.1 = none := lookupLast_none_of zs x.1 (fun y hy => Ne.symm (hd.1 y hy))
      rw [this]; simp
    · rw [ih hd.2 hx]

/-- one half, by offset: every supplied record is behind some returned index entry, and every
returned index entry leads to a supplied record with the entry's id (duplicates included). -/
theorem side_by_offset (ws : List Nat) (hws : ∀ w ∈ ws, okW w) (hlen : 9 * ws.length < 65536)
    (xs : List KRec) (h : OkRecs ws xs) :
    (∀ x ∈ xs, ∃ en ∈ (buildSide (sortRecs xs)).index,
        en.id = x.1 ∧ getAt ws (buildSide (sortRecs xs)) en.offset en.length = some x.2) ∧
    (∀ en ∈ (buildSide (sortRecs xs)).index, ∃ x ∈ xs,
        en.id = x.1 ∧ getAt ws (buildSide (sortRecs xs)) en.offset en.length = some x.2) := by
  have hs := okRecs_sorted ws xs h
  constructor
  · intro x hx
    obtain ⟨i, hi⟩ := List.getElem?_of_mem ((mem_sortRecs xs x).mpr hx)
    have hil : i < (sortRecs xs).length := (List.getElem?_eq_some_iff.mp hi).1
    have hidx : i < (buildSide (sortRecs xs)).index.length := by simp [buildSide, buildIdx_length, hil]
    have he := List.getElem?_eq_getElem hidx
    exact ⟨_, List.getElem_mem hidx, getAt_entry ws hws hlen _ hs.1 hs.2 i _ x he hi⟩
  · intro en hen
    obtain ⟨i, hi⟩ := List.getElem?_of_mem hen
    have hil : i < (buildSide (sortRecs xs)).index.length := (List.getElem?_eq_some_iff.mp hi).1
    have hsl : i < (sortRecs xs).length := by simpa [buildSide, buildIdx_length] using hil
    have hx := List.getElem?_eq_getElem hsl
    exact ⟨_, (mem_sortRecs xs _).mp (List.getElem_mem hsl), getAt_entry ws hws hlen _ hs.1 hs.2 i en _ hi hx⟩

/-- F: `get_node(offset, length)` with the offsets of the returned node index. -/
theorem c15_epoch_node_by_offset (e : Nat) (ns es : List KRec) (h : OkRecs nodeWs ns) :
    (∀ x ∈ ns, ∃ en ∈ (fromRecords e ns es).2.1,
        en.id = x.1 ∧ (fromRecords e ns es).1.getNode en.offset en.length = some x.2) ∧
    (∀ en ∈ (fromRecords e ns es).2.1, ∃ x ∈ ns,
        en.id = x.1 ∧ (fromRecords e ns es).1.getNode en.offset en.length = some x.2) :=
  side_by_offset nodeWs nodeWs_ok nodeWs_len ns h

theorem c15_epoch_edge_by_offset (e : Nat) (ns es : List KRec) (h : OkRecs edgeWs es) :
    (∀ x ∈ es, ∃ en ∈ (fromRecords e ns es).2.2,
        en.id = x.1 ∧ (fromRecords e ns es).1.getEdge en.offset en.length = some x.2) ∧
    (∀ en ∈ (fromRecords e ns es).2.2, ∃ x ∈ es,
        en.id = x.1 ∧ (fromRecords e ns es).1.getEdge en.offset en.length = some x.2) :=
  side_by_offset edgeWs edgeWs_ok edgeWs_len es h

/-- F: the zone map is sound — it never answers "cannot contain" for an id that was supplied
(fewer than 2^32 records) — and an empty block excludes everything. -/
theorem c15_epoch_zone_sound (e : Nat) (ns es : List KRec) :
    (∀ x ∈ ns, ns.length < 4294967296 → mightContain (fromRecords e ns es).1.nodes x.1 = true) ∧
    (∀ x ∈ es, es.length < 4294967296 → mightContain (fromRecords e ns es).1.edges x.1 = true) ∧
    (∀ id, mightContain (fromRecords e [] es).1.nodes id = false) ∧
    (∀ id, mightContain (fromRecords e ns []).1.edges id = false) := by
  refine ⟨?_, ?_, ?_, ?_⟩
  · intro x hx hl
    exact mightContain_of_mem _ x ((mem_sortRecs ns x).mpr hx) (by rw [length_sortRecs]; exact hl)
  · intro x hx hl
    exact mightContain_of_mem _ x ((mem_sortRecs es x).mpr hx) (by rw [length_sortRecs]; exact hl)
  · intro id; simp [fromRecords, mightContain, buildSide, sortRecs]
  · intro id; simp [fromRecords, mightContain, buildSide, sortRecs]

/-- F: counts are the list lengths (the zone map's `u32` counts: modulo 2^32). -/
theorem c15_epoch_counts (e : Nat) (ns es : List KRec) :
    (fromRecords e ns es).1.nodeCount = ns.length ∧ (fromRecords e ns es).1.edgeCount = es.length ∧
    (fromRecords e ns es).2.1.length = ns.length ∧ (fromRecords e ns es).2.2.length = es.length ∧
    (fromRecords e ns es).1.nodes.count = ns.length % 4294967296 ∧
    (fromRecords e ns es).1.edges.count = es.length % 4294967296 ∧
    (fromRecords e ns es).1.epoch = e ∧ (fromRecords e ns es).1.compression = 0 := by
  simp [fromRecords, Block.nodeCount, Block.edgeCount, buildSide, buildIdx_length, length_sortRecs]

/-- one half, byte layout: the k-th index entry (ids ascending) starts where the first k
serialised records end, is as long as its record's serialisation, lies inside the data, and the
bytes there are that serialisation. -/
theorem side_layout (ws : List Nat) (hlen : 9 * ws.length < 65536) (xs : List KRec) (h : OkRecs ws xs)
    (i : Nat) (en : Entry) (hi : (buildSide (sortRecs xs)).index[i]? = some en) :
    ∃ x, (sortRecs xs)[i]? = some x ∧ x ∈ xs ∧ en.id = x.1 ∧
      en.offset = (buildData ((sortRecs xs).take i)).length ∧
      en.length = (encRec x.2).length ∧
      en.offset + en.length ≤ (buildSide (sortRecs xs)).data.length ∧
      ((buildSide (sortRecs xs)).data.drop en.offset).take en.length = encRec x.2 := by
  have hs := okRecs_sorted ws xs h
  have hil : i < (buildSide (sortRecs xs)).index.length := (List.getElem?_eq_some_iff.mp hi).1
  have hsl : i < (sortRecs xs).length := by simpa [buildSide, buildIdx_length] using hil
  have hx := List.getElem?_eq_getElem hsl
  have := buildIdx_get ws hlen (sortRecs xs) [] i en _ hs.1 (by simpa using hs.2)
    (by simpa [buildSide] using hi) hx
  simp only [List.nil_append, List.length_nil, Nat.zero_add] at this
  exact ⟨_, hx, (mem_sortRecs xs _).mp (List.getElem_mem hsl), this⟩

/-- F: byte layout of the node data and the node index. -/
theorem c15_epoch_node_layout (e : Nat) (ns es : List KRec) (h : OkRecs nodeWs ns)
    (i : Nat) (en : Entry) (hi : (fromRecords e ns es).2.1[i]? = some en) :
    ∃ x, (sortRecs ns)[i]? = some x ∧ x ∈ ns ∧ en.id = x.1 ∧
      en.offset = (buildData ((sortRecs ns).take i)).length ∧
      en.length = (encRec x.2).length ∧
      en.offset + en.length ≤ (fromRecords e ns es).1.nodes.data.length ∧
      ((fromRecords e ns es).1.nodes.data.drop en.offset).take en.length = encRec x.2 :=
  side_layout nodeWs nodeWs_len ns h i en hi

theorem c15_epoch_edge_layout (e : Nat) (ns es : List KRec) (h : OkRecs edgeWs es)
    (i : Nat) (en : Entry) (hi : (fromRecords e ns es).2.2[i]? = some en) :
    ∃ x, (sortRecs es)[i]? = some x ∧ x ∈ es ∧ en.id = x.1 ∧
      en.offset = (buildData ((sortRecs es).take i)).length ∧
      en.length = (encRec x.2).length ∧
      en.offset + en.length ≤ (fromRecords e ns es).1.edges.data.length ∧
      ((fromRecords e ns es).1.edges.data.drop en.offset).take en.length = encRec x.2 :=
  side_layout edgeWs edgeWs_len es h i en hi

/-- F: the index is in ascending id order and the header's sizes are the data lengths. -/
theorem c15_epoch_index_sorted (e : Nat) (ns es : List KRec) :
    ((fromRecords e ns es).2.1.map (·.id)).Pairwise (· ≤ ·) ∧
    ((fromRecords e ns es).2.2.map (·.id)).Pairwise (· ≤ ·) := by
  have h1 := sorted_sortRecs ns
  have h2 := sorted_sortRecs es
  unfold SortedK at h1 h2
  simp only [fromRecords, buildSide, buildIdx_keys]
  exact ⟨List.pairwise_map.mpr h1, List.pairwise_map.mpr h2⟩

/-- W (parametric): `nodes.len() as u32` truncates — a block of exactly 2^32 records has
`node_count = 0` in its zone map, which then excludes every id, present ones included, and
`get_node_by_id` finds nothing. Not replayable (needs > 128 GiB). -/
theorem c15_epoch_count_truncation_witness (e : Nat) (ns es : List KRec) (h : ns.length = 4294967296) (id : Nat) :
    mightContain (fromRecords e ns es).1.nodes id = false ∧ (fromRecords e ns es).1.getNodeById id = none := by
  have : mightContain (fromRecords e ns es).1.nodes id = false := by
    simp [fromRecords, mightContain, buildSide, length_sortRecs, h]
  refine ⟨this, ?_⟩
  unfold Block.getNodeById getById
  rw [this]; rfl

/-! ## the store -/

def blockOf (p : Nat × List KRec × List KRec) : Nat × Block := (p.1, (fromRecords p.1 p.2.1 p.2.2).1)

/-- the store's map is the image of the plain map. -/
def Rel (s : Store) (sp : SpecStore) : Prop := s.blocks = sp.map blockOf

theorem filter_blockOf (p : Nat → Bool) (sp : SpecStore) :
    (sp.map blockOf).filter (fun q => p q.1) = (sp.filter (fun q => p q.1)).map blockOf := by
  induction sp with
  | nil => rfl
  | cons a rest ih =>
    simp only [List.map_cons, List.filter_cons, blockOf]
    split <;> simp [ih, blockOf]

theorem filter_not_of_length_zero {α : Type} (p : α → Bool) (l : List α) (h : (l.filter p).length = 0) :
    l.filter (fun x => !p x) = l := by
  induction l with
  | nil => rfl
  | cons a rest ih =>
    simp only [List.filter_cons] at h ⊢
    by_cases hp : p a
    · simp [hp] at h
    · simp only [hp] at h
      simp [hp, ih h]

theorem rel_freeze (s : Store) (sp : SpecStore) (e : Nat) (ns es : List KRec) (h : Rel s sp) :
    Rel (s.freeze e ns es).1 (specFreeze sp e ns es) := by
  unfold Rel at h ⊢
  simp only [Store.freeze, insertBlock, specFreeze, List.map_cons, h]
  rw [filter_blockOf (fun k => k != e) sp]
  rfl

theorem rel_gc (s : Store) (sp : SpecStore) (m : Nat) (h : Rel s sp) :
    Rel (s.gc m).1 (specGc sp m).1 ∧ (s.gc m).2 = (specGc sp m).2 := by
  unfold Rel at h ⊢
  have hg : (s.blocks.filter (fun p => decide (p.1 < m))).length = (sp.filter (fun p => decide (p.1 < m))).length := by
    rw [h, filter_blockOf (fun k => decide (k < m)) sp, List.length_map]
  unfold Store.gc specGc
  simp only
  by_cases hr : (s.blocks.filter (fun p => decide (p.1 < m))).length > 0
  · rw [if_pos hr]
    refine ⟨?_, hg⟩
    simp only [h]
    exact filter_blockOf (fun k => !decide (k < m)) sp
  · rw [if_neg hr]
    have h0 : (sp.filter (fun p => decide (p.1 < m))).length = 0 := by omega
    refine ⟨?_, by omega⟩
    simp only
    rw [filter_not_of_length_zero (fun p : Nat × List KRec × List KRec => decide (p.1 < m)) sp h0]
    exact h

theorem specFind_filter (p : Nat → Bool) (sp : SpecStore) (e : Nat) :
    specFind (sp.filter (fun q => p q.1)) e = if p e then specFind sp e else none := by
  induction sp with
  | nil => simp [specFind]
  | cons a rest ih =>
    obtain ⟨k, v⟩ := a
    by_cases hk : k = e
    · subst hk
      by_cases hp : p k
      · simp [List.filter_cons, hp, specFind]
      · simp [List.filter_cons, hp, specFind, ih]
    · by_cases hp : p k
      · simp [List.filter_cons, hp, specFind, hk, ih]
      · simp [List.filter_cons, hp, specFind, hk, ih]

theorem findBlock_rel (sp : SpecStore) (e : Nat) :
    findBlock (sp.map blockOf) e = (specFind sp e).map (fun v => (fromRecords e v.1 v.2).1) := by
  induction sp with
  | nil => rfl
  | cons a rest ih =>
    obtain ⟨k, v⟩ := a
    simp only [List.map_cons, blockOf, findBlock, specFind]
    by_cases hk : k = e
    · subst hk; simp
    · simp [hk, ih]

/-- F: refinement — after any history of `freeze_epoch` / `gc` the store's map is the image of
the plain map driven by the same history (freezing an epoch again replaces it). -/
theorem c15_epoch_store_refines (ops : List Op) : Rel (Store.empty.run ops) (specRun [] ops) := by
  have : ∀ (ops : List Op) (s : Store) (sp : SpecStore), Rel s sp → Rel (s.run ops) (specRun sp ops) := by
    intro ops
    induction ops with
    | nil => intro s sp h; exact h
    | cons op rest ih =>
      intro s sp h
      simp only [Store.run, specRun, List.foldl_cons]
      apply ih
      cases op with
      | freeze e ns es => exact rel_freeze s sp e ns es h
      | gc m => exact (rel_gc s sp m h).1
  exact this ops Store.empty [] rfl

/-- F: `gc(min)` reports the number of epochs below `min` and removes exactly those; the plain
map after `freeze` / `gc` behaves as a map (overwrite on re-freeze). -/
theorem c15_epoch_store_gc (ops : List Op) (m e : Nat) :
    ((Store.empty.run ops).gc m).2 = ((specRun [] ops).filter (fun p => decide (p.1 < m))).length ∧
    ((Store.empty.run ops).gc m).1.containsEpoch e =
      (if e < m then false else (Store.empty.run ops).containsEpoch e) := by
  have hr := c15_epoch_store_refines ops
  have hg := rel_gc _ _ m hr
  refine ⟨by rw [hg.2]; rfl, ?_⟩
  unfold Store.containsEpoch
  rw [hg.1, hr, findBlock_rel, findBlock_rel]
  simp only [Option.isSome_map, specGc]
  have h := specFind_filter (fun k => !decide (k < m)) (specRun [] ops) e
  rw [h]
  by_cases hem : e < m <;> simp [hem]

/-- every record list ever frozen is acceptable to `from_records`. -/
def OkOps (ops : List Op) : Prop :=
  ∀ op ∈ ops, match op with
    | .freeze _ ns es => OkRecs nodeWs ns ∧ OkRecs edgeWs es
    | .gc _ => True

def OkSpec (sp : SpecStore) : Prop := ∀ p ∈ sp, OkRecs nodeWs p.2.1 ∧ OkRecs edgeWs p.2.2

theorem okSpec_run (ops : List Op) (h : OkOps ops) : OkSpec (specRun [] ops) := by
  have : ∀ (ops : List Op) (sp : SpecStore), OkOps ops → OkSpec sp → OkSpec (specRun sp ops) := by
    intro ops
    induction ops with
    | nil => intro sp _ h; exact h
    | cons op rest ih =>
      intro sp ho hs
      simp only [specRun, List.foldl_cons]
      apply ih _ (fun o ho' => ho o (by simp [ho']))
      have h1 := ho op (by simp)
      cases op with
      | freeze e ns es =>
        intro p hp
        simp only [specStep, specFreeze, List.mem_cons] at hp
        rcases hp with rfl | hp
        · exact h1
        · exact hs p (List.mem_filter.mp hp).1
      | gc m =>
        intro p hp
        simp only [specStep, specGc] at hp
        exact hs p (List.mem_filter.mp hp).1
  exact this ops [] h (by intro p hp; simp at hp)

theorem specFind_mem (sp : SpecStore) (e : Nat) (v : List KRec × List KRec) (h : specFind sp e = some v) :
    (e, v) ∈ sp := by
  induction sp with
  | nil => simp [specFind] at h
  | cons a rest ih =>
    obtain ⟨k, w⟩ := a
    simp only [specFind] at h
    by_cases hk : k = e
    · simp [hk] at h; subst h; subst hk; simp
    · simp [hk] at h; exact List.mem_cons_of_mem _ (ih h)

/-- F: after any history, reading a retained epoch returns what was frozen last under it;
a collected or never frozen epoch returns nothing. -/
theorem c15_epoch_store_get (ops : List Op) (h : OkOps ops) (e id : Nat) :
    (Store.empty.run ops).getNodeById e id =
      (match specFind (specRun [] ops) e with
       | none => none
       | some v => lookupLast v.1 id) ∧
    (Store.empty.run ops).getEdgeById e id =
      (match specFind (specRun [] ops) e with
       | none => none
       | some v => lookupLast v.2 id) ∧
    (Store.empty.run ops).containsEpoch e = (specFind (specRun [] ops) e).isSome := by
  have hr := c15_epoch_store_refines ops
  have hok := okSpec_run ops h
  unfold Store.getNodeById Store.getEdgeById Store.containsEpoch
  rw [hr, findBlock_rel]
  cases hf : specFind (specRun [] ops) e with
  | none => simp
  | some v =>
    have := hok (e, v) (specFind_mem _ _ _ hf)
    simp only [Option.map_some, Option.isSome_some, and_true]
    exact ⟨c15_epoch_node_by_id e v.1 v.2 id this.1, c15_epoch_edge_by_id e v.1 v.2 id this.2⟩

/-- the plain map is a map: `freeze` overwrites, `gc` drops the keys below the mark. -/
theorem c15_epoch_spec_is_map (sp : SpecStore) (e e' m : Nat) (ns es : List KRec) :
    specFind (specFreeze sp e ns es) e' = (if e = e' then some (ns, es) else specFind sp e') ∧
    specFind (specGc sp m).1 e' = (if e' < m then none else specFind sp e') := by
  constructor
  · simp only [specFreeze, specFind]
    have h := specFind_filter (fun k => k != e) sp e'
    rw [h]
    by_cases hk : e = e'
    · simp [hk]
    · have : e' ≠ e := fun h' => hk h'.symm
      simp [hk, this]
  · simp only [specGc]
    have h := specFind_filter (fun k => !decide (k < m)) sp e'
    rw [h]
    by_cases hem : e' < m <;> simp [hem]

/-! ## the store's counters -/

def UniqueKeys (bs : List (Nat × Block)) : Prop := bs.Pairwise (fun a b => a.1 ≠ b.1)

/-- the counters say what the map holds. -/
def CountInv (s : Store) : Prop :=
  UniqueKeys s.blocks ∧ s.epochCount = s.blocks.length ∧ s.totalSize = sumSizes s.blocks

theorem filter_ne_absent (bs : List (Nat × Block)) (e : Nat) (h : ∀ a ∈ bs, a.1 ≠ e) :
    bs.filter (fun p => p.1 != e) = bs ∧ findBlock bs e = none := by
  induction bs with
  | nil => exact ⟨rfl, rfl⟩
  | cons a rest ih =>
    obtain ⟨k, b⟩ := a
    have hk : k ≠ e := h (k, b) (by simp)
    have := ih (fun a ha => h a (by simp [ha]))
    simp [List.filter_cons, findBlock, hk, this.1, this.2]

theorem filter_ne_split (bs : List (Nat × Block)) (e : Nat) (hu : UniqueKeys bs) :
    match findBlock bs e with
    | some b => (bs.filter (fun p => p.1 != e)).length + 1 = bs.length ∧
        sumSizes (bs.filter (fun p => p.1 != e)) + b.compressedSize = sumSizes bs
    | none => bs.filter (fun p => p.1 != e) = bs := by
  induction bs with
  | nil => simp [findBlock]
  | cons a rest ih =>
    obtain ⟨k, b⟩ := a
    unfold UniqueKeys at hu ih
    rw [List.pairwise_cons] at hu
    by_cases hk : k = e
    · subst hk
      have := filter_ne_absent rest k (fun a ha => Ne.symm (hu.1 a ha))
      simp [List.filter_cons, findBlock, this.1, sumSizes, Nat.add_comm]
    · have := ih hu.2
      simp only [findBlock, hk, if_false]
      cases hf : findBlock rest e with
      | none =>
        rw [hf] at this
        simp [List.filter_cons, hk, this]
      | some b' =>
        rw [hf] at this
        simp only [List.filter_cons, bne_iff_ne, ne_eq, hk, not_false_eq_true, decide_true, if_true,
          List.length_cons, sumSizes]
        omega

theorem sumSizes_partition (p : Nat × Block → Bool) (bs : List (Nat × Block)) :
    sumSizes (bs.filter p) + sumSizes (bs.filter (fun x => !p x)) = sumSizes bs ∧
    (bs.filter p).length + (bs.filter (fun x => !p x)).length = bs.length := by
  induction bs with
  | nil => simp [sumSizes]
  | cons a rest ih =>
    obtain ⟨k, b⟩ := a
    by_cases hp : p (k, b) = true
    · simp only [List.filter_cons, hp, if_true, Bool.not_true, Bool.false_eq_true, if_false, sumSizes,
        List.length_cons]
      constructor <;> omega
    · have hp' : p (k, b) = false := by simpa using hp
      simp only [List.filter_cons, hp', Bool.false_eq_true, if_false, Bool.not_false, if_true, sumSizes,
        List.length_cons]
      constructor <;> omega

theorem countInv_freeze (s : Store) (e : Nat) (ns es : List KRec) (h : CountInv s) :
    CountInv (s.freeze e ns es).1 := by
  obtain ⟨hu, hc, ht⟩ := h
  have hsplit := filter_ne_split s.blocks e hu
  refine ⟨?_, ?_, ?_⟩
  · unfold UniqueKeys at hu ⊢
    simp only [Store.freeze, insertBlock]
    rw [List.pairwise_cons]
    refine ⟨?_, hu.filter _⟩
    intro a ha
    have := (List.mem_filter.mp ha).2
    simp only [bne_iff_ne, ne_eq] at this
    exact fun h' => this h'.symm
  · simp only [Store.freeze, insertBlock, List.length_cons]
    cases hf : findBlock s.blocks e with
    | none => rw [hf] at hsplit; simp only [hsplit]; omega
    | some b => rw [hf] at hsplit; simp only; omega
  · simp only [Store.freeze, insertBlock, sumSizes]
    cases hf : findBlock s.blocks e with
    | none => rw [hf] at hsplit; simp only [hsplit]; omega
    | some b => rw [hf] at hsplit; simp only; omega

theorem countInv_gc (s : Store) (m : Nat) (h : CountInv s) : CountInv (s.gc m).1 := by
  obtain ⟨hu, hc, ht⟩ := h
  have hp := sumSizes_partition (fun p => decide (p.1 < m)) s.blocks
  unfold Store.gc
  simp only
  by_cases hr : (s.blocks.filter (fun p => decide (p.1 < m))).length > 0
  · rw [if_pos hr]
    refine ⟨hu.filter _, ?_, ?_⟩
    · simp only; omega
    · simp only; omega
  · rw [if_neg hr]; exact ⟨hu, hc, ht⟩

theorem countInv_run (ops : List Op) : CountInv (Store.empty.run ops) := by
  have : ∀ (ops : List Op) (s : Store), CountInv s → CountInv (s.run ops) := by
    intro ops
    induction ops with
    | nil => intro s h; exact h
    | cons op rest ih =>
      intro s h
      simp only [Store.run, List.foldl_cons]
      apply ih
      cases op with
      | freeze e ns es => exact countInv_freeze s e ns es h
      | gc m => exact countInv_gc s m h
  exact this ops Store.empty ⟨List.Pairwise.nil, rfl, rfl⟩

/-- F: after every history of `freeze_epoch` / `gc` (re-freezing included) `epoch_count()` is the
number of retained epochs — the size of the map, `stats().epoch_count`, the size of the plain
map — and `total_size()` is the sum of the retained blocks' sizes (`stats().total_compressed_bytes`). -/
theorem c15_epoch_store_counters (ops : List Op) :
    (Store.empty.run ops).epochCount = (Store.empty.run ops).blocks.length ∧
    (Store.empty.run ops).epochCount = (Store.empty.run ops).stats.1 ∧
    (Store.empty.run ops).epochCount = (specRun [] ops).length ∧
    (Store.empty.run ops).totalSize = sumSizes (Store.empty.run ops).blocks ∧
    (Store.empty.run ops).totalSize = (Store.empty.run ops).stats.2.2.2.1 := by
  have h := countInv_run ops
  have hr := c15_epoch_store_refines ops
  unfold Rel at hr
  refine ⟨h.2.1, h.2.1, ?_, h.2.2, h.2.2⟩
  rw [h.2.1, hr, List.length_map]

/-- F: once `gc` has removed every retained epoch both counters are back to zero. -/
theorem c15_epoch_store_counters_zero (ops : List Op) (m : Nat)
    (hall : ∀ p ∈ (Store.empty.run ops).blocks, p.1 < m) :
    ((Store.empty.run ops).gc m).1.blocks = [] ∧
    ((Store.empty.run ops).gc m).1.epochCount = 0 ∧
    ((Store.empty.run ops).gc m).1.totalSize = 0 := by
  have h := countInv_gc _ m (countInv_run ops)
  have hb : ((Store.empty.run ops).gc m).1.blocks = [] := by
    unfold Store.gc
    simp only
    split
    · simp only [List.filter_eq_nil_iff]
      intro a ha; simp [hall a ha]
    · rename_i hr
      have : (Store.empty.run ops).blocks = [] := by
        cases hbs : (Store.empty.run ops).blocks with
        | nil => rfl
        | cons a rest =>
          exfalso; apply hr
          rw [hbs] at hall
          rw [hbs]
          have := hall a (by simp)
          simp [List.filter_cons, this]
      exact this
  refine ⟨hb, ?_, ?_⟩
  · rw [h.2.1, hb]; rfl
  · rw [h.2.2, hb]; rfl

/-- W (regression, the code before repair 086e8b7): freezing an epoch that is already frozen
replaced its block but bumped `epoch_count` and `total_size` again; after collecting everything
the counters still said one epoch, 8 bytes. The repaired `freeze` on the same history is exact. -/
theorem c15_epoch_store_refreeze_witness :
    let ops := [Op.freeze 1 [(1, [1,1,0,0,0,0,0,0])] [], Op.freeze 1 [(2, [2,1,0,0,0,0,0,0])] []]
    let s := Old.run Store.empty ops
    let t := Store.empty.run ops
    s.epochCount = 2 ∧ s.blocks.length = 1 ∧ s.totalSize = 16 ∧ sumSizes s.blocks = 8 ∧
    (s.gc 2).1.blocks.length = 0 ∧ (s.gc 2).1.epochCount = 1 ∧ (s.gc 2).1.totalSize = 8 ∧
    t.epochCount = 1 ∧ t.totalSize = 8 ∧ (t.gc 2).1.epochCount = 0 ∧ (t.gc 2).1.totalSize = 0 := by
  decide

end Grafeo.Epoch
