import GrafeoModel.Model.Fact

/-! C10 (factorized or flat execution gives the same answer): theorems about the model of the
factorized chunk (`Model/Fact.lean`) against the flat relation it denotes (`denoteGen`). -/
namespace Grafeo.Fact

/-- group count of the deepest level of a chain below a level with `n` values -/
def lastGc : Nat → List Level → Nat
  | n, [] => n
  | _, l :: ls => lastGc l.groupCount ls

/-! ### the two per-level steps have the same shape -/

theorem stepCounts_length (cs ms : List Nat) (h : cs.length = ms.length) :
    (stepCounts cs ms).length = ms.sum := by
  fun_induction stepCounts cs ms with
  | case1 ms => cases ms <;> simp_all
  | case2 c cs => simp at h
  | case3 pc cs m ms ih =>
    simp only [List.length_cons, Nat.add_right_cancel_iff] at h
    simp [ih h]

theorem expandGen_length {β : Type} (rs : List (List β)) (ms : List Nat) (vs : List β)
    (h : rs.length = ms.length) (hv : vs.length = ms.sum) :
    (expandGen rs ms vs).length = ms.sum := by
  fun_induction expandGen rs ms vs with
  | case1 ms vs => cases ms <;> simp_all
  | case2 r rs vs => simp at h
  | case3 r rs m ms vs ih =>
    simp only [List.length_cons, Nat.add_right_cancel_iff] at h
    simp only [List.sum_cons] at hv ⊢
    have : (List.drop m vs).length = ms.sum := by simp [hv]
    simp [ih h this, hv, Nat.min_eq_left]

theorem stepCounts_ones (n : Nat) (ms : List Nat) (h : ms.length = n) :
    stepCounts (List.replicate n 1) ms = List.replicate ms.sum 1 := by
  induction ms generalizing n with
  | nil => subst h; simp [stepCounts]
  | cons m ms ih =>
    subst h
    simp only [List.length_cons, List.replicate_succ, stepCounts, List.sum_cons]
    rw [ih ms.length rfl, List.replicate_append_replicate]

/-- the entries a level contributes are, in order, exactly that level's values: row `k` of the
denoted relation ends in value `k` of the deepest level -/
theorem expandGen_last {β : Type} (rs : List (List β)) (ms : List Nat) (vs : List β)
    (h : rs.length = ms.length) (hv : vs.length = ms.sum) :
    (expandGen rs ms vs).map List.getLast? = vs.map some := by
  fun_induction expandGen rs ms vs with
  | case1 ms vs => cases ms <;> simp_all
  | case2 r rs vs => simp at h
  | case3 r rs m ms vs ih =>
    simp only [List.length_cons, Nat.add_right_cancel_iff] at h
    simp only [List.sum_cons] at hv
    have hd : (List.drop m vs).length = ms.sum := by simp [hv]
    rw [List.map_append, ih h hd]
    simp only [List.map_map]
    have : (List.getLast? ∘ fun v => r ++ [v]) = (some : β → Option β) := by
      funext v; simp
    rw [this, ← List.map_append, List.take_append_drop]

/-! ### chains of levels -/

theorem fold_counts_length (rest : List Level) : ∀ (n : Nat) (cs : List Nat), wfChain n rest → cs.length = n →
    (rest.foldl (fun cs l => stepCounts cs l.mults) cs).length = lastGc n rest := by
  induction rest with
  | nil => intro n cs _ hc; simpa [lastGc] using hc
  | cons l ls ih =>
    intro n cs hw hc
    obtain ⟨hm, hg, _, _, hrest⟩ := hw
    simp only [List.foldl_cons, lastGc]
    apply ih _ _ hrest
    rw [stepCounts_length _ _ (by omega), hg]

theorem fold_counts_ones (rest : List Level) : ∀ (n : Nat), wfChain n rest →
    rest.foldl (fun cs l => stepCounts cs l.mults) (List.replicate n 1) = List.replicate (lastGc n rest) 1 := by
  induction rest with
  | nil => intro n _; simp [lastGc]
  | cons l ls ih =>
    intro n hw
    obtain ⟨hm, hg, _, _, hrest⟩ := hw
    simp only [List.foldl_cons, lastGc]
    rw [stepCounts_ones n l.mults hm, ← hg]
    exact ih _ hrest

theorem fold_rows_length {β : Type} (f : Level → List β) (hf : ∀ l, (f l).length = l.groupCount)
    (rest : List Level) : ∀ (n : Nat) (rows : List (List β)), wfChain n rest → rows.length = n →
    (rest.foldl (fun rows l => expandGen rows l.mults (f l)) rows).length = lastGc n rest := by
  induction rest with
  | nil => intro n rows _ hr; simpa [lastGc] using hr
  | cons l ls ih =>
    intro n rows hw hr
    obtain ⟨hm, hg, _, _, hrest⟩ := hw
    simp only [List.foldl_cons, lastGc]
    apply ih _ _ hrest
    rw [expandGen_length _ _ _ (by omega) (by rw [hf, hg]), hg]

theorem valRows_length (l : Level) : l.valRows.length = l.groupCount := by simp [Level.valRows]
theorem idxs_length (l : Level) : l.idxs.length = l.groupCount := by simp [Level.idxs]

/-- **logical_row_count = number of denoted rows**, for every well-formed chunk (any number of
levels, any fan-outs including 0): `recompute_logical_row_count` counts exactly the rows of the flat
relation. -/
theorem c10f_lrc_eq_rows (levels : List Level) (hw : wfLevels levels) :
    recompute levels = (denote levels).length := by
  cases levels with
  | nil => simp [recompute, pathMults, denote, denoteGen]
  | cons l0 rest =>
    obtain ⟨_, hrest⟩ := hw
    simp only [recompute, pathMults, denote, denoteGen]
    rw [fold_counts_length rest l0.groupCount _ hrest (by simp),
      fold_rows_length Level.valRows valRows_length rest l0.groupCount _ hrest (by simp [valRows_length])]

/-- the same for the index tuples -/
theorem c10f_lrc_eq_idx_rows (levels : List Level) (hw : wfLevels levels) :
    recompute levels = (denoteIdx levels).length := by
  cases levels with
  | nil => simp [recompute, pathMults, denoteIdx, denoteGen]
  | cons l0 rest =>
    obtain ⟨_, hrest⟩ := hw
    simp only [recompute, pathMults, denoteIdx, denoteGen]
    rw [fold_counts_length rest l0.groupCount _ hrest (by simp),
      fold_rows_length Level.idxs idxs_length rest l0.groupCount _ hrest (by simp [idxs_length])]

/-- **path multiplicities**: in a well-formed chunk every deepest value lies on exactly one path
(`compute_path_multiplicities` is all ones, one per deepest value) -/
theorem c10f_pathMults_ones (l0 : Level) (rest : List Level) (hw : wfLevels (l0 :: rest)) :
    pathMults (l0 :: rest) = List.replicate (lastGc l0.groupCount rest) 1 := by
  obtain ⟨_, hrest⟩ := hw
  simp only [pathMults]
  exact fold_counts_ones rest _ hrest

/-! ### adding a level = the flat expand -/

/-- denotation of a chunk with one more level: by definition the flat expand of the rows so far -/
theorem c10f_denote_snoc {β : Type} (f : Level → List β) (l0 : Level) (pre : List Level) (l : Level) :
    denoteGen f (l0 :: (pre ++ [l])) = expandGen (denoteGen f (l0 :: pre)) l.mults (f l) := by
  simp [denoteGen, List.foldl_append]

/-- the flat expand written with an adjacency: when row `k` has the children `ch k` (listed
consecutively in the new level, `mults[k] = |ch k|`), the result is the `flatMap` of the rows. -/
theorem expandGen_flatMap {β γ : Type} (ch : γ → List β) (rs : List (List β)) (keys : List γ)
    (h : rs.length = keys.length) :
    expandGen rs (keys.map fun k => (ch k).length) (keys.flatMap ch) =
      (rs.zip keys).flatMap fun p => (ch p.2).map fun v => p.1 ++ [v] := by
  induction keys generalizing rs with
  | nil => cases rs <;> simp [expandGen]
  | cons k ks ih =>
    cases rs with
    | nil => simp at h
    | cons r rs =>
      simp only [List.length_cons, Nat.add_right_cancel_iff] at h
      simp only [List.map_cons, List.flatMap_cons, expandGen, List.zip_cons_cons]
      rw [List.take_left' rfl, List.drop_left' rfl, ih rs h]

/-- nonvacuity: a three-level chunk with fan-outs 0, 1 and 2 is well-formed and denotes two rows -/
def exLevels : List Level :=
  [ { cols := [[some 1, some 2]], offs := none, groupCount := 2, mults := [1, 1] },
    { cols := [[some 5, some 6]], offs := some [0, 1, 2], groupCount := 2, mults := [1, 1] },
    { cols := [[some 8, some 9]], offs := some [0, 0, 2], groupCount := 2, mults := [0, 2] } ]

theorem c10f_nonvacuity :
    flatRows exLevels = [[some 2, some 6, some 8], [some 2, some 6, some 9]] ∧
    recompute exLevels = 2 ∧ riRows exLevels = denoteIdx exLevels ∧ pcRows exLevels = denoteIdx exLevels := by
  decide

theorem exLevels_wf : wfLevels exLevels := by
  simp [exLevels, wfLevels, wfChain, prefixSums]

/-! ### deviations of the aggregates when the deepest column holds nulls (library level: the planner
only aggregates the never-null `_target` column) -/

/-- witness: `avg_deepest` divides by the logical row count, null rows included (flat AVG skips them) -/
theorem c10f_avg_null_witness :
    avgDeepest (withFlatLevel [[some 1, none, some 3]]) 0 = some (4, 3) ∧
    specAvg [some 1, none, some 3] = some (4, 2) := by decide

/-- witness: `min_deepest` treats Null as the least value (flat MIN skips nulls) -/
theorem c10f_min_null_witness :
    minDeepest (withFlatLevel [[some 1, none, some 3]]) 0 = some none ∧
    specMin [some 1, none, some 3] = some 1 := by decide

/-- witness: one hop that matches nothing makes the chain drop the chunk (empty relation), while
the first expansion step alone (`FactorizedExpandOperator`) keeps the unexpanded source level -/
theorem c10f_chain_empty_hop_witness :
    (match chain (fun _ => []) [some 0, some 1] 1 with | .noResult => true | _ => false) = true ∧
    flatChain (fun _ => []) [some 0, some 1] 1 = [] := by decide

end Grafeo.Fact
