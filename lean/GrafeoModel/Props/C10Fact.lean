import GrafeoModel.Model.Fact

/-! C10 (factorized or flat execution gives the same answer): theorems about the model of the
factorized chunk (`Model/Fact.lean`) against the flat relation it denotes (`denoteGen`). -/
namespace Grafeo.Fact

/-- group count of the deepest level of a chain below a level with `n` values -/
def lastGc : Nat → List Level → Nat
  | n, [] => n
  | _, l :: ls => lastGc l.groupCount ls

/-! ### the two per-level steps have the same shape -/

theorem stepCounts_length (cs ms : List Nat) (h : cs.length = ms.length) :
    (stepCounts cs ms).length = ms.sum := by
  fun_induction stepCounts cs ms with
  | case1 ms => cases ms <;> simp_all
  | case2 c cs => simp at h
  | case3 pc cs m ms ih =>
    simp only [List.length_cons, Nat.add_right_cancel_iff] at h
    simp [ih h]

theorem expandGen_length {β : Type} (rs : List (List β)) (ms : List Nat) (vs : List β)
    (h : rs.length = ms.length) (hv : vs.length = ms.sum) :
    (expandGen rs ms vs).length = ms.sum := by
  fun_induction expandGen rs ms vs with
  | case1 ms vs => cases ms <;> simp_all
  | case2 r rs vs => simp at h
  | case3 r rs m ms vs ih =>
    simp only [List.length_cons, Nat.add_right_cancel_iff] at h
    simp only [List.sum_cons] at hv ⊢
    have : (List.drop m vs).length = ms.sum := by simp [hv]
    simp [ih h this, hv, Nat.min_eq_left]

theorem stepCounts_ones (n : Nat) (ms : List Nat) (h : ms.length = n) :
    stepCounts (List.replicate n 1) ms = List.replicate ms.sum 1 := by
  induction ms generalizing n with
  | nil => subst h; simp [stepCounts]
  | cons m ms ih =>
    subst h
    simp only [List.length_cons, List.replicate_succ, stepCounts, List.sum_cons]
    rw [ih ms.length rfl, List.replicate_append_replicate]

/-- the entries a level contributes are, in order, exactly that level's values: row `k` of the
denoted relation ends in value `k` of the deepest level -/
theorem expandGen_last {β : Type} (rs : List (List β)) (ms : List Nat) (vs : List β)
    (h : rs.length = ms.length) (hv : vs.length = ms.sum) :
    (expandGen rs ms vs).map List.getLast? = vs.map some := by
  fun_induction expandGen rs ms vs with
  | case1 ms vs => cases ms <;> simp_all
  | case2 r rs vs => simp at h
  | case3 r rs m ms vs ih =>
    simp only [List.length_cons, Nat.add_right_cancel_iff] at h
    simp only [List.sum_cons] at hv
    have hd : (List.drop m vs).length = ms.sum := by simp [hv]
    rw [List.map_append, ih h hd]
    simp only [List.map_map]
    have : (List.getLast? ∘ fun v => r ++ [v]) = (some : β → Option β) := by
      funext v; simp
    rw [this, ← List.map_append, List.take_append_drop]

/-! ### chains of levels -/

theorem fold_counts_length (rest : List Level) : ∀ (n : Nat) (cs : List Nat), wfChain n rest → cs.length = n →
    (rest.foldl (fun cs l => stepCounts cs l.mults) cs).length = lastGc n rest := by
  induction rest with
  | nil => intro n cs _ hc; simpa [lastGc] using hc
  | cons l ls ih =>
    intro n cs hw hc
    obtain ⟨hm, hg, _, _, hrest⟩ := hw
    simp only [List.foldl_cons, lastGc]
    apply ih _ _ hrest
    rw [stepCounts_length _ _ (by omega), hg]

theorem fold_counts_ones (rest : List Level) : ∀ (n : Nat), wfChain n rest →
    rest.foldl (fun cs l => stepCounts cs l.mults) (List.replicate n 1) = List.replicate (lastGc n rest) 1 := by
  induction rest with
  | nil => intro n _; simp [lastGc]
  | cons l ls ih =>
    intro n hw
    obtain ⟨hm, hg, _, _, hrest⟩ := hw
    simp only [List.foldl_cons, lastGc]
    rw [stepCounts_ones n l.mults hm, ← hg]
    exact ih _ hrest

theorem fold_rows_length {β : Type} (f : Level → List β) (hf : ∀ l, (f l).length = l.groupCount)
    (rest : List Level) : ∀ (n : Nat) (rows : List (List β)), wfChain n rest → rows.length = n →
    (rest.foldl (fun rows l => expandGen rows l.mults (f l)) rows).length = lastGc n rest := by
  induction rest with
  | nil => intro n rows _ hr; simpa [lastGc] using hr
  | cons l ls ih =>
    intro n rows hw hr
    obtain ⟨hm, hg, _, _, hrest⟩ := hw
    simp only [List.foldl_cons, lastGc]
    apply ih _ _ hrest
    rw [expandGen_length _ _ _ (by omega) (by rw [hf, hg]), hg]

theorem valRows_length (l : Level) : l.valRows.length = l.groupCount := by simp [Level.valRows]
theorem idxs_length (l : Level) : l.idxs.length = l.groupCount := by simp [Level.idxs]

/-- **logical_row_count = number of denoted rows**, for every well-formed chunk (any number of
levels, any fan-outs including 0): `recompute_logical_row_count` counts exactly the rows of the flat
relation. -/
theorem c10f_lrc_eq_rows (levels : List Level) (hw : wfLevels levels) :
    recompute levels = (denote levels).length := by
  cases levels with
  | nil => simp [recompute, pathMults, denote, denoteGen]
  | cons l0 rest =>
    obtain ⟨_, hrest⟩ := hw
    simp only [recompute, pathMults, denote, denoteGen]
    rw [fold_counts_length rest l0.groupCount _ hrest (by simp),
      fold_rows_length Level.valRows valRows_length rest l0.groupCount _ hrest (by simp [valRows_length])]

/-- the same for the index tuples -/
theorem c10f_lrc_eq_idx_rows (levels : List Level) (hw : wfLevels levels) :
    recompute levels = (denoteIdx levels).length := by
  cases levels with
  | nil => simp [recompute, pathMults, denoteIdx, denoteGen]
  | cons l0 rest =>
    obtain ⟨_, hrest⟩ := hw
    simp only [recompute, pathMults, denoteIdx, denoteGen]
    rw [fold_counts_length rest l0.groupCount _ hrest (by simp),
      fold_rows_length Level.idxs idxs_length rest l0.groupCount _ hrest (by simp [idxs_length])]

/-- **path multiplicities**: in a well-formed chunk every deepest value lies on exactly one path
(`compute_path_multiplicities` is all ones, one per deepest value) -/
theorem c10f_pathMults_ones (l0 : Level) (rest : List Level) (hw : wfLevels (l0 :: rest)) :
    pathMults (l0 :: rest) = List.replicate (lastGc l0.groupCount rest) 1 := by
  obtain ⟨_, hrest⟩ := hw
  simp only [pathMults]
  exact fold_counts_ones rest _ hrest

/-! ### adding a level = the flat expand -/

/-- denotation of a chunk with one more level: by definition the flat expand of the rows so far -/
theorem c10f_denote_snoc {β : Type} (f : Level → List β) (l0 : Level) (pre : List Level) (l : Level) :
    denoteGen f (l0 :: (pre ++ [l])) = expandGen (denoteGen f (l0 :: pre)) l.mults (f l) := by
  simp [denoteGen, List.foldl_append]

/-- the flat expand written with an adjacency: when row `k` has the children `ch k` (listed
consecutively in the new level, `mults[k] = |ch k|`), the result is the `flatMap` of the rows. -/
theorem expandGen_flatMap {β γ : Type} (ch : γ → List β) (rs : List (List β)) (keys : List γ)
    (h : rs.length = keys.length) :
    expandGen rs (keys.map fun k => (ch k).length) (keys.flatMap ch) =
      (rs.zip keys).flatMap fun p => (ch p.2).map fun v => p.1 ++ [v] := by
  induction keys generalizing rs with
  | nil => cases rs <;> simp [expandGen]
  | cons k ks ih =>
    cases rs with
    | nil => simp at h
    | cons r rs =>
      simp only [List.length_cons, Nat.add_right_cancel_iff] at h
      simp only [List.map_cons, List.flatMap_cons, expandGen, List.zip_cons_cons]
      rw [List.take_left' rfl, List.drop_left' rfl, ih rs h]

/-- nonvacuity: a three-level chunk with fan-outs 0, 1 and 2 is well-formed and denotes two rows -/
def exLevels : List Level :=
  [ { cols := [[some 1, some 2]], offs := none, groupCount := 2, mults := [1, 1] },
    { cols := [[some 5, some 6]], offs := some [0, 1, 2], groupCount := 2, mults := [1, 1] },
    { cols := [[some 8, some 9]], offs := some [0, 0, 2], groupCount := 2, mults := [0, 2] } ]

theorem c10f_nonvacuity :
    flatRows exLevels = [[some 2, some 6, some 8], [some 2, some 6, some 9]] ∧
    recompute exLevels = 2 ∧ riRows exLevels = denoteIdx exLevels ∧ pcRows exLevels = denoteIdx exLevels := by
  decide

theorem exLevels_wf : wfLevels exLevels := by
  simp [exLevels, wfLevels, wfChain, prefixSums]

/-! ### aggregates on the deepest level = the flat aggregates over the denoted rows -/

theorem wfChain_append (pre : List Level) (l : Level) : ∀ n, wfChain n (pre ++ [l]) →
    wfChain n pre ∧ l.mults.length = lastGc n pre ∧ l.groupCount = l.mults.sum ∧
      (∀ d ∈ l.cols, d.length = l.groupCount) := by
  induction pre with
  | nil =>
    intro n h
    simp only [List.nil_append, wfChain] at h
    obtain ⟨a, b, _, d, _⟩ := h
    exact ⟨trivial, by simpa [lastGc] using a, b, d⟩
  | cons p ps ih =>
    intro n h
    simp only [List.cons_append, wfChain] at h
    obtain ⟨a, b, c, d, e⟩ := h
    have := ih _ e
    simp only [wfChain, lastGc]
    exact ⟨⟨a, b, c, d, this.1⟩, this.2⟩

theorem range_map_getElem_join (col : List (Option Int)) (n : Nat) (h : col.length = n) :
    (List.range n).map (fun j => (col[j]?).join) = col := by
  apply List.ext_getElem
  · simp [h]
  · intro i h1 h2
    simp at h1
    simp [List.getElem?_eq_getElem (show i < col.length by omega)]

theorem valRows_col (l : Level) (ci : Nat) (col : List (Option Int)) (hc : l.cols[ci]? = some col)
    (hl : col.length = l.groupCount) :
    l.valRows.map (fun v => (v[ci]?).join) = col := by
  simp only [Level.valRows, List.map_map]
  rw [← range_map_getElem_join col l.groupCount hl]
  apply List.map_congr_left
  intro j _
  simp [Level.rowAt, hc]

/-- the values of deepest column `ci` along the denoted rows are that column, in order -/
theorem denote_lastVals (l0 : Level) (rest : List Level) (hw : wfLevels (l0 :: rest)) (dl : Level)
    (hd : (l0 :: rest).getLast? = some dl) (ci : Nat) (col : List (Option Int)) (hc : dl.cols[ci]? = some col) :
    (denote (l0 :: rest)).map (lastVal ci) = col ∧ col.length = lastGc l0.groupCount rest := by
  rcases List.eq_nil_or_concat rest with rfl | ⟨pre, l, rfl⟩
  all_goals (try simp only [List.concat_eq_append] at *)
  · simp at hd; subst hd
    have hl : col.length = l0.groupCount := hw.1 col (List.mem_of_getElem? hc)
    refine ⟨?_, by simpa [lastGc] using hl⟩
    simp only [denote, denoteGen, List.foldl_nil, List.map_map]
    rw [← valRows_col l0 ci col hc hl]
    apply List.map_congr_left
    intro v _
    simp [lastVal]
  · have hdl : l = dl := by
      have : (l0 :: (pre ++ [l])).getLast? = some l := by
        exact List.getLast?_eq_some_iff.mpr ⟨l0 :: pre, rfl⟩
      rw [this] at hd; exact Option.some.inj hd
    subst hdl
    obtain ⟨h0, hch⟩ := hw
    obtain ⟨hpre, hm, hg, hcols⟩ := wfChain_append pre l _ hch
    have hl : col.length = l.groupCount := hcols col (List.mem_of_getElem? hc)
    have hlast : lastGc l0.groupCount (pre ++ [l]) = l.groupCount := by
      clear hd hch hpre hm h0
      generalize l0.groupCount = n
      induction pre generalizing n with
      | nil => simp [lastGc]
      | cons p ps ih => simpa [lastGc] using ih p.groupCount
    refine ⟨?_, by rw [hlast]; exact hl⟩
    have hrows : (denote (l0 :: pre)).length = l.mults.length := by
      simp only [denote, denoteGen]
      rw [fold_rows_length Level.valRows valRows_length pre l0.groupCount _ hpre (by simp [valRows_length]), hm]
    simp only [denote] at hrows ⊢
    rw [c10f_denote_snoc]
    have hv : l.valRows.length = l.mults.sum := by rw [valRows_length, hg]
    have key := expandGen_last (denoteGen Level.valRows (l0 :: pre)) l.mults l.valRows hrows hv
    have : (expandGen (denoteGen Level.valRows (l0 :: pre)) l.mults l.valRows).map (lastVal ci) =
        ((expandGen (denoteGen Level.valRows (l0 :: pre)) l.mults l.valRows).map List.getLast?).map
          (fun o => match o with | some v => (v[ci]?).join | none => none) := by
      simp only [List.map_map]
      apply List.map_congr_left
      intro r _
      cases h : r.getLast? <;> simp [lastVal, h]
    rw [this, key, List.map_map]
    rw [← valRows_col l ci col hc hl]
    apply List.map_congr_left
    intro v _
    simp

theorem zipIdx_replicate_map {γ : Type} (n : Nat) (f : Nat × Nat → γ) :
    (List.replicate n 1).zipIdx.map f = (List.range n).map (fun j => f (1, j)) := by
  apply List.ext_getElem
  · simp
  · intro i h1 h2
    simp at h1
    simp

theorem range_map_col {γ : Type} (col : List (Option Int)) (F : Nat → γ) (G : Option Int → γ)
    (h : ∀ j (hj : j < col.length), F j = G col[j]) :
    (List.range col.length).map F = col.map G := by
  apply List.ext_getElem
  · simp
  · intro i h1 h2
    simp at h1
    simp [h i h1]

theorem sum_skip_nulls (col : List (Option Int)) :
    (col.map fun v => match v with | some x => x | none => (0 : Int)).sum = specSum col := by
  induction col with
  | nil => simp [specSum, nonNull]
  | cons v vs ih => cases v <;> simp_all [specSum, nonNull]

theorem count_skip_nulls (col : List (Option Int)) :
    (col.map fun v => match v with | some _ => (1 : Int) | none => (0 : Int)).sum = specCountCol col := by
  induction col with
  | nil => simp [specCountCol, nonNull]
  | cons v vs ih =>
    cases v with
    | none => simp_all [specCountCol, nonNull]
    | some x => simp_all [specCountCol, nonNull]; omega

/-- **SUM**: `sum_deepest` = the sum of the non-null values of that column over the denoted rows —
for every well-formed chunk, nulls included -/
theorem c10f_sum_eq (c : Chunk) (l0 : Level) (rest : List Level) (hl : c.levels = l0 :: rest)
    (hw : wfLevels c.levels) (ci : Nat) (col : List (Option Int)) (hc : deepestCol c ci = some col) :
    sumDeepest c ci = some (specSum ((denote c.levels).map (lastVal ci))) := by
  unfold deepestCol at hc
  cases hd : c.levels.getLast? with
  | none => simp [hd] at hc
  | some dl =>
    simp only [hd] at hc
    rw [hl] at hw hd
    obtain ⟨hv, hlen⟩ := denote_lastVals l0 rest hw dl hd ci col hc
    simp only [sumDeepest, deepestCol, hl, hd, hc, hv]
    rw [c10f_pathMults_ones l0 rest hw, ← hlen, zipIdx_replicate_map,
      range_map_col col _ (fun v => match v with | some x => x | none => (0 : Int))
        (by intro j hj; simp only [List.getElem?_eq_getElem hj]; cases col[j] <;> simp),
      sum_skip_nulls]

/-- **COUNT(column)**: nulls included -/
theorem c10f_countColumn_eq (c : Chunk) (l0 : Level) (rest : List Level) (hl : c.levels = l0 :: rest)
    (hw : wfLevels c.levels) (ci : Nat) (col : List (Option Int)) (hc : deepestCol c ci = some col) :
    countColumn c ci = specCountCol ((denote c.levels).map (lastVal ci)) := by
  unfold deepestCol at hc
  cases hd : c.levels.getLast? with
  | none => simp [hd] at hc
  | some dl =>
    simp only [hd] at hc
    rw [hl] at hw hd
    obtain ⟨hv, hlen⟩ := denote_lastVals l0 rest hw dl hd ci col hc
    simp only [countColumn, deepestCol, hl, hd, hc, hv]
    rw [c10f_pathMults_ones l0 rest hw, ← hlen, zipIdx_replicate_map,
      range_map_col col _ (fun v => match v with | some _ => (1 : Int) | none => (0 : Int))
        (by intro j hj; simp only [List.getElem?_eq_getElem hj]; cases col[j] <;> simp),
      count_skip_nulls]

/-- the null-free fragment (decidable) -/
def nullFree (col : List (Option Int)) : Bool := col.all Option.isSome

theorem minFold_nullFree (col : List (Option Int)) (h : nullFree col = true) (a : Option Int) :
    col.foldl (fun acc v => match acc with
        | none => some v
        | some cur => if valueLt v cur then some v else some cur) (a.map some) =
      ((nonNull col).foldl (fun acc v => match acc with
        | none => some v
        | some a => if v < a then some v else some a) a).map some := by
  induction col generalizing a with
  | nil => simp [nonNull]
  | cons v vs ih =>
    simp only [nullFree, List.all_cons, Bool.and_eq_true] at h
    cases v with
    | none => simp at h
    | some x =>
      cases a with
      | none => exact ih h.2 (some x)
      | some a =>
        have e1 : (if valueLt (some x) (some a) = true then some (some x) else some (some a)) =
            (if x < a then some x else some a).map some := by
          by_cases hx : x < a <;> simp [valueLt, hx]
        have := ih h.2 (if x < a then some x else some a)
        rw [← e1] at this
        exact this

theorem maxFold_nullFree (col : List (Option Int)) (h : nullFree col = true) (a : Option Int) :
    col.foldl (fun acc v => match acc with
        | none => some v
        | some cur => if valueLt cur v then some v else some cur) (a.map some) =
      ((nonNull col).foldl (fun acc v => match acc with
        | none => some v
        | some a => if a < v then some v else some a) a).map some := by
  induction col generalizing a with
  | nil => simp [nonNull]
  | cons v vs ih =>
    simp only [nullFree, List.all_cons, Bool.and_eq_true] at h
    cases v with
    | none => simp at h
    | some x =>
      cases a with
      | none => exact ih h.2 (some x)
      | some a =>
        have e1 : (if valueLt (some a) (some x) = true then some (some x) else some (some a)) =
            (if a < x then some x else some a).map some := by
          by_cases hx : a < x <;> simp [valueLt, hx]
        have := ih h.2 (if a < x then some x else some a)
        rw [← e1] at this
        exact this

/-- **MIN / MAX** on the null-free fragment (with a null, MIN deviates: `c10f_min_null_witness`) -/
theorem c10f_min_max_eq_partial (c : Chunk) (l0 : Level) (rest : List Level) (hl : c.levels = l0 :: rest)
    (hw : wfLevels c.levels) (ci : Nat) (col : List (Option Int)) (hc : deepestCol c ci = some col)
    (hn : nullFree col = true) :
    minDeepest c ci = (specMin ((denote c.levels).map (lastVal ci))).map some ∧
    maxDeepest c ci = (specMax ((denote c.levels).map (lastVal ci))).map some := by
  have hc' := hc
  unfold deepestCol at hc
  cases hd : c.levels.getLast? with
  | none => simp [hd] at hc
  | some dl =>
    simp only [hd] at hc
    rw [hl] at hw hd
    obtain ⟨hv, _⟩ := denote_lastVals l0 rest hw dl hd ci col hc
    rw [← hl] at hv
    simp only [minDeepest, maxDeepest, hc', hv, specMin, specMax]
    exact ⟨minFold_nullFree col hn none, maxFold_nullFree col hn none⟩

/-- **AVG** on the null-free fragment (with a null it deviates: `c10f_avg_null_witness`) -/
theorem c10f_avg_eq_partial (c : Chunk) (l0 : Level) (rest : List Level) (hl : c.levels = l0 :: rest)
    (hw : wfLevels c.levels) (hlrc : c.lrc = recompute c.levels) (ci : Nat) (col : List (Option Int))
    (hc : deepestCol c ci = some col) (hn : nullFree col = true) :
    avgDeepest c ci = specAvg ((denote c.levels).map (lastVal ci)) := by
  have hs := c10f_sum_eq c l0 rest hl hw ci col hc
  have hc' := hc
  unfold deepestCol at hc
  cases hd : c.levels.getLast? with
  | none => simp [hd] at hc
  | some dl =>
    simp only [hd] at hc
    have hw' := hw
    rw [hl] at hw hd
    obtain ⟨hv, hlen⟩ := denote_lastVals l0 rest hw dl hd ci col hc
    rw [← hl] at hv
    have hrows : c.lrc = col.length := by
      rw [hlrc, c10f_lrc_eq_rows _ hw', ← hv]; simp
    have hnn : (nonNull col).length = col.length := by
      clear hv hlen hrows hs hc hc'
      induction col with
      | nil => simp [nonNull]
      | cons v vs ih =>
        simp only [nullFree, List.all_cons, Bool.and_eq_true] at hn
        cases v with
        | none => simp at hn
        | some x => simp only [nonNull] at ih ⊢; simp [ih hn.2]
    simp only [avgDeepest, hs, hv, specAvg, specSum, hrows]
    by_cases he : col.length = 0
    · have : nonNull col = [] := List.eq_nil_of_length_eq_zero (by omega)
      simp [he, this]
    · have : nonNull col ≠ [] := by intro h; rw [h] at hnn; simp at hnn; omega
      simp [he, this, hnn]

/-! ### the constructors build well-formed chunks -/

theorem diffs_map_add (m : Nat) : ∀ xs : List Nat, diffs (xs.map (· + m)) = diffs xs
  | [] => rfl
  | [_] => rfl
  | a :: b :: rest => by
    have ih := diffs_map_add m (b :: rest)
    simp only [List.map_cons] at ih ⊢
    simp only [diffs, ih, Nat.add_lt_add_iff_right, Nat.add_sub_add_right]

theorem prefixSums_cons_zero (ms : List Nat) : ∃ t, prefixSums ms = 0 :: t := by
  cases ms <;> simp [prefixSums]

theorem diffs_prefixSums : ∀ ms : List Nat, diffs (prefixSums ms) = some ms
  | [] => rfl
  | m :: ms => by
    obtain ⟨t, ht⟩ := prefixSums_cons_zero ms
    have ih := diffs_prefixSums ms
    have h1 : diffs (m :: t.map (· + m)) = some ms := by
      have := diffs_map_add m (0 :: t)
      simp only [List.map_cons, Nat.zero_add] at this
      rw [this, ← ht, ih]
    simp only [prefixSums, ht, List.map_cons, Nat.zero_add]
    simp [diffs, h1]

theorem prefixSums_getLast : ∀ ms : List Nat, (prefixSums ms).getLast? = some ms.sum
  | [] => rfl
  | m :: ms => by
    obtain ⟨t, ht⟩ := prefixSums_cons_zero ms
    have ih := prefixSums_getLast ms
    rw [ht] at ih
    have h2 : (m :: t.map (· + m)) = (0 :: t).map (· + m) := by simp
    simp only [prefixSums, ht, List.map_cons, Nat.zero_add, List.getLast?_cons_cons]
    rw [h2, List.getLast?_map, ih]
    simp [Nat.add_comm]

theorem wfChain_snoc (pre : List Level) (l : Level) : ∀ n, wfChain n pre → l.mults.length = lastGc n pre →
    l.groupCount = l.mults.sum → l.offs = some (prefixSums l.mults) →
    (∀ d ∈ l.cols, d.length = l.groupCount) → wfChain n (pre ++ [l]) := by
  induction pre with
  | nil => intro n _ a b c d; exact ⟨by simpa [lastGc] using a, b, c, d, trivial⟩
  | cons p ps ih =>
    intro n h a b c d
    obtain ⟨h1, h2, h3, h4, h5⟩ := h
    exact ⟨h1, h2, h3, h4, ih _ h5 (by simpa [lastGc] using a) b c d⟩

/-- **add_level keeps a chunk well-formed** (and never panics) when the offsets are the prefix sums
of one fan-out per deepest value and the new columns have one value per child: every chunk built by
`with_flat_level` and such `add_level` calls satisfies the hypothesis of the theorems above. -/
theorem c10f_addLevel_wf (c : Chunk) (l0 : Level) (rest : List Level) (hl : c.levels = l0 :: rest)
    (hw : wfLevels c.levels) (cols : List (List (Option Int))) (ms : List Nat)
    (hm : ms.length = lastGc l0.groupCount rest) (hc : ∀ d ∈ cols, d.length = ms.sum) :
    ∃ c', addLevel c cols (prefixSums ms) = some c' ∧ wfLevels c'.levels ∧
      c'.lrc = recompute c'.levels ∧
      c'.levels = c.levels ++ [{ cols := cols, offs := some (prefixSums ms), groupCount := ms.sum, mults := ms }] := by
  have hany : (cols.any fun d => (prefixSums ms).isEmpty || (prefixSums ms).getLast? != some d.length) = false := by
    rw [List.any_eq_false]
    intro d hd
    obtain ⟨t, ht⟩ := prefixSums_cons_zero ms
    have hne : (prefixSums ms).isEmpty = false := by rw [ht]; rfl
    simp [prefixSums_getLast, hc d hd, hne]
  refine ⟨_, by simp only [addLevel, diffs_prefixSums, hany]; rfl, ?_, ?_, rfl⟩
  · rw [hl] at hw ⊢
    obtain ⟨h0, hch⟩ := hw
    exact ⟨h0, wfChain_snoc rest _ _ hch hm rfl rfl hc⟩
  · simp [hl]

theorem withFlatLevel_wf (cols : List (List (Option Int))) (h : ∀ d ∈ cols, d.length = (cols.headD []).length) :
    wfLevels (withFlatLevel cols).levels ∧ (withFlatLevel cols).lrc = recompute (withFlatLevel cols).levels := by
  cases cols with
  | nil => simp [withFlatLevel, wfLevels, wfChain, recompute, pathMults]
  | cons d ds => simpa [withFlatLevel, wfLevels, wfChain, recompute, pathMults] using h

/-- **one expansion step = the flat expand**, for every well-formed chunk: if deepest value `k` has
the key `keys[k]` and the new level lists the children `ch keys[k]` consecutively (fan-outs
`|ch keys[k]|`, zero included), the chunk with the new level denotes the `flatMap` of the old rows
(row `k` is dropped when it has no child). By induction this covers chains of any length. -/
theorem c10f_expand_step {γ : Type} (l0 : Level) (rest : List Level) (hw : wfLevels (l0 :: rest))
    (keys : List γ) (ch : γ → List (List (Option Int))) (hk : keys.length = lastGc l0.groupCount rest)
    (l : Level) (hm : l.mults = keys.map fun k => (ch k).length) (hv : l.valRows = keys.flatMap ch) :
    denote (l0 :: (rest ++ [l])) =
      ((denote (l0 :: rest)).zip keys).flatMap fun p => (ch p.2).map fun v => p.1 ++ [v] := by
  obtain ⟨_, hch⟩ := hw
  have hrows : (denote (l0 :: rest)).length = keys.length := by
    simp only [denote, denoteGen]
    rw [fold_rows_length Level.valRows valRows_length rest l0.groupCount _ hch (by simp [valRows_length]), hk]
  simp only [denote] at hrows ⊢
  rw [c10f_denote_snoc, hm, hv]
  exact expandGen_flatMap ch _ keys hrows

/-! ### deviations of the aggregates when the deepest column holds nulls (library level: the planner
only aggregates the never-null `_target` column) -/

/-- witness: `avg_deepest` divides by the logical row count, null rows included (flat AVG skips them) -/
theorem c10f_avg_null_witness :
    avgDeepest (withFlatLevel [[some 1, none, some 3]]) 0 = some (4, 3) ∧
    specAvg [some 1, none, some 3] = some (4, 2) := by decide

/-- witness: `min_deepest` treats Null as the least value (flat MIN skips nulls) -/
theorem c10f_min_null_witness :
    minDeepest (withFlatLevel [[some 1, none, some 3]]) 0 = some none ∧
    specMin [some 1, none, some 3] = some 1 := by decide

/-- witness: one hop that matches nothing makes the chain drop the chunk (empty relation), while
the first expansion step alone (`FactorizedExpandOperator`) keeps the unexpanded source level -/
theorem c10f_chain_empty_hop_witness :
    (match chain (fun _ => []) [some 0, some 1] 1 with | .noResult => true | _ => false) = true ∧
    flatChain (fun _ => []) [some 0, some 1] 1 = [] := by decide

/-- regression (fixed in 9e9ba35): stored type `T0`, pattern `-[:t0]->…-[:t0]->`: the old chain
compared the second hop exactly and lost the path the flat plan finds -/
theorem c10f_edge_type_case_old_witness :
    qcaseRows 3 [(0, 1), (1, 2)] true (Old.laterHopOk true 2 true false) 2 = [] ∧
    qcaseRows 3 [(0, 1), (1, 2)] true (laterHopOk true 2 true false) 2 = [(0, 2)] := by decide

/-- the repaired comparison: factorized or flat, every hop matches the edge type the same way -/
theorem c10f_edge_type_case_fixed (n : Nat) (edges : List (Nat × Nat)) (fact : Bool) (hops : Nat)
    (ci exact : Bool) :
    qcaseRows n edges ci (laterHopOk fact hops ci exact) hops = qcaseRows n edges ci ci hops := rfl

end Grafeo.Fact
