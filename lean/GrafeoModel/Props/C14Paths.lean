import GrafeoModel.Props.C14
import GrafeoModel.Proofs.LpgPaths

/-!
# C14 — every access path tells the same story (adjacency, edge table, property paths, refinement)

`Props/C14.lean` proves the label path. This file covers the other access paths of the LPG store
model for **every** store-level history: `run b ops` over the same `Op` type (every mutating call the
correspondence stream `lpg` issues; store epoch fixed, SYSTEM transaction), by induction over the
operation list with inductive invariants, no bound on length or ids.

* `PathInv` — the invariant that holds after every history (`pathInv_run`): node / edge tables keyed
  `0 … next-1` with chains `liveC` or `deadC`; forward and backward adjacency tables list exactly the
  live edges, once; every index has distinct value keys, duplicate-free buckets and only entries
  backed by the property table; label-index entries are duplicate free.
* since the repair of `set_node_property` / `set_edge_property` (nothing is written for an entity
  that has no live version) three more invariants hold after every history: `NoGhost`, `NoGhostE` (no
  property map stored for an id that is not a live node / edge) and `PxExact` (indexes complete), so
  the property paths and the refinement are full theorems.
* one hypothesis on histories is left, a decidable predicate evaluated along the history
  (`histOk edgeOk b ops`): edges join live nodes; the non-detaching `delete_node` is used on nodes
  without live edges. It buys `NoDangling`, and is shown necessary by a `decide` witness (known
  finding `C14-dangling-edges-after-delete-node`). The two ghost-property findings are regression
  theorems now.
* `Graph`, `Graph.step`, `grun`, `abs` — the plain graph, the plain meaning of every operation, and
  the abstraction (what `get_node` / `get_edge` show).
* theorems `c14p_*`: 1 adjacency, 2 edge table, 3 property paths, 4 refinement, 5 non-vacuity.
-/

namespace Grafeo.Lpg.Paths

/-! ## The invariant that holds after every history -/

structure PathInv (s : Store) : Prop where
  node : NodeInv s
  edge : EdgeInv s
  pxWf : PxWf s.pidx
  pxSound : PxSound s.nprops s.pidx
  lbl : LblNodup s.labelIdx

theorem pathInv_init (b : Bool) : PathInv { hasBwd := b } := by
  refine ⟨nodeInv_init b, edgeInv_init b, ?_, ?_, ?_⟩
  · intro k vals h; simp [aget] at h
  · intro k v id h; simp [idxBucket, aget] at h
  · intro l; simp [aget]

/-- anything that leaves the node side alone (the edge operations) -/
theorem pathInv_of_sameNodeSide (s s' : Store) (h : PathInv s) (hs : SameNodeSide s s') (he : EdgeInv s') :
    PathInv s' := by
  refine ⟨nodeInv_of_same s s' h.node hs.epoch hs.nodes hs.nextNode, he, ?_, ?_, ?_⟩
  · rw [hs.pidx]; exact h.pxWf
  · rw [hs.pidx, hs.nprops]; exact h.pxSound
  · rw [hs.labelIdx]; exact h.lbl

/-- `set_edge_property` touches nothing but the edge property table -/
theorem setEdgeProp_frame (s : Store) (e k : Nat) (v : String) :
    SameNodeSide s (s.setEdgeProp e k v) ∧ (s.setEdgeProp e k v).edges = s.edges ∧
    (s.setEdgeProp e k v).fwd = s.fwd ∧ (s.setEdgeProp e k v).bwd = s.bwd := by
  unfold Store.setEdgeProp
  split
  · exact ⟨SameNodeSide.rfl' s, rfl, rfl, rfl⟩
  · exact ⟨⟨rfl, rfl, rfl, rfl, rfl, rfl, rfl, rfl, rfl⟩, rfl, rfl, rfl⟩

/-- `set_node_property` touches nothing but the node property table and the indexes -/
theorem setNodeProp_frame (s : Store) (id k : Nat) (v : String) :
    (s.setNodeProp id k v).epoch = s.epoch ∧ (s.setNodeProp id k v).nextNode = s.nextNode ∧
    (s.setNodeProp id k v).nodes = s.nodes ∧ (s.setNodeProp id k v).nodeLabels = s.nodeLabels ∧
    (s.setNodeProp id k v).labelIdx = s.labelIdx ∧ (s.setNodeProp id k v).nextEdge = s.nextEdge ∧
    (s.setNodeProp id k v).edges = s.edges ∧ (s.setNodeProp id k v).eprops = s.eprops ∧
    (s.setNodeProp id k v).fwd = s.fwd ∧ (s.setNodeProp id k v).bwd = s.bwd ∧
    (s.setNodeProp id k v).hasBwd = s.hasBwd := by
  unfold Store.setNodeProp
  split
  · exact ⟨rfl, rfl, rfl, rfl, rfl, rfl, rfl, rfl, rfl, rfl, rfl⟩
  · exact ⟨rfl, rfl, rfl, rfl, rfl, rfl, rfl, rfl, rfl, rfl, rfl⟩

theorem pathInv_step (s : Store) (op : Op) (h : PathInv s) : PathInv (step s op) := by
  cases op with
  | createNode ls =>
    exact ⟨nodeInv_createNode s ls h.node, edgeInv_of_same s _ h.edge rfl rfl rfl rfl rfl rfl,
      h.pxWf, h.pxSound, lblNodup_insertAll _ _ _ h.lbl⟩
  | deleteNode id =>
    have hn := nodeInv_deleteNode s id h.node
    have heq := deleteNodeAt_eq s h.node id
    simp only [step] at *
    by_cases hl : nodeLive s id
    · rw [if_pos hl] at heq
      refine ⟨hn, ?_, ?_, ?_, ?_⟩
      · rw [heq]; exact edgeInv_of_same s _ h.edge rfl rfl rfl rfl rfl rfl
      · rw [heq]; exact pxWf_pxEraseAll _ _ _ h.pxWf
      · rw [heq]; exact pxSound_deleteNode _ _ _ h.pxWf h.pxSound
      · rw [heq]; exact lblNodup_eraseAll _ _ _ h.lbl
    · rw [if_neg hl] at heq; rw [heq]; exact h
  | deleteNodeEdges n =>
    simp only [step, deleteNodeEdges_eq]
    obtain ⟨a, b, _, _⟩ := delEdges_ok s h.edge ((s.outEdges n).map (·.2) ++ (s.inEdges n).map (·.2))
    exact pathInv_of_sameNodeSide s _ h b a
  | createEdge a b t =>
    exact ⟨nodeInv_of_same s _ h.node rfl rfl rfl, edgeInv_createEdge s a b t h.edge, h.pxWf, h.pxSound, h.lbl⟩
  | deleteEdge e =>
    exact pathInv_of_sameNodeSide s _ h (deleteEdgeAt_sameNodeSide s e s.epoch) (edgeInv_deleteEdge s e h.edge)
  | setNodeProp id k v =>
    show PathInv (s.setNodeProp id k v)
    rw [setNodeProp_eq s h.node]
    split
    · exact ⟨nodeInv_of_same s _ h.node rfl rfl rfl, edgeInv_of_same s _ h.edge rfl rfl rfl rfl rfl rfl,
        pxWf_pxSet _ _ _ _ _ h.pxWf, pxSound_set _ _ _ _ _ h.pxWf h.pxSound, h.lbl⟩
    · exact h
  | removeNodeProp id k =>
    simp only [step]
    rw [removeNodeProp_eq]
    exact ⟨nodeInv_of_same s _ h.node rfl rfl rfl, edgeInv_of_same s _ h.edge rfl rfl rfl rfl rfl rfl,
      pxWf_match_remove _ _ _ _ h.pxWf, pxSound_remove _ _ _ _ h.pxWf h.pxSound, h.lbl⟩
  | setEdgeProp e k v =>
    obtain ⟨a, b, c, d⟩ := setEdgeProp_frame s e k v
    exact pathInv_of_sameNodeSide s _ h a (edgeInv_of_same s _ h.edge a.epoch b a.nextEdge c d a.hasBwd)
  | addLabel id l =>
    simp only [step]
    rw [addLabel_eq s h.node]
    split
    · exact ⟨nodeInv_of_same s _ h.node rfl rfl rfl, edgeInv_of_same s _ h.edge rfl rfl rfl rfl rfl rfl,
        h.pxWf, h.pxSound, lblNodup_insert _ _ _ h.lbl⟩
    · exact h
  | removeLabel id l =>
    simp only [step]
    rw [removeLabel_eq s h.node]
    split
    · exact ⟨nodeInv_of_same s _ h.node rfl rfl rfl, edgeInv_of_same s _ h.edge rfl rfl rfl rfl rfl rfl,
        h.pxWf, h.pxSound, lblNodup_erase _ _ _ h.lbl⟩
    · exact h
  | createIndex k =>
    simp only [step]
    rw [createIndex_eq]
    split
    · exact h
    · exact ⟨nodeInv_of_same s _ h.node rfl rfl rfl, edgeInv_of_same s _ h.edge rfl rfl rfl rfl rfl rfl,
        pxWf_createIndex s.nprops _ _ _ h.pxWf, pxSound_createIndex _ _ _ _ h.pxSound, h.lbl⟩
  | dropIndex k =>
    exact ⟨nodeInv_of_same s _ h.node rfl rfl rfl, edgeInv_of_same s _ h.edge rfl rfl rfl rfl rfl rfl,
      pxWf_dropIndex _ _ h.pxWf, pxSound_dropIndex _ _ _ h.pxSound, h.lbl⟩

theorem foldl_step_inv (P : Store → Prop) (hstep : ∀ s op, P s → P (step s op)) (ops : List Op) (s : Store)
    (h : P s) : P (ops.foldl step s) := by
  induction ops generalizing s with
  | nil => exact h
  | cons op rest ih => exact ih _ (hstep s op h)

theorem pathInv_run (b : Bool) (ops : List Op) : PathInv (run b ops) :=
  foldl_step_inv PathInv pathInv_step ops _ (pathInv_init b)

/-! ## The plain graph and the abstraction -/

/-- the plain graph: live nodes with labels and properties, live edges with record and properties,
and the two id counters. Nothing else — no indexes, no adjacency tables, no version chains. -/
structure Graph where
  nn : Nat
  ne : Nat
  node : Nat → Option (List Nat × AList String)
  edge : Nat → Option (EdgeRec × AList String)

def Graph.empty : Graph := ⟨0, 0, fun _ => none, fun _ => none⟩

def upd {α : Type} (f : Nat → α) (i : Nat) (a : α) : Nat → α := fun j => if j = i then a else f j

/-- the obvious plain-graph meaning of every store-level mutation (the `spec` column of stream `lpg`) -/
def Graph.step (g : Graph) : Op → Graph
  | .createNode ls => { g with nn := g.nn + 1, node := upd g.node g.nn (some (ls.foldl sinsert [], [])) }
  | .deleteNode id => { g with node := upd g.node id none }
  | .deleteNodeEdges n =>
    { g with edge := fun e => (g.edge e).bind (fun rp => if rp.1.src = n ∨ rp.1.dst = n then none else some rp) }
  | .createEdge a b t => { g with ne := g.ne + 1, edge := upd g.edge g.ne (some (⟨a, b, t⟩, [])) }
  | .deleteEdge e => { g with edge := upd g.edge e none }
  | .setNodeProp id k v => { g with node := upd g.node id ((g.node id).map (fun lp => (lp.1, aset lp.2 k v))) }
  | .removeNodeProp id k => { g with node := upd g.node id ((g.node id).map (fun lp => (lp.1, aerase lp.2 k))) }
  | .setEdgeProp e k v => { g with edge := upd g.edge e ((g.edge e).map (fun rp => (rp.1, aset rp.2 k v))) }
  | .addLabel id l =>
    { g with node := upd g.node id ((g.node id).map (fun lp => (if l ∈ lp.1 then lp.1 else lp.1 ++ [l], lp.2))) }
  | .removeLabel id l => { g with node := upd g.node id ((g.node id).map (fun lp => (serase lp.1 l, lp.2))) }
  | .createIndex _ => g
  | .dropIndex _ => g

def grun (ops : List Op) : Graph := ops.foldl Graph.step Graph.empty

/-- the abstraction: what the two point lookups (`get_node`, `get_edge`) show -/
def abs (s : Store) : Graph :=
  { nn := s.nextNode, ne := s.nextEdge,
    node := fun i => s.getNodeAt i s.epoch, edge := fun e => s.getEdgeTo e s.epoch systemTx }

theorem Graph.ext' (g1 g2 : Graph) (h1 : g1.nn = g2.nn) (h2 : g1.ne = g2.ne)
    (h3 : ∀ i, g1.node i = g2.node i) (h4 : ∀ e, g1.edge e = g2.edge e) : g1 = g2 := by
  cases g1; cases g2
  simp only at h1 h2 h3 h4
  subst h1; subst h2
  have := funext h3; have := funext h4
  simp_all

theorem abs_node (s : Store) (h : PathInv s) (i : Nat) :
    (abs s).node i = if nodeLive s i then some (s.nodeLabelsOf i, s.nodePropsOf i) else none :=
  getNodeAt_eq s h.node i

theorem abs_edge (s : Store) (h : PathInv s) (e : Nat) :
    (abs s).edge e = (liveRec s e).map (fun r => (r, (aget s.eprops e).getD [])) :=
  getEdgeTo_eq s h.edge e

/-- no property map is stored for an id that is not a live node -/
def NoGhost (s : Store) : Prop := ∀ id, (aget s.nprops id).isSome = true → nodeLive s id
/-- no property map is stored for an id that is not a live edge -/
def NoGhostE (s : Store) : Prop := ∀ e, (aget s.eprops e).isSome = true → (liveRec s e).isSome = true

theorem getNodeAt_congr (s s' : Store) (h1 : s'.nodes = s.nodes) (h2 : s'.nodeLabels = s.nodeLabels)
    (h3 : s'.nprops = s.nprops) (i ep : Nat) : s'.getNodeAt i ep = s.getNodeAt i ep := by
  unfold Store.getNodeAt Store.nodeLabelsOf Store.nodePropsOf; rw [h1, h2, h3]

theorem getEdgeTo_congr (s s' : Store) (h1 : s'.edges = s.edges) (h2 : s'.eprops = s.eprops)
    (e ep tx : Nat) : s'.getEdgeTo e ep tx = s.getEdgeTo e ep tx := by
  unfold Store.getEdgeTo; rw [h1, h2]

theorem serase_of_not_mem (ls : List Nat) (l : Nat) (h : l ∉ ls) : serase ls l = ls := by
  unfold serase
  rw [List.filter_eq_self]
  intro a ha
  simp only [bne_iff_ne, ne_eq]
  intro e; subst e; exact h ha

theorem step_epoch (s : Store) (op : Op) (h : PathInv s) : (step s op).epoch = s.epoch := by
  rw [(pathInv_step s op h).node.epoch0, h.node.epoch0]

/-- an operation that leaves node table, label map and property table alone -/
theorem abs_node_same (s s' : Store) (h0 : s'.epoch = s.epoch) (h1 : s'.nodes = s.nodes)
    (h2 : s'.nodeLabels = s.nodeLabels) (h3 : s'.nprops = s.nprops) (i : Nat) :
    (abs s').node i = (abs s).node i := by
  show s'.getNodeAt i s'.epoch = s.getNodeAt i s.epoch
  rw [h0]; exact getNodeAt_congr s s' h1 h2 h3 i _

/-- node side of the commutation -/
theorem abs_step_node (s : Store) (op : Op) (h : PathInv s) (hg : NoGhost s) (i : Nat) :
    (abs (step s op)).node i = ((abs s).step op).node i := by
  have h' := pathInv_step s op h
  cases op with
  | createNode ls =>
    rw [abs_node _ h']
    show _ = upd (abs s).node s.nextNode _ i
    unfold upd
    rw [abs_node s h]
    have hnone : aget s.nodes s.nextNode = none := aget_none_of_range _ _ _ h.node.keys (Nat.le_refl _)
    have en : (step s (.createNode ls)).nodes = aset s.nodes s.nextNode liveC := by
      show aset s.nodes s.nextNode _ = _; rw [h.node.epoch0]; rfl
    have el : (step s (.createNode ls)).nodeLabels = aset s.nodeLabels s.nextNode (ls.foldl sinsert []) := rfl
    have ep : (step s (.createNode ls)).nprops = s.nprops := rfl
    unfold nodeLive Store.nodeLabelsOf Store.nodePropsOf
    simp only [en, el, ep, aget_aset]
    by_cases hi : i = s.nextNode
    · subst hi
      have hp : aget s.nprops s.nextNode = none := by
        cases hq : aget s.nprops s.nextNode with
        | none => rfl
        | some ps =>
          have := hg s.nextNode (by rw [hq]; rfl)
          unfold nodeLive at this; rw [hnone] at this; exact absurd this (by simp)
      simp [hp]
    · simp [hi]
  | deleteNode id =>
    rw [abs_node _ h']
    show _ = upd (abs s).node id none i
    unfold upd
    rw [abs_node s h]
    have heq : step s (.deleteNode id) = (s.deleteNodeAt id s.epoch).1 := rfl
    rw [heq, deleteNodeAt_eq s h.node id]
    by_cases hl : nodeLive s id
    · rw [if_pos hl]
      unfold nodeLive Store.nodeLabelsOf Store.nodePropsOf
      simp only [aget_aset, aget_aerase]
      by_cases hi : i = id
      · simp [hi, liveC_ne_deadC.symm]
      · simp [hi]
    · rw [if_neg hl]
      by_cases hi : i = id
      · subst hi; simp [hl]
      · simp [hi]
  | deleteNodeEdges n =>
    obtain ⟨_, b, _, _⟩ := delEdges_ok s h.edge ((s.outEdges n).map (·.2) ++ (s.inEdges n).map (·.2))
    exact abs_node_same s _ b.epoch b.nodes b.nodeLabels b.nprops i
  | createEdge a b t => exact abs_node_same s _ rfl rfl rfl rfl i
  | deleteEdge e =>
    have b := deleteEdgeAt_sameNodeSide s e s.epoch
    exact abs_node_same s _ b.epoch b.nodes b.nodeLabels b.nprops i
  | setEdgeProp e k v =>
    obtain ⟨a, _, _, _⟩ := setEdgeProp_frame s e k v
    exact abs_node_same s _ a.epoch a.nodes a.nodeLabels a.nprops i
  | createIndex k =>
    show (abs (s.createIndex k)).node i = _
    rw [createIndex_eq]
    split
    · rfl
    · exact abs_node_same s _ rfl rfl rfl rfl i
  | dropIndex k => exact abs_node_same s _ rfl rfl rfl rfl i
  | setNodeProp id k v =>
    rw [abs_node _ h']
    show _ = upd (abs s).node id _ i
    unfold upd
    rw [abs_node s h, abs_node s h]
    obtain ⟨_, _, en, el, _⟩ := setNodeProp_frame s id k v
    have en' : (step s (.setNodeProp id k v)).nodes = s.nodes := en
    have el' : (step s (.setNodeProp id k v)).nodeLabels = s.nodeLabels := el
    have ep : (step s (.setNodeProp id k v)).nprops =
        if nodeLive s id then aset s.nprops id (aset (s.nodePropsOf id) k v) else s.nprops := by
      show (s.setNodeProp id k v).nprops = _
      rw [setNodeProp_eq s h.node]; split <;> rfl
    unfold nodeLive Store.nodeLabelsOf
    simp only [en', el', nodePropsOf_eq, ep]
    by_cases hi : i = id
    · subst hi
      by_cases hl : aget s.nodes i = some liveC
      · simp [hl, nodeLive, propsOf_aset]
      · simp [hl]
    · by_cases hl : nodeLive s id
      · simp [hi, hl, propsOf_aset]
      · simp [hi, hl]
  | removeNodeProp id k =>
    rw [abs_node _ h']
    show _ = upd (abs s).node id _ i
    unfold upd
    rw [abs_node s h, abs_node s h]
    have heq : step s (.removeNodeProp id k) = (s.removeNodeProp id k).1 := rfl
    rw [heq, removeNodeProp_eq]
    unfold nodeLive Store.nodeLabelsOf
    simp only [nodePropsOf_eq, propsOf_remove]
    by_cases hi : i = id
    · subst hi
      by_cases hl : aget s.nodes i = some liveC
      · simp [hl]
      · simp [hl]
    · simp [hi]
  | addLabel id l =>
    rw [abs_node _ h']
    show _ = upd (abs s).node id _ i
    unfold upd
    rw [abs_node s h, abs_node s h]
    have heq : step s (.addLabel id l) = (s.addLabel id l).1 := rfl
    rw [heq, addLabel_eq s h.node]
    by_cases hi : i = id
    · subst hi
      by_cases hl : nodeLive s i
      · by_cases hm : l ∈ s.nodeLabelsOf i
        · simp [hl, hm]
        · simp only [hl, hm, not_false_eq_true, and_self, if_true, Option.map_some]
          unfold nodeLive at hl ⊢
          unfold Store.nodeLabelsOf Store.nodePropsOf
          simp [hl, aget_aset]
      · simp [hl]
    · split
      · unfold nodeLive Store.nodeLabelsOf Store.nodePropsOf
        simp [aget_aset, hi]
      · simp
  | removeLabel id l =>
    rw [abs_node _ h']
    show _ = upd (abs s).node id _ i
    unfold upd
    rw [abs_node s h, abs_node s h]
    have heq : step s (.removeLabel id l) = (s.removeLabel id l).1 := rfl
    rw [heq, removeLabel_eq s h.node]
    by_cases hi : i = id
    · subst hi
      by_cases hl : nodeLive s i
      · by_cases hm : l ∈ s.nodeLabelsOf i
        · simp only [hl, hm, and_self, if_true, Option.map_some]
          unfold nodeLive at hl ⊢
          unfold Store.nodeLabelsOf Store.nodePropsOf
          simp [hl, aget_aset]
        · simp [hl, hm, serase_of_not_mem _ _ hm]
      · simp [hl]
    · split
      · unfold nodeLive Store.nodeLabelsOf Store.nodePropsOf
        simp [aget_aset, hi]
      · simp


theorem liveRec_congr (s s' : Store) (h : s'.edges = s.edges) (e : Nat) : liveRec s' e = liveRec s e := by
  unfold liveRec; rw [h]

theorem abs_edge_same (s s' : Store) (h0 : s'.epoch = s.epoch) (h1 : s'.edges = s.edges)
    (h2 : s'.eprops = s.eprops) (e : Nat) : (abs s').edge e = (abs s).edge e := by
  show s'.getEdgeTo e s'.epoch systemTx = s.getEdgeTo e s.epoch systemTx
  rw [h0]; exact getEdgeTo_congr s s' h1 h2 e _ _

theorem mem_delList (s : Store) (h : EdgeInv s) (n e : Nat) (r : EdgeRec) (hl : liveRec s e = some r) :
    e ∈ (s.outEdges n).map (·.2) ++ (s.inEdges n).map (·.2) ↔ r.src = n ∨ r.dst = n := by
  simp only [List.mem_append, List.mem_map]
  constructor
  · rintro (⟨⟨d, e'⟩, hm, rfl⟩ | ⟨⟨o, e'⟩, hm, rfl⟩)
    · obtain ⟨r', hr', hs, _⟩ := (mem_outEdges s h n d e').mp hm
      simp only at hl; rw [hl] at hr'; simp only [Option.some.injEq] at hr'; subst hr'
      exact Or.inl hs
    · obtain ⟨r', hr', hd, _⟩ := (mem_inEdges s h n o e').mp hm
      simp only at hl; rw [hl] at hr'; simp only [Option.some.injEq] at hr'; subst hr'
      exact Or.inr hd
  · rintro (hs | hd)
    · exact Or.inl ⟨(r.dst, e), (mem_outEdges s h n r.dst e).mpr ⟨r, hl, hs, rfl⟩, rfl⟩
    · exact Or.inr ⟨(r.src, e), (mem_inEdges s h n r.src e).mpr ⟨r, hl, hd, rfl⟩, rfl⟩

/-- only live edges are ever listed -/
theorem live_of_mem_delList (s : Store) (h : EdgeInv s) (n e : Nat)
    (hm : e ∈ (s.outEdges n).map (·.2) ++ (s.inEdges n).map (·.2)) : (liveRec s e).isSome = true := by
  simp only [List.mem_append, List.mem_map] at hm
  rcases hm with ⟨⟨d, e'⟩, hm, rfl⟩ | ⟨⟨o, e'⟩, hm, rfl⟩
  · obtain ⟨r', hr', _⟩ := (mem_outEdges s h n d e').mp hm; simp [hr']
  · obtain ⟨r', hr', _⟩ := (mem_inEdges s h n o e').mp hm; simp [hr']

/-- edge side of the commutation -/
theorem abs_step_edge (s : Store) (op : Op) (h : PathInv s) (hg : NoGhostE s) (e : Nat) :
    (abs (step s op)).edge e = ((abs s).step op).edge e := by
  have h' := pathInv_step s op h
  cases op with
  | createNode ls => exact abs_edge_same s _ rfl rfl rfl e
  | deleteNode id =>
    show (abs (s.deleteNodeAt id s.epoch).1).edge e = _
    rw [deleteNodeAt_eq s h.node id]
    split
    · exact abs_edge_same s _ rfl rfl rfl e
    · rfl
  | setNodeProp id k v =>
    obtain ⟨a0, _, _, _, _, _, a1, a2, _⟩ := setNodeProp_frame s id k v
    exact abs_edge_same s _ a0 a1 a2 e
  | removeNodeProp id k => exact abs_edge_same s _ rfl rfl rfl e
  | addLabel id l =>
    show (abs (s.addLabel id l).1).edge e = _
    rw [addLabel_eq s h.node]
    split
    · exact abs_edge_same s _ rfl rfl rfl e
    · rfl
  | removeLabel id l =>
    show (abs (s.removeLabel id l).1).edge e = _
    rw [removeLabel_eq s h.node]
    split
    · exact abs_edge_same s _ rfl rfl rfl e
    · rfl
  | createIndex k =>
    show (abs (s.createIndex k)).edge e = _
    rw [createIndex_eq]
    split
    · rfl
    · exact abs_edge_same s _ rfl rfl rfl e
  | dropIndex k => exact abs_edge_same s _ rfl rfl rfl e
  | createEdge a b t =>
    rw [abs_edge _ h']
    show _ = upd (abs s).edge s.nextEdge _ e
    unfold upd
    rw [abs_edge s h]
    have heq : step s (.createEdge a b t) = (s.createEdge a b t s.epoch systemTx).1 := rfl
    rw [heq, createEdge_eq s a b t h.node.epoch0]
    have hnone : aget s.edges s.nextEdge = none := aget_none_of_range _ _ _ h.edge.keys (Nat.le_refl _)
    unfold liveRec
    simp only [aget_aset]
    by_cases he : e = s.nextEdge
    · subst he
      have hp : aget s.eprops s.nextEdge = none := by
        cases hq : aget s.eprops s.nextEdge with
        | none => rfl
        | some ps =>
          have := hg s.nextEdge (by rw [hq]; rfl)
          unfold liveRec at this; rw [hnone] at this; simp at this
      simp [hp]
    · simp [he]
  | deleteEdge x =>
    rw [abs_edge _ h']
    show _ = upd (abs s).edge x none e
    unfold upd
    rw [abs_edge s h]
    have heq : step s (.deleteEdge x) = (s.deleteEdgeAt x s.epoch).1 := rfl
    rw [heq, liveRec_deleteEdge s h.edge, eprops_deleteEdge s h.edge]
    by_cases he : e = x
    · simp [he]
    · simp [he]
  | deleteNodeEdges n =>
    rw [abs_edge _ h']
    show _ = ((abs s).edge e).bind _
    rw [abs_edge s h]
    have heq : step s (.deleteNodeEdges n) = delEdges s ((s.outEdges n).map (·.2) ++ (s.inEdges n).map (·.2)) := rfl
    obtain ⟨_, _, c, d⟩ := delEdges_ok s h.edge ((s.outEdges n).map (·.2) ++ (s.inEdges n).map (·.2))
    rw [heq, c e, d e]
    cases hl : liveRec s e with
    | none => simp
    | some r =>
      have hm := mem_delList s h.edge n e r hl
      by_cases hin : r.src = n ∨ r.dst = n
      · simp [hm.mpr hin, hin]
      · have : ¬ e ∈ (s.outEdges n).map (·.2) ++ (s.inEdges n).map (·.2) := fun a => hin (hm.mp a)
        simp [this, hin]
  | setEdgeProp x k v =>
    rw [abs_edge _ h']
    show _ = upd (abs s).edge x _ e
    unfold upd
    rw [abs_edge s h, abs_edge s h]
    have ep : (step s (.setEdgeProp x k v)).eprops =
        if (liveRec s x).isSome = true then aset s.eprops x (aset ((aget s.eprops x).getD []) k v) else s.eprops := by
      show (s.setEdgeProp x k v).eprops = _
      rw [setEdgeProp_eq s h.edge]; split <;> rfl
    have hr : ∀ e', liveRec (step s (.setEdgeProp x k v)) e' = liveRec s e' :=
      fun e' => liveRec_congr s _ (setEdgeProp_frame s x k v).2.1 e'
    simp only [hr, ep]
    by_cases he : e = x
    · subst he
      cases liveRec s e <;> simp [aget_aset]
    · cases liveRec s x <;> simp [he, aget_aset]

/-! ## The hypotheses on histories, and the invariants they buy -/

/-- edges are created between live nodes, and the non-detaching `delete_node` is only called on a
node without live edges (the known finding `C14-dangling-edges-after-delete-node` otherwise) -/
def edgeOk (s : Store) : Op → Bool
  | .createEdge a b _ => (s.getNodeAt a s.epoch).isSome && (s.getNodeAt b s.epoch).isSome
  | .deleteNode id => (s.outEdges id).isEmpty && (s.inEdges id).isEmpty
  | _ => true

/-- the condition holds at every step of the history, evaluated in the state reached so far -/
def okFrom (P : Store → Op → Bool) (s : Store) : List Op → Bool
  | [] => true
  | op :: rest => P s op && okFrom P (step s op) rest

def histOk (P : Store → Op → Bool) (b : Bool) (ops : List Op) : Bool := okFrom P { hasBwd := b } ops

/-- every live edge joins two live nodes -/
def NoDangling (s : Store) : Prop := ∀ e r, liveRec s e = some r → nodeLive s r.src ∧ nodeLive s r.dst


theorem noGhost_of_same (s s' : Store) (h1 : s'.nodes = s.nodes) (h2 : s'.nprops = s.nprops)
    (h : NoGhost s) : NoGhost s' := by
  intro id; unfold nodeLive; rw [h1, h2]; exact h id

theorem noGhostE_of_same (s s' : Store) (h1 : s'.edges = s.edges) (h2 : s'.eprops = s.eprops)
    (h : NoGhostE s) : NoGhostE s' := by
  intro e; rw [liveRec_congr s s' h1, h2]; exact h e

theorem noDangling_of_same (s s' : Store) (h1 : s'.edges = s.edges) (h2 : s'.nodes = s.nodes)
    (h : NoDangling s) : NoDangling s' := by
  intro e r; rw [liveRec_congr s s' h1]; unfold nodeLive; rw [h2]; exact h e r

/-- since the repair of `set_node_property` no operation can leave a property map behind for an id
that is not a live node -/
theorem noGhost_step (s : Store) (op : Op) (h : PathInv s) (hg : NoGhost s) : NoGhost (step s op) := by
  cases op with
  | createNode ls =>
    intro id hs
    have hl := hg id hs
    have en : (step s (.createNode ls)).nodes = aset s.nodes s.nextNode liveC := by
      show aset s.nodes s.nextNode _ = _; rw [h.node.epoch0]; rfl
    unfold nodeLive; rw [en, aget_aset]
    split
    · rfl
    · exact hl
  | deleteNode id =>
    show NoGhost (s.deleteNodeAt id s.epoch).1
    rw [deleteNodeAt_eq s h.node id]
    split
    · intro i hs
      simp only [aget_aerase] at hs
      by_cases hi : i = id
      · simp [hi] at hs
      · simp only [hi, if_false] at hs
        have := hg i hs
        unfold nodeLive at this ⊢
        simp only [aget_aset, hi, if_false]; exact this
    · exact hg
  | setNodeProp id k v =>
    show NoGhost (s.setNodeProp id k v)
    rw [setNodeProp_eq s h.node]
    split
    · rename_i hl
      intro i hs
      have hs' : (aget (aset s.nprops id (aset (s.nodePropsOf id) k v)) i).isSome = true := hs
      rw [aget_aset] at hs'
      show nodeLive s i
      by_cases hi : i = id
      · subst hi; exact hl
      · simp only [hi, if_false] at hs'; exact hg i hs'
    · exact hg
  | removeNodeProp id k =>
    show NoGhost (s.removeNodeProp id k).1
    rw [removeNodeProp_eq]
    intro i hs
    show nodeLive s i
    simp only at hs
    cases hq : aget s.nprops id with
    | none => rw [hq] at hs; exact hg i hs
    | some ps =>
      rw [hq] at hs
      simp only [Option.isSome_some, if_true, aget_aset] at hs
      by_cases hi : i = id
      · subst hi; exact hg i (by rw [hq]; rfl)
      · simp only [hi, if_false] at hs; exact hg i hs
  | deleteNodeEdges n =>
    obtain ⟨_, b, _, _⟩ := delEdges_ok s h.edge ((s.outEdges n).map (·.2) ++ (s.inEdges n).map (·.2))
    exact noGhost_of_same s _ b.nodes b.nprops hg
  | createEdge a b t => exact noGhost_of_same s _ rfl rfl hg
  | deleteEdge e =>
    have b := deleteEdgeAt_sameNodeSide s e s.epoch
    exact noGhost_of_same s _ b.nodes b.nprops hg
  | setEdgeProp e k v =>
    obtain ⟨a, _⟩ := setEdgeProp_frame s e k v
    exact noGhost_of_same s _ a.nodes a.nprops hg
  | addLabel id l =>
    show NoGhost (s.addLabel id l).1
    rw [addLabel_eq s h.node]
    split
    · exact noGhost_of_same s _ rfl rfl hg
    · exact hg
  | removeLabel id l =>
    show NoGhost (s.removeLabel id l).1
    rw [removeLabel_eq s h.node]
    split
    · exact noGhost_of_same s _ rfl rfl hg
    · exact hg
  | createIndex k =>
    show NoGhost (s.createIndex k)
    rw [createIndex_eq]
    split
    · exact hg
    · exact noGhost_of_same s _ rfl rfl hg
  | dropIndex k => exact noGhost_of_same s _ rfl rfl hg


theorem pxExact_of_same (s s' : Store) (h1 : s'.nprops = s.nprops) (h2 : s'.pidx = s.pidx)
    (h : PxExact s.nprops s.pidx) : PxExact s'.nprops s'.pidx := by rw [h1, h2]; exact h

/-- with no ghost property maps the indexes are exact — through every operation, whatever the order
of index creation and writes -/
theorem pxExact_step (s : Store) (op : Op) (h : PathInv s) (hg : NoGhost s) (hx : PxExact s.nprops s.pidx) :
    PxExact (step s op).nprops (step s op).pidx := by
  cases op with
  | createNode ls => exact hx
  | deleteNode id =>
    show PxExact (s.deleteNodeAt id s.epoch).1.nprops (s.deleteNodeAt id s.epoch).1.pidx
    rw [deleteNodeAt_eq s h.node id]
    split
    · exact pxExact_deleteNode _ _ _ h.pxWf hx
    · exact hx
  | setNodeProp id k v =>
    show PxExact (s.setNodeProp id k v).nprops (s.setNodeProp id k v).pidx
    rw [setNodeProp_eq s h.node]
    split
    · exact pxExact_set _ _ _ _ _ h.pxWf hx
    · exact hx
  | removeNodeProp id k =>
    show PxExact (s.removeNodeProp id k).1.nprops (s.removeNodeProp id k).1.pidx
    rw [removeNodeProp_eq]
    exact pxExact_remove _ _ _ _ h.pxWf hx
  | deleteNodeEdges n =>
    obtain ⟨_, b, _, _⟩ := delEdges_ok s h.edge ((s.outEdges n).map (·.2) ++ (s.inEdges n).map (·.2))
    exact pxExact_of_same s _ b.nprops b.pidx hx
  | createEdge a b t => exact hx
  | deleteEdge e =>
    have b := deleteEdgeAt_sameNodeSide s e s.epoch
    exact pxExact_of_same s _ b.nprops b.pidx hx
  | setEdgeProp e k v =>
    obtain ⟨a, _⟩ := setEdgeProp_frame s e k v
    exact pxExact_of_same s _ a.nprops a.pidx hx
  | addLabel id l =>
    show PxExact (s.addLabel id l).1.nprops (s.addLabel id l).1.pidx
    rw [addLabel_eq s h.node]
    split
    · exact hx
    · exact hx
  | removeLabel id l =>
    show PxExact (s.removeLabel id l).1.nprops (s.removeLabel id l).1.pidx
    rw [removeLabel_eq s h.node]
    split
    · exact hx
    · exact hx
  | createIndex k =>
    show PxExact (s.createIndex k).nprops (s.createIndex k).pidx
    rw [createIndex_eq]
    split
    · exact hx
    · apply pxExact_createIndex s.nprops s.pidx k s.nodeIds hx
      intro id v hp
      rw [mem_nodeIds s h.node]
      apply hg id
      unfold propsOf at hp
      cases hq : aget s.nprops id with
      | none => rw [hq] at hp; simp [aget] at hp
      | some ps => rfl
  | dropIndex k => exact pxExact_dropIndex _ _ _ hx

/-- likewise for edges, since the repair of `set_edge_property` -/
theorem noGhostE_step (s : Store) (op : Op) (h : PathInv s) (hg : NoGhostE s) : NoGhostE (step s op) := by
  cases op with
  | createNode ls => exact noGhostE_of_same s _ rfl rfl hg
  | deleteNode id =>
    show NoGhostE (s.deleteNodeAt id s.epoch).1
    rw [deleteNodeAt_eq s h.node id]
    split
    · exact noGhostE_of_same s _ rfl rfl hg
    · exact hg
  | setNodeProp id k v =>
    obtain ⟨_, _, _, _, _, _, a1, a2, _⟩ := setNodeProp_frame s id k v
    exact noGhostE_of_same s _ a1 a2 hg
  | removeNodeProp id k => exact noGhostE_of_same s _ rfl rfl hg
  | addLabel id l =>
    show NoGhostE (s.addLabel id l).1
    rw [addLabel_eq s h.node]
    split
    · exact noGhostE_of_same s _ rfl rfl hg
    · exact hg
  | removeLabel id l =>
    show NoGhostE (s.removeLabel id l).1
    rw [removeLabel_eq s h.node]
    split
    · exact noGhostE_of_same s _ rfl rfl hg
    · exact hg
  | createIndex k =>
    show NoGhostE (s.createIndex k)
    rw [createIndex_eq]
    split
    · exact hg
    · exact noGhostE_of_same s _ rfl rfl hg
  | dropIndex k => exact noGhostE_of_same s _ rfl rfl hg
  | createEdge a b t =>
    show NoGhostE (s.createEdge a b t s.epoch systemTx).1
    rw [createEdge_eq s a b t h.node.epoch0]
    intro e hs
    have hl := hg e hs
    unfold liveRec at hl ⊢
    simp only [aget_aset]
    by_cases he : e = s.nextEdge
    · simp [he]
    · simp only [he, if_false]; exact hl
  | deleteEdge x =>
    intro e hs
    have heq : step s (.deleteEdge x) = (s.deleteEdgeAt x s.epoch).1 := rfl
    rw [heq] at hs ⊢
    rw [eprops_deleteEdge s h.edge] at hs
    rw [liveRec_deleteEdge s h.edge]
    by_cases he : e = x
    · subst he
      by_cases hl : (liveRec s e).isSome = true
      · simp [hl] at hs
      · simp only [hl] at hs; exact absurd (hg e (by simpa using hs)) hl
    · simp only [he, false_and, if_false] at hs ⊢; exact hg e hs
  | deleteNodeEdges n =>
    intro e hs
    have heq : step s (.deleteNodeEdges n) = delEdges s ((s.outEdges n).map (·.2) ++ (s.inEdges n).map (·.2)) := rfl
    obtain ⟨_, _, c, d⟩ := delEdges_ok s h.edge ((s.outEdges n).map (·.2) ++ (s.inEdges n).map (·.2))
    rw [heq] at hs ⊢
    rw [d e] at hs
    rw [c e]
    by_cases hm : e ∈ (s.outEdges n).map (·.2) ++ (s.inEdges n).map (·.2)
    · have hl := live_of_mem_delList s h.edge n e hm
      simp [hm, hl] at hs
    · simp only [hm, false_and, if_false] at hs ⊢; exact hg e hs
  | setEdgeProp x k v =>
    show NoGhostE (s.setEdgeProp x k v)
    rw [setEdgeProp_eq s h.edge]
    split
    · rename_i hl
      intro e hs
      have hs' : (aget (aset s.eprops x (aset ((aget s.eprops x).getD []) k v)) e).isSome = true := hs
      show (liveRec s e).isSome = true
      rw [aget_aset] at hs'
      by_cases he : e = x
      · subst he; exact hl
      · simp only [he, if_false] at hs'; exact hg e hs'
    · exact hg

theorem isEmpty_eq_nil {α : Type} (l : List α) (h : l.isEmpty = true) : l = [] := by simpa using h

theorem noDangling_step (s : Store) (op : Op) (h : PathInv s) (hd : NoDangling s) (hok : edgeOk s op = true) :
    NoDangling (step s op) := by
  cases op with
  | createNode ls =>
    intro e r hl
    have hl' : liveRec s e = some r := hl
    obtain ⟨a, b⟩ := hd e r hl'
    have en : (step s (.createNode ls)).nodes = aset s.nodes s.nextNode liveC := by
      show aset s.nodes s.nextNode _ = _; rw [h.node.epoch0]; rfl
    unfold nodeLive at a b ⊢
    rw [en, aget_aset, aget_aset]
    constructor
    · split
      · rfl
      · exact a
    · split
      · rfl
      · exact b
  | deleteNode id =>
    show NoDangling (s.deleteNodeAt id s.epoch).1
    rw [deleteNodeAt_eq s h.node id]
    split
    · intro e r hl
      have hl' : liveRec s e = some r := hl
      obtain ⟨a, b⟩ := hd e r hl'
      simp only [edgeOk, Bool.and_eq_true] at hok
      have ho := isEmpty_eq_nil _ hok.1
      have hi := isEmpty_eq_nil _ hok.2
      have hs : r.src ≠ id := by
        intro e1
        have := (mem_outEdges s h.edge id r.dst e).mpr ⟨r, hl', e1, rfl⟩
        rw [ho] at this; simp at this
      have hdst : r.dst ≠ id := by
        intro e1
        have := (mem_inEdges s h.edge id r.src e).mpr ⟨r, hl', e1, rfl⟩
        rw [hi] at this; simp at this
      unfold nodeLive at a b ⊢
      simp only [aget_aset, hs, hdst, if_false]
      exact ⟨a, b⟩
    · exact hd
  | createEdge a b t =>
    show NoDangling (s.createEdge a b t s.epoch systemTx).1
    rw [createEdge_eq s a b t h.node.epoch0]
    simp only [edgeOk, Bool.and_eq_true] at hok
    have ha := (getNodeAt_isSome s h.node a).mp hok.1
    have hb := (getNodeAt_isSome s h.node b).mp hok.2
    intro e r hl
    unfold liveRec at hl
    simp only [aget_aset] at hl
    show nodeLive s r.src ∧ nodeLive s r.dst
    by_cases he : e = s.nextEdge
    · simp only [he, if_true, Option.some.injEq] at hl
      subst hl; exact ⟨ha, hb⟩
    · simp only [he, if_false] at hl
      exact hd e r hl
  | deleteEdge x =>
    intro e r hl
    have heq : step s (.deleteEdge x) = (s.deleteEdgeAt x s.epoch).1 := rfl
    have b := deleteEdgeAt_sameNodeSide s x s.epoch
    rw [heq] at hl ⊢
    rw [liveRec_deleteEdge s h.edge] at hl
    unfold nodeLive; rw [b.nodes]
    split at hl
    · exact absurd hl (by simp)
    · exact hd e r hl
  | deleteNodeEdges n =>
    intro e r hl
    have heq : step s (.deleteNodeEdges n) = delEdges s ((s.outEdges n).map (·.2) ++ (s.inEdges n).map (·.2)) := rfl
    obtain ⟨_, b, c, _⟩ := delEdges_ok s h.edge ((s.outEdges n).map (·.2) ++ (s.inEdges n).map (·.2))
    rw [heq] at hl ⊢
    rw [c e] at hl
    unfold nodeLive; rw [b.nodes]
    split at hl
    · exact absurd hl (by simp)
    · exact hd e r hl
  | setNodeProp id k v =>
    obtain ⟨_, _, a0, _, _, _, a1, _⟩ := setNodeProp_frame s id k v
    exact noDangling_of_same s _ a1 a0 hd
  | removeNodeProp id k => exact noDangling_of_same s _ rfl rfl hd
  | setEdgeProp e k v =>
    obtain ⟨a, b, _⟩ := setEdgeProp_frame s e k v
    exact noDangling_of_same s _ b a.nodes hd
  | addLabel id l =>
    show NoDangling (s.addLabel id l).1
    rw [addLabel_eq s h.node]
    split
    · exact noDangling_of_same s _ rfl rfl hd
    · exact hd
  | removeLabel id l =>
    show NoDangling (s.removeLabel id l).1
    rw [removeLabel_eq s h.node]
    split
    · exact noDangling_of_same s _ rfl rfl hd
    · exact hd
  | createIndex k =>
    show NoDangling (s.createIndex k)
    rw [createIndex_eq]
    split
    · exact hd
    · exact noDangling_of_same s _ rfl rfl hd
  | dropIndex k => exact noDangling_of_same s _ rfl rfl hd

/-- induction over a history on which a step condition holds throughout -/
theorem foldl_step_inv_ok (P : Store → Op → Bool) (Q : Store → Prop)
    (hstep : ∀ s op, PathInv s → Q s → P s op = true → Q (step s op))
    (ops : List Op) (s : Store) (h : PathInv s) (hq : Q s) (hok : okFrom P s ops = true) :
    Q (ops.foldl step s) := by
  induction ops generalizing s with
  | nil => exact hq
  | cons op rest ih =>
    simp only [okFrom, Bool.and_eq_true] at hok
    exact ih _ (pathInv_step s op h) (hstep s op h hq hok.1) hok.2

theorem noGhost_init (b : Bool) : NoGhost { hasBwd := b } := by intro id hs; simp [aget] at hs
theorem noGhostE_init (b : Bool) : NoGhostE { hasBwd := b } := by intro id hs; simp [aget] at hs
theorem noDangling_init (b : Bool) : NoDangling { hasBwd := b } := by intro e r hs; simp [liveRec, aget] at hs
theorem pxExact_init : PxExact [] [] := by intro k v id hs; simp [aget] at hs

/-- F: after any history no property map is stored for an id that is not a live node … -/
theorem noGhost_run (b : Bool) (ops : List Op) : NoGhost (run b ops) :=
  (foldl_step_inv (fun s => PathInv s ∧ NoGhost s)
    (fun s op hq => ⟨pathInv_step s op hq.1, noGhost_step s op hq.1 hq.2⟩) ops _
    ⟨pathInv_init b, noGhost_init b⟩).2

/-- F: … nor for an id that is not a live edge … -/
theorem noGhostE_run (b : Bool) (ops : List Op) : NoGhostE (run b ops) :=
  (foldl_step_inv (fun s => PathInv s ∧ NoGhostE s)
    (fun s op hq => ⟨pathInv_step s op hq.1, noGhostE_step s op hq.1 hq.2⟩) ops _
    ⟨pathInv_init b, noGhostE_init b⟩).2

/-- P: under `edgeOk` every live edge joins two live nodes -/
theorem noDangling_run (b : Bool) (ops : List Op) (hok : histOk edgeOk b ops = true) : NoDangling (run b ops) :=
  foldl_step_inv_ok edgeOk NoDangling noDangling_step ops _ (pathInv_init b) (noDangling_init b) hok

/-- F: … and every property index is complete: each stored value of an indexed key has its entry. -/
theorem pxExact_run (b : Bool) (ops : List Op) : PxExact (run b ops).nprops (run b ops).pidx :=
  (foldl_step_inv (fun s => PathInv s ∧ NoGhost s ∧ PxExact s.nprops s.pidx)
    (fun s op hq => ⟨pathInv_step s op hq.1, noGhost_step s op hq.1 hq.2.1,
      pxExact_step s op hq.1 hq.2.1 hq.2.2⟩) ops _
    ⟨pathInv_init b, noGhost_init b, pxExact_init⟩).2.2

/-! ## Accessors of the plain graph -/

def Graph.alive (g : Graph) (i : Nat) : Bool := (g.node i).isSome
def Graph.nodeIds (g : Graph) : List Nat := (List.range g.nn).filter (fun i => (g.node i).isSome)
def Graph.edgeIds (g : Graph) : List Nat := (List.range g.ne).filter (fun e => (g.edge e).isSome)
def Graph.nodesByLabel (g : Graph) (l : Nat) : List Nat :=
  (List.range g.nn).filter (fun i => match g.node i with | some (ls, _) => ls.contains l | none => false)
def Graph.findByProp (g : Graph) (k : Nat) (v : String) : List Nat :=
  (List.range g.nn).filter (fun i => match g.node i with | some (_, ps) => aget ps k == some v | none => false)
/-- every live edge leaving `n`, whatever the state of its endpoints -/
def Graph.outAll (g : Graph) (n : Nat) : List (Nat × Nat) :=
  (List.range g.ne).filterMap (fun e => match g.edge e with
    | some (r, _) => if r.src = n then some (r.dst, e) else none
    | none => none)
def Graph.inAll (g : Graph) (n : Nat) : List (Nat × Nat) :=
  (List.range g.ne).filterMap (fun e => match g.edge e with
    | some (r, _) => if r.dst = n then some (r.src, e) else none
    | none => none)
/-- the listing the stream's specification asks for: live edges between live nodes -/
def Graph.outEdges (g : Graph) (n : Nat) : List (Nat × Nat) :=
  (List.range g.ne).filterMap (fun e => match g.edge e with
    | some (r, _) => if r.src = n ∧ g.alive n = true ∧ g.alive r.dst = true then some (r.dst, e) else none
    | none => none)
def Graph.inEdges (g : Graph) (n : Nat) : List (Nat × Nat) :=
  (List.range g.ne).filterMap (fun e => match g.edge e with
    | some (r, _) => if r.dst = n ∧ g.alive n = true ∧ g.alive r.src = true then some (r.src, e) else none
    | none => none)

theorem nodup_filterMap_tagged (l : List Nat) (f : Nat → Option (Nat × Nat))
    (hf : ∀ e p, f e = some p → p.2 = e) (hl : l.Nodup) : (l.filterMap f).Nodup := by
  induction l with
  | nil => simp
  | cons a rest ih =>
    simp only [List.nodup_cons] at hl
    rw [List.filterMap_cons]
    cases hfa : f a with
    | none => exact ih hl.2
    | some p =>
      simp only [List.nodup_cons]
      refine ⟨?_, ih hl.2⟩
      intro hm
      obtain ⟨b, hb, hfb⟩ := List.mem_filterMap.mp hm
      have e1 := hf a p hfa
      have e2 := hf b p hfb
      have : a = b := e1.symm.trans e2
      subst this
      exact hl.1 hb

theorem Graph.mem_outAll (g : Graph) (n d e : Nat) :
    (d, e) ∈ g.outAll n ↔ e < g.ne ∧ ∃ r ps, g.edge e = some (r, ps) ∧ r.src = n ∧ r.dst = d := by
  unfold Graph.outAll
  simp only [List.mem_filterMap, List.mem_range]
  constructor
  · rintro ⟨e', hlt, hm⟩
    cases hg : g.edge e' with
    | none => rw [hg] at hm; simp at hm
    | some rp =>
      obtain ⟨r, ps⟩ := rp
      rw [hg] at hm
      simp only at hm
      split at hm
      · rename_i hs
        simp only [Option.some.injEq, Prod.mk.injEq] at hm
        obtain ⟨rfl, rfl⟩ := hm
        exact ⟨hlt, r, ps, hg, hs, rfl⟩
      · simp at hm
  · rintro ⟨hlt, r, ps, hg, hs, hd⟩
    refine ⟨e, hlt, ?_⟩
    rw [hg]; simp [hs, hd]

theorem Graph.mem_inAll (g : Graph) (n o e : Nat) :
    (o, e) ∈ g.inAll n ↔ e < g.ne ∧ ∃ r ps, g.edge e = some (r, ps) ∧ r.dst = n ∧ r.src = o := by
  unfold Graph.inAll
  simp only [List.mem_filterMap, List.mem_range]
  constructor
  · rintro ⟨e', hlt, hm⟩
    cases hg : g.edge e' with
    | none => rw [hg] at hm; simp at hm
    | some rp =>
      obtain ⟨r, ps⟩ := rp
      rw [hg] at hm
      simp only at hm
      split at hm
      · rename_i hs
        simp only [Option.some.injEq, Prod.mk.injEq] at hm
        obtain ⟨rfl, rfl⟩ := hm
        exact ⟨hlt, r, ps, hg, hs, rfl⟩
      · simp at hm
  · rintro ⟨hlt, r, ps, hg, hs, hd⟩
    refine ⟨e, hlt, ?_⟩
    rw [hg]; simp [hs, hd]

theorem Graph.outAll_nodup (g : Graph) (n : Nat) : (g.outAll n).Nodup := by
  apply nodup_filterMap_tagged _ _ _ List.nodup_range
  intro e p hp
  cases hg : g.edge e with
  | none => rw [hg] at hp; simp at hp
  | some rp =>
    rw [hg] at hp
    simp only at hp
    split at hp
    · simp only [Option.some.injEq] at hp; subst hp; rfl
    · simp at hp

theorem Graph.inAll_nodup (g : Graph) (n : Nat) : (g.inAll n).Nodup := by
  apply nodup_filterMap_tagged _ _ _ List.nodup_range
  intro e p hp
  cases hg : g.edge e with
  | none => rw [hg] at hp; simp at hp
  | some rp =>
    rw [hg] at hp
    simp only at hp
    split at hp
    · simp only [Option.some.injEq] at hp; subst hp; rfl
    · simp at hp

/-- when every live edge joins live nodes, the specification's listing is the plain one -/
theorem Graph.outEdges_eq_outAll (g : Graph)
    (h : ∀ e r ps, g.edge e = some (r, ps) → g.alive r.src = true ∧ g.alive r.dst = true) (n : Nat) :
    g.outEdges n = g.outAll n := by
  unfold Graph.outEdges Graph.outAll
  apply filterMap_congr'
  intro e _
  cases hg : g.edge e with
  | none => rfl
  | some rp =>
    obtain ⟨r, ps⟩ := rp
    obtain ⟨a, b⟩ := h e r ps hg
    simp only
    by_cases hs : r.src = n
    · subst hs; simp [a, b]
    · simp [hs]

theorem Graph.inEdges_eq_inAll (g : Graph)
    (h : ∀ e r ps, g.edge e = some (r, ps) → g.alive r.src = true ∧ g.alive r.dst = true) (n : Nat) :
    g.inEdges n = g.inAll n := by
  unfold Graph.inEdges Graph.inAll
  apply filterMap_congr'
  intro e _
  cases hg : g.edge e with
  | none => rfl
  | some rp =>
    obtain ⟨r, ps⟩ := rp
    obtain ⟨a, b⟩ := h e r ps hg
    simp only
    by_cases hs : r.dst = n
    · subst hs; simp [a, b]
    · simp [hs]

/-! ## Every accessor of a reachable store = the plain-graph accessor on its abstraction -/

theorem abs_node_isSome (s : Store) (h : PathInv s) (i : Nat) :
    ((abs s).node i).isSome = true ↔ nodeLive s i := getNodeAt_isSome s h.node i

theorem abs_edge_eq_some (s : Store) (h : PathInv s) (e : Nat) (r : EdgeRec) (ps : AList String) :
    (abs s).edge e = some (r, ps) ↔ liveRec s e = some r ∧ ps = (aget s.eprops e).getD [] := by
  rw [abs_edge s h]
  cases liveRec s e with
  | none => simp
  | some r' =>
    simp only [Option.map_some, Option.some.injEq, Prod.mk.injEq]
    constructor
    · rintro ⟨a, b⟩; exact ⟨a, b.symm⟩
    · rintro ⟨a, b⟩; exact ⟨a, b.symm⟩

theorem nodeIds_abs (s : Store) (h : PathInv s) : s.nodeIds = (abs s).nodeIds := by
  rw [nodeIds_eq s h.node]
  unfold Graph.nodeIds
  apply List.filter_congr
  intro i _
  have := abs_node_isSome s h i
  by_cases hl : nodeLive s i
  · simp [hl, this.mpr hl]
  · have : ¬ ((abs s).node i).isSome = true := fun a => hl (this.mp a)
    simp [hl, this]

theorem edgeIds_abs (s : Store) (h : PathInv s) : s.edgeIds = (abs s).edgeIds := by
  rw [edgeIds_eq s h.edge]
  unfold Graph.edgeIds
  apply List.filter_congr
  intro e _
  rw [abs_edge s h]
  cases liveRec s e <;> rfl

theorem outEdges_perm_abs (s : Store) (h : PathInv s) (n : Nat) : (s.outEdges n).Perm ((abs s).outAll n) := by
  rw [List.perm_ext_iff_of_nodup (outEdges_nodup s h.edge n) (Graph.outAll_nodup _ n)]
  rintro ⟨d, e⟩
  rw [mem_outEdges s h.edge, Graph.mem_outAll]
  constructor
  · rintro ⟨r, hl, hs, hd⟩
    exact ⟨liveRec_lt s h.edge e r hl, r, _, (abs_edge_eq_some s h e r _).mpr ⟨hl, rfl⟩, hs, hd⟩
  · rintro ⟨_, r, ps, hg, hs, hd⟩
    exact ⟨r, ((abs_edge_eq_some s h e r ps).mp hg).1, hs, hd⟩

theorem inEdges_perm_abs (s : Store) (h : PathInv s) (n : Nat) : (s.inEdges n).Perm ((abs s).inAll n) := by
  rw [List.perm_ext_iff_of_nodup (inEdges_nodup s h.edge n) (Graph.inAll_nodup _ n)]
  rintro ⟨o, e⟩
  rw [mem_inEdges s h.edge, Graph.mem_inAll]
  constructor
  · rintro ⟨r, hl, hs, hd⟩
    exact ⟨liveRec_lt s h.edge e r hl, r, _, (abs_edge_eq_some s h e r _).mpr ⟨hl, rfl⟩, hs, hd⟩
  · rintro ⟨_, r, ps, hg, hs, hd⟩
    exact ⟨r, ((abs_edge_eq_some s h e r ps).mp hg).1, hs, hd⟩

/-- no dangling edges, seen through the abstraction -/
theorem abs_noDangling (s : Store) (h : PathInv s) (hd : NoDangling s) :
    ∀ e r ps, (abs s).edge e = some (r, ps) → (abs s).alive r.src = true ∧ (abs s).alive r.dst = true := by
  intro e r ps hg
  obtain ⟨a, b⟩ := hd e r ((abs_edge_eq_some s h e r ps).mp hg).1
  exact ⟨(abs_node_isSome s h _).mpr a, (abs_node_isSome s h _).mpr b⟩

/-- the scan answer, on the store and on the plain graph -/
theorem scan_abs (s : Store) (h : PathInv s) (k : Nat) (v : String) :
    s.nodeIds.filter (fun id => aget (s.nodePropsOf id) k == some v) = (abs s).findByProp k v := by
  rw [nodeIds_eq s h.node, List.filter_filter]
  unfold Graph.findByProp
  apply List.filter_congr
  intro i _
  rw [abs_node s h]
  by_cases hl : nodeLive s i
  · simp [hl]
  · simp [hl]

theorem findByProp_eq_idxBucket (s : Store) (k : Nat) (v : String) (hi : (aget s.pidx k).isSome = true) :
    s.findByProp k v = idxBucket s.pidx k v := by
  unfold Store.findByProp idxBucket
  cases hg : aget s.pidx k with
  | none => rw [hg] at hi; simp at hi
  | some vals => rfl

theorem findByProp_eq_scan (s : Store) (k : Nat) (v : String) (hi : (aget s.pidx k).isSome = false) :
    s.findByProp k v = s.nodeIds.filter (fun id => aget (s.nodePropsOf id) k == some v) := by
  unfold Store.findByProp
  cases hg : aget s.pidx k with
  | none => rfl
  | some vals => rw [hg] at hi; simp at hi

theorem idxBucket_nodup (s : Store) (h : PathInv s) (k : Nat) (v : String) : (idxBucket s.pidx k v).Nodup := by
  unfold idxBucket
  cases hg : aget s.pidx k with
  | none => simp
  | some vals => exact (h.pxWf k vals hg).2 v

theorem findByProp_perm_scan (s : Store) (h : PathInv s) (hg : NoGhost s) (hx : PxExact s.nprops s.pidx)
    (k : Nat) (v : String) :
    (s.findByProp k v).Perm (s.nodeIds.filter (fun id => aget (s.nodePropsOf id) k == some v)) := by
  cases hi : (aget s.pidx k).isSome with
  | false => rw [findByProp_eq_scan s k v hi]
  | true =>
    rw [findByProp_eq_idxBucket s k v hi,
      List.perm_ext_iff_of_nodup (idxBucket_nodup s h k v) ((nodeIds_nodup s h.node).filter _)]
    intro id
    simp only [List.mem_filter, beq_iff_eq, mem_nodeIds s h.node]
    constructor
    · intro hm
      have hp := h.pxSound k v id hm
      refine ⟨?_, hp⟩
      apply hg id
      unfold propsOf at hp
      cases hq : aget s.nprops id with
      | none => rw [hq] at hp; simp [aget] at hp
      | some ps => rfl
    · rintro ⟨_, hp⟩
      exact hx k v id hi hp

theorem nodesByLabel_perm_abs (s : Store) (h : PathInv s) (hl : LabelInv s) (l : Nat) :
    (s.nodesByLabel l).Perm ((abs s).nodesByLabel l) := by
  unfold Graph.nodesByLabel Store.nodesByLabel
  rw [List.perm_ext_iff_of_nodup (h.lbl l) (List.nodup_range.filter _)]
  intro id
  simp only [List.mem_filter, List.mem_range]
  rw [abs_node s h]
  have hm := hl.mirror l id
  unfold inIdx hasLabel at hm
  show id ∈ (aget s.labelIdx l).getD [] ↔ _
  rw [hm]
  constructor
  · intro hlab
    obtain ⟨c, hc1, hc2⟩ := hl.live id l hlab
    have hc : c = liveC := (vis_iff_live c (h.node.chains id c hc1)).mp (by rw [← h.node.epoch0]; exact hc2)
    subst hc
    have hlive : nodeLive s id := hc1
    refine ⟨nodeLive_lt s h.node id hlive, ?_⟩
    simp [hlive, hlab]
  · rintro ⟨_, hb⟩
    by_cases hlive : nodeLive s id
    · simpa [hlive] using hb
    · simp [hlive] at hb

/-! ## The theorems -/

theorem run_epoch (b : Bool) (ops : List Op) : (run b ops).epoch = 0 := (pathInv_run b ops).node.epoch0

theorem run_snoc (b : Bool) (ops : List Op) (op : Op) : run b (ops ++ [op]) = step (run b ops) op := by
  unfold run; rw [List.foldl_append]; rfl

/-! ### 1. adjacency -/

/-- F: after any history, `(d, e)` is listed under `n` by `edges_from(n, Outgoing)` iff `get_edge(e)`
answers with the record `⟨n, d, _⟩`. -/
theorem c14p_outEdges_iff (b : Bool) (ops : List Op) (n d e : Nat) :
    (d, e) ∈ (run b ops).outEdges n ↔
      ∃ t ps, (run b ops).getEdgeTo e (run b ops).epoch systemTx = some (⟨n, d, t⟩, ps) := by
  have h := pathInv_run b ops
  generalize run b ops = s at *
  rw [mem_outEdges s h.edge]
  constructor
  · rintro ⟨r, hl, rfl, rfl⟩
    exact ⟨r.ty, _, (abs_edge_eq_some s h e r _).mpr ⟨hl, rfl⟩⟩
  · rintro ⟨t, ps, hg⟩
    exact ⟨_, ((abs_edge_eq_some s h e _ ps).mp hg).1, rfl, rfl⟩

/-- F: the mirror statement for `edges_to(n)` — with the backward table (`b = true`) and with the
scan the store falls back to without it (`b = false`). -/
theorem c14p_inEdges_iff (b : Bool) (ops : List Op) (n o e : Nat) :
    (o, e) ∈ (run b ops).inEdges n ↔
      ∃ t ps, (run b ops).getEdgeTo e (run b ops).epoch systemTx = some (⟨o, n, t⟩, ps) := by
  have h := pathInv_run b ops
  generalize run b ops = s at *
  rw [mem_inEdges s h.edge]
  constructor
  · rintro ⟨r, hl, rfl, rfl⟩
    exact ⟨r.ty, _, (abs_edge_eq_some s h e r _).mpr ⟨hl, rfl⟩⟩
  · rintro ⟨t, ps, hg⟩
    exact ⟨_, ((abs_edge_eq_some s h e _ ps).mp hg).1, rfl, rfl⟩

/-- F: no listing mentions an edge twice. -/
theorem c14p_adjacency_nodup (b : Bool) (ops : List Op) (n : Nat) :
    ((run b ops).outEdges n).Nodup ∧ ((run b ops).inEdges n).Nodup ∧
    (((run b ops).outEdges n).map (·.2)).Nodup ∧ (((run b ops).inEdges n).map (·.2)).Nodup := by
  have h := pathInv_run b ops
  generalize run b ops = s at *
  have key : ∀ (l : List (Nat × Nat)), l.Nodup →
      (∀ p q, p ∈ l → q ∈ l → p.2 = q.2 → p = q) → (l.map (·.2)).Nodup := by
    intro l hn hinj
    induction l with
    | nil => simp
    | cons a rest ih =>
      simp only [List.nodup_cons] at hn
      simp only [List.map_cons, List.nodup_cons, List.mem_map, not_exists, not_and]
      refine ⟨?_, ih hn.2 (fun p q hp hq => hinj p q (List.mem_cons_of_mem _ hp) (List.mem_cons_of_mem _ hq))⟩
      intro x hx he
      have := hinj x a (List.mem_cons_of_mem _ hx) (List.mem_cons_self ..) he
      subst this; exact hn.1 hx
  refine ⟨outEdges_nodup s h.edge n, inEdges_nodup s h.edge n, ?_, ?_⟩
  · apply key _ (outEdges_nodup s h.edge n)
    rintro ⟨d1, e1⟩ ⟨d2, e2⟩ h1 h2 he
    simp only at he; subst he
    obtain ⟨r1, hl1, _, hd1⟩ := (mem_outEdges s h.edge n d1 e1).mp h1
    obtain ⟨r2, hl2, _, hd2⟩ := (mem_outEdges s h.edge n d2 e1).mp h2
    rw [hl1] at hl2; simp only [Option.some.injEq] at hl2; subst hl2
    rw [← hd1, ← hd2]
  · apply key _ (inEdges_nodup s h.edge n)
    rintro ⟨d1, e1⟩ ⟨d2, e2⟩ h1 h2 he
    simp only at he; subst he
    obtain ⟨r1, hl1, _, hd1⟩ := (mem_inEdges s h.edge n d1 e1).mp h1
    obtain ⟨r2, hl2, _, hd2⟩ := (mem_inEdges s h.edge n d2 e1).mp h2
    rw [hl1] at hl2; simp only [Option.some.injEq] at hl2; subst hl2
    rw [← hd1, ← hd2]

theorem length_filterMap_eq {α β : Type} (l : List α) (f : α → Option β) :
    (l.filterMap f).length = (l.filter (fun a => (f a).isSome)).length := by
  induction l with
  | nil => rfl
  | cons a rest ih =>
    rw [List.filterMap_cons, List.filter_cons]
    cases h : f a with
    | none => simpa using ih
    | some x => simp [ih]

/-- F: out-degree and in-degree = the number of enumerated (`all_edges`) edges whose `get_edge`
record starts / ends at `n`. -/
theorem c14p_degrees (b : Bool) (ops : List Op) (n : Nat) :
    ((run b ops).outEdges n).length =
      ((run b ops).edgeIds.filter (fun e =>
        ((run b ops).getEdgeTo e (run b ops).epoch systemTx).any (fun rp => rp.1.src == n))).length ∧
    ((run b ops).inEdges n).length =
      ((run b ops).edgeIds.filter (fun e =>
        ((run b ops).getEdgeTo e (run b ops).epoch systemTx).any (fun rp => rp.1.dst == n))).length := by
  have h := pathInv_run b ops
  generalize run b ops = s at *
  constructor
  · rw [(outEdges_perm_abs s h n).length_eq, edgeIds_abs s h]
    unfold Graph.outAll Graph.edgeIds
    rw [length_filterMap_eq, List.filter_filter]
    congr 1
    apply List.filter_congr
    intro e _
    show _ = (((abs s).edge e).any _ && ((abs s).edge e).isSome)
    cases hg : (abs s).edge e with
    | none => rfl
    | some rp =>
      obtain ⟨r, ps⟩ := rp
      by_cases hs : r.src = n
      · simp [hs]
      · simp [hs]
  · rw [(inEdges_perm_abs s h n).length_eq, edgeIds_abs s h]
    unfold Graph.inAll Graph.edgeIds
    rw [length_filterMap_eq, List.filter_filter]
    congr 1
    apply List.filter_congr
    intro e _
    show _ = (((abs s).edge e).any _ && ((abs s).edge e).isSome)
    cases hg : (abs s).edge e with
    | none => rfl
    | some rp =>
      obtain ⟨r, ps⟩ := rp
      by_cases hs : r.dst = n
      · simp [hs]
      · simp [hs]

/-- P: if edges are only created between live nodes and the non-detaching `delete_node` is only used
on nodes without live edges (`histOk edgeOk`), no listing ever mentions a deleted or missing node:
the node asked about and every neighbour listed are live. -/
theorem c14p_adjacent_nodes_live_partial (b : Bool) (ops : List Op) (hok : histOk edgeOk b ops = true)
    (n d e : Nat) (hm : (d, e) ∈ (run b ops).outEdges n ∨ (d, e) ∈ (run b ops).inEdges n) :
    ((run b ops).getNodeAt n (run b ops).epoch).isSome = true ∧
    ((run b ops).getNodeAt d (run b ops).epoch).isSome = true := by
  have h := pathInv_run b ops
  have hd := noDangling_run b ops hok
  generalize run b ops = s at *
  rw [getNodeAt_isSome s h.node, getNodeAt_isSome s h.node]
  rcases hm with hm | hm
  · obtain ⟨r, hl, rfl, rfl⟩ := (mem_outEdges s h.edge n d e).mp hm
    exact hd e r hl
  · obtain ⟨r, hl, rfl, rfl⟩ := (mem_inEdges s h.edge n d e).mp hm
    exact (hd e r hl).symm

/-- W: the hypothesis of `c14p_adjacent_nodes_live_partial` cannot be dropped, in either half.
(1) `delete_node` (no detach) of a node that still has an edge: the edge stays live, so the deleted
node keeps appearing as a neighbour, and its own listing stays non-empty (known finding
`C14-dangling-edges-after-delete-node`); the two tables still agree with the edge table, as
`c14p_outEdges_iff` says. (2) an edge created towards an id that was never handed out. -/
theorem c14p_dangling_witness :
    let h1 : List Op := [.createNode [], .createNode [], .createEdge 0 1 0, .deleteNode 1]
    let h2 : List Op := [.createNode [], .createEdge 0 5 0]
    histOk edgeOk true h1 = false ∧
    (run true h1).outEdges 0 = [(1, 0)] ∧ (run true h1).inEdges 1 = [(0, 0)] ∧
    (run true h1).getNodeAt 1 0 = none ∧ (run true h1).edgeIds = [0] ∧
    (run false h1).inEdges 1 = [(0, 0)] ∧
    histOk edgeOk true h2 = false ∧
    (run true h2).outEdges 0 = [(5, 0)] ∧ (run true h2).getNodeAt 5 0 = none := by
  decide

/-! ### 2. the edge table -/

/-- F: `all_edges` enumerates exactly the edges `get_edge` answers for, each once, in id order;
`edge_count` is the length of that enumeration and `node_count` the length of `node_ids`. -/
theorem c14p_edgeIds_iff (b : Bool) (ops : List Op) :
    (∀ e, e ∈ (run b ops).edgeIds ↔ ((run b ops).getEdgeTo e (run b ops).epoch systemTx).isSome = true) ∧
    (run b ops).edgeIds.Nodup ∧
    (run b ops).edgeIds = (abs (run b ops)).edgeIds := by
  have h := pathInv_run b ops
  generalize run b ops = s at *
  refine ⟨?_, edgeIds_nodup s h.edge, edgeIds_abs s h⟩
  intro e
  rw [mem_edgeIds s h.edge, getEdgeTo_eq s h.edge]
  cases liveRec s e <;> simp

theorem vis_pending_liveC : chainVisibleAt liveC pendingEpoch = true := by decide
theorem vis_pending_deadC : chainVisibleAt deadC pendingEpoch = false := by decide

/-- F: the counters (`node_count`, `edge_count`) equal the number of entities enumerated. -/
theorem c14p_counts (b : Bool) (ops : List Op) :
    (run b ops).nodeCount = (run b ops).nodeIds.length ∧ (run b ops).edgeCount = (run b ops).edgeIds.length := by
  have h := pathInv_run b ops
  generalize run b ops = s at *
  constructor
  · unfold Store.nodeCount Store.nodeIds
    rw [List.length_map]
    congr 1
    apply List.filter_congr
    rintro ⟨k, c⟩ hm
    have hk : (s.nodes.map (·.1)).Nodup := by rw [h.node.keys]; exact List.nodup_range
    rcases h.node.chains k c ((mem_iff_aget s.nodes hk k c).mp hm) with rfl | rfl
    · simp [h.node.epoch0, vis_liveC, vis_pending_liveC]
    · simp [h.node.epoch0, vis_deadC, vis_pending_deadC]
  · unfold Store.edgeCount Store.edgeIds
    rw [List.length_map]
    congr 1
    apply List.filter_congr
    rintro ⟨k, c, r⟩ hm
    have hk : (s.edges.map (·.1)).Nodup := by rw [h.edge.keys]; exact List.nodup_range
    rcases h.edge.chains k c r ((mem_iff_aget s.edges hk k (c, r)).mp hm) with rfl | rfl
    · simp [h.edge.epoch0, vis_liveC, vis_pending_liveC]
    · simp [h.edge.epoch0, vis_deadC, vis_pending_deadC]

/-- F: in any reachable state, an edge `get_edge` does not answer for appears on no path: not in the
enumeration, not in any outgoing or incoming listing. -/
theorem c14p_dead_edge_nowhere (b : Bool) (ops : List Op) (e : Nat)
    (hdead : (run b ops).getEdgeTo e (run b ops).epoch systemTx = none) :
    e ∉ (run b ops).edgeIds ∧ ∀ n d, (d, e) ∉ (run b ops).outEdges n ∧ (d, e) ∉ (run b ops).inEdges n := by
  refine ⟨?_, fun n d => ⟨?_, ?_⟩⟩
  · intro hm
    have := ((c14p_edgeIds_iff b ops).1 e).mp hm
    rw [hdead] at this; simp at this
  · intro hm
    obtain ⟨t, ps, hg⟩ := (c14p_outEdges_iff b ops n d e).mp hm
    rw [hdead] at hg; simp at hg
  · intro hm
    obtain ⟨t, ps, hg⟩ := (c14p_inEdges_iff b ops n d e).mp hm
    rw [hdead] at hg; simp at hg

/-- F: `delete_edge(e)` after any history removes `e` from every path at once: the point lookup,
the enumeration, both adjacency directions (whatever the node), and — when `e` was live — its
property map. -/
theorem c14p_deleteEdge_everywhere (b : Bool) (ops : List Op) (e : Nat) :
    let s' := run b (ops ++ [.deleteEdge e])
    s'.getEdgeTo e s'.epoch systemTx = none ∧ e ∉ s'.edgeIds ∧
    (∀ n d, (d, e) ∉ s'.outEdges n ∧ (d, e) ∉ s'.inEdges n) ∧
    (((run b ops).getEdgeTo e (run b ops).epoch systemTx).isSome = true → aget s'.eprops e = none) := by
  intro s'
  have hdead : s'.getEdgeTo e s'.epoch systemTx = none := by
    have h' := pathInv_run b (ops ++ [.deleteEdge e])
    show (run b (ops ++ [.deleteEdge e])).getEdgeTo e _ systemTx = none
    rw [getEdgeTo_eq _ h'.edge, run_snoc]
    have h := pathInv_run b ops
    have heq : step (run b ops) (.deleteEdge e) = ((run b ops).deleteEdgeAt e (run b ops).epoch).1 := rfl
    rw [heq, liveRec_deleteEdge _ h.edge]; simp
  obtain ⟨a, c⟩ := c14p_dead_edge_nowhere b (ops ++ [.deleteEdge e]) e hdead
  refine ⟨hdead, a, c, ?_⟩
  intro hlive
  have h := pathInv_run b ops
  show aget (run b (ops ++ [.deleteEdge e])).eprops e = none
  rw [run_snoc]
  have heq : step (run b ops) (.deleteEdge e) = ((run b ops).deleteEdgeAt e (run b ops).epoch).1 := rfl
  rw [heq, eprops_deleteEdge _ h.edge]
  rw [getEdgeTo_eq _ h.edge] at hlive
  have : (liveRec (run b ops) e).isSome = true := by simpa using hlive
  simp [this]

/-! ### 3. property paths -/

/-- the scan answer: enumerate the live nodes, keep those whose property `k` is `v` -/
def _root_.Grafeo.Lpg.Store.scanByProp (s : Store) (k : Nat) (v : String) : List Nat :=
  s.nodeIds.filter (fun id => aget (s.nodePropsOf id) k == some v)

/-- F: whatever the history — index created before, between or after the writes, overwrites, removes,
deletes, even writes to missing ids — every id `find_nodes_by_property(k, v)` returns has `k = v` in
the property table, and is returned once. -/
theorem c14p_findByProp_sound (b : Bool) (ops : List Op) (k : Nat) (v : String) :
    (∀ id, id ∈ (run b ops).findByProp k v → aget ((run b ops).nodePropsOf id) k = some v) ∧
    ((run b ops).findByProp k v).Nodup := by
  have h := pathInv_run b ops
  generalize run b ops = s at *
  cases hi : (aget s.pidx k).isSome with
  | false =>
    rw [findByProp_eq_scan s k v hi]
    refine ⟨?_, (nodeIds_nodup s h.node).filter _⟩
    intro id hm
    simp only [List.mem_filter, beq_iff_eq] at hm
    exact hm.2
  | true =>
    rw [findByProp_eq_idxBucket s k v hi]
    exact ⟨fun id hm => h.pxSound k v id hm, idxBucket_nodup s h k v⟩

/-- F: without an index on `k` the lookup *is* the scan. -/
theorem c14p_findByProp_noindex (b : Bool) (ops : List Op) (k : Nat) (v : String)
    (hi : (aget (run b ops).pidx k).isSome = false) :
    (run b ops).findByProp k v = (run b ops).scanByProp k v :=
  findByProp_eq_scan _ k v hi

/-- F: after **any** history — with the index on `k` created before, between or after the writes,
dropped and re-created, values overwritten and removed, nodes deleted, writes attempted on missing or
deleted ids (refused since the repair of `set_node_property`) — the indexed lookup returns exactly the
nodes the scan returns (as a permutation: the index keeps insertion order, the scan id order). -/
theorem c14p_index_eq_scan (b : Bool) (ops : List Op) (k : Nat) (v : String) :
    ((run b ops).findByProp k v).Perm ((run b ops).scanByProp k v) :=
  findByProp_perm_scan _ (pathInv_run b ops) (noGhost_run b ops) (pxExact_run b ops) k v

/-- F: no index entry (and no scan result) ever mentions a deleted or missing node. -/
theorem c14p_index_entries_live (b : Bool) (ops : List Op)
    (k : Nat) (v : String) (id : Nat) (hm : id ∈ (run b ops).findByProp k v) :
    ((run b ops).getNodeAt id (run b ops).epoch).isSome = true := by
  have hp := (c14p_index_eq_scan b ops k v).mem_iff.mp hm
  have h := pathInv_run b ops
  generalize run b ops = s at *
  unfold Store.scanByProp at hp
  rw [getNodeAt_isSome s h.node, ← mem_nodeIds s h.node]
  exact (List.mem_filter.mp hp).1

/-- W (regression): the histories that used to show the finding `C14-property-set-on-missing-node`
(and its C10 twin) now behave. (1) a value written to a deleted node is refused: lookup and scan are
both empty. (2) a value written to an id not handed out yet is refused: the node created later has no
property, lookup and scan are both empty. (3) on clean histories the two answers still differ in
order, so a permutation remains the right statement. -/
theorem c14p_index_regression :
    let h1 : List Op := [.createNode [], .createIndex 7, .deleteNode 0, .setNodeProp 0 7 "x"]
    let h2 : List Op := [.setNodeProp 0 7 "x", .createIndex 7, .createNode []]
    let h3 : List Op := [.createNode [], .createNode [], .createIndex 7, .setNodeProp 1 7 "x", .setNodeProp 0 7 "x"]
    (run true h1).findByProp 7 "x" = [] ∧ (run true h1).scanByProp 7 "x" = [] ∧
    (run true h1).getNodeAt 0 0 = none ∧ (run true h1).nprops = [] ∧
    (run true h2).findByProp 7 "x" = [] ∧ (run true h2).scanByProp 7 "x" = [] ∧
    (run true h2).getNodeAt 0 0 = some ([], []) ∧
    (run true h3).findByProp 7 "x" = [1, 0] ∧ (run true h3).scanByProp 7 "x" = [0, 1] := by
  decide

/-- N: the index on key 7 created before the writes, between them, and after them; an overwrite, a
remove, a delete of an indexed node, drop and re-create: the lookups agree with the scan,
non-trivially. -/
theorem c14p_index_timing_nonvacuity :
    let w : List Op := [.setNodeProp 0 7 "x", .setNodeProp 1 7 "x", .setNodeProp 2 7 "y", .setNodeProp 1 7 "y",
                        .removeNodeProp 2 7, .setNodeProp 3 7 "x", .deleteNode 3]
    let mk : List Op := [.createNode [], .createNode [], .createNode [], .createNode []]
    let before := mk ++ [.createIndex 7] ++ w
    let between := mk ++ w.take 3 ++ [.createIndex 7] ++ w.drop 3
    let after := mk ++ w ++ [.createIndex 7]
    let redo := mk ++ [.createIndex 7] ++ w.take 2 ++ [.dropIndex 7] ++ w.drop 2 ++ [.createIndex 7]
    (run true before).findByProp 7 "x" = [0] ∧ (run true between).findByProp 7 "x" = [0] ∧
    (run true after).findByProp 7 "x" = [0] ∧ (run true redo).findByProp 7 "x" = [0] ∧
    (run true before).findByProp 7 "y" = [1] ∧ (run true between).findByProp 7 "y" = [1] ∧
    (run true after).findByProp 7 "y" = [1] ∧ (run true redo).findByProp 7 "y" = [1] ∧
    (run true before).scanByProp 7 "x" = [0] ∧ (run true before).scanByProp 7 "y" = [1] ∧
    (aget (run true before).pidx 7).isSome = true ∧ (aget (run true redo).pidx 7).isSome = true := by
  decide

/-- F (the repair `cb53c9c`, for every history): right after `delete_node(id)`
of a live node, no property lookup, indexed or not, returns `id`, whatever key and value are asked. -/
theorem c14p_deleteNode_leaves_no_index_entry (b : Bool) (ops : List Op) (id k : Nat) (v : String)
    (hlive : ((run b ops).getNodeAt id (run b ops).epoch).isSome = true) :
    id ∉ (run b (ops ++ [.deleteNode id])).findByProp k v := by
  intro hm
  have hp := (c14p_findByProp_sound b (ops ++ [.deleteNode id]) k v).1 id hm
  have h := pathInv_run b ops
  rw [run_snoc] at hp
  have heq : step (run b ops) (.deleteNode id) = ((run b ops).deleteNodeAt id (run b ops).epoch).1 := rfl
  rw [heq, deleteNodeAt_eq _ h.node id, if_pos ((getNodeAt_isSome _ h.node id).mp hlive)] at hp
  simp [Store.nodePropsOf, aget_aerase, aget] at hp

/-! ### 4. refinement to the plain graph -/

theorem step_counters (s : Store) (op : Op) (h : PathInv s) :
    (step s op).nextNode = ((abs s).step op).nn ∧ (step s op).nextEdge = ((abs s).step op).ne := by
  cases op with
  | createNode ls => exact ⟨rfl, rfl⟩
  | deleteNode id =>
    show (s.deleteNodeAt id s.epoch).1.nextNode = s.nextNode ∧ (s.deleteNodeAt id s.epoch).1.nextEdge = s.nextEdge
    rw [deleteNodeAt_eq s h.node id]
    split <;> exact ⟨rfl, rfl⟩
  | deleteNodeEdges n =>
    obtain ⟨_, b, _, _⟩ := delEdges_ok s h.edge ((s.outEdges n).map (·.2) ++ (s.inEdges n).map (·.2))
    exact ⟨b.nextNode, b.nextEdge⟩
  | createEdge a b t => exact ⟨rfl, rfl⟩
  | deleteEdge e =>
    have b := deleteEdgeAt_sameNodeSide s e s.epoch
    exact ⟨b.nextNode, b.nextEdge⟩
  | setNodeProp id k v =>
    obtain ⟨_, a, _, _, _, b, _⟩ := setNodeProp_frame s id k v
    exact ⟨a, b⟩
  | removeNodeProp id k => exact ⟨rfl, rfl⟩
  | setEdgeProp e k v =>
    obtain ⟨a, _⟩ := setEdgeProp_frame s e k v
    exact ⟨a.nextNode, a.nextEdge⟩
  | addLabel id l =>
    show (s.addLabel id l).1.nextNode = s.nextNode ∧ (s.addLabel id l).1.nextEdge = s.nextEdge
    rw [addLabel_eq s h.node]
    split <;> exact ⟨rfl, rfl⟩
  | removeLabel id l =>
    show (s.removeLabel id l).1.nextNode = s.nextNode ∧ (s.removeLabel id l).1.nextEdge = s.nextEdge
    rw [removeLabel_eq s h.node]
    split <;> exact ⟨rfl, rfl⟩
  | createIndex k =>
    show (s.createIndex k).nextNode = s.nextNode ∧ (s.createIndex k).nextEdge = s.nextEdge
    rw [createIndex_eq]
    split <;> exact ⟨rfl, rfl⟩
  | dropIndex k => exact ⟨rfl, rfl⟩

/-- F: **every operation commutes with its plain-graph meaning**, in every state that satisfies the
invariant and holds no property map for a non-live id (`NoGhost`, `NoGhostE` — both hold after every
history since the repair, see `noGhost_run`, `noGhostE_run`). -/
theorem c14p_step_commutes (s : Store) (op : Op) (h : PathInv s) (hg : NoGhost s) (hge : NoGhostE s) :
    abs (step s op) = (abs s).step op :=
  Graph.ext' _ _ (step_counters s op h).1 (step_counters s op h).2
    (abs_step_node s op h hg) (abs_step_edge s op h hge)

theorem abs_init (b : Bool) : abs { hasBwd := b } = Graph.empty := by
  apply Graph.ext' (abs { hasBwd := b }) Graph.empty rfl rfl
  · intro i; simp [abs, Graph.empty, Store.getNodeAt, aget]
  · intro e; simp [abs, Graph.empty, Store.getEdgeTo, aget]

theorem refines_from (ops : List Op) : ∀ (s : Store) (g : Graph), PathInv s → NoGhost s → NoGhostE s →
    abs s = g → abs (ops.foldl step s) = ops.foldl Graph.step g := by
  induction ops with
  | nil => intro s g _ _ _ e; exact e
  | cons op rest ih =>
    intro s g h hg hge e
    simp only [List.foldl_cons]
    apply ih (step s op) (g.step op) (pathInv_step s op h) (noGhost_step s op h hg) (noGhostE_step s op h hge)
    rw [c14p_step_commutes s op h hg hge, e]

/-- F: **refinement, for every history.** The abstraction of the store after a history is the plain
graph obtained by running the same history on plain graphs. (Before the repair of
`set_node_property` / `set_edge_property` this needed the hypothesis that properties are written to
live entities only.) -/
theorem c14p_refines (b : Bool) (ops : List Op) : abs (run b ops) = grun ops :=
  refines_from ops _ _ (pathInv_init b) (noGhost_init b) (noGhostE_init b) (abs_init b)

/-- F: every accessor of the store after **any** history equals the plain-graph accessor on the
abstraction (= on what the two point lookups show). Enumerations are equal as lists; the label
index, the adjacency listings and the counters agree as permutations / lengths. -/
theorem c14p_accessors_eq_abs (b : Bool) (ops : List Op) :
    let s := run b ops
    s.nodeIds = (abs s).nodeIds ∧ s.edgeIds = (abs s).edgeIds ∧
    s.nodeCount = (abs s).nodeIds.length ∧ s.edgeCount = (abs s).edgeIds.length ∧
    (∀ l, (s.nodesByLabel l).Perm ((abs s).nodesByLabel l)) ∧
    (∀ n, (s.outEdges n).Perm ((abs s).outAll n) ∧ (s.inEdges n).Perm ((abs s).inAll n)) ∧
    (∀ k v, s.scanByProp k v = (abs s).findByProp k v) := by
  intro s
  have h : PathInv s := pathInv_run b ops
  have hl : LabelInv s := labelInv_run b ops
  have hc := c14p_counts b ops
  refine ⟨nodeIds_abs s h, edgeIds_abs s h, ?_, ?_, fun l => nodesByLabel_perm_abs s h hl l,
    fun n => ⟨outEdges_perm_abs s h n, inEdges_perm_abs s h n⟩, fun k v => scan_abs s h k v⟩
  · rw [← nodeIds_abs s h]; exact hc.1
  · rw [← edgeIds_abs s h]; exact hc.2

theorem accessors_of_refines (s : Store) (g : Graph) (h : PathInv s) (hl : LabelInv s) (hr : abs s = g)
    (hg : NoGhost s) (hx : PxExact s.nprops s.pidx) :
    s.nodeIds = g.nodeIds ∧ s.edgeIds = g.edgeIds ∧
    (∀ i, s.getNodeAt i s.epoch = g.node i) ∧ (∀ e, s.getEdgeTo e s.epoch systemTx = g.edge e) ∧
    (∀ l, (s.nodesByLabel l).Perm (g.nodesByLabel l)) ∧
    (∀ n, (s.outEdges n).Perm (g.outAll n) ∧ (s.inEdges n).Perm (g.inAll n)) ∧
    (∀ k v, (s.findByProp k v).Perm (g.findByProp k v)) ∧
    (NoDangling s → ∀ n, g.outEdges n = g.outAll n ∧ g.inEdges n = g.inAll n) := by
  subst hr
  refine ⟨nodeIds_abs s h, edgeIds_abs s h, fun _ => rfl, fun _ => rfl,
    fun l => nodesByLabel_perm_abs s h hl l,
    fun n => ⟨outEdges_perm_abs s h n, inEdges_perm_abs s h n⟩, ?_, ?_⟩
  · intro k v
    rw [← scan_abs s h k v]
    exact findByProp_perm_scan s h hg hx k v
  · intro hd n
    have hd' := abs_noDangling s h hd
    exact ⟨Graph.outEdges_eq_outAll _ hd' n, Graph.inEdges_eq_inAll _ hd' n⟩

/-- F: **the specification column of stream `lpg` as a theorem, for every history.** Every accessor
of the store equals the accessor of the plain graph `grun ops`, which never saw a version chain, an
adjacency table or an index: enumerations, counters, point lookups, label lookup, property lookup
(indexed or not), and the adjacency listings / degrees taken over all live edges (`outAll`, `inAll`). -/
theorem c14p_accessors_eq_plain_graph (b : Bool) (ops : List Op) :
    (run b ops).nodeIds = (grun ops).nodeIds ∧ (run b ops).edgeIds = (grun ops).edgeIds ∧
    (run b ops).nodeCount = (grun ops).nodeIds.length ∧ (run b ops).edgeCount = (grun ops).edgeIds.length ∧
    (∀ i, (run b ops).getNodeAt i (run b ops).epoch = (grun ops).node i) ∧
    (∀ e, (run b ops).getEdgeTo e (run b ops).epoch systemTx = (grun ops).edge e) ∧
    (∀ l, ((run b ops).nodesByLabel l).Perm ((grun ops).nodesByLabel l)) ∧
    (∀ n, ((run b ops).outEdges n).Perm ((grun ops).outAll n) ∧
          ((run b ops).inEdges n).Perm ((grun ops).inAll n) ∧
          ((run b ops).outEdges n).length = ((grun ops).outAll n).length ∧
          ((run b ops).inEdges n).length = ((grun ops).inAll n).length) ∧
    (∀ k v, ((run b ops).findByProp k v).Perm ((grun ops).findByProp k v)) := by
  obtain ⟨a1, a2, a3, a4, a5, a6, a7, _⟩ := accessors_of_refines (run b ops) (grun ops) (pathInv_run b ops)
    (labelInv_run b ops) (c14p_refines b ops) (noGhost_run b ops) (pxExact_run b ops)
  have hc := c14p_counts b ops
  refine ⟨a1, a2, by rw [← a1]; exact hc.1, by rw [← a2]; exact hc.2, a3, a4, a5, ?_, a7⟩
  intro n
  exact ⟨(a6 n).1, (a6 n).2, (a6 n).1.length_eq, (a6 n).2.length_eq⟩

/-- P: the adjacency listings the stream's specification asks for — live edges **between live
nodes** — need the one hypothesis that is left: edges are created between live nodes and the
non-detaching `delete_node` is used on nodes without live edges (`histOk edgeOk`). -/
theorem c14p_adjacency_eq_plain_graph_partial (b : Bool) (ops : List Op) (h3 : histOk edgeOk b ops = true)
    (n : Nat) :
    ((run b ops).outEdges n).Perm ((grun ops).outEdges n) ∧
    ((run b ops).inEdges n).Perm ((grun ops).inEdges n) ∧
    ((run b ops).outEdges n).length = ((grun ops).outEdges n).length ∧
    ((run b ops).inEdges n).length = ((grun ops).inEdges n).length := by
  obtain ⟨_, _, _, _, _, a6, _, a8⟩ := accessors_of_refines (run b ops) (grun ops) (pathInv_run b ops)
    (labelInv_run b ops) (c14p_refines b ops) (noGhost_run b ops) (pxExact_run b ops)
  obtain ⟨e1, e2⟩ := a8 (noDangling_run b ops h3) n
  rw [e1, e2]
  exact ⟨(a6 n).1, (a6 n).2, (a6 n).1.length_eq, (a6 n).2.length_eq⟩

/-- W (regression): the two ghost-property histories now refine. (1) a property written to a node id
not handed out yet is refused, the node created later has no property (was finding
`C14-property-set-on-missing-node`: `get_node` showed `7 = x`). (2) the same for edges (found by this
file's first version and replayed through stream `pers`: `pers open / pers sep 0 1 I1 / pers cn - /
pers ce 0 0 0 / pers dump` printed edge `0:0>0:0:1=I1` before the repair of `set_edge_property`). -/
theorem c14p_ghost_regression :
    let h1 : List Op := [.setNodeProp 0 7 "x", .createNode []]
    let h2 : List Op := [.setEdgeProp 0 1 "x", .createNode [], .createEdge 0 0 0]
    let h3 : List Op := [.createNode [], .createEdge 0 0 0, .deleteEdge 0, .setEdgeProp 0 1 "x", .deleteNode 0,
                         .setNodeProp 0 7 "x"]
    (run true h1).getNodeAt 0 0 = some ([], []) ∧ (grun h1).node 0 = some ([], []) ∧ (run true h1).nprops = [] ∧
    (run true h2).getEdgeTo 0 0 systemTx = some (⟨0, 0, 0⟩, []) ∧ (grun h2).edge 0 = some (⟨0, 0, 0⟩, []) ∧
    (run true h2).eprops = [] ∧
    (run true h3).nprops = [] ∧ (run true h3).eprops = [] := by
  decide

/-- W: the remaining hypothesis `edgeOk` cannot be dropped from
`c14p_adjacency_eq_plain_graph_partial`: after the non-detaching delete of node 1 the store lists the
edge to the deleted node, the plain graph's listing between live nodes is empty — known finding
`C14-dangling-edges-after-delete-node` (replayed through stream `lpg`:
`cn - / cn - / ce 0 1 0 / dn 1 / out 0` gives `1.0`). The listing over all live edges still agrees,
as `c14p_accessors_eq_plain_graph` says. -/
theorem c14p_refinement_witness :
    let h3 : List Op := [.createNode [], .createNode [], .createEdge 0 1 0, .deleteNode 1]
    histOk edgeOk true h3 = false ∧
    (run true h3).outEdges 0 = [(1, 0)] ∧ (grun h3).outEdges 0 = [] ∧ (grun h3).outAll 0 = [(1, 0)] := by
  decide

/-! ### 5. non-vacuity -/

/-- a history with a hub (node 0), two parallel edges 0→1, a self-loop on the hub, edges in both
directions, properties written before and after an index is created mid-way, an overwrite and a
remove, an edge property, label changes, an edge delete, two detach-deletes -/
def demoHistory : List Op :=
  [.createNode [1], .createNode [1, 2], .createNode [2], .createNode [],
   .createEdge 0 1 0, .createEdge 0 1 0, .createEdge 0 2 1, .createEdge 0 0 0,
   .createEdge 1 0 1, .createEdge 2 0 0, .createEdge 3 0 0,
   .setNodeProp 0 7 "x", .setNodeProp 1 7 "x", .createIndex 7, .setNodeProp 2 7 "x", .setNodeProp 1 7 "y",
   .setNodeProp 0 8 "z", .removeNodeProp 0 8, .setEdgeProp 3 1 "w",
   .deleteEdge 1, .deleteNodeEdges 3, .deleteNode 3, .addLabel 2 1, .removeLabel 1 1,
   .deleteNodeEdges 2, .deleteNode 2]

/-- N: the demo history satisfies the hypothesis that is left, with and without the backward table. -/
theorem c14p_nonvacuity_hyps :
    histOk edgeOk true demoHistory = true ∧ histOk edgeOk false demoHistory = true := by
  decide

/-- N: on the demo history the store's accessors have the non-trivial values the theorems predict … -/
theorem c14p_nonvacuity_store :
    (run true demoHistory).nodeIds = [0, 1] ∧ (run true demoHistory).edgeIds = [0, 3, 4] ∧
    (run true demoHistory).outEdges 0 = [(1, 0), (0, 3)] ∧
    (run true demoHistory).inEdges 0 = [(0, 3), (1, 4)] ∧ (run false demoHistory).inEdges 0 = [(0, 3), (1, 4)] ∧
    (run true demoHistory).inEdges 1 = [(0, 0)] ∧ (run true demoHistory).outEdges 2 = [] ∧
    (run true demoHistory).findByProp 7 "x" = [0] ∧ (run true demoHistory).findByProp 7 "y" = [1] ∧
    (aget (run true demoHistory).pidx 7).isSome = true ∧
    (run true demoHistory).nodesByLabel 1 = [0] ∧ (run true demoHistory).nodesByLabel 2 = [1] ∧
    (run true demoHistory).getNodeAt 0 0 = some ([1], [(7, "x")]) ∧ (run true demoHistory).getNodeAt 2 0 = none ∧
    (run true demoHistory).getEdgeTo 3 0 systemTx = some (⟨0, 0, 0⟩, [(1, "w")]) ∧
    (run true demoHistory).getEdgeTo 1 0 systemTx = none ∧
    (run true demoHistory).nodeCount = 2 ∧ (run true demoHistory).edgeCount = 3 := by
  decide

/-- N: … and the plain graph, which never saw an index or an adjacency table, gives the same. -/
theorem c14p_nonvacuity_graph :
    (grun demoHistory).nodeIds = [0, 1] ∧ (grun demoHistory).edgeIds = [0, 3, 4] ∧
    (grun demoHistory).outEdges 0 = [(1, 0), (0, 3)] ∧ (grun demoHistory).inEdges 0 = [(0, 3), (1, 4)] ∧
    (grun demoHistory).inEdges 1 = [(0, 0)] ∧ (grun demoHistory).outEdges 2 = [] ∧
    (grun demoHistory).findByProp 7 "x" = [0] ∧ (grun demoHistory).findByProp 7 "y" = [1] ∧
    (grun demoHistory).nodesByLabel 1 = [0] ∧ (grun demoHistory).nodesByLabel 2 = [1] ∧
    (grun demoHistory).node 0 = some ([1], [(7, "x")]) ∧ (grun demoHistory).node 2 = none ∧
    (grun demoHistory).edge 3 = some (⟨0, 0, 0⟩, [(1, "w")]) ∧ (grun demoHistory).edge 1 = none := by
  decide

/-! ### identifiers are never reused: what is deleted stays deleted -/

theorem nodes_step (s : Store) (op : Op) (h : PathInv s) :
    (step s op).nodes = match op with
      | .createNode _ => aset s.nodes s.nextNode liveC
      | .deleteNode id => if nodeLive s id then aset s.nodes id deadC else s.nodes
      | _ => s.nodes := by
  cases op with
  | createNode ls => show aset s.nodes s.nextNode _ = _; rw [h.node.epoch0]; rfl
  | deleteNode id =>
    show (s.deleteNodeAt id s.epoch).1.nodes = _
    rw [deleteNodeAt_eq s h.node id]
    by_cases hl : nodeLive s id
    · simp [hl]
    · simp [hl]
  | deleteNodeEdges n =>
    obtain ⟨_, b, _, _⟩ := delEdges_ok s h.edge ((s.outEdges n).map (·.2) ++ (s.inEdges n).map (·.2))
    exact b.nodes
  | createEdge a b t => rfl
  | deleteEdge e => exact (deleteEdgeAt_sameNodeSide s e s.epoch).nodes
  | setNodeProp id k v => exact (setNodeProp_frame s id k v).2.2.1
  | removeNodeProp id k => rfl
  | setEdgeProp e k v => exact (setEdgeProp_frame s e k v).1.nodes
  | addLabel id l =>
    show (s.addLabel id l).1.nodes = s.nodes
    rw [addLabel_eq s h.node]; split <;> rfl
  | removeLabel id l =>
    show (s.removeLabel id l).1.nodes = s.nodes
    rw [removeLabel_eq s h.node]; split <;> rfl
  | createIndex k =>
    show (s.createIndex k).nodes = s.nodes
    rw [createIndex_eq]; split <;> rfl
  | dropIndex k => rfl

theorem nextNode_mono (s : Store) (op : Op) (h : PathInv s) : s.nextNode ≤ (step s op).nextNode := by
  rw [(step_counters s op h).1]
  cases op <;> simp [Graph.step, abs]

theorem nextEdge_mono (s : Store) (op : Op) (h : PathInv s) : s.nextEdge ≤ (step s op).nextEdge := by
  rw [(step_counters s op h).2]
  cases op <;> simp [Graph.step, abs]

/-- a node id that was handed out and is not live -/
def DeadNode (i : Nat) (s : Store) : Prop := i < s.nextNode ∧ ¬ nodeLive s i
/-- an edge id that was handed out and is not live -/
def DeadEdge (e : Nat) (s : Store) : Prop := e < s.nextEdge ∧ liveRec s e = none

theorem deadNode_step (i : Nat) (s : Store) (op : Op) (h : PathInv s) (hd : DeadNode i s) :
    DeadNode i (step s op) := by
  refine ⟨Nat.lt_of_lt_of_le hd.1 (nextNode_mono s op h), ?_⟩
  unfold nodeLive
  rw [nodes_step s op h]
  have hn : ¬ aget s.nodes i = some liveC := hd.2
  cases op with
  | createNode ls =>
    simp only [aget_aset]
    have : ¬ i = s.nextNode := by have := hd.1; omega
    simp [this, hn]
  | deleteNode id =>
    simp only
    split
    · simp only [aget_aset]
      split
      · simp [liveC_ne_deadC.symm]
      · exact hn
    · exact hn
  | _ => exact hn

theorem liveRec_step_none (e : Nat) (s : Store) (op : Op) (h : PathInv s) (hd : DeadEdge e s) :
    liveRec (step s op) e = none := by
  cases op with
  | createEdge a b t =>
    show liveRec (s.createEdge a b t s.epoch systemTx).1 e = none
    rw [createEdge_eq s a b t h.node.epoch0]
    have hl := hd.2
    unfold liveRec at hl ⊢
    simp only [aget_aset]
    have : ¬ e = s.nextEdge := by have := hd.1; omega
    simp only [this, if_false]; exact hl
  | deleteEdge x =>
    show liveRec (s.deleteEdgeAt x s.epoch).1 e = none
    rw [liveRec_deleteEdge s h.edge]; split
    · rfl
    · exact hd.2
  | deleteNodeEdges n =>
    obtain ⟨_, _, c, _⟩ := delEdges_ok s h.edge ((s.outEdges n).map (·.2) ++ (s.inEdges n).map (·.2))
    show liveRec (delEdges s _) e = none
    rw [c e]; split
    · rfl
    · exact hd.2
  | createNode ls => exact hd.2
  | deleteNode id =>
    show liveRec (s.deleteNodeAt id s.epoch).1 e = none
    rw [deleteNodeAt_eq s h.node id]
    split
    · exact hd.2
    · exact hd.2
  | setNodeProp id k v =>
    obtain ⟨_, _, _, _, _, _, a1, _⟩ := setNodeProp_frame s id k v
    show liveRec (s.setNodeProp id k v) e = none
    rw [liveRec_congr s _ a1]; exact hd.2
  | removeNodeProp id k => exact hd.2
  | setEdgeProp x k v =>
    show liveRec (s.setEdgeProp x k v) e = none
    rw [liveRec_congr s _ (setEdgeProp_frame s x k v).2.1]; exact hd.2
  | addLabel id l =>
    show liveRec (s.addLabel id l).1 e = none
    rw [addLabel_eq s h.node]; split
    · exact hd.2
    · exact hd.2
  | removeLabel id l =>
    show liveRec (s.removeLabel id l).1 e = none
    rw [removeLabel_eq s h.node]; split
    · exact hd.2
    · exact hd.2
  | createIndex k =>
    show liveRec (s.createIndex k) e = none
    rw [createIndex_eq]; split
    · exact hd.2
    · exact hd.2
  | dropIndex k => exact hd.2

theorem deadEdge_step (e : Nat) (s : Store) (op : Op) (h : PathInv s) (hd : DeadEdge e s) :
    DeadEdge e (step s op) :=
  ⟨Nat.lt_of_lt_of_le hd.1 (nextEdge_mono s op h), liveRec_step_none e s op h hd⟩

theorem run_append (b : Bool) (ops ops' : List Op) : run b (ops ++ ops') = ops'.foldl step (run b ops) := by
  unfold run; rw [List.foldl_append]

/-- F: identifiers are never reused — a node or edge id that has been handed out and for which the
point lookup answers `None` (i.e. a deleted entity) stays that way through every continuation of the
history; by `c14_deleted_node_not_in_label_index`, `c14p_dead_edge_nowhere` and
`c14p_index_entries_live` it then stays off the other paths as well. -/
theorem c14p_deleted_stays_deleted (b : Bool) (ops ops' : List Op) :
    (∀ i, i < (run b ops).nextNode → (run b ops).getNodeAt i (run b ops).epoch = none →
      (run b (ops ++ ops')).getNodeAt i (run b (ops ++ ops')).epoch = none) ∧
    (∀ e, e < (run b ops).nextEdge → (run b ops).getEdgeTo e (run b ops).epoch systemTx = none →
      (run b (ops ++ ops')).getEdgeTo e (run b (ops ++ ops')).epoch systemTx = none) := by
  have h := pathInv_run b ops
  constructor
  · intro i hlt hnone
    have hd : DeadNode i (run b ops) := by
      refine ⟨hlt, fun hl => ?_⟩
      rw [getNodeAt_eq _ h.node, if_pos hl] at hnone; simp at hnone
    have := foldl_step_inv (fun s => PathInv s ∧ DeadNode i s)
      (fun s op hq => ⟨pathInv_step s op hq.1, deadNode_step i s op hq.1 hq.2⟩) ops' _ ⟨h, hd⟩
    rw [run_append, getNodeAt_eq _ this.1.node, if_neg this.2.2]
  · intro e hlt hnone
    have hd : DeadEdge e (run b ops) := by
      refine ⟨hlt, ?_⟩
      rw [getEdgeTo_eq _ h.edge] at hnone
      cases hl : liveRec (run b ops) e with
      | none => rfl
      | some r => rw [hl] at hnone; simp at hnone
    have := foldl_step_inv (fun s => PathInv s ∧ DeadEdge e s)
      (fun s op hq => ⟨pathInv_step s op hq.1, deadEdge_step e s op hq.1 hq.2⟩) ops' _ ⟨h, hd⟩
    rw [run_append, getEdgeTo_eq _ this.1.edge, this.2.2]; rfl

end Grafeo.Lpg.Paths
