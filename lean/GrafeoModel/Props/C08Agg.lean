import GrafeoModel.Model.QueryAgg
import GrafeoModel.Props.C08Perm

/-!
# C08 — grouping and aggregates

Model: `Model/QueryAgg.lean` (the aggregate operators of `aggregate.rs` as coded, the output typing
of `plan_aggregate`, the Gremlin / GraphQL plans) next to the specification `specAgg` / `Spec.evalAgg`.

1. **Chunking**: the operator consumes its input chunk by chunk; the result depends only on the
   concatenation of the chunks (`simpleAgg_chunking`, `hashAgg_chunking`, `*_rechunk`).
2. **Grouping**: the hash aggregate = for every distinct key, in first-seen order, the simple
   aggregate of the rows with that key (`hashAgg_eq_perGroup`); any enumeration of the keys gives
   the same rows up to order (`hashAgg_perm_perGroup`).
3. **Coded vs specified aggregates**: equal for `count(*)`, `count(x)`, `count(DISTINCT x)`,
   `collect`, `collect(DISTINCT)` on all inputs; for `sum` / `min` / `max` / `avg` under explicit
   decidable hypotheses, with witnesses of the deviation where the hypothesis fails.
-/
namespace Grafeo.QueryAgg
open Grafeo.Query

/-! ## 0. `dedupFirst` -/

section Dedup
variable {α : Type} [BEq α] [LawfulBEq α]

theorem mem_dedupFirst (l : List α) (x : α) : x ∈ dedupFirst l ↔ x ∈ l := by
  induction l with
  | nil => simp [dedupFirst]
  | cons v vs ih =>
    simp only [dedupFirst, List.mem_cons, List.mem_filter, ih, bne_iff_ne, ne_eq]
    constructor
    · rintro (h | ⟨h, _⟩)
      · exact Or.inl h
      · exact Or.inr h
    · intro h
      by_cases hx : x = v
      · exact Or.inl hx
      · rcases h with h | h
        · exact absurd h hx
        · exact Or.inr ⟨h, hx⟩

theorem filter_ne_comm (l : List α) (a b : α) :
    (l.filter (· != a)).filter (· != b) = (l.filter (· != b)).filter (· != a) := by
  simp only [List.filter_filter]
  congr 1
  funext x
  exact Bool.and_comm _ _

theorem dedupFirst_filter_ne (l : List α) (a : α) :
    dedupFirst (l.filter (· != a)) = (dedupFirst l).filter (· != a) := by
  induction l with
  | nil => simp [dedupFirst]
  | cons v vs ih =>
    by_cases h : v = a
    · subst h
      simp only [List.filter_cons, bne_self_eq_false, Bool.false_eq_true, if_false, dedupFirst, ih,
        List.filter_filter, Bool.and_self]
    · have hb : (v != a) = true := by simpa using h
      simp only [List.filter_cons, hb, if_true, dedupFirst, ih]
      rw [filter_ne_comm]

/-- appending a value: nothing changes if it has been seen, otherwise it goes to the end -/
theorem dedupFirst_append_singleton (l : List α) (k : α) :
    dedupFirst (l ++ [k]) = if k ∈ l then dedupFirst l else dedupFirst l ++ [k] := by
  induction l with
  | nil => simp [dedupFirst]
  | cons v vs ih =>
    simp only [List.cons_append, dedupFirst, ih, List.mem_cons]
    by_cases hkv : k = v
    · subst hkv
      by_cases hk : k ∈ vs
      · simp [hk]
      · simp [hk, List.filter_append]
    · have hb : (k != v) = true := by simpa using hkv
      by_cases hk : k ∈ vs
      · simp [hk]
      · simp [hk, hkv, List.filter_append, hb]

theorem length_dedupFirst_append_singleton (l : List α) (k : α) :
    (dedupFirst (l ++ [k])).length = if k ∈ l then (dedupFirst l).length else (dedupFirst l).length + 1 := by
  rw [dedupFirst_append_singleton]
  split <;> simp

end Dedup

/-! ## 1. chunking -/

theorem foldl_chunks {σ ρ : Type} (f : σ → ρ → σ) (s : σ) (chunks : List (List ρ)) :
    chunks.foldl (fun s c => c.foldl f s) s = chunks.flatten.foldl f s := by
  induction chunks generalizing s with
  | nil => rfl
  | cons c cs ih => simp only [List.foldl_cons, List.flatten_cons, List.foldl_append, ih]

/-- F (1): the states after a sequence of chunks are the states after one chunk holding all rows. -/
theorem runChunks_flatten (aggs : List AggExpr) (sts : List St) (chunks : List (List Row)) :
    runChunks aggs sts chunks = chunks.flatten.foldl (feedAll aggs) sts :=
  foldl_chunks _ _ _

/-- F (1): `SimpleAggregateOperator` over any chunking of the input = over the whole input. -/
theorem simpleAgg_chunking (aggs : List AggExpr) (chunks : List (List Row)) :
    simpleAgg aggs chunks = simpleAgg aggs [chunks.flatten] := by
  unfold simpleAgg
  rw [runChunks_flatten, runChunks_flatten]
  simp

theorem simpleAgg_rechunk (aggs : List AggExpr) (c1 c2 : List (List Row)) (h : c1.flatten = c2.flatten) :
    simpleAgg aggs c1 = simpleAgg aggs c2 := by
  rw [simpleAgg_chunking aggs c1, simpleAgg_chunking aggs c2, h]

theorem runGroups_flatten (gc : List Nat) (aggs : List AggExpr) (gs : Groups) (chunks : List (List Row)) :
    runGroups gc aggs gs chunks = chunks.flatten.foldl (upsert gc aggs) gs :=
  foldl_chunks _ _ _

/-- F (1): `HashAggregateOperator` over any chunking of the input = over the whole input. -/
theorem hashAgg_chunking (gc : List Nat) (aggs : List AggExpr) (chunks : List (List Row)) :
    hashAgg gc aggs chunks = hashAgg gc aggs [chunks.flatten] := by
  unfold hashAgg
  rw [runGroups_flatten, runGroups_flatten]
  simp

theorem hashAgg_rechunk (gc : List Nat) (aggs : List AggExpr) (c1 c2 : List (List Row)) (h : c1.flatten = c2.flatten) :
    hashAgg gc aggs c1 = hashAgg gc aggs c2 := by
  rw [hashAgg_chunking gc aggs c1, hashAgg_chunking gc aggs c2, h]

/-- N: three chunkings of four rows (two groups, sum and collect) give the same two result rows. -/
theorem chunking_nonvacuous :
    let rows : List Row := [[.int 1, .int 10], [.int 2, .int 5], [.int 1, .null], [.int 1, .int 7]]
    let aggs : List AggExpr := [⟨.sum, some 1, false⟩, ⟨.collect, some 1, false⟩]
    hashAgg [0] aggs [rows] = [[.int 1, .int 17, .list [.int 10, .int 7]], [.int 2, .int 5, .list [.int 5]]] ∧
    hashAgg [0] aggs [rows.take 1, [], rows.drop 1] = hashAgg [0] aggs [rows] ∧
    hashAgg [0] aggs (rows.map (fun r => [r])) = hashAgg [0] aggs [rows] := by
  refine ⟨by decide, by decide, by decide⟩

/-! ## 2. grouped aggregation = per-group aggregation -/

/-- the states of the group with key `k` when it is aggregated on its own -/
def groupStates (gc : List Nat) (aggs : List AggExpr) (rows : List Row) (k : List Val) : List St :=
  (rows.filter (fun r => keyOf gc r == k)).foldl (feedAll aggs) (initAll aggs)

def perGroup (gc : List Nat) (aggs : List AggExpr) (rows : List Row) : Groups :=
  (dedupKeys (rows.map (keyOf gc))).map (fun k => (k, groupStates gc aggs rows k))

theorem groupStates_snoc (gc : List Nat) (aggs : List AggExpr) (rows : List Row) (r : Row) (k : List Val) :
    groupStates gc aggs (rows ++ [r]) k =
      if keyOf gc r == k then feedAll aggs (groupStates gc aggs rows k) r else groupStates gc aggs rows k := by
  unfold groupStates
  by_cases h : (keyOf gc r == k) = true
  · simp [List.filter_append, h, List.foldl_append]
  · simp [List.filter_append, h]

theorem upsert_perGroup (gc : List Nat) (aggs : List AggExpr) (rows : List Row) (r : Row) :
    upsert gc aggs (perGroup gc aggs rows) r = perGroup gc aggs (rows ++ [r]) := by
  unfold upsert perGroup
  simp only [List.map_append, List.map_cons, List.map_nil]
  have hany : ((dedupKeys (rows.map (keyOf gc))).map (fun k => (k, groupStates gc aggs rows k))).any
      (fun g => g.1 == keyOf gc r) = decide (keyOf gc r ∈ rows.map (keyOf gc)) := by
    rw [Bool.eq_iff_iff]
    simp only [List.any_map, List.any_eq_true, Function.comp, beq_iff_eq, decide_eq_true_eq]
    constructor
    · rintro ⟨k, hk, rfl⟩
      exact (mem_dedupFirst _ _).1 hk
    · intro h
      exact ⟨_, (mem_dedupFirst _ _).2 h, rfl⟩
  rw [hany]
  show (if decide (keyOf gc r ∈ rows.map (keyOf gc)) = true then _ else _) = _
  rw [show dedupKeys (rows.map (keyOf gc) ++ [keyOf gc r]) = dedupFirst (rows.map (keyOf gc) ++ [keyOf gc r]) from rfl,
    dedupFirst_append_singleton]
  by_cases hin : keyOf gc r ∈ rows.map (keyOf gc)
  · simp only [hin, decide_true, if_true, List.map_map]
    apply List.map_congr_left
    intro k _
    simp only [Function.comp, groupStates_snoc]
    by_cases hk : k = keyOf gc r
    · subst hk
      simp
    · have h1 : (k == keyOf gc r) = false := by simpa using hk
      have h2 : (keyOf gc r == k) = false := by simpa using (fun h => hk h.symm)
      simp [h1, h2]
  · simp only [hin, decide_false, Bool.false_eq_true, if_false, List.map_append, List.map_cons, List.map_nil]
    congr 1
    · apply List.map_congr_left
      intro k hk
      have hne : ¬ (keyOf gc r = k) := by
        intro h
        exact hin (h ▸ (mem_dedupFirst _ _).1 hk)
      have h2 : (keyOf gc r == k) = false := by simpa using hne
      simp [groupStates_snoc, h2]
    · have hnil : rows.filter (fun x => keyOf gc x == keyOf gc r) = [] := by
        rw [List.filter_eq_nil_iff]
        intro x hx hxe
        exact hin (List.mem_map.2 ⟨x, hx, by simpa using hxe⟩)
      simp [groupStates_snoc, groupStates, hnil]

theorem foldl_upsert_perGroup (gc : List Nat) (aggs : List AggExpr) (pre rows : List Row) :
    rows.foldl (upsert gc aggs) (perGroup gc aggs pre) = perGroup gc aggs (pre ++ rows) := by
  induction rows generalizing pre with
  | nil => simp
  | cons r rs ih =>
    rw [List.foldl_cons, upsert_perGroup, ih]
    simp

/-- F (2): the group table the hash aggregate builds = one entry per distinct key, in first-seen
order, holding the states of the simple aggregate over the rows with that key. -/
theorem runGroups_eq_perGroup (gc : List Nat) (aggs : List AggExpr) (chunks : List (List Row)) :
    runGroups gc aggs [] chunks = perGroup gc aggs chunks.flatten := by
  rw [runGroups_flatten]
  have := foldl_upsert_perGroup gc aggs [] chunks.flatten
  simpa [perGroup, dedupFirst] using this

/-- F (2): grouped aggregation = per-group aggregation of the rows with that key. -/
theorem hashAgg_eq_perGroup (gc : List Nat) (aggs : List AggExpr) (chunks : List (List Row)) :
    hashAgg gc aggs chunks =
      (dedupKeys (chunks.flatten.map (keyOf gc))).map (fun k =>
        k.map ofVal ++ simpleAgg aggs [chunks.flatten.filter (fun r => keyOf gc r == k)]) := by
  unfold hashAgg
  rw [runGroups_eq_perGroup]
  unfold perGroup simpleAgg groupStates runChunks
  simp [List.map_map, Function.comp]

/-- F (2), order of the groups irrelevant: for every enumeration `ks` of the distinct keys, the
result is, up to the order of its rows, the per-group aggregate over `ks`. -/
theorem hashAgg_perm_perGroup (gc : List Nat) (aggs : List AggExpr) (chunks : List (List Row)) (ks : List (List Val))
    (hks : ks.Perm (dedupKeys (chunks.flatten.map (keyOf gc)))) :
    (hashAgg gc aggs chunks).Perm
      (ks.map (fun k => k.map ofVal ++ simpleAgg aggs [chunks.flatten.filter (fun r => keyOf gc r == k)])) := by
  rw [hashAgg_eq_perGroup]
  exact (hks.map _).symm

/-! ## 3. the coded aggregates against their specification -/

/-- the coded aggregate `fn` over one column of values (`SimpleAggregateOperator` over the
one-column rows) -/
def colAgg (fn : AggFn) (d : Bool) (vs : List Val) : AVal :=
  ((vs.map (fun v => [v])).foldl (feed ⟨fn, some 0, d⟩) (St.init fn d)).finalize

theorem foldl_feedAll_single (a : AggExpr) (st : St) (rows : List Row) :
    rows.foldl (feedAll [a]) [st] = [rows.foldl (feed a) st] := by
  induction rows generalizing st with
  | nil => rfl
  | cons r rs ih => simp only [List.foldl_cons, feedAll, ih]

/-- `colAgg` is what the operator returns for a single aggregate over a single column. -/
theorem simpleAgg_single (fn : AggFn) (d : Bool) (vs : List Val) :
    simpleAgg [⟨fn, some 0, d⟩] [vs.map (fun v => [v])] = [colAgg fn d vs] := by
  unfold simpleAgg colAgg
  rw [runChunks_flatten]
  simp [initAll, foldl_feedAll_single]

/-- every aggregate other than COUNT(*) sees exactly the non-null values, in order -/
theorem foldl_feed_nonNull (fn : AggFn) (d : Bool) (h : ¬ (fn = .count ∧ d = false)) (st : St) (vs : List Val) :
    (vs.map (fun v => [v])).foldl (feed ⟨fn, some 0, d⟩) st = (nonNull vs).foldl St.update st := by
  induction vs generalizing st with
  | nil => rfl
  | cons v vs ih =>
    have hc : (fn == AggFn.count && !d) = false := by
      cases fn <;> cases d <;> simp_all
    simp only [List.map_cons, List.foldl_cons, feed, hc, Bool.false_eq_true, if_false, Option.bind,
      List.getElem?_cons_zero, nonNull]
    by_cases hv : v = .null
    · subst hv
      simpa [nonNull] using ih st
    · have hb : (v == Val.null) = false := by simpa using hv
      have hb' : (v != Val.null) = true := by simpa using hv
      simp only [hb, Bool.false_eq_true, if_false, List.filter_cons, hb', if_true, List.foldl_cons]
      simpa [nonNull] using ih (st.update v)

theorem mem_nonNull_ne (vs : List Val) (v : Val) (h : v ∈ nonNull vs) : v ≠ .null := by
  simp only [nonNull, List.mem_filter, bne_iff_ne, ne_eq] at h
  exact h.2

/-! ### count -/

theorem foldl_update_count (n : Int) (l : List Val) :
    l.foldl St.update (.count n) = .count (n + l.length) := by
  induction l generalizing n with
  | nil => simp
  | cons v vs ih =>
    simp only [List.foldl_cons, St.update, ih, List.length_cons]
    congr 1
    omega

/-- F (3): `count(*)` (COUNT without DISTINCT as the operator treats it) counts the rows. -/
theorem count_star_coded (vs : List Val) : colAgg .count false vs = .int vs.length := by
  unfold colAgg
  have : ∀ (n : Int) (l : List Val), (l.map (fun v => [v])).foldl (feed ⟨.count, some 0, false⟩) (.count n) = .count (n + l.length) := by
    intro n l
    induction l generalizing n with
    | nil => simp
    | cons v vs ih =>
      simp only [List.map_cons, List.foldl_cons, feed, beq_self_eq_true, Bool.not_false, Bool.and_self, if_true, St.update, ih,
        List.length_cons]
      congr 1
      omega
  simp [St.init, this, St.finalize]

theorem count_star_eq_spec (vs : List Val) : specAgg .count false vs = .ok (colAgg .count false vs) := by
  simp [specAgg, count_star_coded]

/-- F (3): `count(x)` counts the non-null values. -/
theorem count_coded (vs : List Val) : colAgg .countNonNull false vs = .int (nonNull vs).length := by
  unfold colAgg
  rw [foldl_feed_nonNull _ _ (by simp)]
  simp [St.init, foldl_update_count, St.finalize]

theorem count_eq_spec (vs : List Val) : specAgg .countNonNull false vs = .ok (colAgg .countNonNull false vs) := by
  simp [specAgg, count_coded]

/-- the `seen` set of a DISTINCT state after the values `p` -/
def SeenIs (seen p : List Val) : Prop := ∀ v, seen.contains v = true ↔ v ∈ p

theorem SeenIs.snoc_seen {seen p : List Val} (h : SeenIs seen p) (v : Val) (hv : seen.contains v = true) :
    SeenIs seen (p ++ [v]) := by
  intro x
  rw [h x]
  simp only [List.mem_append, List.mem_singleton]
  constructor
  · exact Or.inl
  · rintro (hx | rfl)
    · exact hx
    · exact (h _).1 hv

theorem SeenIs.snoc_new {seen p : List Val} (h : SeenIs seen p) (v : Val) : SeenIs (v :: seen) (p ++ [v]) := by
  intro x
  simp only [List.contains_cons, Bool.or_eq_true, beq_iff_eq, List.mem_append, List.mem_singleton, h x]
  constructor
  · rintro (hx | hx)
    · exact Or.inr hx
    · exact Or.inl hx
  · rintro (hx | hx)
    · exact Or.inr hx
    · exact Or.inl hx

theorem foldl_update_countD (l p seen : List Val) (hs : SeenIs seen p) :
    ∃ seen', l.foldl St.update (.countD (dedupVals p).length seen) = .countD (dedupVals (p ++ l)).length seen' := by
  induction l generalizing p seen with
  | nil => exact ⟨seen, by simp⟩
  | cons v vs ih =>
    simp only [List.foldl_cons, St.update]
    by_cases hc : seen.contains v = true
    · have hm : v ∈ p := (hs v).1 hc
      obtain ⟨s', hs'⟩ := ih (p ++ [v]) seen (hs.snoc_seen v hc)
      refine ⟨s', ?_⟩
      simp only [hc, if_true]
      rw [show (dedupVals p).length = (dedupVals (p ++ [v])).length by
        simp [dedupVals, length_dedupFirst_append_singleton, hm]]
      simpa using hs'
    · have hm : v ∉ p := fun h => hc ((hs v).2 h)
      obtain ⟨s', hs'⟩ := ih (p ++ [v]) (v :: seen) (hs.snoc_new v)
      refine ⟨s', ?_⟩
      simp only [hc, Bool.false_eq_true, if_false]
      rw [show ((dedupVals p).length : Int) + 1 = ((dedupVals (p ++ [v])).length : Int) by
        simp [dedupVals, length_dedupFirst_append_singleton, hm]]
      simpa using hs'

/-- F (3): `count(DISTINCT x)` counts the distinct non-null values. -/
theorem count_distinct_coded (vs : List Val) :
    colAgg .countNonNull true vs = .int (dedupVals (nonNull vs)).length := by
  unfold colAgg
  rw [foldl_feed_nonNull _ _ (by simp)]
  obtain ⟨s', h⟩ := foldl_update_countD (nonNull vs) [] [] (by intro v; simp)
  simp only [St.init]
  have h0 : (St.countD 0 []) = St.countD (dedupVals ([] : List Val)).length [] := by simp [dedupVals, dedupFirst]
  rw [h0, h]
  simp [St.finalize]

theorem count_distinct_eq_spec (vs : List Val) :
    specAgg .countNonNull true vs = .ok (colAgg .countNonNull true vs) := by
  simp [specAgg, count_distinct_coded]

/-- the Cypher translation of `count(DISTINCT x)` (function `Count`, DISTINCT set) behaves the same -/
theorem count_distinct_cypher_coded (vs : List Val) :
    colAgg .count true vs = .int (dedupVals (nonNull vs)).length := by
  unfold colAgg
  rw [foldl_feed_nonNull _ _ (by simp)]
  obtain ⟨s', h⟩ := foldl_update_countD (nonNull vs) [] [] (by intro v; simp)
  simp only [St.init]
  have h0 : (St.countD 0 []) = St.countD (dedupVals ([] : List Val)).length [] := by simp [dedupVals, dedupFirst]
  rw [h0, h]
  simp [St.finalize]

/-! ### collect -/

theorem foldl_update_collect (acc l : List Val) :
    l.foldl St.update (.collect acc) = .collect (acc ++ l) := by
  induction l generalizing acc with
  | nil => simp
  | cons v vs ih => simp [List.foldl_cons, St.update, ih]

/-- F (3): `collect(x)` is the list of the non-null values in input order. -/
theorem collect_coded (vs : List Val) : colAgg .collect false vs = .list (nonNull vs) := by
  unfold colAgg
  rw [foldl_feed_nonNull _ _ (by simp)]
  simp [St.init, foldl_update_collect, St.finalize]

theorem collect_eq_spec (vs : List Val) : specAgg .collect false vs = .ok (colAgg .collect false vs) := by
  simp [specAgg, collect_coded]

theorem foldl_update_collectD (l p seen : List Val) (hs : SeenIs seen p) :
    ∃ seen', l.foldl St.update (.collectD (dedupVals p) seen) = .collectD (dedupVals (p ++ l)) seen' := by
  induction l generalizing p seen with
  | nil => exact ⟨seen, by simp⟩
  | cons v vs ih =>
    simp only [List.foldl_cons, St.update]
    by_cases hc : seen.contains v = true
    · have hm : v ∈ p := (hs v).1 hc
      obtain ⟨s', hs'⟩ := ih (p ++ [v]) seen (hs.snoc_seen v hc)
      refine ⟨s', ?_⟩
      simp only [hc, if_true]
      rw [show dedupVals p = dedupVals (p ++ [v]) by simp [dedupVals, dedupFirst_append_singleton, hm]]
      simpa using hs'
    · have hm : v ∉ p := fun h => hc ((hs v).2 h)
      obtain ⟨s', hs'⟩ := ih (p ++ [v]) (v :: seen) (hs.snoc_new v)
      refine ⟨s', ?_⟩
      simp only [hc, Bool.false_eq_true, if_false]
      rw [show dedupVals p ++ [v] = dedupVals (p ++ [v]) by simp [dedupVals, dedupFirst_append_singleton, hm]]
      simpa using hs'

/-- F (3): `collect(DISTINCT x)` is the list of the distinct non-null values, first occurrences. -/
theorem collect_distinct_coded (vs : List Val) :
    colAgg .collect true vs = .list (dedupVals (nonNull vs)) := by
  unfold colAgg
  rw [foldl_feed_nonNull _ _ (by simp)]
  obtain ⟨s', h⟩ := foldl_update_collectD (nonNull vs) [] [] (by intro v; simp)
  simp only [St.init]
  have h0 : (St.collectD [] []) = St.collectD (dedupVals ([] : List Val)) [] := by simp [dedupVals, dedupFirst]
  rw [h0, h]
  simp [St.finalize]

theorem collect_distinct_eq_spec (vs : List Val) :
    specAgg .collect true vs = .ok (colAgg .collect true vs) := by
  simp [specAgg, collect_distinct_coded]

/-- N: counts and collections over a heterogeneous column with nulls and duplicates. -/
theorem count_collect_nonvacuous :
    let vs : List Val := [.int 2, .null, .str "a", .int 2, .null, .str "7"]
    colAgg .count false vs = .int 6 ∧ colAgg .countNonNull false vs = .int 4 ∧
    colAgg .countNonNull true vs = .int 3 ∧ colAgg .collect true vs = .list [.int 2, .str "a", .str "7"] := by
  refine ⟨by decide, by decide, by decide, by decide⟩

/-! ### sum -/

theorem foldl_add_acc (a : Int) (l : List Int) : l.foldl (· + ·) a = a + l.foldl (· + ·) 0 := by
  induction l generalizing a with
  | nil => simp
  | cons x xs ih => rw [List.foldl_cons, ih, List.foldl_cons, ih (0 + x)]; omega

theorem intSum_cons (v : Val) (vs : List Val) : intSum (v :: vs) = intOf v + intSum vs := by
  unfold intSum
  rw [List.map_cons, List.foldl_cons, foldl_add_acc]
  omega

theorem foldl_update_sumInt (s : Int) (l : List Val) (hint : l.all isInt = true) :
    l.foldl St.update (.sumInt s) = .sumInt (s + intSum l) := by
  induction l generalizing s with
  | nil => simp [intSum]
  | cons v vs ih =>
    simp only [List.all_cons, Bool.and_eq_true] at hint
    cases v with
    | null => simp [isInt] at hint
    | str t => simp [isInt] at hint
    | float b => simp [isInt] at hint
    | int i =>
      simp only [List.foldl_cons, St.update, sumIntStep]
      rw [ih (s + i) hint.2, intSum_cons]
      simp only [intOf]
      congr 1
      omega

/-- F (3), after the repair (exact 128-bit accumulation): over integers the coded `sum` is the
exact integer total whenever that fits `i64` — whatever the intermediate sums do — and the float
nearest to the exact total otherwise. -/
theorem sum_coded_ints (vs : List Val) (hint : (nonNull vs).all isInt = true) :
    colAgg .sum false vs = sumOut (intSum (nonNull vs)) := by
  unfold colAgg
  rw [foldl_feed_nonNull _ _ (by simp)]
  simp only [St.init]
  rw [foldl_update_sumInt 0 _ hint]
  simp [St.finalize]

/-- F (3): … which is what the specification demands where it demands anything (an integer total
outside `i64` is not constrained). -/
theorem sum_eq_spec_ints (vs : List Val) (hint : (nonNull vs).all isInt = true) :
    specAgg .sum false vs = .ok (colAgg .sum false vs) ∨ specAgg .sum false vs = .any := by
  rw [sum_coded_ints vs hint]
  by_cases hr : inI64 (intSum (nonNull vs)) = true
  · left; simp [specAgg, hint, hr, sumOut]
  · right; simp [specAgg, hint, hr]

/-- W: the full statement (all inputs) is false. Numeric strings are parsed and summed as floats
(specification: type error); text is skipped silently. -/
theorem sum_not_spec :
    ¬ ∀ vs : List Val, specAgg .sum false vs = .ok (colAgg .sum false vs) ∨ specAgg .sum false vs = .any := by
  intro h
  exact absurd (h [.str "1", .str "2"]) (by decide +kernel)

theorem sum_numeric_strings_witness :
    colAgg .sum false [.str "1", .str "2"] = .float 0x4008000000000000 ∧
    specAgg .sum false [.str "1", .str "2"] = .err "type" := by
  refine ⟨by decide +kernel, by decide⟩

theorem sum_text_skipped_witness :
    colAgg .sum false [.str "a", .int 3] = .int 3 ∧ specAgg .sum false [.str "a", .int 3] = .err "type" := by
  refine ⟨by decide, by decide⟩

/-- N: an intermediate sum outside `i64` does not disturb a total that fits; a total outside
`i64` comes back as the nearest float. -/
theorem sum_nonvacuous :
    colAgg .sum false [.int (2 ^ 63 - 1), .int 1, .null, .int (-5)] = .int (2 ^ 63 - 5) ∧
    specAgg .sum false [.int (2 ^ 63 - 1), .int 1, .null, .int (-5)] = .ok (.int (2 ^ 63 - 5)) ∧
    colAgg .sum false [.int (2 ^ 63 - 1), .int (2 ^ 63 - 1)] = .float 0x43f0000000000000 ∧
    specAgg .sum false [.int (2 ^ 63 - 1), .int (2 ^ 63 - 1)] = .any := by
  refine ⟨by decide, by decide, by decide +kernel, by decide⟩

/-! ### avg: the float arithmetic

`roundQ neg n d` (the double nearest to `± n / d`) depends on the fraction only, not on its
representation; with that, sums of exactly representable integers are exact and the final division
is the correctly rounded exact mean. -/

theorem two_pow_mul_cancel (K a b : Nat) : a * 2 ^ K ≤ b * 2 ^ K ↔ a ≤ b := by
  constructor
  · intro h
    exact Nat.le_of_mul_le_mul_right h (Nat.two_pow_pos K)
  · intro h
    exact Nat.mul_le_mul_right _ h

/-- `geScaled n d e` with the exponent shifted into the naturals by any `K ≥ -e` -/
theorem geScaled_iff (n d : Nat) (e : Int) (K : Nat) (hK : 0 ≤ (K : Int) + e) :
    geScaled n d e = true ↔ d * 2 ^ ((K : Int) + e).toNat ≤ n * 2 ^ K := by
  unfold geScaled
  by_cases he : e ≥ 0
  · have hx : ((K : Int) + e).toNat = e.toNat + K := by omega
    simp only [he, if_true, decide_eq_true_eq, ge_iff_le, hx, Nat.pow_add, ← Nat.mul_assoc]
    exact (two_pow_mul_cancel K _ _).symm
  · have hx : K = (-e).toNat + ((K : Int) + e).toNat := by omega
    simp only [he, if_false, decide_eq_true_eq, ge_iff_le]
    generalize ((K : Int) + e).toNat = j at hx
    subst hx
    rw [Nat.pow_add, ← Nat.mul_assoc]
    exact (two_pow_mul_cancel j _ _).symm

theorem bitLength_bounds (n : Nat) (hn : n ≠ 0) : 2 ^ (bitLength n - 1) ≤ n ∧ n < 2 ^ bitLength n ∧ 1 ≤ bitLength n := by
  unfold bitLength
  simp only [hn, if_false, Nat.add_sub_cancel]
  exact ⟨Nat.log2_self_le hn, Nat.lt_log2_self, by omega⟩

/-- `e` is ⌊log₂ (n/d)⌋, with exponents shifted by `K` -/
def IsFloorLog (n d : Nat) (e : Int) (K : Nat) : Prop :=
  d * 2 ^ ((K : Int) + e).toNat ≤ n * 2 ^ K ∧ n * 2 ^ K < d * 2 ^ ((K : Int) + e + 1).toNat

theorem isFloorLog_unique (n d : Nat) (e e' : Int) (K : Nat) (hK : 0 ≤ (K : Int) + e) (hK' : 0 ≤ (K : Int) + e')
    (h : IsFloorLog n d e K) (h' : IsFloorLog n d e' K) : e = e' := by
  have key : ∀ (a b : Int), 0 ≤ (K : Int) + a → IsFloorLog n d a K → IsFloorLog n d b K → ¬ a < b := by
    intro a b ha hA hB hlt
    have hle : ((K : Int) + a + 1).toNat ≤ ((K : Int) + b).toNat := by omega
    have hp : 2 ^ ((K : Int) + a + 1).toNat ≤ 2 ^ ((K : Int) + b).toNat := Nat.pow_le_pow_right (by decide) hle
    have h1 : d * 2 ^ ((K : Int) + a + 1).toNat ≤ d * 2 ^ ((K : Int) + b).toNat := Nat.mul_le_mul_left _ hp
    have h2 := hA.2
    have h3 := hB.1
    omega
  have h1 := key e e' hK h h'
  have h2 := key e' e hK' h' h
  omega

theorem floorLog2Q_spec (n d : Nat) (hn : n ≠ 0) (hd : d ≠ 0) (K : Nat) (hK : bitLength d + 1 ≤ K) :
    0 ≤ (K : Int) + floorLog2Q n d ∧ IsFloorLog n d (floorLog2Q n d) K := by
  obtain ⟨hn1, hn2, hn3⟩ := bitLength_bounds n hn
  obtain ⟨hd1, hd2, hd3⟩ := bitLength_bounds d hd
  generalize hA : bitLength n = a at *
  generalize hB : bitLength d = b at *
  -- K + e0 + 1: above n/d
  have hup : n * 2 ^ K < d * 2 ^ (K + a - b + 1) := by
    have e2 : K + a = (b - 1) + (K + a - b + 1) := by omega
    have hmul : 2 ^ (b - 1) * 2 ^ (K + a - b + 1) ≤ d * 2 ^ (K + a - b + 1) := Nat.mul_le_mul_right _ hd1
    have hlt : n * 2 ^ K < 2 ^ a * 2 ^ K := Nat.mul_lt_mul_of_lt_of_le hn2 (Nat.le_refl _) (Nat.two_pow_pos K)
    rw [← Nat.pow_add, Nat.add_comm a K] at hlt
    rw [← Nat.pow_add, ← e2] at hmul
    omega
  -- K + e0 - 1: at most n/d
  have hlow : d * 2 ^ (K + a - b - 1) ≤ n * 2 ^ K := by
    have e2 : K + a - 1 = b + (K + a - b - 1) := by omega
    have hlt : d * 2 ^ (K + a - b - 1) < 2 ^ b * 2 ^ (K + a - b - 1) :=
      Nat.mul_lt_mul_of_lt_of_le hd2 (Nat.le_refl _) (Nat.two_pow_pos _)
    rw [← Nat.pow_add, ← e2] at hlt
    have hmul : 2 ^ (a - 1) * 2 ^ K ≤ n * 2 ^ K := Nat.mul_le_mul_right _ hn1
    rw [← Nat.pow_add] at hmul
    have e3 : K + a - 1 = a - 1 + K := by omega
    rw [e3] at hlt
    omega
  unfold floorLog2Q
  simp only [hA, hB]
  by_cases hge : geScaled n d ((a : Int) - (b : Int)) = true
  · simp only [hge, if_true]
    refine ⟨by omega, ?_, ?_⟩
    · exact (geScaled_iff n d _ K (by omega)).1 hge
    · have : ((K : Int) + ((a : Int) - (b : Int)) + 1).toNat = K + a - b + 1 := by omega
      rw [this]
      exact hup
  · have hge' : geScaled n d ((a : Int) - (b : Int)) = false := by simpa using hge
    simp only [hge', Bool.false_eq_true, if_false]
    refine ⟨by omega, ?_, ?_⟩
    · have : ((K : Int) + ((a : Int) - (b : Int) - 1)).toNat = K + a - b - 1 := by omega
      rw [this]
      exact hlow
    · have hnot := mt (geScaled_iff n d ((a : Int) - (b : Int)) K (by omega)).2 hge
      have : ((K : Int) + ((a : Int) - (b : Int) - 1) + 1).toNat = ((K : Int) + ((a : Int) - (b : Int))).toNat := by omega
      rw [this]
      omega

theorem isFloorLog_scale (c n d : Nat) (hc : 0 < c) (e : Int) (K : Nat) :
    IsFloorLog (c * n) (c * d) e K ↔ IsFloorLog n d e K := by
  unfold IsFloorLog
  rw [Nat.mul_assoc, Nat.mul_assoc, Nat.mul_assoc]
  constructor
  · rintro ⟨h1, h2⟩
    exact ⟨Nat.le_of_mul_le_mul_left h1 hc, (Nat.mul_lt_mul_left hc).1 h2⟩
  · rintro ⟨h1, h2⟩
    exact ⟨Nat.mul_le_mul_left _ h1, (Nat.mul_lt_mul_left hc).2 h2⟩

theorem floorLog2Q_scale (c n d : Nat) (hc : 0 < c) (hn : n ≠ 0) (hd : d ≠ 0) :
    floorLog2Q (c * n) (c * d) = floorLog2Q n d := by
  have hcn : c * n ≠ 0 := Nat.mul_ne_zero (by omega) hn
  have hcd : c * d ≠ 0 := Nat.mul_ne_zero (by omega) hd
  let K := bitLength (c * d) + bitLength d + 1
  obtain ⟨k1, s1⟩ := floorLog2Q_spec (c * n) (c * d) hcn hcd K (by omega)
  obtain ⟨k2, s2⟩ := floorLog2Q_spec n d hn hd K (by omega)
  exact isFloorLog_unique n d _ _ K k1 k2 ((isFloorLog_scale c n d hc _ K).1 s1) s2

theorem roundHalfEven_scale (c N D : Nat) (hc : 0 < c) : roundHalfEven (c * N) (c * D) = roundHalfEven N D := by
  unfold roundHalfEven
  rw [Nat.mul_div_mul_left _ _ hc, Nat.mul_mod_mul_left]
  have h1 : (2 * (c * (N % D)) > c * D) ↔ (2 * (N % D) > D) := by
    rw [show 2 * (c * (N % D)) = c * (2 * (N % D)) by rw [Nat.mul_left_comm]]
    exact Nat.mul_lt_mul_left hc
  have h2 : (2 * (c * (N % D)) = c * D) ↔ (2 * (N % D) = D) := by
    rw [show 2 * (c * (N % D)) = c * (2 * (N % D)) by rw [Nat.mul_left_comm]]
    exact Nat.mul_right_inj (by omega)
  simp only [h1, h2]

/-- the part of `roundQ` after the exponent has been found -/
def roundCore (neg : Bool) (e : Int) (n d : Nat) : Nat :=
  let s : Int := if e ≥ -1022 then 52 - e else 1074
  let N := if s ≥ 0 then n * 2 ^ s.toNat else n
  let D := if s ≥ 0 then d else d * 2 ^ (-s).toNat
  let q := roundHalfEven N D
  let base := if e ≥ -1022 then (e + 1022).toNat * 2 ^ 52 else 0
  let bits := base + q
  signOf neg + (if bits ≥ fInf then fInf else bits)

theorem roundQ_pos (neg : Bool) (n d : Nat) (hn : n ≠ 0) (hd : d ≠ 0) :
    roundQ neg n d = roundCore neg (floorLog2Q n d) n d := by
  unfold roundQ roundCore
  simp [hn, hd]

theorem roundCore_scale (neg : Bool) (e : Int) (c n d : Nat) (hc : 0 < c) :
    roundCore neg e (c * n) (c * d) = roundCore neg e n d := by
  unfold roundCore
  simp only
  by_cases hs : (if e ≥ -1022 then 52 - e else (1074 : Int)) ≥ 0
  · simp only [hs, if_true, Nat.mul_assoc, roundHalfEven_scale _ _ _ hc]
  · simp only [hs, if_false, Nat.mul_assoc, roundHalfEven_scale _ _ _ hc]

/-- F: `roundQ` depends on the value of the fraction only. -/
theorem roundQ_scale (neg : Bool) (c n d : Nat) (hc : 0 < c) : roundQ neg (c * n) (c * d) = roundQ neg n d := by
  by_cases hn : n = 0
  · subst hn; simp [roundQ]
  by_cases hd : d = 0
  · subst hd; simp [roundQ]
  rw [roundQ_pos neg _ _ (Nat.mul_ne_zero (by omega) hn) (Nat.mul_ne_zero (by omega) hd), roundQ_pos neg n d hn hd,
    floorLog2Q_scale c n d hc hn hd, roundCore_scale neg _ c n d hc]

theorem roundQ_congr (neg : Bool) (n1 d1 n2 d2 : Nat) (h1 : 0 < d1) (h2 : 0 < d2) (h : n1 * d2 = n2 * d1) :
    roundQ neg n1 d1 = roundQ neg n2 d2 := by
  rw [← roundQ_scale neg d2 n1 d1 h2, ← roundQ_scale neg d1 n2 d2 h1]
  rw [Nat.mul_comm d2 n1, h, Nat.mul_comm d1 n2, Nat.mul_comm d2 d1]

/-! ### avg: exact integer sums, one rounding at the end -/

open Grafeo.F64 in
/-- the double `i as f64` is finite, has the sign of `i` and is exactly `i` (decidable; true for
every `|i| ≤ 2^53`, and for larger `i` with enough trailing zero bits) -/
def exactInt (i : Int) : Bool :=
  (expField (ofInt i) != 2047) && decide ((toQ (ofInt i)).1 = i.natAbs * (toQ (ofInt i)).2) &&
    (fNeg (ofInt i) == decide (i < 0))

open Grafeo.F64 in
theorem toQ_den_pos (b : Nat) : 0 < (toQ b).2 := by
  unfold toQ
  simp only
  split
  · exact Nat.two_pow_pos _
  · split
    · exact Nat.one_pos
    · exact Nat.two_pow_pos _

open Grafeo.F64 in
theorem finite_not_special (b : Nat) (h : (expField b != 2047) = true) : isNaN b = false ∧ isInf b = false := by
  have : (expField b == 2047) = false := by simpa using h
  simp [isNaN, isInf, this]

open Grafeo.F64 in
theorem mag_zero_toQ (b : Nat) (h : mag b = 0) : (toQ b).1 = 0 := by
  have h2 : expField b = 0 ∧ fracField b = 0 := by
    unfold mag at h
    unfold expField fracField
    omega
  simp [toQ, h2.1, h2.2]

theorem exactInt_unpack (i : Int) (h : exactInt i = true) :
    (F64.expField (ofInt i) != 2047) = true ∧ (toQ (ofInt i)).1 = i.natAbs * (toQ (ofInt i)).2 ∧
      fNeg (ofInt i) = decide (i < 0) := by
  simp only [exactInt, Bool.and_eq_true, decide_eq_true_eq, beq_iff_eq] at h
  exact ⟨h.1.1, h.1.2, h.2⟩

theorem signedNum_exact (x : Int) (o : Nat) (h : exactInt x = true) :
    signedNum (ofInt x) o = x * (((toQ (ofInt x)).2 : Int) * ((toQ o).2 : Int)) := by
  obtain ⟨_, hq, hs⟩ := exactInt_unpack x h
  unfold signedNum
  simp only [hs, hq, decide_eq_true_eq]
  by_cases hx : x < 0
  · have hn : ((x.natAbs : Nat) : Int) = -x := by omega
    simp only [hx, if_true]
    push_cast
    rw [hn]
    grind
  · have hn : ((x.natAbs : Nat) : Int) = x := by omega
    simp only [hx, if_false]
    push_cast
    rw [hn]
    grind

theorem ofInt_zero : ofInt 0 = 0 := by decide

/-- F: the float sum of two exactly represented integers is the correctly rounded integer sum. -/
theorem fadd_exact (x y : Int) (hx : exactInt x = true) (hy : exactInt y = true) :
    fadd (ofInt x) (ofInt y) = ofInt (x + y) := by
  obtain ⟨fx, _, sx⟩ := exactInt_unpack x hx
  obtain ⟨fy, _, sy⟩ := exactInt_unpack y hy
  obtain ⟨nx, ix⟩ := finite_not_special _ fx
  obtain ⟨ny, iy⟩ := finite_not_special _ fy
  unfold fadd
  simp only [nx, ny, ix, iy, Bool.or_self, Bool.false_eq_true, if_false]
  rw [signedNum_exact x _ hx, signedNum_exact y _ hy]
  have hP : 0 < (toQ (ofInt x)).2 * (toQ (ofInt y)).2 := Nat.mul_pos (toQ_den_pos _) (toQ_den_pos _)
  generalize hPdef : (toQ (ofInt x)).2 * (toQ (ofInt y)).2 = P at hP
  have hsum : x * (((toQ (ofInt x)).2 : Int) * ((toQ (ofInt y)).2 : Int)) + y * (((toQ (ofInt y)).2 : Int) * ((toQ (ofInt x)).2 : Int))
      = (x + y) * (P : Int) := by
    rw [← hPdef]
    push_cast
    grind
  rw [hsum]
  by_cases hz : x + y = 0
  · have hneg : (fNeg (ofInt x) && fNeg (ofInt y)) = false := by
      rw [sx, sy]
      by_cases h1 : x < 0 <;> by_cases h2 : y < 0 <;> simp [h1, h2] <;> omega
    simp [hz, hneg, ofInt_zero]
  · have hPi : (0 : Int) < (P : Int) := by exact_mod_cast hP
    have hne : (x + y) * (P : Int) ≠ 0 := Int.mul_ne_zero hz (by omega)
    simp only [hne, if_false]
    have hsign : decide ((x + y) * (P : Int) < 0) = decide (x + y < 0) := by
      by_cases hlt : x + y < 0
      · have := Int.mul_neg_of_neg_of_pos hlt hPi
        simp [hlt, this]
      · have hgt : 0 < x + y := by omega
        have := Int.mul_pos hgt hPi
        have h2 : ¬ (x + y) * (P : Int) < 0 := by omega
        simp [hlt, h2]
    rw [hsign, Int.natAbs_mul, Int.natAbs_natCast]
    unfold ofInt
    rw [Nat.mul_comm (x + y).natAbs P]
    have := roundQ_scale (decide (x + y < 0)) P (x + y).natAbs 1 hP
    rw [Nat.mul_one] at this
    exact this

/-- F: the float quotient of an exactly represented integer and an exactly represented positive
count is the correctly rounded exact mean. -/
theorem fdiv_exact (S : Int) (k : Nat) (hk : 0 < k) (hS : exactInt S = true) (hK : exactInt (k : Int) = true) :
    fdiv (ofInt S) (ofInt (k : Int)) = meanF64 S k := by
  obtain ⟨fS, qS, sS⟩ := exactInt_unpack S hS
  obtain ⟨fK, qK, sK⟩ := exactInt_unpack (k : Int) hK
  obtain ⟨nS, iS⟩ := finite_not_special _ fS
  obtain ⟨nK, iK⟩ := finite_not_special _ fK
  have hkneg : decide ((k : Int) < 0) = false := by simp
  have hnegeq : (fNeg (ofInt S) != fNeg (ofInt (k : Int))) = decide (S < 0) := by
    rw [sS, sK, hkneg]
    simp
  simp only [Int.natAbs_natCast] at qK
  have hmagK : F64.mag (ofInt (k : Int)) ≠ 0 := by
    intro h
    have h0 := mag_zero_toQ _ h
    rw [qK] at h0
    have := Nat.mul_pos hk (toQ_den_pos (ofInt (k : Int)))
    omega
  unfold fdiv meanF64
  simp only [nS, nK, iS, iK, Bool.or_self, Bool.false_eq_true, if_false, hmagK, hnegeq]
  by_cases hmS : F64.mag (ofInt S) = 0
  · have h0 := mag_zero_toQ _ hmS
    rw [qS] at h0
    have hS0 : S.natAbs = 0 := by
      rcases Nat.mul_eq_zero.1 h0 with h | h
      · exact h
      · have := toQ_den_pos (ofInt S); omega
    simp [hmS, hS0, roundQ]
  · simp only [hmS, if_false]
    apply roundQ_congr
    · exact Nat.mul_pos (toQ_den_pos _) (by rw [qK]; exact Nat.mul_pos hk (toQ_den_pos _))
    · exact hk
    · rw [qS, qK]
      grind

theorem foldl_update_avg (s c : Int) (l : List Val) (hint : l.all isInt = true) :
    l.foldl St.update (.avg s 0 c) = .avg (s + intSum l) 0 (c + l.length) := by
  induction l generalizing s c with
  | nil => simp [intSum]
  | cons v vs ih =>
    simp only [List.all_cons, Bool.and_eq_true] at hint
    cases v with
    | null => simp [isInt] at hint
    | str t => simp [isInt] at hint
    | float b => simp [isInt] at hint
    | int i =>
      simp only [List.foldl_cons, St.update, avgStep]
      rw [ih (s + i) (c + 1) hint.2, intSum_cons]
      simp only [intOf, List.length_cons]
      congr 1
      · omega
      · push_cast; omega

/-- hypothesis of the partial theorem: integers only; their exact sum and their number convert to
a double without rounding (nothing is asked of the values or of the intermediate sums) -/
def avgOK (vs : List Val) : Bool :=
  (nonNull vs).all isInt && exactInt (intSum (nonNull vs)) && exactInt ((nonNull vs).length : Int)

/-- P (3), after the repair (the integers are summed exactly, one conversion, one division): then
the coded `avg` is the exact mean rounded once — what the specification demands. -/
theorem avg_eq_spec_partial (vs : List Val) (h : avgOK vs = true) :
    specAgg .avg false vs = .ok (colAgg .avg false vs) := by
  simp only [avgOK, Bool.and_eq_true] at h
  unfold colAgg
  rw [foldl_feed_nonNull _ _ (by simp)]
  simp only [St.init]
  rw [foldl_update_avg 0 0 (nonNull vs) h.1.1]
  simp only [Int.zero_add]
  have hall : (nonNull vs).all isInt = true := h.1.1
  have hspec : specAgg .avg false vs =
      (if (nonNull vs).isEmpty then .ok .null
       else .ok (.float (meanF64 (intSum (nonNull vs)) (nonNull vs).length))) := by
    simp only [specAgg, Bool.false_eq_true, if_false, hall, if_true]
  rw [hspec]
  cases hnn : nonNull vs with
  | nil => simp [St.finalize, avgOut]
  | cons v l =>
    have hlen : 0 < (nonNull vs).length := by rw [hnn]; simp
    have hne : ((nonNull vs).length : Int) ≠ 0 := by omega
    rw [← hnn]
    simp only [St.finalize, avgOut, hne, if_false]
    -- `int_sum as f64 + 0.0` is `int_sum as f64`
    have hz : fadd (ofInt (intSum (nonNull vs))) 0 = ofInt (intSum (nonNull vs)) := by
      have := fadd_exact (intSum (nonNull vs)) 0 h.1.2 (by decide +kernel)
      rw [ofInt_zero, Int.add_zero] at this
      exact this
    rw [hz, fdiv_exact _ _ hlen h.1.2 h.2]
    have hemp : (nonNull vs).isEmpty = false := by rw [hnn]; rfl
    simp only [hemp, Bool.false_eq_true, if_false]

/-- W: the full statement is false. Beyond 2^53 the exact sum is rounded when it is converted and
the quotient is rounded again: (2^53 + 1) / 3 is the integer 3002399751580331, the code returns
3002399751580330.5. And numeric strings enter the mean (specification: type error). -/
theorem avg_not_spec : ¬ ∀ vs : List Val, specAgg .avg false vs = .ok (colAgg .avg false vs) := by
  intro h
  exact absurd (h [.int (2 ^ 53), .int 1, .int 0]) (by decide +kernel)

theorem avg_rounding_witness :
    colAgg .avg false [.int (2 ^ 53), .int 1, .int 0] = .float 0x4325555555555555 ∧
    specAgg .avg false [.int (2 ^ 53), .int 1, .int 0] = .ok (.float 0x4325555555555556) := by
  refine ⟨by decide +kernel, by decide +kernel⟩

theorem avg_numeric_strings_witness :
    colAgg .avg false [.str "3", .int 1] = .float 0x4000000000000000 ∧
    specAgg .avg false [.str "3", .int 1] = .err "type" := by
  refine ⟨by decide +kernel, by decide⟩

/-- N: the hypothesis holds for a column whose running sum passes 2^53 on the way (2^53, 1, 1: the
old running float sum lost both ones); the mean (2^53 + 2) / 3 is exact on both sides. -/
theorem avg_nonvacuous : avgOK [.int (2 ^ 53), .null, .int 1, .int 1] = true ∧
    colAgg .avg false [.int (2 ^ 53), .null, .int 1, .int 1] = .float 4838367199671702871 ∧
    specAgg .avg false [.int (2 ^ 53), .null, .int 1, .int 1] = .ok (.float 4838367199671702871) := by
  refine ⟨by decide +kernel, by decide +kernel, by decide +kernel⟩

/-! ### every integer below 2^53 is exact: the hypothesis of the avg theorem in closed form -/

theorem floorLog2Q_one (n : Nat) (hn : n ≠ 0) : floorLog2Q n 1 = (Nat.log2 n : Int) := by
  let K := bitLength 1 + 1
  obtain ⟨k1, s1⟩ := floorLog2Q_spec n 1 hn (by decide) K (by omega)
  have hlo := Nat.log2_self_le hn
  have hhi := @Nat.lt_log2_self n
  have s2 : IsFloorLog n 1 (Nat.log2 n : Int) K := by
    unfold IsFloorLog
    have e1 : ((K : Int) + (Nat.log2 n : Int)).toNat = Nat.log2 n + K := by omega
    have e2 : ((K : Int) + (Nat.log2 n : Int) + 1).toNat = (Nat.log2 n + 1) + K := by omega
    rw [e1, e2, Nat.pow_add, Nat.pow_add (m := Nat.log2 n + 1)]
    refine ⟨?_, ?_⟩
    · rw [Nat.one_mul]; exact Nat.mul_le_mul_right _ hlo
    · rw [Nat.one_mul]; exact Nat.mul_lt_mul_of_lt_of_le hhi (Nat.le_refl _) (Nat.two_pow_pos K)
  exact isFloorLog_unique n 1 _ _ K k1 (by omega) s1 s2

theorem roundHalfEven_one (N : Nat) : roundHalfEven N 1 = N := by
  unfold roundHalfEven
  simp [Nat.mod_one]

theorem exactBits (neg : Bool) (L M : Nat) (hL : L ≤ 52) (hM : M < 2 ^ 52) :
    F64.expField (signOf neg + ((L + 1023) * 2 ^ 52 + M)) = L + 1023 ∧
    F64.fracField (signOf neg + ((L + 1023) * 2 ^ 52 + M)) = M ∧
    fNeg (signOf neg + ((L + 1023) * 2 ^ 52 + M)) = neg := by
  cases neg
  · simp only [signOf, Bool.false_eq_true, ↓reduceIte, F64.expField, F64.fracField, fNeg, F64.signBit]
    refine ⟨by omega, by omega, ?_⟩
    simp
    omega
  · simp only [signOf, ↓reduceIte, F64.expField, F64.fracField, fNeg, F64.signBit]
    refine ⟨by omega, by omega, ?_⟩
    simp
    omega

/-- F: every integer of magnitude below 2^53 converts to a double without rounding. -/
theorem exactInt_small (i : Int) (h : i.natAbs < 2 ^ 53) : exactInt i = true := by
  by_cases h0 : i = 0
  · subst h0; decide +kernel
  have hn : i.natAbs ≠ 0 := by omega
  generalize hnd : i.natAbs = n at *
  have hlo := Nat.log2_self_le hn
  have hhi := @Nat.lt_log2_self n
  generalize hLd : Nat.log2 n = L at *
  have hL : L ≤ 52 := by
    apply Classical.byContradiction
    intro hc
    have : 2 ^ 53 ≤ 2 ^ L := Nat.pow_le_pow_right (by decide) (by omega)
    omega
  -- the scaled mantissa
  have hNlo : 2 ^ 52 ≤ n * 2 ^ (52 - L) := by
    have := Nat.mul_le_mul_right (2 ^ (52 - L)) hlo
    rw [← Nat.pow_add, show L + (52 - L) = 52 by omega] at this
    exact this
  have hNhi : n * 2 ^ (52 - L) < 2 ^ 53 := by
    have := Nat.mul_lt_mul_of_lt_of_le hhi (Nat.le_refl (2 ^ (52 - L))) (Nat.two_pow_pos _)
    rw [← Nat.pow_add, show L + 1 + (52 - L) = 53 by omega] at this
    exact this
  have hof : ofInt i = signOf (decide (i < 0)) + ((L + 1023) * 2 ^ 52 + (n * 2 ^ (52 - L) - 2 ^ 52)) := by
    unfold ofInt
    rw [hnd, roundQ_pos _ _ _ hn (by decide), floorLog2Q_one n hn, hLd]
    unfold roundCore
    have e1 : ((L : Int) ≥ -1022) := by omega
    have e2 : ((52 : Int) - (L : Int) ≥ 0) := by omega
    have e3 : ((52 : Int) - (L : Int)).toNat = 52 - L := by omega
    have e4 : ((L : Int) + 1022).toNat = L + 1022 := by omega
    simp only [e1, e2, if_true, e3, e4, roundHalfEven_one]
    have hlt : ¬ ((L + 1022) * 2 ^ 52 + n * 2 ^ (52 - L) ≥ fInf) := by
      unfold fInf
      omega
    simp only [hlt, if_false]
    omega
  obtain ⟨hE, hF, hS⟩ := exactBits (decide (i < 0)) L (n * 2 ^ (52 - L) - 2 ^ 52) hL (by omega)
  unfold exactInt
  rw [hof, hE, hS]
  have hq : toQ (signOf (decide (i < 0)) + ((L + 1023) * 2 ^ 52 + (n * 2 ^ (52 - L) - 2 ^ 52))) =
      if L = 52 then (n, 1) else (n * 2 ^ (52 - L), 2 ^ (52 - L)) := by
    unfold toQ
    simp only [hE, hF]
    have hne : ¬ (L + 1023 = 0) := by omega
    simp only [hne, if_false]
    by_cases h52 : L = 52
    · subst h52
      have hge : (52 + 1023 ≥ 1075) := by omega
      simp only [hge, if_true, Nat.sub_self, Nat.pow_zero, Nat.mul_one]
      simp only [Nat.sub_self, Nat.pow_zero, Nat.mul_one] at hNlo
      simp only [Prod.mk.injEq, and_true]
      omega
    · have hlt : ¬ (L + 1023 ≥ 1075) := by omega
      have e5 : 1075 - (L + 1023) = 52 - L := by omega
      simp only [hlt, if_false, h52, e5, Prod.mk.injEq, and_true]
      omega
  rw [hq, hnd]
  by_cases h52 : L = 52
  · simp [h52]
  · simp [h52]
    omega

/-- P (3): over integers whose exact sum is below 2^53 in magnitude (fewer than 2^53 of them),
the coded `avg` is the exact mean, rounded once to the nearest double. -/
theorem avg_eq_spec_small (vs : List Val) (hint : (nonNull vs).all isInt = true)
    (hsum : (intSum (nonNull vs)).natAbs < 2 ^ 53) (hlen : (nonNull vs).length < 2 ^ 53) :
    specAgg .avg false vs = .ok (colAgg .avg false vs) := by
  apply avg_eq_spec_partial
  simp only [avgOK, Bool.and_eq_true]
  exact ⟨⟨hint, exactInt_small _ hsum⟩, exactInt_small _ (by simpa using hlen)⟩

/-- N -/
theorem avg_small_nonvacuous : (intSum (nonNull [.int 7, .null, .int (-4), .int 2])).natAbs < 2 ^ 53 ∧
    specAgg .avg false [.int 7, .null, .int (-4), .int 2] = .ok (.float 0x3ffaaaaaaaaaaaab) := by
  refine ⟨by decide, by decide +kernel⟩


section MinMax
open Grafeo.F64
/-! ### min / max -/

/-- both folds pick the first minimum: the left fold that replaces its candidate only by a strictly
smaller value, and the specification's right fold — for every relation that is transitive and
negatively transitive on the values at hand -/
theorem foldl_first_min {α : Type} (lt : α → α → Bool) (P : α → Prop)
    (htr : ∀ a b c, P a → P b → P c → lt a b = true → lt b c = true → lt a c = true)
    (hnt : ∀ a b c, P a → P b → P c → lt a c = true → lt a b = true ∨ lt b c = true)
    (spec : List α → Option α)
    (hnil : spec [] = none)
    (hcons : ∀ v vs, spec (v :: vs) = match spec vs with
      | none => some v
      | some m => if lt m v then some m else some v)
    (c : α) (l : List α) (hc : P c) (hl : ∀ x ∈ l, P x) :
    (∃ m, spec l = some m ∧ P m ∧ l.foldl (fun cur v => if lt v cur then v else cur) c = (if lt m c then m else c)) ∨
    (spec l = none ∧ l.foldl (fun cur v => if lt v cur then v else cur) c = c) := by
  induction l generalizing c with
  | nil => right; exact ⟨hnil, rfl⟩
  | cons v vs ih =>
    have hv : P v := hl v (by simp)
    have hvs : ∀ x ∈ vs, P x := fun x hx => hl x (List.mem_cons_of_mem _ hx)
    left
    simp only [List.foldl_cons, hcons]
    by_cases hvc : lt v c = true
    · simp only [hvc, if_true]
      rcases ih v hv hvs with ⟨m, hm, hPm, hf⟩ | ⟨hnone, hf⟩
      · rw [hm, hf]
        by_cases hmv : lt m v = true
        · refine ⟨m, by simp [hmv], hPm, ?_⟩
          simp [hmv, htr m v c hPm hv hc hmv hvc]
        · refine ⟨v, by simp [hmv], hv, ?_⟩
          simp [hmv, hvc]
      · rw [hnone, hf]
        exact ⟨v, rfl, hv, by simp [hvc]⟩
    · simp only [hvc, Bool.false_eq_true, if_false]
      rcases ih c hc hvs with ⟨m, hm, hPm, hf⟩ | ⟨hnone, hf⟩
      · rw [hm, hf]
        by_cases hmv : lt m v = true
        · exact ⟨m, by simp [hmv], hPm, rfl⟩
        · refine ⟨v, by simp [hmv], hv, ?_⟩
          have hmc : ¬ lt m c = true := by
            intro h
            rcases hnt m v c hPm hv hc h with h1 | h1
            · exact hmv h1
            · exact hvc h1
          simp [hmc, hvc]
      · rw [hnone, hf]
        exact ⟨v, rfl, hv, by simp [hvc]⟩

/-- the exact value (times 2^1074) as a function of the magnitude bits -/
def magScaled (m : Nat) : Nat :=
  if m / 2 ^ 52 = 0 then m % 2 ^ 52 else (2 ^ 52 + m % 2 ^ 52) * 2 ^ (m / 2 ^ 52 - 1)

theorem scaledMag_eq (b : Nat) : scaledMag b = magScaled (mag b) := by
  unfold scaledMag magScaled expField fracField mag
  have h1 : b / 2 ^ 52 % 2 ^ 11 = b % 2 ^ 63 / 2 ^ 52 := by omega
  have h2 : b % 2 ^ 52 = b % 2 ^ 63 % 2 ^ 52 := by omega
  rw [h1, ← h2]

theorem magScaled_lt_top (m : Nat) : magScaled m < 2 ^ 52 * 2 ^ (m / 2 ^ 52) := by
  unfold magScaled
  have hF : m % 2 ^ 52 < 2 ^ 52 := Nat.mod_lt _ (Nat.two_pow_pos 52)
  by_cases hE : m / 2 ^ 52 = 0
  · simp only [hE, if_true, Nat.pow_zero, Nat.mul_one]; exact hF
  · simp only [hE, if_false]
    have hp : 2 ^ (m / 2 ^ 52) = 2 * 2 ^ (m / 2 ^ 52 - 1) := by
      rw [← Nat.pow_succ']; congr 1; omega
    rw [hp]
    have : (2 ^ 52 + m % 2 ^ 52) * 2 ^ (m / 2 ^ 52 - 1) < (2 ^ 52 + 2 ^ 52) * 2 ^ (m / 2 ^ 52 - 1) :=
      Nat.mul_lt_mul_of_lt_of_le (by omega) (Nat.le_refl _) (Nat.two_pow_pos _)
    have e : (2 ^ 52 + 2 ^ 52) * 2 ^ (m / 2 ^ 52 - 1) = 2 ^ 52 * (2 * 2 ^ (m / 2 ^ 52 - 1)) := by
      rw [← Nat.mul_assoc]
    omega

theorem magScaled_ge_bottom (m : Nat) (hE : m / 2 ^ 52 ≠ 0) : 2 ^ 52 * 2 ^ (m / 2 ^ 52 - 1) ≤ magScaled m := by
  unfold magScaled
  simp only [hE, if_false]
  exact Nat.mul_le_mul_right _ (by omega)

/-- F: the value of a double grows strictly with its magnitude bits -/
theorem magScaled_strictMono (m m' : Nat) (h : m < m') : magScaled m < magScaled m' := by
  by_cases hE : m / 2 ^ 52 = m' / 2 ^ 52
  · have hF : m % 2 ^ 52 < m' % 2 ^ 52 := by omega
    unfold magScaled
    rw [← hE]
    by_cases h0 : m / 2 ^ 52 = 0
    · simp only [h0, if_true]; exact hF
    · simp only [h0, if_false]
      exact Nat.mul_lt_mul_of_lt_of_le (by omega) (Nat.le_refl _) (Nat.two_pow_pos _)
  · have hlt : m / 2 ^ 52 < m' / 2 ^ 52 := by
      have := Nat.div_le_div_right (c := 2 ^ 52) (Nat.le_of_lt h)
      omega
    have h1 := magScaled_lt_top m
    have h2 := magScaled_ge_bottom m' (by omega)
    have hp : 2 ^ (m / 2 ^ 52) ≤ 2 ^ (m' / 2 ^ 52 - 1) := Nat.pow_le_pow_right (by decide) (by omega)
    have h3 : 2 ^ 52 * 2 ^ (m / 2 ^ 52) ≤ 2 ^ 52 * 2 ^ (m' / 2 ^ 52 - 1) := Nat.mul_le_mul_left _ hp
    omega

theorem magScaled_lt_iff (m m' : Nat) : magScaled m < magScaled m' ↔ m < m' := by
  constructor
  · intro h
    apply Classical.byContradiction
    intro hn
    rcases Nat.lt_or_eq_of_le (Nat.le_of_not_lt hn) with h1 | h1
    · have := magScaled_strictMono _ _ h1; omega
    · subst h1; omega
  · exact magScaled_strictMono m m'

theorem magScaled_zero : magScaled 0 = 0 := by decide

theorem magScaled_pos_iff (m : Nat) : 0 < magScaled m ↔ 0 < m := by
  have := magScaled_lt_iff 0 m
  rw [magScaled_zero] at this
  exact this

/-- F: the order of the sign-magnitude keys (`partial_cmp` on non-NaN doubles) is the order of the
exact values -/
theorem key_lt_iff_scaled (x y : Nat) : F64.key x < F64.key y ↔ scaledF x < scaledF y := by
  unfold F64.key scaledF fNeg
  rw [scaledMag_eq, scaledMag_eq]
  have hx := magScaled_pos_iff (mag x)
  have hy := magScaled_pos_iff (mag y)
  have hxy := magScaled_lt_iff (mag x) (mag y)
  have hyx := magScaled_lt_iff (mag y) (mag x)
  by_cases sx : signBit x = 1 <;> by_cases sy : signBit y = 1 <;> simp only [sx, sy, beq_self_eq_true, if_true, if_false, beq_iff_eq] <;> omega


theorem scaledMag_toQ (b : Nat) : scaledMag b * (toQ b).2 = (toQ b).1 * 2 ^ 1074 := by
  unfold scaledMag toQ
  simp only
  by_cases h0 : expField b = 0
  · simp [h0]
  · simp only [h0, if_false]
    by_cases h1 : expField b ≥ 1075
    · simp only [h1, if_true, Nat.mul_one]
      rw [Nat.mul_assoc, ← Nat.pow_add]
      congr 2
      omega
    · simp only [h1, if_false]
      rw [Nat.mul_assoc, ← Nat.pow_add]
      congr 2
      omega

/-- F: an exactly converted integer has the exact value of the integer -/
theorem scaledF_ofInt (i : Int) (h : exactInt i = true) : scaledF (ofInt i) = i * 2 ^ 1074 := by
  obtain ⟨_, hq, hs⟩ := exactInt_unpack i h
  have hm := scaledMag_toQ (ofInt i)
  rw [hq] at hm
  have hd := toQ_den_pos (ofInt i)
  have hmag : scaledMag (ofInt i) = i.natAbs * 2 ^ 1074 := by
    have : scaledMag (ofInt i) * (toQ (ofInt i)).2 = (i.natAbs * 2 ^ 1074) * (toQ (ofInt i)).2 := by
      rw [hm]; grind
    exact Nat.eq_of_mul_eq_mul_right hd this
  unfold scaledF
  rw [hs, hmag]
  by_cases hn : i < 0
  · have : ((i.natAbs : Nat) : Int) = -i := by omega
    simp only [hn, decide_true, if_true]
    push_cast
    rw [this]
    grind
  · have : ((i.natAbs : Nat) : Int) = i := by omega
    simp only [hn, decide_false, Bool.false_eq_true, if_false]
    push_cast
    rw [this]

theorem ofInt_not_nan (i : Int) (h : exactInt i = true) : isNaN (ofInt i) = false :=
  (finite_not_special _ (exactInt_unpack i h).1).1

theorem partialCmp_lt_iff (x y : Nat) (hx : isNaN x = false) (hy : isNaN y = false) :
    partialCmp x y = some .lt ↔ scaledF x < scaledF y := by
  unfold partialCmp
  simp only [hx, hy, Bool.or_self, Bool.false_eq_true, if_false, Option.some.injEq, Int.compare_eq_lt]
  exact key_lt_iff_scaled x y

theorem partialCmp_gt_iff (x y : Nat) (hx : isNaN x = false) (hy : isNaN y = false) :
    partialCmp x y = some .gt ↔ scaledF y < scaledF x := by
  unfold partialCmp
  simp only [hx, hy, Bool.or_self, Bool.false_eq_true, if_false, Option.some.injEq, Int.compare_eq_gt]
  exact key_lt_iff_scaled y x

theorem string_compare_lt (x y : String) : compare x y = .lt ↔ x < y := by
  show String.compare x y = .lt ↔ _
  unfold String.compare compareOfLessAndEq
  by_cases h : x < y
  · simp [h]
  · by_cases he : x = y <;> simp [h, he]

theorem string_compare_gt (x y : String) : compare x y = .gt ↔ y < x := by
  show String.compare x y = .gt ↔ _
  unfold String.compare compareOfLessAndEq
  by_cases h : x < y
  · simp [h]; exact String.lt_asymm h
  · by_cases he : x = y
    · subst he; simp [String.lt_irrefl]
    · simp only [h, he, if_false, true_iff]
      apply Classical.byContradiction; intro hn
      exact he (String.le_antisymm (String.not_lt.1 hn) (String.not_lt.1 h))

/-- the values the theorems speak about: integers, non-NaN floats, text that does not read as a
number (`fl`: floats occur at all). -/
def okVal (fl : Bool) : Val → Bool
  | .int _ => true
  | .float b => fl && !isNaN b
  | .str s => (parseF64 s.toList).isNone
  | .null => false

/-- a value in the domain is a number with a numeric key, or a string -/
theorem okVal_class (fl : Bool) (v : Val) (h : okVal fl v = true) :
    (∃ k, numK v = some k) ∨ (∃ s, v = .str s ∧ numK v = none) := by
  cases v with
  | null => simp [okVal] at h
  | int i => exact Or.inl ⟨_, rfl⟩
  | str s => exact Or.inr ⟨s, rfl, rfl⟩
  | float b =>
    simp only [okVal, Bool.and_eq_true, Bool.not_eq_true'] at h
    exact Or.inl ⟨scaledF b, by simp [numK, h.2]⟩

theorem specLt_trans (fl : Bool) (a b c : Val) (ha : okVal fl a = true) (hb : okVal fl b = true) (hc : okVal fl c = true)
    (h1 : specLt a b = true) (h2 : specLt b c = true) : specLt a c = true := by
  rcases okVal_class fl a ha with ⟨ka, hka⟩ | ⟨sa, rfl, hka⟩ <;>
  rcases okVal_class fl b hb with ⟨kb, hkb⟩ | ⟨sb, rfl, hkb⟩ <;>
  rcases okVal_class fl c hc with ⟨kc, hkc⟩ | ⟨sc, rfl, hkc⟩ <;>
  simp_all [specLt, isStr, strLt]
  · omega
  · exact String.lt_trans h1 h2

/-- negative transitivity: what is below `c` is below `b`, or `b` is below `c` -/
theorem specLt_ntrans (fl : Bool) (a b c : Val) (ha : okVal fl a = true) (hb : okVal fl b = true) (hc : okVal fl c = true)
    (h : specLt a c = true) : specLt a b = true ∨ specLt b c = true := by
  rcases okVal_class fl a ha with ⟨ka, hka⟩ | ⟨sa, rfl, hka⟩ <;>
  rcases okVal_class fl b hb with ⟨kb, hkb⟩ | ⟨sb, rfl, hkb⟩ <;>
  rcases okVal_class fl c hc with ⟨kc, hkc⟩ | ⟨sc, rfl, hkc⟩ <;>
  simp_all [specLt, isStr, strLt]
  · omega
  · by_cases h1 : sa < sb
    · exact Or.inl h1
    · right
      rcases Nat.lt_or_ge 0 1 with _ | _
      · apply Classical.byContradiction
        intro h2
        have e1 := String.not_lt.1 h1
        have e2 := String.not_lt.1 h2
        have := String.le_trans e2 e1
        exact String.not_lt.2 this h
      · omega

/-- on the domain the coded comparison decides the specification's order -/
theorem cmpAgg_lt_iff (fl : Bool) (a b : Val) (ha : okVal fl a = true) (hb : okVal fl b = true) :
    cmpAgg a b = some .lt ↔ specLt a b = true := by
  cases a with
  | null => simp [okVal] at ha
  | int x =>
    cases b with
    | null => simp [okVal] at hb
    | int y =>
      simp only [cmpAgg, Option.some.injEq, Int.compare_eq_lt, specLt, numK, decide_eq_true_eq]
      constructor
      · intro h; exact Int.mul_lt_mul_of_pos_right h (by decide +kernel)
      · intro h; exact Int.lt_of_mul_lt_mul_right h (by decide +kernel)
    | str s =>
      simp only [okVal, Option.isNone_iff_eq_none] at hb
      simp [cmpAgg, cmpIntStr, hb, specLt, numK, isStr]
    | float y =>
      simp only [okVal, Bool.and_eq_true, Bool.not_eq_true'] at hb
      simp [cmpAgg, cmpIntFloat, specLt, numK, hb.2, Int.compare_eq_lt]
  | str s =>
    simp only [okVal, Option.isNone_iff_eq_none] at ha
    cases b with
    | null => simp [okVal] at hb
    | int y => simp [cmpAgg, cmpStrInt, ha, specLt, numK]
    | str t =>
      simp only [okVal, Option.isNone_iff_eq_none] at hb
      simp [cmpAgg, cmpStrStr, ha, hb, specLt, numK, strLt, string_compare_lt]
    | float y =>
      simp only [okVal, Bool.and_eq_true, Bool.not_eq_true'] at hb
      simp [cmpAgg, cmpStrFloat, ha, specLt, numK, hb.2]
  | float x =>
    simp only [okVal, Bool.and_eq_true, Bool.not_eq_true'] at ha
    cases b with
    | null => simp [okVal] at hb
    | int y =>
      simp only [cmpAgg, cmpIntFloat, ha.2, Bool.false_eq_true, if_false, Option.map_some, specLt, numK, decide_eq_true_eq]
      cases hc : compare (y * 2 ^ 1074) (scaledF x) <;> simp [revOrdering] <;>
        first | (have := Int.compare_eq_lt.1 hc; omega) | (have := Int.compare_eq_gt.1 hc; omega) | (have := Int.compare_eq_eq.1 hc; omega)
    | str t =>
      simp only [okVal, Option.isNone_iff_eq_none] at hb
      simp [cmpAgg, cmpFloatStr, hb, specLt, numK, ha.2, isStr]
    | float y =>
      simp only [okVal, Bool.and_eq_true, Bool.not_eq_true'] at hb
      simp only [cmpAgg, specLt, numK, ha.2, hb.2, Bool.false_eq_true, if_false, decide_eq_true_eq]
      exact partialCmp_lt_iff _ _ ha.2 hb.2

theorem cmpAgg_gt_iff (fl : Bool) (a b : Val) (ha : okVal fl a = true) (hb : okVal fl b = true) :
    cmpAgg a b = some .gt ↔ specLt b a = true := by
  cases a with
  | null => simp [okVal] at ha
  | int x =>
    cases b with
    | null => simp [okVal] at hb
    | int y =>
      simp only [cmpAgg, Option.some.injEq, Int.compare_eq_gt, specLt, numK, decide_eq_true_eq]
      constructor
      · intro h; exact Int.mul_lt_mul_of_pos_right h (by decide +kernel)
      · intro h; exact Int.lt_of_mul_lt_mul_right h (by decide +kernel)
    | str s =>
      simp only [okVal, Option.isNone_iff_eq_none] at hb
      simp [cmpAgg, cmpIntStr, hb, specLt, numK]
    | float y =>
      simp only [okVal, Bool.and_eq_true, Bool.not_eq_true'] at hb
      simp [cmpAgg, cmpIntFloat, specLt, numK, hb.2, Int.compare_eq_gt]
  | str s =>
    simp only [okVal, Option.isNone_iff_eq_none] at ha
    cases b with
    | null => simp [okVal] at hb
    | int y => simp [cmpAgg, cmpStrInt, ha, specLt, numK, isStr]
    | str t =>
      simp only [okVal, Option.isNone_iff_eq_none] at hb
      simp [cmpAgg, cmpStrStr, ha, hb, specLt, numK, strLt, string_compare_gt]
    | float y =>
      simp only [okVal, Bool.and_eq_true, Bool.not_eq_true'] at hb
      simp [cmpAgg, cmpStrFloat, ha, specLt, numK, hb.2, isStr]
  | float x =>
    simp only [okVal, Bool.and_eq_true, Bool.not_eq_true'] at ha
    cases b with
    | null => simp [okVal] at hb
    | int y =>
      simp only [cmpAgg, cmpIntFloat, ha.2, Bool.false_eq_true, if_false, Option.map_some, specLt, numK, decide_eq_true_eq]
      cases hc : compare (y * 2 ^ 1074) (scaledF x) <;> simp [revOrdering] <;>
        first | (have := Int.compare_eq_lt.1 hc; omega) | (have := Int.compare_eq_gt.1 hc; omega) | (have := Int.compare_eq_eq.1 hc; omega)
    | str t =>
      simp only [okVal, Option.isNone_iff_eq_none] at hb
      simp [cmpAgg, cmpFloatStr, hb, specLt, numK, ha.2]
    | float y =>
      simp only [okVal, Bool.and_eq_true, Bool.not_eq_true'] at hb
      simp only [cmpAgg, specLt, numK, ha.2, hb.2, Bool.false_eq_true, if_false, decide_eq_true_eq]
      exact partialCmp_gt_iff _ _ ha.2 hb.2

theorem okVal_ne_null (fl : Bool) (v : Val) (h : okVal fl v = true) : v ≠ .null := by
  cases v <;> simp_all [okVal]

theorem foldl_minStep_spec (fl : Bool) (c : Val) (l : List Val) (hc : okVal fl c = true) (hl : ∀ x ∈ l, okVal fl x = true) :
    l.foldl minStep (some c) = some (l.foldl (fun cur x => if specLt x cur then x else cur) c) := by
  induction l generalizing c with
  | nil => rfl
  | cons v vs ih =>
    have hv := hl v (by simp)
    simp only [List.foldl_cons, minStep]
    by_cases h : specLt v c = true
    · simp only [(cmpAgg_lt_iff fl v c hv hc).2 h, if_true, h]
      exact ih v hv (fun x hx => hl x (List.mem_cons_of_mem _ hx))
    · have hn : ¬ cmpAgg v c = some .lt := fun hh => h ((cmpAgg_lt_iff fl v c hv hc).1 hh)
      simp only [hn, if_false, h]
      exact ih c hc (fun x hx => hl x (List.mem_cons_of_mem _ hx))

theorem foldl_maxStep_spec (fl : Bool) (c : Val) (l : List Val) (hc : okVal fl c = true) (hl : ∀ x ∈ l, okVal fl x = true) :
    l.foldl maxStep (some c) = some (l.foldl (fun cur x => if specLt cur x then x else cur) c) := by
  induction l generalizing c with
  | nil => rfl
  | cons v vs ih =>
    have hv := hl v (by simp)
    simp only [List.foldl_cons, maxStep]
    by_cases h : specLt c v = true
    · simp only [(cmpAgg_gt_iff fl v c hv hc).2 h, if_true, h]
      exact ih v hv (fun x hx => hl x (List.mem_cons_of_mem _ hx))
    · have hn : ¬ cmpAgg v c = some .gt := fun hh => h ((cmpAgg_gt_iff fl v c hv hc).1 hh)
      simp only [hn, if_false, h]
      exact ih c hc (fun x hx => hl x (List.mem_cons_of_mem _ hx))

theorem foldl_update_min (m : Option Val) (l : List Val) : l.foldl St.update (.min m) = .min (l.foldl minStep m) := by
  induction l generalizing m with
  | nil => rfl
  | cons v vs ih => simp [List.foldl_cons, St.update, ih]

theorem foldl_update_max (m : Option Val) (l : List Val) : l.foldl St.update (.max m) = .max (l.foldl maxStep m) := by
  induction l generalizing m with
  | nil => rfl
  | cons v vs ih => simp [List.foldl_cons, St.update, ih]

/-- hypothesis of the min / max theorems: every non-null value is an integer, a non-NaN float or
text that does not read as a number -/
def minMaxOK (vs : List Val) : Bool := (nonNull vs).all (okVal ((nonNull vs).any isFloat))

/-- P (3): over integers, floats and plain text the coded `min` is the first minimum of the
specification's value order (numbers by exact numeric value — an integer against a float too —,
then text): the same value whatever the order in which equal-ranking competitors arrive, and
numerically the minimum whatever the arrival order at all. -/
theorem min_coded_partial (vs : List Val) (hp : minMaxOK vs = true) :
    colAgg .min false vs = ofVal ((specMin (nonNull vs)).getD .null) := by
  unfold colAgg
  rw [foldl_feed_nonNull _ _ (by simp)]
  simp only [St.init]
  rw [foldl_update_min]
  unfold minMaxOK at hp
  generalize (nonNull vs).any isFloat = fl at hp
  cases hnn : nonNull vs with
  | nil => simp [specMin, St.finalize]
  | cons v l =>
    rw [hnn] at hp
    simp only [List.all_cons, Bool.and_eq_true] at hp
    have hl : ∀ x ∈ l, okVal fl x = true := fun x hx => List.all_eq_true.1 hp.2 x hx
    simp only [List.foldl_cons, minStep]
    rw [foldl_minStep_spec fl v l hp.1 hl]
    rcases foldl_first_min specLt (fun x => okVal fl x = true) (specLt_trans fl) (specLt_ntrans fl) specMin rfl
      (fun v vs => by rw [specMin]; cases specMin vs <;> rfl) v l hp.1 hl with ⟨m, hm, _, hf⟩ | ⟨hnone, hf⟩
    · rw [hf]
      simp only [specMin, hm, St.finalize]
      by_cases h : specLt m v = true <;> simp [h]
    · rw [hf]
      simp [specMin, hnone, St.finalize]

theorem min_eq_spec_partial (vs : List Val) (hp : minMaxOK vs = true) :
    specAgg .min false vs = .ok (colAgg .min false vs) ∨ specAgg .min false vs = .any := by
  by_cases h : minMaxOpen (specMin (nonNull vs)) (nonNull vs) = true
  · right; simp [specAgg, h]
  · left; simp [specAgg, h, min_coded_partial vs hp]

/-- P (3): … and the coded `max` is the first maximum. -/
theorem max_coded_partial (vs : List Val) (hp : minMaxOK vs = true) :
    colAgg .max false vs = ofVal ((specMax (nonNull vs)).getD .null) := by
  unfold colAgg
  rw [foldl_feed_nonNull _ _ (by simp)]
  simp only [St.init]
  rw [foldl_update_max]
  unfold minMaxOK at hp
  generalize (nonNull vs).any isFloat = fl at hp
  cases hnn : nonNull vs with
  | nil => simp [specMax, St.finalize]
  | cons v l =>
    rw [hnn] at hp
    simp only [List.all_cons, Bool.and_eq_true] at hp
    have hl : ∀ x ∈ l, okVal fl x = true := fun x hx => List.all_eq_true.1 hp.2 x hx
    simp only [List.foldl_cons, maxStep]
    rw [foldl_maxStep_spec fl v l hp.1 hl]
    have hflip : (fun cur x => if specLt cur x then x else cur) = (fun cur x => if (fun a b => specLt b a) x cur then x else cur) := rfl
    rw [hflip]
    rcases foldl_first_min (fun a b => specLt b a) (fun x => okVal fl x = true)
      (fun a b c ha hb hc h1 h2 => specLt_trans fl c b a hc hb ha h2 h1)
      (fun a b c ha hb hc h => (specLt_ntrans fl c b a hc hb ha h).symm)
      specMax rfl (fun v vs => by rw [specMax]; cases specMax vs <;> rfl) v l hp.1 hl with ⟨m, hm, _, hf⟩ | ⟨hnone, hf⟩
    · rw [hf]
      simp only [specMax, hm, St.finalize]
      by_cases h : specLt v m = true <;> simp [h]
    · rw [hf]
      simp [specMax, hnone, St.finalize]

theorem max_eq_spec_partial (vs : List Val) (hp : minMaxOK vs = true) :
    specAgg .max false vs = .ok (colAgg .max false vs) ∨ specAgg .max false vs = .any := by
  by_cases h : minMaxOpen (specMax (nonNull vs)) (nonNull vs) = true
  · right; simp [specAgg, h]
  · left; simp [specAgg, h, max_coded_partial vs hp]

theorem specLt_irrefl (a : Val) : specLt a a = false := by
  cases a with
  | null => rfl
  | int i => simp [specLt, numK]
  | str s => simp [specLt, numK, strLt, String.lt_irrefl]
  | float b => by_cases h : isNaN b = true <;> simp [specLt, numK, h, strLt]

/-- the specification's `min` is a minimum: in the list, nothing below it -/
theorem specMin_isMin (fl : Bool) (l : List Val) (hl : ∀ x ∈ l, okVal fl x = true) (m : Val) (hm : specMin l = some m) :
    m ∈ l ∧ ∀ x ∈ l, specLt x m = false := by
  induction l generalizing m with
  | nil => simp [specMin] at hm
  | cons v vs ih =>
    have hv := hl v (by simp)
    have hvs : ∀ x ∈ vs, okVal fl x = true := fun x hx => hl x (List.mem_cons_of_mem _ hx)
    rw [specMin] at hm
    cases hs : specMin vs with
    | none =>
      rw [hs] at hm
      cases vs with
      | nil => simp at hm; subst hm; simp [specLt_irrefl]
      | cons w ws => rw [specMin] at hs; cases h2 : specMin ws <;> simp [h2] at hs <;> split at hs <;> simp at hs
    | some m' =>
      rw [hs] at hm
      obtain ⟨hmem, hmin⟩ := ih hvs m' hs
      have hm' := hvs m' hmem
      by_cases hlt : specLt m' v = true
      · simp [hlt] at hm; subst hm
        refine ⟨List.mem_cons_of_mem _ hmem, ?_⟩
        intro x hx
        rcases List.mem_cons.1 hx with rfl | hx
        · cases h : specLt x m' with
          | false => rfl
          | true =>
            have := specLt_trans fl x m' x hv hm' hv h hlt
            simp [specLt_irrefl] at this
        · exact hmin x hx
      · simp [hlt] at hm; subst hm
        refine ⟨by simp, ?_⟩
        intro x hx
        rcases List.mem_cons.1 hx with rfl | hx
        · exact specLt_irrefl _
        · cases h : specLt x v with
          | false => rfl
          | true =>
            rcases specLt_ntrans fl x m' v (hvs x hx) hm' hv h with h1 | h1
            · have := hmin x hx; simp_all
            · exact absurd h1 hlt

/-- F (order independence): whatever the order in which the values arrive, the coded `min` of two
arrangements of the same values rank the same — neither is below the other (they are numerically
equal numbers, or the same text). -/
theorem min_order_independent (l1 l2 : List Val) (hperm : l1.Perm l2) (h1 : minMaxOK l1 = true) :
    ∃ m1 m2, colAgg .min false l1 = ofVal m1 ∧ colAgg .min false l2 = ofVal m2 ∧
      specLt m1 m2 = false ∧ specLt m2 m1 = false := by
  have hp : (nonNull l1).Perm (nonNull l2) := hperm.filter _
  have hfl : (nonNull l1).any isFloat = (nonNull l2).any isFloat := by
    rw [Bool.eq_iff_iff]; simp only [List.any_eq_true]
    exact ⟨fun ⟨x, hx, h⟩ => ⟨x, hp.mem_iff.1 hx, h⟩, fun ⟨x, hx, h⟩ => ⟨x, hp.mem_iff.2 hx, h⟩⟩
  have h2 : minMaxOK l2 = true := by
    unfold minMaxOK at h1 ⊢
    rw [← hfl, List.all_eq_true] at *
    exact fun x hx => h1 x (hp.mem_iff.2 hx)
  refine ⟨(specMin (nonNull l1)).getD .null, (specMin (nonNull l2)).getD .null,
    min_coded_partial l1 h1, min_coded_partial l2 h2, ?_, ?_⟩ <;>
  · unfold minMaxOK at h1 h2
    rw [← hfl] at h2
    generalize (nonNull l1).any isFloat = fl at h1 h2
    rw [List.all_eq_true] at h1 h2
    cases e1 : specMin (nonNull l1) with
    | none =>
      cases e2 : specMin (nonNull l2) with
      | none => rfl
      | some m2 =>
        have := (specMin_isMin fl _ h2 m2 e2).1
        have hm := hp.mem_iff.2 this
        cases hl : nonNull l1 with
        | nil => simp [hl] at hm
        | cons a as => rw [hl, specMin] at e1; cases h3 : specMin as <;> simp [h3] at e1 <;> split at e1 <;> simp at e1
    | some m1 =>
      cases e2 : specMin (nonNull l2) with
      | none =>
        have := (specMin_isMin fl _ h1 m1 e1).1
        have hm := hp.mem_iff.1 this
        cases hl : nonNull l2 with
        | nil => simp [hl] at hm
        | cons a as => rw [hl, specMin] at e2; cases h3 : specMin as <;> simp [h3] at e2 <;> split at e2 <;> simp at e2
      | some m2 =>
        obtain ⟨hm1, hmin1⟩ := specMin_isMin fl _ h1 m1 e1
        obtain ⟨hm2, hmin2⟩ := specMin_isMin fl _ h2 m2 e2
        simp only [Option.getD_some]
        first
          | exact hmin2 m1 (hp.mem_iff.1 hm1)
          | exact hmin1 m2 (hp.mem_iff.2 hm2)

/-- integers and plain text (no floats): the earlier domain is an instance -/
def isPlain : Val → Bool
  | .int _ => true
  | .str s => (parseF64 s.toList).isNone
  | _ => false

theorem minMaxOK_of_plain (vs : List Val) (h : (nonNull vs).all isPlain = true) : minMaxOK vs = true := by
  unfold minMaxOK
  have hnf : (nonNull vs).any isFloat = false := by
    rw [List.any_eq_false]
    intro x hx
    have := List.all_eq_true.1 h x hx
    cases x <;> simp_all [isPlain, isFloat]
  rw [hnf, List.all_eq_true]
  intro x hx
  have := List.all_eq_true.1 h x hx
  cases x <;> simp_all [isPlain, okVal]

/-- integers, non-NaN floats and plain text: the domain in closed form -/
def isSmallNum : Val → Bool
  | .int _ => true
  | .float b => !isNaN b
  | .str s => (parseF64 s.toList).isNone
  | .null => false

theorem minMaxOK_of_small (vs : List Val) (h : (nonNull vs).all isSmallNum = true) : minMaxOK vs = true := by
  unfold minMaxOK
  rw [List.all_eq_true] at h ⊢
  intro x hx
  have hs := h x hx
  cases x with
  | null => simp [isSmallNum] at hs
  | int i => simp [okVal]
  | str s => simpa [okVal, isSmallNum] using hs
  | float b =>
    have : (nonNull vs).any isFloat = true := List.any_eq_true.2 ⟨_, hx, rfl⟩
    simpa [okVal, isSmallNum, this] using hs

/-- W: the full statements are false. Text that reads as a number is compared as a number ("10" vs
"9"). -/
theorem min_not_spec : ¬ ∀ vs : List Val, specAgg .min false vs = .ok (colAgg .min false vs) ∨ specAgg .min false vs = .any := by
  intro h
  exact absurd (h [.str "10", .str "9"]) (by decide +kernel)

theorem max_not_spec : ¬ ∀ vs : List Val, specAgg .max false vs = .ok (colAgg .max false vs) ∨ specAgg .max false vs = .any := by
  intro h
  exact absurd (h [.str "10", .str "9"]) (by decide +kernel)

theorem min_numeric_strings_witness :
    colAgg .min false [.str "10", .str "9"] = .str "9" ∧ specAgg .min false [.str "10", .str "9"] = .ok (.str "10") := by
  refine ⟨by decide +kernel, by decide +kernel⟩

/-- N: an integer that is not a double against a float: 2^53 + 1 and the float 2^53 compare by
their exact values, in both arrival orders. -/
theorem min_big_int_float_nonvacuous :
    colAgg .min false [.int (2 ^ 53 + 1), .float 0x4340000000000000] = .float 0x4340000000000000 ∧
    specAgg .min false [.int (2 ^ 53 + 1), .float 0x4340000000000000] = .ok (.float 0x4340000000000000) ∧
    colAgg .max false [.float 0x4340000000000000, .int (2 ^ 53 + 1)] = .int (2 ^ 53 + 1) ∧
    minMaxOK [.int (2 ^ 53 + 1), .float 0x4340000000000000] = true := by
  refine ⟨by decide +kernel, by decide +kernel, by decide +kernel, by decide +kernel⟩

/-- N: 10, 2.5, 7 with a null, in two arrival orders: the hypothesis holds, min is 2.5 and max is 10
both times; 5 and 5.0 tie — the first to arrive is returned, and the specification does not choose. -/
theorem min_max_nonvacuous :
    minMaxOK [.int 10, .null, .float 0x4004000000000000, .int 7] = true ∧
    colAgg .min false [.int 10, .null, .float 0x4004000000000000, .int 7] = .float 0x4004000000000000 ∧
    colAgg .max false [.int 10, .null, .float 0x4004000000000000, .int 7] = .int 10 ∧
    colAgg .min false [.float 0x4004000000000000, .int 7, .int 10] = .float 0x4004000000000000 ∧
    colAgg .max false [.float 0x4004000000000000, .int 7, .int 10] = .int 10 ∧
    colAgg .min false [.int 5, .float 0x4014000000000000] = .int 5 ∧
    colAgg .min false [.float 0x4014000000000000, .int 5] = .float 0x4014000000000000 ∧
    specAgg .min false [.float 0x4014000000000000, .int 5] = .any ∧
    colAgg .max false [.str "a", .int 1, .float 0x4004000000000000] = .str "a" := by
  refine ⟨by decide +kernel, by decide +kernel, by decide +kernel, by decide +kernel, by decide +kernel,
    by decide +kernel, by decide +kernel, by decide +kernel, by decide +kernel⟩


/-- the specification's `max` is a maximum: in the list, nothing above it -/
theorem specMax_isMax (fl : Bool) (l : List Val) (hl : ∀ x ∈ l, okVal fl x = true) (m : Val) (hm : specMax l = some m) :
    m ∈ l ∧ ∀ x ∈ l, specLt m x = false := by
  induction l generalizing m with
  | nil => simp [specMax] at hm
  | cons v vs ih =>
    have hv := hl v (by simp)
    have hvs : ∀ x ∈ vs, okVal fl x = true := fun x hx => hl x (List.mem_cons_of_mem _ hx)
    rw [specMax] at hm
    cases hs : specMax vs with
    | none =>
      rw [hs] at hm
      cases vs with
      | nil => simp at hm; subst hm; simp [specLt_irrefl]
      | cons w ws => rw [specMax] at hs; cases h2 : specMax ws <;> simp [h2] at hs <;> split at hs <;> simp at hs
    | some m' =>
      rw [hs] at hm
      obtain ⟨hmem, hmax⟩ := ih hvs m' hs
      have hm' := hvs m' hmem
      by_cases hlt : specLt v m' = true
      · simp [hlt] at hm; subst hm
        refine ⟨List.mem_cons_of_mem _ hmem, ?_⟩
        intro x hx
        rcases List.mem_cons.1 hx with rfl | hx
        · cases h : specLt m' x with
          | false => rfl
          | true =>
            have := specLt_trans fl x m' x hv hm' hv hlt h
            simp [specLt_irrefl] at this
        · exact hmax x hx
      · simp [hlt] at hm; subst hm
        refine ⟨by simp, ?_⟩
        intro x hx
        rcases List.mem_cons.1 hx with rfl | hx
        · exact specLt_irrefl _
        · cases h : specLt v x with
          | false => rfl
          | true =>
            rcases specLt_ntrans fl v m' x hv hm' (hvs x hx) h with h1 | h1
            · exact absurd h1 hlt
            · have := hmax x hx; simp_all

/-- F (order independence): … and so do the coded `max` of two arrangements of the same values. -/
theorem max_order_independent (l1 l2 : List Val) (hperm : l1.Perm l2) (h1 : minMaxOK l1 = true) :
    ∃ m1 m2, colAgg .max false l1 = ofVal m1 ∧ colAgg .max false l2 = ofVal m2 ∧
      specLt m1 m2 = false ∧ specLt m2 m1 = false := by
  have hp : (nonNull l1).Perm (nonNull l2) := hperm.filter _
  have hfl : (nonNull l1).any isFloat = (nonNull l2).any isFloat := by
    rw [Bool.eq_iff_iff]; simp only [List.any_eq_true]
    exact ⟨fun ⟨x, hx, h⟩ => ⟨x, hp.mem_iff.1 hx, h⟩, fun ⟨x, hx, h⟩ => ⟨x, hp.mem_iff.2 hx, h⟩⟩
  have h2 : minMaxOK l2 = true := by
    unfold minMaxOK at h1 ⊢
    rw [← hfl, List.all_eq_true] at *
    exact fun x hx => h1 x (hp.mem_iff.2 hx)
  refine ⟨(specMax (nonNull l1)).getD .null, (specMax (nonNull l2)).getD .null,
    max_coded_partial l1 h1, max_coded_partial l2 h2, ?_, ?_⟩ <;>
  · unfold minMaxOK at h1 h2
    rw [← hfl] at h2
    generalize (nonNull l1).any isFloat = fl at h1 h2
    rw [List.all_eq_true] at h1 h2
    cases e1 : specMax (nonNull l1) with
    | none =>
      cases e2 : specMax (nonNull l2) with
      | none => rfl
      | some m2 =>
        have := (specMax_isMax fl _ h2 m2 e2).1
        have hm := hp.mem_iff.2 this
        cases hl : nonNull l1 with
        | nil => simp [hl] at hm
        | cons a as => rw [hl, specMax] at e1; cases h3 : specMax as <;> simp [h3] at e1 <;> split at e1 <;> simp at e1
    | some m1 =>
      cases e2 : specMax (nonNull l2) with
      | none =>
        have := (specMax_isMax fl _ h1 m1 e1).1
        have hm := hp.mem_iff.1 this
        cases hl : nonNull l2 with
        | nil => simp [hl] at hm
        | cons a as => rw [hl, specMax] at e2; cases h3 : specMax as <;> simp [h3] at e2 <;> split at e2 <;> simp at e2
      | some m2 =>
        obtain ⟨hm1, hmax1⟩ := specMax_isMax fl _ h1 m1 e1
        obtain ⟨hm2, hmax2⟩ := specMax_isMax fl _ h2 m2 e2
        simp only [Option.getD_some]
        first
          | exact hmax1 m2 (hp.mem_iff.2 hm2)
          | exact hmax2 m1 (hp.mem_iff.1 hm1)

/-! ### floats among the inputs of sum / avg / count / collect -/

theorem foldl_update_sumFloat (f : Nat) (l : List Val) :
    ∃ f', l.foldl St.update (.sumFloat f) = .sumFloat f' := by
  induction l generalizing f with
  | nil => exact ⟨f, rfl⟩
  | cons v vs ih => simp only [List.foldl_cons, St.update]; exact ih _

/-- once a float has arrived the sum is a float for good: the integers before it are added exactly,
converted once, and everything after goes through the float accumulator -/
theorem sum_with_float_is_float (pre post : List Val) (x : Nat) (hpre : pre.all isInt = true) :
    ∃ f, colAgg .sum false (pre ++ .float x :: post) =
      .float f ∧ ∃ g, (nonNull post).foldl St.update (.sumFloat (fadd (ofInt (intSum pre)) x)) = .sumFloat g ∧ f = g := by
  unfold colAgg
  rw [foldl_feed_nonNull _ _ (by simp)]
  simp only [St.init]
  have hpre' : nonNull pre = pre := by
    apply List.filter_eq_self.2
    intro v hv
    have := List.all_eq_true.1 hpre v hv
    cases v <;> simp_all [isInt]
  have hnn : nonNull (pre ++ .float x :: post) = pre ++ .float x :: nonNull post := by
    unfold nonNull at hpre' ⊢
    rw [List.filter_append, hpre']
    simp [List.filter_cons]
  rw [hnn, List.foldl_append, foldl_update_sumInt 0 pre hpre]
  simp only [List.foldl_cons, St.update, sumIntStep, Int.zero_add]
  obtain ⟨f, hf⟩ := foldl_update_sumFloat (fadd (ofInt (intSum pre)) x) (nonNull post)
  exact ⟨f, by rw [hf]; rfl, f, hf, rfl⟩

/-- W: with a float among the inputs the sum depends on the arrival order: the integers seen before
the first float are added exactly, everything after it in floating point, one rounding per step
(2^53 as a float, then 1, then 1 stays 2^53; 1, 1, then the float gives 2^53 + 2 — the
specification's exact sum, rounded once). -/
theorem sum_float_order_witness :
    colAgg .sum false [.float 0x4340000000000000, .int 1, .int 1] = .float 0x4340000000000000 ∧
    colAgg .sum false [.int 1, .int 1, .float 0x4340000000000000] = .float 0x4340000000000001 ∧
    specAgg .sum false [.float 0x4340000000000000, .int 1, .int 1] = .ok (.float 0x4340000000000001) := by
  refine ⟨by decide +kernel, by decide +kernel, by decide +kernel⟩

/-- N: a column with 5, 5.0, 0.0, -0.0, 2.5 and a null: values that are numerically equal but differ
in kind or sign of zero are different values for DISTINCT (as coded and as specified); sum and avg
are exact here. -/
theorem float_column_nonvacuous :
    let vs : List Val := [.int 5, .float 0x4014000000000000, .null, .float 0, .float 0x8000000000000000, .float 0x4004000000000000]
    colAgg .countNonNull false vs = .int 5 ∧ colAgg .countNonNull true vs = .int 5 ∧
    colAgg .collect true (vs ++ [.float 0x4014000000000000]) = .list [.int 5, .float 0x4014000000000000, .float 0, .float 0x8000000000000000, .float 0x4004000000000000] ∧
    colAgg .sum false vs = .float 0x4029000000000000 ∧ specAgg .sum false vs = .ok (.float 0x4029000000000000) ∧
    colAgg .avg false vs = .float 0x4004000000000000 ∧ specAgg .avg false vs = .ok (.float 0x4004000000000000) := by
  refine ⟨by decide, by decide, by decide, by decide +kernel, by decide +kernel, by decide +kernel, by decide +kernel⟩

end MinMax

/-! ## 4. the query level -/

section QueryLevel
variable {ft : FloatTab}

theorem keyOf_range_append (ks rest : List Val) :
    keyOf (List.range ks.length) (ks ++ rest) = ks := by
  unfold keyOf
  apply List.ext_getElem
  · simp
  · intro i h1 h2
    simp only [List.length_map, List.length_range] at h1
    simp [List.getElem?_append_left h1, List.getElem?_eq_getElem h1]

theorem keyVals_length (q : AggQ) (b : Binding) : (keyVals ft q b).length = (keyItems q.items).length := by
  simp [keyVals]

theorem keyOf_opRow (q : AggQ) (b : Binding) :
    keyOf (List.range (keyItems q.items).length) (opRow ft q b) = keyVals ft q b := by
  unfold opRow
  rw [← keyVals_length q b]
  exact keyOf_range_append _ _

/-- the bindings that pass WHERE and carry the key `k` -/
def groupOf (ft : FloatTab) (q : AggQ) (bs : List Binding) (k : List Val) : List Binding :=
  (bs.filter (passes q.preds)).filter (fun b => keyVals ft q b == k)

/-- F (2) at the query level: for a query with group keys, the rows the aggregate operator returns
are: for every distinct key tuple of the bindings that pass the predicate — in first-seen order —
the key followed by the simple aggregate over the bindings that carry this key. -/
theorem aggRows_grouped (q : AggQ) (bs : List Binding) (hk : (keyItems q.items).length ≠ 0) :
    aggRows ft q bs =
      (dedupKeys ((bs.filter (passes q.preds)).map (keyVals ft q))).map (fun k =>
        k.map ofVal ++ simpleAgg (physAggs q) [(groupOf ft q bs k).map (opRow ft q)]) := by
  unfold aggRows groupOf
  simp only [hk, if_false]
  rw [hashAgg_eq_perGroup]
  have hf : (keyOf (List.range (keyItems q.items).length) ∘ opRow ft q) = keyVals ft q := funext (keyOf_opRow q)
  simp only [List.flatten_cons, List.flatten_nil, List.append_nil, List.map_map, hf]
  apply List.map_congr_left
  intro k _
  congr 3
  rw [List.filter_map]
  congr 1
  apply List.filter_congr
  intro b _
  simp [Function.comp, keyOf_opRow]

/-- … and without keys it is the simple aggregate over all of them: one row, also for no binding. -/
theorem aggRows_global (q : AggQ) (bs : List Binding) (hk : (keyItems q.items).length = 0) :
    aggRows ft q bs = [simpleAgg (physAggs q) [(bs.filter (passes q.preds)).map (opRow ft q)]] := by
  unfold aggRows
  simp [hk]

/-! ### several aggregates at once = each aggregate on its own column -/

theorem foldl_feedAll_nil (sts : List St) (rows : List Row) (h : rows ≠ []) : rows.foldl (feedAll []) sts = [] := by
  induction rows generalizing sts with
  | nil => exact absurd rfl h
  | cons r rs ih =>
    cases rs with
    | nil => rfl
    | cons r' rs' => rw [List.foldl_cons]; exact ih _ (by simp)

theorem foldl_feedAll_cons (a : AggExpr) (as : List AggExpr) (st : St) (sts : List St) (rows : List Row) :
    rows.foldl (feedAll (a :: as)) (st :: sts) = rows.foldl (feed a) st :: rows.foldl (feedAll as) sts := by
  induction rows generalizing st sts with
  | nil => rfl
  | cons r rs ih => simp only [List.foldl_cons, feedAll, ih]

theorem foldl_feedAll_init (aggs : List AggExpr) (rows : List Row) :
    rows.foldl (feedAll aggs) (initAll aggs) = aggs.map (fun a => rows.foldl (feed a) (St.init a.fn a.distinct)) := by
  induction aggs with
  | nil =>
    cases rows with
    | nil => rfl
    | cons r rs => exact foldl_feedAll_nil _ _ (by simp)
  | cons a as ih =>
    have : initAll (a :: as) = St.init a.fn a.distinct :: initAll as := rfl
    rw [this, foldl_feedAll_cons, ih]
    rfl

/-- an aggregate reads only its own column -/
theorem foldl_feed_column (fn : AggFn) (c : Nat) (d : Bool) (st : St) (rows : List Row) :
    rows.foldl (feed ⟨fn, some c, d⟩) st =
      ((rows.map (fun r => r.getD c .null)).map (fun v => [v])).foldl (feed ⟨fn, some 0, d⟩) st := by
  induction rows generalizing st with
  | nil => rfl
  | cons r rs ih =>
    simp only [List.map_cons, List.foldl_cons]
    have hstep : feed ⟨fn, some c, d⟩ st r = feed ⟨fn, some 0, d⟩ st [r.getD c .null] := by
      unfold feed
      simp only [Option.bind, List.getD_eq_getElem?_getD, List.getElem?_cons_zero]
      cases hrc : r[c]? with
      | none => simp
      | some v => simp
    rw [hstep, ih]

/-- F: `SimpleAggregateOperator` with several aggregates returns, for each of them, the aggregate
of its own column. -/
theorem simpleAgg_columns (aggs : List AggExpr) (rows : List Row) :
    simpleAgg aggs [rows] = aggs.map (fun a => (rows.foldl (feed a) (St.init a.fn a.distinct)).finalize) := by
  unfold simpleAgg
  rw [runChunks_flatten]
  simp [foldl_feedAll_init, List.map_map, Function.comp]

/-- the coded value of one aggregate item over a group of bindings -/
def codedCell (ft : FloatTab) (grp : List Binding) : Item → AVal
  | .agg fn d s => colAgg (specFn fn) d (grp.map (fun b => srcVal ft b s))
  | .key _ _ => .null

/-- the specified value of one aggregate item over a group of bindings -/
def specCellOf (ft : FloatTab) (grp : List Binding) : Item → SRes
  | .agg fn d s => specAgg (specFn fn) d (grp.map (fun b => srcVal ft b s))
  | .key _ _ => .ok .null

theorem opRow_agg_column (q : AggQ) (b : Binding) (j : Nat) (it : Item) (h : (aggItems q.items)[j]? = some it) :
    (opRow ft q b).getD ((keyItems q.items).length + j) .null = srcVal ft b (itemSrc it) := by
  unfold opRow
  rw [List.getD_eq_getElem?_getD, List.getElem?_append_right (by rw [keyVals_length]; omega), keyVals_length]
  simp [aggVals, h]

/-- F: the aggregate part of the operator's row for a group = the coded cell of every aggregate
item, in the order of the items. -/
theorem simpleAgg_opRows (q : AggQ) (grp : List Binding) :
    simpleAgg (physAggs q) [grp.map (opRow ft q)] = (aggItems q.items).map (codedCell ft grp) := by
  rw [simpleAgg_columns]
  unfold physAggs
  rw [List.map_map]
  have hfst := List.zipIdx_map_fst 0 (aggItems q.items)
  conv => rhs; rw [← hfst, List.map_map]
  apply List.map_congr_left
  intro ⟨it, j⟩ hmem
  have hget : (aggItems q.items)[j]? = some it := List.mem_zipIdx_iff_getElem?.1 hmem
  have hnk : it.isKey = false := by
    have := List.mem_of_getElem? hget
    simp only [aggItems, List.mem_filter, Bool.not_eq_true'] at this
    exact this.2
  cases it with
  | key v k => simp [Item.isKey] at hnk
  | agg fn d s =>
    simp only [Function.comp, physAgg, codedCell, colAgg]
    rw [foldl_feed_column]
    congr 2
    simp only [List.map_map]
    apply List.map_congr_left
    intro b _
    simpa [itemSrc] using opRow_agg_column q b j _ hget

/-! ### the specification's row for a key-first RETURN list -/

theorem specCells_aggs (grp : List Binding) (ks : List Val) (A : List Item) (hA : ∀ x ∈ A, x.isKey = false) :
    specCells ft grp ks A = A.map (specCellOf ft grp) := by
  induction A with
  | nil => rfl
  | cons it rest ih =>
    cases it with
    | key v k => have := hA (.key v k) (by simp); simp [Item.isKey] at this
    | agg fn d s =>
      simp only [specCells, List.map_cons, specCellOf]
      rw [ih (fun x hx => hA x (List.mem_cons_of_mem _ hx))]

theorem specCells_keys (grp : List Binding) (K A : List Item) (k : List Val)
    (hK : ∀ x ∈ K, x.isKey = true) (hA : ∀ x ∈ A, x.isKey = false) (hlen : k.length = K.length) :
    specCells ft grp k (K ++ A) = k.map (fun v => .ok (ofVal v)) ++ A.map (specCellOf ft grp) := by
  induction K generalizing k with
  | nil =>
    have : k = [] := List.eq_nil_of_length_eq_zero (by simpa using hlen)
    subst this
    simpa using specCells_aggs grp [] A hA
  | cons it rest ih =>
    cases k with
    | nil => simp at hlen
    | cons v vs =>
      cases it with
      | agg fn d s => have := hK (.agg fn d s) (by simp); simp [Item.isKey] at this
      | key a b =>
        simp only [List.cons_append, specCells, List.headD_cons, List.tail_cons, List.map_cons]
        rw [ih vs (fun x hx => hK x (List.mem_cons_of_mem _ hx)) (by simpa using hlen)]

theorem keyItems_isKey (items : List Item) : ∀ x ∈ keyItems items, x.isKey = true := by
  intro x hx
  simp only [keyItems, List.mem_filter] at hx
  exact hx.2

theorem aggItems_notKey (items : List Item) : ∀ x ∈ aggItems items, x.isKey = false := by
  intro x hx
  simp only [aggItems, List.mem_filter, Bool.not_eq_true'] at hx
  exact hx.2

/-- RETURN lists its keys first (the layout the operator produces anyway) -/
def KeysFirst (q : AggQ) : Prop := q.items = keyItems q.items ++ aggItems q.items

instance (q : AggQ) : Decidable (KeysFirst q) := by unfold KeysFirst; infer_instance

theorem outPos_keysFirst (K A : List Item) (hK : ∀ x ∈ K, x.isKey = true) (hA : ∀ x ∈ A, x.isKey = false)
    (i : Nat) (hi : i < (K ++ A).length) : outPos (K ++ A) i = i := by
  unfold outPos
  have hkf : keyItems (K ++ A) = K := by
    simp only [keyItems, List.filter_append]
    rw [List.filter_eq_self.2 hK, List.filter_eq_nil_iff.2 (fun x hx => by simp [hA x hx])]
    simp
  by_cases hlt : i < K.length
  · have hg : (K ++ A)[i]? = some K[i] := by rw [List.getElem?_append_left hlt]; simp
    have hik : K[i].isKey = true := hK _ (List.getElem_mem _)
    rw [hg]
    simp only [hik, if_true]
    rw [List.take_append_of_le_length (by omega)]
    rw [List.filter_eq_self.2 (fun x hx => hK x (List.mem_of_mem_take hx))]
    simp; omega
  · have hlen : i - K.length < A.length := by simp at hi; omega
    have hg : (K ++ A)[i]? = some A[i - K.length] := by
      rw [List.getElem?_append_right (by omega)]; simp [hlen]
    have hik : A[i - K.length].isKey = false := hA _ (List.getElem_mem _)
    rw [hg]
    simp only [hik, Bool.false_eq_true, if_false, hkf]
    rw [List.take_append, List.filter_append]
    have h1 : (K.take i).filter (fun x => !x.isKey) = [] :=
      List.filter_eq_nil_iff.2 (fun x hx => by simp [hK x (List.mem_of_mem_take hx)])
    have h2 : (A.take (i - K.length)).filter (fun x => !x.isKey) = A.take (i - K.length) :=
      List.filter_eq_self.2 (fun x hx => by simp [hA x (List.mem_of_mem_take hx)])
    rw [h1, h2]
    simp; omega

/-! ### as coded = as specified, on the same bindings -/

/-- the key tuples of the result: one empty tuple when RETURN has no key -/
def resultKeys (ft : FloatTab) (q : AggQ) (bs : List Binding) : List (List Val) :=
  if (keyItems q.items).isEmpty then [[]] else dedupKeys ((bs.filter (passes q.preds)).map (keyVals ft q))

theorem groupOf_noKeys (q : AggQ) (bs : List Binding) (hk : (keyItems q.items).length = 0) :
    groupOf ft q bs [] = bs.filter (passes q.preds) := by
  unfold groupOf
  apply List.filter_eq_self.2
  intro b _
  have : keyVals ft q b = [] := List.eq_nil_of_length_eq_zero (by rw [keyVals_length]; exact hk)
  simp [this]

/-- F: the rows of the aggregate operator, cell by cell: for every result key, the key values
followed by the coded cell of every aggregate item. -/
theorem aggRows_cells (q : AggQ) (bs : List Binding) :
    aggRows ft q bs = (resultKeys ft q bs).map (fun k =>
      k.map ofVal ++ (aggItems q.items).map (codedCell ft (groupOf ft q bs k))) := by
  unfold resultKeys
  by_cases hk : (keyItems q.items).length = 0
  · have he : (keyItems q.items).isEmpty = true := by simpa [List.isEmpty_iff] using List.eq_nil_of_length_eq_zero hk
    rw [aggRows_global q bs hk, he]
    simp [simpleAgg_opRows, groupOf_noKeys q bs hk]
  · have he : (keyItems q.items).isEmpty = false := by
      cases h : keyItems q.items with
      | nil => simp [h] at hk
      | cons _ _ => rfl
    rw [aggRows_grouped q bs hk, he]
    simp [simpleAgg_opRows]

theorem resultKeys_length (q : AggQ) (bs : List Binding) (k : List Val) (hk : k ∈ resultKeys ft q bs) :
    k.length = (keyItems q.items).length := by
  unfold resultKeys at hk
  by_cases he : (keyItems q.items).isEmpty = true
  · simp only [he, if_true, List.mem_singleton] at hk
    subst hk
    simp [List.isEmpty_iff.1 he]
  · simp only [he, Bool.false_eq_true, if_false] at hk
    have := (mem_dedupFirst _ _).1 hk
    obtain ⟨b, _, rfl⟩ := List.mem_map.1 this
    exact keyVals_length q b

theorem map_sresVal_ok (r : List AVal) : (r.map SRes.ok).map sresVal = r := by
  induction r with
  | nil => rfl
  | cons v vs ih => simp [sresVal, ih]

theorem allOk_noErr (rows : List (List AVal)) :
    ((rows.map (fun r => r.map SRes.ok)).flatten.filterMap sresErr).head? = none ∧
    (rows.map (fun r => r.map SRes.ok)).flatten.any sresAny = false ∧
    (rows.map (fun r => r.map SRes.ok)).map (fun r => r.map sresVal) = rows := by
  refine ⟨?_, ?_, ?_⟩
  · have : (rows.map (fun r => r.map SRes.ok)).flatten.filterMap sresErr = [] := by
      rw [List.filterMap_eq_nil_iff]
      intro x hx
      simp only [List.mem_flatten, List.mem_map] at hx
      obtain ⟨l, ⟨r, _, rfl⟩, hx⟩ := hx
      obtain ⟨v, _, rfl⟩ := List.mem_map.1 hx
      rfl
    rw [this]; rfl
  · rw [List.any_eq_false]
    intro x hx
    simp only [List.mem_flatten, List.mem_map] at hx
    obtain ⟨l, ⟨r, _, rfl⟩, hx⟩ := hx
    obtain ⟨v, _, rfl⟩ := List.mem_map.1 hx
    simp [sresAny]
  · rw [List.map_map]
    conv => rhs; rw [← List.map_id rows]
    apply List.map_congr_left
    intro r _
    exact map_sresVal_ok r

/-- F (2)+(3), end to end on any list of bindings: for a query whose RETURN lists the keys first,
if on every group every aggregate cell as coded is the one
specified, the whole result as coded — grouping, row layout, ORDER BY, SKIP, LIMIT — is the
specified result. -/
theorem finishAgg_eq_finishSpec (q : AggQ) (bs : List Binding)
    (hkf : KeysFirst q)
    (hord : ∀ p ∈ q.orderBy, p.1 < q.items.length)
    (hcells : ∀ k, ∀ it ∈ aggItems q.items,
      specCellOf ft (groupOf ft q bs k) it = .ok (codedCell ft (groupOf ft q bs k) it)) :
    finishAgg ft q bs = finishSpec ft q bs := by
  have hcellsEq : (resultKeys ft q bs).map (specRow ft q (bs.filter (passes q.preds))) =
      (aggRows ft q bs).map (fun r => r.map SRes.ok) := by
    rw [aggRows_cells, List.map_map]
    apply List.map_congr_left
    intro k hk
    have hlen := resultKeys_length q bs k hk
    simp only [Function.comp, specRow]
    have hgrp : (bs.filter (passes q.preds)).filter (fun b => keyVals ft q b == k) = groupOf ft q bs k := rfl
    rw [hgrp]
    have h1 : specCells ft (groupOf ft q bs k) k q.items =
        specCells ft (groupOf ft q bs k) k (keyItems q.items ++ aggItems q.items) := congrArg _ hkf
    show specCells ft (groupOf ft q bs k) k q.items = _
    rw [h1, specCells_keys _ _ _ _ (keyItems_isKey _) (aggItems_notKey _) hlen, List.map_append, List.map_map, List.map_map]
    congr 1
    apply List.map_congr_left
    intro it hit
    exact hcells k it hit
  have hsort : q.orderBy.map (fun (p : Nat × Bool) => (outPos q.items p.1, p.2)) = q.orderBy := by
    have hop : ∀ i, i < q.items.length → outPos q.items i = i := by
      intro i hi
      have h2 : outPos q.items i = outPos (keyItems q.items ++ aggItems q.items) i := congrArg (fun l => outPos l i) hkf
      rw [h2]
      apply outPos_keysFirst _ _ (keyItems_isKey _) (aggItems_notKey _)
      have h3 : q.items.length = (keyItems q.items ++ aggItems q.items).length := congrArg List.length hkf
      omega
    conv => rhs; rw [← List.map_id q.orderBy]
    apply List.map_congr_left
    intro p hp
    simp [hop p.1 (hord p hp)]
  obtain ⟨e1, e2, e3⟩ := allOk_noErr (aggRows ft q bs)
  unfold finishAgg finishSpec
  have hkeys : (if (keyItems q.items).isEmpty = true then [[]] else dedupKeys ((bs.filter (passes q.preds)).map (keyVals ft q))) =
      resultKeys ft q bs := rfl
  simp only [hkeys, hcellsEq, e1, e2, e3, Bool.false_eq_true, if_false]
  have hsort' : q.orderBy.map (fun x => match x with | (i, asc) => (outPos q.items i, asc)) = q.orderBy := hsort
  rw [hsort']

/-- the aggregates whose coded value is the specified one on every input -/
def simpleItem : Item → Bool
  | .key _ _ => true
  | .agg .countStar false _ => true
  | .agg .count _ _ => true
  | .agg .collect _ _ => true
  | _ => false

/-- F, the corollary without residual hypothesis: for every query whose RETURN lists group keys and
then `count(*)`, `count(x)`, `count(DISTINCT x)`, `collect(x)`, `collect(DISTINCT x)` aggregates (over
properties or variables), on every list of bindings the result as coded is the result specified. -/
theorem finishAgg_eq_finishSpec_counts (q : AggQ) (bs : List Binding)
    (hs : q.items.all simpleItem = true) (hkf : KeysFirst q)
    (hord : ∀ p ∈ q.orderBy, p.1 < q.items.length) :
    finishAgg ft q bs = finishSpec ft q bs := by
  apply finishAgg_eq_finishSpec q bs hkf hord
  intro k it hit
  have hmem : it ∈ q.items := by
    simp only [aggItems, List.mem_filter] at hit
    exact hit.1
  have hsi := List.all_eq_true.1 hs it hmem
  cases it with
  | key v kk => rfl
  | agg fn d s =>
    cases fn <;> cases d <;> simp [simpleItem] at hsi
    · exact count_star_eq_spec _
    · exact count_eq_spec _
    · exact count_distinct_eq_spec _
    · exact collect_eq_spec _
    · exact collect_distinct_eq_spec _

/-! ### from the pipeline's bindings to the enumeration's: counts -/

section DedupPerm
variable {α : Type} [BEq α] [LawfulBEq α]

theorem nodup_dedupFirst (l : List α) : (dedupFirst l).Nodup := by
  induction l with
  | nil => simp [dedupFirst]
  | cons v vs ih =>
    simp only [dedupFirst, List.nodup_cons, List.mem_filter, bne_self_eq_false, Bool.false_eq_true, and_false,
      not_false_eq_true, true_and]
    exact ih.sublist List.filter_sublist

/-- removing duplicates commutes with permuting, up to a permutation -/
theorem dedupFirst_perm (l1 l2 : List α) (h : l1.Perm l2) : (dedupFirst l1).Perm (dedupFirst l2) := by
  rw [List.perm_ext_iff_of_nodup (nodup_dedupFirst l1) (nodup_dedupFirst l2)]
  intro a
  rw [mem_dedupFirst, mem_dedupFirst]
  exact h.mem_iff

end DedupPerm

theorem colAgg_countStar_perm (l1 l2 : List Val) (h : l1.Perm l2) :
    colAgg .count false l1 = colAgg .count false l2 := by
  rw [count_star_coded, count_star_coded, h.length_eq]

theorem colAgg_count_perm (d : Bool) (l1 l2 : List Val) (h : l1.Perm l2) :
    colAgg .countNonNull d l1 = colAgg .countNonNull d l2 := by
  have hf : (nonNull l1).Perm (nonNull l2) := h.filter _
  cases d
  · rw [count_coded, count_coded, hf.length_eq]
  · rw [count_distinct_coded, count_distinct_coded]
    have := (dedupFirst_perm _ _ hf).length_eq
    simp only [dedupVals]
    rw [this]

/-- keys and `count(*)` / `count(x)` / `count(DISTINCT x)` only -/
def countItem : Item → Bool
  | .key _ _ => true
  | .agg .countStar false _ => true
  | .agg .count _ _ => true
  | _ => false

theorem countItem_simple (items : List Item) (h : items.all countItem = true) : items.all simpleItem = true := by
  rw [List.all_eq_true] at h ⊢
  intro it hit
  have := h it hit
  cases it with
  | key v k => rfl
  | agg fn d s => cases fn <;> cases d <;> simp [countItem] at this <;> rfl

theorem aggRows_perm_counts (q : AggQ) (b1 b2 : List Binding) (h : b1.Perm b2) (hc : q.items.all countItem = true) :
    (aggRows ft q b1).Perm (aggRows ft q b2) := by
  rw [aggRows_cells, aggRows_cells]
  have hkept : (b1.filter (passes q.preds)).Perm (b2.filter (passes q.preds)) := h.filter _
  have hkeys : (resultKeys ft q b1).Perm (resultKeys ft q b2) := by
    unfold resultKeys
    split
    · exact List.Perm.refl _
    · exact dedupFirst_perm _ _ (hkept.map _)
  have hF : ∀ k, (aggItems q.items).map (codedCell ft (groupOf ft q b1 k)) = (aggItems q.items).map (codedCell ft (groupOf ft q b2 k)) := by
    intro k
    apply List.map_congr_left
    intro it hit
    have hmem : it ∈ q.items := by
      simp only [aggItems, List.mem_filter] at hit
      exact hit.1
    have hci := List.all_eq_true.1 hc it hmem
    have hg : (groupOf ft q b1 k).Perm (groupOf ft q b2 k) := hkept.filter _
    cases it with
    | key v kk => rfl
    | agg fn d s =>
      cases fn <;> cases d <;> simp [countItem] at hci
      · exact colAgg_countStar_perm _ _ (hg.map _)
      · exact colAgg_count_perm false _ _ (hg.map _)
      · exact colAgg_count_perm true _ _ (hg.map _)
  have : (resultKeys ft q b1).map (fun k => k.map ofVal ++ (aggItems q.items).map (codedCell ft (groupOf ft q b1 k))) =
      (resultKeys ft q b1).map (fun k => k.map ofVal ++ (aggItems q.items).map (codedCell ft (groupOf ft q b2 k))) := by
    apply List.map_congr_left
    intro k _
    rw [hF k]
  rw [this]
  exact hkeys.map _

/-- F, from query to answer: for every graph with unique node ids and every chain pattern, a
`RETURN keys…, count(*) | count(x) | count(DISTINCT x)…` query (keys first, no ORDER BY / SKIP / LIMIT) executed by the scan /
expand / aggregate pipeline returns exactly the rows — each the same number of times — that
grouping and counting the enumeration of all bindings yields. -/
theorem execAgg_perm_evalAgg_counts (g : Graph) (hu : UniqueIds g) (q : AggQ)
    (hc : q.items.all countItem = true) (hkf : KeysFirst q)
    (ho : q.orderBy = []) (hs : q.skip = none) (hl : q.limit = none) :
    ∃ r s, Pipe.execAgg ft g q = .rows r ∧ Spec.evalAgg ft g q = .rows s ∧ r.Perm s := by
  have hperm := c08_pipeline_bindings_perm_enumeration g hu q.core
  have hspec : Spec.evalAgg ft g q = finishAgg ft q (Spec.bindings g q.core) :=
    (finishAgg_eq_finishSpec_counts q _ (countItem_simple _ hc) hkf (by simp [ho])).symm
  refine ⟨aggRows ft q (Pipe.bindings g q.core), aggRows ft q (Spec.bindings g q.core), ?_, ?_, aggRows_perm_counts q _ _ hperm hc⟩
  · simp [Pipe.execAgg, finishAgg, ho, hs, hl, window]
  · rw [hspec]
    simp [finishAgg, ho, hs, hl, window]

/-- N: two groups over a three-node graph, `RETURN a.k0, count(a.k1), collect(a.k1)` — hypotheses
hold, both sides return the same two rows; and a sum query through GQL text = through the enumeration. -/
theorem agg_query_nonvacuous :
    let g : Graph := ⟨[⟨0, [], [(0, .int 1), (1, .int 5)]⟩, ⟨1, [], [(0, .int 1)]⟩, ⟨2, [], [(0, .str "x"), (1, .int 2)]⟩], []⟩
    let q : AggQ := { start := ⟨none⟩, hops := [], preds := [], items := [.key 0 0, .agg .count false (.prop 0 1), .agg .collect false (.prop 0 1)],
                      orderBy := [(1, false)], skip := none, limit := none }
    let q2 : AggQ := { q with items := [.key 0 0, .agg .sum false (.prop 0 1)], orderBy := [] }
    q.items.all simpleItem = true ∧ KeysFirst q ∧
    Pipe.execAgg [] g q = .rows [[.int 1, .int 1, .list [.int 5]], [.str "x", .int 1, .list [.int 2]]] ∧
    Spec.evalAgg [] g q = Pipe.execAgg [] g q ∧
    Pipe.execAgg [] g q2 = .rows [[.int 1, .int 5], [.str "x", .int 2]] ∧ Spec.evalAgg [] g q2 = Pipe.execAgg [] g q2 := by
  refine ⟨by decide, by decide, by decide, by decide, by decide, by decide⟩

end QueryLevel

/-! ## 5. the Gremlin and GraphQL plans against the enumeration -/

/-- F (after the repair of `values()`): a Gremlin traversal `g.V()…out()/in()/both()…has(…)….values(k)`
without dedup / order / range / reducing step returns exactly the existing values of the
enumeration, the same number of times. -/
theorem gremlin_values_perm (g : Graph) (hu : UniqueIds g) (q : GremQ) (k : Nat)
    (hp : q.proj = some k) (hd : q.dedup = .none) (ho : q.order = none) (hs : q.skip = none) (hl : q.limit = none)
    (ha : q.agg = none) :
    ∃ r s, Pipe.execGremlin g q = .rows r ∧ Spec.evalGremlin g q = .rows s ∧ r.Perm s := by
  have hperm := c08_pipeline_bindings_perm_enumeration g hu q.core
  refine ⟨(nonNull (((Pipe.bindings g q.core).filter (passes q.preds)).map (fun b => lastProp b k))).map (fun v => [ofVal v]),
    (nonNull (((Spec.bindings g q.core).filter (passes q.preds)).map (fun b => lastProp b k))).map (fun v => [ofVal v]), ?_, ?_, ?_⟩
  · simp [Pipe.execGremlin, gremSteps, hp, hd, ho, hs, hl, ha, window]
  · simp [Spec.evalGremlin, gremSteps, hp, hd, ho, hs, hl, ha, window]
  · have hp2 : (((Pipe.bindings g q.core).filter (passes q.preds)).map (fun b => lastProp b k)).Perm
        (((Spec.bindings g q.core).filter (passes q.preds)).map (fun b => lastProp b k)) := (hperm.filter _).map _
    exact (hp2.filter _).map _

/-- F: `count()` after the pattern, or after `values(k)`, counts the bindings (the existing values)
of the enumeration. -/
theorem gremlin_count_eq (g : Graph) (hu : UniqueIds g) (q : GremQ)
    (hd : q.dedup = .none) (ho : q.order = none) (hs : q.skip = none) (hl : q.limit = none)
    (ha : q.agg = some .count) :
    Pipe.execGremlin g q = Spec.evalGremlin g q := by
  have hperm := c08_pipeline_bindings_perm_enumeration g hu q.core
  have hkept := hperm.filter (passes q.preds)
  have hlen : (gremSteps q (Pipe.bindings g q.core)).length = (gremSteps q (Spec.bindings g q.core)).length := by
    unfold gremSteps
    simp only [hd, ho, hs, hl, window]
    cases q.proj with
    | none => simpa using hkept.length_eq
    | some k => exact ((hkept.map (fun b => lastProp b k)).filter (· != Val.null)).length_eq
  unfold Pipe.execGremlin Spec.evalGremlin
  simp only [ho, hs, hl, ha, gAggFn]
  rw [simpleAgg_single, count_star_coded]
  simp [hlen]

theorem dedupByLast_ids (bs : List Binding) : (dedupByLast bs).map lastId = dedupVals (bs.map lastId) := by
  induction bs with
  | nil => rfl
  | cons b rest ih =>
    simp only [dedupByLast, List.map_cons, dedupVals, dedupFirst]
    congr 1
    rw [show dedupFirst (List.map lastId rest) = List.map lastId (dedupByLast rest) from ih.symm, List.filter_map]
    rfl

/-- F: `g.V()…out()….dedup()` returns every vertex the pattern reaches exactly once — the distinct
current vertices of the enumeration. -/
theorem gremlin_dedup_perm (g : Graph) (hu : UniqueIds g) (q : GremQ)
    (hp : q.proj = none) (hd : q.dedup = .nodes) (ho : q.order = none) (hs : q.skip = none) (hl : q.limit = none)
    (ha : q.agg = none) :
    ∃ r s, Pipe.execGremlin g q = .rows r ∧ Spec.evalGremlin g q = .rows s ∧ r.Perm s ∧ s.Nodup := by
  have hperm := c08_pipeline_bindings_perm_enumeration g hu q.core
  have hids : (((Pipe.bindings g q.core).filter (passes q.preds)).map lastId).Perm
      (((Spec.bindings g q.core).filter (passes q.preds)).map lastId) := (hperm.filter _).map _
  refine ⟨(dedupVals (((Pipe.bindings g q.core).filter (passes q.preds)).map lastId)).map (fun v => [ofVal v]),
    (dedupVals (((Spec.bindings g q.core).filter (passes q.preds)).map lastId)).map (fun v => [ofVal v]), ?_, ?_, ?_, ?_⟩
  · simp [Pipe.execGremlin, gremSteps, hp, hd, ho, hs, hl, ha, window, dedupByLast_ids]
  · simp [Spec.evalGremlin, gremSteps, hp, hd, ho, hs, hl, ha, window, dedupByLast_ids]
  · exact (dedupFirst_perm _ _ hids).map _
  · have hinj : ∀ a b : Val, a ≠ b → [ofVal a] ≠ [ofVal b] := by
      intro a b hab h
      apply hab
      cases a <;> cases b <;> simp_all [ofVal]
    exact List.Pairwise.map _ hinj (nodup_dedupFirst _)

/-- F: a GraphQL query without `orderBy` / `first` / `skip` returns the rows of the enumeration,
the same number of times. -/
theorem graphql_exec_perm_spec (g : Graph) (hu : UniqueIds g) (q : GqlQ)
    (ho : q.order = none) (hs : q.skip = none) (hf : q.first = none) :
    ∃ r s, Pipe.execGraphql g q = .rows r ∧ Spec.evalGraphql g q = .rows s ∧ r.Perm s := by
  have hperm := c08_pipeline_bindings_perm_enumeration g hu q.core
  refine ⟨((Pipe.bindings g q.core).filter (passes q.preds)).map (projA q.cols),
    ((Spec.bindings g q.core).filter (passes q.preds)).map (projA q.cols), ?_, ?_, (hperm.filter _).map _⟩
  · simp [Pipe.execGraphql, gqlFinish, ho, hs, hf, window]
  · simp [Spec.evalGraphql, gqlFinish, ho, hs, hf, window]

/-- F (after the repair of `orderBy`): as coded and as specified a GraphQL query is the same
function of the bindings — `orderBy`, `skip`, `first` included; the two differ only in how the
bindings are found. -/
theorem graphql_exec_eq_finish (g : Graph) (q : GqlQ) (hw : q.order.isSome ∨ (q.skip = none ∧ q.first = none)) :
    Pipe.execGraphql g q = .rows (gqlFinish q (Pipe.bindings g q.core)) ∧
    Spec.evalGraphql g q = .rows (gqlFinish q (Spec.bindings g q.core)) := by
  refine ⟨rfl, ?_⟩
  unfold Spec.evalGraphql
  rcases hw with h | ⟨h1, h2⟩
  · cases ho : q.order with
    | none => simp [ho] at h
    | some x => simp
  · simp [h1, h2]

/-- N: `{ l0(orderBy: {k9: DESC}) { k9 } }` over two `L0` vertices returns them in descending
order on both sides (the old plan failed). -/
theorem graphql_orderby_nonvacuous :
    let g : Graph := ⟨[⟨0, [0], [(9, .int 0)]⟩, ⟨1, [0], [(9, .int 10)]⟩], []⟩
    let q : GqlQ := { label := 0, hops := [], preds := [], cols := [(0, 9)], order := some (9, false), skip := none, first := none }
    Pipe.execGraphql g q = .rows [[.int 10], [.int 0]] ∧ Spec.evalGraphql g q = .rows [[.int 10], [.int 0]] := by
  refine ⟨by decide, by decide⟩

theorem expandStep_perm_extend (g : Graph) (hu : UniqueIds g) (h : Hop) (a : Node) :
    (Pipe.expandStep g h [a]).Perm (Spec.extend g [h] [a]) := by
  have h1 := pipe_perm_spec_rows g hu [h] [[a]] [[a]] (List.Perm.refl _)
  have h2 := flatMap_extend_eq_specRows g [h] [[a]]
  rw [← h2] at h1
  simpa using h1

/-- F: two sibling selections `{ l { k9 t1 { k9 } t2 { k9 } } }` return, for every root vertex,
every pair of a `t1`-neighbour and a `t2`-neighbour, the same number of times as the enumeration. -/
theorem graphql_siblings_perm (g : Graph) (hu : UniqueIds g) (label t1 t2 : Nat) :
    ∃ r s, Pipe.execStar g label t1 t2 = .rows r ∧ Spec.evalStar g label t1 t2 = .rows s ∧ r.Perm s := by
  refine ⟨_, _, rfl, rfl, ?_⟩
  apply flatMap_perm_pointwise
  intro a _
  have p1 := expandStep_perm_extend g hu ⟨some t1, .out, ⟨none⟩⟩ a
  have p2 := expandStep_perm_extend g hu ⟨some t2, .out, ⟨none⟩⟩ a
  refine (flatMap_perm_pointwise _ _ _ (fun ab _ => p2.map _)).trans ?_
  exact List.Perm.flatMap_right _ p1

theorem graphql_siblings_nonvacuous :
    let ns : List Node := [⟨0, [0], [(9, .int 0)]⟩, ⟨1, [0], [(9, .int 10)]⟩, ⟨2, [0], [(9, .int 20)]⟩]
    Pipe.execStar ⟨ns, [⟨0, 0, 1, 0⟩, ⟨1, 1, 2, 1⟩]⟩ 0 0 1 = .rows [] ∧
    Spec.evalStar ⟨ns, [⟨0, 0, 1, 0⟩, ⟨1, 1, 2, 1⟩]⟩ 0 0 1 = .rows [] ∧
    Pipe.execStar ⟨ns, [⟨0, 0, 1, 0⟩, ⟨1, 0, 2, 1⟩]⟩ 0 0 1 = .rows [[.int 0, .int 10, .int 20]] ∧
    Spec.evalStar ⟨ns, [⟨0, 0, 1, 0⟩, ⟨1, 0, 2, 1⟩]⟩ 0 0 1 = .rows [[.int 0, .int 10, .int 20]] := by
  refine ⟨by decide, by decide, by decide, by decide⟩

theorem gremlin_dedup_nonvacuous :
    let g : Graph := ⟨[⟨0, [], []⟩, ⟨1, [], []⟩], [⟨0, 0, 1, 0⟩, ⟨1, 0, 1, 0⟩]⟩
    let q : GremQ := { start := ⟨none⟩, hops := [⟨none, .out, ⟨none⟩⟩], preds := [], order := none, skip := none,
                       limit := none, proj := none, dedup := .nodes, agg := none }
    Pipe.execGremlin g q = .rows [[.int 1]] ∧ Spec.evalGremlin g q = .rows [[.int 1]] := by
  refine ⟨by decide, by decide⟩

/-- N: `g.V().values('k0').count()` over one vertex with and one without `k0` is 1 on both sides. -/
theorem gremlin_values_nonvacuous :
    let g : Graph := ⟨[⟨0, [], [(0, .int 1)]⟩, ⟨1, [], []⟩], []⟩
    let q : GremQ := { start := ⟨none⟩, hops := [], preds := [], order := none, skip := none,
                       limit := none, proj := some 0, dedup := .none, agg := some .count }
    Pipe.execGremlin g q = .rows [[.int 1]] ∧ Spec.evalGremlin g q = .rows [[.int 1]] := by
  refine ⟨by decide, by decide⟩

/-- W: the operator lays the row out keys first whatever RETURN says (open); `count(*)` counts rows. -/
theorem layout_witness :
    let g : Graph := ⟨[⟨0, [], [(0, .int 1), (1, .int 7)]⟩, ⟨1, [], [(1, .int 7)]⟩], []⟩
    let q : AggQ := { start := ⟨none⟩, hops := [], preds := [], items := [.agg .count false (.prop 0 0), .key 0 1],
                      orderBy := [], skip := none, limit := none }
    let q2 : AggQ := { q with items := [.agg .countStar false (.node 0)] }
    Pipe.execAgg [] g q = .rows [[.int 7, .int 1]] ∧ Spec.evalAgg [] g q = .rows [[.int 1, .int 7]] ∧
    Pipe.execAgg [] g q2 = .rows [[.int 2]] ∧ Spec.evalAgg [] g q2 = .rows [[.int 2]] := by
  refine ⟨by decide, by decide, by decide, by decide⟩

/-- W: `min` over text that reads as a number and a number: "10" is compared with 9 numerically;
in the specification's value order every number comes before every string. -/
theorem min_numeric_text_query_witness :
    let g : Graph := ⟨[⟨0, [], [(0, .str "10")]⟩, ⟨1, [], [(0, .int 11)]⟩], []⟩
    let q : AggQ := { start := ⟨none⟩, hops := [], preds := [], items := [.agg .min false (.prop 0 0)],
                      orderBy := [], skip := none, limit := none }
    Pipe.execAgg [] g q = .rows [[.str "10"]] ∧ Spec.evalAgg [] g q = .rows [[.int 11]] := by
  refine ⟨by decide +kernel, by decide⟩


/-- N: float group keys: `RETURN a.k3, count(*)` over 2.5, 5, 5.0, 0, 0.0 returns the five values as
five groups — each kind and bit pattern its own group — as coded and as specified. -/
theorem float_key_nonvacuous :
    let ns : List Node := [⟨0, [], []⟩, ⟨1, [], [(3, .int 5)]⟩, ⟨2, [], []⟩, ⟨3, [], [(3, .int 0)]⟩, ⟨4, [], []⟩]
    let ft : FloatTab := [(0, 3, 0x4004000000000000), (2, 3, 0x4014000000000000), (4, 3, 0)]
    let q : AggQ := { start := ⟨none⟩, hops := [], preds := [], items := [.key 0 3, .agg .countStar false (.node 0)],
                      orderBy := [], skip := none, limit := none }
    Pipe.execAgg ft ⟨ns, []⟩ q = .rows [[.float 0x4004000000000000, .int 1], [.int 5, .int 1], [.float 0x4014000000000000, .int 1], [.int 0, .int 1], [.float 0, .int 1]] ∧
    Spec.evalAgg ft ⟨ns, []⟩ q = Pipe.execAgg ft ⟨ns, []⟩ q := by
  refine ⟨by decide, by decide⟩

/-! ## 6. regression: the defects repaired in the code, on the old definitions

The functions below are what the model contained before the repairs; the theorems record how each
differed from what the model does now. First round: `ValueVector::set_null` validity mask,
Int64-typed SUM / MIN / MAX columns, Cypher `count(x)` as COUNT(*), DISTINCT on the factorized
aggregate, sibling hops as a chain, whole-row `dedup()`. Second round: `count(*)` rejected by the
parsers, SUM switching to a float at an intermediate overflow and AVG adding in floats, MIN / MAX
depending on the input order, Gremlin `values()` keeping nulls, GraphQL `orderBy` failing. -/

namespace Old

/-- typed vectors recorded only their first null -/
def loseNullsCol (dflt : AVal) : Bool → List AVal → List AVal
  | _, [] => []
  | seen, v :: vs =>
    if v == .null then (if seen then dflt else .null) :: loseNullsCol dflt true vs
    else v :: loseNullsCol dflt seen vs

theorem loseNullsCol_witness :
    loseNullsCol (.int 0) false [.null, .int 3, .null, .null] = [.null, .int 3, .int 0, .int 0] := by decide

/-- SUM / MIN / MAX results were pushed into an Int64 vector -/
def coerceInt64 (v : AVal) : AVal :=
  match v with
  | .int _ => v
  | .null => v
  | _ => .int 0

theorem coerceInt64_witness :
    coerceInt64 (colAgg .min false [.str "b", .str "a"]) = .int 0 ∧ colAgg .min false [.str "b", .str "a"] = .str "a" := by
  refine ⟨by decide, by decide⟩

/-- Cypher's `count(x)` reached the operator as COUNT(*) -/
theorem cypher_count_witness :
    colAgg .count false [.int 1, .null] = .int 2 ∧ colAgg .countNonNull false [.int 1, .null] = .int 1 := by
  refine ⟨by decide, by decide⟩

/-- sibling hops were executed as the chain a -t1-> b -t2-> c -/
def execStarChain (g : Graph) (label t1 t2 : Nat) : Res :=
  let q : Q := { start := ⟨some label⟩, hops := [⟨some t1, .out, ⟨none⟩⟩, ⟨some t2, .out, ⟨none⟩⟩], preds := [],
                 ret := .props [(0, 9), (1, 9), (2, 9)], distinct := false, orderBy := [], skip := none, limit := none }
  .rows ((Pipe.bindings g q).map (projA [(0, 9), (1, 9), (2, 9)]))

theorem execStarChain_witness :
    let ns : List Node := [⟨0, [0], [(9, .int 0)]⟩, ⟨1, [0], [(9, .int 10)]⟩, ⟨2, [0], [(9, .int 20)]⟩]
    execStarChain ⟨ns, [⟨0, 0, 1, 0⟩, ⟨1, 1, 2, 1⟩]⟩ 0 0 1 = .rows [[.int 0, .int 10, .int 20]] ∧
    Pipe.execStar ⟨ns, [⟨0, 0, 1, 0⟩, ⟨1, 1, 2, 1⟩]⟩ 0 0 1 = .rows [] := by
  refine ⟨by decide, by decide⟩

/-- SUM switched to the float accumulator at the first intermediate sum outside `i64` -/
def sumSwitch (s : Int) : List Int → AVal
  | [] => .int s
  | i :: rest => if inI64 (s + i) then sumSwitch (s + i) rest else .float (rest.foldl (fun f j => fadd f (ofInt j)) (fadd (ofInt s) (ofInt i)))

theorem sumSwitch_witness :
    sumSwitch 0 [2 ^ 63 - 1, 1, -5] = .float 0x43e0000000000000 ∧
    colAgg .sum false [.int (2 ^ 63 - 1), .int 1, .int (-5)] = .int (2 ^ 63 - 5) := by
  refine ⟨by decide +kernel, by decide⟩

/-- AVG added every value to a running float -/
def avgRunning (l : List Int) : Nat := fdiv (l.foldl (fun f j => fadd f (ofInt j)) 0) (ofInt l.length)

theorem avgRunning_witness :
    avgRunning [2 ^ 53, 1, 1] = 4838367199671702869 ∧
    colAgg .avg false [.int (2 ^ 53), .int 1, .int 1] = .float 4838367199671702871 := by
  refine ⟨by decide +kernel, by decide +kernel⟩

/-- `compare_values` left a number and non-numeric text incomparable: the first value won -/
def cmpAggOld (a b : Val) : Option Ordering :=
  match a, b with
  | .int x, .int y => some (compare x y)
  | .str x, .str y =>
    (match parseF64 x.toList, parseF64 y.toList with
     | some fx, some fy => F64.partialCmp fx fy
     | _, _ => some (compare x y))
  | .str s, .int i => (parseF64 s.toList).bind (fun fs => F64.partialCmp fs (ofInt i))
  | .int i, .str s => (parseF64 s.toList).bind (fun fs => F64.partialCmp (ofInt i) fs)
  | _, _ => none

theorem cmpAggOld_witness :
    cmpAggOld (.int 1) (.str "a") = none ∧ cmpAggOld (.str "a") (.int 1) = none ∧
    cmpAgg (.int 1) (.str "a") = some .lt ∧ cmpAgg (.str "a") (.int 1) = some .gt := by
  refine ⟨by decide, by decide, by decide, by decide⟩

/-- Gremlin `values(k)` kept a null for a vertex without `k` -/
theorem values_kept_nulls_witness :
    let vals : List Val := [.int 1, .null]
    colAgg .count false vals = .int 2 ∧ colAgg .count false (nonNull vals) = .int 1 := by
  refine ⟨by decide, by decide⟩

/-- `GroupKeyPart` had no float variant: a float key was stored as `Int64(f.to_bits() as i64)` and
came back out as that integer -/
def asI64 (bits : Nat) : Int := if bits < 2 ^ 63 then (bits : Int) else (bits : Int) - 2 ^ 64

def keyPart : Val → Val
  | .float b => .int (asI64 b)
  | v => v

/-- the keys 2.5, 5, 5.0, 0, 0.0 came out as 4612811918334230528, 5, 4617315517961601024, 0, 0: the
float 0.0 (all bits zero) fell into the group of the integer 0, -0.0 became `i64::MIN` -/
theorem float_key_witness :
    [Val.float 0x4004000000000000, .int 5, .float 0x4014000000000000, .int 0, .float 0, .float 0x8000000000000000].map keyPart =
      [.int 4612811918334230528, .int 5, .int 4617315517961601024, .int 0, .int 0, .int (-9223372036854775808)] ∧
    keyOf [0] [Val.float 0] = [.float 0] := by
  refine ⟨by decide, by decide⟩

/-- an integer was converted to a double before it was compared with a float:
`(*a as f64).partial_cmp(b)` -/
def cmpIntFloatCast (i : Int) (f : Nat) : Option Ordering := F64.partialCmp (ofInt i) f

theorem cmpIntFloatCast_witness :
    cmpIntFloatCast (2 ^ 53 + 1) 0x4340000000000000 = some .eq ∧
    cmpIntFloat (2 ^ 53 + 1) 0x4340000000000000 = some .gt := by
  refine ⟨by decide +kernel, by decide +kernel⟩

end Old

end Grafeo.QueryAgg
