import GrafeoModel.Model.QueryAgg
import GrafeoModel.Props.C08Perm

/-!
# C08 — grouping and aggregates

Model: `Model/QueryAgg.lean` (the aggregate operators of `aggregate.rs` as coded, the output typing
of `plan_aggregate`, the Gremlin / GraphQL plans) next to the specification `specAgg` / `Spec.evalAgg`.

1. **Chunking**: the operator consumes its input chunk by chunk; the result depends only on the
   concatenation of the chunks (`simpleAgg_chunking`, `hashAgg_chunking`, `*_rechunk`).
2. **Grouping**: the hash aggregate = for every distinct key, in first-seen order, the simple
   aggregate of the rows with that key (`hashAgg_eq_perGroup`); any enumeration of the keys gives
   the same rows up to order (`hashAgg_perm_perGroup`).
3. **Coded vs specified aggregates**: equal for `count(*)`, `count(x)`, `count(DISTINCT x)`,
   `collect`, `collect(DISTINCT)` on all inputs; for `sum` / `min` / `max` / `avg` under explicit
   decidable hypotheses, with witnesses of the deviation where the hypothesis fails.
-/
namespace Grafeo.QueryAgg
open Grafeo.Query

/-! ## 0. `dedupFirst` -/

section Dedup
variable {α : Type} [BEq α] [LawfulBEq α]

theorem mem_dedupFirst (l : List α) (x : α) : x ∈ dedupFirst l ↔ x ∈ l := by
  induction l with
  | nil => simp [dedupFirst]
  | cons v vs ih =>
    simp only [dedupFirst, List.mem_cons, List.mem_filter, ih, bne_iff_ne, ne_eq]
    constructor
    · rintro (h | ⟨h, _⟩)
      · exact Or.inl h
      · exact Or.inr h
    · intro h
      by_cases hx : x = v
      · exact Or.inl hx
      · rcases h with h | h
        · exact absurd h hx
        · exact Or.inr ⟨h, hx⟩

theorem filter_ne_comm (l : List α) (a b : α) :
    (l.filter (· != a)).filter (· != b) = (l.filter (· != b)).filter (· != a) := by
  simp only [List.filter_filter]
  congr 1
  funext x
  exact Bool.and_comm _ _

theorem dedupFirst_filter_ne (l : List α) (a : α) :
    dedupFirst (l.filter (· != a)) = (dedupFirst l).filter (· != a) := by
  induction l with
  | nil => simp [dedupFirst]
  | cons v vs ih =>
    by_cases h : v = a
    · subst h
      simp only [List.filter_cons, bne_self_eq_false, Bool.false_eq_true, if_false, dedupFirst, ih,
        List.filter_filter, Bool.and_self]
    · have hb : (v != a) = true := by simpa using h
      simp only [List.filter_cons, hb, if_true, dedupFirst, ih]
      rw [filter_ne_comm]

/-- appending a value: nothing changes if it has been seen, otherwise it goes to the end -/
theorem dedupFirst_append_singleton (l : List α) (k : α) :
    dedupFirst (l ++ [k]) = if k ∈ l then dedupFirst l else dedupFirst l ++ [k] := by
  induction l with
  | nil => simp [dedupFirst]
  | cons v vs ih =>
    simp only [List.cons_append, dedupFirst, ih, List.mem_cons]
    by_cases hkv : k = v
    · subst hkv
      by_cases hk : k ∈ vs
      · simp [hk]
      · simp [hk, List.filter_append]
    · have hb : (k != v) = true := by simpa using hkv
      by_cases hk : k ∈ vs
      · simp [hk]
      · simp [hk, hkv, List.filter_append, hb]

theorem length_dedupFirst_append_singleton (l : List α) (k : α) :
    (dedupFirst (l ++ [k])).length = if k ∈ l then (dedupFirst l).length else (dedupFirst l).length + 1 := by
  rw [dedupFirst_append_singleton]
  split <;> simp

end Dedup

/-! ## 1. chunking -/

theorem foldl_chunks {σ ρ : Type} (f : σ → ρ → σ) (s : σ) (chunks : List (List ρ)) :
    chunks.foldl (fun s c => c.foldl f s) s = chunks.flatten.foldl f s := by
  induction chunks generalizing s with
  | nil => rfl
  | cons c cs ih => simp only [List.foldl_cons, List.flatten_cons, List.foldl_append, ih]

/-- F (1): the states after a sequence of chunks are the states after one chunk holding all rows. -/
theorem runChunks_flatten (aggs : List AggExpr) (sts : List St) (chunks : List (List Row)) :
    runChunks aggs sts chunks = chunks.flatten.foldl (feedAll aggs) sts :=
  foldl_chunks _ _ _

/-- F (1): `SimpleAggregateOperator` over any chunking of the input = over the whole input. -/
theorem simpleAgg_chunking (aggs : List AggExpr) (chunks : List (List Row)) :
    simpleAgg aggs chunks = simpleAgg aggs [chunks.flatten] := by
  unfold simpleAgg
  rw [runChunks_flatten, runChunks_flatten]
  simp

theorem simpleAgg_rechunk (aggs : List AggExpr) (c1 c2 : List (List Row)) (h : c1.flatten = c2.flatten) :
    simpleAgg aggs c1 = simpleAgg aggs c2 := by
  rw [simpleAgg_chunking aggs c1, simpleAgg_chunking aggs c2, h]

theorem runGroups_flatten (gc : List Nat) (aggs : List AggExpr) (gs : Groups) (chunks : List (List Row)) :
    runGroups gc aggs gs chunks = chunks.flatten.foldl (upsert gc aggs) gs :=
  foldl_chunks _ _ _

/-- F (1): `HashAggregateOperator` over any chunking of the input = over the whole input. -/
theorem hashAgg_chunking (gc : List Nat) (aggs : List AggExpr) (chunks : List (List Row)) :
    hashAgg gc aggs chunks = hashAgg gc aggs [chunks.flatten] := by
  unfold hashAgg
  rw [runGroups_flatten, runGroups_flatten]
  simp

theorem hashAgg_rechunk (gc : List Nat) (aggs : List AggExpr) (c1 c2 : List (List Row)) (h : c1.flatten = c2.flatten) :
    hashAgg gc aggs c1 = hashAgg gc aggs c2 := by
  rw [hashAgg_chunking gc aggs c1, hashAgg_chunking gc aggs c2, h]

/-- N: three chunkings of four rows (two groups, sum and collect) give the same two result rows. -/
theorem chunking_nonvacuous :
    let rows : List Row := [[.int 1, .int 10], [.int 2, .int 5], [.int 1, .null], [.int 1, .int 7]]
    let aggs : List AggExpr := [⟨.sum, some 1, false⟩, ⟨.collect, some 1, false⟩]
    hashAgg [0] aggs [rows] = [[.int 1, .int 17, .list [.int 10, .int 7]], [.int 2, .int 5, .list [.int 5]]] ∧
    hashAgg [0] aggs [rows.take 1, [], rows.drop 1] = hashAgg [0] aggs [rows] ∧
    hashAgg [0] aggs (rows.map (fun r => [r])) = hashAgg [0] aggs [rows] := by
  refine ⟨by decide, by decide, by decide⟩

/-! ## 2. grouped aggregation = per-group aggregation -/

/-- the states of the group with key `k` when it is aggregated on its own -/
def groupStates (gc : List Nat) (aggs : List AggExpr) (rows : List Row) (k : List Val) : List St :=
  (rows.filter (fun r => keyOf gc r == k)).foldl (feedAll aggs) (initAll aggs)

def perGroup (gc : List Nat) (aggs : List AggExpr) (rows : List Row) : Groups :=
  (dedupKeys (rows.map (keyOf gc))).map (fun k => (k, groupStates gc aggs rows k))

theorem groupStates_snoc (gc : List Nat) (aggs : List AggExpr) (rows : List Row) (r : Row) (k : List Val) :
    groupStates gc aggs (rows ++ [r]) k =
      if keyOf gc r == k then feedAll aggs (groupStates gc aggs rows k) r else groupStates gc aggs rows k := by
  unfold groupStates
  by_cases h : (keyOf gc r == k) = true
  · simp [List.filter_append, h, List.foldl_append]
  · simp [List.filter_append, h]

theorem upsert_perGroup (gc : List Nat) (aggs : List AggExpr) (rows : List Row) (r : Row) :
    upsert gc aggs (perGroup gc aggs rows) r = perGroup gc aggs (rows ++ [r]) := by
  unfold upsert perGroup
  simp only [List.map_append, List.map_cons, List.map_nil]
  have hany : ((dedupKeys (rows.map (keyOf gc))).map (fun k => (k, groupStates gc aggs rows k))).any
      (fun g => g.1 == keyOf gc r) = decide (keyOf gc r ∈ rows.map (keyOf gc)) := by
    rw [Bool.eq_iff_iff]
    simp only [List.any_map, List.any_eq_true, Function.comp, beq_iff_eq, decide_eq_true_eq]
    constructor
    · rintro ⟨k, hk, rfl⟩
      exact (mem_dedupFirst _ _).1 hk
    · intro h
      exact ⟨_, (mem_dedupFirst _ _).2 h, rfl⟩
  rw [hany]
  show (if decide (keyOf gc r ∈ rows.map (keyOf gc)) = true then _ else _) = _
  rw [show dedupKeys (rows.map (keyOf gc) ++ [keyOf gc r]) = dedupFirst (rows.map (keyOf gc) ++ [keyOf gc r]) from rfl,
    dedupFirst_append_singleton]
  by_cases hin : keyOf gc r ∈ rows.map (keyOf gc)
  · simp only [hin, decide_true, if_true, List.map_map]
    apply List.map_congr_left
    intro k _
    simp only [Function.comp, groupStates_snoc]
    by_cases hk : k = keyOf gc r
    · subst hk
      simp
    · have h1 : (k == keyOf gc r) = false := by simpa using hk
      have h2 : (keyOf gc r == k) = false := by simpa using (fun h => hk h.symm)
      simp [h1, h2]
  · simp only [hin, decide_false, Bool.false_eq_true, if_false, List.map_append, List.map_cons, List.map_nil]
    congr 1
    · apply List.map_congr_left
      intro k hk
      have hne : ¬ (keyOf gc r = k) := by
        intro h
        exact hin (h ▸ (mem_dedupFirst _ _).1 hk)
      have h2 : (keyOf gc r == k) = false := by simpa using hne
      simp [groupStates_snoc, h2]
    · have hnil : rows.filter (fun x => keyOf gc x == keyOf gc r) = [] := by
        rw [List.filter_eq_nil_iff]
        intro x hx hxe
        exact hin (List.mem_map.2 ⟨x, hx, by simpa using hxe⟩)
      simp [groupStates_snoc, groupStates, hnil]

theorem foldl_upsert_perGroup (gc : List Nat) (aggs : List AggExpr) (pre rows : List Row) :
    rows.foldl (upsert gc aggs) (perGroup gc aggs pre) = perGroup gc aggs (pre ++ rows) := by
  induction rows generalizing pre with
  | nil => simp
  | cons r rs ih =>
    rw [List.foldl_cons, upsert_perGroup, ih]
    simp

/-- F (2): the group table the hash aggregate builds = one entry per distinct key, in first-seen
order, holding the states of the simple aggregate over the rows with that key. -/
theorem runGroups_eq_perGroup (gc : List Nat) (aggs : List AggExpr) (chunks : List (List Row)) :
    runGroups gc aggs [] chunks = perGroup gc aggs chunks.flatten := by
  rw [runGroups_flatten]
  have := foldl_upsert_perGroup gc aggs [] chunks.flatten
  simpa [perGroup, dedupFirst] using this

/-- F (2): grouped aggregation = per-group aggregation of the rows with that key. -/
theorem hashAgg_eq_perGroup (gc : List Nat) (aggs : List AggExpr) (chunks : List (List Row)) :
    hashAgg gc aggs chunks =
      (dedupKeys (chunks.flatten.map (keyOf gc))).map (fun k =>
        k.map ofVal ++ simpleAgg aggs [chunks.flatten.filter (fun r => keyOf gc r == k)]) := by
  unfold hashAgg
  rw [runGroups_eq_perGroup]
  unfold perGroup simpleAgg groupStates runChunks
  simp [List.map_map, Function.comp]

/-- F (2), order of the groups irrelevant: for every enumeration `ks` of the distinct keys, the
result is, up to the order of its rows, the per-group aggregate over `ks`. -/
theorem hashAgg_perm_perGroup (gc : List Nat) (aggs : List AggExpr) (chunks : List (List Row)) (ks : List (List Val))
    (hks : ks.Perm (dedupKeys (chunks.flatten.map (keyOf gc)))) :
    (hashAgg gc aggs chunks).Perm
      (ks.map (fun k => k.map ofVal ++ simpleAgg aggs [chunks.flatten.filter (fun r => keyOf gc r == k)])) := by
  rw [hashAgg_eq_perGroup]
  exact (hks.map _).symm

/-! ## 3. the coded aggregates against their specification -/

/-- the coded aggregate `fn` over one column of values (`SimpleAggregateOperator` over the
one-column rows) -/
def colAgg (fn : AggFn) (d : Bool) (vs : List Val) : AVal :=
  ((vs.map (fun v => [v])).foldl (feed ⟨fn, some 0, d⟩) (St.init fn d)).finalize

theorem foldl_feedAll_single (a : AggExpr) (st : St) (rows : List Row) :
    rows.foldl (feedAll [a]) [st] = [rows.foldl (feed a) st] := by
  induction rows generalizing st with
  | nil => rfl
  | cons r rs ih => simp only [List.foldl_cons, feedAll, ih]

/-- `colAgg` is what the operator returns for a single aggregate over a single column. -/
theorem simpleAgg_single (fn : AggFn) (d : Bool) (vs : List Val) :
    simpleAgg [⟨fn, some 0, d⟩] [vs.map (fun v => [v])] = [colAgg fn d vs] := by
  unfold simpleAgg colAgg
  rw [runChunks_flatten]
  simp [initAll, foldl_feedAll_single]

/-- every aggregate other than COUNT(*) sees exactly the non-null values, in order -/
theorem foldl_feed_nonNull (fn : AggFn) (d : Bool) (h : ¬ (fn = .count ∧ d = false)) (st : St) (vs : List Val) :
    (vs.map (fun v => [v])).foldl (feed ⟨fn, some 0, d⟩) st = (nonNull vs).foldl St.update st := by
  induction vs generalizing st with
  | nil => rfl
  | cons v vs ih =>
    have hc : (fn == AggFn.count && !d) = false := by
      cases fn <;> cases d <;> simp_all
    simp only [List.map_cons, List.foldl_cons, feed, hc, Bool.false_eq_true, if_false, Option.bind,
      List.getElem?_cons_zero, nonNull]
    by_cases hv : v = .null
    · subst hv
      simpa [nonNull] using ih st
    · have hb : (v == Val.null) = false := by simpa using hv
      have hb' : (v != Val.null) = true := by simpa using hv
      simp only [hb, Bool.false_eq_true, if_false, List.filter_cons, hb', if_true, List.foldl_cons]
      simpa [nonNull] using ih (st.update v)

theorem mem_nonNull_ne (vs : List Val) (v : Val) (h : v ∈ nonNull vs) : v ≠ .null := by
  simp only [nonNull, List.mem_filter, bne_iff_ne, ne_eq] at h
  exact h.2

/-! ### count -/

theorem foldl_update_count (n : Int) (l : List Val) :
    l.foldl St.update (.count n) = .count (n + l.length) := by
  induction l generalizing n with
  | nil => simp
  | cons v vs ih =>
    simp only [List.foldl_cons, St.update, ih, List.length_cons]
    congr 1
    omega

/-- F (3): `count(*)` (COUNT without DISTINCT as the operator treats it) counts the rows. -/
theorem count_star_coded (vs : List Val) : colAgg .count false vs = .int vs.length := by
  unfold colAgg
  have : ∀ (n : Int) (l : List Val), (l.map (fun v => [v])).foldl (feed ⟨.count, some 0, false⟩) (.count n) = .count (n + l.length) := by
    intro n l
    induction l generalizing n with
    | nil => simp
    | cons v vs ih =>
      simp only [List.map_cons, List.foldl_cons, feed, beq_self_eq_true, Bool.not_false, Bool.and_self, if_true, St.update, ih,
        List.length_cons]
      congr 1
      omega
  simp [St.init, this, St.finalize]

theorem count_star_eq_spec (vs : List Val) : specAgg .count false vs = .ok (colAgg .count false vs) := by
  simp [specAgg, count_star_coded]

/-- F (3): `count(x)` counts the non-null values. -/
theorem count_coded (vs : List Val) : colAgg .countNonNull false vs = .int (nonNull vs).length := by
  unfold colAgg
  rw [foldl_feed_nonNull _ _ (by simp)]
  simp [St.init, foldl_update_count, St.finalize]

theorem count_eq_spec (vs : List Val) : specAgg .countNonNull false vs = .ok (colAgg .countNonNull false vs) := by
  simp [specAgg, count_coded]

/-- the `seen` set of a DISTINCT state after the values `p` -/
def SeenIs (seen p : List Val) : Prop := ∀ v, seen.contains v = true ↔ v ∈ p

theorem SeenIs.snoc_seen {seen p : List Val} (h : SeenIs seen p) (v : Val) (hv : seen.contains v = true) :
    SeenIs seen (p ++ [v]) := by
  intro x
  rw [h x]
  simp only [List.mem_append, List.mem_singleton]
  constructor
  · exact Or.inl
  · rintro (hx | rfl)
    · exact hx
    · exact (h _).1 hv

theorem SeenIs.snoc_new {seen p : List Val} (h : SeenIs seen p) (v : Val) : SeenIs (v :: seen) (p ++ [v]) := by
  intro x
  simp only [List.contains_cons, Bool.or_eq_true, beq_iff_eq, List.mem_append, List.mem_singleton, h x]
  constructor
  · rintro (hx | hx)
    · exact Or.inr hx
    · exact Or.inl hx
  · rintro (hx | hx)
    · exact Or.inr hx
    · exact Or.inl hx

theorem foldl_update_countD (l p seen : List Val) (hs : SeenIs seen p) :
    ∃ seen', l.foldl St.update (.countD (dedupVals p).length seen) = .countD (dedupVals (p ++ l)).length seen' := by
  induction l generalizing p seen with
  | nil => exact ⟨seen, by simp⟩
  | cons v vs ih =>
    simp only [List.foldl_cons, St.update]
    by_cases hc : seen.contains v = true
    · have hm : v ∈ p := (hs v).1 hc
      obtain ⟨s', hs'⟩ := ih (p ++ [v]) seen (hs.snoc_seen v hc)
      refine ⟨s', ?_⟩
      simp only [hc, if_true]
      rw [show (dedupVals p).length = (dedupVals (p ++ [v])).length by
        simp [dedupVals, length_dedupFirst_append_singleton, hm]]
      simpa using hs'
    · have hm : v ∉ p := fun h => hc ((hs v).2 h)
      obtain ⟨s', hs'⟩ := ih (p ++ [v]) (v :: seen) (hs.snoc_new v)
      refine ⟨s', ?_⟩
      simp only [hc, Bool.false_eq_true, if_false]
      rw [show ((dedupVals p).length : Int) + 1 = ((dedupVals (p ++ [v])).length : Int) by
        simp [dedupVals, length_dedupFirst_append_singleton, hm]]
      simpa using hs'

/-- F (3): `count(DISTINCT x)` counts the distinct non-null values. -/
theorem count_distinct_coded (vs : List Val) :
    colAgg .countNonNull true vs = .int (dedupVals (nonNull vs)).length := by
  unfold colAgg
  rw [foldl_feed_nonNull _ _ (by simp)]
  obtain ⟨s', h⟩ := foldl_update_countD (nonNull vs) [] [] (by intro v; simp)
  simp only [St.init]
  have h0 : (St.countD 0 []) = St.countD (dedupVals ([] : List Val)).length [] := by simp [dedupVals, dedupFirst]
  rw [h0, h]
  simp [St.finalize]

theorem count_distinct_eq_spec (vs : List Val) :
    specAgg .countNonNull true vs = .ok (colAgg .countNonNull true vs) := by
  simp [specAgg, count_distinct_coded]

/-- the Cypher translation of `count(DISTINCT x)` (function `Count`, DISTINCT set) behaves the same -/
theorem count_distinct_cypher_coded (vs : List Val) :
    colAgg .count true vs = .int (dedupVals (nonNull vs)).length := by
  unfold colAgg
  rw [foldl_feed_nonNull _ _ (by simp)]
  obtain ⟨s', h⟩ := foldl_update_countD (nonNull vs) [] [] (by intro v; simp)
  simp only [St.init]
  have h0 : (St.countD 0 []) = St.countD (dedupVals ([] : List Val)).length [] := by simp [dedupVals, dedupFirst]
  rw [h0, h]
  simp [St.finalize]

/-! ### collect -/

theorem foldl_update_collect (acc l : List Val) :
    l.foldl St.update (.collect acc) = .collect (acc ++ l) := by
  induction l generalizing acc with
  | nil => simp
  | cons v vs ih => simp [List.foldl_cons, St.update, ih]

/-- F (3): `collect(x)` is the list of the non-null values in input order. -/
theorem collect_coded (vs : List Val) : colAgg .collect false vs = .list (nonNull vs) := by
  unfold colAgg
  rw [foldl_feed_nonNull _ _ (by simp)]
  simp [St.init, foldl_update_collect, St.finalize]

theorem collect_eq_spec (vs : List Val) : specAgg .collect false vs = .ok (colAgg .collect false vs) := by
  simp [specAgg, collect_coded]

theorem foldl_update_collectD (l p seen : List Val) (hs : SeenIs seen p) :
    ∃ seen', l.foldl St.update (.collectD (dedupVals p) seen) = .collectD (dedupVals (p ++ l)) seen' := by
  induction l generalizing p seen with
  | nil => exact ⟨seen, by simp⟩
  | cons v vs ih =>
    simp only [List.foldl_cons, St.update]
    by_cases hc : seen.contains v = true
    · have hm : v ∈ p := (hs v).1 hc
      obtain ⟨s', hs'⟩ := ih (p ++ [v]) seen (hs.snoc_seen v hc)
      refine ⟨s', ?_⟩
      simp only [hc, if_true]
      rw [show dedupVals p = dedupVals (p ++ [v]) by simp [dedupVals, dedupFirst_append_singleton, hm]]
      simpa using hs'
    · have hm : v ∉ p := fun h => hc ((hs v).2 h)
      obtain ⟨s', hs'⟩ := ih (p ++ [v]) (v :: seen) (hs.snoc_new v)
      refine ⟨s', ?_⟩
      simp only [hc, Bool.false_eq_true, if_false]
      rw [show dedupVals p ++ [v] = dedupVals (p ++ [v]) by simp [dedupVals, dedupFirst_append_singleton, hm]]
      simpa using hs'

/-- F (3): `collect(DISTINCT x)` is the list of the distinct non-null values, first occurrences. -/
theorem collect_distinct_coded (vs : List Val) :
    colAgg .collect true vs = .list (dedupVals (nonNull vs)) := by
  unfold colAgg
  rw [foldl_feed_nonNull _ _ (by simp)]
  obtain ⟨s', h⟩ := foldl_update_collectD (nonNull vs) [] [] (by intro v; simp)
  simp only [St.init]
  have h0 : (St.collectD [] []) = St.collectD (dedupVals ([] : List Val)) [] := by simp [dedupVals, dedupFirst]
  rw [h0, h]
  simp [St.finalize]

theorem collect_distinct_eq_spec (vs : List Val) :
    specAgg .collect true vs = .ok (colAgg .collect true vs) := by
  simp [specAgg, collect_distinct_coded]

/-- N: counts and collections over a heterogeneous column with nulls and duplicates. -/
theorem count_collect_nonvacuous :
    let vs : List Val := [.int 2, .null, .str "a", .int 2, .null, .str "7"]
    colAgg .count false vs = .int 6 ∧ colAgg .countNonNull false vs = .int 4 ∧
    colAgg .countNonNull true vs = .int 3 ∧ colAgg .collect true vs = .list [.int 2, .str "a", .str "7"] := by
  refine ⟨by decide, by decide, by decide, by decide⟩

/-! ### sum -/

theorem foldl_add_acc (a : Int) (l : List Int) : l.foldl (· + ·) a = a + l.foldl (· + ·) 0 := by
  induction l generalizing a with
  | nil => simp
  | cons x xs ih => rw [List.foldl_cons, ih, List.foldl_cons, ih (0 + x)]; omega

theorem intSum_cons (v : Val) (vs : List Val) : intSum (v :: vs) = intOf v + intSum vs := by
  unfold intSum
  rw [List.map_cons, List.foldl_cons, foldl_add_acc]
  omega

theorem foldl_update_sumInt (s : Int) (l : List Val) (hint : l.all isInt = true) :
    l.foldl St.update (.sumInt s) = .sumInt (s + intSum l) := by
  induction l generalizing s with
  | nil => simp [intSum]
  | cons v vs ih =>
    simp only [List.all_cons, Bool.and_eq_true] at hint
    cases v with
    | null => simp [isInt] at hint
    | str t => simp [isInt] at hint
    | float b => simp [isInt] at hint
    | int i =>
      simp only [List.foldl_cons, St.update, sumIntStep]
      rw [ih (s + i) hint.2, intSum_cons]
      simp only [intOf]
      congr 1
      omega

/-- F (3), after the repair (exact 128-bit accumulation): over integers the coded `sum` is the
exact integer total whenever that fits `i64` — whatever the intermediate sums do — and the float
nearest to the exact total otherwise. -/
theorem sum_coded_ints (vs : List Val) (hint : (nonNull vs).all isInt = true) :
    colAgg .sum false vs = sumOut (intSum (nonNull vs)) := by
  unfold colAgg
  rw [foldl_feed_nonNull _ _ (by simp)]
  simp only [St.init]
  rw [foldl_update_sumInt 0 _ hint]
  simp [St.finalize]

/-- F (3): … which is what the specification demands where it demands anything (an integer total
outside `i64` is not constrained). -/
theorem sum_eq_spec_ints (vs : List Val) (hint : (nonNull vs).all isInt = true) :
    specAgg .sum false vs = .ok (colAgg .sum false vs) ∨ specAgg .sum false vs = .any := by
  rw [sum_coded_ints vs hint]
  by_cases hr : inI64 (intSum (nonNull vs)) = true
  · left; simp [specAgg, hint, hr, sumOut]
  · right; simp [specAgg, hint, hr]

/-- W: the full statement (all inputs) is false. Numeric strings are parsed and summed as floats
(specification: type error); text is skipped silently. -/
theorem sum_not_spec :
    ¬ ∀ vs : List Val, specAgg .sum false vs = .ok (colAgg .sum false vs) ∨ specAgg .sum false vs = .any := by
  intro h
  exact absurd (h [.str "1", .str "2"]) (by decide +kernel)

theorem sum_numeric_strings_witness :
    colAgg .sum false [.str "1", .str "2"] = .float 0x4008000000000000 ∧
    specAgg .sum false [.str "1", .str "2"] = .err "type" := by
  refine ⟨by decide +kernel, by decide⟩

theorem sum_text_skipped_witness :
    colAgg .sum false [.str "a", .int 3] = .int 3 ∧ specAgg .sum false [.str "a", .int 3] = .err "type" := by
  refine ⟨by decide, by decide⟩

/-- N: an intermediate sum outside `i64` does not disturb a total that fits; a total outside
`i64` comes back as the nearest float. -/
theorem sum_nonvacuous :
    colAgg .sum false [.int (2 ^ 63 - 1), .int 1, .null, .int (-5)] = .int (2 ^ 63 - 5) ∧
    specAgg .sum false [.int (2 ^ 63 - 1), .int 1, .null, .int (-5)] = .ok (.int (2 ^ 63 - 5)) ∧
    colAgg .sum false [.int (2 ^ 63 - 1), .int (2 ^ 63 - 1)] = .float 0x43f0000000000000 ∧
    specAgg .sum false [.int (2 ^ 63 - 1), .int (2 ^ 63 - 1)] = .any := by
  refine ⟨by decide, by decide, by decide +kernel, by decide⟩

/-! ### avg: the float arithmetic

`roundQ neg n d` (the double nearest to `± n / d`) depends on the fraction only, not on its
representation; with that, sums of exactly representable integers are exact and the final division
is the correctly rounded exact mean. -/

theorem two_pow_mul_cancel (K a b : Nat) : a * 2 ^ K ≤ b * 2 ^ K ↔ a ≤ b := by
  constructor
  · intro h
    exact Nat.le_of_mul_le_mul_right h (Nat.two_pow_pos K)
  · intro h
    exact Nat.mul_le_mul_right _ h

/-- `geScaled n d e` with the exponent shifted into the naturals by any `K ≥ -e` -/
theorem geScaled_iff (n d : Nat) (e : Int) (K : Nat) (hK : 0 ≤ (K : Int) + e) :
    geScaled n d e = true ↔ d * 2 ^ ((K : Int) + e).toNat ≤ n * 2 ^ K := by
  unfold geScaled
  by_cases he : e ≥ 0
  · have hx : ((K : Int) + e).toNat = e.toNat + K := by omega
    simp only [he, if_true, decide_eq_true_eq, ge_iff_le, hx, Nat.pow_add, ← Nat.mul_assoc]
    exact (two_pow_mul_cancel K _ _).symm
  · have hx : K = (-e).toNat + ((K : Int) + e).toNat := by omega
    simp only [he, if_false, decide_eq_true_eq, ge_iff_le]
    generalize ((K : Int) + e).toNat = j at hx
    subst hx
    rw [Nat.pow_add, ← Nat.mul_assoc]
    exact (two_pow_mul_cancel j _ _).symm

theorem bitLength_bounds (n : Nat) (hn : n ≠ 0) : 2 ^ (bitLength n - 1) ≤ n ∧ n < 2 ^ bitLength n ∧ 1 ≤ bitLength n := by
  unfold bitLength
  simp only [hn, if_false, Nat.add_sub_cancel]
  exact ⟨Nat.log2_self_le hn, Nat.lt_log2_self, by omega⟩

/-- `e` is ⌊log₂ (n/d)⌋, with exponents shifted by `K` -/
def IsFloorLog (n d : Nat) (e : Int) (K : Nat) : Prop :=
  d * 2 ^ ((K : Int) + e).toNat ≤ n * 2 ^ K ∧ n * 2 ^ K < d * 2 ^ ((K : Int) + e + 1).toNat

theorem isFloorLog_unique (n d : Nat) (e e' : Int) (K : Nat) (hK : 0 ≤ (K : Int) + e) (hK' : 0 ≤ (K : Int) + e')
    (h : IsFloorLog n d e K) (h' : IsFloorLog n d e' K) : e = e' := by
  have key : ∀ (a b : Int), 0 ≤ (K : Int) + a → IsFloorLog n d a K → IsFloorLog n d b K → ¬ a < b := by
    intro a b ha hA hB hlt
    have hle : ((K : Int) + a + 1).toNat ≤ ((K : Int) + b).toNat := by omega
    have hp : 2 ^ ((K : Int) + a + 1).toNat ≤ 2 ^ ((K : Int) + b).toNat := Nat.pow_le_pow_right (by decide) hle
    have h1 : d * 2 ^ ((K : Int) + a + 1).toNat ≤ d * 2 ^ ((K : Int) + b).toNat := Nat.mul_le_mul_left _ hp
    have h2 := hA.2
    have h3 := hB.1
    omega
  have h1 := key e e' hK h h'
  have h2 := key e' e hK' h' h
  omega

theorem floorLog2Q_spec (n d : Nat) (hn : n ≠ 0) (hd : d ≠ 0) (K : Nat) (hK : bitLength d + 1 ≤ K) :
    0 ≤ (K : Int) + floorLog2Q n d ∧ IsFloorLog n d (floorLog2Q n d) K := by
  obtain ⟨hn1, hn2, hn3⟩ := bitLength_bounds n hn
  obtain ⟨hd1, hd2, hd3⟩ := bitLength_bounds d hd
  generalize hA : bitLength n = a at *
  generalize hB : bitLength d = b at *
  -- K + e0 + 1: above n/d
  have hup : n * 2 ^ K < d * 2 ^ (K + a - b + 1) := by
    have e2 : K + a = (b - 1) + (K + a - b + 1) := by omega
    have hmul : 2 ^ (b - 1) * 2 ^ (K + a - b + 1) ≤ d * 2 ^ (K + a - b + 1) := Nat.mul_le_mul_right _ hd1
    have hlt : n * 2 ^ K < 2 ^ a * 2 ^ K := Nat.mul_lt_mul_of_lt_of_le hn2 (Nat.le_refl _) (Nat.two_pow_pos K)
    rw [← Nat.pow_add, Nat.add_comm a K] at hlt
    rw [← Nat.pow_add, ← e2] at hmul
    omega
  -- K + e0 - 1: at most n/d
  have hlow : d * 2 ^ (K + a - b - 1) ≤ n * 2 ^ K := by
    have e2 : K + a - 1 = b + (K + a - b - 1) := by omega
    have hlt : d * 2 ^ (K + a - b - 1) < 2 ^ b * 2 ^ (K + a - b - 1) :=
      Nat.mul_lt_mul_of_lt_of_le hd2 (Nat.le_refl _) (Nat.two_pow_pos _)
    rw [← Nat.pow_add, ← e2] at hlt
    have hmul : 2 ^ (a - 1) * 2 ^ K ≤ n * 2 ^ K := Nat.mul_le_mul_right _ hn1
    rw [← Nat.pow_add] at hmul
    have e3 : K + a - 1 = a - 1 + K := by omega
    rw [e3] at hlt
    omega
  unfold floorLog2Q
  simp only [hA, hB]
  by_cases hge : geScaled n d ((a : Int) - (b : Int)) = true
  · simp only [hge, if_true]
    refine ⟨by omega, ?_, ?_⟩
    · exact (geScaled_iff n d _ K (by omega)).1 hge
    · have : ((K : Int) + ((a : Int) - (b : Int)) + 1).toNat = K + a - b + 1 := by omega
      rw [this]
      exact hup
  · have hge' : geScaled n d ((a : Int) - (b : Int)) = false := by simpa using hge
    simp only [hge', Bool.false_eq_true, if_false]
    refine ⟨by omega, ?_, ?_⟩
    · have : ((K : Int) + ((a : Int) - (b : Int) - 1)).toNat = K + a - b - 1 := by omega
      rw [this]
      exact hlow
    · have hnot := mt (geScaled_iff n d ((a : Int) - (b : Int)) K (by omega)).2 hge
      have : ((K : Int) + ((a : Int) - (b : Int) - 1) + 1).toNat = ((K : Int) + ((a : Int) - (b : Int))).toNat := by omega
      rw [this]
      omega

theorem isFloorLog_scale (c n d : Nat) (hc : 0 < c) (e : Int) (K : Nat) :
    IsFloorLog (c * n) (c * d) e K ↔ IsFloorLog n d e K := by
  unfold IsFloorLog
  rw [Nat.mul_assoc, Nat.mul_assoc, Nat.mul_assoc]
  constructor
  · rintro ⟨h1, h2⟩
    exact ⟨Nat.le_of_mul_le_mul_left h1 hc, (Nat.mul_lt_mul_left hc).1 h2⟩
  · rintro ⟨h1, h2⟩
    exact ⟨Nat.mul_le_mul_left _ h1, (Nat.mul_lt_mul_left hc).2 h2⟩

theorem floorLog2Q_scale (c n d : Nat) (hc : 0 < c) (hn : n ≠ 0) (hd : d ≠ 0) :
    floorLog2Q (c * n) (c * d) = floorLog2Q n d := by
  have hcn : c * n ≠ 0 := Nat.mul_ne_zero (by omega) hn
  have hcd : c * d ≠ 0 := Nat.mul_ne_zero (by omega) hd
  let K := bitLength (c * d) + bitLength d + 1
  obtain ⟨k1, s1⟩ := floorLog2Q_spec (c * n) (c * d) hcn hcd K (by omega)
  obtain ⟨k2, s2⟩ := floorLog2Q_spec n d hn hd K (by omega)
  exact isFloorLog_unique n d _ _ K k1 k2 ((isFloorLog_scale c n d hc _ K).1 s1) s2

theorem roundHalfEven_scale (c N D : Nat) (hc : 0 < c) : roundHalfEven (c * N) (c * D) = roundHalfEven N D := by
  unfold roundHalfEven
  rw [Nat.mul_div_mul_left _ _ hc, Nat.mul_mod_mul_left]
  have h1 : (2 * (c * (N % D)) > c * D) ↔ (2 * (N % D) > D) := by
    rw [show 2 * (c * (N % D)) = c * (2 * (N % D)) by rw [Nat.mul_left_comm]]
    exact Nat.mul_lt_mul_left hc
  have h2 : (2 * (c * (N % D)) = c * D) ↔ (2 * (N % D) = D) := by
    rw [show 2 * (c * (N % D)) = c * (2 * (N % D)) by rw [Nat.mul_left_comm]]
    exact Nat.mul_right_inj (by omega)
  simp only [h1, h2]

/-- the part of `roundQ` after the exponent has been found -/
def roundCore (neg : Bool) (e : Int) (n d : Nat) : Nat :=
  let s : Int := if e ≥ -1022 then 52 - e else 1074
  let N := if s ≥ 0 then n * 2 ^ s.toNat else n
  let D := if s ≥ 0 then d else d * 2 ^ (-s).toNat
  let q := roundHalfEven N D
  let base := if e ≥ -1022 then (e + 1022).toNat * 2 ^ 52 else 0
  let bits := base + q
  signOf neg + (if bits ≥ fInf then fInf else bits)

theorem roundQ_pos (neg : Bool) (n d : Nat) (hn : n ≠ 0) (hd : d ≠ 0) :
    roundQ neg n d = roundCore neg (floorLog2Q n d) n d := by
  unfold roundQ roundCore
  simp [hn, hd]

theorem roundCore_scale (neg : Bool) (e : Int) (c n d : Nat) (hc : 0 < c) :
    roundCore neg e (c * n) (c * d) = roundCore neg e n d := by
  unfold roundCore
  simp only
  by_cases hs : (if e ≥ -1022 then 52 - e else (1074 : Int)) ≥ 0
  · simp only [hs, if_true, Nat.mul_assoc, roundHalfEven_scale _ _ _ hc]
  · simp only [hs, if_false, Nat.mul_assoc, roundHalfEven_scale _ _ _ hc]

/-- F: `roundQ` depends on the value of the fraction only. -/
theorem roundQ_scale (neg : Bool) (c n d : Nat) (hc : 0 < c) : roundQ neg (c * n) (c * d) = roundQ neg n d := by
  by_cases hn : n = 0
  · subst hn; simp [roundQ]
  by_cases hd : d = 0
  · subst hd; simp [roundQ]
  rw [roundQ_pos neg _ _ (Nat.mul_ne_zero (by omega) hn) (Nat.mul_ne_zero (by omega) hd), roundQ_pos neg n d hn hd,
    floorLog2Q_scale c n d hc hn hd, roundCore_scale neg _ c n d hc]

theorem roundQ_congr (neg : Bool) (n1 d1 n2 d2 : Nat) (h1 : 0 < d1) (h2 : 0 < d2) (h : n1 * d2 = n2 * d1) :
    roundQ neg n1 d1 = roundQ neg n2 d2 := by
  rw [← roundQ_scale neg d2 n1 d1 h2, ← roundQ_scale neg d1 n2 d2 h1]
  rw [Nat.mul_comm d2 n1, h, Nat.mul_comm d1 n2, Nat.mul_comm d2 d1]

/-! ### avg: exact integer sums, one rounding at the end -/

open Grafeo.F64 in
/-- the double `i as f64` is finite, has the sign of `i` and is exactly `i` (decidable; true for
every `|i| ≤ 2^53`, and for larger `i` with enough trailing zero bits) -/
def exactInt (i : Int) : Bool :=
  (expField (ofInt i) != 2047) && decide ((toQ (ofInt i)).1 = i.natAbs * (toQ (ofInt i)).2) &&
    (fNeg (ofInt i) == decide (i < 0))

open Grafeo.F64 in
theorem toQ_den_pos (b : Nat) : 0 < (toQ b).2 := by
  unfold toQ
  simp only
  split
  · exact Nat.two_pow_pos _
  · split
    · exact Nat.one_pos
    · exact Nat.two_pow_pos _

open Grafeo.F64 in
theorem finite_not_special (b : Nat) (h : (expField b != 2047) = true) : isNaN b = false ∧ isInf b = false := by
  have : (expField b == 2047) = false := by simpa using h
  simp [isNaN, isInf, this]

open Grafeo.F64 in
theorem mag_zero_toQ (b : Nat) (h : mag b = 0) : (toQ b).1 = 0 := by
  have h2 : expField b = 0 ∧ fracField b = 0 := by
    unfold mag at h
    unfold expField fracField
    omega
  simp [toQ, h2.1, h2.2]

theorem exactInt_unpack (i : Int) (h : exactInt i = true) :
    (F64.expField (ofInt i) != 2047) = true ∧ (toQ (ofInt i)).1 = i.natAbs * (toQ (ofInt i)).2 ∧
      fNeg (ofInt i) = decide (i < 0) := by
  simp only [exactInt, Bool.and_eq_true, decide_eq_true_eq, beq_iff_eq] at h
  exact ⟨h.1.1, h.1.2, h.2⟩

theorem signedNum_exact (x : Int) (o : Nat) (h : exactInt x = true) :
    signedNum (ofInt x) o = x * (((toQ (ofInt x)).2 : Int) * ((toQ o).2 : Int)) := by
  obtain ⟨_, hq, hs⟩ := exactInt_unpack x h
  unfold signedNum
  simp only [hs, hq, decide_eq_true_eq]
  by_cases hx : x < 0
  · have hn : ((x.natAbs : Nat) : Int) = -x := by omega
    simp only [hx, if_true]
    push_cast
    rw [hn]
    grind
  · have hn : ((x.natAbs : Nat) : Int) = x := by omega
    simp only [hx, if_false]
    push_cast
    rw [hn]
    grind

theorem ofInt_zero : ofInt 0 = 0 := by decide

/-- F: the float sum of two exactly represented integers is the correctly rounded integer sum. -/
theorem fadd_exact (x y : Int) (hx : exactInt x = true) (hy : exactInt y = true) :
    fadd (ofInt x) (ofInt y) = ofInt (x + y) := by
  obtain ⟨fx, _, sx⟩ := exactInt_unpack x hx
  obtain ⟨fy, _, sy⟩ := exactInt_unpack y hy
  obtain ⟨nx, ix⟩ := finite_not_special _ fx
  obtain ⟨ny, iy⟩ := finite_not_special _ fy
  unfold fadd
  simp only [nx, ny, ix, iy, Bool.or_self, Bool.false_eq_true, if_false]
  rw [signedNum_exact x _ hx, signedNum_exact y _ hy]
  have hP : 0 < (toQ (ofInt x)).2 * (toQ (ofInt y)).2 := Nat.mul_pos (toQ_den_pos _) (toQ_den_pos _)
  generalize hPdef : (toQ (ofInt x)).2 * (toQ (ofInt y)).2 = P at hP
  have hsum : x * (((toQ (ofInt x)).2 : Int) * ((toQ (ofInt y)).2 : Int)) + y * (((toQ (ofInt y)).2 : Int) * ((toQ (ofInt x)).2 : Int))
      = (x + y) * (P : Int) := by
    rw [← hPdef]
    push_cast
    grind
  rw [hsum]
  by_cases hz : x + y = 0
  · have hneg : (fNeg (ofInt x) && fNeg (ofInt y)) = false := by
      rw [sx, sy]
      by_cases h1 : x < 0 <;> by_cases h2 : y < 0 <;> simp [h1, h2] <;> omega
    simp [hz, hneg, ofInt_zero]
  · have hPi : (0 : Int) < (P : Int) := by exact_mod_cast hP
    have hne : (x + y) * (P : Int) ≠ 0 := Int.mul_ne_zero hz (by omega)
    simp only [hne, if_false]
    have hsign : decide ((x + y) * (P : Int) < 0) = decide (x + y < 0) := by
      by_cases hlt : x + y < 0
      · have := Int.mul_neg_of_neg_of_pos hlt hPi
        simp [hlt, this]
      · have hgt : 0 < x + y := by omega
        have := Int.mul_pos hgt hPi
        have h2 : ¬ (x + y) * (P : Int) < 0 := by omega
        simp [hlt, h2]
    rw [hsign, Int.natAbs_mul, Int.natAbs_natCast]
    unfold ofInt
    rw [Nat.mul_comm (x + y).natAbs P]
    have := roundQ_scale (decide (x + y < 0)) P (x + y).natAbs 1 hP
    rw [Nat.mul_one] at this
    exact this

/-- F: the float quotient of an exactly represented integer and an exactly represented positive
count is the correctly rounded exact mean. -/
theorem fdiv_exact (S : Int) (k : Nat) (hk : 0 < k) (hS : exactInt S = true) (hK : exactInt (k : Int) = true) :
    fdiv (ofInt S) (ofInt (k : Int)) = meanF64 S k := by
  obtain ⟨fS, qS, sS⟩ := exactInt_unpack S hS
  obtain ⟨fK, qK, sK⟩ := exactInt_unpack (k : Int) hK
  obtain ⟨nS, iS⟩ := finite_not_special _ fS
  obtain ⟨nK, iK⟩ := finite_not_special _ fK
  have hkneg : decide ((k : Int) < 0) = false := by simp
  have hnegeq : (fNeg (ofInt S) != fNeg (ofInt (k : Int))) = decide (S < 0) := by
    rw [sS, sK, hkneg]
    simp
  simp only [Int.natAbs_natCast] at qK
  have hmagK : F64.mag (ofInt (k : Int)) ≠ 0 := by
    intro h
    have h0 := mag_zero_toQ _ h
    rw [qK] at h0
    have := Nat.mul_pos hk (toQ_den_pos (ofInt (k : Int)))
    omega
  unfold fdiv meanF64
  simp only [nS, nK, iS, iK, Bool.or_self, Bool.false_eq_true, if_false, hmagK, hnegeq]
  by_cases hmS : F64.mag (ofInt S) = 0
  · have h0 := mag_zero_toQ _ hmS
    rw [qS] at h0
    have hS0 : S.natAbs = 0 := by
      rcases Nat.mul_eq_zero.1 h0 with h | h
      · exact h
      · have := toQ_den_pos (ofInt S); omega
    simp [hmS, hS0, roundQ]
  · simp only [hmS, if_false]
    apply roundQ_congr
    · exact Nat.mul_pos (toQ_den_pos _) (by rw [qK]; exact Nat.mul_pos hk (toQ_den_pos _))
    · exact hk
    · rw [qS, qK]
      grind

theorem foldl_update_avg (s c : Int) (l : List Val) (hint : l.all isInt = true) :
    l.foldl St.update (.avg s 0 c) = .avg (s + intSum l) 0 (c + l.length) := by
  induction l generalizing s c with
  | nil => simp [intSum]
  | cons v vs ih =>
    simp only [List.all_cons, Bool.and_eq_true] at hint
    cases v with
    | null => simp [isInt] at hint
    | str t => simp [isInt] at hint
    | float b => simp [isInt] at hint
    | int i =>
      simp only [List.foldl_cons, St.update, avgStep]
      rw [ih (s + i) (c + 1) hint.2, intSum_cons]
      simp only [intOf, List.length_cons]
      congr 1
      · omega
      · push_cast; omega

/-- hypothesis of the partial theorem: integers only; their exact sum and their number convert to
a double without rounding (nothing is asked of the values or of the intermediate sums) -/
def avgOK (vs : List Val) : Bool :=
  (nonNull vs).all isInt && exactInt (intSum (nonNull vs)) && exactInt ((nonNull vs).length : Int)

/-- P (3), after the repair (the integers are summed exactly, one conversion, one division): then
the coded `avg` is the exact mean rounded once — what the specification demands. -/
theorem avg_eq_spec_partial (vs : List Val) (h : avgOK vs = true) :
    specAgg .avg false vs = .ok (colAgg .avg false vs) := by
  simp only [avgOK, Bool.and_eq_true] at h
  unfold colAgg
  rw [foldl_feed_nonNull _ _ (by simp)]
  simp only [St.init]
  rw [foldl_update_avg 0 0 (nonNull vs) h.1.1]
  simp only [Int.zero_add]
  have hall : (nonNull vs).all isInt = true := h.1.1
  have hspec : specAgg .avg false vs =
      (if (nonNull vs).isEmpty then .ok .null
       else .ok (.float (meanF64 (intSum (nonNull vs)) (nonNull vs).length))) := by
    simp only [specAgg, Bool.false_eq_true, if_false, hall, if_true]
  rw [hspec]
  cases hnn : nonNull vs with
  | nil => simp [St.finalize, avgOut]
  | cons v l =>
    have hlen : 0 < (nonNull vs).length := by rw [hnn]; simp
    have hne : ((nonNull vs).length : Int) ≠ 0 := by omega
    rw [← hnn]
    simp only [St.finalize, avgOut, hne, if_false]
    -- `int_sum as f64 + 0.0` is `int_sum as f64`
    have hz : fadd (ofInt (intSum (nonNull vs))) 0 = ofInt (intSum (nonNull vs)) := by
      have := fadd_exact (intSum (nonNull vs)) 0 h.1.2 (by decide +kernel)
      rw [ofInt_zero, Int.add_zero] at this
      exact this
    rw [hz, fdiv_exact _ _ hlen h.1.2 h.2]
    have hemp : (nonNull vs).isEmpty = false := by rw [hnn]; rfl
    simp only [hemp, Bool.false_eq_true, if_false]

/-- W: the full statement is false. Beyond 2^53 the exact sum is rounded when it is converted and
the quotient is rounded again: (2^53 + 1) / 3 is the integer 3002399751580331, the code returns
3002399751580330.5. And numeric strings enter the mean (specification: type error). -/
theorem avg_not_spec : ¬ ∀ vs : List Val, specAgg .avg false vs = .ok (colAgg .avg false vs) := by
  intro h
  exact absurd (h [.int (2 ^ 53), .int 1, .int 0]) (by decide +kernel)

theorem avg_rounding_witness :
    colAgg .avg false [.int (2 ^ 53), .int 1, .int 0] = .float 0x4325555555555555 ∧
    specAgg .avg false [.int (2 ^ 53), .int 1, .int 0] = .ok (.float 0x4325555555555556) := by
  refine ⟨by decide +kernel, by decide +kernel⟩

theorem avg_numeric_strings_witness :
    colAgg .avg false [.str "3", .int 1] = .float 0x4000000000000000 ∧
    specAgg .avg false [.str "3", .int 1] = .err "type" := by
  refine ⟨by decide +kernel, by decide⟩

/-- N: the hypothesis holds for a column whose running sum passes 2^53 on the way (2^53, 1, 1: the
old running float sum lost both ones); the mean (2^53 + 2) / 3 is exact on both sides. -/
theorem avg_nonvacuous : avgOK [.int (2 ^ 53), .null, .int 1, .int 1] = true ∧
    colAgg .avg false [.int (2 ^ 53), .null, .int 1, .int 1] = .float 4838367199671702871 ∧
    specAgg .avg false [.int (2 ^ 53), .null, .int 1, .int 1] = .ok (.float 4838367199671702871) := by
  refine ⟨by decide +kernel, by decide +kernel, by decide +kernel⟩

/-! ### every integer below 2^53 is exact: the hypothesis of the avg theorem in closed form -/

theorem floorLog2Q_one (n : Nat) (hn : n ≠ 0) : floorLog2Q n 1 = (Nat.log2 n : Int) := by
  let K := bitLength 1 + 1
  obtain ⟨k1, s1⟩ := floorLog2Q_spec n 1 hn (by decide) K (by omega)
  have hlo := Nat.log2_self_le hn
  have hhi := @Nat.lt_log2_self n
  have s2 : IsFloorLog n 1 (Nat.log2 n : Int) K := by
    unfold IsFloorLog
    have e1 : ((K : Int) + (Nat.log2 n : Int)).toNat = Nat.log2 n + K := by omega
    have e2 : ((K : Int) + (Nat.log2 n : Int) + 1).toNat = (Nat.log2 n + 1) + K := by omega
    rw [e1, e2, Nat.pow_add, Nat.pow_add (m := Nat.log2 n + 1)]
    refine ⟨?_, ?_⟩
    · rw [Nat.one_mul]; exact Nat.mul_le_mul_right _ hlo
    · rw [Nat.one_mul]; exact Nat.mul_lt_mul_of_lt_of_le hhi (Nat.le_refl _) (Nat.two_pow_pos K)
  exact isFloorLog_unique n 1 _ _ K k1 (by omega) s1 s2

theorem roundHalfEven_one (N : Nat) : roundHalfEven N 1 = N := by
  unfold roundHalfEven
  simp [Nat.mod_one]

theorem exactBits (neg : Bool) (L M : Nat) (hL : L ≤ 52) (hM : M < 2 ^ 52) :
    F64.expField (signOf neg + ((L + 1023) * 2 ^ 52 + M)) = L + 1023 ∧
    F64.fracField (signOf neg + ((L + 1023) * 2 ^ 52 + M)) = M ∧
    fNeg (signOf neg + ((L + 1023) * 2 ^ 52 + M)) = neg := by
  cases neg
  · simp only [signOf, Bool.false_eq_true, ↓reduceIte, F64.expField, F64.fracField, fNeg, F64.signBit]
    refine ⟨by omega, by omega, ?_⟩
    simp
    omega
  · simp only [signOf, ↓reduceIte, F64.expField, F64.fracField, fNeg, F64.signBit]
    refine ⟨by omega, by omega, ?_⟩
    simp
    omega

/-- F: every integer of magnitude below 2^53 converts to a double without rounding. -/
theorem exactInt_small (i : Int) (h : i.natAbs < 2 ^ 53) : exactInt i = true := by
  by_cases h0 : i = 0
  · subst h0; decide +kernel
  have hn : i.natAbs ≠ 0 := by omega
  generalize hnd : i.natAbs = n at *
  have hlo := Nat.log2_self_le hn
  have hhi := @Nat.lt_log2_self n
  generalize hLd : Nat.log2 n = L at *
  have hL : L ≤ 52 := by
    apply Classical.byContradiction
    intro hc
    have : 2 ^ 53 ≤ 2 ^ L := Nat.pow_le_pow_right (by decide) (by omega)
    omega
  -- the scaled mantissa
  have hNlo : 2 ^ 52 ≤ n * 2 ^ (52 - L) := by
    have := Nat.mul_le_mul_right (2 ^ (52 - L)) hlo
    rw [← Nat.pow_add, show L + (52 - L) = 52 by omega] at this
    exact this
  have hNhi : n * 2 ^ (52 - L) < 2 ^ 53 := by
    have := Nat.mul_lt_mul_of_lt_of_le hhi (Nat.le_refl (2 ^ (52 - L))) (Nat.two_pow_pos _)
    rw [← Nat.pow_add, show L + 1 + (52 - L) = 53 by omega] at this
    exact this
  have hof : ofInt i = signOf (decide (i < 0)) + ((L + 1023) * 2 ^ 52 + (n * 2 ^ (52 - L) - 2 ^ 52)) := by
    unfold ofInt
    rw [hnd, roundQ_pos _ _ _ hn (by decide), floorLog2Q_one n hn, hLd]
    unfold roundCore
    have e1 : ((L : Int) ≥ -1022) := by omega
    have e2 : ((52 : Int) - (L : Int) ≥ 0) := by omega
    have e3 : ((52 : Int) - (L : Int)).toNat = 52 - L := by omega
    have e4 : ((L : Int) + 1022).toNat = L + 1022 := by omega
    simp only [e1, e2, if_true, e3, e4, roundHalfEven_one]
    have hlt : ¬ ((L + 1022) * 2 ^ 52 + n * 2 ^ (52 - L) ≥ fInf) := by
      unfold fInf
      omega
    simp only [hlt, if_false]
    omega
  obtain ⟨hE, hF, hS⟩ := exactBits (decide (i < 0)) L (n * 2 ^ (52 - L) - 2 ^ 52) hL (by omega)
  unfold exactInt
  rw [hof, hE, hS]
  have hq : toQ (signOf (decide (i < 0)) + ((L + 1023) * 2 ^ 52 + (n * 2 ^ (52 - L) - 2 ^ 52))) =
      if L = 52 then (n, 1) else (n * 2 ^ (52 - L), 2 ^ (52 - L)) := by
    unfold toQ
    simp only [hE, hF]
    have hne : ¬ (L + 1023 = 0) := by omega
    simp only [hne, if_false]
    by_cases h52 : L = 52
    · subst h52
      have hge : (52 + 1023 ≥ 1075) := by omega
      simp only [hge, if_true, Nat.sub_self, Nat.pow_zero, Nat.mul_one]
      simp only [Nat.sub_self, Nat.pow_zero, Nat.mul_one] at hNlo
      simp only [Prod.mk.injEq, and_true]
      omega
    · have hlt : ¬ (L + 1023 ≥ 1075) := by omega
      have e5 : 1075 - (L + 1023) = 52 - L := by omega
      simp only [hlt, if_false, h52, e5, Prod.mk.injEq, and_true]
      omega
  rw [hq, hnd]
  by_cases h52 : L = 52
  · simp [h52]
  · simp [h52]
    omega

/-- P (3): over integers whose exact sum is below 2^53 in magnitude (fewer than 2^53 of them),
the coded `avg` is the exact mean, rounded once to the nearest double. -/
theorem avg_eq_spec_small (vs : List Val) (hint : (nonNull vs).all isInt = true)
    (hsum : (intSum (nonNull vs)).natAbs < 2 ^ 53) (hlen : (nonNull vs).length < 2 ^ 53) :
    specAgg .avg false vs = .ok (colAgg .avg false vs) := by
  apply avg_eq_spec_partial
  simp only [avgOK, Bool.and_eq_true]
  exact ⟨⟨hint, exactInt_small _ hsum⟩, exactInt_small _ (by simpa using hlen)⟩

/-- N -/
theorem avg_small_nonvacuous : (intSum (nonNull [.int 7, .null, .int (-4), .int 2])).natAbs < 2 ^ 53 ∧
    specAgg .avg false [.int 7, .null, .int (-4), .int 2] = .ok (.float 0x3ffaaaaaaaaaaaab) := by
  refine ⟨by decide, by decide +kernel⟩


end Grafeo.QueryAgg
