import GrafeoModel.Proofs.LpgLemmas

/-!
# C14 — every access path to the property graph tells the same story (label paths)

Store-level histories: every mutating call of the non-transactional `LpgStore` API, in any
order and number. Proved here for **all** such histories: the label lookup returns exactly the
live nodes carrying the label (`c14_label_lookup_eq_live_nodes_with_label`). The adjacency,
property-index and count paths are compared with a plain-graph specification by the
correspondence stream (see the known findings for what they reveal).
-/

namespace Grafeo.Lpg

/-- the mutating store-level API (non-transactional entry points: store epoch, SYSTEM tx) -/
inductive Op where
  | createNode (labels : List Nat)
  | deleteNode (id : Nat)
  | deleteNodeEdges (id : Nat)
  | createEdge (src dst ty : Nat)
  | deleteEdge (id : Nat)
  | setNodeProp (id key : Nat) (v : String)
  | removeNodeProp (id key : Nat)
  | setEdgeProp (id key : Nat) (v : String)
  | addLabel (id l : Nat)
  | removeLabel (id l : Nat)
  | createIndex (key : Nat)
  | dropIndex (key : Nat)

def step (s : Store) : Op → Store
  | .createNode ls => (s.createNode ls s.epoch systemTx).1
  | .deleteNode id => (s.deleteNodeAt id s.epoch).1
  | .deleteNodeEdges id => s.deleteNodeEdges id
  | .createEdge a b t => (s.createEdge a b t s.epoch systemTx).1
  | .deleteEdge id => (s.deleteEdgeAt id s.epoch).1
  | .setNodeProp id k v => s.setNodeProp id k v
  | .removeNodeProp id k => (s.removeNodeProp id k).1
  | .setEdgeProp id k v => s.setEdgeProp id k v
  | .addLabel id l => (s.addLabel id l).1
  | .removeLabel id l => (s.removeLabel id l).1
  | .createIndex k => s.createIndex k
  | .dropIndex k => s.dropIndex k

def run (hasBwd : Bool) (ops : List Op) : Store := ops.foldl step { hasBwd := hasBwd }

/-- the part of the state the label paths depend on -/
structure LabelInv (s : Store) : Prop where
  mirror : Mirror s
  fresh : Fresh s
  live : ∀ id l, hasLabel s id l → ∃ c, aget s.nodes id = some c ∧ chainVisibleAt c s.epoch = true
  epoch0 : s.epoch = 0

/-- an operation that leaves the label tables, the node table and the counters alone -/
theorem labelInv_of_same (s s' : Store) (h : LabelInv s)
    (h1 : s'.labelIdx = s.labelIdx) (h2 : s'.nodeLabels = s.nodeLabels) (h3 : s'.nodes = s.nodes)
    (h4 : s'.nextNode = s.nextNode) (h5 : s'.epoch = s.epoch) : LabelInv s' := by
  refine ⟨?_, ?_, ?_, by rw [h5]; exact h.epoch0⟩
  · intro l id; unfold hasLabel Store.nodeLabelsOf; rw [h1, h2]; exact h.mirror l id
  · intro id hid
    rw [h4] at hid
    obtain ⟨a, b, c⟩ := h.fresh id hid
    rw [h2, h3, h1]; exact ⟨a, b, c⟩
  · intro id l hl
    unfold hasLabel Store.nodeLabelsOf at hl
    rw [h2] at hl
    obtain ⟨c, hc1, hc2⟩ := h.live id l hl
    exact ⟨c, by rw [h3]; exact hc1, by rw [h5]; exact hc2⟩

theorem deleteEdgeAt_same (s : Store) (e ep : Nat) :
    (s.deleteEdgeAt e ep).1.labelIdx = s.labelIdx ∧ (s.deleteEdgeAt e ep).1.nodeLabels = s.nodeLabels ∧
    (s.deleteEdgeAt e ep).1.nodes = s.nodes ∧ (s.deleteEdgeAt e ep).1.nextNode = s.nextNode ∧
    (s.deleteEdgeAt e ep).1.epoch = s.epoch := by
  unfold Store.deleteEdgeAt
  split
  · exact ⟨rfl, rfl, rfl, rfl, rfl⟩
  · split <;> exact ⟨rfl, rfl, rfl, rfl, rfl⟩

theorem labelInv_init (b : Bool) : LabelInv { hasBwd := b } := by
  refine ⟨?_, ?_, ?_, rfl⟩
  · intro l id; simp [inIdx, hasLabel, Store.nodeLabelsOf, aget]
  · intro id _; simp [inIdx, aget]
  · intro id l h; simp [hasLabel, Store.nodeLabelsOf, aget] at h

theorem labelInv_createNode (s : Store) (ls : List Nat) (tx : Nat) (h : LabelInv s) :
    LabelInv (s.createNode ls s.epoch tx).1 := by
  have hfr := h.fresh s.nextNode (Nat.le_refl _)
  have hidx : (s.createNode ls s.epoch tx).1.labelIdx = idxInsertAll s.labelIdx ls s.nextNode := rfl
  have hnl : (s.createNode ls s.epoch tx).1.nodeLabels = aset s.nodeLabels s.nextNode (ls.foldl sinsert []) := rfl
  have hnodes : (s.createNode ls s.epoch tx).1.nodes = aset s.nodes s.nextNode [⟨s.epoch, tx, none⟩] := rfl
  have hnext : (s.createNode ls s.epoch tx).1.nextNode = s.nextNode + 1 := rfl
  have hep : (s.createNode ls s.epoch tx).1.epoch = s.epoch := rfl
  refine ⟨?_, ?_, ?_, by rw [hep]; exact h.epoch0⟩
  · intro l id
    unfold hasLabel Store.nodeLabelsOf
    rw [hidx, hnl, inIdx_insertAll, aget_aset]
    by_cases hid : id = s.nextNode
    · subst hid
      simp only [if_true, Option.getD_some, mem_foldl_sinsert, List.not_mem_nil, or_false, true_and]
      constructor
      · rintro (a | a)
        · exact a
        · exact absurd a (hfr.2.2 l)
      · exact Or.inl
    · simp only [hid, if_false, false_and, false_or]
      exact h.mirror l id
  · intro id hid
    rw [hnext] at hid
    have hne : id ≠ s.nextNode := by omega
    obtain ⟨a, b, c⟩ := h.fresh id (by omega)
    refine ⟨by rw [hnl, aget_aset]; simp [hne, a], by rw [hnodes, aget_aset]; simp [hne, b], ?_⟩
    intro l
    rw [hidx, inIdx_insertAll]
    rintro (⟨e, _⟩ | e)
    · exact hne e
    · exact c l e
  · intro id l hl
    unfold hasLabel Store.nodeLabelsOf at hl
    rw [hnl, aget_aset] at hl
    rw [hnodes, hep]
    by_cases hid : id = s.nextNode
    · subst hid
      refine ⟨[⟨s.epoch, tx, none⟩], by rw [aget_aset]; simp, ?_⟩
      simp [chainVisibleAt, Ver.visibleAt]
    · simp only [hid, if_false] at hl
      obtain ⟨c, hc1, hc2⟩ := h.live id l hl
      exact ⟨c, by rw [aget_aset]; simp [hid, hc1], hc2⟩

theorem labelInv_deleteNode (s : Store) (id : Nat) (h : LabelInv s) :
    LabelInv (s.deleteNodeAt id s.epoch).1 := by
  unfold Store.deleteNodeAt
  cases hg : aget s.nodes id with
  | none => exact h
  | some c =>
    simp only
    split
    · exact h
    · have hidlt : id < s.nextNode := by
        apply Nat.lt_of_not_le
        intro hle
        have := (h.fresh id hle).2.1
        rw [hg] at this; exact absurd this (by simp)
      refine ⟨?_, ?_, ?_, h.epoch0⟩
      · intro l x
        show inIdx (idxEraseAll s.labelIdx (s.nodeLabelsOf id) id) l x ↔ _
        rw [inIdx_eraseAll]
        unfold hasLabel Store.nodeLabelsOf
        simp only [aget_aerase]
        by_cases hx : x = id
        · subst hx
          simp only [if_true, Option.getD_none, List.not_mem_nil, iff_false, true_and]
          rintro ⟨hin, hn⟩
          exact hn ((h.mirror l x).mp hin)
        · simp only [hx, if_false, false_and, not_false_eq_true, and_true]
          exact h.mirror l x
      · intro x hx
        have hx' : s.nextNode ≤ x := hx
        obtain ⟨a, b, c'⟩ := h.fresh x hx'
        have hne : x ≠ id := by omega
        refine ⟨by simp only [aget_aerase, hne, if_false]; exact a,
                by simp only [aget_aset, hne, if_false]; exact b, ?_⟩
        intro l
        show ¬ inIdx (idxEraseAll s.labelIdx (s.nodeLabelsOf id) id) l x
        rw [inIdx_eraseAll]
        rintro ⟨e, _⟩
        exact c' l e
      · intro x l hl
        unfold hasLabel Store.nodeLabelsOf at hl
        simp only [aget_aerase] at hl
        by_cases hx : x = id
        · simp [hx] at hl
        · simp only [hx, if_false] at hl
          obtain ⟨c', hc1, hc2⟩ := h.live x l hl
          exact ⟨c', by simp only [aget_aset, hx, if_false]; exact hc1, hc2⟩

theorem labelInv_addLabel (s : Store) (id l : Nat) (h : LabelInv s) : LabelInv (s.addLabel id l).1 := by
  unfold Store.addLabel
  cases hg : aget s.nodes id with
  | none => exact h
  | some c =>
    simp only
    split
    · exact h
    · rename_i hvis
      split
      · exact h
      · rename_i hnot
        have hidlt : id < s.nextNode := by
          apply Nat.lt_of_not_le
          intro hle
          have := (h.fresh id hle).2.1
          rw [hg] at this; exact absurd this (by simp)
        refine ⟨?_, ?_, ?_, h.epoch0⟩
        · intro l' x
          unfold inIdx hasLabel Store.nodeLabelsOf
          simp only [aget_aset]
          by_cases hl : l' = l
          · subst hl
            simp only [if_true, Option.getD_some, mem_sinsert]
            by_cases hx : x = id
            · subst hx; simp
            · simp only [hx, if_false, false_or]
              exact h.mirror l' x
          · simp only [hl, if_false]
            by_cases hx : x = id
            · subst hx
              simp only [if_true, Option.getD_some, List.mem_append, List.mem_singleton, hl, or_false]
              exact h.mirror l' x
            · simp only [hx, if_false]
              exact h.mirror l' x
        · intro x hx
          have hx' : s.nextNode ≤ x := hx
          obtain ⟨a, b, c'⟩ := h.fresh x hx'
          have hne : x ≠ id := by omega
          refine ⟨by simp only [aget_aset, hne, if_false]; exact a, b, ?_⟩
          intro l'
          unfold inIdx
          simp only [aget_aset]
          by_cases hl : l' = l
          · simp only [hl, if_true, Option.getD_some, mem_sinsert, hne, false_or]
            exact c' l
          · simp only [hl, if_false]; exact c' l'
        · intro x l' hl
          unfold hasLabel Store.nodeLabelsOf at hl
          simp only [aget_aset] at hl
          by_cases hx : x = id
          · subst hx
            exact ⟨c, hg, by simpa using hvis⟩
          · simp only [hx, if_false] at hl
            exact h.live x l' hl

theorem labelInv_removeLabel (s : Store) (id l : Nat) (h : LabelInv s) :
    LabelInv (s.removeLabel id l).1 := by
  unfold Store.removeLabel
  cases hg : aget s.nodes id with
  | none => exact h
  | some c =>
    simp only
    split
    · exact h
    · cases hnl : aget s.nodeLabels id with
        | none => exact h
        | some ls =>
          simp only
          split
          · exact h
          · rename_i hmem
            have hmem' : l ∈ ls := by
              apply Classical.byContradiction; intro hn; exact hmem hn
            have hin : inIdx s.labelIdx l id := (h.mirror l id).mpr (by
              unfold hasLabel Store.nodeLabelsOf; rw [hnl]; exact hmem')
            obtain ⟨set, hset⟩ : ∃ set, aget s.labelIdx l = some set := by
              unfold inIdx at hin
              cases hh : aget s.labelIdx l with
              | none => rw [hh] at hin; simp at hin
              | some set => exact ⟨set, rfl⟩
            simp only [hset]
            refine ⟨?_, ?_, ?_, h.epoch0⟩
            · intro l' x
              unfold inIdx hasLabel Store.nodeLabelsOf
              simp only [aget_aset]
              have hm := h.mirror l' x
              unfold inIdx hasLabel Store.nodeLabelsOf at hm
              by_cases hl : l' = l
              · subst hl
                simp only [if_true, Option.getD_some, mem_serase]
                rw [hset] at hm
                simp only [Option.getD_some] at hm
                by_cases hx : x = id
                · subst hx
                  simp [mem_serase]
                · simp only [hx, if_false, ne_eq, not_false_eq_true, true_and]
                  exact hm
              · simp only [hl, if_false]
                by_cases hx : x = id
                · subst hx
                  simp only [if_true, Option.getD_some, mem_serase, ne_eq, hl, not_false_eq_true, true_and]
                  rw [hnl] at hm; simpa using hm
                · simp only [hx, if_false]; exact hm
            · intro x hx
              have hx' : s.nextNode ≤ x := hx
              obtain ⟨a, b, c'⟩ := h.fresh x hx'
              have hidlt : id < s.nextNode := by
                apply Nat.lt_of_not_le
                intro hle
                have := (h.fresh id hle).2.1
                rw [hg] at this; exact absurd this (by simp)
              have hne : x ≠ id := by omega
              refine ⟨by simp only [aget_aset, hne, if_false]; exact a, b, ?_⟩
              intro l'
              unfold inIdx
              simp only [aget_aset]
              by_cases hl : l' = l
              · simp only [hl, if_true, Option.getD_some, mem_serase]
                rintro ⟨_, e⟩
                have := c' l
                unfold inIdx at this
                rw [hset] at this
                exact this e
              · simp only [hl, if_false]; exact c' l'
            · intro x l' hl
              unfold hasLabel Store.nodeLabelsOf at hl
              simp only [aget_aset] at hl
              by_cases hx : x = id
              · subst hx
                simp only [if_true, Option.getD_some, mem_serase] at hl
                exact h.live x l' (by unfold hasLabel Store.nodeLabelsOf; rw [hnl]; exact hl.2)
              · simp only [hx, if_false] at hl
                exact h.live x l' hl

theorem labelInv_step (s : Store) (op : Op) (h : LabelInv s) : LabelInv (step s op) := by
  cases op with
  | createNode ls => exact labelInv_createNode s ls systemTx h
  | deleteNode id => exact labelInv_deleteNode s id h
  | addLabel id l => exact labelInv_addLabel s id l h
  | removeLabel id l => exact labelInv_removeLabel s id l h
  | createEdge a b t => exact labelInv_of_same s _ h rfl rfl rfl rfl rfl
  | deleteEdge id =>
    obtain ⟨a, b, c, d, e⟩ := deleteEdgeAt_same s id s.epoch
    exact labelInv_of_same s _ h a b c d e
  | setNodeProp id k v =>
    simp only [step, Store.setNodeProp]
    split
    · exact h
    · exact labelInv_of_same s _ h rfl rfl rfl rfl rfl
  | removeNodeProp id k => exact labelInv_of_same s _ h rfl rfl rfl rfl rfl
  | setEdgeProp id k v =>
    simp only [step, Store.setEdgeProp]
    split
    · exact h
    · exact labelInv_of_same s _ h rfl rfl rfl rfl rfl
  | createIndex k =>
    simp only [step, Store.createIndex]
    split
    · exact h
    · exact labelInv_of_same s _ h rfl rfl rfl rfl rfl
  | dropIndex k => exact labelInv_of_same s _ h rfl rfl rfl rfl rfl
  | deleteNodeEdges id =>
    simp only [step, Store.deleteNodeEdges]
    generalize ((s.outEdges id).map (·.2) ++ (s.inEdges id).map (·.2)) = es
    induction es generalizing s with
    | nil => exact h
    | cons e es ih =>
      simp only [List.foldl_cons]
      apply ih
      obtain ⟨a, b, c, d, e'⟩ := deleteEdgeAt_same s e s.epoch
      exact labelInv_of_same s _ h a b c d e'

theorem labelInv_run (b : Bool) (ops : List Op) : LabelInv (run b ops) := by
  unfold run
  have : ∀ s, LabelInv s → LabelInv (ops.foldl step s) := by
    induction ops with
    | nil => intro s h; exact h
    | cons op ops ih => intro s h; exact ih _ (labelInv_step s op h)
  exact this _ (labelInv_init b)

/-- F: after **any** sequence of store-level mutations, the nodes found by a label lookup are
exactly the live nodes carrying that label (as reported by `get_node`). -/
theorem c14_label_lookup_eq_live_nodes_with_label (b : Bool) (ops : List Op) (l id : Nat) :
    id ∈ (run b ops).nodesByLabel l ↔
      ∃ ls ps, (run b ops).getNodeAt id (run b ops).epoch = some (ls, ps) ∧ l ∈ ls := by
  have h := labelInv_run b ops
  generalize run b ops = s at *
  constructor
  · intro hin
    have hl : hasLabel s id l := (h.mirror l id).mp hin
    obtain ⟨c, hc1, hc2⟩ := h.live id l hl
    refine ⟨s.nodeLabelsOf id, s.nodePropsOf id, ?_, hl⟩
    unfold Store.getNodeAt
    rw [hc1]; simp [hc2]
  · rintro ⟨ls, ps, hget, hl⟩
    apply (h.mirror l id).mpr
    unfold Store.getNodeAt at hget
    cases hg : aget s.nodes id with
    | none => rw [hg] at hget; simp at hget
    | some c =>
      rw [hg] at hget
      simp only at hget
      split at hget
      · simp at hget; obtain ⟨rfl, _⟩ := hget; exact hl
      · simp at hget

/-- F: a deleted node is never listed under any label, and identifiers are never reused. -/
theorem c14_deleted_node_not_in_label_index (b : Bool) (ops : List Op) (l id : Nat)
    (hdead : (run b ops).getNodeAt id (run b ops).epoch = none) : id ∉ (run b ops).nodesByLabel l := by
  intro hin
  obtain ⟨ls, ps, hget, _⟩ := (c14_label_lookup_eq_live_nodes_with_label b ops l id).mp hin
  rw [hdead] at hget; simp at hget

/-- W: `delete_node` (no detach) leaves the node in its neighbours' adjacency lists. R (repaired):
a property set on an id that does not exist yet is no longer inherited by the node later created
with it, nor is one set on a deleted node kept. -/
theorem c14_known_deviation_witnesses :
    (run true [.createNode [], .createNode [], .createEdge 0 1 0, .deleteNode 1]).outEdges 0 = [(1, 0)] ∧
    ((run true [.setNodeProp 0 7 "I1", .createNode []]).getNodeAt 0 0) = some ([], []) ∧
    ((run true [.createNode [], .deleteNode 0, .setNodeProp 0 7 "I1"]).nodePropsOf 0) = [] := by
  decide

/-- N -/
example : (run true [.createNode [1, 2], .createNode [2], .removeLabel 0 2, .deleteNode 1]).nodesByLabel 2 = [] ∧
    (run true [.createNode [1, 2], .createNode [2], .removeLabel 0 2, .deleteNode 1]).nodesByLabel 1 = [0] := by decide

end Grafeo.Lpg
