import GrafeoModel.Proofs.JoinLemmas
/-!
C08, join operators (stream `join`): the rows `HashJoinOperator` / `NestedLoopJoinOperator`
return are the rows of the relational definition of the join, in the order "probe (left) rows in
input order, for each its matches in build (right) insertion order", for EVERY chunking of both
inputs and EVERY output capacity ≥ 1 — the resume logic at a full output chunk neither drops nor
repeats a row. The match relation of the hash join is `hmatch` (equal `HashKey`s); where it
differs from the `=` of the query languages is stated by witnesses below.
-/
namespace Grafeo.Join
open Grafeo.Ops2 (Val)

/-- what a hash-join state still has to return -/
def hjRem (E : Env) (s : HState) : List Row :=
  match s.unm with
  | some u => u
  | none => remRows E (s.cur.getD []) s.pend ++ s.probe.flatMap fun c => c.flatMap (rowOut E)

theorem pullLoop_spec (E : Env) (hcap : 1 ≤ E.cap) (ht : E.jt.tracksBuild = false) (cs : List Chunk) :
    ∀ bm, match pullLoop E cs bm with
      | (none, _) => (cs.flatMap fun c => c.flatMap (rowOut E)) = []
      | (some c, s') => c ≠ [] ∧ (cs.flatMap fun c => c.flatMap (rowOut E)) = c ++ hjRem E s' ∧ s'.unm = none := by
  induction cs with
  | nil => intro bm; simp [pullLoop, ht]
  | cons c cs ih =>
    intro bm
    unfold pullLoop
    obtain ⟨e1, e2, e3⟩ := probeLoop_spec E hcap c none [] bm
    generalize probeLoop E c none [] bm = r at e1 e2 e3
    have hc : remRows E c none = c.flatMap (rowOut E) := by cases c <;> simp [remRows]
    simp only [List.nil_append, hc] at e1
    simp only
    by_cases hf : r.full = true
    · simp only [hf, if_true]
      refine ⟨e3 hf, ?_, by simp⟩
      simp [hjRem, List.flatMap_cons, ← e1, List.append_assoc]
    · have hf' : r.full = false := by simpa using hf
      obtain ⟨h1, h2⟩ := e2 hf'
      simp only [hf', Bool.false_eq_true, if_false]
      rw [h1, h2] at e1
      by_cases hb : r.b = []
      · simp only [hb, ne_eq, not_true_eq_false, if_false]
        have := ih r.bm
        rw [hb] at e1
        simp only [remRows, List.append_nil] at e1
        simp only [List.flatMap_cons, ← e1, List.nil_append]
        exact this
      · simp only [ne_eq, hb, not_false_eq_true, if_true]
        refine ⟨by simp [hb], ?_, by simp⟩
        simp only [remRows, List.append_nil] at e1
        simp [hjRem, List.flatMap_cons, ← e1, remRows]

theorem hjNext_spec (E : Env) (hcap : 1 ≤ E.cap) (ht : E.jt.tracksBuild = false) (s : HState)
    (hs : s.unm = none) :
    match hjNext E s with
    | (none, _) => hjRem E s = []
    | (some c, s') => c ≠ [] ∧ hjRem E s = c ++ hjRem E s' ∧ s'.unm = none := by
  unfold hjNext
  rw [hs]
  simp only
  cases hcur : s.cur with
  | none =>
    simp only
    have := pullLoop_spec E hcap ht s.probe s.bm
    have hr : hjRem E s = s.probe.flatMap fun c => c.flatMap (rowOut E) := by
      simp [hjRem, hs, hcur, remRows]
    rw [hr]; exact this
  | some rest =>
    simp only
    obtain ⟨e1, e2, e3⟩ := probeLoop_spec E hcap rest s.pend [] s.bm
    generalize probeLoop E rest s.pend [] s.bm = r at e1 e2 e3
    simp only [List.nil_append] at e1
    have hr : hjRem E s = remRows E rest s.pend ++ s.probe.flatMap fun c => c.flatMap (rowOut E) := by
      simp [hjRem, hs, hcur]
    rw [hr, ← e1]
    by_cases hf : r.full = true
    · simp only [hf, if_true]
      exact ⟨e3 hf, by simp [hjRem, List.append_assoc], by simp⟩
    · have hf' : r.full = false := by simpa using hf
      obtain ⟨h1, h2⟩ := e2 hf'
      simp only [hf', Bool.false_eq_true, if_false, h1, h2, remRows, List.append_nil]
      by_cases hb : r.b = []
      · simp only [hb, ne_eq, not_true_eq_false, if_false, List.nil_append]
        exact pullLoop_spec E hcap ht s.probe r.bm
      · simp only [ne_eq, hb, not_false_eq_true, if_true]
        exact ⟨by simp [hb], by simp [hjRem, remRows], by simp⟩

/-- per probe row, in terms of the build rows: the relational reading of `rowOut` -/
def rowSpec (jt : JT) (θ : Row → Row → Bool) (pad : Row) (R : List Row) (l : Row) : List Row :=
  if jt = .semi then (if R.any (θ l) then [l] else [])
  else if jt = .anti then (if R.any (θ l) then [] else [l])
  else if R.filter (θ l) = [] then (if jt.padsLeft then [l ++ pad] else [])
  else (R.filter (θ l)).map (l ++ ·)

theorem rowOut_eq (jt : JT) (pk bk : List Nat) (cap lcols rcols : Nat) (build : List Chunk) (l : Row) :
    rowOut (mkEnv jt pk bk cap lcols rcols build) l =
      rowSpec jt (hmatch jt pk bk) (mkEnv jt pk bk cap lcols rcols build).pad build.flatten l := by
  have hg := get_buildTable jt bk build (extractKey pk l)
  have hh := has_buildTable jt bk build (extractKey pk l)
  have he : enters jt bk (extractKey pk l) = hmatch jt pk bk l := by
    funext r; rfl
  rw [he] at hg hh
  unfold rowOut rowSpec
  simp only [mkEnv]
  by_cases h1 : jt = .semi
  · subst h1; simp [hh]
  · by_cases h2 : jt = .anti
    · subst h2; simp [hh]
    · simp only [h1, h2, if_false]
      by_cases h3 : (buildTable jt bk build).get (extractKey pk l) = []
      · have h4 : List.filter (hmatch jt pk bk l) build.flatten = [] := by rw [← hg, h3]; rfl
        by_cases hp : jt.padsLeft = true <;> simp [h3, h4, hp]
      · have h4 : List.filter (hmatch jt pk bk l) build.flatten ≠ [] := by rw [← hg]; simpa using h3
        simp [h3, h4, ← hg, List.map_map, Function.comp_def]

theorem flatten_flatMap {α β : Type} (f : α → List β) (cs : List (List α)) :
    cs.flatten.flatMap f = cs.flatMap fun c => c.flatMap f := by
  induction cs with
  | nil => rfl
  | cons c cs ih => simp [List.flatMap_cons, List.flatMap_append, ih]

/-- **Main theorem (hash join, every join type without an unmatched-build phase).** For all key
columns, all inputs, every chunking of the probe and of the build input and every output capacity
≥ 1, the operator terminates (`finished`), the concatenation of its output chunks is, as a
sequence, the probe rows in order, each replaced by what the join type prescribes (`rowSpec`
over ALL build rows with the relation `hmatch`), and no output chunk is empty. -/
theorem hashJoin_rows (jt : JT) (pk bk : List Nat) (cap lcols rcols : Nat) (probe build : List Chunk)
    (hcap : 1 ≤ cap) (ht : jt.tracksBuild = false) (fuel : Nat)
    (hfuel : (probe.flatten.flatMap (rowSpec jt (hmatch jt pk bk)
        (mkEnv jt pk bk cap lcols rcols build).pad build.flatten)).length < fuel) :
    (hashJoin jt pk bk cap lcols rcols probe build fuel).2 = true ∧
    (hashJoin jt pk bk cap lcols rcols probe build fuel).1.flatten =
      probe.flatten.flatMap (rowSpec jt (hmatch jt pk bk)
        (mkEnv jt pk bk cap lcols rcols build).pad build.flatten) ∧
    ∀ c ∈ (hashJoin jt pk bk cap lcols rcols probe build fuel).1, c ≠ [] := by
  have hinit : hjRem (mkEnv jt pk bk cap lcols rcols build) (hjInit jt probe build) =
      probe.flatten.flatMap (rowSpec jt (hmatch jt pk bk)
        (mkEnv jt pk bk cap lcols rcols build).pad build.flatten) := by
    have hfun : rowOut (mkEnv jt pk bk cap lcols rcols build) = rowSpec jt (hmatch jt pk bk)
        (mkEnv jt pk bk cap lcols rcols build).pad build.flatten :=
      funext (rowOut_eq jt pk bk cap lcols rcols build)
    simp only [hjRem, hjInit, Option.getD_none, remRows, List.nil_append]
    rw [hfun, flatten_flatMap]
  have := drain_spec (hjNext (mkEnv jt pk bk cap lcols rcols build))
    (hjRem (mkEnv jt pk bk cap lcols rcols build)) (fun s => s.unm = none)
    (fun s hs => by
      have := hjNext_spec (mkEnv jt pk bk cap lcols rcols build) hcap ht s hs
      rcases hn : hjNext (mkEnv jt pk bk cap lcols rcols build) s with ⟨o, s'⟩
      rw [hn] at this
      cases o <;> exact this) fuel (hjInit jt probe build) rfl (by rw [hinit]; exact hfuel)
  rw [hinit] at this
  exact this

theorem flatMap_ite_eq_filter {α : Type} (p : α → Bool) (xs : List α) :
    xs.flatMap (fun x => if p x then [x] else []) = xs.filter p := by
  induction xs with
  | nil => rfl
  | cons x xs ih => by_cases h : p x <;> simp [List.flatMap_cons, List.filter_cons, h, ih]

theorem flatMap_congr' {α β : Type} {f g : α → List β} (xs : List α) (h : ∀ x ∈ xs, f x = g x) :
    xs.flatMap f = xs.flatMap g := by
  induction xs with
  | nil => rfl
  | cons x xs ih =>
    simp only [List.flatMap_cons]
    rw [h x (by simp), ih (fun y hy => h y (by simp [hy]))]

/-- INNER (and CROSS, which the operator treats alike): the relational inner join under `hmatch` -/
theorem hashJoin_inner (jt : JT) (hj : jt = .inner ∨ jt = .cross) (pk bk : List Nat) (cap lcols rcols : Nat)
    (probe build : List Chunk) (hcap : 1 ≤ cap) (fuel : Nat)
    (hfuel : (Spec.inner (hmatch jt pk bk) probe.flatten build.flatten).length < fuel) :
    (hashJoin jt pk bk cap lcols rcols probe build fuel).2 = true ∧
    (hashJoin jt pk bk cap lcols rcols probe build fuel).1.flatten =
      Spec.inner (hmatch jt pk bk) probe.flatten build.flatten := by
  have hs : ∀ pad, probe.flatten.flatMap (rowSpec jt (hmatch jt pk bk) pad build.flatten) =
      Spec.inner (hmatch jt pk bk) probe.flatten build.flatten := by
    intro pad
    unfold Spec.inner
    congr 1; funext l
    unfold rowSpec
    by_cases h : List.filter (hmatch jt pk bk l) build.flatten = [] <;>
      rcases hj with rfl | rfl <;> simp [JT.padsLeft, h]
  have ht : jt.tracksBuild = false := by rcases hj with rfl | rfl <;> rfl
  have := hashJoin_rows jt pk bk cap lcols rcols probe build hcap ht fuel (by rw [hs]; exact hfuel)
  rw [hs] at this
  exact ⟨this.1, this.2.1⟩

/-- no key columns: every pair matches, the join is the cartesian product -/
theorem hashJoin_cross (jt : JT) (hj : jt = .inner ∨ jt = .cross) (cap lcols rcols : Nat)
    (probe build : List Chunk) (hcap : 1 ≤ cap) (fuel : Nat)
    (hfuel : (Spec.cross probe.flatten build.flatten).length < fuel) :
    (hashJoin jt [] [] cap lcols rcols probe build fuel).1.flatten =
      Spec.cross probe.flatten build.flatten := by
  have hm : hmatch jt [] [] = fun _ _ => true := by
    funext l r; simp [hmatch, extractKey]
  have := hashJoin_inner jt hj [] [] cap lcols rcols probe build hcap fuel (by rw [hm]; exact hfuel)
  rw [hm] at this
  exact this.2

/-- LEFT OUTER with a build side that delivered at least one chunk: an unmatched probe row is
padded with `rcols` NULLs, in the place of its matches -/
theorem hashJoin_left (pk bk : List Nat) (cap lcols rcols : Nat) (probe build : List Chunk)
    (hcap : 1 ≤ cap) (hb : build ≠ []) (fuel : Nat)
    (hfuel : (Spec.leftOuter (hmatch .left pk bk) rcols probe.flatten build.flatten).length < fuel) :
    (hashJoin .left pk bk cap lcols rcols probe build fuel).2 = true ∧
    (hashJoin .left pk bk cap lcols rcols probe build fuel).1.flatten =
      Spec.leftOuter (hmatch .left pk bk) rcols probe.flatten build.flatten := by
  have hpad : (mkEnv .left pk bk cap lcols rcols build).pad = nulls rcols := by
    cases build with
    | nil => exact absurd rfl hb
    | cons c cs => simp [Env.pad, mkEnv]
  have hs : probe.flatten.flatMap (rowSpec .left (hmatch .left pk bk)
      (mkEnv .left pk bk cap lcols rcols build).pad build.flatten) =
      Spec.leftOuter (hmatch .left pk bk) rcols probe.flatten build.flatten := by
    rw [hpad]
    unfold Spec.leftOuter
    apply flatMap_congr'
    intro l _
    unfold rowSpec
    by_cases h : List.filter (hmatch .left pk bk l) build.flatten = [] <;> simp [JT.padsLeft, h]
  have := hashJoin_rows .left pk bk cap lcols rcols probe build hcap rfl fuel (by rw [hs]; exact hfuel)
  rw [hs] at this
  exact ⟨this.1, this.2.1⟩

/-- SEMI: the probe rows with at least one match, each once, in input order -/
theorem hashJoin_semi (pk bk : List Nat) (cap lcols rcols : Nat) (probe build : List Chunk)
    (hcap : 1 ≤ cap) (fuel : Nat)
    (hfuel : (Spec.semi (hmatch .semi pk bk) probe.flatten build.flatten).length < fuel) :
    (hashJoin .semi pk bk cap lcols rcols probe build fuel).2 = true ∧
    (hashJoin .semi pk bk cap lcols rcols probe build fuel).1.flatten =
      Spec.semi (hmatch .semi pk bk) probe.flatten build.flatten := by
  have hs : ∀ pad, probe.flatten.flatMap (rowSpec .semi (hmatch .semi pk bk) pad build.flatten) =
      Spec.semi (hmatch .semi pk bk) probe.flatten build.flatten := by
    intro pad
    unfold Spec.semi
    have : rowSpec .semi (hmatch .semi pk bk) pad build.flatten =
        fun l => if build.flatten.any (hmatch .semi pk bk l) then [l] else [] := by
      funext l; simp [rowSpec]
    rw [this]
    all_goals exact flatMap_ite_eq_filter (fun l => build.flatten.any (hmatch .semi pk bk l)) probe.flatten
  have := hashJoin_rows .semi pk bk cap lcols rcols probe build hcap rfl fuel (by rw [hs]; exact hfuel)
  rw [hs] at this
  exact ⟨this.1, this.2.1⟩

/-- ANTI: the probe rows without a match -/
theorem hashJoin_anti (pk bk : List Nat) (cap lcols rcols : Nat) (probe build : List Chunk)
    (hcap : 1 ≤ cap) (fuel : Nat)
    (hfuel : (Spec.anti (hmatch .anti pk bk) probe.flatten build.flatten).length < fuel) :
    (hashJoin .anti pk bk cap lcols rcols probe build fuel).2 = true ∧
    (hashJoin .anti pk bk cap lcols rcols probe build fuel).1.flatten =
      Spec.anti (hmatch .anti pk bk) probe.flatten build.flatten := by
  have hs : ∀ pad, probe.flatten.flatMap (rowSpec .anti (hmatch .anti pk bk) pad build.flatten) =
      Spec.anti (hmatch .anti pk bk) probe.flatten build.flatten := by
    intro pad
    unfold Spec.anti
    have : rowSpec .anti (hmatch .anti pk bk) pad build.flatten =
        fun l => if (!build.flatten.any (hmatch .anti pk bk l)) = true then [l] else [] := by
      funext l
      by_cases h : build.flatten.any (hmatch .anti pk bk l) = true <;> simp [rowSpec, h]
    rw [this]
    all_goals exact flatMap_ite_eq_filter (fun l => !build.flatten.any (hmatch .anti pk bk l)) probe.flatten
  have := hashJoin_rows .anti pk bk cap lcols rcols probe build hcap rfl fuel (by rw [hs]; exact hfuel)
  rw [hs] at this
  exact ⟨this.1, this.2.1⟩

/-- the answer does not depend on how either input is cut into chunks, nor on the capacity -/
theorem hashJoin_chunking_irrelevant (jt : JT) (pk bk : List Nat) (cap cap' lcols rcols : Nat)
    (probe probe' build build' : List Chunk) (hcap : 1 ≤ cap) (hcap' : 1 ≤ cap')
    (ht : jt.tracksBuild = false) (hp : probe.flatten = probe'.flatten) (hbf : build.flatten = build'.flatten)
    (hbe : build.isEmpty = build'.isEmpty) (fuel : Nat)
    (hfuel : (probe.flatten.flatMap (rowSpec jt (hmatch jt pk bk)
        (mkEnv jt pk bk cap lcols rcols build).pad build.flatten)).length < fuel) :
    (hashJoin jt pk bk cap lcols rcols probe build fuel).1.flatten =
      (hashJoin jt pk bk cap' lcols rcols probe' build' fuel).1.flatten := by
  have hpad : (mkEnv jt pk bk cap lcols rcols build).pad = (mkEnv jt pk bk cap' lcols rcols build').pad := by
    simp [Env.pad, mkEnv, hbe]
  have a := hashJoin_rows jt pk bk cap lcols rcols probe build hcap ht fuel hfuel
  have b := hashJoin_rows jt pk bk cap' lcols rcols probe' build' hcap' ht fuel
    (by rw [← hp, ← hbf, ← hpad]; exact hfuel)
  rw [a.2.1, b.2.1, hp, hbf, hpad]

/-! ### key hashing against the `=` of the query languages -/

def plain : Val → Bool
  | .flt _ => false
  | _ => true

theorem dec_beq {α : Type} [DecidableEq α] [BEq α] [LawfulBEq α] (x y : α) :
    decide (x = y) = (x == y) := by
  by_cases h : x = y <;> simp [h]

theorem bne_null (v : Val) (h : v ≠ .null) : (v != Val.null) = true := bne_iff_ne.mpr h

theorem hk_eq_plain (a b : Val) (ha : plain a = true) (hb : plain b = true) :
    (decide (HKey.one (HK.ofVal b) = HKey.one (HK.ofVal a)) &&
      !(decide (HKey.one (HK.ofVal b) = HKey.one HK.null) && !false)) =
    (a != .null && b != .null && Grafeo.Ops2.valuesEqual false a b) := by
  cases a <;> cases b <;> simp_all [HK.ofVal, Grafeo.Ops2.valuesEqual, plain, eq_comm] <;>
    (rw [bne_null _ (by simp), bne_null _ (by simp)]; simp only [Bool.true_and]; exact dec_beq _ _)

/-- **partial**: with ONE key column, a join type that does not keep NULL keys, and key cells that
are not floats, the hash join's match relation is exactly `l.k = r.k` (TRUE in three-valued
logic). Missing: float keys, NULL keys under LEFT / RIGHT / FULL, composite keys with a NULL
component — each a witness below. -/
theorem hmatch_eq_keysMatch_partial (jt : JT) (hj : jt.keepsNull = false) (c c' : Nat) (l r : Row)
    (hl : plain (l.getD c .null) = true) (hr : plain (r.getD c' .null) = true) :
    hmatch jt [c] [c'] l r = Spec.keysMatch [c] [c'] l r := by
  unfold hmatch Spec.keysMatch Spec.keyEq extractKey
  simp only [hj, List.zip_cons_cons, List.zip_nil_right, List.all_cons, List.all_nil, Bool.and_true]
  exact hk_eq_plain _ _ hl hr

/-- **partial** (consequence): inner hash join on one non-float key column = the relational
inner join with the query languages' `=` -/
theorem hashJoin_inner_spec_partial (c c' : Nat) (cap lcols rcols : Nat) (probe build : List Chunk)
    (hcap : 1 ≤ cap)
    (hl : ∀ l ∈ probe.flatten, plain (l.getD c .null) = true)
    (hr : ∀ r ∈ build.flatten, plain (r.getD c' .null) = true) (fuel : Nat)
    (hfuel : (Spec.inner (Spec.keysMatch [c] [c']) probe.flatten build.flatten).length < fuel) :
    (hashJoin .inner [c] [c'] cap lcols rcols probe build fuel).2 = true ∧
    (hashJoin .inner [c] [c'] cap lcols rcols probe build fuel).1.flatten =
      Spec.inner (Spec.keysMatch [c] [c']) probe.flatten build.flatten := by
  have he : Spec.inner (hmatch .inner [c] [c']) probe.flatten build.flatten =
      Spec.inner (Spec.keysMatch [c] [c']) probe.flatten build.flatten := by
    unfold Spec.inner
    apply flatMap_congr'
    intro l hlm
    have : List.filter (hmatch .inner [c] [c'] l) build.flatten =
        List.filter (Spec.keysMatch [c] [c'] l) build.flatten :=
      List.filter_congr (fun r hrm => hmatch_eq_keysMatch_partial .inner rfl c c' l r (hl l hlm) (hr r hrm))
    rw [this]
  have := hashJoin_inner .inner (Or.inl rfl) [c] [c'] cap lcols rcols probe build hcap fuel (by rw [he]; exact hfuel)
  rw [he] at this
  exact this

def f1 : Val := .flt 0x3ff0000000000000      -- 1.0
def fNaN : Val := .flt 0x7ff8000000000000
def fZero : Val := .flt 0
def fNegZero : Val := .flt 0x8000000000000000
def fTiny : Val := .flt 1                    -- 5e-324, bit pattern 1

/-- witness: `1 = 1.0` is TRUE, the hash keys differ -/
theorem witness_int_float_no_match :
    Spec.keyEq (.int 1) f1 = true ∧ HK.ofVal (.int 1) ≠ HK.ofVal f1 := by decide +kernel
/-- witness: the double with bit pattern 1 is not the integer 1, the hash keys are equal -/
theorem witness_float_bits_match :
    Spec.keyEq (.int 1) fTiny = false ∧ HK.ofVal (.int 1) = HK.ofVal fTiny := by decide +kernel
/-- witness: NaN = NaN is not TRUE, the hash keys are equal -/
theorem witness_nan_match : Spec.keyEq fNaN fNaN = false ∧ HK.ofVal fNaN = HK.ofVal fNaN := by decide +kernel
/-- witness: `0.0 = -0.0` is TRUE, the hash keys differ -/
theorem witness_zero_no_match :
    Spec.keyEq fZero fNegZero = true ∧ HK.ofVal fZero ≠ HK.ofVal fNegZero := by decide +kernel

/-- witness (`join hash left 2 2 0 0 c: c: N,# N,#`): LEFT keeps NULL keys in the table, so a NULL
probe key matches a NULL build key -/
theorem witness_left_null_matches :
    (hashJoin .left [0] [0] 2048 2 2 [[[.null, .int 0]]] [[[.null, .int 0]]] 5).1 =
        [[[.null, .int 0, .null, .int 0]]] ∧
    Spec.leftOuter (Spec.keysMatch [0] [0]) 2 [[.null, .int 0]] [[.null, .int 0]] =
        [[.null, .int 0, .null, .null]] := by decide +kernel

/-- witness: a composite key with a NULL component matches in an INNER join -/
theorem witness_composite_null_matches :
    (hashJoin .inner [0, 1] [0, 1] 2048 3 3 [[[.null, .int 1, .int 0]]] [[[.null, .int 1, .int 0]]] 5).1 =
        [[[.null, .int 1, .int 0, .null, .int 1, .int 0]]] ∧
    Spec.inner (Spec.keysMatch [0, 1] [0, 1]) [[.null, .int 1, .int 0]] [[.null, .int 1, .int 0]] = [] := by
  decide +kernel

/-- witness (`join hash.c left 2 2 0 0 c: c: I1,# -`): when the build child returns no chunk at
all, an unmatched probe row gets no cells for the build columns (the output columns are shorter
than the chunk's row count) -/
theorem witness_left_short_row :
    (hashJoin .left [0] [0] 2048 2 2 [[[.int 1, .int 0]]] [] 5).1 = [[[.int 1, .int 0]]] ∧
    Spec.leftOuter (hmatch .left [0] [0]) 2 [[.int 1, .int 0]] [] = [[.int 1, .int 0, .null, .null]] := by
  decide +kernel

/-- nonvacuity + resume: capacity 2, three matches of one probe row and one more probe row —
the second `next()` resumes in the middle of the first probe row -/
theorem example_resume_mid_row :
    (hashJoin .inner [0] [0] 2 1 1 [[[.int 1], [.int 1]]] [[[.int 1]], [[.int 1], [.int 1]]] 10) =
      ([[[.int 1, .int 1], [.int 1, .int 1]], [[.int 1, .int 1], [.int 1, .int 1]],
        [[.int 1, .int 1], [.int 1, .int 1]]], true) := by decide +kernel


/-! ### nested loop join -/

theorem nlInner_spec (N : NEnv) (l : Row) (rs : List Row) : ∀ b m,
    (nlInner N l rs b m).1 ++ ((nlInner N l rs b m).2.1.filter (N.cond l)).map (l ++ ·) =
      b ++ (rs.filter (N.cond l)).map (l ++ ·) ∧
    ((nlInner N l rs b m).2.2.2 = false →
      (nlInner N l rs b m).2.1 = [] ∧ (nlInner N l rs b m).2.2.1 = (m || rs.any (N.cond l))) ∧
    ((nlInner N l rs b m).2.2.2 = true →
      N.cap ≤ (nlInner N l rs b m).1.length ∧ (nlInner N l rs b m).2.2.1 = true ∧ rs.any (N.cond l) = true) := by
  induction rs with
  | nil => intro b m; simp [nlInner]
  | cons r rs ih =>
    intro b m
    unfold nlInner
    by_cases hc : N.cond l r = true
    · simp only [hc, if_true]
      by_cases hf : (b ++ [l ++ r]).length ≥ N.cap
      · simp only [if_pos hf]
        refine ⟨by simp [List.filter_cons, hc], by simp, ?_⟩
        intro _; refine ⟨hf, ?_, ?_⟩ <;> simp [hc]
      · simp only [if_neg hf]
        obtain ⟨a, b', c⟩ := ih (b ++ [l ++ r]) true
        refine ⟨by rw [a]; simp [List.filter_cons, hc], ?_, ?_⟩
        · intro h; obtain ⟨x, y⟩ := b' h; exact ⟨x, by rw [y]; simp [hc]⟩
        · intro h; obtain ⟨x, y, z⟩ := c h; exact ⟨x, y, by simp [hc]⟩
    · have hc' : N.cond l r = false := by simpa using hc
      simp only [hc', Bool.false_eq_true, if_false]
      obtain ⟨a, b', c⟩ := ih b m
      refine ⟨by rw [a]; simp [List.filter_cons, hc'], ?_, ?_⟩
      · intro h; obtain ⟨x, y⟩ := b' h; exact ⟨x, by rw [y]; simp [hc']⟩
      · intro h; obtain ⟨x, y, z⟩ := c h; exact ⟨x, y, by simp [hc', z]⟩

/-- what the current left row still has to contribute, given the right rows not visited yet
and `current_left_matched` -/
def nlRowRem (N : NEnv) (l : Row) (rr : List Row) (m : Bool) : List Row :=
  (rr.filter (N.cond l)).map (l ++ ·) ++
    (if N.jt = .left ∧ (m || rr.any (N.cond l)) = false then [l ++ nulls N.rcols] else [])

def nlRowOut (N : NEnv) (l : Row) : List Row := nlRowRem N l N.rights false

def nlRem (N : NEnv) : List Row → Option (List Row × Bool) → List Row
  | [], _ => []
  | l :: ls, rp => nlRowRem N l (rp.getD (N.rights, false)).1 (rp.getD (N.rights, false)).2 ++ ls.flatMap (nlRowOut N)

theorem nlRem_nil (N : NEnv) (rp : Option (List Row × Bool)) : nlRem N [] rp = [] := by simp [nlRem]

theorem nlRem_none (N : NEnv) (rows : List Row) : nlRem N rows none = rows.flatMap (nlRowOut N) := by
  cases rows <;> simp [nlRem, nlRowOut]

theorem nlLoop_spec (N : NEnv) (hcap : 1 ≤ N.cap) (rows : List Row) : ∀ rp b,
    (nlLoop N rows rp b).b ++ nlRem N (nlLoop N rows rp b).rest (nlLoop N rows rp b).rpos = b ++ nlRem N rows rp ∧
    ((nlLoop N rows rp b).full = false → (nlLoop N rows rp b).rest = [] ∧ (nlLoop N rows rp b).rpos = none) ∧
    ((nlLoop N rows rp b).full = true → (nlLoop N rows rp b).b ≠ []) := by
  induction rows with
  | nil => intro rp b; simp [nlLoop, nlRem]
  | cons l ls ih =>
    intro rp b
    unfold nlLoop
    simp only
    obtain ⟨e1, e2, e3⟩ := nlInner_spec N l (rp.getD (N.rights, false)).1 b (rp.getD (N.rights, false)).2
    generalize nlInner N l (rp.getD (N.rights, false)).1 b (rp.getD (N.rights, false)).2 = r at e1 e2 e3
    obtain ⟨rb, rr, rm, rf⟩ := r
    simp only at e1 e2 e3 ⊢
    cases rf with
    | true =>
      obtain ⟨h1, h2, h3⟩ := e3 rfl
      subst h2
      simp only [if_true]
      refine ⟨?_, by simp, ?_⟩
      · simp only [nlRem, Option.getD_some, nlRowRem, h3, Bool.or_true, Bool.true_or, Bool.true_eq_false,
          and_false, if_false, List.append_nil]
        rw [← List.append_assoc, e1, List.append_assoc]
      · intro _ h0; rw [h0] at h1; simp at h1; omega
    | false =>
      obtain ⟨h1, h2⟩ := e2 rfl
      subst h1
      simp only [Bool.false_eq_true, if_false, List.filter_nil, List.map_nil, List.append_nil] at e1 ⊢
      have hrow : nlRem N (l :: ls) rp = (((rp.getD (N.rights, false)).1.filter (N.cond l)).map (l ++ ·) ++
          (if N.jt = .left ∧ rm = false then [l ++ nulls N.rcols] else [])) ++ ls.flatMap (nlRowOut N) := by
        simp only [nlRem, nlRowRem, h2]
      by_cases hu : N.jt = .left ∧ rm = false
      · simp only [if_pos hu] at hrow ⊢
        by_cases hf : (rb ++ [l ++ nulls N.rcols]).length ≥ N.cap
        · simp only [if_pos hf]
          refine ⟨?_, by simp, by simp⟩
          rw [hrow, e1, nlRem_none]; simp [List.append_assoc]
        · simp only [if_neg hf]
          obtain ⟨a, b', c⟩ := ih none (rb ++ [l ++ nulls N.rcols])
          refine ⟨?_, b', c⟩
          rw [a, hrow, e1, nlRem_none]; simp [List.append_assoc]
      · simp only [if_neg hu] at hrow ⊢
        obtain ⟨a, b', c⟩ := ih none rb
        refine ⟨?_, b', c⟩
        rw [a, hrow, e1, nlRem_none]; simp [List.append_assoc]

def nlSRem (N : NEnv) (s : NState) : List Row :=
  nlRem N (s.cur.getD []) s.rpos ++ s.left.flatMap fun c => c.flatMap (nlRowOut N)

theorem nlPull_spec (N : NEnv) (hcap : 1 ≤ N.cap) (cs : List Chunk) :
    ((nlPull N cs).1 = none → (cs.flatMap fun c => c.flatMap (nlRowOut N)) = []) ∧
    (∀ c, (nlPull N cs).1 = some c →
      c ≠ [] ∧ (cs.flatMap fun c => c.flatMap (nlRowOut N)) = c ++ nlSRem N (nlPull N cs).2) := by
  induction cs with
  | nil => simp [nlPull]
  | cons c cs ih =>
    unfold nlPull
    obtain ⟨e1, e2, e3⟩ := nlLoop_spec N hcap c none []
    generalize nlLoop N c none [] = r at e1 e2 e3
    simp only [List.nil_append, nlRem_none] at e1
    simp only
    by_cases hf : r.full = true
    · simp only [hf, if_true]
      refine ⟨by simp, ?_⟩
      intro c' hc'
      simp only [Option.some.injEq] at hc'
      subst hc'
      exact ⟨e3 hf, by simp [nlSRem, List.flatMap_cons, ← e1, List.append_assoc]⟩
    · have hf' : r.full = false := by simpa using hf
      obtain ⟨h1, h2⟩ := e2 hf'
      simp only [hf', Bool.false_eq_true, if_false]
      rw [h1, h2] at e1
      simp only [nlRem_nil, List.append_nil] at e1
      by_cases hb : r.b = []
      · simp only [hb, ne_eq, not_true_eq_false, if_false]
        rw [hb] at e1
        simp only [List.flatMap_cons, ← e1, List.nil_append]
        exact ih
      · simp only [ne_eq, hb, not_false_eq_true, if_true]
        refine ⟨by simp, ?_⟩
        intro c' hc'
        simp only [Option.some.injEq] at hc'
        subst hc'
        exact ⟨hb, by simp [nlSRem, List.flatMap_cons, ← e1, nlRem]⟩

theorem nlPull_state (N : NEnv) (cs : List Chunk) :
    (nlPull N cs).2.cur = none → (nlPull N cs).2.rpos = none := by
  induction cs with
  | nil => simp [nlPull]
  | cons c cs ih =>
    unfold nlPull
    generalize nlLoop N c none [] = r
    simp only
    by_cases hf : r.full = true
    · simp [hf]
    · have hf' : r.full = false := by simpa using hf
      simp only [hf', Bool.false_eq_true, if_false]
      by_cases hb : r.b = []
      · simp only [hb, ne_eq, not_true_eq_false, if_false]; exact ih
      · simp [hb]

theorem nlRowOut_noRight (N : NEnv) (hr : N.rights = []) (hj : N.jt ≠ .left) (l : Row) : nlRowOut N l = [] := by
  simp [nlRowOut, nlRowRem, hr, hj]

theorem nlNext_spec (N : NEnv) (hcap : 1 ≤ N.cap) (hw : N.noRight = true → N.rights = []) (s : NState)
    (hs : s.cur = none → s.rpos = none) (hs2 : N.noRight = true ∧ N.jt ≠ .left → s.cur = none) :
    match nlNext N s with
    | (none, _) => nlSRem N s = []
    | (some c, s') => c ≠ [] ∧ nlSRem N s = c ++ nlSRem N s' ∧
        ((s'.cur = none → s'.rpos = none) ∧ (N.noRight = true ∧ N.jt ≠ .left → s'.cur = none)) := by
  unfold nlNext
  by_cases h0 : N.noRight = true ∧ N.jt ≠ .left
  · simp only [if_pos h0]
    have hcur := hs2 h0
    simp [nlSRem, hcur, nlRem, nlRowOut_noRight N (hw h0.1) h0.2]
  · simp only [if_neg h0]
    cases hcur : s.cur with
    | none =>
      simp only
      have hr : nlSRem N s = s.left.flatMap fun c => c.flatMap (nlRowOut N) := by
        simp [nlSRem, hcur, nlRem]
      obtain ⟨p1, p2⟩ := nlPull_spec N hcap s.left
      rcases hn : nlPull N s.left with ⟨o, s'⟩
      rw [hn] at p1 p2
      cases o with
      | none => simp only; rw [hr]; exact p1 rfl
      | some c =>
        simp only
        obtain ⟨q1, q2⟩ := p2 c rfl
        refine ⟨q1, by rw [hr]; exact q2, ?_, fun h => absurd h h0⟩
        have h3 := nlPull_state N s.left
        rw [hn] at h3
        exact h3
    | some rest =>
      simp only
      obtain ⟨e1, e2, e3⟩ := nlLoop_spec N hcap rest s.rpos []
      generalize nlLoop N rest s.rpos [] = r at e1 e2 e3
      simp only [List.nil_append] at e1
      have hr : nlSRem N s = nlRem N rest s.rpos ++ s.left.flatMap fun c => c.flatMap (nlRowOut N) := by
        simp [nlSRem, hcur]
      by_cases hf : r.full = true
      · simp only [hf, if_true]
        refine ⟨e3 hf, by rw [hr, ← e1]; simp [nlSRem, List.append_assoc], by simp, fun h => absurd h h0⟩
      · have hf' : r.full = false := by simpa using hf
        obtain ⟨h1, h2⟩ := e2 hf'
        simp only [hf', Bool.false_eq_true, if_false]
        rw [h1, h2] at e1
        simp only [nlRem_nil, List.append_nil] at e1
        by_cases hb : r.b = []
        · simp only [hb, ne_eq, not_true_eq_false, if_false]
          rw [hb] at e1
          have hr' : nlSRem N s = s.left.flatMap fun c => c.flatMap (nlRowOut N) := by rw [hr, ← e1]; simp
          obtain ⟨p1, p2⟩ := nlPull_spec N hcap s.left
          rcases hn : nlPull N s.left with ⟨o, s'⟩
          rw [hn] at p1 p2
          cases o with
          | none => simp only; rw [hr']; exact p1 rfl
          | some c =>
            simp only
            obtain ⟨q1, q2⟩ := p2 c rfl
            refine ⟨q1, by rw [hr']; exact q2, ?_, fun h => absurd h h0⟩
            have h3 := nlPull_state N s.left
            rw [hn] at h3
            exact h3
        · simp only [ne_eq, hb, not_false_eq_true, if_true]
          refine ⟨by simp [hb], by rw [hr, ← e1]; simp [nlSRem, nlRem], by simp, fun h => absurd h h0⟩

/-- **Main theorem (nested loop join).** For every join type, condition, both inputs, every
chunking of both and every capacity ≥ 1: the operator terminates, no output chunk is empty, and
the concatenated output is, as an exact sequence, the left rows in order, each with its matching
right rows in right order (LEFT: or once, NULL-padded, when it has none) — no pair is dropped or
repeated when the operator returns a full chunk and resumes in the middle of a left row. -/
theorem nlJoin_rows (jt : JT) (cap rcols : Nat) (cond : Row → Row → Bool) (left right : List Chunk)
    (hcap : 1 ≤ cap) (fuel : Nat)
    (hfuel : (left.flatten.flatMap (nlRowOut (mkNEnv jt cap rcols cond right))).length < fuel) :
    (nlJoin jt cap rcols cond left right fuel).2 = true ∧
    (nlJoin jt cap rcols cond left right fuel).1.flatten =
      left.flatten.flatMap (nlRowOut (mkNEnv jt cap rcols cond right)) ∧
    ∀ c ∈ (nlJoin jt cap rcols cond left right fuel).1, c ≠ [] := by
  have hw : (mkNEnv jt cap rcols cond right).noRight = true → (mkNEnv jt cap rcols cond right).rights = [] := by
    intro h; simp only [mkNEnv, List.isEmpty_iff] at h; simp [mkNEnv, h]
  have hinit : nlSRem (mkNEnv jt cap rcols cond right) ⟨left, none, none⟩ =
      left.flatten.flatMap (nlRowOut (mkNEnv jt cap rcols cond right)) := by
    simp only [nlSRem, Option.getD_none, nlRem, List.nil_append]
    rw [flatten_flatMap]
  have := drain_spec (nlNext (mkNEnv jt cap rcols cond right)) (nlSRem (mkNEnv jt cap rcols cond right))
    (fun s => (s.cur = none → s.rpos = none) ∧
      ((mkNEnv jt cap rcols cond right).noRight = true ∧ (mkNEnv jt cap rcols cond right).jt ≠ .left → s.cur = none))
    (fun s hs => by
      have := nlNext_spec (mkNEnv jt cap rcols cond right) hcap hw s hs.1 hs.2
      rcases hn : nlNext (mkNEnv jt cap rcols cond right) s with ⟨o, s'⟩
      rw [hn] at this
      cases o <;> exact this)
    fuel ⟨left, none, none⟩ ⟨fun _ => rfl, fun _ => rfl⟩ (by rw [hinit]; exact hfuel)
  rw [hinit] at this
  exact this

/-- not LEFT: the relational inner join under the condition (no condition: the product) -/
theorem nlJoin_inner (jt : JT) (hj : jt ≠ .left) (cap rcols : Nat) (cond : Row → Row → Bool)
    (left right : List Chunk) (hcap : 1 ≤ cap) (fuel : Nat)
    (hfuel : (Spec.inner cond left.flatten right.flatten).length < fuel) :
    (nlJoin jt cap rcols cond left right fuel).2 = true ∧
    (nlJoin jt cap rcols cond left right fuel).1.flatten = Spec.inner cond left.flatten right.flatten := by
  have hs : left.flatten.flatMap (nlRowOut (mkNEnv jt cap rcols cond right)) =
      Spec.inner cond left.flatten right.flatten := by
    unfold Spec.inner
    apply flatMap_congr'
    intro l _
    simp [nlRowOut, nlRowRem, mkNEnv, hj]
  have := nlJoin_rows jt cap rcols cond left right hcap fuel (by rw [hs]; exact hfuel)
  rw [hs] at this
  exact ⟨this.1, this.2.1⟩

theorem any_false_of_filter_nil {α : Type} (p : α → Bool) (xs : List α) (h : xs.filter p = []) :
    xs.any p = false := by
  induction xs with
  | nil => rfl
  | cons x xs ih =>
    by_cases hp : p x = true
    · simp [List.filter_cons, hp] at h
    · have hp' : p x = false := by simpa using hp
      simp only [List.filter_cons, hp', Bool.false_eq_true, if_false] at h
      simp [hp', ih h]

theorem filter_nil_of_any_false {α : Type} (p : α → Bool) (xs : List α) (h : xs.any p = false) :
    xs.filter p = [] := by
  induction xs with
  | nil => rfl
  | cons x xs ih =>
    simp only [List.any_cons, Bool.or_eq_false_iff] at h
    simp [List.filter_cons, h.1, ih h.2]

theorem any_true_of_filter_ne {α : Type} (p : α → Bool) (xs : List α) (h : xs.filter p ≠ []) :
    xs.any p = true := by
  cases ha : xs.any p with
  | true => rfl
  | false => exact absurd (filter_nil_of_any_false p xs ha) h

/-- LEFT: the left outer join -/
theorem nlJoin_left (cap rcols : Nat) (cond : Row → Row → Bool) (left right : List Chunk)
    (hcap : 1 ≤ cap) (fuel : Nat)
    (hfuel : (Spec.leftOuter cond rcols left.flatten right.flatten).length < fuel) :
    (nlJoin .left cap rcols cond left right fuel).2 = true ∧
    (nlJoin .left cap rcols cond left right fuel).1.flatten =
      Spec.leftOuter cond rcols left.flatten right.flatten := by
  have hs : left.flatten.flatMap (nlRowOut (mkNEnv .left cap rcols cond right)) =
      Spec.leftOuter cond rcols left.flatten right.flatten := by
    unfold Spec.leftOuter
    apply flatMap_congr'
    intro l _
    simp only [nlRowOut, nlRowRem, mkNEnv, Bool.false_or, true_and]
    generalize right.flatten = R
    by_cases h : List.filter (cond l) R = []
    · simp [h, any_false_of_filter_nil _ _ h]
    · simp [h, any_true_of_filter_ne _ _ h]
  have := nlJoin_rows .left cap rcols cond left right hcap fuel (by rw [hs]; exact hfuel)
  rw [hs] at this
  exact ⟨this.1, this.2.1⟩

/-- **hash join = nested loop join** (INNER / CROSS), under the key-equality hypothesis: on the
rows at hand the hash join's match relation agrees with the nested loop join's condition — then
both operators return the same rows in the same order, whatever the chunkings and capacities -/
theorem hashJoin_eq_nlJoin (jt : JT) (hj : jt = .inner ∨ jt = .cross) (pk bk : List Nat)
    (cap cap' lcols rcols : Nat) (cond : Row → Row → Bool) (l l' r r' : List Chunk)
    (hcap : 1 ≤ cap) (hcap' : 1 ≤ cap') (hl : l.flatten = l'.flatten) (hr : r.flatten = r'.flatten)
    (hkey : ∀ x ∈ l.flatten, ∀ y ∈ r.flatten, hmatch jt pk bk x y = cond x y) (fuel : Nat)
    (hfuel : (Spec.inner cond l.flatten r.flatten).length < fuel) :
    (hashJoin jt pk bk cap lcols rcols l r fuel).1.flatten = (nlJoin jt cap' rcols cond l' r' fuel).1.flatten := by
  have he : Spec.inner (hmatch jt pk bk) l.flatten r.flatten = Spec.inner cond l.flatten r.flatten := by
    unfold Spec.inner
    apply flatMap_congr'
    intro x hx
    rw [List.filter_congr (fun y hy => hkey x hx y hy)]
  have hne : jt ≠ .left := by rcases hj with rfl | rfl <;> simp
  have a := hashJoin_inner jt hj pk bk cap lcols rcols l r hcap fuel (by rw [he]; exact hfuel)
  have b := nlJoin_inner jt hne cap' rcols cond l' r' hcap' fuel (by rw [← hl, ← hr]; exact hfuel)
  rw [a.2, b.2, he, hl, hr]

/-- the key-equality hypothesis holds for `EqualityCondition` on one key column whose cells are
present, not NULL and not floats -/
theorem derivedEq_eq_keyEq (a b : Val) (ha : plain a = true) (hb : plain b = true) (han : a ≠ .null)
    (hbn : b ≠ .null) : valDerivedEq a b = Spec.keyEq a b := by
  unfold Spec.keyEq
  rw [bne_null a han, bne_null b hbn]
  cases a <;> cases b <;> simp_all [valDerivedEq, Grafeo.Ops2.valuesEqual, plain]

theorem hmatch_eq_eqCond_partial (jt : JT) (hj : jt.keepsNull = false) (c c' : Nat) (x y : Row) (a b : Val)
    (hx : x[c]? = some a) (hy : y[c']? = some b) (ha : plain a = true) (hb : plain b = true)
    (han : a ≠ .null) (hbn : b ≠ .null) :
    hmatch jt [c] [c'] x y = eqCond c c' x y := by
  have gx : x.getD c .null = a := by simp [List.getD, hx]
  have gy : y.getD c' .null = b := by simp [List.getD, hy]
  rw [hmatch_eq_keysMatch_partial jt hj c c' x y (by rw [gx]; exact ha) (by rw [gy]; exact hb)]
  unfold Spec.keysMatch eqCond
  simp only [List.zip_cons_cons, List.zip_nil_right, List.all_cons, List.all_nil, Bool.and_true, gx, gy, hx, hy]
  exact (derivedEq_eq_keyEq a b ha hb han hbn).symm

/-- witness (`join nl semi …`): the operator has no SEMI mode, it answers as INNER -/
theorem witness_nl_semi_is_inner :
    (nlJoin .semi 2048 1 (eqCond 0 0) [[[.int 1]]] [[[.int 1], [.int 1]]] 5).1 =
      [[[.int 1, .int 1], [.int 1, .int 1]]] := by decide +kernel

/-- nonvacuity + resume: capacity 2, the second `next()` resumes in the middle of a left row -/
theorem example_nl_resume_mid_row :
    nlJoin .left 2 1 (eqCond 0 0) [[[.int 1], [.int 7]]] [[[.int 1]], [[.int 1], [.int 1]]] 10 =
      ([[[.int 1, .int 1], [.int 1, .int 1]], [[.int 1, .int 1], [.int 7, .null]]], true) := by decide +kernel

/-! ### leapfrog join -/

/-- witness (`join lf 3 0,1 c:/c: I1,I1,# I1,I3,#`): with two key columns the operator joins on
the first one only — it returns a row the definition (and the hash-join plan) does not -/
theorem witness_leapfrog_first_key_only :
    lfRows [0, 1] [[[[.int 1, .int 1, .int 0]]], [[[.int 1, .int 3, .int 0]]]] =
      [[.int 1, .int 1, .int 0, .int 1, .int 3, .int 0]] ∧
    Spec.leapfrog [0, 1] [[[[.int 1, .int 1, .int 0]]], [[[.int 1, .int 3, .int 0]]]] = [] := by decide +kernel

/-- witness: with three key columns nothing is returned although the rows agree on all of them -/
theorem witness_leapfrog_three_keys_empty :
    lfRows [0, 1, 2] [[[[.int 1, .int 1, .int 1]]], [[[.int 1, .int 1, .int 1]]]] = [] ∧
    Spec.leapfrog [0, 1, 2] [[[[.int 1, .int 1, .int 1]]], [[[.int 1, .int 1, .int 1]]]] =
      [[.int 1, .int 1, .int 1, .int 1, .int 1, .int 1]] := by decide +kernel

/-- nonvacuity: one key column, duplicates on both sides — the operator agrees with the definition -/
theorem example_leapfrog_one_key :
    lfRows [0] [[[[.int 2, .int 0], [.int 1, .int 1]], [[.int 2, .int 2]]], [[[.int 2, .int 5], [.null, .int 6]]]] =
      Spec.leapfrog [0] [[[[.int 2, .int 0], [.int 1, .int 1]], [[.int 2, .int 2]]], [[[.int 2, .int 5], [.null, .int 6]]]] := by
  decide +kernel


/-! ### RIGHT / FULL: the unmatched-build phase -/

theorem emitU_step (E : Env) (hcap : 1 ≤ E.cap) (s : HState) (u : List Row) (hs : s.unm = some u) :
    match hjNext E s with
    | (none, _) => s.unm.getD [] = []
    | (some c, s') => c ≠ [] ∧ s.unm.getD [] = c ++ s'.unm.getD [] ∧ s'.unm.isSome = true := by
  unfold hjNext emitU
  rw [hs]
  simp only
  by_cases h : List.take E.cap u = []
  · simp only [if_pos h]
    rcases List.take_eq_nil_iff.mp h with h0 | h0
    · omega
    · simp [h0]
  · simp only [if_neg h]
    exact ⟨h, by simp, by simp⟩

/-- once `emitting_unmatched` is set (RIGHT / FULL after the last probe chunk), the operator
returns exactly the rows `build_matched` selects at that moment, in build order, in chunks of at
most the capacity — none dropped or repeated at a chunk boundary. (That `build_matched` then
marks exactly the build rows some probe row matched is modelled and compared per line, not
proved.) -/
theorem hashJoin_unmatched_phase (E : Env) (hcap : 1 ≤ E.cap) (s : HState) (u : List Row)
    (hs : s.unm = some u) (fuel : Nat) (hfuel : u.length < fuel) :
    (drain (hjNext E) fuel s).2 = true ∧ (drain (hjNext E) fuel s).1.flatten = u ∧
    ∀ c ∈ (drain (hjNext E) fuel s).1, c ≠ [] := by
  have := drain_spec (hjNext E) (fun s => s.unm.getD []) (fun s => s.unm.isSome = true)
    (fun s hs => by
      obtain ⟨u', hu'⟩ := Option.isSome_iff_exists.mp hs
      have := emitU_step E hcap s u' hu'
      rcases hn : hjNext E s with ⟨o, s'⟩
      rw [hn] at this
      cases o <;> exact this)
    fuel s (by simp [hs]) (by simp [hs]; exact hfuel)
  simpa [hs] using this

end Grafeo.Join
