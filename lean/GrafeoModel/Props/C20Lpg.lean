import GrafeoModel.Model.LpgConc

/-!
# C20, property-graph clause — node operations under every interleaving

For **every** number of threads, **every** program of `delete_node`, `add_label`, `remove_label`,
`set_node_property`, `remove_node_property` per thread (on the same or different nodes, existing or
not) and **every** schedule: the reached store is the one a **sequential** execution of the
completed operations in their linearisation order (`log`) produces, and every operation returned
what it returns in that sequential execution. Every statement about sequentially reachable stores
(C14: the label index lists exactly the live nodes carrying the label, …) therefore holds after any
concurrent run.

`create_node` takes several critical sections (id, label index, node labels, node table) and is not
covered by this theorem; programs containing it are compared with the implementation by the
correspondence stream `conc lpg` only.
-/

namespace Grafeo.LpgConc
open Grafeo.Lpg

def replay (s : Store) : List COp → Store × List String
  | [] => (s, [])
  | op :: rest =>
    let r := applyAtomic s op
    let r' := replay r.1 rest
    (r'.1, r.2 :: r'.2)

theorem replay_append (s : Store) (ops : List COp) (op : COp) :
    replay s (ops ++ [op]) =
      ((applyAtomic (replay s ops).1 op).1, (replay s ops).2 ++ [(applyAtomic (replay s ops).1 op).2]) := by
  induction ops generalizing s with
  | nil => simp [replay]
  | cons o rest ih =>
    simp only [List.cons_append, replay]
    rw [ih]

def myResults (i : Nat) (log : List (Nat × COp × String)) : List String :=
  (log.filter (fun e => e.1 == i)).map (·.2.2)

def isCreate : COp → Bool
  | .create _ => true
  | _ => false

/-- the thread runs a create-free program and is not inside a create -/
def NoCreate (t : Thread) : Prop :=
  (∀ op ∈ t.todo, isCreate op = false) ∧
  (t.pc = .idle ∨ (∃ id, t.pc = .del id) ∨ (∃ id l, t.pc = .addUpd id l) ∨ (∃ id l, t.pc = .remUpd id l) ∨
   (∃ id k v, t.pc = .setP id k v) ∨ (∃ id k, t.pc = .remP id k))

structure Lin (s0 : Store) (st : State) : Prop where
  replayed : replay s0 (st.log.map (·.2.1)) = (st.store, st.log.map (·.2.2))
  results : ∀ i t, st.threads[i]? = some t → t.results = myResults i st.log

theorem addLabel_not_live (s : Store) (id l : Nat) (h : nodeLive s id = false) :
    applyAtomic s (.addLabel id l) = (s, "0") := by
  unfold nodeLive at h
  simp only [applyAtomic, Store.addLabel]
  cases hn : aget s.nodes id with
  | none => simp [b2s]
  | some c =>
    rw [hn] at h
    simp only at h
    simp [h, b2s]

theorem remLabel_not_live (s : Store) (id l : Nat) (h : nodeLive s id = false) :
    applyAtomic s (.remLabel id l) = (s, "0") := by
  unfold nodeLive at h
  simp only [applyAtomic, Store.removeLabel]
  cases hn : aget s.nodes id with
  | none => simp [b2s]
  | some c =>
    rw [hn] at h
    simp only at h
    simp [h, b2s]

/-- one step of a create-free thread: nothing, or exactly one sequential operation, logged with its
sequential result -/
theorem stepThread_spec (i : Nat) (s : Store) (log : List (Nat × COp × String)) (t : Thread) (h : NoCreate t) :
    let r := stepThread i s log t
    NoCreate r.2.2 ∧
    ((r.1 = s ∧ r.2.1 = log ∧ r.2.2.results = t.results) ∨
     (∃ op, r.1 = (applyAtomic s op).1 ∧ r.2.1 = log ++ [(i, op, (applyAtomic s op).2)] ∧
            r.2.2.results = t.results ++ [(applyAtomic s op).2])) := by
  obtain ⟨htodo, hpc⟩ := h
  unfold stepThread
  rcases hpc with hp | ⟨id, hp⟩ | ⟨id, l, hp⟩ | ⟨id, l, hp⟩ | ⟨id, k, v, hp⟩ | ⟨id, k, hp⟩
  · rw [hp]; simp only
    cases ht : t.todo with
    | nil => exact ⟨⟨by simp [ht], Or.inl hp⟩, Or.inl ⟨rfl, rfl, rfl⟩⟩
    | cons op rest =>
      have hrest : ∀ o ∈ rest, isCreate o = false := fun o ho => htodo o (by rw [ht]; exact List.mem_cons_of_mem _ ho)
      have hop : isCreate op = false := htodo op (by rw [ht]; exact List.mem_cons_self)
      cases op with
      | create ls => simp [isCreate] at hop
      | delete id => exact ⟨⟨hrest, Or.inr (Or.inl ⟨id, rfl⟩)⟩, Or.inl ⟨rfl, rfl, rfl⟩⟩
      | addLabel id l =>
        simp only
        cases hl : nodeLive s id with
        | true =>
          simp only [if_true]
          exact ⟨⟨hrest, Or.inr (Or.inr (Or.inl ⟨id, l, rfl⟩))⟩, Or.inl ⟨trivial, trivial, trivial⟩⟩
        | false =>
          simp only [Bool.false_eq_true, if_false]
          refine ⟨⟨hrest, Or.inl rfl⟩, Or.inr ⟨.addLabel id l, ?_, ?_, ?_⟩⟩
          · rw [addLabel_not_live s id l hl]
          · rw [addLabel_not_live s id l hl]
          · rw [addLabel_not_live s id l hl]; rfl
      | remLabel id l =>
        simp only
        cases hl : nodeLive s id with
        | true =>
          simp only [if_true]
          exact ⟨⟨hrest, Or.inr (Or.inr (Or.inr (Or.inl ⟨id, l, rfl⟩)))⟩, Or.inl ⟨trivial, trivial, trivial⟩⟩
        | false =>
          simp only [Bool.false_eq_true, if_false]
          refine ⟨⟨hrest, Or.inl rfl⟩, Or.inr ⟨.remLabel id l, ?_, ?_, ?_⟩⟩
          · rw [remLabel_not_live s id l hl]
          · rw [remLabel_not_live s id l hl]
          · rw [remLabel_not_live s id l hl]; rfl
      | setProp id k v => exact ⟨⟨hrest, Or.inr (Or.inr (Or.inr (Or.inr (Or.inl ⟨id, k, v, rfl⟩))))⟩, Or.inl ⟨rfl, rfl, rfl⟩⟩
      | remProp id k => exact ⟨⟨hrest, Or.inr (Or.inr (Or.inr (Or.inr (Or.inr ⟨id, k, rfl⟩))))⟩, Or.inl ⟨rfl, rfl, rfl⟩⟩
  · rw [hp]; exact ⟨⟨htodo, Or.inl rfl⟩, Or.inr ⟨.delete id, rfl, rfl, rfl⟩⟩
  · rw [hp]; exact ⟨⟨htodo, Or.inl rfl⟩, Or.inr ⟨.addLabel id l, rfl, rfl, rfl⟩⟩
  · rw [hp]; exact ⟨⟨htodo, Or.inl rfl⟩, Or.inr ⟨.remLabel id l, rfl, rfl, rfl⟩⟩
  · rw [hp]; exact ⟨⟨htodo, Or.inl rfl⟩, Or.inr ⟨.setProp id k v, rfl, rfl, rfl⟩⟩
  · rw [hp]; exact ⟨⟨htodo, Or.inl rfl⟩, Or.inr ⟨.remProp id k, rfl, rfl, rfl⟩⟩

theorem getElem?_set_self' {α : Type} (l : List α) (i : Nat) (a b : α) (h : l[i]? = some a) :
    (l.set i b)[i]? = some b := by
  have hlt : i < l.length := by
    rcases Nat.lt_or_ge i l.length with h' | h'
    · exact h'
    · rw [List.getElem?_eq_none h'] at h; cases h
  simp [List.getElem?_set, hlt]

theorem myResults_append_self (i : Nat) (log : List (Nat × COp × String)) (op : COp) (r : String) :
    myResults i (log ++ [(i, op, r)]) = myResults i log ++ [r] := by
  simp [myResults, List.filter_append]

theorem myResults_append_other (i j : Nat) (log : List (Nat × COp × String)) (op : COp) (r : String) (h : i ≠ j) :
    myResults j (log ++ [(i, op, r)]) = myResults j log := by
  have : (i == j) = false := by simp [h]
  simp [myResults, List.filter_append, this]

theorem lin_step (s0 : Store) (st : State) (i : Nat) (h : Lin s0 st) (hf : ∀ t ∈ st.threads, NoCreate t) :
    Lin s0 (step st i) ∧ ∀ t ∈ (step st i).threads, NoCreate t := by
  unfold step
  cases hti : st.threads[i]? with
  | none => exact ⟨h, hf⟩
  | some t =>
    simp only
    have hmem : t ∈ st.threads := List.mem_of_getElem? hti
    obtain ⟨hnc, hspec⟩ := stepThread_spec i st.store st.log t (hf t hmem)
    generalize stepThread i st.store st.log t = r at hnc hspec
    obtain ⟨s', log', t'⟩ := r
    simp only at hnc hspec ⊢
    refine ⟨?_, ?_⟩
    · rcases hspec with ⟨h1, h2, h3⟩ | ⟨op, h1, h2, h3⟩
      · subst h1; subst h2
        refine ⟨h.replayed, ?_⟩
        intro j tj hj
        by_cases hij : j = i
        · subst hij
          rw [getElem?_set_self' st.threads j t t' hti] at hj
          cases hj
          rw [h3]; exact h.results j t hti
        · rw [List.getElem?_set_ne (fun e => hij e.symm)] at hj
          exact h.results j tj hj
      · refine ⟨?_, ?_⟩
        · show replay s0 (log'.map (·.2.1)) = (s', log'.map (·.2.2))
          rw [h2, List.map_append, List.map_append]
          simp only [List.map_cons, List.map_nil]
          rw [replay_append, h.replayed, h1]
        · intro j tj hj
          show tj.results = myResults j log'
          by_cases hij : j = i
          · subst hij
            rw [getElem?_set_self' st.threads j t t' hti] at hj
            cases hj
            rw [h3, h2, myResults_append_self, h.results j t hti]
          · rw [List.getElem?_set_ne (fun e => hij e.symm)] at hj
            rw [h2, myResults_append_other i j st.log op _ (fun e => hij e.symm)]
            exact h.results j tj hj
    · intro x hx
      rcases List.mem_or_eq_of_mem_set hx with hx' | rfl
      · exact hf x hx'
      · exact hnc

theorem lin_runSched (s0 : Store) (st : State) (sched : List Nat) (h : Lin s0 st) (hf : ∀ t ∈ st.threads, NoCreate t) :
    Lin s0 (runSched st sched) := by
  unfold runSched
  induction sched generalizing st with
  | nil => exact h
  | cons i rest ih =>
    obtain ⟨h', hf'⟩ := lin_step s0 st i h hf
    exact ih (step st i) h' hf'

/-- F (property-graph clause): for every number of initial nodes, every set of create-free thread
programs and every schedule, the reached store and all results are those of the sequential
execution of the log. -/
theorem c20_lpg_linearizable (n0 : Nat) (progs : List (List COp))
    (hnc : ∀ p ∈ progs, ∀ op ∈ p, isCreate op = false) (sched : List Nat) :
    let st := runSched (init n0 progs) sched
    replay (initStore n0) (st.log.map (·.2.1)) = (st.store, st.log.map (·.2.2)) ∧
    ∀ i t, st.threads[i]? = some t → t.results = myResults i st.log := by
  have h0 : Lin (initStore n0) (init n0 progs) := by
    refine ⟨rfl, ?_⟩
    intro i t ht
    simp only [init, List.getElem?_map] at ht
    cases hp : progs[i]? with
    | none => rw [hp] at ht; cases ht
    | some p => rw [hp] at ht; cases ht; rfl
  have hf0 : ∀ t ∈ (init n0 progs).threads, NoCreate t := by
    intro t ht
    simp only [init, List.mem_map] at ht
    obtain ⟨p, hp, rfl⟩ := ht
    exact ⟨hnc p hp, Or.inl rfl⟩
  have := lin_runSched (initStore n0) (init n0 progs) sched h0 hf0
  exact ⟨this.replayed, this.results⟩

/-- N: the interleaving that the pre-repair `add_label` got wrong — thread 0 passes the pre-check
of `add_label(0, L2)`, thread 1 deletes node 0, thread 0 updates: the update re-checks, answers
false, and node 0 is under no label. -/
example :
    let st := runSched (init 1 [[.addLabel 0 2], [.delete 0]]) [0, 1, 1, 0]
    st.threads.map (·.results) = [["0"], ["1"]] ∧ st.store.nodesByLabel 2 = [] ∧
    st.log = [(1, .delete 0, "1"), (0, .addLabel 0 2, "0")] := by decide

end Grafeo.LpgConc
