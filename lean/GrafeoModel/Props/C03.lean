import GrafeoModel.Proofs.TxMgrLemmas

/-!
# C03 — first committer wins
# C04 — serializable level admits only serializable outcomes

All statements quantify over **every** history `ops : List Op` of
begin / write / read / commit / abort / gc, any number of transactions and entities.
`(grun ops).2` is the ghost log: one record per commit that answered `ok`, carrying the
write/read set the transaction had at that moment and the epoch it was given.
-/

namespace Grafeo.TxMgr

/-- the ghost log grows exactly by the commits that answered `ok`, with the epoch returned. -/
theorem c03_log_faithful (g : Mgr × List Rec) (op : Op) :
    ((gstep g op).1.2 = g.2 ∧ ∀ i e, ¬ (op = .commit i ∧ (gstep g op).2 = .commit (.ok e) ∧ (g.1.get i).isSome)) ∨
    (∃ i e t, op = .commit i ∧ (gstep g op).2 = .commit (.ok e) ∧ g.1.get i = some t ∧
      (gstep g op).1.2 = ⟨i, t.iso, t.start, t.wset, t.rset, e⟩ :: g.2) := by
  obtain ⟨m, log⟩ := g
  cases op with
  | begin iso => left; refine ⟨rfl, ?_⟩; intro i e h; simp at h
  | gc => left; refine ⟨rfl, ?_⟩; intro i e h; simp at h
  | write i e => left; refine ⟨rfl, ?_⟩; intro i e h; simp at h
  | read i e => left; refine ⟨rfl, ?_⟩; intro i e h; simp at h
  | abort i => left; refine ⟨rfl, ?_⟩; intro i e h; simp at h
  | commit i =>
    cases hg : m.get i with
    | none =>
      left
      simp only [gstep, step, Mgr.commit, hg]
      refine ⟨trivial, ?_⟩
      intro j e h; simp at h
    | some t =>
      by_cases hact : t.state = .active
      · cases hww : (wwLoop1 m i t || wwLoop2 m i t) with
        | true =>
          left
          simp only [gstep, step, Mgr.commit, hg, hact, hww, ne_eq, not_true_eq_false, if_false, if_true]
          refine ⟨trivial, ?_⟩
          intro j e h; simp at h
        | false =>
          cases hssi : (t.iso == .serializable && !t.rset.isEmpty && (ssiLoop1 m i t || ssiLoop2 m i t)) with
          | true =>
            left
            simp only [gstep, step, Mgr.commit, hg, hact, hww, hssi, ne_eq, not_true_eq_false, if_false, if_true,
              Bool.false_eq_true]
            refine ⟨trivial, ?_⟩
            intro j e h; simp at h
          | false =>
            right
            refine ⟨i, m.epoch + 1, t, rfl, ?_, hg, ?_⟩ <;>
              simp only [gstep, step, Mgr.commit, hg, hact, hww, hssi, ne_eq, not_true_eq_false, if_false,
                Bool.false_eq_true]
      · left
        simp only [gstep, step, Mgr.commit, hg, hact, ne_eq, not_false_eq_true, if_true]
        refine ⟨trivial, ?_⟩
        intro j e h; simp at h

/-- F (C03, safety): in every history, two committed transactions whose write sets intersect
did not overlap — one of them had committed before the other began. -/
theorem c03_first_committer_wins (ops : List Op) (r r' : Rec)
    (hr : r ∈ (grun ops).2) (hr' : r' ∈ (grun ops).2) (hne : r ≠ r')
    (hint : intersects r.wset r'.wset = true) :
    r.epoch ≤ r'.start ∨ r'.epoch ≤ r.start :=
  (inv_grun ops).safe r hr r' hr' hne hint

/-- F (C03, no false refusal): whenever a commit is refused with a write conflict there is a
committed transaction with an intersecting write set that committed **after** the refused one
began. (Holds for the repaired code; the pinned code refused `[begin; write; commit; begin;
write; commit]`.) -/
theorem c03_no_false_refusal (ops : List Op) (i : Nat)
    (h : ((grun ops).1.commit i).2 = .writeConflict) :
    ∃ t, (grun ops).1.get i = some t ∧ t.state = .active ∧
      ∃ r, r ∈ (grun ops).2 ∧ r.tx ≠ i ∧ t.start < r.epoch ∧ intersects t.wset r.wset = true := by
  have hinv := inv_grun ops
  generalize (grun ops).1 = m at *
  generalize (grun ops).2 = log at *
  unfold Mgr.commit at h
  cases hg : m.get i with
  | none => rw [hg] at h; simp at h
  | some t =>
    rw [hg] at h
    simp only at h
    by_cases hact : t.state = .active
    · simp only [hact, ne_eq, not_true_eq_false, if_false] at h
      refine ⟨t, rfl, hact, ?_⟩
      cases hww : (wwLoop1 m i t || wwLoop2 m i t) with
      | false =>
        rw [hww] at h
        simp only [Bool.false_eq_true, if_false] at h
        split at h <;> simp at h
      | true =>
        rw [Bool.or_eq_true] at hww
        rcases hww with h1 | h2
        · obtain ⟨j, u, hji, hu, hp⟩ := anyOther_elim m i _ h1
          simp only [Bool.and_eq_true, beq_iff_eq, Bool.not_eq_true'] at hp
          obtain ⟨⟨hc, hguard⟩, hint⟩ := hp
          obtain ⟨e, hce, hrec⟩ := (hinv.slot_ok j u hu).2.1 hc
          refine ⟨_, hrec, hji, ?_, hint⟩
          rw [hce] at hguard
          simp at hguard; exact hguard
        · obtain ⟨j, u, hji, hu, hp⟩ := anyOther_elim m i _ h2
          simp only [Bool.and_eq_true] at hp
          obtain ⟨hguard, hint⟩ := hp
          have hc : u.state = .committed := by
            apply Classical.byContradiction
            intro hn
            rw [(hinv.slot_ok j u hu).2.2 hn] at hguard
            simp at hguard
          obtain ⟨e, hce, hrec⟩ := (hinv.slot_ok j u hu).2.1 hc
          refine ⟨_, hrec, hji, ?_, hint⟩
          rw [hce] at hguard
          simp at hguard; exact hguard
    · simp only [ne_eq, hact, not_false_eq_true, if_true] at h
      simp at h

/-- F (C03): commit epochs are unique and strictly increasing — a new successful commit gets
an epoch above every epoch handed out before. -/
theorem c03_commit_epoch_fresh (ops : List Op) (i e : Nat)
    (h : ((grun ops).1.commit i).2 = .ok e) : ∀ r, r ∈ (grun ops).2 → r.epoch < e := by
  have hinv := inv_grun ops
  generalize (grun ops).1 = m at *
  generalize (grun ops).2 = log at *
  intro r hr
  have hle := (hinv.log_ok r hr).1
  unfold Mgr.commit at h
  cases hg : m.get i with
  | none => rw [hg] at h; simp at h
  | some t =>
    rw [hg] at h
    simp only at h
    split at h
    · simp at h
    · split at h
      · simp at h
      · split at h
        · simp at h
        · simp at h; omega

theorem c03_commit_epochs_unique (ops : List Op) (r r' : Rec)
    (hr : r ∈ (grun ops).2) (hr' : r' ∈ (grun ops).2) (h : r.epoch = r'.epoch) : r = r' :=
  (inv_grun ops).uniq r hr r' hr' h

/-- W (kept as a regression sentinel): the history on which the *pinned* code refused the second
writer; the repaired model accepts it. -/
theorem c03_sequential_writers_accepted :
    outputs [.begin .snapshot, .write 0 7, .commit 0, .begin .snapshot, .write 1 7, .commit 1] =
      [.id 0, .flag true, .commit (.ok 1), .id 1, .flag true, .commit (.ok 2)] := by decide

/-- N: the first-committer-wins theorem is not vacuous — two overlapping writers of entity 7:
the second is refused. -/
theorem c03_overlapping_writers_refused :
    outputs [.begin .snapshot, .begin .snapshot, .write 0 7, .write 1 7, .commit 0, .commit 1] =
      [.id 0, .id 1, .flag true, .flag true, .commit (.ok 1), .commit .writeConflict] := by decide

/-- P (C03, clean-up): running `gc` immediately before a commit never changes that commit's
answer, in any reachable state. (The full statement — `gc` inserted anywhere in a history —
is checked by the correspondence stream against a gc-free shadow run; not yet proved.) -/
theorem c03_gc_then_commit_same_partial (ops : List Op) (i : Nat) :
    (((grun ops).1.gc).1.commit i).2 = ((grun ops).1.commit i).2 := by
  have hinv := inv_grun ops
  generalize (grun ops).1 = m at *
  generalize (grun ops).2 = log at *
  -- a loop predicate that only fires on slots with a commit epoch above our start gives the
  -- same answer before and after gc
  have hloop : ∀ (t : Tx) (p : Tx → Bool), m.get i = some t → t.state = .active →
      (∀ j u, m.get j = some u → p u = true → ∃ e, u.cepoch = some e ∧ t.start < e) →
      anyOther (m.gc).1 i p = anyOther m i p := by
    intro t p hg hact hp
    cases h : anyOther m i p with
    | true =>
      obtain ⟨j, u, hji, hu, hpu⟩ := anyOther_elim m i p h
      obtain ⟨e, hce, hlt⟩ := hp j u hu hpu
      have hc : u.state = .committed := by
        apply Classical.byContradiction
        intro hn
        rw [(hinv.slot_ok j u hu).2.2 hn] at hce; simp at hce
      obtain ⟨ms, hms, hle⟩ := listMin_le (activeStarts m) t.start (active_start_mem m i t hg hact)
      apply anyOther_intro (m.gc).1 i j p u hji _ hpu
      rw [get_gc, hu]
      have : gcRemoves (listMin (activeStarts m)) u = false := by
        unfold gcRemoves; rw [hc, hms, hce]; simp; omega
      simp [this]
    | false =>
      cases h' : anyOther (m.gc).1 i p with
      | false => rfl
      | true =>
        obtain ⟨j, u, hji, hu, hpu⟩ := anyOther_elim _ i p h'
        have := anyOther_intro m i j p u hji (get_gc_some m j u hu) hpu
        rw [this] at h; exact absurd h (by decide)
  cases hg : m.get i with
  | none =>
    have : (m.gc).1.get i = none := by rw [get_gc, hg]
    simp [Mgr.commit, hg, this]
  | some t =>
    by_cases hact : t.state = .active
    · have hg' : (m.gc).1.get i = some t := by
        rw [get_gc, hg]; simp [gcRemoves, hact]
      have hsome : ∀ (u : Tx) (x : Nat), (match u.cepoch with | some e => decide (e > x) | none => false) = true →
          ∃ e, u.cepoch = some e ∧ x < e := by
        intro u x h
        cases hce : u.cepoch with
        | none => rw [hce] at h; simp at h
        | some e => rw [hce] at h; simp at h; exact ⟨e, rfl, h⟩
      have e1 : wwLoop1 (m.gc).1 i t = wwLoop1 m i t := by
        unfold wwLoop1
        apply hloop t _ hg hact
        intro j u hu hp
        simp only [Bool.and_eq_true, beq_iff_eq, Bool.not_eq_true'] at hp
        obtain ⟨⟨hc, hguard⟩, _⟩ := hp
        obtain ⟨e, hce, _⟩ := (hinv.slot_ok j u hu).2.1 hc
        rw [hce] at hguard; simp at hguard
        exact ⟨e, hce, hguard⟩
      have e2 : wwLoop2 (m.gc).1 i t = wwLoop2 m i t := by
        unfold wwLoop2
        apply hloop t _ hg hact
        intro j u _ hp
        simp only [Bool.and_eq_true] at hp
        exact hsome u t.start hp.1
      have e3 : ssiLoop1 (m.gc).1 i t = ssiLoop1 m i t := by
        unfold ssiLoop1
        apply hloop t _ hg hact
        intro j u _ hp
        simp only [Bool.and_eq_true] at hp
        exact hsome u t.start hp.1
      have e4 : ssiLoop2 (m.gc).1 i t = ssiLoop2 m i t := by
        unfold ssiLoop2
        apply hloop t _ hg hact
        intro j u _ hp
        simp only [Bool.and_eq_true] at hp
        exact hsome u t.start hp.2
      have hep : (m.gc).1.epoch = m.epoch := rfl
      unfold Mgr.commit
      rw [hg, hg']
      simp only [e1, e2, e3, e4, hep]
      split
      · rfl
      · split
        · rfl
        · split <;> rfl
    · have : ∀ t', (m.gc).1.get i = some t' → t'.state ≠ .active := by
        intro t' h'
        have := get_gc_some m i t' h'
        rw [hg] at this
        cases this; exact hact
      unfold Mgr.commit
      rw [hg]
      simp only [ne_eq, hact, not_false_eq_true, if_true]
      cases hg' : (m.gc).1.get i with
      | none => rfl
      | some t' => simp only [this t' hg', not_false_eq_true, if_true]

end Grafeo.TxMgr
