import GrafeoModel.Model.Val

/-!
# C16 — values compare, hash and order consistently

Floats are bit patterns; every theorem quantifies over **all** 2^64 patterns (NaN payloads,
signed zeros, infinities, subnormals) and all integers.
-/

namespace Grafeo.Val
open Grafeo.F64

/-! ### OrderedFloat64 -/

theorem ofCmp_eq_iff (a b : Nat) : ofCmp a b = .eq ↔ ofEq a b = true := by
  unfold ofCmp ofEq
  cases ha : isNaN a <;> cases hb : isNaN b <;> simp [partialCmp, feq, ha, hb, Int.compare_eq_eq]

/-- F: `OrderedFloat64::cmp` is a total order consistent with its `eq`:
`cmp = Equal ⇔ eq`, antisymmetric, transitive — for all bit patterns. -/
theorem c16_ordered_float_total_order (a b c : Nat) :
    (ofCmp a b = .eq ↔ ofEq a b = true) ∧
    (ofCmp b a = (ofCmp a b).swap) ∧
    (ofCmp a b ≠ .gt → ofCmp b c ≠ .gt → ofCmp a c ≠ .gt) := by
  refine ⟨ofCmp_eq_iff a b, ?_, ?_⟩
  · unfold ofCmp
    cases ha : isNaN a <;> cases hb : isNaN b <;> simp [partialCmp, ha, hb, Ordering.swap]
    exact (Int.compare_swap _ _).symm
  · unfold ofCmp
    cases ha : isNaN a <;> cases hb : isNaN b <;> cases hc : isNaN c <;>
      simp [partialCmp, ha, hb, hc]
    intro h1 h2 h3
    have h1' : ¬ key b < key a := fun h => h1 (Int.compare_eq_gt.mpr h)
    have h2' : ¬ key c < key b := fun h => h2 (Int.compare_eq_gt.mpr h)
    have h3' : key c < key a := Int.compare_eq_gt.mp h3
    omega

/-- F: `OrderedFloat64::eq` is an equivalence relation. -/
theorem c16_ordered_float_eq_equivalence (a b c : Nat) :
    ofEq a a = true ∧ (ofEq a b = ofEq b a) ∧ (ofEq a b = true → ofEq b c = true → ofEq a c = true) := by
  refine ⟨?_, ?_, ?_⟩
  · unfold ofEq; cases ha : isNaN a <;> simp [feq, ha]
  · unfold ofEq
    cases ha : isNaN a <;> cases hb : isNaN b <;> simp [feq, ha, hb]
    exact Bool.beq_comm
  · unfold ofEq
    cases ha : isNaN a <;> cases hb : isNaN b <;> cases hc : isNaN c <;> simp [feq, ha, hb, hc]
    intro h1 h2; exact h1.trans h2

/-- F: equal `OrderedFloat64` values feed the hasher identically — for all bit patterns,
including `+0.0`/`−0.0` and NaNs with different payloads. (Repaired code; the pinned code hashed
the raw bits, so those pairs were equal with different hashes.) -/
theorem c16_ordered_float_eq_imp_hash_eq (a b : Nat) (ha : a < 2 ^ 64) (hb : b < 2 ^ 64)
    (h : ofEq a b = true) : ofHashFeed a = ofHashFeed b := by
  unfold ofEq at h
  unfold ofHashFeed
  cases hna : isNaN a <;> cases hnb : isNaN b <;> simp [hna, hnb, feq] at h ⊢
  unfold key at h
  have hsa : signBit a = a / 2 ^ 63 := by unfold signBit; omega
  have hsb : signBit b = b / 2 ^ 63 := by unfold signBit; omega
  unfold mag at *
  by_cases hza : a % 2 ^ 63 = 0
  · have hzb : b % 2 ^ 63 = 0 := by
      split at h <;> split at h <;> omega
    simp [hza, hzb]
  · have hzb : b % 2 ^ 63 ≠ 0 := by
      split at h <;> split at h <;> omega
    simp only [hza, hzb, if_false]
    congr 1
    split at h <;> split at h <;> omega

/-- N: the anomalous pairs really are equal (so the theorem is not vacuous on them). -/
theorem c16_ordered_float_zero_nan_instances :
    ofEq 0 (2 ^ 63) = true ∧ ofCmp 0 (2 ^ 63) = .eq ∧ ofHashFeed 0 = ofHashFeed (2 ^ 63) ∧
    ofEq 0x7FF8000000000000 0x7FF8000000000001 = true ∧
    ofHashFeed 0x7FF8000000000000 = ofHashFeed 0x7FF8000000000001 := by decide

/-! ### OrderableValue -/

/-- W: `OrderableValue`'s equality is **not transitive** across Int/Float (2^53+1 rounds to
2^53), and equal values of different variants feed different hash input. -/
theorem c16_orderable_eq_not_transitive_witness :
    ovEq (.int 9007199254740993) (.float 0x4340000000000000) = true ∧
    ovEq (.float 0x4340000000000000) (.int 9007199254740992) = true ∧
    ovEq (.int 9007199254740993) (.int 9007199254740992) = false := by decide

theorem c16_orderable_int_float_hash_witness :
    ovEq (.int 1) (.float 0x3FF0000000000000) = true ∧
    ovCmp (.int 1) (.float 0x3FF0000000000000) = .eq ∧
    ovHashFeed (.int 1) ≠ ovHashFeed (.float 0x3FF0000000000000) := by decide

/-- P: within one variant other than Float64, equality is identity, so equal values hash equally
and `cmp = Equal ⇔ eq`. -/
theorem c16_orderable_same_variant_partial (a b : OV) (hd : a.discr = b.discr)
    (hf : ∀ x, a ≠ .float x) (h : ovEq a b = true) : a = b ∧ ovHashFeed a = ovHashFeed b := by
  cases a <;> cases b <;> simp [OV.discr] at hd <;> simp [ovEq] at h
  · subst h; exact ⟨rfl, rfl⟩
  · rename_i x y; exact absurd rfl (hf x)
  · subst h; exact ⟨rfl, rfl⟩
  · subst h; exact ⟨rfl, rfl⟩
  · subst h; exact ⟨rfl, rfl⟩

/-! ### HashableValue -/

mutual
theorem hvEq_iff : ∀ (a b : HV), a.mapFree = true → (hvEq a b = true ↔ a = b)
  | .null, b, _ => by cases b <;> simp [hvEq]
  | .bool x, b, _ => by cases b <;> simp [hvEq]
  | .int x, b, _ => by cases b <;> simp [hvEq]
  | .float x, b, _ => by cases b <;> simp [hvEq]
  | .str x, b, _ => by cases b <;> simp [hvEq]
  | .bytes x, b, _ => by cases b <;> simp [hvEq]
  | .ts x, b, _ => by cases b <;> simp [hvEq]
  | .vec x, b, _ => by cases b <;> simp [hvEq]
  | .map x, b, h => by simp [HV.mapFree] at h
  | .list x, b, h => by
      cases b <;> simp [hvEq]
      exact hvEqList_iff x _ (by simpa [HV.mapFree] using h)
theorem hvEqList_iff : ∀ (a b : List HV), mapFreeList a = true → (hvEqList a b = true ↔ a = b)
  | [], b, _ => by cases b <;> simp [hvEqList]
  | x :: xs, b, h => by
      simp [mapFreeList] at h
      cases b with
      | nil => simp [hvEqList]
      | cons y ys => simp [hvEqList, hvEq_iff x y h.1, hvEqList_iff xs ys h.2]
end

/-- F (for values without maps; maps are covered by the correspondence stream only):
`HashableValue`'s equality is structural identity on the bit-level representation — hence an
equivalence relation — and equal values feed the hasher identically, to any nesting depth. -/
theorem c16_hashable_eq_equivalence_and_hash (a b c : HV)
    (ha : a.mapFree = true) (hb : b.mapFree = true) :
    hvEq a a = true ∧
    (hvEq a b = true → hvEq b a = true) ∧
    (hvEq a b = true → hvEq b c = true → hvEq a c = true) ∧
    (hvEq a b = true → hvFeed a = hvFeed b) := by
  refine ⟨(hvEq_iff a a ha).mpr rfl, ?_, ?_, ?_⟩
  · intro h; have := (hvEq_iff a b ha).mp h; subst this; exact (hvEq_iff a a ha).mpr rfl
  · intro h1 h2
    have e1 := (hvEq_iff a b ha).mp h1
    have e2 := (hvEq_iff b c hb).mp h2
    subst e1; subst e2; exact (hvEq_iff a a ha).mpr rfl
  · intro h; have := (hvEq_iff a b ha).mp h; subst this; rfl

/-- F: an index keyed by `HashableValue` never merges an integer with a float, nor two floats
with different bits (in particular `+0.0` / `−0.0` and distinct NaNs stay apart). -/
theorem c16_hashable_separates (i : Int) (x y : Nat) :
    hvEq (.int i) (.float x) = false ∧ (x ≠ y → hvEq (.float x) (.float y) = false) := by
  refine ⟨by simp [hvEq], ?_⟩
  intro h; simp [hvEq, h]

/-- N: nested non-trivial instance. -/
example : hvEq (.list [.float 0x7FF8000000000000, .list [.int 3, .str [97]]])
               (.list [.float 0x7FF8000000000000, .list [.int 3, .str [97]]]) = true := by
  simp [hvEq, hvEqList]

end Grafeo.Val
