import GrafeoModel.Model.Val

/-!
# C16 — values compare, hash and order consistently

Floats are bit patterns; every theorem quantifies over **all** 2^64 patterns (NaN payloads,
signed zeros, infinities, subnormals) and all integers.

`OrderableValue` is modelled as repaired (exact Int64/Float64 comparison, a float that equals an
integer hashes as that integer). Its three laws are proved for every value of the type through an
order key: `ovKey` sends a value to (class, exact numeric value · 2^1074, bytes); `==` is equality
of keys and `cmp` is the lexicographic comparison of keys. The definitions of the code before the
repair live in `Grafeo.Val.Old` with the two witnesses that refuted the laws there.
-/

set_option exponentiation.threshold 4096

/-! ### exact values of bit patterns (`Model/F64.lean`: `absScaled`, `scaled`, `truncBits`) -/

namespace Grafeo.F64

theorem mag_decomp (b : Nat) :
    mag b = expField b * 2 ^ 52 + fracField b ∧ fracField b < 2 ^ 52 ∧ expField b < 2 ^ 11 := by
  unfold mag expField fracField; omega

theorem signBit_lt (b : Nat) : signBit b = 0 ∨ signBit b = 1 := by unfold signBit; omega

theorem two_pow_pred_le {e1 e2 : Nat} (h1 : 1 ≤ e1) (h : e1 < e2) : 2 * 2 ^ (e1 - 1) ≤ 2 ^ (e2 - 1) := by
  have : 2 * 2 ^ (e1 - 1) = 2 ^ e1 := by
    have : e1 = (e1 - 1) + 1 := by omega
    conv => rhs; rw [this, Nat.pow_succ]
    omega
  rw [this]
  exact Nat.pow_le_pow_right (by decide) (by omega)

/-- the exact magnitude is strictly monotone in the 63-bit magnitude pattern -/
theorem absScaled_strictMono {x y : Nat} (h : mag x < mag y) : absScaled x < absScaled y := by
  obtain ⟨hx, hfx, _⟩ := mag_decomp x
  obtain ⟨hy, hfy, _⟩ := mag_decomp y
  unfold absScaled sig
  generalize expField x = e1 at *
  generalize expField y = e2 at *
  generalize fracField x = f1 at *
  generalize fracField y = f2 at *
  have hcase : e1 < e2 ∨ (e1 = e2 ∧ f1 < f2) := by omega
  rcases hcase with hlt | ⟨heq, hf⟩
  · have hp2 : 0 < 2 ^ (e2 - 1) := Nat.two_pow_pos _
    have he2 : e2 ≠ 0 := by omega
    simp only [he2, if_false]
    by_cases he1 : e1 = 0
    · subst he1
      simp only [if_true]
      have : 2 ^ 52 * 1 ≤ (2 ^ 52 + f2) * 2 ^ (e2 - 1) :=
        Nat.mul_le_mul (by omega) hp2
      simp only [Nat.zero_sub, Nat.pow_zero, Nat.mul_one] at *
      omega
    · simp only [he1, if_false]
      have hp1 : 0 < 2 ^ (e1 - 1) := Nat.two_pow_pos _
      have hle := two_pow_pred_le (by omega : 1 ≤ e1) hlt
      have a1 : (2 ^ 52 + f1) * 2 ^ (e1 - 1) < 2 ^ 53 * 2 ^ (e1 - 1) :=
        Nat.mul_lt_mul_of_pos_right (by omega) hp1
      have a2 : 2 ^ 52 * (2 * 2 ^ (e1 - 1)) ≤ 2 ^ 52 * 2 ^ (e2 - 1) := Nat.mul_le_mul_left _ hle
      have a3 : 2 ^ 52 * 2 ^ (e2 - 1) ≤ (2 ^ 52 + f2) * 2 ^ (e2 - 1) := Nat.mul_le_mul_right _ (by omega)
      generalize 2 ^ (e1 - 1) = p1 at *
      generalize 2 ^ (e2 - 1) = p2 at *
      generalize (2 ^ 52 + f1) * p1 = l at *
      generalize (2 ^ 52 + f2) * p2 = r at *
      omega
  · subst heq
    have hp : 0 < 2 ^ (e1 - 1) := Nat.two_pow_pos _
    by_cases he1 : e1 = 0
    · simp only [he1, if_true]
      exact Nat.mul_lt_mul_of_pos_right hf (Nat.two_pow_pos _)
    · simp only [he1, if_false]
      exact Nat.mul_lt_mul_of_pos_right (by omega) hp


theorem absScaled_congr {x y : Nat} (h : mag x = mag y) : absScaled x = absScaled y := by
  have hx := mag_decomp x
  have hy := mag_decomp y
  have he : expField x = expField y := by omega
  have hf : fracField x = fracField y := by omega
  unfold absScaled sig; rw [he, hf]

theorem absScaled_lt_iff (x y : Nat) : absScaled x < absScaled y ↔ mag x < mag y := by
  constructor
  · intro h
    rcases Nat.lt_trichotomy (mag x) (mag y) with h1 | h1 | h1
    · exact h1
    · have := absScaled_congr h1; omega
    · have := absScaled_strictMono h1; omega
  · exact absScaled_strictMono

theorem absScaled_eq_iff (x y : Nat) : absScaled x = absScaled y ↔ mag x = mag y := by
  constructor
  · intro h
    rcases Nat.lt_trichotomy (mag x) (mag y) with h1 | h1 | h1
    · have := absScaled_strictMono h1; omega
    · exact h1
    · have := absScaled_strictMono h1; omega
  · exact absScaled_congr

theorem absScaled_eq_zero_iff (x : Nat) : absScaled x = 0 ↔ mag x = 0 := by
  have h := absScaled_eq_iff x 0
  have h0 : absScaled 0 = 0 := by decide
  have m0 : mag 0 = 0 := by decide
  rw [h0, m0] at h; exact h

/-- the sign–magnitude key orders bit patterns exactly as their values are ordered -/
theorem key_lt_iff (a b : Nat) : key a < key b ↔ scaled a < scaled b := by
  have h1 := absScaled_lt_iff a b
  have h2 := absScaled_lt_iff b a
  have za := absScaled_eq_zero_iff a
  have zb := absScaled_eq_zero_iff b
  unfold key scaled
  generalize absScaled a = x at *
  generalize absScaled b = y at *
  split <;> split <;> omega

theorem key_eq_iff (a b : Nat) : key a = key b ↔ scaled a = scaled b := by
  have h1 := absScaled_eq_iff a b
  have za := absScaled_eq_zero_iff a
  have zb := absScaled_eq_zero_iff b
  unfold key scaled
  generalize absScaled a = x at *
  generalize absScaled b = y at *
  split <;> split <;> omega

theorem key_le_iff (a b : Nat) : key a ≤ key b ↔ scaled a ≤ scaled b := by
  have h1 := key_lt_iff b a
  omega

theorem compare_congr {a b c d : Int} (hlt : a < b ↔ c < d) (heq : a = b ↔ c = d) :
    compare a b = compare c d := by
  rcases Int.lt_trichotomy a b with h | h | h
  · rw [Int.compare_eq_lt.mpr h, Int.compare_eq_lt.mpr (hlt.mp h)]
  · rw [Int.compare_eq_eq.mpr h, Int.compare_eq_eq.mpr (heq.mp h)]
  · have : d < c := by omega
    rw [Int.compare_eq_gt.mpr h, Int.compare_eq_gt.mpr this]

theorem compare_key (a b : Nat) : compare (key a) (key b) = compare (scaled a) (scaled b) :=
  compare_congr (key_lt_iff a b) (key_eq_iff a b)

/-- a non-NaN pattern is at most infinity in magnitude -/
theorem scaled_bound (b : Nat) (h : isNaN b = false) :
    -(2 ^ 2098 : Int) ≤ scaled b ∧ scaled b ≤ 2 ^ 2098 := by
  have hm : ¬ mag 0x7FF0000000000000 < mag b := by
    have hd := mag_decomp b
    have : mag 0x7FF0000000000000 = 2047 * 2 ^ 52 := by decide
    rw [this]
    unfold isNaN at h
    by_cases he : expField b = 2047
    · simp [he] at h; omega
    · omega
  have hA : ¬ absScaled 0x7FF0000000000000 < absScaled b := fun hh => hm ((absScaled_lt_iff _ _).mp hh)
  have hI : absScaled 0x7FF0000000000000 = 2 ^ 2098 := by decide
  rw [hI] at hA
  unfold scaled
  split <;> omega


/-- `trunc` keeps the sign, is NaN only on NaN, and has the value `⌊|v|⌋` (as a multiple of `2^1074`). -/
theorem truncBits_spec (b : Nat) :
    signBit (truncBits b) = signBit b ∧ isNaN (truncBits b) = isNaN b ∧
    absScaled (truncBits b) = absScaled b / 2 ^ 1074 * 2 ^ 1074 := by
  unfold truncBits
  simp only []
  by_cases h1 : expField b < 1023
  · rw [if_pos h1]
    have hs := signBit_lt b
    have hN : isNaN b = false := by
      unfold isNaN; have : ¬ expField b = 2047 := by omega
      simp [this]
    have hz : absScaled b / 2 ^ 1074 = 0 := by
      apply Nat.div_eq_of_lt
      unfold absScaled
      have hsig : sig b < 2 ^ 53 := by
        unfold sig; have := (mag_decomp b).2.1; split <;> omega
      have hp : 2 ^ (expField b - 1) ≤ 2 ^ 1021 := Nat.pow_le_pow_right (by decide) (by omega)
      calc sig b * 2 ^ (expField b - 1) ≤ sig b * 2 ^ 1021 := Nat.mul_le_mul_left _ hp
        _ < 2 ^ 53 * 2 ^ 1021 := Nat.mul_lt_mul_of_pos_right hsig (Nat.two_pow_pos _)
        _ = 2 ^ 1074 := by rw [← Nat.pow_add]
    rw [hz, hN, Nat.zero_mul]
    rcases hs with hs | hs <;> rw [hs] <;> decide
  · rw [if_neg h1]
    by_cases h2 : expField b ≥ 1075
    · rw [if_pos h2]
      refine ⟨rfl, rfl, ?_⟩
      unfold absScaled
      have : 2 ^ (expField b - 1) = 2 ^ (expField b - 1075) * 2 ^ 1074 := by
        rw [← Nat.pow_add]; congr 1; omega
      rw [this, ← Nat.mul_assoc, Nat.mul_div_cancel _ (Nat.two_pow_pos _)]
    · rw [if_neg h2]
      have hsh : 1075 - expField b ≤ 52 := by omega
      have hdvd : 2 ^ (1075 - expField b) ∣ 2 ^ 52 := Nat.pow_dvd_pow 2 hsh
      have hr : b % 2 ^ (1075 - expField b) = fracField b % 2 ^ (1075 - expField b) := by
        unfold fracField; rw [Nat.mod_mod_of_dvd _ hdvd]
      have hrle : b % 2 ^ (1075 - expField b) ≤ b % 2 ^ 52 := by
        rw [hr]; exact Nat.mod_le _ _
      generalize hrdef : b % 2 ^ (1075 - expField b) = r at *
      have he : expField (b - r) = expField b := by unfold expField; omega
      have hf : fracField (b - r) = fracField b - r := by unfold fracField; omega
      have hs : signBit (b - r) = signBit b := by unfold signBit; omega
      refine ⟨hs, ?_, ?_⟩
      · have hne : (expField b == 2047) = false := by
          have : ¬ expField b = 2047 := by omega
          simpa using this
        unfold isNaN; rw [he, hne]; rfl
      · unfold absScaled sig
        rw [he, hf]
        have he0 : ¬ expField b = 0 := by omega
        simp only [he0, if_false]
        have hfr : fracField b = b % 2 ^ 52 := rfl
        -- (2^52 + fr) % 2^sh = r
        have hmod : (2 ^ 52 + fracField b) % 2 ^ (1075 - expField b) = r := by
          rw [Nat.add_mod, Nat.mod_eq_zero_of_dvd hdvd, Nat.zero_add, Nat.mod_mod, ← hr]
        have hdm := Nat.div_add_mod (2 ^ 52 + fracField b) (2 ^ (1075 - expField b))
        rw [hmod] at hdm
        have hsig : 2 ^ 52 + (fracField b - r) = (2 ^ 52 + fracField b) / 2 ^ (1075 - expField b) * 2 ^ (1075 - expField b) := by
          rw [Nat.mul_comm]; omega
        have hP : (2 : Nat) ^ 1074 = 2 ^ (1075 - expField b) * 2 ^ (expField b - 1) := by
          rw [← Nat.pow_add]; congr 1; omega
        rw [hsig, hP, Nat.mul_div_mul_right _ _ (Nat.two_pow_pos _), Nat.mul_assoc]


end Grafeo.F64

namespace Grafeo.Val
open Grafeo.F64

/-! ### OrderedFloat64 -/

theorem ofCmp_eq_iff (a b : Nat) : ofCmp a b = .eq ↔ ofEq a b = true := by
  unfold ofCmp ofEq
  cases ha : isNaN a <;> cases hb : isNaN b <;> simp [partialCmp, feq, ha, hb, Int.compare_eq_eq]

/-- F: `OrderedFloat64::cmp` is a total order consistent with its `eq`:
`cmp = Equal ⇔ eq`, antisymmetric, transitive — for all bit patterns. -/
theorem c16_ordered_float_total_order (a b c : Nat) :
    (ofCmp a b = .eq ↔ ofEq a b = true) ∧
    (ofCmp b a = (ofCmp a b).swap) ∧
    (ofCmp a b ≠ .gt → ofCmp b c ≠ .gt → ofCmp a c ≠ .gt) := by
  refine ⟨ofCmp_eq_iff a b, ?_, ?_⟩
  · unfold ofCmp
    cases ha : isNaN a <;> cases hb : isNaN b <;> simp [partialCmp, ha, hb, Ordering.swap]
    exact (Int.compare_swap _ _).symm
  · unfold ofCmp
    cases ha : isNaN a <;> cases hb : isNaN b <;> cases hc : isNaN c <;>
      simp [partialCmp, ha, hb, hc]
    intro h1 h2 h3
    have h1' : ¬ key b < key a := fun h => h1 (Int.compare_eq_gt.mpr h)
    have h2' : ¬ key c < key b := fun h => h2 (Int.compare_eq_gt.mpr h)
    have h3' : key c < key a := Int.compare_eq_gt.mp h3
    omega

/-- F: `OrderedFloat64::eq` is an equivalence relation. -/
theorem c16_ordered_float_eq_equivalence (a b c : Nat) :
    ofEq a a = true ∧ (ofEq a b = ofEq b a) ∧ (ofEq a b = true → ofEq b c = true → ofEq a c = true) := by
  refine ⟨?_, ?_, ?_⟩
  · unfold ofEq; cases ha : isNaN a <;> simp [feq, ha]
  · unfold ofEq
    cases ha : isNaN a <;> cases hb : isNaN b <;> simp [feq, ha, hb]
    exact Bool.beq_comm
  · unfold ofEq
    cases ha : isNaN a <;> cases hb : isNaN b <;> cases hc : isNaN c <;> simp [feq, ha, hb, hc]
    intro h1 h2; exact h1.trans h2

/-- F: equal `OrderedFloat64` values feed the hasher identically — for all bit patterns,
including `+0.0`/`−0.0` and NaNs with different payloads. (Repaired code; the pinned code hashed
the raw bits, so those pairs were equal with different hashes.) -/
theorem c16_ordered_float_eq_imp_hash_eq (a b : Nat) (ha : a < 2 ^ 64) (hb : b < 2 ^ 64)
    (h : ofEq a b = true) : ofHashFeed a = ofHashFeed b := by
  unfold ofEq at h
  unfold ofHashFeed
  cases hna : isNaN a <;> cases hnb : isNaN b <;> simp [hna, hnb, feq] at h ⊢
  unfold key at h
  have hsa : signBit a = a / 2 ^ 63 := by unfold signBit; omega
  have hsb : signBit b = b / 2 ^ 63 := by unfold signBit; omega
  unfold mag at *
  by_cases hza : a % 2 ^ 63 = 0
  · have hzb : b % 2 ^ 63 = 0 := by
      split at h <;> split at h <;> omega
    simp [hza, hzb]
  · have hzb : b % 2 ^ 63 ≠ 0 := by
      split at h <;> split at h <;> omega
    simp only [hza, hzb, if_false]
    congr 1
    split at h <;> split at h <;> omega

/-- N: the anomalous pairs really are equal (so the theorem is not vacuous on them). -/
theorem c16_ordered_float_zero_nan_instances :
    ofEq 0 (2 ^ 63) = true ∧ ofCmp 0 (2 ^ 63) = .eq ∧ ofHashFeed 0 = ofHashFeed (2 ^ 63) ∧
    ofEq 0x7FF8000000000000 0x7FF8000000000001 = true ∧
    ofHashFeed 0x7FF8000000000000 = ofHashFeed 0x7FF8000000000001 := by decide

/-! ### OrderableValue -/

theorem ofCmp_eq_compare (a b : Nat) : ofCmp a b = compare (fRank a) (fRank b) := by
  unfold ofCmp fRank
  cases ha : isNaN a <;> cases hb : isNaN b <;> simp only [if_true, if_false, Bool.false_eq_true]
  · simp [partialCmp, ha, hb, compare_key]
  · have := scaled_bound a ha
    exact (Int.compare_eq_lt.mpr (by omega)).symm
  · have := scaled_bound b hb
    exact (Int.compare_eq_gt.mpr (by omega)).symm
  · exact (Int.compare_eq_eq.mpr rfl).symm

theorem scaled_twoPow63 : scaled twoPow63 = 2 ^ 1137 := by decide
theorem scaled_negTwoPow63 : scaled negTwoPow63 = -(2 ^ 1137) := by decide

theorem fge_twoPow63 (b : Nat) (h : isNaN b = false) : fge b twoPow63 = decide (2 ^ 1137 ≤ scaled b) := by
  have hK : isNaN twoPow63 = false := by decide
  unfold fge; rw [h, hK]
  have := key_le_iff twoPow63 b
  rw [scaled_twoPow63] at this
  simp [this]

theorem flt_negTwoPow63 (b : Nat) (h : isNaN b = false) : flt b negTwoPow63 = decide (scaled b < -(2 ^ 1137)) := by
  have hK : isNaN negTwoPow63 = false := by decide
  unfold flt; rw [h, hK]
  have := key_lt_iff b negTwoPow63
  rw [scaled_negTwoPow63] at this
  simp [this]

theorem fge_negTwoPow63 (b : Nat) (h : isNaN b = false) : fge b negTwoPow63 = decide (-(2 ^ 1137) ≤ scaled b) := by
  have hK : isNaN negTwoPow63 = false := by decide
  unfold fge; rw [h, hK]
  have := key_le_iff negTwoPow63 b
  rw [scaled_negTwoPow63] at this
  simp [this]

theorem flt_twoPow63 (b : Nat) (h : isNaN b = false) : flt b twoPow63 = decide (scaled b < 2 ^ 1137) := by
  have hK : isNaN twoPow63 = false := by decide
  unfold flt; rw [h, hK]
  have := key_lt_iff b twoPow63
  rw [scaled_twoPow63] at this
  simp [this]

/-- `f as i64` of an in-range pattern is the integer part of its value -/
theorem f64ToI64_inRange (b : Nat) (h : isNaN b = false)
    (hlo : -(2 ^ 1137 : Int) ≤ scaled b) (hhi : scaled b < 2 ^ 1137) :
    f64ToI64 b = if signBit b = 1 then -((absScaled b / 2 ^ 1074 : Nat) : Int) else ((absScaled b / 2 ^ 1074 : Nat) : Int) := by
  unfold f64ToI64
  simp only [h, Bool.false_eq_true, if_false]
  unfold scaled at hlo hhi
  generalize absScaled b = A at *
  split <;> simp_all <;> omega


/-- **exactness**: the repaired `cmp_i64_f64` compares the integer `i` and the float `b` as
numbers (both scaled by `2^1074`; NaN above everything). -/
theorem cmpI64F64_eq_compare (i : Int) (b : Nat) (hi : inI64 i) :
    cmpI64F64 i b = compare (i * 2 ^ 1074) (fRank b) := by
  unfold inI64 at hi
  unfold cmpI64F64 fRank
  cases hN : isNaN b
  · simp only [Bool.false_or, Bool.false_eq_true, if_false]
    rw [fge_twoPow63 b hN, flt_negTwoPow63 b hN]
    by_cases h1 : (2 : Int) ^ 1137 ≤ scaled b
    · simp only [h1, decide_true, if_true]
      exact (Int.compare_eq_lt.mpr (by omega)).symm
    · simp only [h1, decide_false, Bool.false_eq_true, if_false]
      by_cases h2 : scaled b < -(2 ^ 1137 : Int)
      · simp only [h2, decide_true, if_true]
        exact (Int.compare_eq_gt.mpr (by omega)).symm
      · simp only [h2, decide_false, Bool.false_eq_true, if_false]
        obtain ⟨hs, hn, hA⟩ := truncBits_spec b
        rw [hN] at hn
        -- the integral float `whole` has the value ±(A / P) · P
        have hw : scaled (truncBits b) = if signBit b = 1 then -((absScaled b / 2 ^ 1074 * 2 ^ 1074 : Nat) : Int) else ((absScaled b / 2 ^ 1074 * 2 ^ 1074 : Nat) : Int) := by
          unfold scaled; rw [hs, hA]
        have hwlo : -(2 ^ 1137 : Int) ≤ scaled (truncBits b) := by
          rw [hw]; unfold scaled at h2; generalize absScaled b = A at *; split <;> simp_all <;> omega
        have hwhi : scaled (truncBits b) < (2 ^ 1137 : Int) := by
          rw [hw]; unfold scaled at h1; generalize absScaled b = A at *; split <;> simp_all <;> omega
        rw [f64ToI64_inRange _ hn hwlo hwhi, hs, hA, Nat.mul_div_cancel _ (Nat.two_pow_pos _)]
        have hp : partialCmp (truncBits b) b = some (compare (scaled (truncBits b)) (scaled b)) := by
          unfold partialCmp; simp [hn, hN, compare_key]
        rw [hp, hw]
        simp only [Option.getD_some]
        unfold scaled at h1 h2 ⊢
        generalize absScaled b = A at *
        rcases signBit_lt b with hsb | hsb <;> simp only [hsb, if_true, if_false, Nat.zero_ne_one] at h1 h2 ⊢
        · rcases Int.lt_trichotomy i ((A / 2 ^ 1074 : Nat) : Int) with h | h | h
          · rw [Int.compare_eq_lt.mpr h]; exact (Int.compare_eq_lt.mpr (by omega)).symm
          · rw [Int.compare_eq_eq.mpr h]
            have e : ((A / 2 ^ 1074 * 2 ^ 1074 : Nat) : Int) = i * 2 ^ 1074 := by omega
            simp only []; rw [e]
          · rw [Int.compare_eq_gt.mpr h]; exact (Int.compare_eq_gt.mpr (by omega)).symm
        · rcases Int.lt_trichotomy i (-((A / 2 ^ 1074 : Nat) : Int)) with h | h | h
          · rw [Int.compare_eq_lt.mpr h]; exact (Int.compare_eq_lt.mpr (by omega)).symm
          · rw [Int.compare_eq_eq.mpr h]
            have e : -((A / 2 ^ 1074 * 2 ^ 1074 : Nat) : Int) = i * 2 ^ 1074 := by omega
            simp only []; rw [e]
          · rw [Int.compare_eq_gt.mpr h]; exact (Int.compare_eq_gt.mpr (by omega)).symm
  · simp only [Bool.true_or, if_true]
    exact (Int.compare_eq_lt.mpr (by omega)).symm


/-- `f64_as_exact_i64` returns `i` exactly when the float's value is the `i64` `i`. -/
theorem f64AsExactI64_eq_some_iff (b : Nat) (i : Int) :
    f64AsExactI64 b = some i ↔ (fRank b = i * 2 ^ 1074 ∧ inI64 i) := by
  unfold f64AsExactI64 fRank inI64
  cases hN : isNaN b
  · simp only [Bool.false_eq_true, if_false]
    rw [fge_negTwoPow63 b hN, flt_twoPow63 b hN]
    obtain ⟨hs, hn, hA⟩ := truncBits_spec b
    rw [hN] at hn
    have hfeq : feq (truncBits b) b = decide (scaled (truncBits b) = scaled b) := by
      unfold feq; rw [hn, hN]
      have := key_eq_iff (truncBits b) b
      rw [Bool.eq_iff_iff]; simp only [Bool.not_false, Bool.true_and, beq_iff_eq, decide_eq_true_eq]; exact this
    have hw : scaled (truncBits b) = if signBit b = 1 then -((absScaled b / 2 ^ 1074 * 2 ^ 1074 : Nat) : Int) else ((absScaled b / 2 ^ 1074 * 2 ^ 1074 : Nat) : Int) := by
      unfold scaled; rw [hs, hA]
    rw [hfeq, hw]
    by_cases hlo : -(2 ^ 1137 : Int) ≤ scaled b
    · by_cases hhi : scaled b < (2 ^ 1137 : Int)
      · rw [f64ToI64_inRange b hN hlo hhi]
        unfold scaled at hlo hhi ⊢
        generalize absScaled b = A at *
        rcases signBit_lt b with hsb | hsb <;> simp only [hsb, if_true, if_false, Nat.zero_ne_one] at hlo hhi ⊢
        · by_cases hd : ((A / 2 ^ 1074 * 2 ^ 1074 : Nat) : Int) = (A : Int)
          · simp only [hlo, hhi, hd, decide_true, Bool.and_self, if_true, Option.some.injEq]
            omega
          · simp only [hd, decide_false, Bool.and_false, Bool.false_eq_true, if_false, reduceCtorEq, false_iff]
            omega
        · by_cases hd : -((A / 2 ^ 1074 * 2 ^ 1074 : Nat) : Int) = -(A : Int)
          · simp only [hlo, hhi, hd, decide_true, Bool.and_self, if_true, Option.some.injEq]
            omega
          · simp only [hd, decide_false, Bool.and_false, Bool.false_eq_true, if_false, reduceCtorEq, false_iff]
            omega
      · simp only [hhi, decide_false, Bool.and_false, Bool.false_and, Bool.false_eq_true, if_false, reduceCtorEq, false_iff]
        omega
    · simp only [hlo, decide_false, Bool.false_and, Bool.false_eq_true, if_false, reduceCtorEq, false_iff]
      omega
  · have h1 : fge b negTwoPow63 = false := by unfold fge; simp [hN]
    simp only [h1, Bool.false_and, Bool.false_eq_true, if_false, if_true, reduceCtorEq, false_iff]
    omega


/-! ### byte strings -/

theorem cmpBytes_eq_iff : ∀ (a b : List Nat), cmpBytes a b = .eq ↔ a = b
  | [], [] => by simp [cmpBytes]
  | [], _ :: _ => by simp [cmpBytes]
  | _ :: _, [] => by simp [cmpBytes]
  | x :: xs, y :: ys => by
    unfold cmpBytes
    by_cases h1 : x < y
    · simp only [h1, if_true, reduceCtorEq, false_iff, List.cons.injEq]; omega
    · by_cases h2 : x > y
      · simp only [h1, h2, if_true, if_false, reduceCtorEq, false_iff, List.cons.injEq]; omega
      · have : x = y := by omega
        subst this
        simp only [Nat.lt_irrefl, gt_iff_lt, if_false, List.cons.injEq, true_and]
        exact cmpBytes_eq_iff xs ys

theorem cmpBytes_swap : ∀ (a b : List Nat), cmpBytes b a = (cmpBytes a b).swap
  | [], [] => by simp [cmpBytes]
  | [], _ :: _ => by simp [cmpBytes]
  | _ :: _, [] => by simp [cmpBytes]
  | x :: xs, y :: ys => by
    unfold cmpBytes
    by_cases h1 : x < y
    · have : ¬ y < x := by omega
      simp [h1, this]
    · by_cases h2 : x > y
      · simp [h1, h2]
      · have h3 : ¬ y < x := by omega
        have h4 : ¬ y > x := by omega
        have : x = y := by omega
        subst this
        simp only [Nat.lt_irrefl, gt_iff_lt, if_false]
        exact cmpBytes_swap xs ys

theorem cmpBytes_trans : ∀ (a b c : List Nat),
    cmpBytes a b ≠ .gt → cmpBytes b c ≠ .gt → cmpBytes a c ≠ .gt
  | [], _, [] => by simp [cmpBytes]
  | [], _, _ :: _ => by simp [cmpBytes]
  | _ :: _, [], _ => by simp [cmpBytes]
  | _ :: _, _ :: _, [] => by simp [cmpBytes]
  | x :: xs, y :: ys, z :: zs => by
    unfold cmpBytes
    intro h1 h2
    by_cases xy : x < y
    · by_cases yz : y < z
      · have : x < z := by omega
        simp [this]
      · by_cases yz' : y > z
        · simp [yz, yz'] at h2
        · have : x < z := by omega
          simp [this]
    · by_cases xy' : x > y
      · simp [xy, xy'] at h1
      · have exy : x = y := by omega
        subst exy
        by_cases yz : x < z
        · simp [yz]
        · by_cases yz' : x > z
          · simp [yz, yz'] at h2
          · have : x = z := by omega
            subst this
            simp only [Nat.lt_irrefl, gt_iff_lt, if_false] at h1 h2 ⊢
            exact cmpBytes_trans xs ys zs h1 h2

/-! ### the order key of an `OrderableValue` (`ovKey`, `keyCmp` in `Model/Val.lean`) -/

theorem keyCmp_eq_iff (x y : OKey) : keyCmp x y = .eq ↔ x = y := by
  unfold keyCmp
  rw [Ordering.then_eq_eq, Ordering.then_eq_eq, Nat.compare_eq_eq, Int.compare_eq_eq, cmpBytes_eq_iff]
  cases x; cases y; simp

theorem keyCmp_swap (x y : OKey) : keyCmp y x = (keyCmp x y).swap := by
  unfold keyCmp
  rw [Ordering.swap_then, Ordering.swap_then, Nat.compare_swap, Int.compare_swap, ← cmpBytes_swap]

theorem keyCmp_ne_gt_iff (x y : OKey) : keyCmp x y ≠ .gt ↔
    (x.cls < y.cls ∨ (x.cls = y.cls ∧ (x.num < y.num ∨ (x.num = y.num ∧ cmpBytes x.str y.str ≠ .gt)))) := by
  unfold keyCmp
  rw [Ne, Ordering.then_eq_gt, Ordering.then_eq_gt, Nat.compare_eq_gt, Nat.compare_eq_eq, Int.compare_eq_gt, Int.compare_eq_eq]
  constructor
  · intro h
    rcases Nat.lt_trichotomy x.cls y.cls with h1 | h1 | h1
    · exact Or.inl h1
    · refine Or.inr ⟨h1, ?_⟩
      rcases Int.lt_trichotomy x.num y.num with h2 | h2 | h2
      · exact Or.inl h2
      · exact Or.inr ⟨h2, fun hg => h (Or.inr ⟨h1, Or.inr ⟨h2, hg⟩⟩)⟩
      · exact absurd (Or.inr ⟨h1, Or.inl h2⟩) h
    · exact absurd (Or.inl h1) h
  · intro h hg
    rcases h with h | ⟨h1, h | ⟨h2, h3⟩⟩
    · rcases hg with hg | ⟨hg, _⟩ <;> omega
    · rcases hg with hg | ⟨_, hg | ⟨hg, _⟩⟩ <;> omega
    · rcases hg with hg | ⟨_, hg | ⟨_, hg⟩⟩
      · omega
      · omega
      · exact h3 hg

theorem keyCmp_trans (x y z : OKey) : keyCmp x y ≠ .gt → keyCmp y z ≠ .gt → keyCmp x z ≠ .gt := by
  rw [keyCmp_ne_gt_iff, keyCmp_ne_gt_iff, keyCmp_ne_gt_iff]
  intro h1 h2
  rcases h1 with h1 | ⟨c1, h1⟩
  · rcases h2 with h2 | ⟨c2, _⟩ <;> exact Or.inl (by omega)
  · rcases h2 with h2 | ⟨c2, h2⟩
    · exact Or.inl (by omega)
    · refine Or.inr ⟨by omega, ?_⟩
      rcases h1 with h1 | ⟨n1, h1⟩
      · rcases h2 with h2 | ⟨n2, _⟩ <;> exact Or.inl (by omega)
      · rcases h2 with h2 | ⟨n2, h2⟩
        · exact Or.inl (by omega)
        · exact Or.inr ⟨by omega, cmpBytes_trans _ _ _ h1 h2⟩

theorem compare_mul_P (a b : Int) : compare (a * 2 ^ 1074) (b * 2 ^ 1074) = compare a b := by
  rcases Int.lt_trichotomy a b with h | h | h
  · rw [Int.compare_eq_lt.mpr h]; exact Int.compare_eq_lt.mpr (by omega)
  · rw [Int.compare_eq_eq.mpr h]; exact Int.compare_eq_eq.mpr (by omega)
  · rw [Int.compare_eq_gt.mpr h]; exact Int.compare_eq_gt.mpr (by omega)

theorem cmpBytes_nil : cmpBytes [] [] = .eq := rfl

/-- `cmp` is the lexicographic order of the keys -/
theorem ovCmp_eq_keyCmp (a b : OV) (ha : a.inRange) (hb : b.inRange) :
    ovCmp a b = keyCmp (ovKey a) (ovKey b) := by
  cases a with
  | int x => cases b with
    | int y => simp only [ovCmp, ovKey, keyCmp, cmpBytes_nil, Ordering.then_eq, compare_mul_P]; rfl
    | float y => simp only [ovCmp, ovKey, keyCmp, cmpBytes_nil, Ordering.then_eq, cmpI64F64_eq_compare x y ha]; rfl
    | str y => rfl
    | bool y => rfl
    | ts y => rfl
  | float x => cases b with
    | int y =>
      simp only [ovCmp, ovKey, keyCmp, cmpBytes_nil, Ordering.then_eq, cmpI64F64_eq_compare y x hb]
      rw [Int.compare_swap]; rfl
    | float y => simp only [ovCmp, ovKey, keyCmp, cmpBytes_nil, Ordering.then_eq, ofCmp_eq_compare]; rfl
    | str y => rfl
    | bool y => rfl
    | ts y => rfl
  | str x => cases b with
    | str y => simp only [ovCmp, ovKey, keyCmp]; rfl
    | int y => rfl
    | float y => rfl
    | bool y => rfl
    | ts y => rfl
  | bool x => cases b with
    | bool y => cases x <;> cases y <;> rfl
    | int y => rfl
    | float y => rfl
    | str y => rfl
    | ts y => rfl
  | ts x => cases b with
    | ts y => simp only [ovCmp, ovKey, keyCmp, cmpBytes_nil, Ordering.then_eq]; rfl
    | int y => rfl
    | float y => rfl
    | str y => rfl
    | bool y => rfl


theorem ovEq_iff_key (a b : OV) (ha : a.inRange) (hb : b.inRange) :
    ovEq a b = true ↔ ovKey a = ovKey b := by
  cases a with
  | int x => cases b with
    | int y => simp only [ovEq, ovKey, beq_iff_eq, OKey.mk.injEq, true_and, and_true]; omega
    | float y =>
      simp only [ovEq, ovKey, beq_iff_eq, OKey.mk.injEq, true_and, and_true,
        cmpI64F64_eq_compare x y ha, Int.compare_eq_eq]
    | str y => simp [ovEq, ovKey]
    | bool y => simp [ovEq, ovKey]
    | ts y => simp [ovEq, ovKey]
  | float x => cases b with
    | int y =>
      simp only [ovEq, ovKey, beq_iff_eq, OKey.mk.injEq, true_and, and_true,
        cmpI64F64_eq_compare y x hb, Int.compare_eq_eq]
      exact eq_comm
    | float y =>
      simp only [ovEq, ovKey, OKey.mk.injEq, true_and, and_true]
      rw [← ofCmp_eq_iff, ofCmp_eq_compare, Int.compare_eq_eq]
    | str y => simp [ovEq, ovKey]
    | bool y => simp [ovEq, ovKey]
    | ts y => simp [ovEq, ovKey]
  | str x => cases b <;> simp [ovEq, ovKey]
  | bool x => cases b with
    | bool y => cases x <;> cases y <;> simp [ovEq, ovKey]
    | int y => simp [ovEq, ovKey]
    | float y => simp [ovEq, ovKey]
    | str y => simp [ovEq, ovKey]
    | ts y => simp [ovEq, ovKey]
  | ts x => cases b <;> simp [ovEq, ovKey]

/-- F: `OrderableValue::eq` is an equivalence relation on every value of the type (all `i64`, all
2^64 float patterns, strings, booleans, timestamps; any mix of variants). -/
theorem c16_orderable_eq_equivalence (a b c : OV) (ha : a.inRange) (hb : b.inRange) (hc : c.inRange) :
    ovEq a a = true ∧ (ovEq a b = ovEq b a) ∧
    (ovEq a b = true → ovEq b c = true → ovEq a c = true) := by
  refine ⟨(ovEq_iff_key a a ha ha).mpr rfl, ?_, ?_⟩
  · rw [Bool.eq_iff_iff, ovEq_iff_key a b ha hb, ovEq_iff_key b a hb ha]; exact eq_comm
  · intro h1 h2
    exact (ovEq_iff_key a c ha hc).mpr
      (((ovEq_iff_key a b ha hb).mp h1).trans ((ovEq_iff_key b c hb hc).mp h2))

/-- F: `OrderableValue::cmp` is a total order consistent with `eq`, on every value of the type:
`cmp = Equal ⇔ eq`; reflexive; antisymmetric (`cmp b a` is the reverse of `cmp a b`, so two values
that are each `≤` the other are `eq`); total; transitive; and it respects `eq` (equal values
compare alike against anything). -/
theorem c16_orderable_total_order (a b c : OV) (ha : a.inRange) (hb : b.inRange) (hc : c.inRange) :
    (ovCmp a b = .eq ↔ ovEq a b = true) ∧
    ovCmp a a = .eq ∧
    (ovCmp b a = (ovCmp a b).swap) ∧
    (ovCmp a b ≠ .gt → ovCmp b a ≠ .gt → ovEq a b = true) ∧
    (ovCmp a b ≠ .gt ∨ ovCmp b a ≠ .gt) ∧
    (ovCmp a b ≠ .gt → ovCmp b c ≠ .gt → ovCmp a c ≠ .gt) ∧
    (ovEq a b = true → ovCmp a c = ovCmp b c ∧ ovCmp c a = ovCmp c b) := by
  have hiff : ovCmp a b = .eq ↔ ovEq a b = true := by
    rw [ovCmp_eq_keyCmp a b ha hb, keyCmp_eq_iff, ovEq_iff_key a b ha hb]
  have hswap : ovCmp b a = (ovCmp a b).swap := by
    rw [ovCmp_eq_keyCmp a b ha hb, ovCmp_eq_keyCmp b a hb ha]; exact keyCmp_swap _ _
  refine ⟨hiff, ?_, hswap, ?_, ?_, ?_, ?_⟩
  · rw [ovCmp_eq_keyCmp a a ha ha, keyCmp_eq_iff]
  · intro h1 h2
    apply hiff.mp
    rw [hswap] at h2
    cases h : ovCmp a b <;> simp_all
  · rw [hswap]; cases ovCmp a b <;> simp
  · rw [ovCmp_eq_keyCmp a b ha hb, ovCmp_eq_keyCmp b c hb hc, ovCmp_eq_keyCmp a c ha hc]
    exact keyCmp_trans _ _ _
  · intro h
    have hk := (ovEq_iff_key a b ha hb).mp h
    rw [ovCmp_eq_keyCmp a c ha hc, ovCmp_eq_keyCmp b c hb hc, ovCmp_eq_keyCmp c a hc ha,
      ovCmp_eq_keyCmp c b hc hb, hk]
    exact ⟨rfl, rfl⟩

/-- F: equal `OrderableValue`s feed the hasher identically — every value of the type, any mix of
variants (`Int64(1)` / `Float64(1.0)`, `Int64(0)` / `Float64(-0.0)`, `Int64(i64::MIN)` /
`Float64(-2^63)`, NaNs with different payloads, …). -/
theorem c16_orderable_eq_imp_hash_eq (a b : OV) (ha : a.inRange) (hb : b.inRange)
    (h : ovEq a b = true) : ovHashFeed a = ovHashFeed b := by
  have hk := (ovEq_iff_key a b ha hb).mp h
  cases a with
  | int x => cases b with
    | int y =>
      simp only [ovKey, OKey.mk.injEq, true_and, and_true] at hk
      have : x = y := by omega
      rw [this]
    | float y =>
      simp only [ovKey, OKey.mk.injEq, true_and, and_true] at hk
      have := (f64AsExactI64_eq_some_iff y x).mpr ⟨hk.symm, ha⟩
      simp only [ovHashFeed, this]
    | str y => simp [ovKey] at hk
    | bool y => simp [ovKey] at hk
    | ts y => simp [ovKey] at hk
  | float x => cases b with
    | int y =>
      simp only [ovKey, OKey.mk.injEq, true_and, and_true] at hk
      have := (f64AsExactI64_eq_some_iff x y).mpr ⟨hk, hb⟩
      simp only [ovHashFeed, this]
    | float y =>
      simp only [ovKey, OKey.mk.injEq, true_and, and_true] at hk
      have hex : f64AsExactI64 x = f64AsExactI64 y := by
        cases hx : f64AsExactI64 x with
        | some i =>
          have := (f64AsExactI64_eq_some_iff x i).mp hx
          exact ((f64AsExactI64_eq_some_iff y i).mpr ⟨hk ▸ this.1, this.2⟩).symm
        | none =>
          cases hy : f64AsExactI64 y with
          | none => rfl
          | some j =>
            have := (f64AsExactI64_eq_some_iff y j).mp hy
            have := (f64AsExactI64_eq_some_iff x j).mpr ⟨hk.symm ▸ this.1, this.2⟩
            rw [hx] at this; exact this
      have hfeed : ofHashFeed x = ofHashFeed y :=
        c16_ordered_float_eq_imp_hash_eq x y ha hb (by simpa [ovEq] using h)
      simp only [ovHashFeed, hex, hfeed]
    | str y => simp [ovKey] at hk
    | bool y => simp [ovKey] at hk
    | ts y => simp [ovKey] at hk
  | str x => cases b <;> simp [ovKey] at hk; subst hk; rfl
  | bool x => cases b with
    | bool y => cases x <;> cases y <;> simp [ovKey] at hk <;> rfl
    | int y => simp [ovKey] at hk
    | float y => simp [ovKey] at hk
    | str y => simp [ovKey] at hk
    | ts y => simp [ovKey] at hk
  | ts x => cases b <;> simp [ovKey] at hk; subst hk; rfl

/-- F: **exactness** of the cross-type comparison. For an `i64` `i` and any float pattern `b`:
NaN is above `i`; otherwise `cmp` is the comparison of the two exact values (`scaled b` is the
float's value times `2^1074`, an integer) — no rounding anywhere; and `==` is equality of values. -/
theorem c16_orderable_int_float_exact (i : Int) (b : Nat) (hi : inI64 i) :
    (isNaN b = true → ovCmp (.int i) (.float b) = .lt ∧ ovEq (.int i) (.float b) = false) ∧
    (isNaN b = false →
      ovCmp (.int i) (.float b) = compare (i * 2 ^ 1074) (scaled b) ∧
      ovCmp (.float b) (.int i) = compare (scaled b) (i * 2 ^ 1074) ∧
      (ovEq (.int i) (.float b) = true ↔ scaled b = i * 2 ^ 1074) ∧
      (ovEq (.float b) (.int i) = true ↔ scaled b = i * 2 ^ 1074)) := by
  have hc := cmpI64F64_eq_compare i b hi
  unfold inI64 at hi
  constructor
  · intro hN
    have hlt : cmpI64F64 i b = .lt := by
      rw [hc]; unfold fRank; rw [hN]; exact Int.compare_eq_lt.mpr (by simp only [if_true]; omega)
    simp [ovCmp, ovEq, hlt]
  · intro hN
    have hr : fRank b = scaled b := by unfold fRank; simp [hN]
    rw [hr] at hc
    refine ⟨by simp only [ovCmp, hc], ?_, ?_, ?_⟩
    · simp only [ovCmp, hc]; exact Int.compare_swap _ _
    · simp only [ovEq, hc, beq_iff_eq, Int.compare_eq_eq]; exact eq_comm
    · simp only [ovEq, hc, beq_iff_eq, Int.compare_eq_eq]; exact eq_comm

/-- F: the sign–magnitude key that `f64` comparison is modelled with orders patterns exactly as
their values are ordered (`−0` and `+0` share the value 0). -/
theorem c16_f64_key_orders_values (a b : Nat) :
    compare (key a) (key b) = compare (scaled a) (scaled b) := compare_key a b

/-- N: what the repaired code does on the old witnesses and on the boundary cases. -/
theorem c16_orderable_repaired_instances :
    -- 2^53 + 1 against 2^53 as a float
    ovEq (.int 9007199254740993) (.float 0x4340000000000000) = false ∧
    ovCmp (.int 9007199254740993) (.float 0x4340000000000000) = .gt ∧
    ovEq (.float 0x4340000000000000) (.int 9007199254740992) = true ∧
    -- 1 and 1.0 are equal and hash alike
    ovEq (.int 1) (.float 0x3FF0000000000000) = true ∧
    ovCmp (.int 1) (.float 0x3FF0000000000000) = .eq ∧
    ovHashFeed (.int 1) = ovHashFeed (.float 0x3FF0000000000000) ∧
    -- both zeros equal Int64(0) and hash as it does
    ovEq (.int 0) (.float 0x8000000000000000) = true ∧
    ovCmp (.float 0x8000000000000000) (.int 0) = .eq ∧
    ovHashFeed (.float 0x8000000000000000) = ovHashFeed (.int 0) ∧
    ovHashFeed (.float 0) = ovHashFeed (.int 0) ∧
    -- 2^63 is above i64::MAX, -2^63 is i64::MIN
    ovCmp (.int 9223372036854775807) (.float 0x43E0000000000000) = .lt ∧
    ovEq (.int (-9223372036854775808)) (.float 0xC3E0000000000000) = true ∧
    ovHashFeed (.int (-9223372036854775808)) = ovHashFeed (.float 0xC3E0000000000000) ∧
    -- fractional floats sit strictly between their neighbours; infinities and NaN outside
    ovCmp (.int 2) (.float 0x4004000000000000) = .lt ∧
    ovCmp (.int 3) (.float 0x4004000000000000) = .gt ∧
    ovCmp (.int (-3)) (.float 0xC004000000000000) = .lt ∧
    ovCmp (.int (-2)) (.float 0xC004000000000000) = .gt ∧
    ovCmp (.int 0) (.float 1) = .lt ∧
    ovCmp (.int 0) (.float 0x8000000000000001) = .gt ∧
    ovCmp (.int 9223372036854775807) (.float 0x7FF0000000000000) = .lt ∧
    ovCmp (.int (-9223372036854775808)) (.float 0xFFF0000000000000) = .gt ∧
    ovCmp (.int 9223372036854775807) (.float 0x7FF8000000000000) = .lt ∧
    -- a float that equals no integer keeps the Float64 feed
    ovHashFeed (.float 0x3FF8000000000000) = [1, 0x3FF8000000000000] ∧
    ovHashFeed (.float 0x43E0000000000000) = [1, 0x43E0000000000000] := by decide

/-- N: `scaled` is the value: 1.0, 2.5, the least subnormal, 2^53, and the `i64 as f64` model
agree with it where the conversion is exact. -/
theorem c16_scaled_instances :
    scaled 0x3FF0000000000000 = 2 ^ 1074 ∧ scaled 0x4004000000000000 = 5 * 2 ^ 1073 ∧
    scaled 1 = 1 ∧ scaled 0x8000000000000001 = -1 ∧ scaled 0x8000000000000000 = 0 ∧
    scaled (i64ToF64 9007199254740992) = 9007199254740992 * 2 ^ 1074 ∧
    scaled (i64ToF64 (-9223372036854775808)) = -9223372036854775808 * 2 ^ 1074 ∧
    scaled (i64ToF64 (-3)) = -3 * 2 ^ 1074 ∧
    truncBits 0x4004000000000000 = 0x4000000000000000 ∧
    truncBits 0xBFE0000000000000 = 0x8000000000000000 ∧
    f64ToI64 0xC3E0000000000000 = -9223372036854775808 ∧
    f64ToI64 0x43E0000000000000 = 9223372036854775807 := by decide

/-- P: within one variant other than Float64, equality is identity, so equal values hash equally
and `cmp = Equal ⇔ eq`. -/
theorem c16_orderable_same_variant_partial (a b : OV) (hd : a.discr = b.discr)
    (hf : ∀ x, a ≠ .float x) (h : ovEq a b = true) : a = b ∧ ovHashFeed a = ovHashFeed b := by
  cases a <;> cases b <;> simp [OV.discr] at hd <;> simp [ovEq] at h
  · subst h; exact ⟨rfl, rfl⟩
  · rename_i x y; exact absurd rfl (hf x)
  · subst h; exact ⟨rfl, rfl⟩
  · subst h; exact ⟨rfl, rfl⟩
  · subst h; exact ⟨rfl, rfl⟩

/-! ### OrderableValue before the repair: regression witnesses -/

namespace Old

/-- W (pinned code): `OrderableValue`'s equality was **not transitive** across Int/Float
(2^53+1 rounds to 2^53). -/
theorem c16_orderable_eq_not_transitive_witness :
    Old.ovEq (.int 9007199254740993) (.float 0x4340000000000000) = true ∧
    Old.ovEq (.float 0x4340000000000000) (.int 9007199254740992) = true ∧
    Old.ovEq (.int 9007199254740993) (.int 9007199254740992) = false := by decide

/-- W (pinned code): equal values of different variants fed different hash input. -/
theorem c16_orderable_int_float_hash_witness :
    Old.ovEq (.int 1) (.float 0x3FF0000000000000) = true ∧
    Old.ovCmp (.int 1) (.float 0x3FF0000000000000) = .eq ∧
    Old.ovHashFeed (.int 1) ≠ Old.ovHashFeed (.float 0x3FF0000000000000) := by decide

/-- W (pinned code): `cmp` said `Equal` for two values whose integers differ, and `i64::MAX`
was equal to the float `2^63`. -/
theorem c16_orderable_cmp_lossy_witness :
    Old.ovCmp (.int 9007199254740993) (.float 0x4340000000000000) = .eq ∧
    Old.ovCmp (.float 0x4340000000000000) (.int 9007199254740992) = .eq ∧
    Old.ovCmp (.int 9007199254740993) (.int 9007199254740992) = .gt ∧
    Old.ovEq (.int 9223372036854775807) (.float 0x43E0000000000000) = true := by decide

end Old

/-! ### HashableValue -/

mutual
theorem hvEq_iff : ∀ (a b : HV), a.mapFree = true → (hvEq a b = true ↔ a = b)
  | .null, b, _ => by cases b <;> simp [hvEq]
  | .bool x, b, _ => by cases b <;> simp [hvEq]
  | .int x, b, _ => by cases b <;> simp [hvEq]
  | .float x, b, _ => by cases b <;> simp [hvEq]
  | .str x, b, _ => by cases b <;> simp [hvEq]
  | .bytes x, b, _ => by cases b <;> simp [hvEq]
  | .ts x, b, _ => by cases b <;> simp [hvEq]
  | .vec x, b, _ => by cases b <;> simp [hvEq]
  | .map x, b, h => by simp [HV.mapFree] at h
  | .list x, b, h => by
      cases b <;> simp [hvEq]
      exact hvEqList_iff x _ (by simpa [HV.mapFree] using h)
theorem hvEqList_iff : ∀ (a b : List HV), mapFreeList a = true → (hvEqList a b = true ↔ a = b)
  | [], b, _ => by cases b <;> simp [hvEqList]
  | x :: xs, b, h => by
      simp [mapFreeList] at h
      cases b with
      | nil => simp [hvEqList]
      | cons y ys => simp [hvEqList, hvEq_iff x y h.1, hvEqList_iff xs ys h.2]
end

/-- F (for values without maps; maps are covered by the correspondence stream only):
`HashableValue`'s equality is structural identity on the bit-level representation — hence an
equivalence relation — and equal values feed the hasher identically, to any nesting depth. -/
theorem c16_hashable_eq_equivalence_and_hash (a b c : HV)
    (ha : a.mapFree = true) (hb : b.mapFree = true) :
    hvEq a a = true ∧
    (hvEq a b = true → hvEq b a = true) ∧
    (hvEq a b = true → hvEq b c = true → hvEq a c = true) ∧
    (hvEq a b = true → hvFeed a = hvFeed b) := by
  refine ⟨(hvEq_iff a a ha).mpr rfl, ?_, ?_, ?_⟩
  · intro h; have := (hvEq_iff a b ha).mp h; subst this; exact (hvEq_iff a a ha).mpr rfl
  · intro h1 h2
    have e1 := (hvEq_iff a b ha).mp h1
    have e2 := (hvEq_iff b c hb).mp h2
    subst e1; subst e2; exact (hvEq_iff a a ha).mpr rfl
  · intro h; have := (hvEq_iff a b ha).mp h; subst this; rfl

/-- F: an index keyed by `HashableValue` never merges an integer with a float, nor two floats
with different bits (in particular `+0.0` / `−0.0` and distinct NaNs stay apart). -/
theorem c16_hashable_separates (i : Int) (x y : Nat) :
    hvEq (.int i) (.float x) = false ∧ (x ≠ y → hvEq (.float x) (.float y) = false) := by
  refine ⟨by simp [hvEq], ?_⟩
  intro h; simp [hvEq, h]

/-- N: nested non-trivial instance. -/
example : hvEq (.list [.float 0x7FF8000000000000, .list [.int 3, .str [97]]])
               (.list [.float 0x7FF8000000000000, .list [.int 3, .str [97]]]) = true := by
  simp [hvEq, hvEqList]

end Grafeo.Val
