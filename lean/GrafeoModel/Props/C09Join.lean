import GrafeoModel.Model.JoinOrder
/-!
C09, the join-order search (`Model/JoinOrder.lean`, repaired behaviour): whatever the statistics and
the cost model say (`lt` is an arbitrary comparison), for every number of relations and every join
graph, the tree that `DPccp::optimize` returns

* contains every relation exactly once (`optimize_leaves_perm`),
* carries every condition between two different known relations exactly once, verbatim
  (`optimize_conds_perm`),
* has every condition at a join one of whose inputs holds the relation of its left expression and
  the other that of its right expression (`optimize_covered`), so that the repaired `plan_join`, which
  resolves a condition in either orientation, applies every condition (`optimize_all_applied`).

`reorder_sound`: what `reorder_joins` puts in place of a left-deep plan is the plan itself or such a
tree with ALL the plan's conditions. Regression theorems (`Old.*`): before the repair a condition
over one relation was dropped by `reorder_joins`, and a condition could sit at a join with its sides
the other way round, where the strict `plan_join` skipped it.
-/
open Grafeo.JoinOrder
namespace Grafeo.C09Join

/-- the conditions the search keeps inside the relation set `s` -/
def inside (s : Nat) (e : Edge) : Bool := has s e.frm && has s e.to && e.frm != e.to

/-- what a memo entry for the set `s` is: the relations of `s` once each, the conditions inside `s`
once each, each at a join that separates its two relations -/
structure Good (g : Graph) (s : Nat) (t : Tree) : Prop where
  mem : ∀ i, i ∈ leaves t ↔ has s i = true
  nodup : (leaves t).Nodup
  cov : covered t = true
  conds : (condsOf t).Perm (g.edges.filter (inside s))

def MemoGood (g : Graph) (m : Memo) : Prop := ∀ s t, get m s = some t → Good g s t

theorem filter_split3 {α} (p p1 p2 p3 : α → Bool) :
    ∀ l : List α, (∀ a ∈ l, p a = (p1 a || p2 a || p3 a)) →
      (∀ a ∈ l, !(p1 a && p2 a) && !(p1 a && p3 a) && !(p2 a && p3 a)) →
      (l.filter p).Perm (l.filter p1 ++ l.filter p2 ++ l.filter p3)
  | [], _, _ => by simp
  | a :: l, h, hx => by
    have ih := filter_split3 p p1 p2 p3 l (fun b hb => h b (List.mem_cons_of_mem _ hb))
      (fun b hb => hx b (List.mem_cons_of_mem _ hb))
    have ha := h a (List.mem_cons_self ..)
    have hxa := hx a (List.mem_cons_self ..)
    have ih' : (l.filter p).Perm (l.filter p1 ++ (l.filter p2 ++ l.filter p3)) := by
      simpa [List.append_assoc] using ih
    simp only [List.filter_cons, ha, List.append_assoc]
    cases h1 : p1 a <;> cases h2 : p2 a <;> cases h3 : p3 a <;> simp only [h1, h2, h3] at hxa ⊢ <;>
      first
        | exact absurd hxa (by decide)
        | exact ih'
        | exact ih'.cons a
        | exact (ih'.cons a).trans List.perm_middle.symm
        | exact (ih'.cons a).trans (List.perm_middle.symm.trans (List.Perm.append_left _ List.perm_middle.symm))

theorem contains_iff_has {g : Graph} {s : Nat} {t : Tree} (h : Good g s t) (i : Nat) :
    (leaves t).contains i = has s i := by
  have := h.mem i
  cases hh : has s i
  · simp [hh] at this; simpa using this
  · simp [hh] at this; simpa using this

/-- the step of the dynamic programme: joining the entries of two disjoint sets -/
theorem good_join {g : Graph} {s s1 s2 : Nat} {t1 t2 : Tree} (h1 : Good g s1 t1) (h2 : Good g s2 t2)
    (hU : ∀ i, has s i = (has s1 i || has s2 i)) (hD : ∀ i, ¬(has s1 i = true ∧ has s2 i = true)) :
    Good g s (.join t1 t2 (getConditions g s1 s2)) := by
  refine ⟨?_, ?_, ?_, ?_⟩
  · intro i
    simp only [leaves, List.mem_append, h1.mem, h2.mem, hU, Bool.or_eq_true]
  · simp only [leaves]
    refine List.nodup_append.mpr ⟨h1.nodup, h2.nodup, ?_⟩
    intro a ha b hb hab
    subst hab
    exact hD a ⟨(h1.mem a).mp ha, (h2.mem a).mp hb⟩
  · simp only [covered, h1.cov, h2.cov, Bool.and_true, List.all_eq_true, getConditions, List.mem_filter]
    intro e he
    simpa [crossesL, crosses, h1.mem, h2.mem] using he.2
  · simp only [condsOf, getConditions]
    refine ((h1.conds.append h2.conds).append_right _).trans ?_
    refine (filter_split3 (inside s) (inside s1) (inside s2) (crosses s1 s2) g.edges ?_ ?_).symm
    · intro e _
      by_cases hft : e.frm = e.to
      · have d := hD e.frm
        simp only [inside, crosses, hU, ← hft]
        cases a : has s1 e.frm <;> cases b : has s2 e.frm <;> simp_all
      · have d1 := hD e.frm
        have d2 := hD e.to
        simp only [inside, crosses, hU]
        cases a : has s1 e.frm <;> cases b : has s2 e.frm <;> cases c : has s1 e.to <;> cases d : has s2 e.to <;>
          simp_all
    · intro e _
      have d1 := hD e.frm
      have d2 := hD e.to
      simp only [inside, crosses]
      cases a : has s1 e.frm <;> cases b : has s2 e.frm <;> cases c : has s1 e.to <;> cases d : has s2 e.to <;>
        simp_all

theorem memoGood_insert {g : Graph} {m : Memo} {s : Nat} {t : Tree} (hm : MemoGood g m) (ht : Good g s t) :
    MemoGood g (insert m s t) := by
  intro s' t' h
  simp only [JoinOrder.insert, JoinOrder.get] at h
  split at h
  · rename_i he
    cases h
    subst he
    exact ht
  · exact hm s' t' h

theorem has_diff (s s1 i : Nat) : has (diff s s1) i = (has s i && !has s1 i) := by
  simp only [has, diff, Nat.testBit_xor, Nat.testBit_and]
  cases s.testBit i <;> cases s1.testBit i <;> rfl

theorem has_sub {s s1 : Nat} (h : s1 &&& s = s1) (i : Nat) : has s1 i = true → has s i = true := by
  intro hi
  have : (s1 &&& s).testBit i = s1.testBit i := by rw [h]
  simp only [Nat.testBit_and] at this
  simp only [has] at hi ⊢
  rw [hi] at this
  simpa using this

theorem step_good {g : Graph} {lt : Tree → Tree → Bool} {rec : Nat → Memo → Memo}
    (hrec : ∀ s m, MemoGood g m → MemoGood g (rec s m)) (s : Nat) (memo : Memo) (s1 : Nat)
    (hs1 : s1 &&& s = s1) (hm : MemoGood g memo) : MemoGood g (step rec g lt s memo s1) := by
  unfold step
  split
  · exact hm
  · simp only []
    split
    · exact hm
    · split
      · exact hm
      · split
        · exact hm
        · have hm1 : MemoGood g (if (get memo s1).isSome then memo else rec s1 memo) := by
            split
            · exact hm
            · exact hrec _ _ hm
          generalize (if (get memo s1).isSome then memo else rec s1 memo) = memo1 at hm1 ⊢
          have hm2 : MemoGood g (if (get memo1 (diff s s1)).isSome then memo1 else rec (diff s s1) memo1) := by
            split
            · exact hm1
            · exact hrec _ _ hm1
          generalize (if (get memo1 (diff s s1)).isSome then memo1 else rec (diff s s1) memo1) = memo2 at hm2 ⊢
          split
          · rename_i p1 p2 e1 e2
            have hg : Good g s (.join p1 p2 (getConditions g s1 (diff s s1))) := by
              refine good_join (hm2 _ _ e1) (hm2 _ _ e2) ?_ ?_
              · intro i
                rw [has_diff]
                have := has_sub hs1 i
                cases a : has s i <;> cases b : has s1 i <;> simp_all
              · intro i
                rw [has_diff]
                cases a : has s i <;> cases b : has s1 i <;> simp_all
            split
            · exact memoGood_insert hm2 hg
            · split
              · exact memoGood_insert hm2 hg
              · exact hm2
          · exact hm2

theorem submasks_sub {s x : Nat} (h : x ∈ submasks s) : x &&& s = x := by
  simp only [submasks, List.mem_filter, Bool.and_eq_true, beq_iff_eq] at h
  exact h.2.2

theorem foldl_good {g : Graph} {f : Memo → Nat → Memo} (P : Nat → Prop)
    (hf : ∀ m x, P x → MemoGood g m → MemoGood g (f m x)) :
    ∀ (l : List Nat) (m : Memo), (∀ x ∈ l, P x) → MemoGood g m → MemoGood g (l.foldl f m)
  | [], m, _, hm => hm
  | x :: l, m, hl, hm =>
    foldl_good P hf l (f m x) (fun y hy => hl y (List.mem_cons_of_mem _ hy))
      (hf m x (hl x (List.mem_cons_self ..)) hm)

theorem enumerate_good (g : Graph) (lt : Tree → Tree → Bool) :
    ∀ (fuel s : Nat) (m : Memo), MemoGood g m → MemoGood g (enumerate g lt fuel s m)
  | 0, _, _, hm => hm
  | fuel + 1, s, m, hm => by
    simp only [enumerate]
    exact foldl_good (fun x => x &&& s = x)
      (fun m' x hx hm' => step_good (fun s' m'' h => enumerate_good g lt fuel s' m'' h) s m' x hx hm')
      (submasks s) m (fun x hx => submasks_sub hx) hm

theorem has_single (i j : Nat) : has (single i) j = decide (i = j) := by
  simp [has, single, Nat.testBit_two_pow]

theorem good_leaf (g : Graph) (i : Nat) : Good g (single i) (.leaf i) := by
  refine ⟨?_, by simp [leaves], rfl, ?_⟩
  · intro j
    simp [leaves, has_single, eq_comm]
  · simp only [condsOf]
    have : g.edges.filter (inside (single i)) = [] := by
      apply List.filter_eq_nil_iff.mpr
      intro e _
      simp only [inside, has_single]
      by_cases a : i = e.frm <;> by_cases b : i = e.to <;> simp_all
    rw [this]

theorem initMemo_good (g : Graph) (n : Nat) : MemoGood g (initMemo n) := by
  unfold initMemo
  refine foldl_good (fun _ => True) (fun m x _ hm => memoGood_insert hm (good_leaf g x)) _ _ (fun _ _ => trivial) ?_
  intro s t h
  simp [JoinOrder.get] at h

theorem has_full (n i : Nat) : has (full n) i = decide (i < n) := by
  simp [has, full, Nat.testBit_two_pow_sub_one]

/-- what `optimize` returns is a good entry for the set of all relations -/
theorem optimize_good {g : Graph} {lt : Tree → Tree → Bool} {t : Tree} (h : optimize g lt = some t) :
    Good g (full g.n) t := by
  unfold optimize at h
  split at h; · cases h
  split at h; · cases h
  split at h
  · rename_i h1
    cases h
    have := good_leaf g 0
    rw [h1]
    simpa [full, single] using this
  · exact enumerate_good g lt _ _ _ (initMemo_good g g.n) _ _ h

/-- **(1)** no relation is lost or duplicated — for every join graph, every statistics -/
theorem optimize_leaves_perm {g : Graph} {lt : Tree → Tree → Bool} {t : Tree} (h : optimize g lt = some t) :
    (leaves t).Perm (List.range g.n) := by
  have hg := optimize_good h
  refine (List.perm_ext_iff_of_nodup hg.nodup List.nodup_range).mpr ?_
  intro i
  rw [hg.mem, has_full]
  simp

def known (n : Nat) (e : Edge) : Bool := decide (e.frm < n) && decide (e.to < n) && e.frm != e.to

/-- **(2a)** every condition between two different relations of the graph occurs exactly once in the
tree (as a multiset, verbatim); no other condition occurs -/
theorem optimize_conds_perm {g : Graph} {lt : Tree → Tree → Bool} {t : Tree} (h : optimize g lt = some t) :
    (condsOf t).Perm (g.edges.filter (known g.n)) := by
  have hg := (optimize_good h).conds
  have : inside (full g.n) = known g.n := by
    funext e
    simp only [inside, has_full, known]
  rwa [this] at hg

/-- **(2b)** every condition sits at a join one of whose inputs holds the relation of its left
expression and the other input the relation of its right expression: no condition is evaluated
before its columns exist -/
theorem optimize_covered {g : Graph} {lt : Tree → Tree → Bool} {t : Tree} (h : optimize g lt = some t) :
    covered t = true := (optimize_good h).cov

theorem applied_of_covered : ∀ t : Tree, covered t = true → appliedConds t = condsOf t
  | .leaf _, _ => rfl
  | .join l r cs, h => by
    simp only [covered, Bool.and_eq_true] at h
    obtain ⟨⟨hc, hl⟩, hr⟩ := h
    simp only [appliedConds, condsOf, applied_of_covered l hl, applied_of_covered r hr]
    rw [List.filter_eq_self.mpr (fun e he => List.all_eq_true.mp hc e he)]

/-- **(2c)** therefore the repaired `plan_join` applies every condition of the tree, each exactly
where it sits -/
theorem optimize_all_applied {g : Graph} {lt : Tree → Tree → Bool} {t : Tree} (h : optimize g lt = some t) :
    appliedConds t = condsOf t := applied_of_covered t (optimize_covered h)

/-- **(2d)** on a graph from the builder whose conditions each speak about two different relations,
nothing is dropped and nothing is duplicated -/
theorem optimize_conds_all {n : Nat} {es : List Edge} {lt : Tree → Tree → Bool} {t : Tree}
    (hself : hasSelf es = false) (h : optimize (build n es) lt = some t) :
    (condsOf t).Perm (es.filter (fun e => decide (e.frm < n) && decide (e.to < n))) := by
  have := optimize_conds_perm h
  simp only [build, List.filter_filter] at this
  refine this.trans (List.Perm.of_eq ?_)
  apply List.filter_congr
  intro e he
  have hs : (e.frm == e.to) = false := by
    simp only [hasSelf, List.any_eq_false] at hself
    simpa using hself e he
  simp only [known]
  cases a : decide (e.frm < n) <;> cases b : decide (e.to < n) <;> simp_all

/-- the 16-relation cap: no search, the caller keeps the plan -/
theorem optimize_over_cap (g : Graph) (lt : Tree → Tree → Bool) (h : g.n > 16) : optimize g lt = none := by
  unfold optimize maxReordered
  split
  · rfl
  · simp [h]

/-- **(3, tree level)** two answers of the search for the same graph — under any two statistics, any
two cost models — have the same relations and the same conditions -/
theorem optimize_stats_irrelevant {g : Graph} {lt lt' : Tree → Tree → Bool} {t t' : Tree}
    (h : optimize g lt = some t) (h' : optimize g lt' = some t') :
    (leaves t).Perm (leaves t') ∧ (condsOf t).Perm (condsOf t') :=
  ⟨(optimize_leaves_perm h).trans (optimize_leaves_perm h').symm,
   (optimize_conds_perm h).trans (optimize_conds_perm h').symm⟩

theorem hasSelf_extract (n : Nat) (es : List Edge) (h : hasSelf es = false) : hasSelf (extractConds n es) = false := by
  simp only [hasSelf, List.any_eq_false, extractConds, List.mem_flatMap, List.mem_filter] at h ⊢
  rintro e ⟨_, _, he, _⟩
  exact h e he

/-- **`reorder_joins`** on a left-deep plan, any statistics: the answer is the plan itself, or a tree
with every relation once and every condition that `collect_join_tree` hands over (`extractConds`)
once, verbatim, each where the repaired `plan_join` applies it -/
theorem reorder_sound (n : Nat) (es : List Edge) (lt : Tree → Tree → Bool) :
    reorder n es lt = leftDeep n es ∨
      ((leaves (reorder n es lt)).Perm (List.range n)
        ∧ (condsOf (reorder n es lt)).Perm
            ((extractConds n es).filter (fun e => decide (e.frm < n) && decide (e.to < n)))
        ∧ appliedConds (reorder n es lt) = condsOf (reorder n es lt)) := by
  unfold reorder
  split
  · exact Or.inl rfl
  · rename_i hc
    have hs : hasSelf es = false := by
      cases h : hasSelf es
      · rfl
      · exact absurd (Or.inr h) hc
    split
    · rename_i t ht
      exact Or.inr ⟨optimize_leaves_perm ht, optimize_conds_all (hasSelf_extract n es hs) ht, optimize_all_applied ht⟩
    · exact Or.inl rfl

/-! ## regression: the behaviour before the repair -/

def eSelf : Edge := { id := 2, frm := 0, to := 0 }
def es3 : List Edge := [{ id := 0, frm := 0, to := 1 }, { id := 1, frm := 1, to := 2 }, eSelf]

/-- before the repair: a condition over a single relation (`r0.x = r0.y` written as a join condition)
was in no join of what `reorder_joins` answered (`jo opt 3 0:1,1:2,0:0 …`) -/
theorem Old.self_condition_dropped :
    eSelf ∈ es3 ∧ eSelf ∉ condsOf (Old.reorder 3 es3 (fun _ _ => false)) := by
  refine ⟨by decide, by decide⟩

/-- after the repair: a join tree with such a condition is left as written, for every statistics -/
theorem self_condition_not_reordered (lt : Tree → Tree → Bool) : reorder 3 es3 lt = leftDeep 3 es3 := rfl

def e01 : Edge := { id := 0, frm := 0, to := 1 }

/-- two relations, one condition `r0.c = r1.c`. The subsets are visited in descending order, `{r1}`
first, so the first candidate is `Join(r1, r0)` with the condition as written; its mirror image never
costs strictly less (the cost model is symmetric), so it stays: the condition's left expression is
over the RIGHT input. Before the repair `plan_join` skipped such a condition — a cross product
(`jo rows 2 0:1 50,60 0.1.2,1.2.3` gave 2 rows without reordering, 9 with it); the repaired one
applies it. -/
theorem Old.condition_flipped (lt : Tree → Tree → Bool)
    (hsym : lt (.join (.leaf 0) (.leaf 1) [e01]) (.join (.leaf 1) (.leaf 0) [e01]) = false) :
    optimize (build 2 [e01]) lt = some (.join (.leaf 1) (.leaf 0) [e01])
      ∧ flippedConds (.join (.leaf 1) (.leaf 0) [e01]) = [e01]
      ∧ Old.appliedConds (.join (.leaf 1) (.leaf 0) [e01]) = []
      ∧ appliedConds (.join (.leaf 1) (.leaf 0) [e01]) = [e01] := by
  refine ⟨?_, by decide, by decide, by decide⟩
  have e : optimize (build 2 [e01]) lt
      = if lt (.join (.leaf 0) (.leaf 1) [e01]) (.join (.leaf 1) (.leaf 0) [e01]) = true
        then some (.join (.leaf 0) (.leaf 1) [e01]) else some (.join (.leaf 1) (.leaf 0) [e01]) := by
    cases hh : lt (.join (.leaf 0) (.leaf 1) [e01]) (.join (.leaf 1) (.leaf 0) [e01]) <;>
      simp [optimize, maxReordered, build, enumerate, submasks, step, initMemo, JoinOrder.insert,
        JoinOrder.get, diff, full, single, isConnected, areConnected, getConditions, members, has, crosses, iter,
        grow, adjacent, e01, List.range, List.range.loop, Nat.testBit] <;>
      (simp only [e01] at hh; simp [hh, JoinOrder.get])
  rw [e, hsym]
  simp

end Grafeo.C09Join
