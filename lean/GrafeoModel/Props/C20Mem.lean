import GrafeoModel.Model.Mem

/-!
# C20, memory clause — the buffer manager under every interleaving

For **every** hard limit, **every** number of threads, **every** program of allocations and grant
drops per thread and **every** schedule (any list of thread indices, any length): the `allocated`
total never exceeds the hard limit, it always equals the bytes held in grants plus the bytes of
operations in flight, and once every thread is idle it equals the held bytes exactly — zero when
all grants have been dropped.

The code before the repair (`asIs = true`: check, then a separate `fetch_add`) violates the first
claim: witness `c20_mem_asis_exceeds_hard_limit`.
-/

namespace Grafeo.Mem

def heldSum (t : Thread) : Nat := (t.held.map (·.1)).sum

/-- bytes counted in `allocated` on behalf of an operation that is under way -/
def inflight : Pc → Nat
  | .region s _ => s
  | .relTotal s _ => s
  | _ => 0

def contrib (t : Thread) : Nat := heldSum t + inflight t.pc

/-- a thread about to CAS has checked its expected value against the limit -/
def casOk (hard : Nat) (t : Thread) : Prop :=
  match t.pc with
  | .cas s _ _ cur => cur + s ≤ hard
  | _ => True

structure Inv (st : State) : Prop where
  total : st.allocated = (st.threads.map contrib).sum
  limit : st.allocated ≤ st.hard
  maxLimit : st.maxAlloc ≤ st.hard
  cas : ∀ t ∈ st.threads, casOk st.hard t

/-! ### list helpers -/

theorem sum_map_set {α : Type} (f : α → Nat) (l : List α) (i : Nat) (t t' : α) (h : l[i]? = some t) :
    ((l.set i t').map f).sum + f t = (l.map f).sum + f t' := by
  induction l generalizing i with
  | nil => simp at h
  | cons x xs ih =>
    cases i with
    | zero =>
      simp only [List.getElem?_cons_zero, Option.some.injEq] at h
      subst h
      simp only [List.set_cons_zero, List.map_cons, List.sum_cons]
      omega
    | succ j =>
      simp only [List.getElem?_cons_succ] at h
      have := ih j h
      simp only [List.set_cons_succ, List.map_cons, List.sum_cons]
      omega

theorem le_sum_of_getElem? {α : Type} (f : α → Nat) (l : List α) (i : Nat) (t : α) (h : l[i]? = some t) :
    f t ≤ (l.map f).sum := by
  induction l generalizing i with
  | nil => simp at h
  | cons x xs ih =>
    cases i with
    | zero =>
      simp only [List.getElem?_cons_zero, Option.some.injEq] at h
      subst h; simp only [List.map_cons, List.sum_cons]; omega
    | succ j =>
      simp only [List.getElem?_cons_succ] at h
      have := ih j h
      simp only [List.map_cons, List.sum_cons]; omega

theorem mem_set_cases {α : Type} (l : List α) (i : Nat) (t' x : α) (h : x ∈ l.set i t') : x = t' ∨ x ∈ l := by
  induction l generalizing i with
  | nil => simp at h
  | cons y ys ih =>
    cases i with
    | zero =>
      simp only [List.set_cons_zero, List.mem_cons] at h
      rcases h with h | h
      · exact Or.inl h
      · exact Or.inr (List.mem_cons_of_mem _ h)
    | succ j =>
      simp only [List.set_cons_succ, List.mem_cons] at h
      rcases h with h | h
      · exact Or.inr (by simp [h])
      · rcases ih j h with h' | h'
        · exact Or.inl h'
        · exact Or.inr (List.mem_cons_of_mem _ h')

theorem heldSum_append (t : Thread) (s r : Nat) :
    ((t.held ++ [(s, r)]).map (·.1)).sum = heldSum t + s := by
  simp [heldSum, List.sum_append]

theorem heldSum_eraseIdx (held : List (Nat × Nat)) (k s r : Nat) (h : held[k]? = some (s, r)) :
    ((held.eraseIdx k).map (·.1)).sum + s = (held.map (·.1)).sum := by
  induction held generalizing k with
  | nil => simp at h
  | cons x xs ih =>
    cases k with
    | zero =>
      simp only [List.getElem?_cons_zero, Option.some.injEq] at h
      subst h
      simp only [List.eraseIdx_cons_zero, List.map_cons, List.sum_cons]; omega
    | succ j =>
      simp only [List.getElem?_cons_succ] at h
      have := ih j h
      simp only [List.eraseIdx_cons_succ, List.map_cons, List.sum_cons]; omega

/-! ### one step of one thread -/

/-- what one step of the repaired code does to the total, for a thread whose contribution is
counted in `a` -/
theorem stepThread_spec (hard a : Nat) (rs : List Nat) (t : Thread)
    (hc : contrib t ≤ a) (hcas : casOk hard t) (hlim : a ≤ hard) :
    let r := stepThread false hard a rs t
    r.1 + contrib t = a + contrib r.2.2 ∧ r.1 ≤ hard ∧ casOk hard r.2.2 := by
  unfold stepThread
  cases hpc : t.pc with
  | idle =>
    simp only
    cases htodo : t.todo with
    | nil => simp only; exact ⟨trivial, hlim, hcas⟩
    | cons op rest =>
      cases op with
      | alloc s r =>
        simp only
        refine ⟨?_, hlim, ?_⟩
        · simp [contrib, hpc, inflight, heldSum]
        · simp [casOk]
      | drop k =>
        simp only
        cases hk : t.held[k]? with
        | none =>
          simp only
          refine ⟨?_, hlim, ?_⟩
          · simp [contrib, hpc, heldSum]
          · simp [casOk, hpc]
        | some sr =>
          obtain ⟨s, r⟩ := sr
          simp only
          have := heldSum_eraseIdx t.held k s r hk
          split
          · rename_i hs0
            refine ⟨?_, hlim, ?_⟩
            · simp only [contrib, hpc, inflight, heldSum]
              omega
            · simp [casOk, hpc]
          · refine ⟨?_, hlim, ?_⟩
            · simp only [contrib, hpc, inflight, heldSum]
              omega
            · simp [casOk]
  | load s r att =>
    simp only
    split
    · refine ⟨?_, hlim, ?_⟩
      · unfold failAttempt; split <;> simp [contrib, hpc, inflight, heldSum]
      · unfold failAttempt; split <;> simp [casOk]
    · rename_i hle
      refine ⟨?_, hlim, ?_⟩
      · simp [contrib, hpc, inflight, heldSum]
      · simp only [casOk]; omega
  | cas s r att cur =>
    simp only [Bool.false_eq_true, if_false]
    have hcur : cur + s ≤ hard := by simpa [casOk, hpc] using hcas
    split
    · rename_i heq
      refine ⟨?_, hcur, ?_⟩
      · simp only [contrib, hpc, inflight, heldSum]; omega
      · simp [casOk]
    · split
      · refine ⟨?_, hlim, ?_⟩
        · unfold failAttempt; split <;> simp [contrib, hpc, inflight, heldSum]
        · unfold failAttempt; split <;> simp [casOk]
      · refine ⟨?_, hlim, ?_⟩
        · simp [contrib, hpc, inflight, heldSum]
        · simp only [casOk]; omega
  | region s r =>
    simp only
    refine ⟨?_, hlim, ?_⟩
    · have := heldSum_append t s r
      simp only [contrib, hpc, inflight, heldSum] at this ⊢
      omega
    · simp [casOk]
  | relTotal s r =>
    simp only
    have hs : s ≤ a := by
      have : contrib t = heldSum t + s := by simp [contrib, hpc, inflight]
      omega
    refine ⟨?_, by omega, ?_⟩
    · simp only [contrib, hpc, inflight, heldSum]; omega
    · simp [casOk]
  | relRegion s r =>
    simp only
    refine ⟨?_, hlim, ?_⟩
    · simp [contrib, hpc, inflight, heldSum]
    · simp [casOk]

theorem inv_init (hard : Nat) (progs : List (List Op)) : Inv (init hard progs) := by
  refine ⟨?_, Nat.zero_le _, Nat.zero_le _, ?_⟩
  · show 0 = _
    simp only [init]
    induction progs with
    | nil => rfl
    | cons p ps ih => simp [contrib, heldSum, inflight] at ih ⊢; exact ih
  · intro t ht
    simp only [init, List.mem_map] at ht
    obtain ⟨p, _, rfl⟩ := ht
    simp [casOk]

theorem inv_step (st : State) (i : Nat) (h : Inv st) : Inv (step false st i) := by
  unfold step
  cases hti : st.threads[i]? with
  | none => exact h
  | some t =>
    simp only
    have hmem : t ∈ st.threads := List.mem_of_getElem? hti
    have hc : contrib t ≤ st.allocated := by
      rw [h.total]; exact le_sum_of_getElem? contrib st.threads i t hti
    obtain ⟨h1, h2, h3⟩ := stepThread_spec st.hard st.allocated st.regions t hc (h.cas t hmem) h.limit
    generalize stepThread false st.hard st.allocated st.regions t = r at h1 h2 h3
    obtain ⟨a', rs', t'⟩ := r
    simp only at h1 h2 h3 ⊢
    refine ⟨?_, h2, ?_, ?_⟩
    · show a' = ((st.threads.set i t').map contrib).sum
      have := sum_map_set contrib st.threads i t t' hti
      have ht := h.total
      omega
    · show max st.maxAlloc a' ≤ st.hard
      exact Nat.max_le.mpr ⟨h.maxLimit, h2⟩
    · intro x hx
      rcases mem_set_cases st.threads i t' x hx with rfl | hx'
      · exact h3
      · exact h.cas x hx'

theorem step_hard (asIs : Bool) (st : State) (i : Nat) : (step asIs st i).hard = st.hard := by
  unfold step; split <;> rfl

theorem inv_runSched (st : State) (sched : List Nat) (h : Inv st) : Inv (runSched false st sched) := by
  unfold runSched
  induction sched generalizing st with
  | nil => exact h
  | cons i rest ih => exact ih (step false st i) (inv_step st i h)

/-- F (memory clause, safety): for every hard limit, every set of thread programs and every
schedule, the allocated total never exceeded the hard limit (`maxAlloc` is the greatest value it
ever had) and equals held bytes plus bytes in flight. -/
theorem c20_mem_never_exceeds_hard_limit (hard : Nat) (progs : List (List Op)) (sched : List Nat) :
    let st := runSched false (init hard progs) sched
    st.maxAlloc ≤ hard ∧ st.allocated ≤ hard ∧ st.allocated = (st.threads.map contrib).sum := by
  have h := inv_runSched (init hard progs) sched (inv_init hard progs)
  have hh : (runSched false (init hard progs) sched).hard = hard := by
    unfold runSched
    generalize hst : init hard progs = st0
    have h0 : st0.hard = hard := by rw [← hst]; rfl
    clear hst h
    induction sched generalizing st0 with
    | nil => exact h0
    | cons i rest ih => exact ih (step false st0 i) (by rw [step_hard]; exact h0)
  have h1 := h.maxLimit
  have h2 := h.limit
  rw [hh] at h1 h2
  exact ⟨h1, h2, h.total⟩

/-- all threads idle with nothing left to do -/
def Quiescent (st : State) : Prop := ∀ t ∈ st.threads, t.pc = .idle

theorem sum_contrib_quiescent (ts : List Thread) (h : ∀ t ∈ ts, t.pc = .idle) :
    (ts.map contrib).sum = (ts.map heldSum).sum := by
  induction ts with
  | nil => rfl
  | cons t rest ih =>
    have ht := h t List.mem_cons_self
    have := ih (fun x hx => h x (List.mem_cons_of_mem _ hx))
    simp only [List.map_cons, List.sum_cons, contrib, ht, inflight, this]
    omega

/-- F (memory clause, accounting): in every reachable state in which no operation is under way,
the allocated total is exactly the bytes held in live grants — zero when every grant has been
dropped. -/
theorem c20_mem_accounting_returns (hard : Nat) (progs : List (List Op)) (sched : List Nat)
    (hq : Quiescent (runSched false (init hard progs) sched)) :
    (runSched false (init hard progs) sched).allocated = heldTotal (runSched false (init hard progs) sched) := by
  have h := inv_runSched (init hard progs) sched (inv_init hard progs)
  rw [h.total, sum_contrib_quiescent _ hq]
  rfl

/-- W: the code before the repair — two threads each allocate 60 of 100 bytes; both pass the
limit check before either adds. -/
theorem c20_mem_asis_exceeds_hard_limit :
    (runSched true (init 100 [[.alloc 60 0], [.alloc 60 1]]) [0, 0, 1, 1, 0, 1]).allocated = 120 := by decide

/-- N: the same programs and schedule on the repaired code: the second CAS fails its re-check and
the allocation is refused. -/
example :
    let st := finishAll false 20 (runSched false (init 100 [[.alloc 60 0], [.alloc 60 1]]) [0, 0, 1, 1, 0, 1])
    st.allocated = 60 ∧ st.maxAlloc = 60 ∧ st.threads.map (·.results) = [[true], [false]] := by decide

end Grafeo.Mem
