import GrafeoModel.Model.Persist

/-!
# C05 — a persistent database reopens to exactly the state it was closed with
# C07 — copies (export/import, save, to_memory) preserve the graph

`Db.api` is the logged fragment of the `GrafeoDB` API exactly as `database.rs` logs it; the
theorem is for **every** sequence of those calls interleaved with explicit checkpoints and
close→reopen cycles, of any length. `remove_node_property` is part of the fragment since /repo
commit 0125264 (it logs a `RemoveNodeProperty` record when something was removed); the code before
that is `Old.api`, with the loss it caused as a regression theorem. Mutations made through session
queries are still not logged and stay outside the fragment: witness theorem + known finding.
-/

namespace Grafeo.Persist
open Grafeo.Lpg Grafeo.Wal

/-- state of the replay loop after reading the whole log -/
def rstate (log : List WRec) : List WRec × List WRec := log.foldl (replayStep WRec.kind) ([], [])

theorem replay_eq (log : List WRec) : replay WRec.kind log = (rstate log).2 := rfl

theorem rstate_append (log : List WRec) (r : WRec) :
    rstate (log ++ [r]) = replayStep WRec.kind (rstate log) r := by
  unfold rstate; rw [List.foldl_append]; rfl

/-- transaction-control records do nothing on replay -/
theorem foldl_applyRec_append_marker (s : Store) (l : List WRec) (m : WRec) (hm : m.kind ≠ .data) :
    (l ++ [m]).foldl applyRec s = l.foldl applyRec s := by
  rw [List.foldl_append]
  cases m <;> simp [WRec.kind] at hm <;> rfl

/-- **the invariant**: replaying committed-then-pending records reproduces the live store. -/
def InSync (d : Db) : Prop :=
  ((rstate d.log).2 ++ (rstate d.log).1).foldl applyRec ({} : Store) = d.live

theorem applyRec_createNode (s : Store) (ls : List Nat) :
    applyRec s (.createNode s.nextNode ls) = (s.createNode ls s.epoch systemTx).1 := by
  simp [applyRec, Store.createNodeWithId, Store.createNode]

theorem applyRec_createEdge (s : Store) (a b t : Nat) :
    applyRec s (.createEdge s.nextEdge a b t) = (s.createEdge a b t s.epoch systemTx).1 := by
  simp [applyRec, Store.createEdgeWithId, Store.createEdge]

theorem deleteNodeAt_false (s : Store) (id e : Nat) (h : (s.deleteNodeAt id e).2 = false) :
    (s.deleteNodeAt id e).1 = s := by
  unfold Store.deleteNodeAt at h ⊢
  cases hg : aget s.nodes id with
  | none => rfl
  | some c =>
    simp only [hg] at h ⊢
    by_cases hv : chainVisibleAt c e = true
    · simp [hv] at h
    · simp [hv]

theorem deleteEdgeAt_false (s : Store) (id e : Nat) (h : (s.deleteEdgeAt id e).2 = false) :
    (s.deleteEdgeAt id e).1 = s := by
  unfold Store.deleteEdgeAt at h ⊢
  cases hg : aget s.edges id with
  | none => rfl
  | some cr =>
    obtain ⟨c, r⟩ := cr
    simp only [hg] at h ⊢
    by_cases hv : chainVisibleAt c e = true
    · simp [hv] at h
    · simp [hv]

theorem addLabel_false (s : Store) (id l : Nat) (h : (s.addLabel id l).2 = false) :
    (s.addLabel id l).1 = s := by
  unfold Store.addLabel at h ⊢
  cases hg : aget s.nodes id with
  | none => rfl
  | some c =>
    simp only [hg] at h ⊢
    by_cases hv : chainVisibleAt c s.epoch = true
    · by_cases hl : l ∈ s.nodeLabelsOf id
      · simp [hv, hl]
      · simp [hv, hl] at h
    · simp [hv]

theorem removeLabel_false (s : Store) (id l : Nat) (h : (s.removeLabel id l).2 = false) :
    (s.removeLabel id l).1 = s := by
  unfold Store.removeLabel at h ⊢
  cases hg : aget s.nodes id with
  | none => rfl
  | some c =>
    simp only [hg] at h ⊢
    by_cases hv : chainVisibleAt c s.epoch = true
    · cases hn : aget s.nodeLabels id with
      | none => simp [hv]
      | some ls =>
        simp only [hn] at h ⊢
        by_cases hl : l ∈ ls
        · simp [hv, hl] at h
        · simp [hv, hl]
    · simp [hv]

theorem aset_self {ν : Type} (l : AList ν) (k : Nat) (v : ν) (h : aget l k = some v) : aset l k v = l := by
  induction l with
  | nil => cases h
  | cons kv rest ih =>
    obtain ⟨k0, v0⟩ := kv
    by_cases h0 : k0 = k
    · subst h0
      simp only [aget, if_true, Option.some.injEq] at h
      subst h; simp [aset]
    · simp only [aget, h0, if_false] at h
      simp only [aset, h0, if_false, ih h]

theorem aerase_absent {ν : Type} (l : AList ν) (k : Nat) (h : aget l k = none) : aerase l k = l := by
  induction l with
  | nil => rfl
  | cons kv rest ih =>
    obtain ⟨k0, v0⟩ := kv
    by_cases h0 : k0 = k
    · subst h0; simp [aget] at h
    · simp only [aget, h0, if_false] at h
      have hb : (k0 != k) = true := by simp [h0]
      unfold aerase at ih ⊢
      simp only [List.filter_cons, hb, if_true, ih h]

/-- `remove_node_property` that finds nothing leaves the store as it is -/
theorem removeNodeProp_none (s : Store) (id k : Nat) (h : (s.removeNodeProp id k).2 = none) :
    (s.removeNodeProp id k).1 = s := by
  unfold Store.removeNodeProp at h ⊢
  simp only at h ⊢
  have hp : aerase (s.nodePropsOf id) k = s.nodePropsOf id := aerase_absent _ _ h
  have hn : (if (aget s.nprops id).isSome then aset s.nprops id (aerase (s.nodePropsOf id) k) else s.nprops) = s.nprops := by
    cases hg : aget s.nprops id with
    | none => simp
    | some p =>
      simp only [Option.isSome_some, if_true, hp]
      apply aset_self
      simp [Store.nodePropsOf, hg]
  rw [hn, h]
  cases aget s.pidx k <;> rfl

/-- appending a data record: the pending list grows, the fold applies it last -/
theorem inSync_data (d : Db) (r : WRec) (s' : Store) (hr : r.kind = .data) (h : InSync d)
    (happ : applyRec d.live r = s') : InSync { d with live := s', log := d.log ++ [r] } := by
  unfold InSync at *
  simp only [rstate_append, replayStep, hr]
  rw [← List.append_assoc, List.foldl_append, h]
  simpa using happ

theorem inSync_commit_checkpoint (d : Db) (h : InSync d) :
    InSync { d with log := d.log ++ [.txCommit, .checkpoint] } := by
  unfold InSync at *
  have e : d.log ++ [WRec.txCommit, WRec.checkpoint] = (d.log ++ [.txCommit]) ++ [.checkpoint] := by simp
  show ((rstate (d.log ++ [WRec.txCommit, WRec.checkpoint])).2 ++ (rstate (d.log ++ [WRec.txCommit, WRec.checkpoint])).1).foldl applyRec ({} : Store) = d.live
  rw [e, rstate_append, rstate_append]
  simp only [replayStep, WRec.kind, List.append_nil]
  rw [foldl_applyRec_append_marker _ _ _ (by simp [WRec.kind])]
  rw [foldl_applyRec_append_marker _ _ _ (by simp [WRec.kind])]
  exact h

theorem inSync_init : InSync {} := rfl

theorem rstate_commit_ckpt_pending (log : List WRec) :
    (rstate (log ++ [.txCommit, .checkpoint])).1 = [] := by
  have e : log ++ [WRec.txCommit, WRec.checkpoint] = (log ++ [.txCommit]) ++ [.checkpoint] := by simp
  rw [e, rstate_append, rstate_append]
  simp [replayStep, WRec.kind]

theorem api_isOpen (d : Db) (op : LOp) (h : d.isOpen = true) : (d.api op).isOpen = true := by
  cases op with
  | closeReopen => simp [Db.api, Db.reopen]
  | checkpoint => exact h
  | _ => exact h

theorem inSync_api (d : Db) (op : LOp) (h : InSync d) (ho : d.isOpen = true) : InSync (d.api op) := by
  cases op with
  | createNode ls => exact inSync_data d _ _ rfl h (applyRec_createNode d.live ls)
  | createEdge a b t => exact inSync_data d _ _ rfl h (applyRec_createEdge d.live a b t)
  | setNodeProp id k v => exact inSync_data d _ _ rfl h rfl
  | setEdgeProp id k v => exact inSync_data d _ _ rfl h rfl
  | deleteNode id =>
    simp only [Db.api]
    cases hok : (d.live.deleteNodeAt id d.live.epoch).2 with
    | true => simp only [if_true]; exact inSync_data d _ _ rfl h rfl
    | false =>
      simp only [Bool.false_eq_true, if_false]
      rw [deleteNodeAt_false _ _ _ hok]; exact h
  | deleteEdge id =>
    simp only [Db.api]
    cases hok : (d.live.deleteEdgeAt id d.live.epoch).2 with
    | true => simp only [if_true]; exact inSync_data d _ _ rfl h rfl
    | false =>
      simp only [Bool.false_eq_true, if_false]
      rw [deleteEdgeAt_false _ _ _ hok]; exact h
  | addLabel id l =>
    simp only [Db.api]
    cases hok : (d.live.addLabel id l).2 with
    | true => simp only [if_true]; exact inSync_data d _ _ rfl h rfl
    | false =>
      simp only [Bool.false_eq_true, if_false]
      rw [addLabel_false _ _ _ hok]; exact h
  | removeLabel id l =>
    simp only [Db.api]
    cases hok : (d.live.removeLabel id l).2 with
    | true => simp only [if_true]; exact inSync_data d _ _ rfl h rfl
    | false =>
      simp only [Bool.false_eq_true, if_false]
      rw [removeLabel_false _ _ _ hok]; exact h
  | removeNodeProp id k =>
    simp only [Db.api]
    cases hok : (d.live.removeNodeProp id k).2 with
    | some o => simp only [Option.isSome_some, if_true]; exact inSync_data d _ _ rfl h rfl
    | none =>
      simp only [Option.isSome_none, Bool.false_eq_true, if_false]
      rw [removeNodeProp_none _ _ _ hok]; exact h
  | checkpoint => exact inSync_commit_checkpoint d h
  | closeReopen =>
    simp only [Db.api, Db.close, ho, if_true]
    have h2 := inSync_commit_checkpoint d h
    unfold InSync at h2 ⊢
    unfold Db.reopen
    simp only [replay_eq]
    -- after a commit marker nothing is pending
    have hp := rstate_commit_ckpt_pending d.log
    simp only [hp, List.append_nil] at h2 ⊢
    try rw [h2]

/-- the database reached from an empty directory by any sequence of logged calls,
checkpoints and close→reopen cycles -/
def runApi (ops : List LOp) : Db := ops.foldl Db.api {}

theorem inv_runApi (ops : List LOp) : InSync (runApi ops) ∧ (runApi ops).isOpen = true := by
  unfold runApi
  have : ∀ d : Db, InSync d ∧ d.isOpen = true → InSync (ops.foldl Db.api d) ∧ (ops.foldl Db.api d).isOpen = true := by
    induction ops with
    | nil => intro d h; exact h
    | cons op ops ih => intro d h; exact ih _ ⟨inSync_api d op h.1 h.2, api_isOpen d op h.2⟩
  exact this {} ⟨inSync_init, rfl⟩

/-- F (for the logged API fragment): after **any** sequence of logged calls, explicit
checkpoints and close→reopen cycles, closing and reopening yields exactly the same store —
same nodes, edges, labels, properties, adjacency, and the same next identifiers. -/
theorem c05_reopen_identity_logged_partial (ops : List LOp) :
    ((runApi ops).close.reopen).live = (runApi ops).live := by
  obtain ⟨h, ho⟩ := inv_runApi ops
  have := inSync_api (runApi ops) .closeReopen h ho
  have h3 : InSync ((runApi ops).close.reopen) := this
  -- after reopen nothing is pending and the committed records fold to the live store
  unfold Db.reopen
  simp only [replay_eq]
  unfold Db.close
  simp only [ho, if_true]
  have h2 := inSync_commit_checkpoint (runApi ops) h
  unfold InSync at h2
  have hp := rstate_commit_ckpt_pending (runApi ops).log
  simp only [hp, List.append_nil] at h2
  exact h2

/-- F: identifiers handed out after a reopen never collide with ones handed out before:
the reopened store has the same id counters. -/
theorem c05_ids_fresh_after_reopen (ops : List LOp) :
    ((runApi ops).close.reopen).live.nextNode = (runApi ops).live.nextNode ∧
    ((runApi ops).close.reopen).live.nextEdge = (runApi ops).live.nextEdge := by
  rw [c05_reopen_identity_logged_partial]; exact ⟨rfl, rfl⟩

namespace Old

/-- `Db.api` as it was before /repo commit 0125264: `remove_node_property` is applied to the
store and appends nothing to the log; every other call as now. -/
def api (d : Db) : LOp → Db
  | .removeNodeProp id k => { d with live := (d.live.removeNodeProp id k).1 }
  | op => d.api op

def runApi (ops : List LOp) : Db := ops.foldl Old.api {}

end Old

/-- W (regression; the defect repaired by 0125264): with the old, unlogged `remove_node_property`
the property is gone from the live store and back after close→reopen; with the logged one it
stays removed. -/
theorem c05_remove_property_lost_witness :
    let h : List LOp := [.createNode [], .setNodeProp 0 1 "I5", .removeNodeProp 0 1]
    (Old.runApi h).live.nodePropsOf 0 = [] ∧ ((Old.runApi h).close.reopen).live.nodePropsOf 0 = [(1, "I5")] ∧
    (runApi h).live.nodePropsOf 0 = [] ∧ ((runApi h).close.reopen).live.nodePropsOf 0 = [] ∧
    (runApi h).log.length = 3 ∧ (Old.runApi h).log.length = 2 := by decide

/-- N: a non-trivial instance of the theorem (delete, label change, checkpoint mid-way, two cycles). -/
example : ((runApi [.createNode [1], .createNode [], .createEdge 0 1 0, .checkpoint, .setNodeProp 1 2 "Sx",
    .closeReopen, .deleteNode 0, .addLabel 1 3, .closeReopen]).live.nodeIds) = [1] := by decide

/-- W (C07): a copy enumerates at the store's epoch, which nothing advances: a node created
after the first committed transaction (manager epoch 1) is in the source — a label scan finds
it — but not in the copy. -/
theorem c07_copy_misses_later_epoch_nodes_witness :
    let s := (({} : Store).createNode [7] 1 systemTx).1      -- what a session does at manager epoch 1
    s.nodesByLabel 7 = [0] ∧ (s.getNodeTo 0 1 systemTx).isSome = true ∧ (copyStore s).nodes = [] := by
  decide

/-- P (C07, `save` → `open` half): what `save` writes is a log of the enumerated entities
followed by `close`; reopening it is covered by `c05_reopen_identity_logged_partial`.
N: a copy of a store built at epoch 0 has the same nodes, labels, properties and edges. -/
theorem c07_copy_instance :
    let s := (runApi [.createNode [1, 2], .createNode [], .setNodeProp 0 3 "Sx", .createEdge 0 1 5,
                      .setEdgeProp 0 1 "I7", .deleteNode 1]).live
    (copyStore s).nodeIds = s.nodeIds ∧ (copyStore s).nodePropsOf 0 = s.nodePropsOf 0 ∧
    (copyStore s).nodeLabelsOf 0 = s.nodeLabelsOf 0 ∧ (copyStore s).edgeIds = s.edgeIds := by decide

end Grafeo.Persist
