import GrafeoModel.Model.ZoneMap

/-!
# C10 (storage half) — zone maps, property indexes and the planner's path choice
(model pinned to /repo cc52572, after the repairs 4373a2f c174383 dc17651 ae73952 6ff036d 65e98ae)

Everything is stated for **all** histories of `node / set / overwrite / remove / delete-node /
rebuild (any hash-map iteration order) / create-index / drop-index` (`ops : List SOp`, induction
over the list, no bound) and all machine values (`WF`: i64 integers, 64-bit float patterns incl.
NaN, ±0, infinities, subnormals; strings, booleans, null). No value-class hypothesis is left.

Comparison semantics (`Model/ZoneMap.lean`): `cmp` (zone map / range lookup), `fsat` (generic
filter: `values_equal` = `a == b || |a−b| < ε` with the subtraction rounded as IEEE does,
`compare_values` = `partial_cmp`, Int/Float through `as f64`, no Bool order, `NULL <> v` true),
`valEq` (`Value ==`), `hvEq` (index key, bit identity).

## What is proved

(a) `c10_zone_map_sound_filter` / `c10_ZoneMapSoundFilter` (**F**): `might_match = false` ⇒ no
    current value passes the filter — every operator, literal, history. `c10_zone_map_range_sound`
    (**F**) for `might_match_range`. Ingredients, all proved here: `stinv_run` (invariant `ZInv`:
    a non-`mixed` column is of one variant and lies between min and max), `le_trans_adj`
    (transitivity of the order along chains with two adjacent values of one variant — it fails for
    Int–Float–Int, `c10_order_not_transitive`, which the code now avoids by flagging such columns
    `mixed`), `ikey_mono` (`i64 as f64` is weakly monotone and never NaN on the whole i64 range),
    `eps_window` (whatever the filter's numeric `=` accepts lies inside `[v−ε, v+ε]` as computed in
    double arithmetic: rounding is monotone and fixes representable numbers).
(b) `c10_index_eq_scan_partial`, `c10_index_toggle_invariant` (**P**): `find_nodes_by_property`
    with an index = the scan, for every history, when `Value ==` and bit identity agree on the
    column (`valEq_iff_eq`: they differ only at NaN, ±0). `IndexEqScan` refuted:
    `c10_w_index_negzero`, `c10_w_index_nan` (API level). Ingredient `iinv_run` (every history):
    each index relation is exactly {(value, node) | node's current value}, properties exist on
    live nodes only (a write to an id that is not a live node is a no-op since 9bbd0dc).
(c) `c10_planner_paths_agree`, `c10_planner_path_independent` / `c10_PlannerPathIndependent`
    (**F**, every history): every path the planner may take returns the generic filter's node
    set — a function of live nodes and current values only. Ingredient `keys_cover`: the lookup
    keys of the index path (65e98ae) cover everything the filter's `=` accepts.
    `c10_rebuild_order_irrelevant`: the (random) iteration order of `rebuild_zone_map` never shows
    in an answer.
R: `c10_reg_index_nonlive`, `c10_reg_index_misses_live`, `c10_reg_plan_index_misses_live`: the
    three defects of the old `set_node_property` (`Old.setProp`) and the repaired outcome.
N/regression: `c10_nv_zone`, `c10_nv_planner`, `c10_nv_index`.
-/

set_option linter.unusedSimpArgs false
set_option linter.unusedVariables false

namespace Grafeo.ZoneMap
open Grafeo.F64

/-! ## 0. The zone map's order `cmp` -/

def le (a b : V) : Prop := cmp a b = some .lt ∨ cmp a b = some .eq

theorem cmpBytes_swap : ∀ a b : List Nat, cmpBytes b a = (cmpBytes a b).swap
  | [], [] => rfl
  | [], _ :: _ => rfl
  | _ :: _, [] => rfl
  | x :: xs, y :: ys => by
    unfold cmpBytes
    by_cases h1 : x < y
    · have h2 : ¬ y < x := by omega
      simp [h1, h2, Ordering.swap]
    · by_cases h2 : y < x
      · simp [h1, h2, Ordering.swap]
      · simp [h1, h2, cmpBytes_swap xs ys]

theorem cmpBytes_eq_iff : ∀ a b : List Nat, cmpBytes a b = .eq ↔ a = b
  | [], [] => by simp [cmpBytes]
  | [], _ :: _ => by simp [cmpBytes]
  | _ :: _, [] => by simp [cmpBytes]
  | x :: xs, y :: ys => by
    unfold cmpBytes
    by_cases h1 : x < y
    · simp [h1]; omega
    · by_cases h2 : y < x
      · simp [h1, h2]; omega
      · have : x = y := by omega
        simp [h1, h2, this, cmpBytes_eq_iff xs ys]

/-- `≤` on byte strings is transitive -/
theorem cmpBytes_le_trans : ∀ a b c : List Nat,
    cmpBytes a b ≠ .gt → cmpBytes b c ≠ .gt → cmpBytes a c ≠ .gt
  | [], _, [] => by simp [cmpBytes]
  | [], _, _ :: _ => by simp [cmpBytes]
  | _ :: _, [], _ => by simp [cmpBytes]
  | _ :: _, _ :: _, [] => by simp [cmpBytes]
  | x :: xs, y :: ys, z :: zs => by
    unfold cmpBytes
    intro h1 h2
    by_cases hxy : x < y
    · by_cases hyz : y < z
      · have : x < z := by omega
        simp [this]
      · by_cases hzy : z < y
        · simp [hyz, hzy] at h2
        · have : x < z := by omega
          simp [this]
    · by_cases hyx : y < x
      · simp [hxy, hyx] at h1
      · simp only [hxy, hyx, if_false] at h1
        have hxy' : x = y := by omega
        subst hxy'
        by_cases hyz : x < z
        · simp [hyz]
        · by_cases hzy : z < x
          · simp [hyz, hzy] at h2
          · simp only [hyz, hzy, if_false] at h2 ⊢
            exact cmpBytes_le_trans xs ys zs h1 h2

theorem partialCmp_swap (a b : Nat) : partialCmp b a = (partialCmp a b).map Ordering.swap := by
  unfold partialCmp
  cases ha : isNaN a <;> cases hb : isNaN b <;> simp
  exact Int.compare_swap _ _ |>.symm

theorem cmp_swap (a b : V) : cmp b a = (cmp a b).map Ordering.swap := by
  cases a <;> cases b <;> simp only [cmp, Option.map_none, Option.map_some]
  · exact congrArg some (Nat.compare_swap _ _).symm
  · exact congrArg some (Int.compare_swap _ _).symm
  · exact partialCmp_swap _ _
  · exact partialCmp_swap _ _
  · exact partialCmp_swap _ _
  · exact congrArg some (cmpBytes_swap _ _)

theorem partialCmp_isSome (a b : Nat) :
    (partialCmp a b).isSome = (!isNaN a && !isNaN b) := by
  unfold partialCmp
  cases isNaN a <;> cases isNaN b <;> simp

/-- a value that compares with anything compares equal to itself -/
theorem cmp_self_of_comparable {a b : V} (h : (cmp a b).isSome = true) : cmp a a = some .eq := by
  cases a with
  | null => cases b <;> simp [cmp] at h
  | bool x => simp [cmp]
  | int i => simp [cmp]
  | str s => simp [cmp, (cmpBytes_eq_iff s s).mpr rfl]
  | float x =>
    have hx : isNaN x = false := by
      cases b <;> simp [cmp, partialCmp_isSome] at h <;> exact h.1
    simp [cmp, partialCmp, hx]

theorem comparable_symm {a b : V} (h : (cmp a b).isSome = true) : (cmp b a).isSome = true := by
  rw [cmp_swap]; simpa using h

theorem le_comparable {a b : V} (h : le a b) : (cmp a b).isSome = true := by
  rcases h with h | h <;> simp [h]

theorem cmp_lt_swap {a b : V} (h : cmp a b = some .lt) : cmp b a = some .gt := by
  rw [cmp_swap, h]; rfl
theorem cmp_gt_swap {a b : V} (h : cmp a b = some .gt) : cmp b a = some .lt := by
  rw [cmp_swap, h]; rfl
theorem cmp_eq_swap {a b : V} (h : cmp a b = some .eq) : cmp b a = some .eq := by
  rw [cmp_swap, h]; rfl

theorem le_self_of_comparable {a b : V} (h : (cmp a b).isSome = true) : le a a :=
  Or.inr (cmp_self_of_comparable h)

/-- if `b` is not below `a` although they compare, `a ≤ b` -/
theorem le_of_not_gt {a b : V} (h : (cmp a b).isSome = true) (hg : cmp a b ≠ some .gt) : le a b := by
  cases hc : cmp a b with
  | none => simp [hc] at h
  | some o => cases o <;> simp [le, hc] at hg ⊢

/-! ## F. Floating point: `i64 as f64`, rounding, the tolerance window -/

theorem bitLenF_zero (f : Nat) : bitLenF f 0 = 0 := by cases f <;> simp [bitLenF]

theorem bitLenF_spec : ∀ (f n : Nat), n < 2 ^ f → n ≠ 0 →
    1 ≤ bitLenF f n ∧ 2 ^ (bitLenF f n - 1) ≤ n ∧ n < 2 ^ (bitLenF f n)
  | 0, n, h, hn => by simp at h; omega
  | f + 1, n, h, hn => by
    simp only [bitLenF, hn, if_false]
    by_cases h2 : n / 2 = 0
    · have : n = 1 := by omega
      subst this
      simp [bitLenF_zero]
    · have hlt : n / 2 < 2 ^ f := by
        rw [Nat.pow_succ] at h; omega
      obtain ⟨k1, k2, k3⟩ := bitLenF_spec f (n / 2) hlt h2
      generalize bitLenF f (n / 2) = k at *
      refine ⟨by omega, ?_, ?_⟩
      · have : 2 ^ (k + 1 - 1) = 2 * 2 ^ (k - 1) := by
          have : k + 1 - 1 = (k - 1) + 1 := by omega
          rw [this, Nat.pow_succ]; omega
        rw [this]; omega
      · rw [Nat.pow_succ]; omega

theorem bitLen_spec (n : Nat) (hn : n ≠ 0) :
    1 ≤ bitLen n ∧ 2 ^ (bitLen n - 1) ≤ n ∧ n < 2 ^ (bitLen n) :=
  bitLenF_spec n n Nat.lt_two_pow_self hn

/-- the bit length is determined by the binade -/
theorem bitLen_unique (n k : Nat) (hk : 1 ≤ k) (h1 : 2 ^ (k - 1) ≤ n) (h2 : n < 2 ^ k) : bitLen n = k := by
  have hn : n ≠ 0 := by
    have := Nat.two_pow_pos (k - 1); omega
  obtain ⟨a1, a2, a3⟩ := bitLen_spec n hn
  apply Classical.byContradiction
  intro hne
  by_cases hlt : bitLen n < k
  · have : 2 ^ (bitLen n) ≤ 2 ^ (k - 1) := Nat.pow_le_pow_right (by omega) (by omega)
    omega
  · have : 2 ^ k ≤ 2 ^ (bitLen n - 1) := Nat.pow_le_pow_right (by omega) (by omega)
    omega

theorem bitLen_mono (m m' : Nat) (h0 : m ≠ 0) (h : m ≤ m') : bitLen m ≤ bitLen m' := by
  obtain ⟨a1, a2, a3⟩ := bitLen_spec m h0
  obtain ⟨b1, b2, b3⟩ := bitLen_spec m' (by omega)
  apply Classical.byContradiction
  intro hc
  have : 2 ^ (bitLen m') ≤ 2 ^ (bitLen m - 1) := Nat.pow_le_pow_right (by omega) (by omega)
  omega

theorem bitLen_ge (m k : Nat) (h : 2 ^ k ≤ m) : k + 1 ≤ bitLen m := by
  have hm : m ≠ 0 := by have := Nat.two_pow_pos k; omega
  obtain ⟨a1, a2, a3⟩ := bitLen_spec m hm
  apply Classical.byContradiction
  intro hc
  have : 2 ^ (bitLen m) ≤ 2 ^ k := Nat.pow_le_pow_right (by omega) (by omega)
  omega

theorem bitLen_le_of_lt (m k : Nat) (hm : m ≠ 0) (h : m < 2 ^ k) : bitLen m ≤ k := by
  obtain ⟨h1, h2, _⟩ := bitLen_spec m hm
  apply Classical.byContradiction
  intro hc
  have : 2 ^ k ≤ 2 ^ (bitLen m - 1) := Nat.pow_le_pow_right (by omega) (by omega)
  omega

/-! ### the rounded mantissa -/

/-- for `m` in the binade of bit length `l > 53`: the rounded mantissa lies in [2^52, 2^53] -/
theorem roundQ_bounds (m l : Nat) (hl : 53 < l) (h1 : 2 ^ (l - 1) ≤ m) (h2 : m < 2 ^ l) :
    2 ^ 52 ≤ roundQ m l ∧ roundQ m l ≤ 2 ^ 53 := by
  have e1 : 2 ^ (l - 1) = 2 ^ 52 * 2 ^ (l - 53) := by
    rw [← Nat.pow_add]; congr 1; omega
  have e2 : 2 ^ l = 2 ^ 53 * 2 ^ (l - 53) := by
    rw [← Nat.pow_add]; congr 1; omega
  have hd : 0 < 2 ^ (l - 53) := Nat.two_pow_pos _
  have q1 : 2 ^ 52 ≤ m / 2 ^ (l - 53) := (Nat.le_div_iff_mul_le hd).mpr (by rw [← e1]; exact h1)
  have q2 : m / 2 ^ (l - 53) < 2 ^ 53 := (Nat.div_lt_iff_lt_mul hd).mpr (by rw [← e2]; exact h2)
  unfold roundQ
  simp only
  split <;> omega

/-- within one binade the rounded mantissa is monotone -/
theorem roundQ_mono (m m' l : Nat) (hl : 53 < l) (h : m ≤ m') : roundQ m l ≤ roundQ m' l := by
  unfold roundQ
  simp only
  generalize hD : 2 ^ (l - 53) = D
  generalize hH : 2 ^ (l - 53 - 1) = H
  have hDH : D = 2 * H := by
    rw [← hD, ← hH]
    have : l - 53 = (l - 53 - 1) + 1 := by omega
    rw [this, Nat.pow_succ]; simp; omega
  have hd : 0 < D := by rw [← hD]; exact Nat.two_pow_pos _
  have d1 := Nat.div_add_mod m D
  have d2 := Nat.div_add_mod m' D
  have r1 := Nat.mod_lt m hd
  have r2 := Nat.mod_lt m' hd
  have qq : m / D ≤ m' / D := Nat.div_le_div_right h
  generalize m / D = q at *
  generalize m' / D = q' at *
  generalize m % D = r at *
  generalize m' % D = r' at *
  by_cases hq : q = q'
  · subst hq
    have hr : r ≤ r' := by omega
    by_cases u1 : (decide (r > H) || (r == H && q % 2 == 1)) = true
    · have u2 : (decide (r' > H) || (r' == H && q % 2 == 1)) = true := by
        simp only [Bool.or_eq_true, decide_eq_true_eq, Bool.and_eq_true, beq_iff_eq] at u1 ⊢
        rcases u1 with u | ⟨u, v⟩
        · left; omega
        · by_cases hh : r' = H
          · right; exact ⟨hh, v⟩
          · left; omega
      simp [u1, u2]
    · have u1' : (decide (r > H) || (r == H && q % 2 == 1)) = false := by
        cases hh : (decide (r > H) || (r == H && q % 2 == 1)) <;> simp [hh] at u1 ⊢
      rw [u1']
      simp only [Bool.false_eq_true, if_false]
      split <;> omega
  · have : q + 1 ≤ q' := by omega
    split <;> split <;> omega

/-! ### `i64 as f64` is monotone (weakly: it rounds above 2^53) and never NaN -/

/-- the 53-bit (or, after a carry, 2^53) mantissa `natToF64` computes -/
def Qn (m : Nat) : Nat :=
  if bitLen m ≤ 53 then m * 2 ^ (53 - bitLen m) else roundQ m (bitLen m)

theorem natToF64_shape (m : Nat) (h0 : m ≠ 0) :
    natToF64 m = (bitLen m + 1022) * 2 ^ 52 + (Qn m - 2 ^ 52) ∧ 2 ^ 52 ≤ Qn m ∧ Qn m ≤ 2 ^ 53 := by
  obtain ⟨h1, h2, h3⟩ := bitLen_spec m h0
  have e0 : bitLen m - 1 + 1023 = bitLen m + 1022 := by omega
  by_cases hl : bitLen m ≤ 53
  · refine ⟨?_, ?_, ?_⟩
    · unfold natToF64 Qn
      simp only [h0, if_false, hl, if_true, e0]
    · unfold Qn; simp only [hl, if_true]
      have e : 2 ^ (bitLen m - 1) * 2 ^ (53 - bitLen m) = 2 ^ 52 := by
        rw [← Nat.pow_add]; congr 1; omega
      calc 2 ^ 52 = 2 ^ (bitLen m - 1) * 2 ^ (53 - bitLen m) := e.symm
        _ ≤ m * 2 ^ (53 - bitLen m) := Nat.mul_le_mul_right _ h2
    · unfold Qn; simp only [hl, if_true]
      have e : 2 ^ (bitLen m) * 2 ^ (53 - bitLen m) = 2 ^ 53 := by
        rw [← Nat.pow_add]; congr 1; omega
      have : m * 2 ^ (53 - bitLen m) < 2 ^ (bitLen m) * 2 ^ (53 - bitLen m) :=
        Nat.mul_lt_mul_of_pos_right h3 (Nat.two_pow_pos _)
      omega
  · have hb := roundQ_bounds m (bitLen m) (by omega) h2 h3
    refine ⟨?_, ?_, ?_⟩
    · unfold natToF64 Qn roundQ
      simp only [h0, if_false, hl, e0]
    · unfold Qn; simp only [hl, if_false]; exact hb.1
    · unfold Qn; simp only [hl, if_false]; exact hb.2

theorem Qn_mono_same (m m' : Nat) (hl : bitLen m = bitLen m') (h : m ≤ m') : Qn m ≤ Qn m' := by
  unfold Qn
  rw [← hl]
  by_cases h53 : bitLen m ≤ 53
  · simp only [h53, if_true]; exact Nat.mul_le_mul_right _ h
  · simp only [h53, if_false]; exact roundQ_mono m m' _ (by omega) h

theorem shape_arith (c l l' q q' : Nat) (hq2 : q ≤ 2 ^ 53) (hq' : 2 ^ 52 ≤ q') (hl : l + 1 ≤ l') :
    (l + c) * 2 ^ 52 + (q - 2 ^ 52) ≤ (l' + c) * 2 ^ 52 + (q' - 2 ^ 52) := by
  omega

theorem shape_arith_same (c l q q' : Nat) (hq : q ≤ q') :
    (l + c) * 2 ^ 52 + (q - 2 ^ 52) ≤ (l + c) * 2 ^ 52 + (q' - 2 ^ 52) := by
  omega

theorem natToF64_mono (m m' : Nat) (h : m ≤ m') : natToF64 m ≤ natToF64 m' := by
  by_cases h0 : m = 0
  · subst h0; simp [natToF64]
  · obtain ⟨a1, a2, a3⟩ := natToF64_shape m h0
    obtain ⟨b1, b2, b3⟩ := natToF64_shape m' (by omega)
    rw [a1, b1]
    have hll := bitLen_mono m m' h0 h
    by_cases e : bitLen m = bitLen m'
    · have := Qn_mono_same m m' e h
      rw [e]
      exact shape_arith_same 1022 _ _ _ this
    · exact shape_arith 1022 _ _ _ _ a3 b2 (by omega)

/-- for `m ≤ 2^63`: a finite positive pattern -/
theorem natToF64_bits (m : Nat) (h : m ≤ 2 ^ 63) :
    natToF64 m < 2 ^ 63 ∧ expField (natToF64 m) < 2047 ∧ (m ≠ 0 → 0 < natToF64 m) := by
  by_cases h0 : m = 0
  · subst h0; simp [natToF64, expField]
  · obtain ⟨a1, a2, a3⟩ := natToF64_shape m h0
    have hl : bitLen m ≤ 64 := bitLen_le_of_lt m 64 h0 (by omega)
    rw [a1]
    refine ⟨by omega, ?_, fun _ => by omega⟩
    unfold expField
    omega

theorem key_of_lt (b : Nat) (h : b < 2 ^ 63) : key b = (b : Int) := by
  unfold key signBit mag
  have : b / 2 ^ 63 % 2 = 0 := by omega
  simp [this]; omega

theorem key_of_neg (x : Nat) (h : x < 2 ^ 63) : key (2 ^ 63 + x) = -(x : Int) := by
  unfold key signBit mag
  have : (2 ^ 63 + x) / 2 ^ 63 % 2 = 1 := by omega
  simp [this]; omega

theorem isNaN_of_exp (b : Nat) (h : expField b < 2047) : isNaN b = false := by
  unfold isNaN
  have : (expField b == 2047) = false := by simp; omega
  simp [this]

theorem expField_neg (x : Nat) (h : x < 2 ^ 63) : expField (2 ^ 63 + x) = expField x := by
  unfold expField; omega

/-- the i64 range -/
def I64 (i : Int) : Prop := -(2 ^ 63) ≤ i ∧ i < 2 ^ 63

theorem i64ToF64_key (i : Int) (h : I64 i) :
    isNaN (i64ToF64 i) = false ∧ isFinite (i64ToF64 i) = true ∧
    key (i64ToF64 i) = if i ≥ 0 then (natToF64 i.toNat : Int) else -(natToF64 (-i).toNat : Int) := by
  unfold I64 at h
  unfold i64ToF64 isFinite
  by_cases hi : i ≥ 0
  · have hb := natToF64_bits i.toNat (by omega)
    simp only [hi, if_true]
    refine ⟨isNaN_of_exp _ hb.2.1, ?_, key_of_lt _ hb.1⟩
    simp; omega
  · have hb := natToF64_bits (-i).toNat (by omega)
    simp only [hi, if_false]
    refine ⟨isNaN_of_exp _ ?_, ?_, key_of_neg _ hb.1⟩
    · rw [expField_neg _ hb.1]; exact hb.2.1
    · rw [expField_neg _ hb.1]; simp; omega

/-- **`as f64` is weakly monotone on i64** -/
theorem ikey_mono (i j : Int) (hi : I64 i) (hj : I64 j) (hle : i ≤ j) :
    key (i64ToF64 i) ≤ key (i64ToF64 j) := by
  rw [(i64ToF64_key i hi).2.2, (i64ToF64_key j hj).2.2]
  unfold I64 at hi hj
  by_cases h1 : i ≥ 0
  · have h2 : j ≥ 0 := by omega
    simp only [h1, h2, if_true]
    have := natToF64_mono i.toNat j.toNat (by omega)
    omega
  · by_cases h2 : j ≥ 0
    · simp only [h1, h2, if_true, if_false]; omega
    · simp only [h1, h2, if_false]
      have := natToF64_mono (-j).toNat (-i).toNat (by omega)
      omega

/-! ### rounding an exact multiple of 2^-1074 to a double -/

theorem shape_arith0 (l l' q q' : Nat) (hq2 : q ≤ 2 ^ 53) (hq' : 2 ^ 52 ≤ q') (hl : l + 1 ≤ l') :
    l * 2 ^ 52 + (q - 2 ^ 52) ≤ l' * 2 ^ 52 + (q' - 2 ^ 52) := by
  omega

theorem shape_arith0_same (l q q' : Nat) (hq : q ≤ q') :
    l * 2 ^ 52 + (q - 2 ^ 52) ≤ l * 2 ^ 52 + (q' - 2 ^ 52) := by
  omega

theorem roundMag_mono (m m' : Nat) (h : m ≤ m') : roundMag m ≤ roundMag m' := by
  unfold roundMag
  by_cases h1 : m < 2 ^ 53
  · by_cases h2 : m' < 2 ^ 53
    · simp only [h1, h2, if_true]; exact h
    · simp only [h1, h2, if_true, if_false]
      have hl : 54 ≤ bitLen m' := bitLen_ge m' 53 (by omega)
      have : 2 * 2 ^ 52 ≤ (bitLen m' - 52) * 2 ^ 52 := Nat.mul_le_mul_right _ (by omega)
      omega
  · have h2 : ¬ m' < 2 ^ 53 := by omega
    simp only [h1, h2, if_false]
    have h0 : m ≠ 0 := by omega
    obtain ⟨a1, a2, a3⟩ := bitLen_spec m h0
    obtain ⟨b1, b2, b3⟩ := bitLen_spec m' (by omega)
    have hl : 54 ≤ bitLen m := bitLen_ge m 53 (by omega)
    have hl' : 54 ≤ bitLen m' := bitLen_ge m' 53 (by omega)
    have qa := roundQ_bounds m _ (by omega) a2 a3
    have qb := roundQ_bounds m' _ (by omega) b2 b3
    have hll := bitLen_mono m m' h0 h
    by_cases e : bitLen m = bitLen m'
    · rw [e]
      refine shape_arith0_same _ _ _ ?_
      rw [← e]; exact roundQ_mono m m' _ (by omega) h
    · exact shape_arith0 _ _ _ _ qa.2 qb.1 (by omega)

/-- magnitude bits (below the sign bit) of a pattern -/
theorem mag_eq (b : Nat) : mag b = expField b * 2 ^ 52 + fracField b := by
  unfold mag expField fracField; omega

/-- representable numbers are fixed points of the rounding -/
theorem roundMag_scaledMag (b : Nat) (hf : isFinite b = true) : roundMag (scaledMag b) = mag b := by
  rw [mag_eq]
  have hfr : fracField b < 2 ^ 52 := by unfold fracField; omega
  unfold scaledMag
  by_cases e0 : expField b = 0
  · simp only [e0, if_true]
    unfold roundMag
    have : fracField b < 2 ^ 53 := by omega
    simp [this]
  · simp only [e0, if_false]
    by_cases e1 : expField b = 1
    · rw [e1]
      unfold roundMag
      have : (2 ^ 52 + fracField b) * 2 ^ (1 - 1) < 2 ^ 53 := by simp; omega
      simp only [this, if_true]; simp
    · generalize hE : expField b = e at *
      generalize fracField b = f at *
      have he : 2 ≤ e := by omega
      -- M = (2^52 + f) · 2^(e-1) lies in the binade of bit length 52 + e
      have hlo : 2 ^ (52 + e - 1) ≤ (2 ^ 52 + f) * 2 ^ (e - 1) := by
        have : 2 ^ (52 + e - 1) = 2 ^ 52 * 2 ^ (e - 1) := by
          rw [← Nat.pow_add]; congr 1; omega
        rw [this]; exact Nat.mul_le_mul_right _ (by omega)
      have hhi : (2 ^ 52 + f) * 2 ^ (e - 1) < 2 ^ (52 + e) := by
        have : 2 ^ (52 + e) = 2 ^ 53 * 2 ^ (e - 1) := by
          rw [← Nat.pow_add]; congr 1; omega
        rw [this]; exact Nat.mul_lt_mul_of_pos_right (by omega) (Nat.two_pow_pos _)
      have hbl : bitLen ((2 ^ 52 + f) * 2 ^ (e - 1)) = 52 + e := bitLen_unique _ _ (by omega) hlo hhi
      have hge : ¬ (2 ^ 52 + f) * 2 ^ (e - 1) < 2 ^ 53 := by
        have : 2 ^ 53 ≤ 2 ^ (52 + e - 1) := Nat.pow_le_pow_right (by omega) (by omega)
        omega
      unfold roundMag
      simp only [hge, if_false, hbl]
      have hq : roundQ ((2 ^ 52 + f) * 2 ^ (e - 1)) (52 + e) = 2 ^ 52 + f := by
        unfold roundQ
        have hs : 52 + e - 53 = e - 1 := by omega
        simp only [hs]
        rw [Nat.mul_div_cancel _ (Nat.two_pow_pos _), Nat.mul_mod_left]
        have hh : 0 < 2 ^ (e - 1 - 1) := Nat.two_pow_pos _
        have c1 : ¬ (0 > 2 ^ (e - 1 - 1)) := by omega
        have c2 : ((0 : Nat) == 2 ^ (e - 1 - 1)) = false := by simp; omega
        simp [c2]
      rw [hq]
      have : 52 + e - 52 = e := by omega
      rw [this]; omega

theorem scaledMag_lt (b : Nat) (hf : isFinite b = true) : scaledMag b + 2 ^ 1022 < 2 ^ 2098 := by
  have hfr : fracField b < 2 ^ 52 := by unfold fracField; omega
  have he : expField b < 2047 := by
    have : expField b < 2048 := by unfold expField; omega
    unfold isFinite at hf
    have : expField b ≠ 2047 := by simpa using hf
    omega
  have big : (2 ^ 53 - 1) * 2 ^ 2045 + 2 ^ 1022 < 2 ^ 2098 := by
    have e1 : (2:Nat) ^ 2098 = 2 ^ 53 * 2 ^ 2045 := by rw [← Nat.pow_add]
    have e2 : (2:Nat) ^ 1022 < 2 ^ 2045 := Nat.pow_lt_pow_right (by omega) (by omega)
    rw [e1, Nat.sub_mul]
    have : 1 * 2 ^ 2045 ≤ 2 ^ 53 * 2 ^ 2045 := Nat.mul_le_mul_right _ (by omega)
    omega
  unfold scaledMag
  split
  · have : (2:Nat) ^ 52 ≤ (2 ^ 53 - 1) * 2 ^ 2045 := by
      calc (2:Nat) ^ 52 = 2 ^ 52 * 1 := by simp
        _ ≤ (2 ^ 53 - 1) * 2 ^ 2045 := Nat.mul_le_mul (by omega) (Nat.two_pow_pos _)
    omega
  · have h1 : (2 ^ 52 + fracField b) * 2 ^ (expField b - 1) ≤ (2 ^ 53 - 1) * 2 ^ 2045 :=
      Nat.mul_le_mul (by omega) (Nat.pow_le_pow_right (by omega) (by omega))
    omega

theorem lt63_arith (A q : Nat) (h1 : A ≤ 2046 * 2 ^ 52) (h2 : q ≤ 2 ^ 53) : A + (q - 2 ^ 52) < 2 ^ 63 := by
  omega

/-- below 2^2098 the rounded magnitude stays below the sign bit (at most the pattern of inf) -/
theorem roundMag_lt (m : Nat) (h : m < 2 ^ 2098) : roundMag m < 2 ^ 63 := by
  unfold roundMag
  by_cases h1 : m < 2 ^ 53
  · simp only [h1, if_true]; omega
  · simp only [h1, if_false]
    have h0 : m ≠ 0 := by omega
    obtain ⟨a1, a2, a3⟩ := bitLen_spec m h0
    have hl : 54 ≤ bitLen m := bitLen_ge m 53 (by omega)
    have hu : bitLen m ≤ 2098 := bitLen_le_of_lt m 2098 h0 h
    have qa := roundQ_bounds m _ (by omega) a2 a3
    have : (bitLen m - 52) * 2 ^ 52 ≤ 2046 * 2 ^ 52 := Nat.mul_le_mul_right _ (by omega)
    exact lt63_arith _ _ this qa.2

theorem key_def (x : Nat) : key x = if signBit x = 1 then -(mag x : Int) else (mag x : Int) := rfl

theorem signBit_cases (x : Nat) : signBit x = 0 ∨ signBit x = 1 := by unfold signBit; omega

theorem roundMag_zero : roundMag 0 = 0 := by unfold roundMag; simp

theorem key_roundSigned (S : Int) (h : S.natAbs < 2 ^ 2098) :
    key (roundSigned S) = if S ≥ 0 then (roundMag S.toNat : Int) else -(roundMag (-S).toNat : Int) := by
  unfold roundSigned
  by_cases hs : S ≥ 0
  · simp only [hs, if_true]
    exact key_of_lt _ (roundMag_lt _ (by omega))
  · simp only [hs, if_false]
    exact key_of_neg _ (roundMag_lt _ (by omega))

/-- rounding never jumps over a representable number (from below) -/
theorem round_lower (S : Int) (hS : S.natAbs < 2 ^ 2098) (x : Nat) (hx : isFinite x = true)
    (h : S ≤ scaled x) : key (roundSigned S) ≤ key x := by
  rw [key_roundSigned S hS, key_def, ← roundMag_scaledMag x hx]
  unfold scaled at h
  rcases signBit_cases x with sx | sx
  · have : ¬ signBit x = 1 := by omega
    simp only [this, if_false] at h ⊢
    by_cases hs : S ≥ 0
    · simp only [hs, if_true]
      have := roundMag_mono S.toNat (scaledMag x) (by omega)
      omega
    · simp only [hs, if_false]; omega
  · simp only [sx, if_true] at h ⊢
    by_cases hs : S ≥ 0
    · simp only [hs, if_true]
      have e1 : scaledMag x = 0 := by omega
      have e2 : S.toNat = 0 := by omega
      rw [e1, e2]; simp [roundMag_zero]
    · simp only [hs, if_false]
      have := roundMag_mono (scaledMag x) (-S).toNat (by omega)
      omega

/-- … nor from above -/
theorem round_upper (S : Int) (hS : S.natAbs < 2 ^ 2098) (x : Nat) (hx : isFinite x = true)
    (h : scaled x ≤ S) : key x ≤ key (roundSigned S) := by
  rw [key_roundSigned S hS, key_def, ← roundMag_scaledMag x hx]
  unfold scaled at h
  rcases signBit_cases x with sx | sx
  · have : ¬ signBit x = 1 := by omega
    simp only [this, if_false] at h ⊢
    have hs : S ≥ 0 := by omega
    simp only [hs, if_true]
    have := roundMag_mono (scaledMag x) S.toNat (by omega)
    omega
  · simp only [sx, if_true] at h ⊢
    by_cases hs : S ≥ 0
    · simp only [hs, if_true]; omega
    · simp only [hs, if_false]
      have := roundMag_mono (-S).toNat (scaledMag x) (by omega)
      omega

theorem scaled_eq_of_key_eq {a b : Nat} (h : key a = key b) : scaled a = scaled b := by
  unfold key at h
  unfold scaled
  have ea : ∀ c : Nat, expField c = (mag c / 2 ^ 52) % 2 ^ 11 := by
    intro c; unfold expField mag; omega
  have fa : ∀ c : Nat, fracField c = mag c % 2 ^ 52 := by
    intro c; unfold fracField mag; omega
  have sm : ∀ c : Nat, mag c = 0 → scaledMag c = 0 := by
    intro c hc
    unfold scaledMag
    simp [ea, fa, hc]
  by_cases sa : signBit a = 1 <;> by_cases sb : signBit b = 1 <;> simp only [sa, sb, if_true, if_false] at h ⊢
  · have : mag a = mag b := by omega
    have : scaledMag a = scaledMag b := by unfold scaledMag; rw [ea a, ea b, fa a, fa b, this]
    omega
  · have h1 : mag a = 0 := by omega
    have h2 : mag b = 0 := by omega
    rw [sm a h1, sm b h2]; rfl
  · have h1 : mag a = 0 := by omega
    have h2 : mag b = 0 := by omega
    rw [sm a h1, sm b h2]; rfl
  · have : mag a = mag b := by omega
    have : scaledMag a = scaledMag b := by unfold scaledMag; rw [ea a, ea b, fa a, fa b, this]
    omega

theorem isFinite_of_key_eq {a b : Nat} (h : key a = key b) (hb : isFinite b = true) : isFinite a = true := by
  unfold isFinite at *
  have ea : ∀ c : Nat, expField c = (mag c / 2 ^ 52) % 2 ^ 11 := by
    intro c; unfold expField mag; omega
  have : mag a = mag b := by
    unfold key at h
    by_cases sa : signBit a = 1 <;> by_cases sb : signBit b = 1 <;> simp only [sa, sb, if_true, if_false] at h <;> omega
  rw [ea a, this, ← ea b]; exact hb

theorem scaled_natAbs (b : Nat) : (scaled b).natAbs = scaledMag b := by
  unfold scaled; split <;> simp

/-- **The tolerance window.** Whatever the filter's numeric equality accepts next to `b` lies, in
the zone map's order, inside `[b − ε, b + ε]` as computed in double arithmetic. -/
theorem eps_window (x b : Nat) (hb : isNaN b = false) (h : (feq x b || epsClose x b) = true) :
    key (addEps b (-1)) ≤ key x ∧ key x ≤ key (addEps b 1) := by
  unfold addEps
  by_cases hf : isFinite b = true
  · simp only [hf, if_true]
    have hbound := scaledMag_lt b hf
    have hS1 : (scaled b + -1 * 2 ^ 1022).natAbs < 2 ^ 2098 := by
      have := scaled_natAbs b; omega
    have hS2 : (scaled b + 1 * 2 ^ 1022).natAbs < 2 ^ 2098 := by
      have := scaled_natAbs b; omega
    have key : isFinite x = true ∧ scaled b + -1 * 2 ^ 1022 ≤ scaled x ∧ scaled x ≤ scaled b + 1 * 2 ^ 1022 := by
      simp only [Bool.or_eq_true] at h
      rcases h with h | h
      · unfold feq at h
        simp only [Bool.and_eq_true, Bool.not_eq_true', beq_iff_eq] at h
        have hk := h.2
        refine ⟨isFinite_of_key_eq hk hf, ?_, ?_⟩ <;> (rw [scaled_eq_of_key_eq hk]; omega)
      · unfold epsClose at h
        simp only [Bool.and_eq_true, decide_eq_true_eq] at h
        obtain ⟨⟨hx, _⟩, hd⟩ := h
        have : (2:Nat) ^ 968 ≤ 2 ^ 1022 := Nat.pow_le_pow_right (by omega) (by omega)
        refine ⟨hx, ?_, ?_⟩ <;> omega
    exact ⟨round_lower _ hS1 x key.1 key.2.1, round_upper _ hS2 x key.1 key.2.2⟩
  · simp only [hf, if_false]
    simp only [Bool.or_eq_true] at h
    rcases h with h | h
    · unfold feq at h
      simp only [Bool.and_eq_true, Bool.not_eq_true', beq_iff_eq] at h
      rw [h.2]; exact ⟨Int.le_refl _, Int.le_refl _⟩
    · unfold epsClose at h
      simp only [Bool.and_eq_true] at h
      exact absurd h.1.2 hf


/-! ## 0'. Transitivity of the zone map's order where the code relies on it -/

/-- well-formed values: integers in the i64 range, float patterns of 64 bits -/
def WF : V → Prop
  | .int i => I64 i
  | .float b => b < 2 ^ 64
  | _ => True

theorem pcle_iff (a b : Nat) :
    (partialCmp a b = some .lt ∨ partialCmp a b = some .eq) ↔
      (isNaN a = false ∧ isNaN b = false ∧ key a ≤ key b) := by
  unfold partialCmp
  cases ha : isNaN a <;> cases hb : isNaN b <;> simp
  first
    | omega
    | (rw [Int.compare_eq_lt]; omega)

/-- `≤` is transitive along a chain in which two *adjacent* values are of the same variant (the
shape the zone map relies on: min/max and the values they bound are of one variant, the literal
is arbitrary). It is not transitive for Int–Float–Int chains (`c10_order_not_transitive`). -/
theorem le_trans_adj {a b c : V} (ha : WF a) (hb : WF b) (hc : WF c)
    (h : discr a = discr b ∨ discr b = discr c) (h1 : le a b) (h2 : le b c) : le a c := by
  unfold le at *
  cases a <;> cases b <;> cases c <;> simp [cmp, discr] at h h1 h2 ⊢
  · -- bool
    rename_i x y z
    cases x <;> cases y <;> cases z <;> simp [compare, compareOfLessAndEq] at *
  · rename_i x y z
    rw [Int.compare_eq_lt] at h1 h2 ⊢
    omega
  · -- int int float
    rename_i x y z
    rw [pcle_iff] at h2 ⊢
    have hx := i64ToF64_key x ha
    have := ikey_mono x y ha hb (by rw [Int.compare_eq_lt] at h1; omega)
    exact ⟨hx.1, h2.2.1, by omega⟩
  · -- int float float
    rename_i x y z
    rw [pcle_iff] at h1 h2 ⊢
    exact ⟨h1.1, h2.2.1, by omega⟩
  · -- float int int
    rename_i x y z
    rw [pcle_iff] at h1 ⊢
    have hz := i64ToF64_key z hc
    have := ikey_mono y z hb hc (by rw [Int.compare_eq_lt] at h2; omega)
    exact ⟨h1.1, hz.1, by omega⟩
  · -- float float int
    rename_i x y z
    rw [pcle_iff] at h1 h2 ⊢
    exact ⟨h1.1, h2.2.1, by omega⟩
  · -- float float float
    rename_i x y z
    rw [pcle_iff] at h1 h2 ⊢
    exact ⟨h1.1, h2.2.1, by omega⟩
  · rename_i x y z
    have e1 : cmpBytes x y ≠ .gt := by rcases h1 with h | h <;> simp [h]
    have e2 : cmpBytes y z ≠ .gt := by rcases h2 with h | h <;> simp [h]
    have := cmpBytes_le_trans x y z e1 e2
    cases hh : cmpBytes x z <;> simp [hh] at this ⊢

theorem lt_of_le_lt {a b c : V} (ha : WF a) (hb : WF b) (hc : WF c) (hd : discr a = discr b)
    (h1 : le a b) (h2 : cmp b c = some .lt) : cmp a c = some .lt := by
  rcases le_trans_adj ha hb hc (Or.inl hd) h1 (Or.inl h2) with h | h
  · exact h
  · exfalso
    have h3 : le c b := le_trans_adj hc ha hb (Or.inr hd) (Or.inr (cmp_eq_swap h)) h1
    have h4 := cmp_lt_swap h2
    rcases h3 with h3 | h3 <;> simp [h3] at h4

theorem lt_of_lt_le {a b c : V} (ha : WF a) (hb : WF b) (hc : WF c) (hd : discr b = discr c)
    (h1 : cmp a b = some .lt) (h2 : le b c) : cmp a c = some .lt := by
  rcases le_trans_adj ha hb hc (Or.inr hd) (Or.inl h1) h2 with h | h
  · exact h
  · exfalso
    have h3 : le b a := le_trans_adj hb hc ha (Or.inl hd) h2 (Or.inr (cmp_eq_swap h))
    have h4 := cmp_lt_swap h1
    rcases h3 with h3 | h3 <;> simp [h3] at h4

theorem comparable_trans_same {a b c : V} (ha : WF a) (hb : WF b) (hc : WF c)
    (h1 : discr a = discr b) (h2 : discr b = discr c)
    (c1 : (cmp a b).isSome = true) (c2 : (cmp b c).isSome = true) : (cmp a c).isSome = true := by
  cases a <;> cases b <;> cases c <;> simp [cmp, discr, partialCmp_isSome] at h1 h2 c1 c2 ⊢
  exact ⟨c1.1, c2.2⟩

/-! ## 1. What a zone map knows about a list of values -/

/-- `z`, `mixed` summarise (at least) the values `L`: nulls are counted; a non-null value means
min and max are recorded; and while `mixed` is off all non-null values are of the variant of
min/max and — if min compares at all (it is not a lone NaN) — lie between them. -/
structure ZInv (L : List V) (z : ZM) (mixed : Bool) : Prop where
  wf : ∀ x ∈ L, WF x
  nulls : V.null ∈ L → 0 < z.nullCount
  count : z.nullCount ≤ z.rowCount
  nonnull : ∀ x ∈ L, x ≠ .null → z.nullCount < z.rowCount
  minmax : z.min.isSome = z.max.isSome
  hasMin : ∀ x ∈ L, x ≠ .null → z.min.isSome = true
  wfmin : ∀ m, z.min = some m → WF m
  wfmax : ∀ M, z.max = some M → WF M
  bounds : mixed = false → ∀ m M, z.min = some m → z.max = some M →
    discr M = discr m ∧ ((cmp m m).isSome = true ∨ (cmp M M).isSome = true → le m M) ∧
    ∀ x ∈ L, x ≠ .null → discr x = discr m ∧
      ((cmp m m).isSome = true ∨ (cmp M M).isSome = true → le m x ∧ le x M)

theorem zinv_empty : ZInv [] {} false where
  wf := by simp
  nulls := by simp
  count := Nat.le_refl _
  nonnull := by simp
  minmax := rfl
  hasMin := by simp
  wfmin := by simp
  wfmax := by simp
  bounds := by simp

theorem zinv_mono {L L' : List V} {z : ZM} {mixed : Bool}
    (h : ZInv L z mixed) (hs : ∀ x ∈ L', x ∈ L) : ZInv L' z mixed where
  wf x hx := h.wf x (hs x hx)
  nulls hx := h.nulls (hs _ hx)
  count := h.count
  nonnull x hx := h.nonnull x (hs x hx)
  minmax := h.minmax
  hasMin x hx := h.hasMin x (hs x hx)
  wfmin := h.wfmin
  wfmax := h.wfmax
  bounds hm m M e1 e2 :=
    ⟨(h.bounds hm m M e1 e2).1, (h.bounds hm m M e1 e2).2.1,
      fun x hx => (h.bounds hm m M e1 e2).2.2 x (hs x hx)⟩

theorem zmAdd_null (z : ZM) (mixed : Bool) :
    zmAdd (z, mixed) .null = ({ z with nullCount := z.nullCount + 1, rowCount := z.rowCount + 1 }, mixed) := by
  simp [zmAdd]

theorem zmAdd_nonnull (z : ZM) (mixed : Bool) {v : V} (hv : v ≠ .null) :
    zmAdd (z, mixed) v =
      ({ min := (newMin v z.min).1, max := newMax v z.max, nullCount := z.nullCount,
         rowCount := z.rowCount + 1 }, mixed || (newMin v z.min).2) := by
  simp [zmAdd, hv]

theorem zinv_add_null {L : List V} {z : ZM} {mixed : Bool} (h : ZInv L z mixed) :
    ZInv (.null :: L) (zmAdd (z, mixed) .null).1 (zmAdd (z, mixed) .null).2 := by
  rw [zmAdd_null]
  have mem : ∀ x, x ∈ V.null :: L → x ≠ .null → x ∈ L := by
    intro x hx hn
    rcases List.mem_cons.mp hx with rfl | hx
    · exact absurd rfl hn
    · exact hx
  exact {
    wf := by
      intro x hx
      rcases List.mem_cons.mp hx with rfl | hx
      · trivial
      · exact h.wf x hx
    nulls := fun _ => Nat.succ_pos _
    count := Nat.succ_le_succ h.count
    nonnull := fun x hx hn => Nat.succ_lt_succ (h.nonnull x (mem x hx hn) hn)
    minmax := h.minmax
    hasMin := fun x hx hn => h.hasMin x (mem x hx hn) hn
    wfmin := h.wfmin
    wfmax := h.wfmax
    bounds := fun hm m M e1 e2 =>
      ⟨(h.bounds hm m M e1 e2).1, (h.bounds hm m M e1 e2).2.1,
        fun x hx hn => (h.bounds hm m M e1 e2).2.2 x (mem x hx hn) hn⟩ }

theorem newMin_some (v cur : V) :
    (newMin v (some cur)).1 = (if cmp v cur = some .lt then some v else some cur) ∧
    ((newMin v (some cur)).2 = false → (cmp v cur).isSome = true ∧ discr v = discr cur) := by
  cases hc : cmp v cur with
  | none => simp [newMin, hc]
  | some o => cases o <;> simp [newMin, hc]

theorem newMax_some (v cur : V) :
    newMax v (some cur) = (if cmp v cur = some .gt then some v else some cur) := by
  simp [newMax]

/-- one non-null insertion keeps the bounds (min and max of one variant, all values between) -/
theorem bounds_step {L : List V} {v cur curM : V} (wv : WF v) (wc : WF cur) (wM : WF curM)
    (wL : ∀ x ∈ L, WF x) (hvn : v ≠ .null)
    (hd : discr v = discr cur) (hdM : discr curM = discr cur) (hc : (cmp v cur).isSome = true)
    (hle : le cur curM)
    (hold : ∀ x ∈ L, x ≠ .null → discr x = discr cur ∧ le cur x ∧ le x curM)
    (m M : V) (hm : (newMin v (some cur)).1 = some m) (hM : newMax v (some curM) = some M) :
    discr M = discr m ∧ le m M ∧ ∀ x ∈ v :: L, x ≠ .null → discr x = discr m ∧ le m x ∧ le x M := by
  rw [(newMin_some v cur).1] at hm
  rw [newMax_some] at hM
  have hcc : (cmp cur cur).isSome = true := by
    have := cmp_self_of_comparable (comparable_symm hc); simp [this]
  have hvM : (cmp v curM).isSome = true :=
    comparable_trans_same wv wc wM hd hdM.symm hc (le_comparable hle)
  have hvv : le v v := le_self_of_comparable hc
  -- the order between v and cur / curM
  by_cases h1 : cmp v cur = some .lt
  · -- v is the new minimum
    simp only [h1, if_true, Option.some.injEq] at hm
    subst hm
    have hvc : le v cur := Or.inl h1
    have hvcM : le v curM := le_trans_adj wv wc wM (Or.inl hd) hvc hle
    have hng : cmp v curM ≠ some .gt := by rcases hvcM with t | t <;> simp [t]
    simp only [hng, if_false, Option.some.injEq] at hM
    subst hM
    refine ⟨by omega, hvcM, ?_⟩
    intro x hx hn
    rcases List.mem_cons.mp hx with rfl | hx
    · exact ⟨rfl, hvv, hvcM⟩
    · obtain ⟨d, l1, l2⟩ := hold x hx hn
      exact ⟨by omega, le_trans_adj wv wc (wL x hx) (Or.inl hd) hvc l1, l2⟩
  · simp only [h1, if_false, Option.some.injEq] at hm
    subst hm
    have hcv : le cur v :=
      le_of_not_gt (comparable_symm hc) (fun hg => h1 (cmp_gt_swap hg))
    by_cases h2 : cmp v curM = some .gt
    · -- v is the new maximum
      simp only [h2, if_true, Option.some.injEq] at hM
      subst hM
      have hMv : le curM v := Or.inl (cmp_gt_swap h2)
      refine ⟨hd, hcv, ?_⟩
      intro x hx hn
      rcases List.mem_cons.mp hx with rfl | hx
      · exact ⟨hd, hcv, hvv⟩
      · obtain ⟨d, l1, l2⟩ := hold x hx hn
        exact ⟨d, l1, le_trans_adj (wL x hx) wM wv (Or.inl (by omega)) l2 hMv⟩
    · simp only [h2, if_false, Option.some.injEq] at hM
      subst hM
      refine ⟨hdM, hle, ?_⟩
      intro x hx hn
      rcases List.mem_cons.mp hx with rfl | hx
      · exact ⟨hd, hcv, le_of_not_gt hvM h2⟩
      · exact hold x hx hn

theorem newMin_mem (v : V) (o : Option V) (m : V) (h : (newMin v o).1 = some m) :
    m = v ∨ o = some m := by
  cases o with
  | none => simp [newMin] at h; exact Or.inl h.symm
  | some cur =>
    rw [(newMin_some v cur).1] at h
    split at h
    · simp at h; exact Or.inl h.symm
    · exact Or.inr h

theorem newMax_mem (v : V) (o : Option V) (m : V) (h : newMax v o = some m) :
    m = v ∨ o = some m := by
  cases o with
  | none => simp [newMax] at h; exact Or.inl h.symm
  | some cur =>
    rw [newMax_some] at h
    split at h
    · simp at h; exact Or.inl h.symm
    · exact Or.inr h

theorem newMin_isSome (v : V) (o : Option V) : (newMin v o).1.isSome = true := by
  cases o with
  | none => rfl
  | some cur => rw [(newMin_some v cur).1]; split <;> rfl

theorem newMax_isSome (v : V) (o : Option V) : (newMax v o).isSome = true := by
  cases o with
  | none => rfl
  | some cur => rw [newMax_some]; split <;> rfl

/-- one insertion keeps the summary valid (this is `update_zone_map_on_insert`, and one turn of
the loop of `rebuild_zone_map`) -/
theorem zinv_add {L : List V} {z : ZM} {mixed : Bool} (h : ZInv L z mixed) {v : V} (wv : WF v) :
    ZInv (v :: L) (zmAdd (z, mixed) v).1 (zmAdd (z, mixed) v).2 := by
  by_cases hvn : v = .null
  · subst hvn; exact zinv_add_null h
  · rw [zmAdd_nonnull z mixed hvn]
    have wL : ∀ x ∈ v :: L, WF x := by
      intro x hx
      rcases List.mem_cons.mp hx with rfl | hx
      · exact wv
      · exact h.wf x hx
    exact {
      wf := wL
      nulls := by
        intro hx
        rcases List.mem_cons.mp hx with e | hx
        · exact absurd e.symm hvn
        · exact h.nulls hx
      count := Nat.le_succ_of_le h.count
      nonnull := fun _ _ _ => Nat.lt_succ_of_le h.count
      minmax := by simp [newMin_isSome, newMax_isSome]
      hasMin := fun _ _ _ => newMin_isSome v z.min
      wfmin := by
        intro m hm
        rcases newMin_mem v z.min m hm with rfl | hm
        · exact wv
        · exact h.wfmin m hm
      wfmax := by
        intro m hm
        rcases newMax_mem v z.max m hm with rfl | hm
        · exact wv
        · exact h.wfmax m hm
      bounds := by
        intro hmx m M hm hM
        simp only at hm hM
        have hmixed : mixed = false := by cases mixed <;> simp at hmx ⊢
        have hflag : (newMin v z.min).2 = false := by
          cases hh : (newMin v z.min).2 <;> simp [hmixed, hh] at hmx ⊢
        cases hmin : z.min with
        | none =>
          have hmaxn : z.max = none := by
            have := h.minmax; rw [hmin] at this
            cases hh : z.max <;> simp [hh] at this ⊢
          rw [hmin] at hm; rw [hmaxn] at hM
          simp only [newMin, newMax, Option.some.injEq] at hm hM
          subst hm; subst hM
          have self : (cmp v v).isSome = true ∨ (cmp v v).isSome = true → le v v := by
            rintro (hc | hc) <;> exact le_self_of_comparable hc
          refine ⟨rfl, self, ?_⟩
          intro x hx hn
          rcases List.mem_cons.mp hx with rfl | hx
          · exact ⟨rfl, fun hc => ⟨self hc, self hc⟩⟩
          · have := h.hasMin x hx hn; rw [hmin] at this; cases this
        | some cur =>
          obtain ⟨curM, hmaxs⟩ : ∃ curM, z.max = some curM := by
            have := h.minmax; rw [hmin] at this
            cases hh : z.max with
            | none => simp [hh] at this
            | some c => exact ⟨c, rfl⟩
          rw [hmin] at hm hflag; rw [hmaxs] at hM
          obtain ⟨hc, hd⟩ := (newMin_some v cur).2 hflag
          have hcc : (cmp cur cur).isSome = true := by
            have := cmp_self_of_comparable (comparable_symm hc); simp [this]
          obtain ⟨b1, b2, b3⟩ := h.bounds hmixed cur curM hmin hmaxs
          have := bounds_step wv (h.wfmin cur hmin) (h.wfmax curM hmaxs) h.wf hvn hd b1 hc (b2 (Or.inl hcc))
            (fun x hx hn => ⟨(b3 x hx hn).1, (b3 x hx hn).2 (Or.inl hcc)⟩) m M hm hM
          exact ⟨this.1, fun _ => this.2.1, fun x hx hn =>
            ⟨(this.2.2 x hx hn).1, fun _ => (this.2.2 x hx hn).2⟩⟩ }

/-- folding a list of values into a summary (`rebuild_zone_map`) -/
theorem zinv_foldl :
    ∀ (vs : List V) (L : List V) (s : ZM × Bool), ZInv L s.1 s.2 → (∀ v ∈ vs, WF v) →
      ZInv (vs.reverse ++ L) (vs.foldl zmAdd s).1 (vs.foldl zmAdd s).2
  | [], L, s, h, _ => by simpa using h
  | v :: vs, L, s, h, hp => by
    have h1 : ZInv (v :: L) (zmAdd s v).1 (zmAdd s v).2 :=
      zinv_add (z := s.1) (mixed := s.2) h (hp v (List.mem_cons_self))
    have h2 := zinv_foldl vs (v :: L) (zmAdd s v) h1
      (fun x hx => hp x (List.mem_cons_of_mem _ hx))
    simpa [List.foldl_cons, List.reverse_cons, List.append_assoc] using h2

/-! ## 2. A `false` verdict of the zone map is right about every summarised value

… under the engine's own filter semantics `fsat` (`filter.rs`), for every operator, every literal
and every value — no value-class hypothesis. -/

theorem cmp_null_left (v : V) : cmp .null v = none := by cases v <;> rfl
theorem cmp_null_right (v : V) : cmp v .null = none := by cases v <;> rfl

theorem nonnull_of_cmp {x v : V} {o : Ordering} (h : cmp x v = some o) : x ≠ .null := by
  intro e; subst e; rw [cmp_null_left] at h; cases h

/-- the filter's ordering comparison is the zone map's (minus Bool/Bool) -/
theorem fCmp_sub_cmp {x v : V} {o : Ordering} (h : fCmp x v = some o) : cmp x v = some o := by
  cases x <;> cases v <;> simp [fCmp, cmp] at h ⊢ <;> exact h

theorem epsClose_comm (a b : Nat) : epsClose a b = epsClose b a := by
  unfold epsClose
  have : (scaled a - scaled b).natAbs = (scaled b - scaled a).natAbs := by omega
  rw [this, Bool.and_comm (isFinite a)]

theorem epsClose_of_key_eq {a b : Nat} (fa : isFinite a = true) (fb : isFinite b = true)
    (h : key a = key b) : epsClose a b = true := by
  unfold epsClose
  rw [scaled_eq_of_key_eq h]
  have : 0 < 2 ^ 1022 - 2 ^ 968 := Nat.sub_pos_of_lt (Nat.pow_lt_pow_right (by omega) (by omega))
  simp [fa, fb, this]

theorem partialCmp_eq_key {a b : Nat} (h : partialCmp a b = some .eq) :
    isNaN a = false ∧ isNaN b = false ∧ key a = key b := by
  unfold partialCmp at h
  cases ha : isNaN a <;> cases hb : isNaN b <;> simp [ha, hb] at h
  exact ⟨rfl, rfl, h⟩

/-- values the zone map's order calls equal are equal for the filter -/
theorem fEq_of_cmp_eq {x v : V} (wx : WF x) (wv : WF v) (h : cmp x v = some .eq) : fEq x v = true := by
  cases x <;> cases v <;> simp [cmp, fEq] at h ⊢
  · rename_i a b
    cases a <;> cases b <;> simp [compare, compareOfLessAndEq] at h ⊢
  · exact h
  · rename_i i y
    obtain ⟨_, _, hk⟩ := partialCmp_eq_key h
    have hi := i64ToF64_key i wx
    exact epsClose_of_key_eq hi.2.1 (isFinite_of_key_eq hk.symm hi.2.1) hk
  · rename_i y i
    obtain ⟨_, _, hk⟩ := partialCmp_eq_key h
    have hi := i64ToF64_key i wv
    exact epsClose_of_key_eq hi.2.1 (isFinite_of_key_eq hk hi.2.1) hk.symm
  · rename_i a b
    obtain ⟨ha, hb, hk⟩ := partialCmp_eq_key h
    left; unfold feq; simp [ha, hb, hk]
  · exact (cmpBytes_eq_iff _ _).mp h

section Sound
variable {L : List V} {z : ZM} (h : ZInv L z false) {v : V} (wv : WF v)
include h wv

/-- min/max exist and bound a value that compares with the literal the minimum compares with -/
theorem bounds_of {x : V} (hx : x ∈ L) (hn : x ≠ .null) :
    ∃ m M, z.min = some m ∧ z.max = some M ∧ WF m ∧ WF M ∧ WF x ∧
      discr x = discr m ∧ discr M = discr m ∧
      ((cmp m m).isSome = true ∨ (cmp M M).isSome = true → le m x ∧ le x M) := by
  have h1 := h.hasMin x hx hn
  cases hm : z.min with
  | none => rw [hm] at h1; cases h1
  | some m =>
    have h2 := h.minmax
    rw [hm] at h2
    cases hM : z.max with
    | none => rw [hM] at h2; cases h2
    | some M =>
      obtain ⟨b1, _, b3⟩ := h.bounds rfl m M hm hM
      exact ⟨m, M, rfl, rfl, h.wfmin m hm, h.wfmax M hM, h.wf x hx, (b3 x hx hn).1, b1, (b3 x hx hn).2⟩

theorem self_comparable_of {m w : V} {o : Ordering} (hc : cmp m w = some o) : (cmp m m).isSome = true := by
  have := cmp_self_of_comparable (a := m) (b := w) (by simp [hc]); simp [this]

/-- `might_contain_less_than(v, incl) = false` ⇒ no value is `< v` (resp. `≤ v`) -/
theorem less_sound {incl : Bool} (hf : z.mightLess v incl = false) :
    ∀ x ∈ L, cmp x v ≠ some .lt ∧ (incl = true → cmp x v ≠ some .eq) := by
  intro x hx
  unfold ZM.mightLess at hf
  have key : ∀ o, cmp x v = some o → (o = .lt ∨ (incl = true ∧ o = .eq)) → False := by
    intro o hxo ho
    have hn := nonnull_of_cmp hxo
    obtain ⟨m, M, hm, hM, wm, wM, wx, d1, d2, hb⟩ := bounds_of h wv hx hn
    rw [hm] at hf
    simp only [lessOn] at hf
    cases hmv : cmp m v with
    | none => rw [hmv] at hf; simp [lessVerdict] at hf
    | some o' =>
      have hmx := (hb (Or.inl (self_comparable_of h wv hmv))).1
      rw [hmv] at hf
      rcases ho with rfl | ⟨hi, rfl⟩
      · have := lt_of_le_lt wm wx wv d1.symm hmx hxo
        rw [this] at hmv; cases hmv; simp [lessVerdict] at hf
      · subst hi
        rcases le_trans_adj wm wx wv (Or.inl d1.symm) hmx (Or.inr hxo) with h' | h' <;>
          (rw [h'] at hmv; cases hmv; simp [lessVerdict] at hf)
  exact ⟨fun e => key _ e (Or.inl rfl), fun hi e => key _ e (Or.inr ⟨hi, rfl⟩)⟩

/-- `might_contain_greater_than(v, incl) = false` ⇒ no value is `> v` (resp. `≥ v`) -/
theorem greater_sound {incl : Bool} (hf : z.mightGreater v incl = false) :
    ∀ x ∈ L, cmp x v ≠ some .gt ∧ (incl = true → cmp x v ≠ some .eq) := by
  intro x hx
  unfold ZM.mightGreater at hf
  have key : ∀ o, cmp x v = some o → (o = .gt ∨ (incl = true ∧ o = .eq)) → False := by
    intro o hxo ho
    have hn := nonnull_of_cmp hxo
    obtain ⟨m, M, hm, hM, wm, wM, wx, d1, d2, hb⟩ := bounds_of h wv hx hn
    rw [hM] at hf
    simp only [greaterOn] at hf
    cases hMv : cmp M v with
    | none => rw [hMv] at hf; simp [greaterVerdict] at hf
    | some o' =>
      have hxM := (hb (Or.inr (self_comparable_of h wv hMv))).2
      rw [hMv] at hf
      rcases ho with rfl | ⟨hi, rfl⟩
      · have := lt_of_lt_le wv wx wM (by omega) (cmp_gt_swap hxo) hxM
        have := cmp_lt_swap this
        rw [this] at hMv; cases hMv; simp [greaterVerdict] at hf
      · subst hi
        rcases le_trans_adj wv wx wM (Or.inr (by omega)) (Or.inr (cmp_eq_swap hxo)) hxM with h' | h'
        · have := cmp_lt_swap h'
          rw [this] at hMv; cases hMv; simp [greaterVerdict] at hf
        · have := cmp_eq_swap h'
          rw [this] at hMv; cases hMv; simp [greaterVerdict] at hf
  exact ⟨fun e => key _ e (Or.inl rfl), fun hi e => key _ e (Or.inr ⟨hi, rfl⟩)⟩

end Sound

/-- `might_contain_range` (bounds of any kind): no value lies in the range by the zone map's order -/
theorem range_sound {L : List V} {z : ZM} (h : ZInv L z false) (lo hi : Option V)
    (hlo : ∀ l, lo = some l → WF l) (hhi : ∀ u, hi = some u → WF u) (li ui : Bool)
    (hf : z.mightRange lo hi li ui = false) :
    ∀ x ∈ L, satRange zsat x lo hi li ui = false := by
  intro x hx
  unfold ZM.mightRange at hf
  cases hl : lowerOk z li lo with
  | false =>
    cases lo with
    | none => simp [lowerOk] at hl
    | some l =>
      simp only [lowerOk] at hl
      have := greater_sound h (hlo l rfl) hl x hx
      cases li <;> simp [satRange, boundOp, zsat, this.1] <;> intro h1 <;> simp [this.2] at h1
  | true =>
    rw [hl] at hf
    simp only [Bool.true_and] at hf
    cases hi with
    | none => simp [upperOk] at hf
    | some u =>
      simp only [upperOk] at hf
      have := less_sound h (hhi u rfl) hf x hx
      cases ui <;> simp [satRange, boundOp, zsat, this.1] <;> intro _ h1 <;> simp [this.2] at h1

/-- for a non-numeric literal the filter's equality is identity -/
theorem fEq_nonnumeric {x v : V} (hv : numBits v = none) (h : fEq x v = true) : x = v := by
  cases x <;> cases v <;> simp [fEq, numBits] at h hv ⊢ <;> exact h

/-- `might_contain_equal(v) = false` for a string / boolean / null literal -/
theorem equal_sound {L : List V} {z : ZM} (h : ZInv L z false) {v : V} (wv : WF v)
    (hnum : numBits v = none) (hf : z.mightEqual v = false) : ∀ x ∈ L, fEq x v = false := by
  intro x hx
  cases hfe : fEq x v with
  | false => rfl
  | true =>
    exfalso
    have e := fEq_nonnumeric hnum hfe
    subst e
    unfold ZM.mightEqual at hf
    by_cases hvn : x = .null
    · subst hvn
      simp only [if_true, decide_eq_false_iff_not, Nat.not_lt, Nat.le_zero] at hf
      have := h.nulls hx; omega
    · simp only [hvn, if_false] at hf
      have hnc := h.nonnull x hx hvn
      have hall : z.isAllNull = false := by
        unfold ZM.isAllNull
        have : (z.nullCount == z.rowCount) = false := by simp; omega
        simp [this]
      simp only [hall, if_false, Bool.false_eq_true] at hf
      obtain ⟨m, M, hm, hM, wm, wM, wx, d1, d2, hb⟩ := bounds_of h wv hx hvn
      rw [hm, hM] at hf
      simp only [eqBounds] at hf
      -- x is a string or a boolean: it compares with itself, hence so do m and M (same variant)
      have hmm : (cmp m m).isSome = true := by
        cases x <;> cases m <;> simp [discr, numBits, cmp] at d1 hnum hvn ⊢
      obtain ⟨l1, l2⟩ := hb (Or.inl hmm)
      by_cases h1 : cmp x m = some .lt
      · have := cmp_lt_swap h1
        rcases l1 with t | t <;> simp [t] at this
      · have h2 : cmp x M = some .gt := by
          cases hh : cmp x M with
          | none => simp [h1, hh] at hf
          | some o => cases o <;> simp [h1, hh] at hf ⊢
        rcases l2 with t | t <;> simp [t] at h2

/-- a numeric value as a float pattern compares with a float like the value itself -/
theorem cmp_float_right {a : V} {ab : Nat} (ha : numBits a = some ab) (c : Nat) :
    cmp a (.float c) = partialCmp ab c := by
  cases a <;> simp [numBits] at ha <;> subst ha <;> rfl

/-- the pattern order follows `≤` between numeric values of one variant -/
theorem key_le_of_le {a b : V} {ab bb : Nat} (wa : WF a) (wb : WF b) (hd : discr a = discr b)
    (ha : numBits a = some ab) (hb : numBits b = some bb) (h : le a b) : key ab ≤ key bb := by
  cases a <;> cases b <;> simp [numBits, discr] at ha hb hd <;> subst ha <;> subst hb
  · rename_i i j
    unfold le at h
    simp only [cmp] at h
    apply ikey_mono i j wa wb
    rcases h with h | h
    · have := Int.compare_eq_lt.mp (by simpa using h); omega
    · have := Int.compare_eq_eq.mp (by simpa using h); omega
  · unfold le at h
    simp only [cmp] at h
    exact ((pcle_iff _ _).mp h).2.2

/-- what the filter's `=` accepts for a numeric literal, on patterns -/
theorem fEq_numeric {x v : V} {vb : Nat} (wx : WF x) (wv : WF v) (hv : numBits v = some vb)
    (h : fEq x v = true) :
    ∃ xb, numBits x = some xb ∧ (feq xb vb || epsClose xb vb) = true := by
  cases x <;> cases v <;> simp [fEq, numBits] at h hv ⊢ <;> subst hv
  · rename_i i j
    subst h
    have := i64ToF64_key i wx
    left; unfold feq; simp [this.1]
  · right; exact h
  · right; rw [epsClose_comm]; exact h
  · rename_i a b
    rcases h with h | h
    · left; exact h
    · right; exact h

/-- `Eq` with a numeric literal: the interval `[v − ε, v + ε]` -/
theorem eq_numeric_sound {L : List V} {z : ZM} (h : ZInv L z false) {v : V} (wv : WF v) {vb : Nat}
    (hv : numBits v = some vb) (hnan : isNaN vb = false)
    (hf : z.mightRange (some (.float (addEps vb (-1)))) (some (.float (addEps vb 1))) true true = false) :
    ∀ x ∈ L, fEq x v = false := by
  intro x hx
  cases hfe : fEq x v with
  | false => rfl
  | true =>
    exfalso
    have wx := h.wf x hx
    obtain ⟨xb, hxb, hwin⟩ := fEq_numeric wx wv hv hfe
    obtain ⟨w1, w2⟩ := eps_window xb vb hnan hwin
    have hn : x ≠ .null := by intro e; subst e; simp [numBits] at hxb
    obtain ⟨m, M, hm, hM, wm, wM, _, d1, d2, hb⟩ := bounds_of h wv hx hn
    -- m and M are numeric, of x's variant
    have hnumM : ∃ Mb, numBits M = some Mb := by
      cases x <;> cases M <;> cases m <;> simp [numBits, discr] at hxb d1 d2 ⊢
    have hnumm : ∃ mb, numBits m = some mb := by
      cases x <;> cases m <;> simp [numBits, discr] at hxb d1 ⊢
    obtain ⟨Mb, hMb⟩ := hnumM
    obtain ⟨mb, hmb⟩ := hnumm
    unfold ZM.mightRange at hf
    cases hl : lowerOk z true (some (.float (addEps vb (-1)))) with
    | false =>
      simp only [lowerOk, ZM.mightGreater, hM, greaterOn] at hl
      rw [cmp_float_right hMb] at hl
      cases hc : partialCmp Mb (addEps vb (-1)) with
      | none => simp [hc, greaterVerdict] at hl
      | some o =>
        have hMM : (cmp M M).isSome = true := by
          have : isNaN Mb = false := by
            unfold partialCmp at hc
            cases hh : isNaN Mb <;> simp [hh] at hc ⊢
          cases M <;> simp [numBits] at hMb <;> subst hMb <;> simp [cmp, partialCmp, this]
        have := key_le_of_le wx wM (by omega) hxb hMb (hb (Or.inr hMM)).2
        cases o <;> simp [hc, greaterVerdict] at hl
        -- Mb < lower
        unfold partialCmp at hc
        split at hc
        · cases hc
        · simp only [Option.some.injEq] at hc
          have := Int.compare_eq_lt.mp hc
          omega
    | true =>
      rw [hl] at hf
      simp only [Bool.true_and, upperOk, ZM.mightLess, hm, lessOn] at hf
      rw [cmp_float_right hmb] at hf
      cases hc : partialCmp mb (addEps vb 1) with
      | none => simp [hc, lessVerdict] at hf
      | some o =>
        have hmm : (cmp m m).isSome = true := by
          have : isNaN mb = false := by
            unfold partialCmp at hc
            cases hh : isNaN mb <;> simp [hh] at hc ⊢
          cases m <;> simp [numBits] at hmb <;> subst hmb <;> simp [cmp, partialCmp, this]
        have := key_le_of_le wm wx (by omega) hmb hxb (hb (Or.inl hmm)).1
        cases o <;> simp [hc, lessVerdict] at hf
        unfold partialCmp at hc
        split at hc
        · cases hc
        · simp only [Option.some.injEq] at hc
          have := Int.compare_eq_gt.mp hc
          omega

/-- `<>`: verdict `false` (no null counted, min = max = v) ⇒ every value equals `v` for the filter -/
theorem ne_sound {L : List V} {z : ZM} (h : ZInv L z false) {v : V} (wv : WF v)
    (hnc : ¬ z.nullCount > 0) (hf : neVerdict v z.min z.max = false) :
    ∀ x ∈ L, fEq x v = true := by
  intro x hx
  have hn : x ≠ .null := by
    intro e; subst e
    have := h.nulls hx; omega
  obtain ⟨m, M, hm, hM, wm, wM, wx, d1, d2, hb⟩ := bounds_of h wv hx hn
  rw [hm, hM] at hf
  simp only [neVerdict, Bool.not_eq_false', Bool.and_eq_true, beq_iff_eq] at hf
  obtain ⟨h1, h2⟩ := hf
  obtain ⟨l1, l2⟩ := hb (Or.inl (self_comparable_of h wv h1))
  have hvx : le v x := le_trans_adj wv wm wx (Or.inr d1.symm) (Or.inr (cmp_eq_swap h1)) l1
  have hxv : le x v := le_trans_adj wx wM wv (Or.inl (by omega)) l2 (Or.inr h2)
  have : cmp x v = some .eq := by
    rcases hxv with t | t
    · have := cmp_lt_swap t
      rcases hvx with u | u <;> simp [u] at this
    · exact t
  exact fEq_of_cmp_eq wx wv this

/-- **Zone-map soundness at the level of one summary**: if the verdict for `op v` is `false`,
no summarised value passes the generic filter `x <op> v`. -/
theorem matchOn_sound {L : List V} {z : ZM} (h : ZInv L z false) {v : V} (wv : WF v) (op : Op)
    (hf : matchOn z v op = false) : ∀ x ∈ L, fsat op x v = false := by
  intro x hx
  cases op with
  | eq =>
    simp only [matchOn, eqVerdict] at hf
    simp only [fsat]
    cases hnb : numBits v with
    | none =>
      rw [hnb] at hf
      exact equal_sound h wv hnb hf x hx
    | some vb =>
      rw [hnb] at hf
      simp only at hf
      cases hnan : isNaN vb with
      | true => simp [hnan] at hf
      | false =>
        simp only [hnan, Bool.false_eq_true, if_false] at hf
        exact eq_numeric_sound h wv hnb hnan hf x hx
  | ne =>
    simp only [matchOn] at hf
    split at hf
    · cases hf
    · rename_i hnc
      simp [fsat, ne_sound h wv hnc hf x hx]
  | lt =>
    have := less_sound h wv (incl := false) hf x hx
    simp only [fsat, beq_eq_false_iff_ne, ne_eq]
    intro e; exact this.1 (fCmp_sub_cmp e)
  | le =>
    have := less_sound h wv (incl := true) hf x hx
    simp only [fsat, Bool.or_eq_false_iff, beq_eq_false_iff_ne, ne_eq]
    exact ⟨fun e => this.1 (fCmp_sub_cmp e), fun e => this.2 rfl (fCmp_sub_cmp e)⟩
  | gt =>
    have := greater_sound h wv (incl := false) hf x hx
    simp only [fsat, beq_eq_false_iff_ne, ne_eq]
    intro e; exact this.1 (fCmp_sub_cmp e)
  | ge =>
    have := greater_sound h wv (incl := true) hf x hx
    simp only [fsat, Bool.or_eq_false_iff, beq_eq_false_iff_ne, ne_eq]
    exact ⟨fun e => this.1 (fCmp_sub_cmp e), fun e => this.2 rfl (fCmp_sub_cmp e)⟩

/-! ## 3. Every reachable column, storage and store keeps the summary valid -/

theorem aget_mem {α : Type} : ∀ (l : List (Nat × α)) (k : Nat) (a : α), aget l k = some a → (k, a) ∈ l
  | [], _, _, h => by simp [aget] at h
  | (k', a') :: rest, k, a, h => by
    unfold aget at h
    by_cases e : k' = k
    · simp [e] at h; subst e; subst h; exact List.mem_cons_self
    · simp [e] at h; exact List.mem_cons_of_mem _ (aget_mem rest k a h)

theorem aget_aerase_self {α : Type} : ∀ (l : List (Nat × α)) (k : Nat), aget (aerase l k) k = none
  | [], _ => rfl
  | (k', a') :: rest, k => by
    unfold aerase
    by_cases e : k' = k
    · simp [List.filter_cons, e]; exact aget_aerase_self rest k
    · simp [List.filter_cons, e, aget]; exact aget_aerase_self rest k

theorem aget_aerase_ne {α : Type} : ∀ (l : List (Nat × α)) (k k' : Nat), k ≠ k' →
    aget (aerase l k) k' = aget l k'
  | [], _, _, _ => rfl
  | (k0, a0) :: rest, k, k', hne => by
    unfold aerase
    by_cases e : k0 = k
    · simp [e, aget, hne]
      exact aget_aerase_ne rest k k' hne
    · simp [List.filter_cons, e, aget]
      by_cases e' : k0 = k'
      · simp [e']
      · simp [e']; exact aget_aerase_ne rest k k' hne

theorem aget_aset {α : Type} (l : List (Nat × α)) (k k' : Nat) (a : α) :
    aget (aset l k a) k' = if k = k' then some a else aget l k' := by
  unfold aset
  by_cases e : k = k'
  · simp [aget, e]
  · simp [aget, e, aget_aerase_ne l k k' e]

theorem aget_map {α : Type} (f : Nat → α → α) : ∀ (l : List (Nat × α)) (k : Nat),
    aget (l.map (fun p => (p.1, f p.1 p.2))) k = (aget l k).map (f k)
  | [], _ => rfl
  | (k0, a0) :: rest, k => by
    simp only [List.map_cons, aget]
    by_cases e : k0 = k
    · simp [e]
    · simp [e]; exact aget_map f rest k

theorem mem_aerase {α : Type} (l : List (Nat × α)) (k : Nat) (p : Nat × α) (h : p ∈ aerase l k) : p ∈ l :=
  (List.mem_filter.mp h).1

theorem mem_orderedVals (vals : List (Nat × V)) (ord : List Nat) (x : V) :
    x ∈ orderedVals vals ord ↔ x ∈ vals.map (·.2) := by
  unfold orderedVals
  simp only [List.mem_append, List.mem_flatMap, List.mem_map, List.mem_filter]
  constructor
  · rintro (⟨id, _, p, ⟨hp, _⟩, rfl⟩ | ⟨p, ⟨hp, _⟩, rfl⟩) <;> exact ⟨p, hp, rfl⟩
  · rintro ⟨p, hp, rfl⟩
    by_cases hc : ord.contains p.1 = true
    · left; exact ⟨p.1, by simpa using hc, p, ⟨hp, by simp⟩, rfl⟩
    · right; exact ⟨p, ⟨hp, by simpa using hc⟩, rfl⟩

/-- the column's zone map and `mixed` flag summarise its current values -/
def CInv (c : Col) : Prop := ZInv (c.vals.map (·.2)) c.zm c.mixed

theorem cinv_empty : CInv {} := zinv_empty

theorem cinv_set {c : Col} (h : CInv c) (id : Nat) {v : V}
    (hv : WF v) : CInv (c.set id v) := by
  unfold CInv Col.set
  refine zinv_mono (zinv_add h hv) ?_
  intro x hx
  simp only [aset, List.map_cons, List.mem_cons] at hx
  rcases hx with rfl | hx
  · exact List.mem_cons_self
  · obtain ⟨p, hp, rfl⟩ := List.mem_map.mp hx
    exact List.mem_cons_of_mem _ (List.mem_map.mpr ⟨p, mem_aerase _ _ _ hp, rfl⟩)

theorem cinv_remove {c : Col} (h : CInv c) (id : Nat) : CInv (c.remove id) := by
  unfold Col.remove
  split
  · unfold CInv
    refine zinv_mono h ?_
    intro x hx
    obtain ⟨p, hp, rfl⟩ := List.mem_map.mp hx
    exact List.mem_map.mpr ⟨p, mem_aerase _ _ _ hp, rfl⟩
  · exact h

theorem cinv_rebuild {c : Col} (h : CInv c) (ord : List Nat) :
    CInv (c.rebuild ord) := by
  unfold CInv Col.rebuild
  have hp : ∀ v ∈ orderedVals c.vals ord, WF v := fun v hv =>
    h.wf v ((mem_orderedVals _ _ _).mp hv)
  have := zinv_foldl (orderedVals c.vals ord) [] ({}, false) (zinv_empty) hp
  refine zinv_mono this ?_
  intro x hx
  simp only [List.append_nil, List.mem_reverse]
  exact (mem_orderedVals _ _ _).mpr hx

/-- every column of the storage is summarised correctly -/
def StInv (st : Storage) : Prop := ∀ key c, aget st key = some c → CInv c

theorem stinv_set {st : Storage} (h : StInv st) (id key : Nat)
    {v : V} (hv : WF v) : StInv (st.set id key v) := by
  intro k c hc
  unfold Storage.set at hc
  rw [aget_aset] at hc
  by_cases e : key = k
  · subst e
    simp only [if_true, Option.some.injEq] at hc
    subst hc
    apply cinv_set _ id hv
    cases hk : aget st key with
    | none => simpa using cinv_empty
    | some c0 => simpa using h key c0 hk
  · simp only [e, if_false] at hc
    exact h k c hc

theorem stinv_remove {st : Storage} (h : StInv st) (id key : Nat) :
    StInv (st.remove id key) := by
  intro k c hc
  unfold Storage.remove at hc
  cases hk : aget st key with
  | none => rw [hk] at hc; exact h k c hc
  | some c0 =>
    rw [hk] at hc
    simp only at hc
    rw [aget_aset] at hc
    by_cases e : key = k
    · simp only [e, if_true, Option.some.injEq] at hc
      subst hc
      exact cinv_remove (h key c0 hk) id
    · simp only [e, if_false] at hc
      exact h k c hc

theorem stinv_removeAll {st : Storage} (h : StInv st) (id : Nat) :
    StInv (st.removeAll id) := by
  intro k c hc
  unfold Storage.removeAll at hc
  have h2 : aget (st.map (fun p => (p.1, p.2.remove id))) k = (aget st k).map (fun c => c.remove id) :=
    aget_map (fun _ c => c.remove id) st k
  rw [h2] at hc
  cases hk : aget st k with
  | none => rw [hk] at hc; cases hc
  | some c0 =>
    rw [hk] at hc
    simp only [Option.map_some, Option.some.injEq] at hc
    subst hc
    exact cinv_remove (h k c0 hk) id

theorem stinv_rebuild {st : Storage} (h : StInv st)
    (ords : List (Nat × List Nat)) : StInv (st.rebuild ords) := by
  intro k c hc
  unfold Storage.rebuild at hc
  have h2 : aget (st.map (fun p => (p.1, p.2.rebuild ((aget ords p.1).getD [])))) k
      = (aget st k).map (fun c => c.rebuild ((aget ords k).getD [])) :=
    aget_map (fun k c => c.rebuild ((aget ords k).getD [])) st k
  rw [h2] at hc
  cases hk : aget st k with
  | none => rw [hk] at hc; cases hc
  | some c0 =>
    rw [hk] at hc
    simp only [Option.map_some, Option.some.injEq] at hc
    subst hc
    exact cinv_rebuild (h k c0 hk) _

/-- the values written by a history are well-formed (i64 integers, 64-bit float patterns) -/
def SOp.valOk : SOp → Prop
  | .set _ _ v => WF v
  | _ => True

theorem stinv_step {s : Store} (h : StInv s.props) (op : SOp)
    (hop : op.valOk) : StInv (s.step op).props := by
  cases op with
  | node => exact h
  | set n key v =>
    simp only [Store.step, Store.setProp]
    split
    · exact stinv_set h n key hop
    · exact h
  | remove n key => exact stinv_remove h n key
  | delnode n =>
    simp only [Store.step, Store.deleteNode]
    split
    · exact stinv_removeAll h n
    · exact h
  | rebuild ords => exact stinv_rebuild h ords
  | index key =>
    simp only [Store.step, Store.createIndex]
    split <;> exact h
  | dropindex key => exact h

theorem stinv_foldl :
    ∀ (ops : List SOp) (s : Store), StInv s.props → (∀ op ∈ ops, op.valOk) →
      StInv (ops.foldl Store.step s).props
  | [], _, h, _ => h
  | op :: rest, s, h, hops =>
    stinv_foldl rest (s.step op) (stinv_step h op (hops op List.mem_cons_self))
      (fun o ho => hops o (List.mem_cons_of_mem _ ho))

theorem stinv_run (ops : List SOp) (hops : ∀ op ∈ ops, op.valOk) :
    StInv (Store.run ops).props :=
  stinv_foldl ops {} (by intro k c hc; simp [aget] at hc) hops

/-! ## 4. (a) Zone-map soundness for every history — against the engine's filter semantics -/

theorem get_mem_vals {st : Storage} {n key : Nat} {x : V} (h : st.get n key = some x) :
    ∃ c, aget st key = some c ∧ x ∈ c.vals.map (·.2) := by
  unfold Storage.get at h
  cases hk : aget st key with
  | none => rw [hk] at h; cases h
  | some c =>
    rw [hk] at h
    exact ⟨c, rfl, List.mem_map.mpr ⟨(n, x), aget_mem _ _ _ h, rfl⟩⟩

/-- **(a) ZoneMapSoundFilter — full.** For every history of node / set / overwrite / remove /
delete-node / rebuild (any hash-map iteration order) / index operations, every key, every
comparison operator and every literal: if `might_match(key, op, v)` answers `false`, then no
value currently stored under `key` passes the generic filter `n.key <op> v` (`filter.rs`
semantics: ε-equality, Int/Float coercion, NaN unordered, `NULL <> v` true, no Bool order).
The only hypothesis is that values are machine values (i64 integers, 64-bit float patterns). -/
theorem c10_zone_map_sound_filter (ops : List SOp) (hops : ∀ o ∈ ops, o.valOk) (key : Nat)
    (op : Op) (v : V) (wv : WF v)
    (hf : (Store.run ops).props.mightMatch key op v = false) :
    ∀ n x, (Store.run ops).props.get n key = some x → fsat op x v = false := by
  intro n x hx
  obtain ⟨c, hc, hmem⟩ := get_mem_vals hx
  have hinv := stinv_run ops hops key c hc
  unfold Storage.mightMatch at hf
  rw [hc] at hf
  simp only [Col.mightMatch] at hf
  cases hd : c.dirty with
  | true => simp [hd] at hf
  | false =>
    cases hm : c.mixed with
    | true => simp [hd, hm] at hf
    | false =>
      simp only [hd, hm, Bool.or_self, Bool.false_eq_true, if_false] at hf
      unfold CInv at hinv
      rw [hm] at hinv
      exact matchOn_sound hinv wv op hf x hmem

theorem satRange_f_imp_z {x : V} {lo hi : Option V} {li ui : Bool}
    (h : satRange fsat x lo hi li ui = true) : satRange zsat x lo hi li ui = true := by
  unfold satRange at *
  simp only [Bool.and_eq_true] at h ⊢
  constructor
  · cases lo with
    | none => rfl
    | some l =>
      have h1 := h.1
      cases li <;> simp [boundOp, fsat, zsat] at h1 ⊢
      · exact fCmp_sub_cmp h1
      · rcases h1 with h1 | h1
        · exact Or.inl (fCmp_sub_cmp h1)
        · exact Or.inr (fCmp_sub_cmp h1)
  · cases hi with
    | none => rfl
    | some u =>
      have h2 := h.2
      cases ui <;> simp [boundOp, fsat, zsat] at h2 ⊢
      · exact fCmp_sub_cmp h2
      · rcases h2 with h2 | h2
        · exact Or.inl (fCmp_sub_cmp h2)
        · exact Or.inr (fCmp_sub_cmp h2)

/-- **(a), ranges — full.** Same for `might_match_range`. -/
theorem c10_zone_map_range_sound (ops : List SOp) (hops : ∀ o ∈ ops, o.valOk) (key : Nat)
    (lo hi : Option V) (li ui : Bool)
    (hlo : ∀ l, lo = some l → WF l) (hhi : ∀ u, hi = some u → WF u)
    (hf : (Store.run ops).props.mightRange key lo hi li ui = false) :
    ∀ n x, (Store.run ops).props.get n key = some x → satRange fsat x lo hi li ui = false := by
  intro n x hx
  obtain ⟨c, hc, hmem⟩ := get_mem_vals hx
  have hinv := stinv_run ops hops key c hc
  unfold Storage.mightRange at hf
  rw [hc] at hf
  simp only [Col.mightRange] at hf
  cases hd : c.dirty with
  | true => simp [hd] at hf
  | false =>
    cases hm : c.mixed with
    | true => simp [hd, hm] at hf
    | false =>
      simp only [hd, hm, Bool.or_self, Bool.false_eq_true, if_false] at hf
      unfold CInv at hinv
      rw [hm] at hinv
      have := range_sound hinv lo hi hlo hhi li ui hf x hmem
      cases hs : satRange fsat x lo hi li ui with
      | false => rfl
      | true => rw [satRange_f_imp_z hs] at this; cases this

/-- the current values of a reachable store are well-formed -/
theorem current_value_wf (ops : List SOp) (hops : ∀ o ∈ ops, o.valOk) {n key : Nat} {x : V}
    (hx : (Store.run ops).props.get n key = some x) : WF x := by
  obtain ⟨c, hc, hmem⟩ := get_mem_vals hx
  exact (stinv_run ops hops key c hc).wf x hmem

/-! ## 5. (b) The indexed lookup equals the scan -/

theorem aget_aerase {α : Type} (l : List (Nat × α)) (k k' : Nat) :
    aget (aerase l k) k' = if k = k' then none else aget l k' := by
  by_cases e : k = k'
  · subst e; simp [aget_aerase_self]
  · simp [e, aget_aerase_ne l k k' e]

theorem col_remove_get (c : Col) (n m : Nat) :
    aget (c.remove n).vals m = if n = m then none else aget c.vals m := by
  unfold Col.remove
  cases h : (aget c.vals n).isSome with
  | true => simp [aget_aerase]
  | false =>
    simp only [Bool.false_eq_true, if_false]
    by_cases e : n = m
    · subst e
      cases h2 : aget c.vals n with
      | none => simp
      | some x => simp [h2] at h
    · simp [e]

theorem get_set (st : Storage) (n key : Nat) (v : V) (m k : Nat) :
    (st.set n key v).get m k =
      if key = k then (if n = m then some v else st.get m key) else st.get m k := by
  unfold Storage.set Storage.get
  rw [aget_aset]
  by_cases e : key = k
  · subst e
    simp only [if_true, Col.set, aget_aset]
    by_cases e2 : n = m
    · simp [e2]
    · simp only [e2, if_false]
      cases aget st key <;> simp [aget]
  · simp [e]

theorem get_remove (st : Storage) (n key m k : Nat) :
    (st.remove n key).get m k = if key = k ∧ n = m then none else st.get m k := by
  unfold Storage.remove
  cases hk : aget st key with
  | none =>
    by_cases e : key = k ∧ n = m
    · obtain ⟨e1, e2⟩ := e; subst e1; subst e2
      simp [Storage.get, hk]
    · simp [e]
  | some c =>
    simp only [Storage.get, aget_aset]
    by_cases e : key = k
    · subst e
      simp only [if_true, col_remove_get, hk, true_and]
    · simp [e]

theorem get_removeAll (st : Storage) (n m k : Nat) :
    (st.removeAll n).get m k = if n = m then none else st.get m k := by
  unfold Storage.removeAll Storage.get
  have h2 : aget (st.map (fun p => (p.1, p.2.remove n))) k = (aget st k).map (fun c => c.remove n) :=
    aget_map (fun _ c => c.remove n) st k
  rw [h2]
  cases aget st k with
  | none => simp
  | some c => simp [col_remove_get]

theorem get_rebuild (st : Storage) (ords : List (Nat × List Nat)) (m k : Nat) :
    (st.rebuild ords).get m k = st.get m k := by
  unfold Storage.rebuild Storage.get
  have h2 : aget (st.map (fun p => (p.1, p.2.rebuild ((aget ords p.1).getD [])))) k
      = (aget st k).map (fun c => c.rebuild ((aget ords k).getD [])) :=
    aget_map (fun k c => c.rebuild ((aget ords k).getD [])) st k
  rw [h2]
  cases aget st k <;> simp [Col.rebuild]

theorem mem_relInsert (r : Rel) (v : V) (n : Nat) (p : V × Nat) :
    p ∈ relInsert r v n ↔ p = (v, n) ∨ p ∈ r := by
  unfold relInsert
  split
  · constructor
    · exact Or.inr
    · rintro (rfl | h) <;> assumption
  · simp

theorem mem_relRemove (r : Rel) (v : V) (n : Nat) (p : V × Nat) :
    p ∈ relRemove r v n ↔ p ∈ r ∧ p ≠ (v, n) := by
  unfold relRemove
  simp only [List.mem_filter, Bool.not_eq_true', Bool.and_eq_false_iff, beq_eq_false_iff_ne, ne_eq]
  constructor
  · rintro ⟨h1, h2⟩
    refine ⟨h1, ?_⟩
    intro e; subst e; simp at h2
  · rintro ⟨h1, h2⟩
    refine ⟨h1, ?_⟩
    apply Classical.byContradiction
    intro hc
    simp only [not_or, Classical.not_not] at hc
    exact h2 (Prod.ext hc.1 hc.2)

theorem mem_relLookup (r : Rel) (v : V) (m : Nat) : m ∈ relLookup r v ↔ (v, m) ∈ r := by
  unfold relLookup hvEq
  simp only [List.mem_map, List.mem_filter, decide_eq_true_eq]
  constructor
  · rintro ⟨p, ⟨hp, e⟩, rfl⟩
    have : p = (v, p.2) := Prod.ext e rfl
    rw [← this]; exact hp
  · intro h
    exact ⟨(v, m), ⟨h, rfl⟩, rfl⟩

/-- the index relation holds exactly the pairs (value, node) of the column, and properties
exist on live nodes only -/
structure IInv (s : Store) : Prop where
  onlyLive : ∀ n key x, s.props.get n key = some x → n ∈ s.live
  exact : ∀ key r, aget s.idx key = some r → ∀ v n, (v, n) ∈ r ↔ s.props.get n key = some v
  fresh : ∀ n ∈ s.live, n < s.next

/-- `set_node_property` before 9bbd0dc: the write happened whether or not the id was a live node
(kept for the regression theorems `c10_reg_*`) -/
def Old.setProp (s : Store) (n key : Nat) (v : V) : Store :=
  { s with idx := s.idxOnSet n key v, props := s.props.set n key v }

theorem setProp_eq (s : Store) (n key : Nat) (v : V) :
    s.setProp n key v = if n ∈ s.live then Old.setProp s n key v else s := rfl

theorem mem_dropOld_exact {r : Rel} {n : Nat} {old : Option V}
    (hr : ∀ w, (w, n) ∈ r ↔ old = some w) (w : V) (m : Nat) :
    (w, m) ∈ dropOld r n old ↔ (w, m) ∈ r ∧ m ≠ n := by
  cases old with
  | none =>
    simp only [dropOld]
    constructor
    · intro h
      refine ⟨h, ?_⟩
      intro e; subst e
      have := (hr w).mp h; cases this
    · exact fun h => h.1
  | some o =>
    simp only [dropOld, mem_relRemove]
    constructor
    · rintro ⟨h1, h2⟩
      refine ⟨h1, ?_⟩
      intro e; subst e
      have := (hr w).mp h1
      simp only [Option.some.injEq] at this
      subst this; exact h2 rfl
    · rintro ⟨h1, h2⟩
      refine ⟨h1, ?_⟩
      intro e
      exact h2 (Prod.mk.inj e).2

theorem iinv_set_live {s : Store} (h : IInv s) (n key : Nat) (v : V) (hl : n ∈ s.live) :
    IInv (Old.setProp s n key v) where
  onlyLive := by
    intro m k x hx
    simp only [Old.setProp, get_set] at hx
    by_cases e : key = k
    · by_cases e2 : n = m
      · subst e2; exact hl
      · simp only [e, e2, if_true, if_false] at hx
        exact h.onlyLive m k x (e ▸ hx)
    · simp only [e, if_false] at hx
      exact h.onlyLive m k x hx
  fresh := h.fresh
  exact := by
    intro k r hr w m
    simp only [Old.setProp, get_set]
    simp only [Old.setProp, Store.idxOnSet] at hr
    cases hk : aget s.idx key with
    | none =>
      rw [hk] at hr
      have hne : key ≠ k := by
        intro e; subst e; rw [hk] at hr; cases hr
      simp only [hne, if_false]
      exact h.exact k r hr w m
    | some r0 =>
      rw [hk] at hr
      simp only [aget_aset] at hr
      by_cases e : key = k
      · subst e
        simp only [if_true, Option.some.injEq] at hr
        subst hr
        rw [mem_relInsert, mem_dropOld_exact (fun w' => h.exact key r0 hk w' n)]
        by_cases e2 : n = m
        · subst e2
          simp only [if_true, ne_eq, not_true_eq_false, and_false, or_false, Option.some.injEq]
          constructor
          · intro e; exact (Prod.mk.inj e).1.symm
          · intro e; rw [e]
        · simp only [e2, if_false]
          rw [h.exact key r0 hk w m]
          constructor
          · rintro (e | ⟨h1, _⟩)
            · exact absurd (Prod.mk.inj e).2.symm e2
            · exact h1
          · intro h1; exact Or.inr ⟨h1, fun e => e2 e.symm⟩
      · simp only [e, if_false] at hr ⊢
        exact h.exact k r hr w m

/-- a write to an id that is not a live node is a no-op (9bbd0dc), so every write keeps the
invariant -/
theorem iinv_set {s : Store} (h : IInv s) (n key : Nat) (v : V) : IInv (s.setProp n key v) := by
  rw [setProp_eq]
  split
  · rename_i hl; exact iinv_set_live h n key v hl
  · exact h

theorem iinv_remove {s : Store} (h : IInv s) (n key : Nat) : IInv (s.removeProp n key) where
  onlyLive := by
    intro m k x hx
    simp only [Store.removeProp, get_remove] at hx
    split at hx
    · cases hx
    · exact h.onlyLive m k x hx
  fresh := h.fresh
  exact := by
    intro k r hr w m
    simp only [Store.removeProp, get_remove]
    simp only [Store.removeProp, idxOnRemove] at hr
    cases hk : aget s.idx key with
    | none =>
      rw [hk] at hr
      have hne : key ≠ k := by
        intro e; subst e; rw [hk] at hr; cases hr
      simp only [hne, false_and, if_false]
      exact h.exact k r hr w m
    | some r0 =>
      rw [hk] at hr
      simp only [aget_aset] at hr
      by_cases e : key = k
      · subst e
        simp only [if_true, Option.some.injEq] at hr
        subst hr
        rw [mem_dropOld_exact (fun w' => h.exact key r0 hk w' n), h.exact key r0 hk w m]
        by_cases e2 : n = m
        · subst e2; simp
        · simp only [e2, and_false, if_false]
          constructor
          · exact fun h1 => h1.1
          · exact fun h1 => ⟨h1, fun e => e2 e.symm⟩
      · simp only [e, if_false, false_and] at hr ⊢
        exact h.exact k r hr w m

theorem iinv_delete {s : Store} (h : IInv s) (n : Nat) : IInv (s.deleteNode n) := by
  unfold Store.deleteNode
  split
  · exact {
      onlyLive := by
        intro m k x hx
        simp only [get_removeAll] at hx
        by_cases e : n = m
        · simp [e] at hx
        · simp only [e, if_false] at hx
          have := h.onlyLive m k x hx
          simp only [List.mem_filter, bne_iff_ne, ne_eq]
          exact ⟨this, fun e' => e e'.symm⟩
      fresh := by
        intro m hm
        exact h.fresh m (List.mem_filter.mp hm).1
      exact := by
        intro k r hr w m
        simp only [get_removeAll]
        have h2 : aget (s.idx.map (fun p => (p.1, dropOld p.2 n (s.props.get n p.1)))) k
            = (aget s.idx k).map (fun r => dropOld r n (s.props.get n k)) :=
          aget_map (fun k r => dropOld r n (s.props.get n k)) s.idx k
        simp only at hr
        rw [h2] at hr
        cases hk : aget s.idx k with
        | none => rw [hk] at hr; cases hr
        | some r0 =>
          rw [hk] at hr
          simp only [Option.map_some, Option.some.injEq] at hr
          subst hr
          rw [mem_dropOld_exact (fun w' => h.exact k r0 hk w' n), h.exact k r0 hk w m]
          by_cases e : n = m
          · subst e; simp
          · simp only [e, if_false]
            constructor
            · exact fun h1 => h1.1
            · exact fun h1 => ⟨h1, fun e' => e e'.symm⟩ }
  · exact h

theorem iinv_createIndex {s : Store} (h : IInv s) (key : Nat) : IInv (s.createIndex key) := by
  unfold Store.createIndex
  split
  · exact h
  · exact {
      onlyLive := h.onlyLive
      fresh := h.fresh
      exact := by
        intro k r hr w m
        simp only [aget_aset] at hr
        by_cases e : key = k
        · subst e
          simp only [if_true, Option.some.injEq] at hr
          subst hr
          unfold Store.builtRel
          simp only [List.mem_filterMap, Option.map_eq_some_iff, Prod.mk.injEq]
          constructor
          · rintro ⟨a, _, x, hx, rfl, rfl⟩; exact hx
          · intro hx; exact ⟨m, h.onlyLive m key w hx, w, hx, rfl, rfl⟩
        · simp only [e, if_false] at hr
          exact h.exact k r hr w m }

theorem iinv_dropIndex {s : Store} (h : IInv s) (key : Nat) : IInv (s.dropIndex key) where
  onlyLive := h.onlyLive
  fresh := h.fresh
  exact := by
    intro k r hr w m
    simp only [Store.dropIndex, aget_aerase] at hr
    split at hr
    · cases hr
    · exact h.exact k r hr w m

theorem iinv_step {s : Store} (h : IInv s) (op : SOp) : IInv (s.step op) := by
  cases op with
  | node =>
    exact {
      onlyLive := fun n key x hx => List.mem_cons_of_mem _ (h.onlyLive n key x hx)
      exact := h.exact
      fresh := by
        intro n hn
        simp only [Store.step, Store.createNode, List.mem_cons] at hn ⊢
        rcases hn with rfl | hn
        · omega
        · have := h.fresh n hn; omega }
  | set n key v => exact iinv_set h n key v
  | remove n key => exact iinv_remove h n key
  | delnode n => exact iinv_delete h n
  | rebuild ords =>
    exact {
      onlyLive := by
        intro n key x hx
        simp only [Store.step, Store.rebuild, get_rebuild] at hx
        exact h.onlyLive n key x hx
      exact := by
        intro k r hr w m
        simp only [Store.step, Store.rebuild, get_rebuild] at hr ⊢
        exact h.exact k r hr w m
      fresh := h.fresh }
  | index key => exact iinv_createIndex h key
  | dropindex key => exact iinv_dropIndex h key

theorem iinv_foldl : ∀ (ops : List SOp) (s : Store), IInv s → IInv (ops.foldl Store.step s)
  | [], _, h => h
  | op :: rest, s, h => iinv_foldl rest (s.step op) (iinv_step h op)

theorem iinv_run (ops : List SOp) : IInv (Store.run ops) :=
  iinv_foldl ops {} ⟨by intro n k x hx; simp [Storage.get, aget] at hx,
    by intro k r hr; simp [aget] at hr, by intro n hn; simp at hn⟩

theorem mem_scanFind (s : Store) (key : Nat) (v : V) (n : Nat) :
    n ∈ s.scanFind key v ↔ n ∈ s.live ∧ ∃ x, s.props.get n key = some x ∧ valEq x v = true := by
  unfold Store.scanFind
  simp only [List.mem_filter]
  cases s.props.get n key <;> simp [holds]

/-- what the indexed lookup returns in a reachable store: the nodes whose current value is
identical to `v` (bitwise for floats) -/
theorem mem_find_indexed (ops : List SOp) (key : Nat) (v : V) (n : Nat)
    (hi : (Store.run ops).hasIndex key = true) :
    n ∈ (Store.run ops).find key v ↔ (Store.run ops).props.get n key = some v := by
  have hinv := iinv_run ops
  unfold Store.find
  unfold Store.hasIndex at hi
  cases hk : aget (Store.run ops).idx key with
  | none => simp [hk] at hi
  | some r =>
    simp only
    rw [mem_relLookup, hinv.exact key r hk v n]

/-- **(b) (partial).** For every history — with index creation
and drop at any points, overwrites, removes, node deletions, rebuilds — `find_nodes_by_property`
returns, as a set, exactly what the scan returns, provided the two equalities in play
(`HashableValue` = bit identity in the index, `Value ==` = IEEE `==` in the scan) agree on the
column for the looked-up value. They disagree only for NaN and ±0.0 (`valEq_iff_eq`). -/
theorem c10_index_eq_scan_partial (ops : List SOp) (key : Nat) (v : V)
    (hagree : ∀ n x, (Store.run ops).props.get n key = some x → (valEq x v = true ↔ x = v)) :
    ∀ n, n ∈ (Store.run ops).find key v ↔ n ∈ (Store.run ops).scanFind key v := by
  intro n
  have hinv := iinv_run ops
  rw [mem_scanFind]
  cases hi : (Store.run ops).hasIndex key with
  | false =>
    unfold Store.hasIndex at hi
    unfold Store.find
    cases hk : aget (Store.run ops).idx key with
    | some r => simp [hk] at hi
    | none => simp only; rw [mem_scanFind]
  | true =>
    rw [mem_find_indexed ops key v n hi]
    constructor
    · intro hx
      exact ⟨hinv.onlyLive n key v hx, v, hx, (hagree n v hx).mpr rfl⟩
    · rintro ⟨_, x, hx, he⟩
      rw [(hagree n x hx).mp he] at hx; exact hx

/-- creating or dropping the index never changes the answer (same hypotheses) -/
theorem c10_index_toggle_invariant (ops : List SOp) (key : Nat) (v : V)
    (hagree : ∀ n x, (Store.run ops).props.get n key = some x → (valEq x v = true ↔ x = v)) (n : Nat) :
    (n ∈ (Store.run (ops ++ [.index key])).find key v ↔ n ∈ (Store.run ops).find key v) ∧
    (n ∈ (Store.run (ops ++ [.dropindex key])).find key v ↔ n ∈ (Store.run ops).find key v) := by
  have e1 : ∀ op, Store.run (ops ++ [op]) = (Store.run ops).step op := by
    intro op; simp [Store.run, List.foldl_append]
  have g1 : ∀ op m k, (op = .index key ∨ op = .dropindex key) →
      ((Store.run ops).step op).props.get m k = (Store.run ops).props.get m k := by
    intro op m k hop
    rcases hop with rfl | rfl
    · simp only [Store.step, Store.createIndex]; split <;> rfl
    · rfl
  have l1 : ∀ op, (op = .index key ∨ op = .dropindex key) →
      ((Store.run ops).step op).live = (Store.run ops).live := by
    intro op hop
    rcases hop with rfl | rfl
    · simp only [Store.step, Store.createIndex]; split <;> rfl
    · rfl
  have main : ∀ op, (op = .index key ∨ op = .dropindex key) →
      (n ∈ (Store.run (ops ++ [op])).find key v ↔ n ∈ (Store.run ops).find key v) := by
    intro op hop
    rw [c10_index_eq_scan_partial (ops ++ [op]) key v
        (by intro m x hx; rw [e1, g1 op m key hop] at hx; exact hagree m x hx) n,
      c10_index_eq_scan_partial ops key v hagree n, mem_scanFind, mem_scanFind, e1, l1 op hop]
    simp only [g1 op n key hop]
  exact ⟨main _ (Or.inl rfl), main _ (Or.inr rfl)⟩

/-- where `Value ==` and bit identity differ: only on floats that are NaN or zero -/
theorem valEq_iff_eq (x v : V)
    (hv : ∀ b, v = .float b → b < 2 ^ 64 ∧ isNaN b = false ∧ mag b ≠ 0)
    (hx : ∀ b, x = .float b → b < 2 ^ 64) : valEq x v = true ↔ x = v := by
  cases x <;> cases v <;> simp [valEq]
  rename_i a b
  obtain ⟨hb, hn, hm⟩ := hv b rfl
  have ha := hx a rfl
  unfold feq
  constructor
  · intro h
    simp only [Bool.and_eq_true, Bool.not_eq_true', beq_iff_eq] at h
    obtain ⟨⟨_, _⟩, hk⟩ := h
    unfold key signBit mag at hk
    unfold mag at hm
    split at hk <;> split at hk <;> omega
  · intro e
    subst e
    simp [hn]

def f64_one : Nat := 0x3ff0000000000000
def f64_nan : Nat := 0x7ff8000000000000
def f64_negzero : Nat := 0x8000000000000000

/-! ### (b) at full strength, and why it is false (unchanged code: `find_nodes_by_property`) -/

def IndexEqScan : Prop :=
  ∀ (ops : List SOp) (key : Nat) (v : V) (n : Nat),
    n ∈ (Store.run ops).find key v ↔ n ∈ (Store.run ops).scanFind key v


/-- W: ±0.0. A node holds 0.0; looking up −0.0 finds it by scan (`0.0 == -0.0`) and misses it
through the index (different bits). -/
theorem c10_w_index_negzero :
    let ops := [SOp.node, .set 0 0 (.float 0)]
    (Store.run ops).find 0 (.float f64_negzero) = [0] ∧
    (Store.run (ops ++ [.index 0])).find 0 (.float f64_negzero) = [] := by decide

/-- W: NaN. A node holds NaN; the scan never finds it (`NaN != NaN`), the index does. -/
theorem c10_w_index_nan :
    let ops := [SOp.node, .set 0 0 (.float f64_nan)]
    (Store.run ops).find 0 (.float f64_nan) = [] ∧
    (Store.run (ops ++ [.index 0])).find 0 (.float f64_nan) = [0] := by decide

theorem c10_index_eq_scan_refuted : ¬ IndexEqScan := by
  intro h
  have := h [.node, .set 0 0 (.float f64_nan), .index 0] 0 (.float f64_nan) 0
  revert this; decide

/-- N: non-vacuity — overwrites, a remove, a node deletion and an index created in the middle;
the indexed answer is the scan answer. -/
theorem c10_nv_index :
    let ops := [SOp.node, .node, .node, .set 0 0 (.int 1), .set 1 0 (.int 1), .index 0,
      .set 1 0 (.int 2), .set 2 0 (.int 1), .remove 0 0, .set 1 0 (.int 1), .delnode 2]
    (Store.run ops).find 0 (.int 1) = [1] ∧ (Store.run ops).scanFind 0 (.int 1) = [1] ∧
    -- writes to a deleted node and to an id never created are no-ops
    (Store.run (ops ++ [.set 2 0 (.int 1), .set 9 0 (.int 1)])).find 0 (.int 1) = [1] := by
  decide

/-! ## 6. (c) The planner's path choice does not matter -/

/-! ### the lookup keys of the index path cover what the filter's `=` accepts -/

/-- a finite pattern of magnitude ≥ 1 is a multiple of 2^-52 (of 2^1022 in scaled units) -/
theorem scaledMag_dvd (x : Nat) (h : 2 ^ 1074 ≤ scaledMag x) : ∃ k, scaledMag x = 2 ^ 1022 * k := by
  have hfr : fracField x < 2 ^ 52 := by unfold fracField; omega
  unfold scaledMag at h ⊢
  by_cases e0 : expField x = 0
  · simp only [e0, if_true] at h
    have : (2:Nat) ^ 52 ≤ 2 ^ 1074 := Nat.pow_le_pow_right (by omega) (by omega)
    omega
  · simp only [e0, if_false] at h ⊢
    have he : 1022 ≤ expField x - 1 := by
      apply Classical.byContradiction
      intro hc
      have h1 : 2 ^ (expField x - 1) ≤ 2 ^ 1021 := Nat.pow_le_pow_right (by omega) (by omega)
      have h2 : (2 ^ 52 + fracField x) * 2 ^ (expField x - 1) < 2 ^ 53 * 2 ^ 1021 :=
        Nat.mul_lt_mul_of_lt_of_le (by omega) h1 (Nat.two_pow_pos _)
      have h3 : (2:Nat) ^ 53 * 2 ^ 1021 = 2 ^ 1074 := by
        have e : (53 + 1021 : Nat) = 1074 := by omega
        exact (Nat.pow_add 2 53 1021).symm.trans (congrArg (fun n => 2 ^ n) e)
      omega
    refine ⟨(2 ^ 52 + fracField x) * 2 ^ (expField x - 1 - 1022), ?_⟩
    have : 2 ^ (expField x - 1) = 2 ^ 1022 * 2 ^ (expField x - 1 - 1022) :=
      (congrArg (fun n => 2 ^ n) (by omega : expField x - 1 = 1022 + (expField x - 1 - 1022))).trans
        (Nat.pow_add 2 1022 _)
    rw [this, Nat.mul_left_comm]

/-- two finite doubles within the filter's tolerance, one of them of magnitude ≥ 2, have the
same value: the tolerance is below their spacing -/
theorem eps_identical (a b : Nat) (ha : 2 ^ 1075 ≤ scaledMag a) (h : epsClose a b = true) :
    scaled a = scaled b := by
  unfold epsClose at h
  simp only [Bool.and_eq_true, decide_eq_true_eq] at h
  obtain ⟨_, hd⟩ := h
  have p1 : (2:Nat) ^ 1074 ≤ 2 ^ 1075 := Nat.pow_le_pow_right (by omega) (by omega)
  have p2 : (2:Nat) ^ 1075 = 2 * 2 ^ 1074 := by
    have : (1075:Nat) = 1074 + 1 := rfl
    rw [this, Nat.pow_succ]; omega
  have p3 : (2:Nat) ^ 1022 ≤ 2 ^ 1074 := Nat.pow_le_pow_right (by omega) (by omega)
  obtain ⟨ka, hka⟩ := scaledMag_dvd a (by omega)
  by_cases hb : 2 ^ 1074 ≤ scaledMag b
  · obtain ⟨kb, hkb⟩ := scaledMag_dvd b hb
    unfold scaled at hd ⊢
    split at hd <;> split at hd <;> omega
  · unfold scaled at hd ⊢
    split at hd <;> split at hd <;> omega

theorem bits_decomp (a : Nat) (h : a < 2 ^ 64) : a = signBit a * 2 ^ 63 + mag a := by
  unfold signBit mag; omega

/-- distinct finite non-zero patterns have distinct values -/
theorem bits_eq_of_scaled_eq (a b : Nat) (ha : a < 2 ^ 64) (hb : b < 2 ^ 64)
    (fa : isFinite a = true) (fb : isFinite b = true) (hnz : scaledMag a ≠ 0)
    (h : scaled a = scaled b) : a = b := by
  have hm : scaledMag a = scaledMag b ∧ signBit a = signBit b := by
    unfold scaled at h
    rcases signBit_cases a with sa | sa <;> rcases signBit_cases b with sb | sb <;>
      simp [sa, sb] at h ⊢ <;> omega
  have : mag a = mag b := by
    rw [← roundMag_scaledMag a fa, ← roundMag_scaledMag b fb, hm.1]
  rw [bits_decomp a ha, bits_decomp b hb, this, hm.2]

theorem scaledMag_ge_of_mag (x : Nat) (h : 0x4000000000000000 ≤ mag x) : 2 ^ 1075 ≤ scaledMag x := by
  rw [mag_eq] at h
  have hfr : fracField x < 2 ^ 52 := by unfold fracField; omega
  have he : 1024 ≤ expField x := by omega
  unfold scaledMag
  have e0 : ¬ expField x = 0 := by omega
  simp only [e0, if_false]
  have h1 : 2 ^ 1023 ≤ 2 ^ (expField x - 1) := Nat.pow_le_pow_right (by omega) (by omega)
  have h2 : 2 ^ 52 * 2 ^ 1023 ≤ (2 ^ 52 + fracField x) * 2 ^ (expField x - 1) :=
    Nat.mul_le_mul (by omega) h1
  have h3 : (2:Nat) ^ 52 * 2 ^ 1023 = 2 ^ 1075 :=
    (Nat.pow_add 2 52 1023).symm.trans (congrArg (fun n => 2 ^ n) (by omega : (52 + 1023 : Nat) = 1075))
  omega

theorem isFinite_of_mag (x : Nat) (h : mag x < 0x7ff0000000000000) : isFinite x = true := by
  rw [mag_eq] at h
  unfold isFinite
  have : expField x ≠ 2047 := by omega
  simpa using this

theorem natToF64_two : natToF64 2 = 0x4000000000000000 := by decide
theorem natToF64_2p53 : natToF64 (2 ^ 53) = 0x4340000000000000 := by decide

theorem mag_i64 (n : Int) (hn : I64 n) : mag (i64ToF64 n) = natToF64 n.natAbs := by
  unfold I64 at hn
  unfold i64ToF64
  by_cases h : n ≥ 0
  · have hb := natToF64_bits n.toNat (by omega)
    simp only [h, if_true]
    have : n.toNat = n.natAbs := by omega
    rw [this] at hb ⊢
    unfold mag; omega
  · have hb := natToF64_bits (-n).toNat (by omega)
    simp only [h, if_false]
    have : (-n).toNat = n.natAbs := by omega
    rw [this] at hb ⊢
    unfold mag; omega

theorem i64_lt64 (n : Int) (hn : I64 n) : i64ToF64 n < 2 ^ 64 := by
  unfold I64 at hn
  unfold i64ToF64
  by_cases h : n ≥ 0
  · have hb := natToF64_bits n.toNat (by omega)
    simp only [h, if_true]; omega
  · have hb := natToF64_bits (-n).toNat (by omega)
    simp only [h, if_false]; omega

/-- fields of the pattern of a positive integer below 2^53 -/
theorem natToF64_fields (n : Nat) (h0 : n ≠ 0) (h : n < 2 ^ 53) :
    natToF64 n < 2 ^ 63 ∧ expField (natToF64 n) = bitLen n + 1022 ∧ bitLen n ≤ 53 ∧
      2 ^ 52 + fracField (natToF64 n) = n * 2 ^ (53 - bitLen n) := by
  obtain ⟨h1, h2, h3⟩ := bitLen_spec n h0
  have hl : bitLen n ≤ 53 := bitLen_le_of_lt n 53 h0 h
  obtain ⟨a1, a2, _⟩ := natToF64_shape n h0
  have hq : Qn n = n * 2 ^ (53 - bitLen n) := by unfold Qn; simp [hl]
  have hlt : n * 2 ^ (53 - bitLen n) < 2 ^ 53 := by
    have e : 2 ^ (bitLen n) * 2 ^ (53 - bitLen n) = 2 ^ 53 := by
      rw [← Nat.pow_add]; congr 1; omega
    have : n * 2 ^ (53 - bitLen n) < 2 ^ (bitLen n) * 2 ^ (53 - bitLen n) :=
      Nat.mul_lt_mul_of_pos_right h3 (Nat.two_pow_pos _)
    omega
  rw [hq] at a1 a2
  generalize n * 2 ^ (53 - bitLen n) = Q at *
  rw [a1]
  refine ⟨by omega, ?_, hl, ?_⟩
  · unfold expField; omega
  · unfold fracField; omega

/-- magnitude part of `floatToInt` on the pattern of a positive integer below 2^53 -/
theorem floatToInt_mag (n : Nat) (h0 : n ≠ 0) (h : n < 2 ^ 53) (e f : Nat)
    (he : e = bitLen n + 1022) (hl : bitLen n ≤ 53) (hf : 2 ^ 52 + f = n * 2 ^ (53 - bitLen n)) :
    (if e ≥ 1075 then some ((2 ^ 52 + f) * 2 ^ (e - 1075))
      else if (2 ^ 52 + f) % 2 ^ (1075 - e) = 0 then some ((2 ^ 52 + f) / 2 ^ (1075 - e)) else none)
      = some n := by
  by_cases h53 : bitLen n = 53
  · have : e ≥ 1075 := by omega
    simp only [this, if_true]
    have e1 : e - 1075 = 0 := by omega
    have e2 : 53 - bitLen n = 0 := by omega
    rw [hf, e1, e2]; simp
  · have : ¬ e ≥ 1075 := by omega
    have hsh : 1075 - e = 53 - bitLen n := by omega
    simp only [this, if_false, hsh, hf, Nat.mul_mod_left, if_true,
      Nat.mul_div_cancel _ (Nat.two_pow_pos _)]

theorem floatToInt_i64 (a : Int) (h0 : a ≠ 0) (h : -(2 ^ 53) < a ∧ a < 2 ^ 53) :
    floatToInt (i64ToF64 a) = some a := by
  have hn0 : a.natAbs ≠ 0 := by omega
  obtain ⟨f1, f2, f3, f4⟩ := natToF64_fields a.natAbs hn0 (by omega)
  unfold floatToInt i64ToF64
  by_cases hs : a ≥ 0
  · have e : a.toNat = a.natAbs := by omega
    simp only [hs, if_true, e]
    have sg : ¬ signBit (natToF64 a.natAbs) = 1 := by
      unfold signBit
      generalize natToF64 a.natAbs = B at *
      omega
    rw [floatToInt_mag a.natAbs hn0 (by omega) _ _ f2 f3 f4]
    simp only [Option.map_some, sg, if_false]
    simp; omega
  · have e : (-a).toNat = a.natAbs := by omega
    simp only [hs, if_false, e]
    have ex : expField (2 ^ 63 + natToF64 a.natAbs) = expField (natToF64 a.natAbs) := expField_neg _ f1
    have fr : fracField (2 ^ 63 + natToF64 a.natAbs) = fracField (natToF64 a.natAbs) := by
      unfold fracField
      generalize natToF64 a.natAbs = B at *
      omega
    have sg : signBit (2 ^ 63 + natToF64 a.natAbs) = 1 := by
      unfold signBit
      generalize natToF64 a.natAbs = B at *
      omega
    rw [ex, fr, floatToInt_mag a.natAbs hn0 (by omega) _ _ f2 f3 f4]
    simp only [Option.map_some, sg, if_true]
    simp; omega

theorem abs_lt_of_mag (a : Int) (ha : I64 a) (h : mag (i64ToF64 a) < 0x4340000000000000) :
    -(2 ^ 53) < a ∧ a < 2 ^ 53 := by
  rw [mag_i64 a ha] at h
  have : a.natAbs < 2 ^ 53 := by
    apply Classical.byContradiction
    intro hc
    have := natToF64_mono (2 ^ 53) a.natAbs (by omega)
    rw [natToF64_2p53] at this
    omega
  omega

theorem feq_def (a b : Nat) (h : feq a b = true) : isNaN a = false ∧ isNaN b = false ∧ key a = key b := by
  unfold feq at h
  simp only [Bool.and_eq_true, Bool.not_eq_true', beq_iff_eq] at h
  exact ⟨h.1.1, h.1.2, h.2⟩

/-- **The lookup keys cover the equality.** Whatever value the filter's `=` accepts for a literal
that `lookup_keys_for_equality` serves is bit-identical to one of the keys. -/
theorem keys_cover {x lit : V} (wx : WF x) (wl : WF lit) {ks : List V}
    (hk : lookupKeys lit = some ks) (h : fEq x lit = true) : x ∈ ks := by
  cases lit with
  | null => simp [lookupKeys] at hk
  | str s =>
    simp only [lookupKeys, Option.some.injEq] at hk; subst hk
    have := fEq_nonnumeric (v := .str s) rfl h; simp [this]
  | bool b =>
    simp only [lookupKeys, Option.some.injEq] at hk; subst hk
    have := fEq_nonnumeric (v := .bool b) rfl h; simp [this]
  | int n =>
    simp only [lookupKeys] at hk
    split at hk
    · rename_i hn
      simp only [Option.some.injEq] at hk; subst hk
      cases x with
      | int a => simp [fEq] at h; simp [h]
      | float y =>
        simp only [fEq] at h
        have hmag : 0x4000000000000000 ≤ mag (i64ToF64 n) := by
          rw [mag_i64 n wl]
          have := natToF64_mono 2 n.natAbs hn
          rw [natToF64_two] at this; exact this
        have hs := eps_identical _ _ (scaledMag_ge_of_mag _ hmag) h
        have hfy : isFinite y = true := by
          unfold epsClose at h; simp only [Bool.and_eq_true] at h; exact h.1.2
        have hnz : scaledMag (i64ToF64 n) ≠ 0 := by
          have := scaledMag_ge_of_mag _ hmag
          have : 0 < (2:Nat) ^ 1075 := Nat.two_pow_pos _
          omega
        have := bits_eq_of_scaled_eq _ _ (i64_lt64 n wl) wx (i64ToF64_key n wl).2.1 hfy hnz hs
        simp [this]
      | _ => simp [fEq] at h
    · cases hk
  | float f =>
    simp only [lookupKeys] at hk
    split at hk
    · rename_i hf
      have hff : isFinite f = true := isFinite_of_mag f (by omega)
      have hsf := scaledMag_ge_of_mag f hf.1
      have hnz : scaledMag f ≠ 0 := by
        have : 0 < (2:Nat) ^ 1075 := Nat.two_pow_pos _
        omega
      simp only [Option.some.injEq] at hk
      cases x with
      | float y =>
        simp only [fEq, Bool.or_eq_true] at h
        have hy : y = f := by
          rcases h with h | h
          · obtain ⟨_, _, hkk⟩ := feq_def _ _ h
            exact (bits_eq_of_scaled_eq f y wl wx hff (isFinite_of_key_eq hkk hff) hnz
              (scaled_eq_of_key_eq hkk.symm)).symm
          · have hfy : isFinite y = true := by
              unfold epsClose at h; simp only [Bool.and_eq_true] at h; exact h.1.1
            rw [epsClose_comm] at h
            exact (bits_eq_of_scaled_eq f y wl wx hff hfy hnz (eps_identical _ _ hsf h)).symm
        subst hy
        rw [← hk]; split <;> simp
      | int a =>
        simp only [fEq] at h
        rw [epsClose_comm] at h
        have hs := eps_identical _ _ hsf h
        have hfe := bits_eq_of_scaled_eq f (i64ToF64 a) wl (i64_lt64 a wx) hff (i64ToF64_key a wx).2.1 hnz hs
        have hab := abs_lt_of_mag a wx (by rw [← hfe]; exact hf.2)
        have ha0 : a ≠ 0 := by
          intro e; subst e
          have : mag (i64ToF64 0) = 0 := by decide
          rw [← hfe] at this; omega
        have := floatToInt_i64 a ha0 hab
        rw [← hfe] at this
        rw [← hk, this]; simp
      | _ => simp [fEq] at h
    · cases hk


theorem mem_genericPath (s : Store) (key : Nat) (op : Op) (lit : V) (n : Nat) :
    n ∈ s.genericPath key op lit ↔
      n ∈ s.live ∧ ∃ x, s.props.get n key = some x ∧ fsat op x lit = true := by
  unfold Store.genericPath
  simp only [List.mem_filter]
  cases s.props.get n key <;> simp [holds]

theorem mem_scanRange (s : Store) (key : Nat) (lo hi : Option V) (li ui : Bool) (n : Nat) :
    n ∈ s.scanRange key lo hi li ui ↔
      n ∈ s.live ∧ ∃ x, s.props.get n key = some x ∧ valueInRange x lo hi li ui = true := by
  unfold Store.scanRange
  simp only [List.mem_filter]
  cases s.props.get n key <;> simp [holds]

theorem cmpR_eq_cmp (x v : V) : cmpR x v = cmp x v := by cases x <;> cases v <;> rfl

theorem upperIn_false (o : Option Ordering) : upperIn false o = (o == some .lt) := by
  cases o with
  | none => rfl
  | some o => cases o <;> rfl
theorem upperIn_true (o : Option Ordering) : upperIn true o = (o == some .lt || o == some .eq) := by
  cases o with
  | none => rfl
  | some o => cases o <;> rfl
theorem lowerIn_false (o : Option Ordering) : lowerIn false o = (o == some .gt) := by
  cases o with
  | none => rfl
  | some o => cases o <;> rfl
theorem lowerIn_true (o : Option Ordering) : lowerIn true o = (o == some .gt || o == some .eq) := by
  cases o with
  | none => rfl
  | some o => cases o <;> rfl

/-- whatever the filter accepts for a range operator, the range lookup's own test accepts -/
theorem valueInRange_of_fsat {op : Op} {x lit : V} (hr : op.isRange = true) (h : fsat op x lit = true) :
    valueInRange x (rangeArgs op lit).1 (rangeArgs op lit).2.1 (rangeArgs op lit).2.2.1
      (rangeArgs op lit).2.2.2 = true := by
  cases op <;> simp [Op.isRange] at hr <;>
    simp [fsat] at h <;>
    simp [rangeArgs, valueInRange, lowerSat, upperSat, cmpR_eq_cmp, upperIn_false, upperIn_true,
      lowerIn_false, lowerIn_true]
  · exact fCmp_sub_cmp h
  · rcases h with h | h
    · exact Or.inl (fCmp_sub_cmp h)
    · exact Or.inr (fCmp_sub_cmp h)
  · exact fCmp_sub_cmp h
  · rcases h with h | h
    · exact Or.inl (fCmp_sub_cmp h)
    · exact Or.inr (fCmp_sub_cmp h)

theorem satRange_of_fsat {op : Op} {x lit : V} (hr : op.isRange = true) (h : fsat op x lit = true) :
    satRange fsat x (rangeArgs op lit).1 (rangeArgs op lit).2.1 (rangeArgs op lit).2.2.1
      (rangeArgs op lit).2.2.2 = true := by
  cases op <;> simp [Op.isRange] at hr <;> simp [rangeArgs, satRange, boundOp] <;> exact h

/-- when may the planner take a path -/
def applicable (s : Store) (key : Nat) (op : Op) (lit : V) : Path → Prop
  | .pruned => s.props.mightMatch key op lit = false
  | .index => op = .eq ∧ (lookupKeys lit).isSome = true ∧ s.hasIndex key = true
  | .range => op.isRange = true
  | .generic => True

theorem choosePath_applicable (s : Store) (key : Nat) (op : Op) (lit : V) :
    applicable s key op lit (s.choosePath key op lit) := by
  unfold Store.choosePath
  cases h1 : s.props.mightMatch key op lit with
  | false => simp [applicable, h1]
  | true =>
    simp only [Bool.not_true, Bool.false_eq_true, if_false]
    by_cases h2 : (decide (op = .eq) && (lookupKeys lit).isSome && s.hasIndex key) = true
    · simp only [h2, if_true]
      simp only [Bool.and_eq_true, decide_eq_true_eq] at h2
      exact ⟨h2.1.1, h2.1.2, h2.2⟩
    · simp only [h2, if_false]
      cases h3 : op.isRange with
      | true => simp [applicable, h3]
      | false => simp [applicable]

section Planner
variable (ops : List SOp) (hops : ∀ o ∈ ops, o.valOk) (key : Nat) (op : Op) (lit : V) (wl : WF lit)
include hops wl

/-- **(c)** For every history of well-formed values — index creation/drop, overwrites, removes,
node deletions, rebuilds (any iteration order), writes to ids that are not live nodes (no-ops
since 9bbd0dc) anywhere — every comparison operator and every literal: every path the planner
may take (zone-map prune, index lookup, range lookup, generic filter) yields, as a set, the
generic filter's answer. -/
theorem c10_planner_paths_agree (p : Path) (hp : applicable (Store.run ops) key op lit p) :
    ∀ n, n ∈ (Store.run ops).runPath key op lit p ↔ n ∈ (Store.run ops).genericPath key op lit := by
  intro n
  cases p with
  | generic => exact Iff.rfl
  | pruned =>
    simp only [Store.runPath, List.not_mem_nil, false_iff]
    rw [mem_genericPath]
    rintro ⟨_, x, hx, hf⟩
    have := c10_zone_map_sound_filter ops hops key op lit wl hp n x hx
    rw [this] at hf; cases hf
  | index =>
    obtain ⟨hop, hks, hi⟩ := hp
    subst hop
    obtain ⟨ks, hk⟩ : ∃ ks, lookupKeys lit = some ks := by
      cases h : lookupKeys lit with
      | none => simp [h] at hks
      | some ks => exact ⟨ks, rfl⟩
    simp only [Store.runPath, Store.indexPath, hk, Option.getD_some, List.mem_filter,
      List.mem_flatMap, Bool.and_eq_true, List.contains_iff_mem]
    rw [mem_genericPath]
    constructor
    · rintro ⟨_, hlv, hh⟩
      cases hg : (Store.run ops).props.get n key with
      | none => simp [hg, holds] at hh
      | some x => exact ⟨hlv, x, rfl, by simpa [hg, holds] using hh⟩
    · rintro ⟨hlv, x, hx, hf⟩
      have wx := current_value_wf ops hops hx
      have hmem : x ∈ ks := keys_cover wx wl hk (by simpa [fsat] using hf)
      refine ⟨⟨x, hmem, (mem_find_indexed ops key x n hi).mpr hx⟩, hlv, ?_⟩
      simp only [hx, holds]; exact hf
  | range =>
    simp only [applicable] at hp
    simp only [Store.runPath, Store.rangePath, List.mem_filter, Bool.and_eq_true,
      List.contains_iff_mem]
    rw [mem_genericPath]
    constructor
    · rintro ⟨_, hlv, hh⟩
      cases hg : (Store.run ops).props.get n key with
      | none => simp [hg, holds] at hh
      | some x => exact ⟨hlv, x, rfl, by simpa [hg, holds] using hh⟩
    · rintro ⟨hlv, x, hx, hf⟩
      refine ⟨?_, hlv, by simp only [hx, holds]; exact hf⟩
      unfold Store.findRange
      have hlo : ∀ l, (rangeArgs op lit).1 = some l → WF l := by
        intro l hl'; cases op <;> simp [rangeArgs] at hl' <;> (subst hl'; exact wl)
      have hhi : ∀ u, (rangeArgs op lit).2.1 = some u → WF u := by
        intro u hu'; cases op <;> simp [rangeArgs] at hu' <;> (subst hu'; exact wl)
      cases hm : (Store.run ops).props.mightRange key (rangeArgs op lit).1 (rangeArgs op lit).2.1
          (rangeArgs op lit).2.2.1 (rangeArgs op lit).2.2.2 with
      | true =>
        simp only [if_true]
        rw [mem_scanRange]
        exact ⟨hlv, x, hx, valueInRange_of_fsat hp hf⟩
      | false =>
        exfalso
        have := c10_zone_map_range_sound ops hops key _ _ _ _ hlo hhi hm n x hx
        rw [satRange_of_fsat hp hf] at this; cases this

/-- **(c) PlannerPathIndependent.** The planner's answer is the generic filter's answer: a
function of the live nodes and their current values only — not of the history, the zone-map
state, the hash-map iteration order or the set of indexes. -/
theorem c10_planner_path_independent :
    ∀ n, n ∈ (Store.run ops).planFilter key op lit ↔
      (n ∈ (Store.run ops).live ∧ ∃ x, (Store.run ops).props.get n key = some x ∧ fsat op x lit = true) := by
  intro n
  unfold Store.planFilter
  rw [c10_planner_paths_agree ops hops key op lit wl _ (choosePath_applicable _ key op lit) n,
    mem_genericPath]

end Planner

/-! ## 7. The statements of the property, and what is left of the old defects -/

/-- **(a)** pruning false ⇒ no current value satisfies the engine's filter semantics -/
def ZoneMapSoundFilter : Prop :=
  ∀ (ops : List SOp), (∀ o ∈ ops, o.valOk) → ∀ (key : Nat) (op : Op) (v : V), WF v →
    (Store.run ops).props.mightMatch key op v = false →
    ∀ n x, (Store.run ops).props.get n key = some x → fsat op x v = false

theorem c10_ZoneMapSoundFilter : ZoneMapSoundFilter :=
  fun ops hops key op v wv hf => c10_zone_map_sound_filter ops hops key op v wv hf

/-- **(c)** the planner's answer is the generic filter's, for every history -/
def PlannerPathIndependent : Prop :=
  ∀ (ops : List SOp), (∀ o ∈ ops, o.valOk) → ∀ (key : Nat) (op : Op) (lit : V), WF lit →
    ∀ n, n ∈ (Store.run ops).planFilter key op lit ↔ n ∈ (Store.run ops).genericPath key op lit

theorem c10_PlannerPathIndependent : PlannerPathIndependent := by
  intro ops hops key op lit wl n
  rw [c10_planner_path_independent ops hops key op lit wl n, mem_genericPath]

/-! ### regression: `set_node_property` before 9bbd0dc wrote to ids that are not live nodes -/

/-- histories under the old `set_node_property` -/
def Old.step (s : Store) : SOp → Store
  | .set n key v => Old.setProp s n key v
  | op => s.step op

def Old.run (ops : List SOp) : Store := ops.foldl Old.step {}

/-- R: index entry for an id that is not a live node. Old code: the indexed lookup returned id 5,
the scan did not. Repaired code: the write is a no-op, both are empty. -/
theorem c10_reg_index_nonlive :
    let ops := [SOp.index 0, .set 5 0 (.int 1)]
    ((Old.run ops).find 0 (.int 1) = [5] ∧ (Old.run ops).scanFind 0 (.int 1) = []) ∧
    ((Store.run ops).find 0 (.int 1) = [] ∧ (Store.run ops).scanFind 0 (.int 1) = []) := by decide

/-- R: the index misses a live node. Old code: a property written before the node existed was
inherited by the node later created with that id, an index built in between did not list it.
Repaired code: nothing was written. -/
theorem c10_reg_index_misses_live :
    let ops := [SOp.set 0 0 (.int 1), .index 0, .node]
    ((Old.run ops).find 0 (.int 1) = [] ∧ (Old.run ops).scanFind 0 (.int 1) = [0]) ∧
    ((Store.run ops).find 0 (.int 1) = [] ∧ (Store.run ops).scanFind 0 (.int 1) = []) := by decide

/-- R: the same through the planner's index path. -/
theorem c10_reg_plan_index_misses_live :
    let ops := [SOp.set 0 0 (.int 5), .index 0, .node]
    ((Old.run ops).choosePath 0 .eq (.int 5) = .index ∧
      (Old.run ops).planFilter 0 .eq (.int 5) = [] ∧ (Old.run ops).genericPath 0 .eq (.int 5) = [0]) ∧
    ((Store.run ops).planFilter 0 .eq (.int 5) = [] ∧ (Store.run ops).genericPath 0 .eq (.int 5) = []) := by
  decide +kernel

/-- **The iteration order of `rebuild_zone_map` never shows in an answer.** (It is random in the
implementation — the hash maps are seeded per instance — and does change the recorded min/max of
a column of mutually incomparable values; such a column is `mixed` and never pruned.) -/
theorem c10_rebuild_order_irrelevant (ops : List SOp) (hops : ∀ o ∈ ops, o.valOk)
    (key : Nat) (op : Op) (lit : V) (wl : WF lit) (o1 o2 : List (Nat × List Nat)) (n : Nat) :
    n ∈ (Store.run (ops ++ [.rebuild o1])).planFilter key op lit ↔
      n ∈ (Store.run (ops ++ [.rebuild o2])).planFilter key op lit := by
  have e : ∀ o, Store.run (ops ++ [SOp.rebuild o]) = (Store.run ops).rebuild o := by
    intro o; simp [Store.run, List.foldl_append, Store.step]
  have hv : ∀ o, ∀ x ∈ ops ++ [SOp.rebuild o], x.valOk := by
    intro o x hx
    rcases List.mem_append.mp hx with hx | hx
    · exact hops x hx
    · simp only [List.mem_cons, List.not_mem_nil, or_false] at hx; subst hx; trivial
  rw [c10_planner_path_independent _ (hv o1) key op lit wl n,
    c10_planner_path_independent _ (hv o2) key op lit wl n, e, e]
  simp only [Store.rebuild, get_rebuild]

/-- the zone map's order is still not transitive on all values (Int–Float–Int above 2^53); the
repaired code no longer relies on it: an integer next to a float makes the column `mixed` -/
theorem c10_order_not_transitive :
    le (.int (2 ^ 53 + 1)) (.float 0x4340000000000000) ∧ le (.float 0x4340000000000000) (.int (2 ^ 53)) ∧
      ¬ le (.int (2 ^ 53 + 1)) (.int (2 ^ 53)) := by
  unfold le; decide

def f64_inf : Nat := 0x7ff0000000000000
def f64_2p53 : Nat := 0x4340000000000000
def f64_0p3 : Nat := 0x3fd3333333333333
def f64_0p3next : Nat := 0x3fd3333333333334
def f64_half : Nat := 0x3fe0000000000000
def f64_1p5 : Nat := 0x3ff8000000000000

set_option exponentiation.threshold 1100 in
/-- N / regression: the scenarios that the pinned code before cc52572 pruned wrongly are no
longer pruned — stored NULL and `<>`; NaN next to a number and `<=`; the ε-neighbour literal;
`inf <> inf` (now false for the filter, so pruning it is right); integer next to float at 2^53 —
while a genuine prune still happens (`> 7` over {1, 5}; `= 0.5` over {0.3}). -/
theorem c10_nv_zone :
    (Store.run [.node, .node, .set 0 0 (.int 5), .set 1 0 .null]).props.mightMatch 0 .ne (.int 5) = true ∧
    (Store.run [.node, .node, .set 0 0 (.float f64_one), .set 1 0 (.float f64_nan)]).props.mightMatch 0 .le (.float 0) = true ∧
    (Store.run [.node, .set 0 0 (.float f64_0p3)]).props.mightMatch 0 .eq (.float f64_0p3next) = true ∧
    (Store.run [.node, .set 0 0 (.float f64_0p3)]).props.mightMatch 0 .eq (.float f64_half) = false ∧
    ((Store.run [.node, .set 0 0 (.float f64_inf)]).props.mightMatch 0 .ne (.float f64_inf) = false ∧
      fsat .ne (.float f64_inf) (.float f64_inf) = false) ∧
    (Store.run [.node, .node, .set 0 0 (.float f64_2p53), .set 1 0 (.int (2 ^ 53 + 1))]).props.mightMatch 0 .gt (.int (2 ^ 53)) = true ∧
    (Store.run [.node, .node, .set 0 0 (.str [0x61]), .set 1 0 (.int 1)]).props.mightMatch 0 .ne (.str [0x61]) = true ∧
    ((Store.run [.node, .node, .set 0 0 (.int 1), .set 1 0 (.int 5), .set 1 0 (.int 3)]).props.mightMatch 0 .gt (.int 7) = false ∧
      (Store.run [.node, .node, .set 0 0 (.int 1), .set 1 0 (.int 5), .set 1 0 (.int 3)]).props.mightMatch 0 .gt (.int 4) = true) := by
  decide +kernel

set_option exponentiation.threshold 1100 in
/-- N / regression for the planner: range path with Int/Float and Bool, index path with an
Int/Float literal, history independence of the ε case. -/
theorem c10_nv_planner :
    (Store.run [.node, .set 0 0 (.int 2)]).planFilter 0 .gt (.float f64_1p5) = [0] ∧
    (Store.run [.node, .set 0 0 (.bool false)]).planFilter 0 .lt (.bool true) = [] ∧
    (Store.run [.node, .set 0 0 (.int 2), .index 0]).choosePath 0 .eq (.float 0x4000000000000000) = .index ∧
    (Store.run [.node, .set 0 0 (.int 2), .index 0]).planFilter 0 .eq (.float 0x4000000000000000) = [0] ∧
    (Store.run [.node, .set 0 0 (.int 1), .index 0]).choosePath 0 .eq (.float f64_one) = .generic ∧
    (Store.run [.node, .set 0 0 (.int 1), .index 0]).planFilter 0 .eq (.float f64_one) = [0] ∧
    (Store.run [.node, .set 0 0 (.float f64_0p3)]).planFilter 0 .eq (.float f64_0p3next) = [0] ∧
    (Store.run [.node, .set 0 0 (.float f64_one), .set 0 0 (.float f64_0p3), .rebuild []]).planFilter 0 .eq (.float f64_0p3next) = [0] := by
  decide +kernel

end Grafeo.ZoneMap
