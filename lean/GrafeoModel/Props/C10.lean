import GrafeoModel.Model.ZoneMap

/-!
# C10 (storage half) — zone maps, property indexes and the planner's path choice

Everything is stated for **all** histories of `node / set / overwrite / remove / delete-node /
rebuild (any hash-map iteration order) / create-index / drop-index` (`ops : List SOp`, induction
over the list, no bound) and all values (`V`: Null, Bool, Int, Float as bit pattern, String).

Comparison semantics (all defined in `Model/ZoneMap.lean`, each tied to its source function):
`cmp` (zone map: `compare_values`, Int/Float through `as f64`), `zsat` (the exact semantics `cmp`
induces), `fsat` (generic filter: `values_equal` = |a−b| < ε, `compare_values` = three-way with
NaN ↦ 0, no Bool order, `NULL <> v` true), `valueInRange`/`rsat` (range path: no Int/Float),
`valEq` (`Value ==`, scan of `find_nodes_by_property`), `hvEq` (`HashableValue`, index key).

## What is proved

(a) zone-map soundness
* `stinv_run` (F): every column of every reachable store keeps `ZInv` — min/max bound every
  current value that compares with them, nulls are counted, `mixed` is off only if every non-null
  value compares with the minimum — for values of a class `P` on which the order is `Coherent`.
* `coherent_noFloat`, `coherent_exact` (F): the order is coherent on float-free values (whole
  i64 range) and on {|int| < 2^53, all floats, strings, bools, null}; `c10_order_not_transitive`
  (W): it is not on all values.
* `c10_zone_map_sound`, `c10_zone_map_range_sound` (P): `might_match = false` ⇒ no current value
  satisfies `op v` under `zsat` (except nulls under `<>`); same for `might_match_range`.
* `fsat_imp_zsat`, `good_tame`, `good_noFloat` (F) and `c10_zone_map_sound_filter_partial` (P):
  the same against the engine's filter semantics, under tameness (no NaN/inf, ints < 2^53 or no
  floats), no stored null for `<>`, no ε-neighbour for `=`.
* `ZoneMapSoundFilter`, `ZoneMapSoundOrder`: the full statements; refuted (`*_refuted`), one
  witness per cause: `c10_w_prune_null_ne`, `_nan_le`, `_eps_eq`, `_inf_ne`, `_rounding`.

(b) index path = scan
* `iinv_run` (F, for histories that write to live nodes): each index relation is exactly
  {(value, node) | node's current value}, properties exist on live nodes only.
* `c10_index_eq_scan_partial`, `c10_index_toggle_invariant` (P): indexed lookup = scan as sets,
  before/after creating or dropping the index, when `Value ==` and bit identity agree on the column
  (`valEq_iff_eq`: they differ only at NaN and ±0).
* `IndexEqScan` full statement refuted; witnesses `c10_w_index_negzero`, `_nan`, `_nonlive`,
  `_misses_live`.

(c) the planner's path choice
* `c10_planner_paths_agree_partial`, `c10_plan_eq_generic_partial` (P): every path the planner
  may take (prune / index / range / generic) returns the generic filter's node set — a function
  of live nodes and current values only — under `SemAgree` (pointwise agreement of the semantics
  in play); `c10_planner_int_str` (P): unconditional for integer/string columns and literals.
* `PlannerPathIndependent` full statement refuted; witnesses `c10_w_plan_range_int_float`,
  `_range_bool`, `_range_nan`, `_index_int_float`, `_pruned_null`, `_history_dependent`.
-/

set_option linter.unusedSimpArgs false
set_option linter.unusedVariables false

namespace Grafeo.ZoneMap
open Grafeo.F64

/-! ## 0. The zone map's order `cmp` -/

def le (a b : V) : Prop := cmp a b = some .lt ∨ cmp a b = some .eq

theorem cmpBytes_swap : ∀ a b : List Nat, cmpBytes b a = (cmpBytes a b).swap
  | [], [] => rfl
  | [], _ :: _ => rfl
  | _ :: _, [] => rfl
  | x :: xs, y :: ys => by
    unfold cmpBytes
    by_cases h1 : x < y
    · have h2 : ¬ y < x := by omega
      simp [h1, h2, Ordering.swap]
    · by_cases h2 : y < x
      · simp [h1, h2, Ordering.swap]
      · simp [h1, h2, cmpBytes_swap xs ys]

theorem cmpBytes_eq_iff : ∀ a b : List Nat, cmpBytes a b = .eq ↔ a = b
  | [], [] => by simp [cmpBytes]
  | [], _ :: _ => by simp [cmpBytes]
  | _ :: _, [] => by simp [cmpBytes]
  | x :: xs, y :: ys => by
    unfold cmpBytes
    by_cases h1 : x < y
    · simp [h1]; omega
    · by_cases h2 : y < x
      · simp [h1, h2]; omega
      · have : x = y := by omega
        simp [h1, h2, this, cmpBytes_eq_iff xs ys]

/-- `≤` on byte strings is transitive -/
theorem cmpBytes_le_trans : ∀ a b c : List Nat,
    cmpBytes a b ≠ .gt → cmpBytes b c ≠ .gt → cmpBytes a c ≠ .gt
  | [], _, [] => by simp [cmpBytes]
  | [], _, _ :: _ => by simp [cmpBytes]
  | _ :: _, [], _ => by simp [cmpBytes]
  | _ :: _, _ :: _, [] => by simp [cmpBytes]
  | x :: xs, y :: ys, z :: zs => by
    unfold cmpBytes
    intro h1 h2
    by_cases hxy : x < y
    · by_cases hyz : y < z
      · have : x < z := by omega
        simp [this]
      · by_cases hzy : z < y
        · simp [hyz, hzy] at h2
        · have : x < z := by omega
          simp [this]
    · by_cases hyx : y < x
      · simp [hxy, hyx] at h1
      · simp only [hxy, hyx, if_false] at h1
        have hxy' : x = y := by omega
        subst hxy'
        by_cases hyz : x < z
        · simp [hyz]
        · by_cases hzy : z < x
          · simp [hyz, hzy] at h2
          · simp only [hyz, hzy, if_false] at h2 ⊢
            exact cmpBytes_le_trans xs ys zs h1 h2

theorem partialCmp_swap (a b : Nat) : partialCmp b a = (partialCmp a b).map Ordering.swap := by
  unfold partialCmp
  cases ha : isNaN a <;> cases hb : isNaN b <;> simp
  exact Int.compare_swap _ _ |>.symm

theorem cmp_swap (a b : V) : cmp b a = (cmp a b).map Ordering.swap := by
  cases a <;> cases b <;> simp only [cmp, Option.map_none, Option.map_some]
  · exact congrArg some (Nat.compare_swap _ _).symm
  · exact congrArg some (Int.compare_swap _ _).symm
  · exact partialCmp_swap _ _
  · exact partialCmp_swap _ _
  · exact partialCmp_swap _ _
  · exact congrArg some (cmpBytes_swap _ _)

theorem partialCmp_isSome (a b : Nat) :
    (partialCmp a b).isSome = (!isNaN a && !isNaN b) := by
  unfold partialCmp
  cases isNaN a <;> cases isNaN b <;> simp

/-- a value that compares with anything compares equal to itself -/
theorem cmp_self_of_comparable {a b : V} (h : (cmp a b).isSome = true) : cmp a a = some .eq := by
  cases a with
  | null => cases b <;> simp [cmp] at h
  | bool x => simp [cmp]
  | int i => simp [cmp]
  | str s => simp [cmp, (cmpBytes_eq_iff s s).mpr rfl]
  | float x =>
    have hx : isNaN x = false := by
      cases b <;> simp [cmp, partialCmp_isSome] at h <;> exact h.1
    simp [cmp, partialCmp, hx]

theorem comparable_symm {a b : V} (h : (cmp a b).isSome = true) : (cmp b a).isSome = true := by
  rw [cmp_swap]; simpa using h

theorem le_comparable {a b : V} (h : le a b) : (cmp a b).isSome = true := by
  rcases h with h | h <;> simp [h]

theorem cmp_lt_swap {a b : V} (h : cmp a b = some .lt) : cmp b a = some .gt := by
  rw [cmp_swap, h]; rfl
theorem cmp_gt_swap {a b : V} (h : cmp a b = some .gt) : cmp b a = some .lt := by
  rw [cmp_swap, h]; rfl
theorem cmp_eq_swap {a b : V} (h : cmp a b = some .eq) : cmp b a = some .eq := by
  rw [cmp_swap, h]; rfl

theorem le_self_of_comparable {a b : V} (h : (cmp a b).isSome = true) : le a a :=
  Or.inr (cmp_self_of_comparable h)

/-- if `b` is not below `a` although they compare, `a ≤ b` -/
theorem le_of_not_gt {a b : V} (h : (cmp a b).isSome = true) (hg : cmp a b ≠ some .gt) : le a b := by
  cases hc : cmp a b with
  | none => simp [hc] at h
  | some o => cases o <;> simp [le, hc] at hg ⊢

/-- The order is coherent on the values satisfying `P`: `≤` is transitive there and so is
comparability. (Neither holds on all values of the type: `i64 as f64` rounds above 2^53, see
`c10_order_not_transitive`.) -/
structure Coherent (P : V → Prop) : Prop where
  trans : ∀ a b c, P a → P b → P c → le a b → le b c → le a c
  ctrans : ∀ a b c, P a → P b → P c →
    (cmp a b).isSome = true → (cmp b c).isSome = true → (cmp a c).isSome = true

theorem lt_of_lt_le {P : V → Prop} (hC : Coherent P) {a b c : V} (ha : P a) (hb : P b) (hc : P c)
    (h1 : cmp a b = some .lt) (h2 : le b c) : cmp a c = some .lt := by
  rcases hC.trans a b c ha hb hc (Or.inl h1) h2 with h | h
  · exact h
  · exfalso
    have h3 : le b a := hC.trans b c a hb hc ha h2 (Or.inr (cmp_eq_swap h))
    have h4 := cmp_lt_swap h1
    rcases h3 with h3 | h3 <;> simp [h3] at h4

theorem lt_of_le_lt {P : V → Prop} (hC : Coherent P) {a b c : V} (ha : P a) (hb : P b) (hc : P c)
    (h1 : le a b) (h2 : cmp b c = some .lt) : cmp a c = some .lt := by
  rcases hC.trans a b c ha hb hc h1 (Or.inl h2) with h | h
  · exact h
  · exfalso
    have h3 : le c b := hC.trans c a b hc ha hb (Or.inr (cmp_eq_swap h)) h1
    have h4 := cmp_lt_swap h2
    rcases h3 with h3 | h3 <;> simp [h3] at h4

/-! ## 1. What a zone map knows about a list of values -/

/-- `z`, `mixed` summarise (at least) the values `L`: every value of `L` that compares with the
recorded minimum is not below it (same for the maximum), nulls are counted, and while `mixed` is
off every non-null value compares with the minimum. -/
structure ZInv (P : V → Prop) (L : List V) (z : ZM) (mixed : Bool) : Prop where
  pall : ∀ x ∈ L, P x
  nulls : V.null ∈ L → 0 < z.nullCount
  count : z.nullCount ≤ z.rowCount
  nonnull : ∀ x ∈ L, x ≠ .null → z.nullCount < z.rowCount
  minB : ∀ x ∈ L, x ≠ .null → ∃ m, z.min = some m ∧ ((cmp x m).isSome = true → le m x)
  maxB : ∀ x ∈ L, x ≠ .null → ∃ M, z.max = some M ∧ ((cmp x M).isSome = true → le x M)
  mix : mixed = false → ∀ x ∈ L, x ≠ .null → ∀ m, z.min = some m →
    (cmp m m).isSome = true → (cmp x m).isSome = true
  pmin : ∀ m, z.min = some m → P m
  pmax : ∀ M, z.max = some M → P M

theorem zinv_empty (P : V → Prop) : ZInv P [] {} false where
  pall := by simp
  nulls := by simp
  count := Nat.le_refl _
  nonnull := by simp
  minB := by simp
  maxB := by simp
  mix := by simp
  pmin := by simp
  pmax := by simp

theorem zinv_mono {P : V → Prop} {L L' : List V} {z : ZM} {mixed : Bool}
    (h : ZInv P L z mixed) (hs : ∀ x ∈ L', x ∈ L) : ZInv P L' z mixed where
  pall x hx := h.pall x (hs x hx)
  nulls hx := h.nulls (hs _ hx)
  count := h.count
  nonnull x hx := h.nonnull x (hs x hx)
  minB x hx := h.minB x (hs x hx)
  maxB x hx := h.maxB x (hs x hx)
  mix hm x hx := h.mix hm x (hs x hx)
  pmin := h.pmin
  pmax := h.pmax

theorem newMin_lt {v cur : V} (h : cmp v cur = some .lt) : newMin v (some cur) = (some v, false) := by
  simp [newMin, h]
theorem newMin_eq {v cur : V} (h : cmp v cur = some .eq) : newMin v (some cur) = (some cur, false) := by
  simp [newMin, h]
theorem newMin_gt {v cur : V} (h : cmp v cur = some .gt) : newMin v (some cur) = (some cur, false) := by
  simp [newMin, h]
theorem newMin_none {v cur : V} (h : cmp v cur = none) : newMin v (some cur) = (some cur, true) := by
  simp [newMin, h]

theorem zmAdd_null (z : ZM) (mixed : Bool) :
    zmAdd (z, mixed) .null = ({ z with nullCount := z.nullCount + 1, rowCount := z.rowCount + 1 }, mixed) := by
  simp [zmAdd]

theorem zmAdd_nonnull (z : ZM) (mixed : Bool) {v : V} (hv : v ≠ .null) :
    zmAdd (z, mixed) v =
      ({ min := (newMin v z.min).1, max := newMax v z.max, nullCount := z.nullCount,
         rowCount := z.rowCount + 1 }, mixed || (newMin v z.min).2) := by
  simp [zmAdd, hv]

theorem zinv_add_null {P : V → Prop} {L : List V} {z : ZM} {mixed : Bool}
    (h : ZInv P L z mixed) (hv : P .null) :
    ZInv P (.null :: L) (zmAdd (z, mixed) .null).1 (zmAdd (z, mixed) .null).2 := by
  rw [zmAdd_null]
  exact {
    pall := by
      intro x hx
      rcases List.mem_cons.mp hx with rfl | hx
      · exact hv
      · exact h.pall x hx
    nulls := fun _ => Nat.succ_pos _
    count := Nat.succ_le_succ h.count
    nonnull := by
      intro x hx hn
      rcases List.mem_cons.mp hx with rfl | hx
      · exact absurd rfl hn
      · exact Nat.succ_lt_succ (h.nonnull x hx hn)
    minB := by
      intro x hx hn
      rcases List.mem_cons.mp hx with rfl | hx
      · exact absurd rfl hn
      · exact h.minB x hx hn
    maxB := by
      intro x hx hn
      rcases List.mem_cons.mp hx with rfl | hx
      · exact absurd rfl hn
      · exact h.maxB x hx hn
    mix := by
      intro hm x hx hn
      rcases List.mem_cons.mp hx with rfl | hx
      · exact absurd rfl hn
      · exact h.mix hm x hx hn
    pmin := h.pmin
    pmax := h.pmax }

/-- minimum side of one non-null insertion -/
theorem minB_add {P : V → Prop} (hC : Coherent P) {L : List V} {z : ZM} {mixed : Bool}
    (h : ZInv P L z mixed) {v : V} (hv : P v) (hvn : v ≠ .null) :
    ∀ x ∈ v :: L, x ≠ .null →
      ∃ m, (newMin v z.min).1 = some m ∧ ((cmp x m).isSome = true → le m x) := by
  intro x hx hn
  cases hmin : z.min with
  | none =>
    rcases List.mem_cons.mp hx with rfl | hx
    · exact ⟨x, rfl, le_self_of_comparable⟩
    · obtain ⟨m, hm, _⟩ := h.minB x hx hn
      rw [hmin] at hm; cases hm
  | some cur =>
    have hcur : P cur := h.pmin cur hmin
    cases hc : cmp v cur with
    | none =>
      rw [newMin_none hc]
      rcases List.mem_cons.mp hx with rfl | hx
      · exact ⟨cur, rfl, fun hh => by simp [hc] at hh⟩
      · obtain ⟨m, hm, hle⟩ := h.minB x hx hn
        rw [hmin] at hm; cases hm
        exact ⟨cur, rfl, hle⟩
    | some o =>
      cases o with
      | lt =>
        rw [newMin_lt hc]
        refine ⟨v, rfl, ?_⟩
        rcases List.mem_cons.mp hx with rfl | hx
        · exact le_self_of_comparable
        · intro hxv
          obtain ⟨m, hm, hle⟩ := h.minB x hx hn
          rw [hmin] at hm; cases hm
          have hxc : (cmp x cur).isSome = true :=
            hC.ctrans x v cur (h.pall x hx) hv hcur hxv (by simp [hc])
          exact hC.trans v cur x hv hcur (h.pall x hx) (Or.inl hc) (hle hxc)
      | eq =>
        rw [newMin_eq hc]
        rcases List.mem_cons.mp hx with rfl | hx
        · exact ⟨cur, rfl, fun _ => Or.inr (cmp_eq_swap hc)⟩
        · obtain ⟨m, hm, hle⟩ := h.minB x hx hn
          rw [hmin] at hm; cases hm
          exact ⟨cur, rfl, hle⟩
      | gt =>
        rw [newMin_gt hc]
        rcases List.mem_cons.mp hx with rfl | hx
        · exact ⟨cur, rfl, fun _ => Or.inl (cmp_gt_swap hc)⟩
        · obtain ⟨m, hm, hle⟩ := h.minB x hx hn
          rw [hmin] at hm; cases hm
          exact ⟨cur, rfl, hle⟩

/-- maximum side of one non-null insertion -/
theorem maxB_add {P : V → Prop} (hC : Coherent P) {L : List V} {z : ZM} {mixed : Bool}
    (h : ZInv P L z mixed) {v : V} (hv : P v) (hvn : v ≠ .null) :
    ∀ x ∈ v :: L, x ≠ .null →
      ∃ M, newMax v z.max = some M ∧ ((cmp x M).isSome = true → le x M) := by
  intro x hx hn
  cases hmax : z.max with
  | none =>
    rcases List.mem_cons.mp hx with rfl | hx
    · exact ⟨x, rfl, le_self_of_comparable⟩
    · obtain ⟨m, hm, _⟩ := h.maxB x hx hn
      rw [hmax] at hm; cases hm
  | some cur =>
    have hcur : P cur := h.pmax cur hmax
    by_cases hc : cmp v cur = some .gt
    · simp only [newMax, hc, if_true]
      refine ⟨v, rfl, ?_⟩
      rcases List.mem_cons.mp hx with rfl | hx
      · exact le_self_of_comparable
      · intro hxv
        obtain ⟨m, hm, hle⟩ := h.maxB x hx hn
        rw [hmax] at hm; cases hm
        have hxc : (cmp x cur).isSome = true :=
          hC.ctrans x v cur (h.pall x hx) hv hcur hxv (by simp [hc])
        exact hC.trans x cur v (h.pall x hx) hcur hv (hle hxc) (Or.inl (cmp_gt_swap hc))
    · simp only [newMax, hc, if_false]
      rcases List.mem_cons.mp hx with rfl | hx
      · exact ⟨cur, rfl, fun hh => le_of_not_gt hh hc⟩
      · obtain ⟨m, hm, hle⟩ := h.maxB x hx hn
        rw [hmax] at hm; cases hm
        exact ⟨cur, rfl, hle⟩

/-- the `mixed` flag after one non-null insertion -/
theorem mix_add {P : V → Prop} (hC : Coherent P) {L : List V} {z : ZM} {mixed : Bool}
    (h : ZInv P L z mixed) {v : V} (hv : P v) (hvn : v ≠ .null)
    (hm' : (mixed || (newMin v z.min).2) = false) :
    ∀ x ∈ v :: L, x ≠ .null → ∀ m, (newMin v z.min).1 = some m →
      (cmp m m).isSome = true → (cmp x m).isSome = true := by
  have hmixed : mixed = false := by cases mixed <;> simp at hm' ⊢
  have hflag : (newMin v z.min).2 = false := by
    cases hh : (newMin v z.min).2 <;> simp [hmixed, hh] at hm' ⊢
  intro x hx hn m hm hmm
  cases hmin : z.min with
  | none =>
    rw [hmin] at hm
    simp only [newMin, Option.some.injEq] at hm
    subst hm
    rcases List.mem_cons.mp hx with rfl | hx
    · exact hmm
    · obtain ⟨m', hm', _⟩ := h.minB x hx hn
      rw [hmin] at hm'; cases hm'
  | some cur =>
    rw [hmin] at hm hflag
    have hcur : P cur := h.pmin cur hmin
    cases hc : cmp v cur with
    | none => rw [newMin_none hc] at hflag; cases hflag
    | some o =>
      have hvc : (cmp v cur).isSome = true := by simp [hc]
      have hcc : (cmp cur cur).isSome = true := by
        have := cmp_self_of_comparable (comparable_symm hvc); simp [this]
      cases o with
      | lt =>
        rw [newMin_lt hc] at hm
        simp only [Option.some.injEq] at hm
        subst hm
        rcases List.mem_cons.mp hx with rfl | hx
        · exact hmm
        · have hxc := h.mix hmixed x hx hn cur hmin hcc
          exact hC.ctrans x cur v (h.pall x hx) hcur hv hxc (comparable_symm hvc)
      | eq =>
        rw [newMin_eq hc] at hm
        simp only [Option.some.injEq] at hm
        subst hm
        rcases List.mem_cons.mp hx with rfl | hx
        · exact hvc
        · exact h.mix hmixed x hx hn cur hmin hmm
      | gt =>
        rw [newMin_gt hc] at hm
        simp only [Option.some.injEq] at hm
        subst hm
        rcases List.mem_cons.mp hx with rfl | hx
        · exact hvc
        · exact h.mix hmixed x hx hn cur hmin hmm

theorem newMin_mem (v : V) (o : Option V) (m : V) (h : (newMin v o).1 = some m) :
    m = v ∨ o = some m := by
  cases o with
  | none => simp [newMin] at h; exact Or.inl h.symm
  | some cur =>
    cases hc : cmp v cur with
    | none => rw [newMin_none hc] at h; exact Or.inr h
    | some o =>
      cases o with
      | lt => rw [newMin_lt hc] at h; simp at h; exact Or.inl h.symm
      | eq => rw [newMin_eq hc] at h; exact Or.inr h
      | gt => rw [newMin_gt hc] at h; exact Or.inr h

theorem newMax_mem (v : V) (o : Option V) (m : V) (h : newMax v o = some m) :
    m = v ∨ o = some m := by
  cases o with
  | none => simp [newMax] at h; exact Or.inl h.symm
  | some cur =>
    by_cases hc : cmp v cur = some .gt
    · simp [newMax, hc] at h; exact Or.inl h.symm
    · simp [newMax, hc] at h; exact Or.inr (by rw [h])

/-- one insertion keeps the summary valid (this is `update_zone_map_on_insert`, and one turn of
the loop of `rebuild_zone_map`) -/
theorem zinv_add {P : V → Prop} (hC : Coherent P) {L : List V} {z : ZM} {mixed : Bool}
    (h : ZInv P L z mixed) {v : V} (hv : P v) :
    ZInv P (v :: L) (zmAdd (z, mixed) v).1 (zmAdd (z, mixed) v).2 := by
  by_cases hvn : v = .null
  · subst hvn; exact zinv_add_null h hv
  · rw [zmAdd_nonnull z mixed hvn]
    exact {
      pall := by
        intro x hx
        rcases List.mem_cons.mp hx with rfl | hx
        · exact hv
        · exact h.pall x hx
      nulls := by
        intro hx
        rcases List.mem_cons.mp hx with e | hx
        · exact absurd e.symm hvn
        · exact h.nulls hx
      count := Nat.le_succ_of_le h.count
      nonnull := fun _ _ _ => Nat.lt_succ_of_le h.count
      minB := minB_add hC h hv hvn
      maxB := maxB_add hC h hv hvn
      mix := mix_add hC h hv hvn
      pmin := by
        intro m hm
        rcases newMin_mem v z.min m hm with rfl | hm
        · exact hv
        · exact h.pmin m hm
      pmax := by
        intro m hm
        rcases newMax_mem v z.max m hm with rfl | hm
        · exact hv
        · exact h.pmax m hm }

/-- folding a list of values into a summary (`rebuild_zone_map`) -/
theorem zinv_foldl {P : V → Prop} (hC : Coherent P) :
    ∀ (vs : List V) (L : List V) (s : ZM × Bool), ZInv P L s.1 s.2 → (∀ v ∈ vs, P v) →
      ZInv P (vs.reverse ++ L) (vs.foldl zmAdd s).1 (vs.foldl zmAdd s).2
  | [], L, s, h, _ => by simpa using h
  | v :: vs, L, s, h, hp => by
    have h1 : ZInv P (v :: L) (zmAdd s v).1 (zmAdd s v).2 :=
      zinv_add hC (z := s.1) (mixed := s.2) h (hp v (List.mem_cons_self))
    have h2 := zinv_foldl hC vs (v :: L) (zmAdd s v) h1
      (fun x hx => hp x (List.mem_cons_of_mem _ hx))
    simpa [List.foldl_cons, List.reverse_cons, List.append_assoc] using h2

/-! ## 2. A `false` verdict of the zone map is right about every summarised value -/

theorem cmp_null_left (v : V) : cmp .null v = none := by cases v <;> rfl
theorem cmp_null_right (v : V) : cmp v .null = none := by cases v <;> rfl

theorem nonnull_of_cmp {x v : V} {o : Ordering} (h : cmp x v = some o) : x ≠ .null := by
  intro e; subst e; rw [cmp_null_left] at h; cases h

section Sound
variable {P : V → Prop} (hC : Coherent P) {L : List V} {z : ZM} {mixed : Bool}
  (h : ZInv P L z mixed) {v : V} (hv : P v)
include hC h hv

/-- `might_contain_less_than(v, incl) = false` ⇒ no value is `< v` (resp. `≤ v`) -/
theorem less_sound {incl : Bool} (hf : z.mightLess v incl = false) :
    ∀ x ∈ L, cmp x v ≠ some .lt ∧ (incl = true → cmp x v ≠ some .eq) := by
  intro x hx
  unfold ZM.mightLess at hf
  have key : ∀ o, cmp x v = some o → (o = .lt ∨ (incl = true ∧ o = .eq)) → False := by
    intro o hxo ho
    have hn := nonnull_of_cmp hxo
    obtain ⟨m, hm, hle⟩ := h.minB x hx hn
    rw [hm] at hf
    simp only [lessOn] at hf
    have hpm := h.pmin m hm
    have hpx := h.pall x hx
    cases hmv : cmp m v with
    | none => rw [hmv] at hf; simp [lessVerdict] at hf
    | some o' =>
      have hxm : (cmp x m).isSome = true :=
        hC.ctrans x v m hpx hv hpm (by simp [hxo]) (comparable_symm (by simp [hmv]))
      have hmx := hle hxm
      rw [hmv] at hf
      rcases ho with rfl | ⟨hi, rfl⟩
      · have := lt_of_le_lt hC hpm hpx hv hmx hxo
        rw [this] at hmv; cases hmv; simp [lessVerdict] at hf
      · subst hi
        rcases hC.trans m x v hpm hpx hv hmx (Or.inr hxo) with h' | h' <;>
          (rw [h'] at hmv; cases hmv; simp [lessVerdict] at hf)
  exact ⟨fun e => key _ e (Or.inl rfl), fun hi e => key _ e (Or.inr ⟨hi, rfl⟩)⟩

/-- `might_contain_greater_than(v, incl) = false` ⇒ no value is `> v` (resp. `≥ v`) -/
theorem greater_sound {incl : Bool} (hf : z.mightGreater v incl = false) :
    ∀ x ∈ L, cmp x v ≠ some .gt ∧ (incl = true → cmp x v ≠ some .eq) := by
  intro x hx
  unfold ZM.mightGreater at hf
  have key : ∀ o, cmp x v = some o → (o = .gt ∨ (incl = true ∧ o = .eq)) → False := by
    intro o hxo ho
    have hn := nonnull_of_cmp hxo
    obtain ⟨m, hm, hle⟩ := h.maxB x hx hn
    rw [hm] at hf
    simp only [greaterOn] at hf
    have hpm := h.pmax m hm
    have hpx := h.pall x hx
    cases hmv : cmp m v with
    | none => rw [hmv] at hf; simp [greaterVerdict] at hf
    | some o' =>
      have hxm : (cmp x m).isSome = true :=
        hC.ctrans x v m hpx hv hpm (by simp [hxo]) (comparable_symm (by simp [hmv]))
      have hxm' := hle hxm
      rw [hmv] at hf
      rcases ho with rfl | ⟨hi, rfl⟩
      · -- v < x ≤ m, so v < m
        have := lt_of_lt_le hC hv hpx hpm (cmp_gt_swap hxo) hxm'
        have := cmp_lt_swap this
        rw [this] at hmv; cases hmv; simp [greaterVerdict] at hf
      · subst hi
        rcases hC.trans v x m hv hpx hpm (Or.inr (cmp_eq_swap hxo)) hxm' with h' | h'
        · have := cmp_lt_swap h'
          rw [this] at hmv; cases hmv; simp [greaterVerdict] at hf
        · have := cmp_eq_swap h'
          rw [this] at hmv; cases hmv; simp [greaterVerdict] at hf
  exact ⟨fun e => key _ e (Or.inl rfl), fun hi e => key _ e (Or.inr ⟨hi, rfl⟩)⟩

/-- `might_contain_equal(v) = false` ⇒ no value equals `v` -/
theorem equal_sound (hf : z.mightEqual v = false) : ∀ x ∈ L, zEq x v = false := by
  intro x hx
  unfold ZM.mightEqual at hf
  by_cases hvn : v = .null
  · subst hvn
    simp only [if_true, decide_eq_false_iff_not, Nat.not_lt, Nat.le_zero] at hf
    have hxn : x ≠ .null := by
      intro e; subst e
      have := h.nulls hx
      omega
    simp [zEq, cmp_null_right, hxn]
  · simp only [hvn, if_false] at hf
    by_cases hxn : x = .null
    · subst hxn; simp [zEq, cmp_null_left, hvn]
    · have hz : zEq x v = (cmp x v == some .eq) := by simp [zEq, hxn]
      rw [hz]
      have hnc := h.nonnull x hx hxn
      have hall : z.isAllNull = false := by
        unfold ZM.isAllNull
        have : (z.nullCount == z.rowCount) = false := by simp; omega
        simp [this]
      simp only [hall, if_false, Bool.false_eq_true] at hf
      obtain ⟨mn, hmn, hle1⟩ := h.minB x hx hxn
      obtain ⟨mx, hmx, hle2⟩ := h.maxB x hx hxn
      rw [hmn, hmx] at hf
      simp only [eqBounds] at hf
      cases hxv : cmp x v with
      | none => simp
      | some o =>
        cases o with
        | lt => simp
        | gt => simp
        | eq =>
          exfalso
          have hpx := h.pall x hx
          have hpmn := h.pmin mn hmn
          have hpmx := h.pmax mx hmx
          have hxv' : (cmp x v).isSome = true := by simp [hxv]
          by_cases h1 : cmp v mn = some .lt
          · have hxm : (cmp x mn).isSome = true := hC.ctrans x v mn hpx hv hpmn hxv' (by simp [h1])
            have := hC.trans mn x v hpmn hpx hv (hle1 hxm) (Or.inr hxv)
            have h1' := cmp_lt_swap h1
            rcases this with t | t <;> simp [t] at h1'
          · have h2 : cmp v mx = some .gt := by
              cases hh : cmp v mx with
              | none => simp [h1, hh] at hf
              | some o => cases o <;> simp [h1, hh] at hf ⊢
            have hxm : (cmp x mx).isSome = true := hC.ctrans x v mx hpx hv hpmx hxv' (by simp [h2])
            have := hC.trans v x mx hv hpx hpmx (Or.inr (cmp_eq_swap hxv)) (hle2 hxm)
            rcases this with t | t <;> simp [t] at h2

/-- `<>`: the verdict `false` (not mixed, min = max = v) ⇒ every non-null value equals `v` -/
theorem ne_sound (hmix : mixed = false) (hf : neVerdict v z.min z.max = false) :
    ∀ x ∈ L, x ≠ .null → zEq x v = true := by
  intro x hx hxn
  cases hmn : z.min with
  | none => simp [neVerdict, hmn] at hf
  | some mn =>
    cases hmx : z.max with
    | none => simp [neVerdict, hmn, hmx] at hf
    | some mx =>
      simp only [neVerdict, hmn, hmx, Bool.not_eq_false', Bool.and_eq_true, beq_iff_eq] at hf
      obtain ⟨h1, h2⟩ := hf
      have hpx := h.pall x hx
      have hpmn := h.pmin mn hmn
      have hpmx := h.pmax mx hmx
      have hmm : (cmp mn mn).isSome = true := by
        have := cmp_self_of_comparable (a := mn) (b := v) (by simp [h1]); simp [this]
      have hxmn : (cmp x mn).isSome = true := h.mix hmix x hx hxn mn hmn hmm
      have hxv : (cmp x v).isSome = true := hC.ctrans x mn v hpx hpmn hv hxmn (by simp [h1])
      have hxmx : (cmp x mx).isSome = true :=
        hC.ctrans x v mx hpx hv hpmx hxv (comparable_symm (by simp [h2]))
      obtain ⟨_, e1, hle1⟩ := h.minB x hx hxn
      obtain ⟨_, e2, hle2⟩ := h.maxB x hx hxn
      rw [hmn] at e1; cases e1
      rw [hmx] at e2; cases e2
      have hvx : le v x := hC.trans v mn x hv hpmn hpx (Or.inr (cmp_eq_swap h1)) (hle1 hxmn)
      have hxv2 : le x v := hC.trans x mx v hpx hpmx hv (hle2 hxmx) (Or.inr h2)
      have : cmp x v = some .eq := by
        rcases hxv2 with t | t
        · have := cmp_lt_swap t
          rcases hvx with u | u <;> simp [u] at this
        · exact t
      simp [zEq, this]

end Sound

/-- **Zone-map soundness at the level of one summary**: if the verdict for `op v` is `false`,
no summarised value satisfies `op v` under the exact order semantics — except that `<>` says
nothing about nulls (for the filter `NULL <> v` is true; the zone map forgets the nulls). -/
theorem matchOn_sound {P : V → Prop} (hC : Coherent P) {L : List V} {z : ZM} {mixed : Bool}
    (h : ZInv P L z mixed) {v : V} (hv : P v) (op : Op) (hf : matchOn z mixed v op = false) :
    ∀ x ∈ L, (op = .ne → x ≠ .null) → zsat op x v = false := by
  intro x hx hne
  cases op with
  | eq => exact equal_sound hC h hv hf x hx
  | ne =>
    simp only [matchOn] at hf
    cases hm : mixed with
    | true => simp [hm] at hf
    | false =>
      simp only [hm, Bool.false_eq_true, if_false] at hf
      simp [zsat, ne_sound hC h hv hm hf x hx (hne rfl)]
  | lt =>
    have := less_sound hC h hv (incl := false) hf x hx
    simp [zsat, this.1]
  | le =>
    have := less_sound hC h hv (incl := true) hf x hx
    simp [zsat, this.1, this.2 rfl]
  | gt =>
    have := greater_sound hC h hv (incl := false) hf x hx
    simp [zsat, this.1]
  | ge =>
    have := greater_sound hC h hv (incl := true) hf x hx
    simp [zsat, this.1, this.2 rfl]

/-- the same for `might_contain_range` (which `PropertyStorage::might_match_range` consults
without looking at the `dirty` flag) -/
theorem range_sound {P : V → Prop} (hC : Coherent P) {L : List V} {z : ZM} {mixed : Bool}
    (h : ZInv P L z mixed) (lo hi : Option V) (hlo : ∀ l, lo = some l → P l)
    (hhi : ∀ u, hi = some u → P u) (li ui : Bool)
    (hf : z.mightRange lo hi li ui = false) :
    ∀ x ∈ L, satRange zsat x lo hi li ui = false := by
  intro x hx
  unfold ZM.mightRange at hf
  cases hl : lowerOk z li lo with
  | false =>
    cases lo with
    | none => simp [lowerOk] at hl
    | some l =>
      simp only [lowerOk] at hl
      have := greater_sound hC h (hlo l rfl) hl x hx
      cases li <;> simp [satRange, boundOp, zsat, this.1] <;> intro h1 <;> simp [this.2] at h1
  | true =>
    rw [hl] at hf
    simp only [Bool.true_and] at hf
    cases hi with
    | none => simp [upperOk] at hf
    | some u =>
      simp only [upperOk] at hf
      have := less_sound hC h (hhi u rfl) hf x hx
      cases ui <;> simp [satRange, boundOp, zsat, this.1] <;> intro _ h1 <;> simp [this.2] at h1

/-! ## 3. Every reachable column, storage and store keeps the summary valid -/

theorem aget_mem {α : Type} : ∀ (l : List (Nat × α)) (k : Nat) (a : α), aget l k = some a → (k, a) ∈ l
  | [], _, _, h => by simp [aget] at h
  | (k', a') :: rest, k, a, h => by
    unfold aget at h
    by_cases e : k' = k
    · simp [e] at h; subst e; subst h; exact List.mem_cons_self
    · simp [e] at h; exact List.mem_cons_of_mem _ (aget_mem rest k a h)

theorem aget_aerase_self {α : Type} : ∀ (l : List (Nat × α)) (k : Nat), aget (aerase l k) k = none
  | [], _ => rfl
  | (k', a') :: rest, k => by
    unfold aerase
    by_cases e : k' = k
    · simp [List.filter_cons, e]; exact aget_aerase_self rest k
    · simp [List.filter_cons, e, aget]; exact aget_aerase_self rest k

theorem aget_aerase_ne {α : Type} : ∀ (l : List (Nat × α)) (k k' : Nat), k ≠ k' →
    aget (aerase l k) k' = aget l k'
  | [], _, _, _ => rfl
  | (k0, a0) :: rest, k, k', hne => by
    unfold aerase
    by_cases e : k0 = k
    · simp [e, aget, hne]
      exact aget_aerase_ne rest k k' hne
    · simp [List.filter_cons, e, aget]
      by_cases e' : k0 = k'
      · simp [e']
      · simp [e']; exact aget_aerase_ne rest k k' hne

theorem aget_aset {α : Type} (l : List (Nat × α)) (k k' : Nat) (a : α) :
    aget (aset l k a) k' = if k = k' then some a else aget l k' := by
  unfold aset
  by_cases e : k = k'
  · simp [aget, e]
  · simp [aget, e, aget_aerase_ne l k k' e]

theorem aget_map {α : Type} (f : Nat → α → α) : ∀ (l : List (Nat × α)) (k : Nat),
    aget (l.map (fun p => (p.1, f p.1 p.2))) k = (aget l k).map (f k)
  | [], _ => rfl
  | (k0, a0) :: rest, k => by
    simp only [List.map_cons, aget]
    by_cases e : k0 = k
    · simp [e]
    · simp [e]; exact aget_map f rest k

theorem mem_aerase {α : Type} (l : List (Nat × α)) (k : Nat) (p : Nat × α) (h : p ∈ aerase l k) : p ∈ l :=
  (List.mem_filter.mp h).1

theorem mem_orderedVals (vals : List (Nat × V)) (ord : List Nat) (x : V) :
    x ∈ orderedVals vals ord ↔ x ∈ vals.map (·.2) := by
  unfold orderedVals
  simp only [List.mem_append, List.mem_flatMap, List.mem_map, List.mem_filter]
  constructor
  · rintro (⟨id, _, p, ⟨hp, _⟩, rfl⟩ | ⟨p, ⟨hp, _⟩, rfl⟩) <;> exact ⟨p, hp, rfl⟩
  · rintro ⟨p, hp, rfl⟩
    by_cases hc : ord.contains p.1 = true
    · left; exact ⟨p.1, by simpa using hc, p, ⟨hp, by simp⟩, rfl⟩
    · right; exact ⟨p, ⟨hp, by simpa using hc⟩, rfl⟩

/-- the column's zone map and `mixed` flag summarise its current values -/
def CInv (P : V → Prop) (c : Col) : Prop := ZInv P (c.vals.map (·.2)) c.zm c.mixed

theorem cinv_empty (P : V → Prop) : CInv P {} := zinv_empty P

theorem cinv_set {P : V → Prop} (hC : Coherent P) {c : Col} (h : CInv P c) (id : Nat) {v : V}
    (hv : P v) : CInv P (c.set id v) := by
  unfold CInv Col.set
  refine zinv_mono (zinv_add hC h hv) ?_
  intro x hx
  simp only [aset, List.map_cons, List.mem_cons] at hx
  rcases hx with rfl | hx
  · exact List.mem_cons_self
  · obtain ⟨p, hp, rfl⟩ := List.mem_map.mp hx
    exact List.mem_cons_of_mem _ (List.mem_map.mpr ⟨p, mem_aerase _ _ _ hp, rfl⟩)

theorem cinv_remove {P : V → Prop} {c : Col} (h : CInv P c) (id : Nat) : CInv P (c.remove id) := by
  unfold Col.remove
  split
  · unfold CInv
    refine zinv_mono h ?_
    intro x hx
    obtain ⟨p, hp, rfl⟩ := List.mem_map.mp hx
    exact List.mem_map.mpr ⟨p, mem_aerase _ _ _ hp, rfl⟩
  · exact h

theorem cinv_rebuild {P : V → Prop} (hC : Coherent P) {c : Col} (h : CInv P c) (ord : List Nat) :
    CInv P (c.rebuild ord) := by
  unfold CInv Col.rebuild
  have hp : ∀ v ∈ orderedVals c.vals ord, P v := fun v hv =>
    h.pall v ((mem_orderedVals _ _ _).mp hv)
  have := zinv_foldl hC (orderedVals c.vals ord) [] ({}, false) (zinv_empty P) hp
  refine zinv_mono this ?_
  intro x hx
  simp only [List.append_nil, List.mem_reverse]
  exact (mem_orderedVals _ _ _).mpr hx

/-- every column of the storage is summarised correctly -/
def StInv (P : V → Prop) (st : Storage) : Prop := ∀ key c, aget st key = some c → CInv P c

theorem stinv_set {P : V → Prop} (hC : Coherent P) {st : Storage} (h : StInv P st) (id key : Nat)
    {v : V} (hv : P v) : StInv P (st.set id key v) := by
  intro k c hc
  unfold Storage.set at hc
  rw [aget_aset] at hc
  by_cases e : key = k
  · subst e
    simp only [if_true, Option.some.injEq] at hc
    subst hc
    apply cinv_set hC _ id hv
    cases hk : aget st key with
    | none => simpa using cinv_empty P
    | some c0 => simpa using h key c0 hk
  · simp only [e, if_false] at hc
    exact h k c hc

theorem stinv_remove {P : V → Prop} {st : Storage} (h : StInv P st) (id key : Nat) :
    StInv P (st.remove id key) := by
  intro k c hc
  unfold Storage.remove at hc
  cases hk : aget st key with
  | none => rw [hk] at hc; exact h k c hc
  | some c0 =>
    rw [hk] at hc
    simp only at hc
    rw [aget_aset] at hc
    by_cases e : key = k
    · simp only [e, if_true, Option.some.injEq] at hc
      subst hc
      exact cinv_remove (h key c0 hk) id
    · simp only [e, if_false] at hc
      exact h k c hc

theorem stinv_removeAll {P : V → Prop} {st : Storage} (h : StInv P st) (id : Nat) :
    StInv P (st.removeAll id) := by
  intro k c hc
  unfold Storage.removeAll at hc
  have h2 : aget (st.map (fun p => (p.1, p.2.remove id))) k = (aget st k).map (fun c => c.remove id) :=
    aget_map (fun _ c => c.remove id) st k
  rw [h2] at hc
  cases hk : aget st k with
  | none => rw [hk] at hc; cases hc
  | some c0 =>
    rw [hk] at hc
    simp only [Option.map_some, Option.some.injEq] at hc
    subst hc
    exact cinv_remove (h k c0 hk) id

theorem stinv_rebuild {P : V → Prop} (hC : Coherent P) {st : Storage} (h : StInv P st)
    (ords : List (Nat × List Nat)) : StInv P (st.rebuild ords) := by
  intro k c hc
  unfold Storage.rebuild at hc
  have h2 : aget (st.map (fun p => (p.1, p.2.rebuild ((aget ords p.1).getD [])))) k
      = (aget st k).map (fun c => c.rebuild ((aget ords k).getD [])) :=
    aget_map (fun k c => c.rebuild ((aget ords k).getD [])) st k
  rw [h2] at hc
  cases hk : aget st k with
  | none => rw [hk] at hc; cases hc
  | some c0 =>
    rw [hk] at hc
    simp only [Option.map_some, Option.some.injEq] at hc
    subst hc
    exact cinv_rebuild hC (h k c0 hk) _

/-- the values written by a history all satisfy `P` -/
def SOp.valOk (P : V → Prop) : SOp → Prop
  | .set _ _ v => P v
  | _ => True

theorem stinv_step {P : V → Prop} (hC : Coherent P) {s : Store} (h : StInv P s.props) (op : SOp)
    (hop : op.valOk P) : StInv P (s.step op).props := by
  cases op with
  | node => exact h
  | set n key v => exact stinv_set hC h n key hop
  | remove n key => exact stinv_remove h n key
  | delnode n =>
    simp only [Store.step, Store.deleteNode]
    split
    · exact stinv_removeAll h n
    · exact h
  | rebuild ords => exact stinv_rebuild hC h ords
  | index key =>
    simp only [Store.step, Store.createIndex]
    split <;> exact h
  | dropindex key => exact h

theorem stinv_foldl {P : V → Prop} (hC : Coherent P) :
    ∀ (ops : List SOp) (s : Store), StInv P s.props → (∀ op ∈ ops, op.valOk P) →
      StInv P (ops.foldl Store.step s).props
  | [], _, h, _ => h
  | op :: rest, s, h, hops =>
    stinv_foldl hC rest (s.step op) (stinv_step hC h op (hops op List.mem_cons_self))
      (fun o ho => hops o (List.mem_cons_of_mem _ ho))

theorem stinv_run {P : V → Prop} (hC : Coherent P) (ops : List SOp) (hops : ∀ op ∈ ops, op.valOk P) :
    StInv P (Store.run ops).props :=
  stinv_foldl hC ops {} (by intro k c hc; simp [aget] at hc) hops

/-! ## 4. (a) Zone-map soundness for every history -/

theorem get_mem_vals {st : Storage} {n key : Nat} {x : V} (h : st.get n key = some x) :
    ∃ c, aget st key = some c ∧ x ∈ c.vals.map (·.2) := by
  unfold Storage.get at h
  cases hk : aget st key with
  | none => rw [hk] at h; cases h
  | some c =>
    rw [hk] at h
    exact ⟨c, rfl, List.mem_map.mpr ⟨(n, x), aget_mem _ _ _ h, rfl⟩⟩

/-- **(a), order semantics.** For every history of node / set / overwrite / remove /
delete-node / rebuild (any iteration order) / index operations whose written values, together
with the queried value, lie in a class `P` on which the order is coherent: if
`might_match(key, op, v)` answers `false`, then no value currently stored under `key` satisfies
`op v` — with the one exception that `<>` is silent about stored nulls. -/
theorem c10_zone_map_sound {P : V → Prop} (hC : Coherent P) (ops : List SOp)
    (hops : ∀ o ∈ ops, o.valOk P) (key : Nat) (op : Op) (v : V) (hv : P v)
    (hf : (Store.run ops).props.mightMatch key op v = false) :
    ∀ n x, (Store.run ops).props.get n key = some x → (op = .ne → x ≠ .null) →
      zsat op x v = false := by
  intro n x hx hne
  obtain ⟨c, hc, hmem⟩ := get_mem_vals hx
  have hinv := stinv_run hC ops hops key c hc
  unfold Storage.mightMatch at hf
  rw [hc] at hf
  simp only [Col.mightMatch] at hf
  cases hd : c.dirty with
  | true => simp [hd] at hf
  | false =>
    simp only [hd, Bool.false_eq_true, if_false] at hf
    exact matchOn_sound hC hinv hv op hf x hmem hne

/-- **(a), ranges.** Same for `might_match_range` (which ignores the `dirty` flag: sound all the
same, because removals only shrink the set of values a stale zone map has to cover). -/
theorem c10_zone_map_range_sound {P : V → Prop} (hC : Coherent P) (ops : List SOp)
    (hops : ∀ o ∈ ops, o.valOk P) (key : Nat) (lo hi : Option V) (li ui : Bool)
    (hlo : ∀ l, lo = some l → P l) (hhi : ∀ u, hi = some u → P u)
    (hf : (Store.run ops).props.mightRange key lo hi li ui = false) :
    ∀ n x, (Store.run ops).props.get n key = some x → satRange zsat x lo hi li ui = false := by
  intro n x hx
  obtain ⟨c, hc, hmem⟩ := get_mem_vals hx
  have hinv := stinv_run hC ops hops key c hc
  unfold Storage.mightRange at hf
  rw [hc] at hf
  exact range_sound hC hinv lo hi hlo hhi li ui hf x hmem

/-! ### classes of values on which the order is coherent -/

/-- no floats at all: integers (the full i64 range), strings, booleans, nulls -/
def NoFloat : V → Prop
  | .float _ => False
  | _ => True

theorem coherent_noFloat : Coherent NoFloat where
  trans := by
    intro a b c ha hb hc h1 h2
    cases a <;> cases b <;> cases c <;> simp [le, cmp, NoFloat] at *
    · -- bool
      rename_i x y z
      cases x <;> cases y <;> cases z <;> simp [compare, compareOfLessAndEq] at *
    · rename_i x y z
      rw [Int.compare_eq_lt] at h1 h2 ⊢
      omega
    · rename_i x y z
      have e1 : cmpBytes x y ≠ .gt := by rcases h1 with h | h <;> simp [h]
      have e2 : cmpBytes y z ≠ .gt := by rcases h2 with h | h <;> simp [h]
      have := cmpBytes_le_trans x y z e1 e2
      cases hh : cmpBytes x z <;> simp [hh] at this ⊢
  ctrans := by
    intro a b c ha hb hc h1 h2
    cases a <;> cases b <;> cases c <;> simp [cmp, NoFloat] at *

/-! #### `i64 as f64` is exact and order-preserving below 2^53 -/

theorem bitLenF_zero (f : Nat) : bitLenF f 0 = 0 := by cases f <;> simp [bitLenF]

theorem bitLenF_spec : ∀ (f n : Nat), n < 2 ^ f → n ≠ 0 →
    1 ≤ bitLenF f n ∧ 2 ^ (bitLenF f n - 1) ≤ n ∧ n < 2 ^ (bitLenF f n)
  | 0, n, h, hn => by simp at h; omega
  | f + 1, n, h, hn => by
    simp only [bitLenF, hn, if_false]
    by_cases h2 : n / 2 = 0
    · have : n = 1 := by omega
      subst this
      simp [bitLenF_zero]
    · have hlt : n / 2 < 2 ^ f := by
        rw [Nat.pow_succ] at h; omega
      obtain ⟨k1, k2, k3⟩ := bitLenF_spec f (n / 2) hlt h2
      generalize bitLenF f (n / 2) = k at *
      refine ⟨by omega, ?_, ?_⟩
      · have : 2 ^ (k + 1 - 1) = 2 * 2 ^ (k - 1) := by
          have : k + 1 - 1 = (k - 1) + 1 := by omega
          rw [this, Nat.pow_succ]; omega
        rw [this]; omega
      · rw [Nat.pow_succ]; omega

theorem bitLen_spec (n : Nat) (hn : n ≠ 0) :
    1 ≤ bitLen n ∧ 2 ^ (bitLen n - 1) ≤ n ∧ n < 2 ^ (bitLen n) :=
  bitLenF_spec n n Nat.lt_two_pow_self hn

theorem bitLen_le_of_lt (m k : Nat) (hm : m ≠ 0) (h : m < 2 ^ k) : bitLen m ≤ k := by
  obtain ⟨h1, h2, _⟩ := bitLen_spec m hm
  apply Classical.byContradiction
  intro hc
  have : 2 ^ k ≤ 2 ^ (bitLen m - 1) := Nat.pow_le_pow_right (by omega) (by omega)
  omega

/-- shape of `natToF64 m` for `0 < m < 2^53` (conversion exact) -/
theorem natToF64_small (m : Nat) (h0 : m ≠ 0) (h : m < 2 ^ 53) :
    ∃ l mant, 1 ≤ l ∧ l ≤ 53 ∧ 2 ^ (l - 1) ≤ m ∧ m < 2 ^ l ∧ mant = m * 2 ^ (53 - l) ∧
      2 ^ 52 ≤ mant ∧ mant < 2 ^ 53 ∧ natToF64 m = (l + 1022) * 2 ^ 52 + (mant - 2 ^ 52) := by
  obtain ⟨h1, h2, h3⟩ := bitLen_spec m h0
  have hl : bitLen m ≤ 53 := bitLen_le_of_lt m 53 h0 h
  refine ⟨bitLen m, m * 2 ^ (53 - bitLen m), h1, hl, h2, h3, rfl, ?_, ?_, ?_⟩
  · have e : 2 ^ (bitLen m - 1) * 2 ^ (53 - bitLen m) = 2 ^ 52 := by
      rw [← Nat.pow_add]; congr 1; omega
    calc 2 ^ 52 = 2 ^ (bitLen m - 1) * 2 ^ (53 - bitLen m) := e.symm
      _ ≤ m * 2 ^ (53 - bitLen m) := Nat.mul_le_mul_right _ h2
  · have e : 2 ^ (bitLen m) * 2 ^ (53 - bitLen m) = 2 ^ 53 := by
      rw [← Nat.pow_add]; congr 1; omega
    calc m * 2 ^ (53 - bitLen m) < 2 ^ (bitLen m) * 2 ^ (53 - bitLen m) :=
          Nat.mul_lt_mul_of_pos_right h3 (Nat.two_pow_pos _)
      _ = 2 ^ 53 := e
  · unfold natToF64
    simp only [h0, if_false, hl, if_true]
    have : bitLen m - 1 + 1023 = bitLen m + 1022 := by omega
    rw [this]

theorem natToF64_strictMono (m m' : Nat) (h0 : m ≠ 0) (hlt : m < m') (h' : m' < 2 ^ 53) :
    natToF64 m < natToF64 m' := by
  obtain ⟨l, mant, a1, a2, a3, a4, a5, a6, a7, a8⟩ := natToF64_small m h0 (by omega)
  obtain ⟨l', mant', b1, b2, b3, b4, b5, b6, b7, b8⟩ := natToF64_small m' (by omega) h'
  rw [a8, b8]
  have hll : l ≤ l' := by
    apply Classical.byContradiction
    intro hc
    have : 2 ^ l' ≤ 2 ^ (l - 1) := Nat.pow_le_pow_right (by omega) (by omega)
    omega
  by_cases e : l = l'
  · subst e
    have : mant < mant' := by
      rw [a5, b5]; exact Nat.mul_lt_mul_of_pos_right hlt (Nat.two_pow_pos _)
    omega
  · have : l + 1 ≤ l' := by omega
    have : (l + 1023) * 2 ^ 52 ≤ (l' + 1022) * 2 ^ 52 := Nat.mul_le_mul_right _ (by omega)
    omega

/-- `natToF64 m` for `m < 2^53` is a positive, finite, non-NaN pattern below 2^63 -/
theorem natToF64_small_bits (m : Nat) (h : m < 2 ^ 53) :
    natToF64 m < 2 ^ 63 ∧ expField (natToF64 m) < 2047 ∧ (m ≠ 0 → 0 < natToF64 m) := by
  by_cases h0 : m = 0
  · subst h0; simp [natToF64, expField]
  · obtain ⟨l, mant, a1, a2, a3, a4, a5, a6, a7, a8⟩ := natToF64_small m h0 h
    rw [a8]
    refine ⟨by omega, ?_, fun _ => by omega⟩
    unfold expField
    omega

theorem key_of_lt (b : Nat) (h : b < 2 ^ 63) : key b = (b : Int) := by
  unfold key signBit mag
  have : b / 2 ^ 63 % 2 = 0 := by omega
  simp [this]; omega

theorem key_of_neg (x : Nat) (h : x < 2 ^ 63) : key (2 ^ 63 + x) = -(x : Int) := by
  unfold key signBit mag
  have : (2 ^ 63 + x) / 2 ^ 63 % 2 = 1 := by omega
  simp [this]; omega

theorem isNaN_of_exp (b : Nat) (h : expField b < 2047) : isNaN b = false := by
  unfold isNaN
  have : (expField b == 2047) = false := by simp; omega
  simp [this]

theorem expField_neg (x : Nat) (h : x < 2 ^ 63) : expField (2 ^ 63 + x) = expField x := by
  unfold expField; omega

/-- integers of magnitude below 2^53 convert exactly: not NaN, and the order of the resulting
patterns is the order of the integers -/
theorem i64ToF64_small (i : Int) (h : -(2 ^ 53) < i ∧ i < 2 ^ 53) :
    isNaN (i64ToF64 i) = false ∧
    key (i64ToF64 i) = if i ≥ 0 then (natToF64 i.toNat : Int) else -(natToF64 (-i).toNat : Int) := by
  unfold i64ToF64
  by_cases hi : i ≥ 0
  · have hb := natToF64_small_bits i.toNat (by omega)
    simp only [hi, if_true]
    exact ⟨isNaN_of_exp _ hb.2.1, key_of_lt _ hb.1⟩
  · have hb := natToF64_small_bits (-i).toNat (by omega)
    simp only [hi, if_false]
    refine ⟨isNaN_of_exp _ ?_, key_of_neg _ hb.1⟩
    rw [expField_neg _ hb.1]; exact hb.2.1

theorem ikey_strictMono (i j : Int) (hi : -(2 ^ 53) < i ∧ i < 2 ^ 53) (hj : -(2 ^ 53) < j ∧ j < 2 ^ 53)
    (hlt : i < j) : key (i64ToF64 i) < key (i64ToF64 j) := by
  rw [(i64ToF64_small i hi).2, (i64ToF64_small j hj).2]
  by_cases h1 : i ≥ 0
  · have h2 : j ≥ 0 := by omega
    simp only [h1, h2, if_true]
    by_cases h0 : i = 0
    · subst h0
      have := (natToF64_small_bits j.toNat (by omega)).2.2 (by omega)
      have e : natToF64 (0 : Int).toNat = 0 := by simp [natToF64]
      rw [e]; omega
    · have := natToF64_strictMono i.toNat j.toNat (by omega) (by omega) (by omega)
      omega
  · by_cases h2 : j ≥ 0
    · simp only [h1, h2, if_true, if_false]
      have := (natToF64_small_bits (-i).toNat (by omega)).2.2 (by omega)
      omega
    · simp only [h1, h2, if_false]
      have := natToF64_strictMono (-j).toNat (-i).toNat (by omega) (by omega) (by omega)
      omega

theorem ikey_compare (i j : Int) (hi : -(2 ^ 53) < i ∧ i < 2 ^ 53) (hj : -(2 ^ 53) < j ∧ j < 2 ^ 53) :
    compare (key (i64ToF64 i)) (key (i64ToF64 j)) = compare i j := by
  rcases Int.lt_trichotomy i j with h | h | h
  · rw [Int.compare_eq_lt.mpr h, Int.compare_eq_lt.mpr (ikey_strictMono i j hi hj h)]
  · subst h; simp
  · rw [Int.compare_eq_gt.mpr h, Int.compare_eq_gt.mpr (ikey_strictMono j i hj hi h)]

/-- integers of magnitude below 2^53 (where `i64 as f64` is exact), any float, strings,
booleans, nulls -/
def Exact : V → Prop
  | .int i => -(2 ^ 53) < i ∧ i < 2 ^ 53
  | _ => True

/-- the numeric key of a value of the numeric class -/
def nkey : V → Option Int
  | .int i => some (key (i64ToF64 i))
  | .float b => if isNaN b then none else some (key b)
  | _ => none

def isNumeric : V → Bool
  | .int _ => true
  | .float _ => true
  | _ => false

theorem cmp_numeric_exact {a b : V} (ha : Exact a) (hb : Exact b) (na : isNumeric a = true)
    (nb : isNumeric b = true) :
    cmp a b = (match nkey a, nkey b with
      | some ka, some kb => some (compare ka kb)
      | _, _ => none) := by
  cases a <;> cases b <;> simp [isNumeric] at na nb
  · rename_i i j
    simp only [cmp, nkey, ikey_compare i j ha hb]
  · rename_i i y
    simp only [cmp, nkey, partialCmp, (i64ToF64_small i ha).1]
    cases isNaN y <;> simp
  · rename_i x j
    simp only [cmp, nkey, partialCmp, (i64ToF64_small j hb).1]
    cases isNaN x <;> simp
  · rename_i x y
    simp only [cmp, nkey, partialCmp]
    cases isNaN x <;> cases isNaN y <;> simp

theorem numeric_le_iff {a b : V} (ha : Exact a) (hb : Exact b) (na : isNumeric a = true)
    (nb : isNumeric b = true) :
    le a b ↔ ∃ ka kb, nkey a = some ka ∧ nkey b = some kb ∧ ka ≤ kb := by
  unfold le
  rw [cmp_numeric_exact ha hb na nb]
  cases nkey a <;> cases nkey b <;> simp
  rename_i ka kb
  first
    | omega
    | (rw [Int.compare_eq_lt]; omega)

theorem numeric_comparable_iff {a b : V} (ha : Exact a) (hb : Exact b) (na : isNumeric a = true)
    (nb : isNumeric b = true) :
    (cmp a b).isSome = true ↔ (nkey a).isSome = true ∧ (nkey b).isSome = true := by
  rw [cmp_numeric_exact ha hb na nb]
  cases nkey a <;> cases nkey b <;> simp

theorem cmp_none_of_mixed {a b : V} (h : isNumeric a ≠ isNumeric b) : cmp a b = none := by
  cases a <;> cases b <;> simp [isNumeric, cmp] at h ⊢

theorem coherent_exact : Coherent Exact where
  trans := by
    intro a b c ha hb hc h1 h2
    by_cases na : isNumeric a = true
    · have nb : isNumeric b = true := by
        apply Classical.byContradiction; intro hn
        have := cmp_none_of_mixed (a := a) (b := b) (by simp [na, hn])
        rcases h1 with h | h <;> simp [this] at h
      have nc : isNumeric c = true := by
        apply Classical.byContradiction; intro hn
        have := cmp_none_of_mixed (a := b) (b := c) (by simp [nb, hn])
        rcases h2 with h | h <;> simp [this] at h
      rw [numeric_le_iff ha hb na nb] at h1
      rw [numeric_le_iff hb hc nb nc] at h2
      rw [numeric_le_iff ha hc na nc]
      obtain ⟨ka, kb, e1, e2, l1⟩ := h1
      obtain ⟨kb', kc, e3, e4, l2⟩ := h2
      rw [e2] at e3; cases e3
      exact ⟨ka, kc, e1, e4, by omega⟩
    · -- no numeric value involved: the float-free argument applies
      have fa : NoFloat a := by cases a <;> simp [isNumeric, NoFloat] at na ⊢
      have nb : isNumeric b = false := by
        cases hb' : isNumeric b with
        | false => rfl
        | true =>
          have := cmp_none_of_mixed (a := a) (b := b) (by simp [na, hb'])
          rcases h1 with h | h <;> simp [this] at h
      have fb : NoFloat b := by cases b <;> simp [isNumeric, NoFloat] at nb ⊢
      have nc : isNumeric c = false := by
        cases hc' : isNumeric c with
        | false => rfl
        | true =>
          have := cmp_none_of_mixed (a := b) (b := c) (by simp [nb, hc'])
          rcases h2 with h | h <;> simp [this] at h
      have fc : NoFloat c := by cases c <;> simp [isNumeric, NoFloat] at nc ⊢
      exact coherent_noFloat.trans a b c fa fb fc h1 h2
  ctrans := by
    intro a b c ha hb hc h1 h2
    by_cases na : isNumeric a = true
    · have nb : isNumeric b = true := by
        apply Classical.byContradiction; intro hn
        have := cmp_none_of_mixed (a := a) (b := b) (by simp [na, hn])
        simp [this] at h1
      have nc : isNumeric c = true := by
        apply Classical.byContradiction; intro hn
        have := cmp_none_of_mixed (a := b) (b := c) (by simp [nb, hn])
        simp [this] at h2
      rw [numeric_comparable_iff ha hb na nb] at h1
      rw [numeric_comparable_iff hb hc nb nc] at h2
      rw [numeric_comparable_iff ha hc na nc]
      exact ⟨h1.1, h2.2⟩
    · have fa : NoFloat a := by cases a <;> simp [isNumeric, NoFloat] at na ⊢
      have nb : isNumeric b = false := by
        cases hb' : isNumeric b with
        | false => rfl
        | true =>
          have := cmp_none_of_mixed (a := a) (b := b) (by simp [na, hb'])
          simp [this] at h1
      have fb : NoFloat b := by cases b <;> simp [isNumeric, NoFloat] at nb ⊢
      have nc : isNumeric c = false := by
        cases hc' : isNumeric c with
        | false => rfl
        | true =>
          have := cmp_none_of_mixed (a := b) (b := c) (by simp [nb, hc'])
          simp [this] at h2
      have fc : NoFloat c := by cases c <;> simp [isNumeric, NoFloat] at nc ⊢
      exact coherent_noFloat.ctrans a b c fa fb fc h1 h2

theorem coherent_mono {P Q : V → Prop} (h : ∀ v, Q v → P v) (hC : Coherent P) : Coherent Q where
  trans a b c ha hb hc := hC.trans a b c (h a ha) (h b hb) (h c hc)
  ctrans a b c ha hb hc := hC.ctrans a b c (h a ha) (h b hb) (h c hc)

/-! ## 5. (a) against the engine's filter semantics (`filter.rs`) -/

def FiniteV : V → Prop
  | .float b => isFinite b = true
  | _ => True

/-- values on which the filter's comparisons and the zone map's order tell the same story:
integers below 2^53 in magnitude, finite floats (no NaN, no infinity), strings, booleans, null -/
def Tame (v : V) : Prop := Exact v ∧ FiniteV v

theorem coherent_tame : Coherent Tame := coherent_mono (fun _ h => h.1) coherent_exact

theorem isNaN_of_finite {b : Nat} (h : isFinite b = true) : isNaN b = false := by
  unfold isFinite at h
  unfold isNaN
  have : (expField b == 2047) = false := by simpa using h
  simp [this]

theorem scaled_eq_of_key_eq {a b : Nat} (h : key a = key b) : scaled a = scaled b := by
  unfold key at h
  unfold scaled
  have ea : ∀ c : Nat, expField c = (mag c / 2 ^ 52) % 2 ^ 11 := by
    intro c; unfold expField mag; omega
  have fa : ∀ c : Nat, fracField c = mag c % 2 ^ 52 := by
    intro c; unfold fracField mag; omega
  have sm : ∀ c : Nat, mag c = 0 → scaledMag c = 0 := by
    intro c hc
    unfold scaledMag
    simp [ea, fa, hc]
  by_cases sa : signBit a = 1 <;> by_cases sb : signBit b = 1 <;> simp only [sa, sb, if_true, if_false] at h ⊢
  · have : mag a = mag b := by omega
    have : scaledMag a = scaledMag b := by unfold scaledMag; rw [ea a, ea b, fa a, fa b, this]
    omega
  · have h1 : mag a = 0 := by omega
    have h2 : mag b = 0 := by omega
    rw [sm a h1, sm b h2]; rfl
  · have h1 : mag a = 0 := by omega
    have h2 : mag b = 0 := by omega
    rw [sm a h1, sm b h2]; rfl
  · have : mag a = mag b := by omega
    have : scaledMag a = scaledMag b := by unfold scaledMag; rw [ea a, ea b, fa a, fa b, this]
    omega

theorem epsClose_of_key_eq {a b : Nat} (fa : isFinite a = true) (fb : isFinite b = true)
    (h : key a = key b) : epsClose a b = true := by
  unfold epsClose
  rw [scaled_eq_of_key_eq h]
  have : 0 < 2 ^ 1022 - 2 ^ 968 := Nat.sub_pos_of_lt (Nat.pow_lt_pow_right (by omega) (by omega))
  simp [fa, fb, this]

theorem isFinite_i64 {i : Int} (h : -(2 ^ 53) < i ∧ i < 2 ^ 53) : isFinite (i64ToF64 i) = true := by
  unfold isFinite i64ToF64
  by_cases hi : i ≥ 0
  · have hb := natToF64_small_bits i.toNat (by omega)
    simp only [hi, if_true]; simp; omega
  · have hb := natToF64_small_bits (-i).toNat (by omega)
    simp only [hi, if_false]
    rw [expField_neg _ hb.1]; simp; omega

theorem partialCmp_eq_key {a b : Nat} (h : partialCmp a b = some .eq) : key a = key b := by
  unfold partialCmp at h
  split at h
  · cases h
  · simp only [Option.some.injEq] at h
    exact Int.compare_eq_eq.mp h

/-- exact equality (zone-map order) implies the filter's ε-equality on tame values -/
theorem fEq_of_zEq {x v : V} (hx : Tame x) (hv : Tame v) (h : zEq x v = true) : fEq x v = true := by
  unfold zEq at h
  cases x <;> cases v <;> simp [cmp, fEq] at h ⊢
  · -- bool
    rename_i a b
    cases a <;> cases b <;> simp [compare, compareOfLessAndEq] at h ⊢
  · exact h
  · rename_i i y
    exact epsClose_of_key_eq (isFinite_i64 hx.1) hv.2 (partialCmp_eq_key h)
  · rename_i y i
    exact epsClose_of_key_eq (isFinite_i64 hv.1) hx.2 (partialCmp_eq_key h).symm
  · rename_i a b
    exact epsClose_of_key_eq hx.2 hv.2 (partialCmp_eq_key h)
  · exact (cmpBytes_eq_iff _ _).mp h

theorem fltCmp3_of_not_nan {a b : Nat} (ha : isNaN a = false) (hb : isNaN b = false) :
    some (fltCmp3 a b) = partialCmp a b := by
  unfold fltCmp3 partialCmp
  simp [ha, hb]

/-- on tame values the filter's ordering comparisons are the zone map's -/
theorem fCmp_eq_cmp {x v : V} (hx : Tame x) (hv : Tame v) {o : Ordering} (h : fCmp x v = some o) :
    cmp x v = some o := by
  cases x with
  | null => cases v <;> simp [fCmp] at h
  | bool a => cases v <;> simp [fCmp] at h
  | str a =>
    cases v with
    | str b => simpa [fCmp, cmp] using h
    | _ => simp [fCmp] at h
  | int i =>
    cases v with
    | int j => simpa [fCmp, cmp] using h
    | float y =>
      simp only [fCmp] at h; simp only [cmp]
      rw [← fltCmp3_of_not_nan (i64ToF64_small i hx.1).1 (isNaN_of_finite hv.2)]; exact h
    | _ => simp [fCmp] at h
  | float a =>
    cases v with
    | int j =>
      simp only [fCmp] at h; simp only [cmp]
      rw [← fltCmp3_of_not_nan (isNaN_of_finite hx.2) (i64ToF64_small j hv.1).1]; exact h
    | float b =>
      simp only [fCmp] at h; simp only [cmp]
      rw [← fltCmp3_of_not_nan (isNaN_of_finite hx.2) (isNaN_of_finite hv.2)]; exact h
    | _ => simp [fCmp] at h

/-- **Bridge.** On tame values, whatever the generic filter accepts the exact order semantics
accepts too — up to the ε in `=`: the hypothesis `heps` asks that the literal is not within
2^-52 of a different stored number. -/
theorem fsat_imp_zsat {op : Op} {x v : V} (hx : Tame x) (hv : Tame v)
    (heps : op = .eq → fEq x v = true → zEq x v = true) (h : fsat op x v = true) :
    zsat op x v = true := by
  cases op with
  | eq => exact heps rfl h
  | ne =>
    simp only [fsat, zsat, Bool.not_eq_true', Bool.not_eq_eq_eq_not, Bool.not_true] at h ⊢
    cases hz : zEq x v with
    | false => rfl
    | true => rw [fEq_of_zEq hx hv hz] at h; cases h
  | lt =>
    simp only [fsat, zsat, beq_iff_eq] at h ⊢
    exact fCmp_eq_cmp hx hv h
  | gt =>
    simp only [fsat, zsat, beq_iff_eq] at h ⊢
    exact fCmp_eq_cmp hx hv h
  | le =>
    simp only [fsat, zsat, Bool.or_eq_true, beq_iff_eq] at h ⊢
    rcases h with h | h
    · exact Or.inl (fCmp_eq_cmp hx hv h)
    · exact Or.inr (fCmp_eq_cmp hx hv h)
  | ge =>
    simp only [fsat, zsat, Bool.or_eq_true, beq_iff_eq] at h ⊢
    rcases h with h | h
    · exact Or.inl (fCmp_eq_cmp hx hv h)
    · exact Or.inr (fCmp_eq_cmp hx hv h)

/-- the current values of a reachable store satisfy the class of the written values -/
theorem current_value_ok {P : V → Prop} (hC : Coherent P) (ops : List SOp)
    (hops : ∀ o ∈ ops, o.valOk P) {n key : Nat} {x : V}
    (hx : (Store.run ops).props.get n key = some x) : P x := by
  obtain ⟨c, hc, hmem⟩ := get_mem_vals hx
  exact (stinv_run hC ops hops key c hc).pall x hmem

/-- a class of values on which the zone map's order is coherent and on which the generic
filter accepts nothing the exact order semantics rejects (up to the ε of `=`) -/
structure Good (P : V → Prop) : Prop where
  coh : Coherent P
  bridge : ∀ (op : Op) (x v : V), P x → P v →
    (op = .eq → fEq x v = true → zEq x v = true) → fsat op x v = true → zsat op x v = true
  selfEq : ∀ v, P v → zEq v v = true

theorem zEq_self_of_tame {v : V} (h : Tame v) : zEq v v = true := by
  cases v with
  | null => simp [zEq]
  | bool b => simp [zEq, cmp]
  | int i => simp [zEq, cmp]
  | str s => simp [zEq, cmp, (cmpBytes_eq_iff s s).mpr rfl]
  | float b => simp [zEq, cmp, partialCmp, isNaN_of_finite h.2]

theorem good_tame : Good Tame where
  coh := coherent_tame
  bridge := fun _ _ _ hx hv heps h => fsat_imp_zsat hx hv heps h
  selfEq := fun _ h => zEq_self_of_tame h

/-- float-free values: integers over the whole i64 range, strings, booleans, null -/
theorem good_noFloat : Good NoFloat where
  coh := coherent_noFloat
  bridge := by
    intro op x v hx hv heps h
    cases op with
    | eq => exact heps rfl h
    | ne =>
      simp only [fsat, zsat, Bool.not_eq_eq_eq_not, Bool.not_true] at h ⊢
      cases x <;> cases v <;> simp [fEq, zEq, cmp, NoFloat] at h hx hv ⊢
      · rename_i a b; cases a <;> cases b <;> simp [compare, compareOfLessAndEq] at h ⊢
      · exact h
      · rw [cmpBytes_eq_iff]; exact h
    | lt => cases x <;> cases v <;> simp [fsat, zsat, fCmp, cmp, NoFloat] at h hx hv ⊢ <;> exact h
    | gt => cases x <;> cases v <;> simp [fsat, zsat, fCmp, cmp, NoFloat] at h hx hv ⊢ <;> exact h
    | le => cases x <;> cases v <;> simp [fsat, zsat, fCmp, cmp, NoFloat] at h hx hv ⊢ <;> exact h
    | ge => cases x <;> cases v <;> simp [fsat, zsat, fCmp, cmp, NoFloat] at h hx hv ⊢ <;> exact h
  selfEq := by
    intro v hv
    cases v with
    | null => simp [zEq]
    | bool b => simp [zEq, cmp]
    | int i => simp [zEq, cmp]
    | str s => simp [zEq, cmp, (cmpBytes_eq_iff s s).mpr rfl]
    | float b => simp [NoFloat] at hv

/-- **(a), filter semantics (partial).** For every history whose written values lie in a good
class (`Tame`: integers below 2^53, finite floats, strings, booleans, null — or `NoFloat`: all
i64 integers, strings, booleans, null) and every literal of that class: if
`might_match(key, op, v)` answers `false`, no row can pass the generic filter `n.key <op> v` —
provided (i) for `<>` the column currently holds no null and (ii) for `=` the literal is not
within ε of a different stored number. The full statement is false; see the witnesses
`c10_w_prune_*`. -/
theorem c10_zone_map_sound_filter_partial {P : V → Prop} (hG : Good P) (ops : List SOp)
    (hops : ∀ o ∈ ops, o.valOk P) (key : Nat) (op : Op) (v : V) (hv : P v)
    (hf : (Store.run ops).props.mightMatch key op v = false) :
    ∀ n x, (Store.run ops).props.get n key = some x → (op = .ne → x ≠ .null) →
      (op = .eq → fEq x v = true → zEq x v = true) → fsat op x v = false := by
  intro n x hx hne heps
  have hz := c10_zone_map_sound hG.coh ops hops key op v hv hf n x hx hne
  have hxt : P x := current_value_ok hG.coh ops hops hx
  cases hfs : fsat op x v with
  | false => rfl
  | true => rw [hG.bridge op x v hxt hv heps hfs] at hz; cases hz

/-! ### the full statement of (a) and why it is false for the pinned code -/

/-- **(a) at full strength**: for every history and every value, a `false` verdict of
`might_match` means no stored value passes the generic filter. -/
def ZoneMapSoundFilter : Prop :=
  ∀ (ops : List SOp) (key : Nat) (op : Op) (v : V),
    (Store.run ops).props.mightMatch key op v = false →
    ∀ n x, (Store.run ops).props.get n key = some x → fsat op x v = false

/-- the same for the zone map's own exact order (no filter peculiarities involved) -/
def ZoneMapSoundOrder : Prop :=
  ∀ (ops : List SOp) (key : Nat) (op : Op) (v : V),
    (Store.run ops).props.mightMatch key op v = false →
    ∀ n x, (Store.run ops).props.get n key = some x → (op = .ne → x ≠ .null) → zsat op x v = false

def f64_one : Nat := 0x3ff0000000000000
def f64_nan : Nat := 0x7ff8000000000000
def f64_inf : Nat := 0x7ff0000000000000
def f64_1em20 : Nat := 0x3bc79ca10c924223
def f64_2p53 : Nat := 0x4340000000000000

/-- W: a stored NULL. `x <> 5` over the column {5, NULL}: the zone map (min = max = 5, not
mixed — nulls bypass the `mixed` logic) says "no row can match"; the filter accepts the NULL row
(`values_equal(Null, 5)` is false, so `<>` is true). -/
theorem c10_w_prune_null_ne :
    let s := Store.run [.node, .node, .set 0 0 (.int 5), .set 1 0 .null]
    s.props.mightMatch 0 .ne (.int 5) = false ∧ s.props.get 1 0 = some .null ∧
      fsat .ne .null (.int 5) = true := by decide

/-- W: NaN. `x <= 0.0` over {1.0, NaN}: min = max = 1.0 prunes; the filter's three-way
comparison maps NaN to 0, so `NaN <= 0.0` passes. -/
theorem c10_w_prune_nan_le :
    let s := Store.run [.node, .node, .set 0 0 (.float f64_one), .set 1 0 (.float f64_nan)]
    s.props.mightMatch 0 .le (.float 0) = false ∧ s.props.get 1 0 = some (.float f64_nan) ∧
      fsat .le (.float f64_nan) (.float 0) = true := by decide

set_option exponentiation.threshold 1100 in
/-- W: ε-equality. `x = 1e-20` over {0.0}: 1e-20 > max prunes; the filter's
`|a − b| < f64::EPSILON` accepts 0.0. -/
theorem c10_w_prune_eps_eq :
    let s := Store.run [.node, .set 0 0 (.float 0)]
    s.props.mightMatch 0 .eq (.float f64_1em20) = false ∧ s.props.get 0 0 = some (.float 0) ∧
      fsat .eq (.float 0) (.float f64_1em20) = true := by decide

/-- W: infinity. `x <> inf` over {inf}: min = max = inf prunes; `inf − inf` is NaN, so the
filter's equality fails and `<>` passes. -/
theorem c10_w_prune_inf_ne :
    let s := Store.run [.node, .set 0 0 (.float f64_inf)]
    s.props.mightMatch 0 .ne (.float f64_inf) = false ∧
      fsat .ne (.float f64_inf) (.float f64_inf) = true := by decide

/-- W: `i64 as f64` rounding. Column {2^53 as float, 2^53+1 as integer} (written in that order):
the integer compares Equal to the float maximum and does not replace it; `x > 2^53` (integer
literal) is pruned because max = 2^53.0 compares Equal to the literal — but 2^53+1 > 2^53. Both
the filter and the zone map's own order accept that row. -/
theorem c10_w_prune_rounding :
    let s := Store.run [.node, .node, .set 0 0 (.float f64_2p53), .set 1 0 (.int (2 ^ 53 + 1))]
    s.props.mightMatch 0 .gt (.int (2 ^ 53)) = false ∧ s.props.get 1 0 = some (.int (2 ^ 53 + 1)) ∧
      zsat .gt (.int (2 ^ 53 + 1)) (.int (2 ^ 53)) = true ∧
      fsat .gt (.int (2 ^ 53 + 1)) (.int (2 ^ 53)) = true := by decide

/-- the order is not transitive on all values -/
theorem c10_order_not_transitive :
    le (.int (2 ^ 53 + 1)) (.float f64_2p53) ∧ le (.float f64_2p53) (.int (2 ^ 53)) ∧
      ¬ le (.int (2 ^ 53 + 1)) (.int (2 ^ 53)) := by
  unfold le; decide

theorem c10_zone_map_sound_filter_refuted : ¬ ZoneMapSoundFilter := by
  intro h
  have := h [.node, .node, .set 0 0 (.int 5), .set 1 0 .null] 0 .ne (.int 5) (by decide) 1 .null (by decide)
  revert this; decide

theorem c10_zone_map_sound_order_refuted : ¬ ZoneMapSoundOrder := by
  intro h
  have := h [.node, .node, .set 0 0 (.float f64_2p53), .set 1 0 (.int (2 ^ 53 + 1))] 0 .gt
    (.int (2 ^ 53)) (by decide) 1 (.int (2 ^ 53 + 1)) (by decide) (by decide)
  revert this; decide

/-- N: the theorems are not vacuous — the mixed-type `<>` regression (column {'a', 1}, `<> 'a'`
must not be pruned) and a genuine prune (`> 7` over {1, 5}). -/
theorem c10_nv_mixed_ne_regression :
    let s := Store.run [.node, .node, .set 0 0 (.str [0x61]), .set 1 0 (.int 1)]
    s.props.mightMatch 0 .ne (.str [0x61]) = true ∧
      (s.rebuild [(0, [0, 1])]).props.mightMatch 0 .ne (.str [0x61]) = true ∧
      (s.rebuild [(0, [1, 0])]).props.mightMatch 0 .ne (.str [0x61]) = true ∧
      (s.rebuild [(0, [0, 1])]).props.zone 0 ≠ (s.rebuild [(0, [1, 0])]).props.zone 0 := by decide
theorem c10_nv_zone_prune :
    let s := Store.run [.node, .node, .set 0 0 (.int 1), .set 1 0 (.int 5), .set 1 0 (.int 3)]
    s.props.mightMatch 0 .gt (.int 7) = false ∧ s.props.mightMatch 0 .gt (.int 4) = true ∧
      (∀ o ∈ [SOp.node, .node, .set 0 0 (.int 1), .set 1 0 (.int 5), .set 1 0 (.int 3)], o.valOk Tame) := by
  refine ⟨by decide, by decide, ?_⟩
  intro o ho
  simp only [List.mem_cons, List.not_mem_nil, or_false] at ho
  rcases ho with rfl | rfl | rfl | rfl | rfl <;> simp [SOp.valOk, Tame, Exact, FiniteV]

/-! ## 6. (b) The indexed lookup equals the scan -/

theorem aget_aerase {α : Type} (l : List (Nat × α)) (k k' : Nat) :
    aget (aerase l k) k' = if k = k' then none else aget l k' := by
  by_cases e : k = k'
  · subst e; simp [aget_aerase_self]
  · simp [e, aget_aerase_ne l k k' e]

theorem col_remove_get (c : Col) (n m : Nat) :
    aget (c.remove n).vals m = if n = m then none else aget c.vals m := by
  unfold Col.remove
  cases h : (aget c.vals n).isSome with
  | true => simp [aget_aerase]
  | false =>
    simp only [Bool.false_eq_true, if_false]
    by_cases e : n = m
    · subst e
      cases h2 : aget c.vals n with
      | none => simp
      | some x => simp [h2] at h
    · simp [e]

theorem get_set (st : Storage) (n key : Nat) (v : V) (m k : Nat) :
    (st.set n key v).get m k =
      if key = k then (if n = m then some v else st.get m key) else st.get m k := by
  unfold Storage.set Storage.get
  rw [aget_aset]
  by_cases e : key = k
  · subst e
    simp only [if_true, Col.set, aget_aset]
    by_cases e2 : n = m
    · simp [e2]
    · simp only [e2, if_false]
      cases aget st key <;> simp [aget]
  · simp [e]

theorem get_remove (st : Storage) (n key m k : Nat) :
    (st.remove n key).get m k = if key = k ∧ n = m then none else st.get m k := by
  unfold Storage.remove
  cases hk : aget st key with
  | none =>
    by_cases e : key = k ∧ n = m
    · obtain ⟨e1, e2⟩ := e; subst e1; subst e2
      simp [Storage.get, hk]
    · simp [e]
  | some c =>
    simp only [Storage.get, aget_aset]
    by_cases e : key = k
    · subst e
      simp only [if_true, col_remove_get, hk, true_and]
    · simp [e]

theorem get_removeAll (st : Storage) (n m k : Nat) :
    (st.removeAll n).get m k = if n = m then none else st.get m k := by
  unfold Storage.removeAll Storage.get
  have h2 : aget (st.map (fun p => (p.1, p.2.remove n))) k = (aget st k).map (fun c => c.remove n) :=
    aget_map (fun _ c => c.remove n) st k
  rw [h2]
  cases aget st k with
  | none => simp
  | some c => simp [col_remove_get]

theorem get_rebuild (st : Storage) (ords : List (Nat × List Nat)) (m k : Nat) :
    (st.rebuild ords).get m k = st.get m k := by
  unfold Storage.rebuild Storage.get
  have h2 : aget (st.map (fun p => (p.1, p.2.rebuild ((aget ords p.1).getD [])))) k
      = (aget st k).map (fun c => c.rebuild ((aget ords k).getD [])) :=
    aget_map (fun k c => c.rebuild ((aget ords k).getD [])) st k
  rw [h2]
  cases aget st k <;> simp [Col.rebuild]

theorem mem_relInsert (r : Rel) (v : V) (n : Nat) (p : V × Nat) :
    p ∈ relInsert r v n ↔ p = (v, n) ∨ p ∈ r := by
  unfold relInsert
  split
  · constructor
    · exact Or.inr
    · rintro (rfl | h) <;> assumption
  · simp

theorem mem_relRemove (r : Rel) (v : V) (n : Nat) (p : V × Nat) :
    p ∈ relRemove r v n ↔ p ∈ r ∧ p ≠ (v, n) := by
  unfold relRemove
  simp only [List.mem_filter, Bool.not_eq_true', Bool.and_eq_false_iff, beq_eq_false_iff_ne, ne_eq]
  constructor
  · rintro ⟨h1, h2⟩
    refine ⟨h1, ?_⟩
    intro e; subst e; simp at h2
  · rintro ⟨h1, h2⟩
    refine ⟨h1, ?_⟩
    apply Classical.byContradiction
    intro hc
    simp only [not_or, Classical.not_not] at hc
    exact h2 (Prod.ext hc.1 hc.2)

theorem mem_relLookup (r : Rel) (v : V) (m : Nat) : m ∈ relLookup r v ↔ (v, m) ∈ r := by
  unfold relLookup hvEq
  simp only [List.mem_map, List.mem_filter, decide_eq_true_eq]
  constructor
  · rintro ⟨p, ⟨hp, e⟩, rfl⟩
    have : p = (v, p.2) := Prod.ext e rfl
    rw [← this]; exact hp
  · intro h
    exact ⟨(v, m), ⟨h, rfl⟩, rfl⟩

/-- the index relation holds exactly the pairs (value, node) of the column, and properties
exist on live nodes only -/
structure IInv (s : Store) : Prop where
  onlyLive : ∀ n key x, s.props.get n key = some x → n ∈ s.live
  exact : ∀ key r, aget s.idx key = some r → ∀ v n, (v, n) ∈ r ↔ s.props.get n key = some v
  fresh : ∀ n ∈ s.live, n < s.next

/-- writes go to live nodes (the store itself does not check this) -/
def wfOp (s : Store) : SOp → Prop
  | .set n _ _ => n ∈ s.live
  | _ => True

def wfRun : Store → List SOp → Prop
  | _, [] => True
  | s, op :: rest => wfOp s op ∧ wfRun (s.step op) rest

instance decWfOp (s : Store) (op : SOp) : Decidable (wfOp s op) := by
  cases op <;> simp only [wfOp] <;> exact inferInstance

instance decWfRun : ∀ (s : Store) (ops : List SOp), Decidable (wfRun s ops)
  | _, [] => isTrue trivial
  | s, op :: rest => by
    simp only [wfRun]
    exact @instDecidableAnd _ _ (decWfOp s op) (decWfRun (s.step op) rest)

theorem mem_dropOld_exact {r : Rel} {n : Nat} {old : Option V}
    (hr : ∀ w, (w, n) ∈ r ↔ old = some w) (w : V) (m : Nat) :
    (w, m) ∈ dropOld r n old ↔ (w, m) ∈ r ∧ m ≠ n := by
  cases old with
  | none =>
    simp only [dropOld]
    constructor
    · intro h
      refine ⟨h, ?_⟩
      intro e; subst e
      have := (hr w).mp h; cases this
    · exact fun h => h.1
  | some o =>
    simp only [dropOld, mem_relRemove]
    constructor
    · rintro ⟨h1, h2⟩
      refine ⟨h1, ?_⟩
      intro e; subst e
      have := (hr w).mp h1
      simp only [Option.some.injEq] at this
      subst this; exact h2 rfl
    · rintro ⟨h1, h2⟩
      refine ⟨h1, ?_⟩
      intro e
      exact h2 (Prod.mk.inj e).2

theorem iinv_set {s : Store} (h : IInv s) (n key : Nat) (v : V) (hl : n ∈ s.live) :
    IInv (s.setProp n key v) where
  onlyLive := by
    intro m k x hx
    simp only [Store.setProp, get_set] at hx
    by_cases e : key = k
    · by_cases e2 : n = m
      · subst e2; exact hl
      · simp only [e, e2, if_true, if_false] at hx
        exact h.onlyLive m k x (e ▸ hx)
    · simp only [e, if_false] at hx
      exact h.onlyLive m k x hx
  fresh := h.fresh
  exact := by
    intro k r hr w m
    simp only [Store.setProp, get_set]
    simp only [Store.setProp, Store.idxOnSet] at hr
    cases hk : aget s.idx key with
    | none =>
      rw [hk] at hr
      have hne : key ≠ k := by
        intro e; subst e; rw [hk] at hr; cases hr
      simp only [hne, if_false]
      exact h.exact k r hr w m
    | some r0 =>
      rw [hk] at hr
      simp only [aget_aset] at hr
      by_cases e : key = k
      · subst e
        simp only [if_true, Option.some.injEq] at hr
        subst hr
        rw [mem_relInsert, mem_dropOld_exact (fun w' => h.exact key r0 hk w' n)]
        by_cases e2 : n = m
        · subst e2
          simp only [if_true, ne_eq, not_true_eq_false, and_false, or_false, Option.some.injEq]
          constructor
          · intro e; exact (Prod.mk.inj e).1.symm
          · intro e; rw [e]
        · simp only [e2, if_false]
          rw [h.exact key r0 hk w m]
          constructor
          · rintro (e | ⟨h1, _⟩)
            · exact absurd (Prod.mk.inj e).2.symm e2
            · exact h1
          · intro h1; exact Or.inr ⟨h1, fun e => e2 e.symm⟩
      · simp only [e, if_false] at hr ⊢
        exact h.exact k r hr w m

theorem iinv_remove {s : Store} (h : IInv s) (n key : Nat) : IInv (s.removeProp n key) where
  onlyLive := by
    intro m k x hx
    simp only [Store.removeProp, get_remove] at hx
    split at hx
    · cases hx
    · exact h.onlyLive m k x hx
  fresh := h.fresh
  exact := by
    intro k r hr w m
    simp only [Store.removeProp, get_remove]
    simp only [Store.removeProp, idxOnRemove] at hr
    cases hk : aget s.idx key with
    | none =>
      rw [hk] at hr
      have hne : key ≠ k := by
        intro e; subst e; rw [hk] at hr; cases hr
      simp only [hne, false_and, if_false]
      exact h.exact k r hr w m
    | some r0 =>
      rw [hk] at hr
      simp only [aget_aset] at hr
      by_cases e : key = k
      · subst e
        simp only [if_true, Option.some.injEq] at hr
        subst hr
        rw [mem_dropOld_exact (fun w' => h.exact key r0 hk w' n), h.exact key r0 hk w m]
        by_cases e2 : n = m
        · subst e2; simp
        · simp only [e2, and_false, if_false]
          constructor
          · exact fun h1 => h1.1
          · exact fun h1 => ⟨h1, fun e => e2 e.symm⟩
      · simp only [e, if_false, false_and] at hr ⊢
        exact h.exact k r hr w m

theorem iinv_delete {s : Store} (h : IInv s) (n : Nat) : IInv (s.deleteNode n) := by
  unfold Store.deleteNode
  split
  · exact {
      onlyLive := by
        intro m k x hx
        simp only [get_removeAll] at hx
        by_cases e : n = m
        · simp [e] at hx
        · simp only [e, if_false] at hx
          have := h.onlyLive m k x hx
          simp only [List.mem_filter, bne_iff_ne, ne_eq]
          exact ⟨this, fun e' => e e'.symm⟩
      fresh := by
        intro m hm
        exact h.fresh m (List.mem_filter.mp hm).1
      exact := by
        intro k r hr w m
        simp only [get_removeAll]
        have h2 : aget (s.idx.map (fun p => (p.1, dropOld p.2 n (s.props.get n p.1)))) k
            = (aget s.idx k).map (fun r => dropOld r n (s.props.get n k)) :=
          aget_map (fun k r => dropOld r n (s.props.get n k)) s.idx k
        simp only at hr
        rw [h2] at hr
        cases hk : aget s.idx k with
        | none => rw [hk] at hr; cases hr
        | some r0 =>
          rw [hk] at hr
          simp only [Option.map_some, Option.some.injEq] at hr
          subst hr
          rw [mem_dropOld_exact (fun w' => h.exact k r0 hk w' n), h.exact k r0 hk w m]
          by_cases e : n = m
          · subst e; simp
          · simp only [e, if_false]
            constructor
            · exact fun h1 => h1.1
            · exact fun h1 => ⟨h1, fun e' => e e'.symm⟩ }
  · exact h

theorem iinv_createIndex {s : Store} (h : IInv s) (key : Nat) : IInv (s.createIndex key) := by
  unfold Store.createIndex
  split
  · exact h
  · exact {
      onlyLive := h.onlyLive
      fresh := h.fresh
      exact := by
        intro k r hr w m
        simp only [aget_aset] at hr
        by_cases e : key = k
        · subst e
          simp only [if_true, Option.some.injEq] at hr
          subst hr
          unfold Store.builtRel
          simp only [List.mem_filterMap, Option.map_eq_some_iff, Prod.mk.injEq]
          constructor
          · rintro ⟨a, _, x, hx, rfl, rfl⟩; exact hx
          · intro hx; exact ⟨m, h.onlyLive m key w hx, w, hx, rfl, rfl⟩
        · simp only [e, if_false] at hr
          exact h.exact k r hr w m }

theorem iinv_dropIndex {s : Store} (h : IInv s) (key : Nat) : IInv (s.dropIndex key) where
  onlyLive := h.onlyLive
  fresh := h.fresh
  exact := by
    intro k r hr w m
    simp only [Store.dropIndex, aget_aerase] at hr
    split at hr
    · cases hr
    · exact h.exact k r hr w m

theorem iinv_step {s : Store} (h : IInv s) (op : SOp) (hw : wfOp s op) : IInv (s.step op) := by
  cases op with
  | node =>
    exact {
      onlyLive := fun n key x hx => List.mem_cons_of_mem _ (h.onlyLive n key x hx)
      exact := h.exact
      fresh := by
        intro n hn
        simp only [Store.step, Store.createNode, List.mem_cons] at hn ⊢
        rcases hn with rfl | hn
        · omega
        · have := h.fresh n hn; omega }
  | set n key v => exact iinv_set h n key v hw
  | remove n key => exact iinv_remove h n key
  | delnode n => exact iinv_delete h n
  | rebuild ords =>
    exact {
      onlyLive := by
        intro n key x hx
        simp only [Store.step, Store.rebuild, get_rebuild] at hx
        exact h.onlyLive n key x hx
      exact := by
        intro k r hr w m
        simp only [Store.step, Store.rebuild, get_rebuild] at hr ⊢
        exact h.exact k r hr w m
      fresh := h.fresh }
  | index key => exact iinv_createIndex h key
  | dropindex key => exact iinv_dropIndex h key

theorem iinv_foldl : ∀ (ops : List SOp) (s : Store), IInv s → wfRun s ops → IInv (ops.foldl Store.step s)
  | [], _, h, _ => h
  | op :: rest, s, h, hw => iinv_foldl rest (s.step op) (iinv_step h op hw.1) hw.2

theorem iinv_run (ops : List SOp) (hw : wfRun {} ops) : IInv (Store.run ops) :=
  iinv_foldl ops {} ⟨by intro n k x hx; simp [Storage.get, aget] at hx,
    by intro k r hr; simp [aget] at hr, by intro n hn; simp at hn⟩ hw

theorem mem_scanFind (s : Store) (key : Nat) (v : V) (n : Nat) :
    n ∈ s.scanFind key v ↔ n ∈ s.live ∧ ∃ x, s.props.get n key = some x ∧ valEq x v = true := by
  unfold Store.scanFind
  simp only [List.mem_filter]
  cases s.props.get n key <;> simp [holds]

/-- what the indexed lookup returns in a reachable store: the nodes whose current value is
identical to `v` (bitwise for floats) -/
theorem mem_find_indexed (ops : List SOp) (hw : wfRun {} ops) (key : Nat) (v : V) (n : Nat)
    (hi : (Store.run ops).hasIndex key = true) :
    n ∈ (Store.run ops).find key v ↔ (Store.run ops).props.get n key = some v := by
  have hinv := iinv_run ops hw
  unfold Store.find
  unfold Store.hasIndex at hi
  cases hk : aget (Store.run ops).idx key with
  | none => simp [hk] at hi
  | some r =>
    simp only
    rw [mem_relLookup, hinv.exact key r hk v n]

/-- **(b) (partial).** For every history in which writes go to live nodes — with index creation
and drop at any points, overwrites, removes, node deletions, rebuilds — `find_nodes_by_property`
returns, as a set, exactly what the scan returns, provided the two equalities in play
(`HashableValue` = bit identity in the index, `Value ==` = IEEE `==` in the scan) agree on the
column for the looked-up value. They disagree only for NaN and ±0.0 (`valEq_iff_eq`). -/
theorem c10_index_eq_scan_partial (ops : List SOp) (hw : wfRun {} ops) (key : Nat) (v : V)
    (hagree : ∀ n x, (Store.run ops).props.get n key = some x → (valEq x v = true ↔ x = v)) :
    ∀ n, n ∈ (Store.run ops).find key v ↔ n ∈ (Store.run ops).scanFind key v := by
  intro n
  have hinv := iinv_run ops hw
  rw [mem_scanFind]
  cases hi : (Store.run ops).hasIndex key with
  | false =>
    unfold Store.hasIndex at hi
    unfold Store.find
    cases hk : aget (Store.run ops).idx key with
    | some r => simp [hk] at hi
    | none => simp only; rw [mem_scanFind]
  | true =>
    rw [mem_find_indexed ops hw key v n hi]
    constructor
    · intro hx
      exact ⟨hinv.onlyLive n key v hx, v, hx, (hagree n v hx).mpr rfl⟩
    · rintro ⟨_, x, hx, he⟩
      rw [(hagree n x hx).mp he] at hx; exact hx

/-- creating or dropping the index never changes the answer (same hypotheses) -/
theorem c10_index_toggle_invariant (ops : List SOp) (hw : wfRun {} ops) (key : Nat) (v : V)
    (hagree : ∀ n x, (Store.run ops).props.get n key = some x → (valEq x v = true ↔ x = v)) (n : Nat) :
    (n ∈ (Store.run (ops ++ [.index key])).find key v ↔ n ∈ (Store.run ops).find key v) ∧
    (n ∈ (Store.run (ops ++ [.dropindex key])).find key v ↔ n ∈ (Store.run ops).find key v) := by
  have wf1 : ∀ op, wfOp (Store.run ops) op → wfRun {} (ops ++ [op]) := by
    intro op hop
    have gen : ∀ (l : List SOp) (s : Store), wfRun s l → wfOp (l.foldl Store.step s) op → wfRun s (l ++ [op]) := by
      intro l
      induction l with
      | nil => intro s _ h; exact ⟨h, trivial⟩
      | cons o rest ih => intro s h1 h2; exact ⟨h1.1, ih (s.step o) h1.2 h2⟩
    exact gen ops {} hw hop
  have e1 : ∀ op, Store.run (ops ++ [op]) = (Store.run ops).step op := by
    intro op; simp [Store.run, List.foldl_append]
  have g1 : ∀ op m k, (op = .index key ∨ op = .dropindex key) →
      ((Store.run ops).step op).props.get m k = (Store.run ops).props.get m k := by
    intro op m k hop
    rcases hop with rfl | rfl
    · simp only [Store.step, Store.createIndex]; split <;> rfl
    · rfl
  have l1 : ∀ op, (op = .index key ∨ op = .dropindex key) →
      ((Store.run ops).step op).live = (Store.run ops).live := by
    intro op hop
    rcases hop with rfl | rfl
    · simp only [Store.step, Store.createIndex]; split <;> rfl
    · rfl
  have main : ∀ op, (op = .index key ∨ op = .dropindex key) →
      (n ∈ (Store.run (ops ++ [op])).find key v ↔ n ∈ (Store.run ops).find key v) := by
    intro op hop
    have hwop : wfOp (Store.run ops) op := by rcases hop with rfl | rfl <;> trivial
    rw [c10_index_eq_scan_partial (ops ++ [op]) (wf1 op hwop) key v
        (by intro m x hx; rw [e1, g1 op m key hop] at hx; exact hagree m x hx) n,
      c10_index_eq_scan_partial ops hw key v hagree n, mem_scanFind, mem_scanFind, e1, l1 op hop]
    simp only [g1 op n key hop]
  exact ⟨main _ (Or.inl rfl), main _ (Or.inr rfl)⟩

/-- where `Value ==` and bit identity differ: only on floats that are NaN or zero -/
theorem valEq_iff_eq (x v : V)
    (hv : ∀ b, v = .float b → b < 2 ^ 64 ∧ isNaN b = false ∧ mag b ≠ 0)
    (hx : ∀ b, x = .float b → b < 2 ^ 64) : valEq x v = true ↔ x = v := by
  cases x <;> cases v <;> simp [valEq]
  rename_i a b
  obtain ⟨hb, hn, hm⟩ := hv b rfl
  have ha := hx a rfl
  unfold feq
  constructor
  · intro h
    simp only [Bool.and_eq_true, Bool.not_eq_true', beq_iff_eq] at h
    obtain ⟨⟨_, _⟩, hk⟩ := h
    unfold key signBit mag at hk
    unfold mag at hm
    split at hk <;> split at hk <;> omega
  · intro e
    subst e
    simp [hn]

/-! ### (b) at full strength, and why it is false -/

def IndexEqScan : Prop :=
  ∀ (ops : List SOp) (key : Nat) (v : V) (n : Nat),
    n ∈ (Store.run ops).find key v ↔ n ∈ (Store.run ops).scanFind key v

def f64_negzero : Nat := 0x8000000000000000

/-- W: ±0.0. A node holds 0.0; looking up −0.0 finds it by scan (`0.0 == -0.0`) and misses it
through the index (different bits). -/
theorem c10_w_index_negzero :
    let ops := [SOp.node, .set 0 0 (.float 0)]
    (Store.run ops).find 0 (.float f64_negzero) = [0] ∧
    (Store.run (ops ++ [.index 0])).find 0 (.float f64_negzero) = [] := by decide

/-- W: NaN. A node holds NaN; the scan never finds it (`NaN != NaN`), the index does. -/
theorem c10_w_index_nan :
    let ops := [SOp.node, .set 0 0 (.float f64_nan)]
    (Store.run ops).find 0 (.float f64_nan) = [] ∧
    (Store.run (ops ++ [.index 0])).find 0 (.float f64_nan) = [0] := by decide

/-- W: a property written to an id that is not a live node (the store does not check):
the index returns the id, the scan (over live nodes) does not. -/
theorem c10_w_index_nonlive :
    let ops := [SOp.index 0, .set 5 0 (.int 1)]
    (Store.run ops).find 0 (.int 1) = [5] ∧
    (Store.run (ops ++ [.dropindex 0])).find 0 (.int 1) = [] := by decide

/-- W: the converse loss — a property written before the node exists, index built in between:
the live node is missing from the indexed answer. -/
theorem c10_w_index_misses_live :
    let ops := [SOp.set 0 0 (.int 1), .index 0, .node]
    (Store.run ops).find 0 (.int 1) = [] ∧ (Store.run ops).scanFind 0 (.int 1) = [0] := by decide

theorem c10_index_eq_scan_refuted : ¬ IndexEqScan := by
  intro h
  have := h [.node, .set 0 0 (.float f64_nan), .index 0] 0 (.float f64_nan) 0
  revert this; decide

/-- N: non-vacuity — overwrites, a remove, a node deletion and an index created in the middle;
the indexed answer is the scan answer. -/
theorem c10_nv_index :
    let ops := [SOp.node, .node, .node, .set 0 0 (.int 1), .set 1 0 (.int 1), .index 0,
      .set 1 0 (.int 2), .set 2 0 (.int 1), .remove 0 0, .set 1 0 (.int 1), .delnode 2]
    wfRun {} ops ∧ (Store.run ops).find 0 (.int 1) = [1] ∧ (Store.run ops).scanFind 0 (.int 1) = [1] := by
  decide

/-! ## 7. (c) The planner's path choice does not matter -/

theorem mem_genericPath (s : Store) (key : Nat) (op : Op) (lit : V) (n : Nat) :
    n ∈ s.genericPath key op lit ↔
      n ∈ s.live ∧ ∃ x, s.props.get n key = some x ∧ fsat op x lit = true := by
  unfold Store.genericPath
  simp only [List.mem_filter]
  cases s.props.get n key <;> simp [holds]

theorem mem_scanRange (s : Store) (key : Nat) (lo hi : Option V) (li ui : Bool) (n : Nat) :
    n ∈ s.scanRange key lo hi li ui ↔
      n ∈ s.live ∧ ∃ x, s.props.get n key = some x ∧ valueInRange x lo hi li ui = true := by
  unfold Store.scanRange
  simp only [List.mem_filter]
  cases s.props.get n key <;> simp [holds]

theorem cmpR_sub_cmp {x v : V} {o : Ordering} (h : cmpR x v = some o) : cmp x v = some o := by
  cases x <;> cases v <;> simp [cmpR, cmp] at h ⊢ <;> exact h

/-- membership in a range by the range path's own comparison implies membership by the zone
map's order -/
theorem valueInRange_imp_zsat {x : V} {lo hi : Option V} {li ui : Bool}
    (h : valueInRange x lo hi li ui = true) : satRange zsat x lo hi li ui = true := by
  unfold valueInRange at h
  unfold satRange
  simp only [Bool.and_eq_true] at h ⊢
  obtain ⟨h1, h2⟩ := h
  constructor
  · cases lo with
    | none => rfl
    | some l =>
      simp only [lowerSat] at h1
      cases hc : cmpR x l with
      | none => simp [hc, lowerIn] at h1
      | some o =>
        have := cmpR_sub_cmp hc
        cases o <;> cases li <;> simp [hc, lowerIn, boundOp, zsat, this] at h1 ⊢
  · cases hi with
    | none => rfl
    | some u =>
      simp only [upperSat] at h2
      cases hc : cmpR x u with
      | none => simp [hc, upperIn] at h2
      | some o =>
        have := cmpR_sub_cmp hc
        cases o <;> cases ui <;> simp [hc, upperIn, boundOp, zsat, this] at h2 ⊢

/-- the bounds the planner hands to `find_nodes_in_range` for `n.key <op> lit` -/
def rangeArgs (op : Op) (lit : V) : Option V × Option V × Bool × Bool :=
  match op with
  | .lt => (none, some lit, false, false)
  | .le => (none, some lit, false, true)
  | .gt => (some lit, none, false, false)
  | .ge => (some lit, none, true, false)
  | _ => (none, none, false, false)

theorem rangePath_eq (s : Store) (key : Nat) (op : Op) (lit : V) (h : op.isRange = true) :
    s.rangePath key op lit =
      s.findRange key (rangeArgs op lit).1 (rangeArgs op lit).2.1 (rangeArgs op lit).2.2.1
        (rangeArgs op lit).2.2.2 := by
  cases op <;> simp [Op.isRange] at h <;> rfl

/-- the range path's own acceptance test for `x <op> lit` -/
def rsat (op : Op) (x lit : V) : Bool :=
  valueInRange x (rangeArgs op lit).1 (rangeArgs op lit).2.1 (rangeArgs op lit).2.2.1
    (rangeArgs op lit).2.2.2

/-- **Pointwise agreement of the comparison semantics in play** for a stored value `x` and the
literal: nulls do not meet `<>`; for `=`, the filter's ε-equality coincides with identity (the
index key equality); for `<, <=, >, >=`, the range path's test coincides with the filter's. -/
structure SemAgree (op : Op) (x lit : V) : Prop where
  neNull : op = .ne → x ≠ .null
  eqId : op = .eq → (fEq x lit = true ↔ x = lit)
  range : op.isRange = true → rsat op x lit = fsat op x lit

/-- when may the planner take a path -/
def applicable (s : Store) (key : Nat) (op : Op) (lit : V) : Path → Prop
  | .pruned => s.props.mightMatch key op lit = false
  | .index => op = .eq ∧ s.hasIndex key = true
  | .range => op.isRange = true
  | .generic => True

theorem choosePath_applicable (s : Store) (key : Nat) (op : Op) (lit : V) :
    applicable s key op lit (s.choosePath key op lit) := by
  unfold Store.choosePath
  cases h1 : s.props.mightMatch key op lit with
  | false => simp [applicable, h1]
  | true =>
    simp only [Bool.not_true, Bool.false_eq_true, if_false]
    by_cases h2 : op = .eq
    · cases h3 : s.hasIndex key with
      | true => simp [applicable, h2, h3]
      | false => simp [applicable, h2, h3, Op.isRange]
    · simp only [h2, false_and, if_false]
      cases h3 : op.isRange with
      | true => simp [applicable, h3]
      | false => simp [applicable]

theorem findProps_single (s : Store) (key : Nat) (lit : V) (hi : s.hasIndex key = true) (n : Nat) :
    n ∈ s.findProps [(key, lit)] ↔ n ∈ s.find key lit := by
  unfold Store.hasIndex at hi
  unfold Store.findProps Store.find
  cases hk : aget s.idx key with
  | none => simp [hk] at hi
  | some r =>
    simp only [bestStart, hk]
    cases he : (relLookup r lit).isEmpty with
    | true =>
      have : relLookup r lit = [] := by simpa using he
      simp [this]
    | false =>
      simp [retainConds]

section Planner
variable {P : V → Prop} (hG : Good P) (ops : List SOp) (hw : wfRun {} ops)
  (hops : ∀ o ∈ ops, o.valOk P) (key : Nat) (op : Op) (lit : V) (hl : P lit)
  (hag : ∀ n x, (Store.run ops).props.get n key = some x → SemAgree op x lit)
include hG hw hops hl hag

/-- **(c) (partial).** For every history (writes to live nodes, values of a good class; index
creation/drop, removes, deletions, rebuilds anywhere) and every literal of that class on whose
comparison with the column's current values the semantics agree (`SemAgree`): every path the
planner may take — zone-map prune, index lookup, range lookup, generic filter — yields the same
node set as the generic filter. -/
theorem c10_planner_paths_agree_partial (p : Path)
    (hp : applicable (Store.run ops) key op lit p) :
    ∀ n, n ∈ (Store.run ops).runPath key op lit p ↔ n ∈ (Store.run ops).genericPath key op lit := by
  intro n
  have hinv := iinv_run ops hw
  cases p with
  | generic => exact Iff.rfl
  | pruned =>
    simp only [Store.runPath, List.not_mem_nil, false_iff]
    rw [mem_genericPath]
    rintro ⟨_, x, hx, hf⟩
    have ag := hag n x hx
    have := c10_zone_map_sound_filter_partial hG ops hops key op lit hl hp n x hx ag.neNull
      (by
        intro he hfe
        have : x = lit := (ag.eqId he).mp hfe
        rw [this]; exact hG.selfEq lit hl)
    rw [this] at hf; cases hf
  | index =>
    obtain ⟨hop, hi⟩ := hp
    subst hop
    simp only [Store.runPath, Store.indexPath, List.mem_filter, Bool.and_eq_true,
      List.contains_iff_mem]
    rw [findProps_single _ key lit hi, mem_find_indexed ops hw key lit n hi, mem_genericPath]
    constructor
    · rintro ⟨hx, hlv, hh⟩
      rw [hx] at hh
      exact ⟨hlv, lit, hx, by simpa [holds] using hh⟩
    · rintro ⟨hlv, x, hx, hf⟩
      have ag := hag n x hx
      have e : x = lit := (ag.eqId rfl).mp (by simpa [fsat] using hf)
      subst e
      exact ⟨hx, hlv, by simp only [hx, holds]; exact hf⟩
  | range =>
    simp only [applicable] at hp
    simp only [Store.runPath]
    rw [rangePath_eq _ key op lit hp, mem_genericPath]
    unfold Store.findRange
    have hscan : n ∈ (Store.run ops).scanRange key (rangeArgs op lit).1 (rangeArgs op lit).2.1
          (rangeArgs op lit).2.2.1 (rangeArgs op lit).2.2.2 ↔
        (n ∈ (Store.run ops).live ∧ ∃ x, (Store.run ops).props.get n key = some x ∧ fsat op x lit = true) := by
      rw [mem_scanRange]
      constructor
      · rintro ⟨hlv, x, hx, hr⟩
        exact ⟨hlv, x, hx, by rw [← (hag n x hx).range hp]; exact hr⟩
      · rintro ⟨hlv, x, hx, hr⟩
        exact ⟨hlv, x, hx, by have := (hag n x hx).range hp; unfold rsat at this; rw [this]; exact hr⟩
    cases hm : (Store.run ops).props.mightRange key (rangeArgs op lit).1 (rangeArgs op lit).2.1
        (rangeArgs op lit).2.2.1 (rangeArgs op lit).2.2.2 with
    | true => simp only [if_true]; exact hscan
    | false =>
      simp only [Bool.false_eq_true, if_false, List.not_mem_nil, false_iff]
      rintro ⟨hlv, x, hx, hr⟩
      have hlo : ∀ l, (rangeArgs op lit).1 = some l → P l := by
        intro l hl'; cases op <;> simp [rangeArgs] at hl' <;> (subst hl'; exact hl)
      have hhi : ∀ u, (rangeArgs op lit).2.1 = some u → P u := by
        intro u hu'; cases op <;> simp [rangeArgs] at hu' <;> (subst hu'; exact hl)
      have hz := c10_zone_map_range_sound hG.coh ops hops key _ _ _ _ hlo hhi hm n x hx
      have hv : valueInRange x (rangeArgs op lit).1 (rangeArgs op lit).2.1 (rangeArgs op lit).2.2.1
          (rangeArgs op lit).2.2.2 = true := by
        have := (hag n x hx).range hp; unfold rsat at this; rw [this]; exact hr
      rw [valueInRange_imp_zsat hv] at hz; cases hz

/-- the planner's answer is the generic filter's answer: a function of the live nodes and their
current values only — not of the history, the zone-map state or the set of indexes -/
theorem c10_plan_eq_generic_partial :
    ∀ n, n ∈ (Store.run ops).planFilter key op lit ↔
      (n ∈ (Store.run ops).live ∧ ∃ x, (Store.run ops).props.get n key = some x ∧ fsat op x lit = true) := by
  intro n
  unfold Store.planFilter
  rw [c10_planner_paths_agree_partial hG ops hw hops key op lit hl hag _
    (choosePath_applicable _ key op lit) n, mem_genericPath]

end Planner

theorem good_mono {P Q : V → Prop} (h : ∀ v, Q v → P v) (hG : Good P) : Good Q where
  coh := coherent_mono h hG.coh
  bridge op x v hx hv := hG.bridge op x v (h x hx) (h v hv)
  selfEq v hv := hG.selfEq v (h v hv)

/-- integers (full i64 range) and strings -/
def IntOrStr : V → Prop
  | .int _ => True
  | .str _ => True
  | _ => False

theorem good_intOrStr : Good IntOrStr :=
  good_mono (fun v h => by cases v <;> simp [IntOrStr, NoFloat] at h ⊢) good_noFloat

theorem upperIn_false (o : Option Ordering) : upperIn false o = (o == some .lt) := by
  cases o with
  | none => rfl
  | some o => cases o <;> rfl
theorem upperIn_true (o : Option Ordering) : upperIn true o = (o == some .lt || o == some .eq) := by
  cases o with
  | none => rfl
  | some o => cases o <;> rfl
theorem lowerIn_false (o : Option Ordering) : lowerIn false o = (o == some .gt) := by
  cases o with
  | none => rfl
  | some o => cases o <;> rfl
theorem lowerIn_true (o : Option Ordering) : lowerIn true o = (o == some .gt || o == some .eq) := by
  cases o with
  | none => rfl
  | some o => cases o <;> rfl

theorem cmpR_eq_fCmp_intOrStr {x lit : V} (hx : IntOrStr x) (hl : IntOrStr lit) :
    cmpR x lit = fCmp x lit := by
  cases x <;> cases lit <;> simp [IntOrStr] at hx hl <;> rfl

/-- on integers and strings all the comparison semantics in play coincide -/
theorem semAgree_intOrStr (op : Op) {x lit : V} (hx : IntOrStr x) (hl : IntOrStr lit) :
    SemAgree op x lit where
  neNull := by intro _ e; subst e; simp [IntOrStr] at hx
  eqId := by
    intro _
    cases x <;> cases lit <;> simp [IntOrStr, fEq] at hx hl ⊢
  range := by
    intro hr
    have e := cmpR_eq_fCmp_intOrStr hx hl
    cases op <;> simp [Op.isRange] at hr <;>
      simp [rsat, rangeArgs, valueInRange, lowerSat, upperSat, fsat, e, upperIn_false, upperIn_true,
        lowerIn_false, lowerIn_true]

/-- **(c) for integer / string columns (full within its scope).** Every history that writes
integers (whole i64 range) and strings to live nodes; every integer or string literal; every
comparison operator; every set of indexes; any zone-map state: whichever path the planner takes,
the node set is the generic filter's. -/
theorem c10_planner_int_str (ops : List SOp) (hw : wfRun {} ops)
    (hops : ∀ o ∈ ops, o.valOk IntOrStr) (key : Nat) (op : Op) (lit : V) (hl : IntOrStr lit)
    (p : Path) (hp : applicable (Store.run ops) key op lit p) :
    ∀ n, n ∈ (Store.run ops).runPath key op lit p ↔ n ∈ (Store.run ops).genericPath key op lit :=
  c10_planner_paths_agree_partial good_intOrStr ops hw hops key op lit hl
    (fun _ _ hx => semAgree_intOrStr op (current_value_ok good_intOrStr.coh ops hops hx) hl) p hp

/-! ### (c) at full strength, and why it is false -/

def PlannerPathIndependent : Prop :=
  ∀ (ops : List SOp) (key : Nat) (op : Op) (lit : V) (n : Nat),
    n ∈ (Store.run ops).planFilter key op lit ↔ n ∈ (Store.run ops).genericPath key op lit

def f64_1p5 : Nat := 0x3ff8000000000000

/-- W: the range path compares without Int/Float coercion (`compare_values_for_range`), the
generic filter with it: `x > 1.5` over {2} is empty by the range path, {node} by the filter. -/
theorem c10_w_plan_range_int_float :
    let s := Store.run [.node, .set 0 0 (.int 2)]
    s.choosePath 0 .gt (.float f64_1p5) = .range ∧ s.planFilter 0 .gt (.float f64_1p5) = [] ∧
      s.genericPath 0 .gt (.float f64_1p5) = [0] := by decide

/-- W: booleans order in the range path (`false < true`) and do not compare in the filter. -/
theorem c10_w_plan_range_bool :
    let s := Store.run [.node, .set 0 0 (.bool false)]
    s.planFilter 0 .lt (.bool true) = [0] ∧ s.genericPath 0 .lt (.bool true) = [] := by decide

/-- W: NaN passes `<=` in the filter (three-way comparison lands on 0) and fails it in the
range path. -/
theorem c10_w_plan_range_nan :
    let s := Store.run [.node, .set 0 0 (.float f64_nan)]
    s.planFilter 0 .le (.float f64_one) = [] ∧ s.genericPath 0 .le (.float f64_one) = [0] := by decide

set_option exponentiation.threshold 1100 in
/-- W: creating an index removes a row. `x = 1.0` over {1}: without the index the filter's
numeric equality finds the node; with it, the lookup key `Float64(1.0)` is not `Int64(1)`. -/
theorem c10_w_plan_index_int_float :
    let ops := [SOp.node, .set 0 0 (.int 1)]
    (Store.run ops).planFilter 0 .eq (.float f64_one) = [0] ∧
    (Store.run (ops ++ [.index 0])).planFilter 0 .eq (.float f64_one) = [] := by decide

set_option exponentiation.threshold 1100 in
/-- W: the answer depends on the history, not on the data. Both stores hold exactly {node 0:
0.0}; `x = 1e-20` is pruned in the first (zone map [0, 0]) and answered by the filter's
ε-equality in the second (zone map [0, 1] after an overwrite). -/
theorem c10_w_plan_history_dependent :
    let s1 := Store.run [.node, .set 0 0 (.float 0)]
    let s2 := Store.run [.node, .set 0 0 (.float f64_one), .set 0 0 (.float 0)]
    s1.live = s2.live ∧ s1.props.get 0 0 = s2.props.get 0 0 ∧
      s1.planFilter 0 .eq (.float f64_1em20) = [] ∧ s2.planFilter 0 .eq (.float f64_1em20) = [0] := by
  decide

/-- W: a stored NULL and `<>` — pruned by the zone map, accepted by the filter. -/
theorem c10_w_plan_pruned_null :
    let s := Store.run [.node, .node, .set 0 0 (.int 5), .set 1 0 .null]
    s.planFilter 0 .ne (.int 5) = [] ∧ s.genericPath 0 .ne (.int 5) = [1] := by decide

theorem c10_planner_path_independent_refuted : ¬ PlannerPathIndependent := by
  intro h
  have := h [.node, .set 0 0 (.int 2)] 0 .gt (.float f64_1p5) 0
  revert this; decide

/-- N: non-vacuity of (c): a history with overwrite, remove, deletion, rebuild and index churn
over integers; each path that is applicable is exercised and agrees with the filter. -/
theorem c10_nv_planner :
    let ops := [SOp.node, .node, .node, .node, .set 0 0 (.int 1), .set 1 0 (.int 7), .index 0,
      .set 1 0 (.int 3), .set 2 0 (.int 9), .remove 0 0, .delnode 2, .rebuild [], .set 3 0 (.int 3)]
    wfRun {} ops ∧ (∀ o ∈ ops, o.valOk IntOrStr) ∧
    (Store.run ops).choosePath 0 .eq (.int 3) = .index ∧ (Store.run ops).planFilter 0 .eq (.int 3) = [3, 1] ∧
    (Store.run ops).choosePath 0 .gt (.int 2) = .range ∧ (Store.run ops).planFilter 0 .gt (.int 2) = [3, 1] ∧
    (Store.run ops).choosePath 0 .gt (.int 5) = .pruned ∧ (Store.run ops).genericPath 0 .gt (.int 5) = [] ∧
    (Store.run ops).choosePath 0 .ne (.int 5) = .generic := by
  refine ⟨by decide, ?_, by decide, by decide, by decide, by decide, by decide, by decide, by decide⟩
  intro o ho
  simp only [List.mem_cons, List.not_mem_nil, or_false] at ho
  rcases ho with rfl | rfl | rfl | rfl | rfl | rfl | rfl | rfl | rfl | rfl | rfl | rfl | rfl <;>
    simp [SOp.valOk, IntOrStr]

end Grafeo.ZoneMap
